import Ebv.Lemmas.Sdo
/-! C16 — SDO transfers carry values byte-for-byte.

The theorems are about `SdoSystem.system`: the master of `Ebv.Sdo` (a transcription of
`Terminal.sdo_read/sdo_write/mbx_send/mbx_recv` after the `fix:` commits 7fef356 and a0eb33f) composed with the
conformant server of `Ebv.SdoServer`.  Uploads and downloads are exact for every content, every length (expedited,
one frame, any number of segments), all mailbox sizes, indices, counters and schedules (delays, unrelated mail,
drain by `mbx_send`); segment toggles alternate from 0 and every message fits its mailbox.  The proofs go by
induction over the segments that are left. -/
namespace Ebv.C16
open Ebv.Bytes Ebv.Sdo Ebv.SdoServer Ebv.SdoSystem Ebv.Consts

/-! ### one exchange, anywhere in a call, under a schedule -/

def singles (rs : List (List UInt8)) : List (List (List UInt8)) := rs.map ([·])

/-- the master's state when `sched` are the slots and `rs` the answers still to come -/
def envSt (inSz cnt : Nat) (sched : List Slot) (rs : List (List UInt8)) (tr : List Ev) : St :=
  ⟨cnt, sched.map (·.full), mkMails inSz sched (singles rs), tr⟩

theorem mkMails_nil' (inSz : Nat) (sched : List Slot) :
    mkMails inSz sched (singles []) = (hdSlot sched).pre.map (toMail inSz 0) := mkMails_nil inSz sched

theorem mkMails_cons (inSz : Nat) (sched : List Slot) (r : List UInt8) (rs : List (List UInt8)) :
    mkMails inSz sched (singles (r :: rs)) =
      (hdSlot sched).pre.map (toMail inSz 0) ++ toMail inSz (hdSlot sched).delay r :: mkMails inSz sched.tail (singles rs) := by
  cases sched <;> simp [mkMails, hdSlot, singles]

theorem schedOk_tail (inSz : Nat) (sched : List Slot) (h : SchedOk inSz sched) : SchedOk inSz sched.tail := by
  cases sched with
  | nil => exact h
  | cons sl sls => exact fun x hx => h x (List.mem_cons_of_mem _ hx)

theorem length_le_mkMails (inSz : Nat) (sched : List Slot) (rs : List (List UInt8)) :
    rs.length ≤ (mkMails inSz sched (singles rs)).length := by
  induction rs generalizing sched with
  | nil => simp
  | cons r rs ih => rw [mkMails_cons]; have := ih sched.tail; simp; omega

/-- `mbx_send` with unrelated mail pending, one of which it drains when 0x805 says "full" -/
theorem send_at (inSz cnt : Nat) (fulls : List Bool) (pre : List (List UInt8)) (tail : List Mail) (tr : List Ev)
    (body : List UInt8) (hpre : ∀ m ∈ pre, unrelated inSz m = true) (hfull : fulls.headD false = true → pre ≠ [])
    (hb : body.length < 65536) :
    ∃ (tr1 : List Ev) (pre' : List (List UInt8)), (∀ m ∈ pre', unrelated inSz m = true) ∧
      sent tr1 = sent tr ++ [msgOf cnt body] ∧
      mbxSend body ⟨cnt, fulls, pre.map (toMail inSz 0) ++ tail, tr⟩ =
        (⟨cnt % mbxMod + 1, fulls.tail, pre'.map (toMail inSz 0) ++ tail, tr1⟩, .ok ()) := by
  cases hf : fulls.headD false with
  | false =>
    refine ⟨tr ++ [.st0 false, .send (msgOf cnt body), .kick], pre, hpre, ?_, mbxSend_nofull body _ hb hf⟩
    simp [sent]
  | true =>
    obtain ⟨m, pre', rfl⟩ := List.exists_cons_of_ne_nil (hfull hf)
    obtain ⟨f, fs, rfl⟩ : ∃ f fs, fulls = f :: fs := by
      cases fulls with
      | nil => simp at hf
      | cons f fs => exact ⟨f, fs, rfl⟩
    simp at hf; subst hf
    have hm := hpre m (by simp)
    unfold unrelated at hm
    cases hd : decodeMail (padTo inSz m) with
    | err e => simp [hd] at hm
    | ok td =>
      refine ⟨tr ++ [.st0 true] ++ polls 0 ++ [.send (msgOf cnt body), .kick], pre',
        fun x hx => hpre x (by simp [hx]), ?_,
        mbxSend_full body _ hb fs (toMail inSz 0 m) (pre'.map (toMail inSz 0) ++ tail) td rfl (by simp) (by simpa [toMail] using hd)⟩
      simp [sent]

theorem exchange_eq (body : List UInt8) : exchange body = (mbxSend body >>= fun _ => recvCoe) := rfl

/-- the request is written and no answer comes: the call waits, having written exactly this request more -/
theorem exch_blocked (inSz cnt : Nat) (sched : List Slot) (tr : List Ev) (body : List UInt8)
    (hs : SchedOk inSz sched) (hb : body.length < 65536) :
    ∃ s', exchange body (envSt inSz cnt sched [] tr) = (s', .err .blocked) ∧ sent s'.tr = sent tr ++ [msgOf cnt body] := by
  obtain ⟨hpre, hfull⟩ := schedOk_head inSz sched hs
  rw [← fulls_head] at hfull
  obtain ⟨tr1, pre', hpre', hsent, h⟩ := send_at inSz cnt (sched.map (·.full)) (hdSlot sched).pre [] tr body hpre hfull hb
  simp only [List.append_nil] at h
  have hr : recvCoe ⟨cnt % mbxMod + 1, (sched.map (·.full)).tail, pre'.map (toMail inSz 0), tr1⟩ =
      (⟨cnt % mbxMod + 1, (sched.map (·.full)).tail, [], tr1 ++ skipEvs pre'.length⟩, .err .blocked) := by
    have := recvCoeL_skip inSz pre' [] hpre'
    simp only [List.append_nil] at this
    simp [recvCoe, this, recvCoeL]
  refine ⟨⟨cnt % mbxMod + 1, (sched.map (·.full)).tail, [], tr1 ++ skipEvs pre'.length⟩, ?_, by simp [hsent]⟩
  rw [exchange_eq, envSt, mkMails_nil', bind_ok h]
  exact hr

/-- the request is written and the next answer arrives behind the unrelated mail: on to the next slot -/
theorem exch_ok (inSz cnt : Nat) (sched : List Slot) (tr : List Ev) (body r data : List UInt8) (rs : List (List UInt8))
    (hs : SchedOk inSz sched) (hb : body.length < 65536) (hdec : decodeMail (padTo inSz r) = .ok (mbx_COE, data)) :
    ∃ tr', sent tr' = sent tr ++ [msgOf cnt body] ∧
      exchange body (envSt inSz cnt sched (r :: rs) tr) = (envSt inSz (cnt % mbxMod + 1) sched.tail rs tr', .ok data) := by
  obtain ⟨hpre, hfull⟩ := schedOk_head inSz sched hs
  rw [← fulls_head] at hfull
  obtain ⟨tr1, pre', hpre', hsent, h⟩ := send_at inSz cnt (sched.map (·.full)) (hdSlot sched).pre
    (toMail inSz (hdSlot sched).delay r :: mkMails inSz sched.tail (singles rs)) tr body hpre hfull hb
  have h1 := recvCoeL_skip inSz pre' (toMail inSz (hdSlot sched).delay r :: mkMails inSz sched.tail (singles rs)) hpre'
  have h2 : recvCoeL (toMail inSz (hdSlot sched).delay r :: mkMails inSz sched.tail (singles rs)) =
      (polls (hdSlot sched).delay, mkMails inSz sched.tail (singles rs), .ok data) := by
    simp [recvCoeL, toMail, hdec]
  rw [h2] at h1
  refine ⟨tr1 ++ (skipEvs pre'.length ++ polls (hdSlot sched).delay), by simp [hsent], ?_⟩
  rw [exchange_eq, envSt, mkMails_cons, bind_ok h]
  simp only [recvCoe, h1, envSt]
  cases sched <;> simp

/-! ### the composed system along a conversation -/

theorem serveAll_take (s : Srv) (qs : List (List UInt8)) (k : Nat) :
    (serveAll s (qs.take k)).2 = (serveAll s qs).2.take k := by
  induction qs generalizing s k with
  | nil => simp [serveAll]
  | cons q qs ih =>
    cases k with
    | zero => simp [serveAll]
    | succ k => simp [serveAll, ih]

theorem iter_succ' {α : Type} (f : α → α) (n : Nat) (x : α) : iter f (n + 1) x = f (iter f n x) := by
  rw [iter_add]; rfl

theorem singles_take (rs : List (List UInt8)) (k : Nat) : (singles rs).take k = singles (rs.take k) := by
  simp [singles, List.map_take]

/-- if the server answers the requests `Q` one by one with `R`, and the master, given the first `j` answers, writes
exactly the first `j + 1` requests (all of them when it has all answers), then that is the run of the composed system -/
theorem conversation (c : Setup) (Q R : List (List UInt8)) (srvN : Srv) (o : Sdo.R (List UInt8))
    (hlen : Q.length = R.length) (hfit : ∀ q ∈ Q, q.length ≤ c.p.outSz)
    (hsrv : serveAll c.srv Q = (srvN, singles R))
    (hM : ∀ j, j ≤ R.length →
      sent (run c.p c.kind c.cnt c.fulls (mkMails c.p.inSz c.sched (singles (R.take j)))).1 = Q.take (j + 1))
    (ho : (run c.p c.kind c.cnt c.fulls (mkMails c.p.inSz c.sched (singles R))).2 = o) :
    round c (mailsAfter c R.length) = mailsAfter c R.length ∧
    ∀ n, R.length ≤ n → (system c n).outcome = o ∧ (system c n).objs = srvN.objs ∧
      (system c n).responses = singles R ∧ sent (system c n).trace = Q := by
  have hreq : ∀ j, j ≤ R.length → requests c (mkMails c.p.inSz c.sched (singles (R.take j))) = Q.take (j + 1) := by
    intro j hj
    simp only [requests, hM j hj]
    have hid : ∀ q ∈ Q.take (j + 1), (fun m : List UInt8 => m.take c.p.outSz) q = id q :=
      fun q hq => List.take_of_length_le (hfit q (List.mem_of_mem_take hq))
    rw [List.map_congr_left hid, List.map_id]
  have hround : ∀ j, j ≤ R.length → round c (mkMails c.p.inSz c.sched (singles (R.take j))) =
      mkMails c.p.inSz c.sched (singles (R.take (j + 1))) := by
    intro j hj
    simp only [round, hreq j hj, serveAll_take, hsrv, singles_take]
  have hafter : ∀ j, j ≤ R.length → mailsAfter c j = mkMails c.p.inSz c.sched (singles (R.take j)) := by
    intro j
    induction j with
    | zero => intro _; simp [mailsAfter, iter, singles]
    | succ j ih =>
      intro hj
      have := ih (by omega)
      unfold mailsAfter at this ⊢
      rw [iter_succ', this, hround j (by omega)]
  have hRt : R.take R.length = R := List.take_length
  have hRt1 : R.take (R.length + 1) = R := List.take_of_length_le (by omega)
  have hQt : Q.take (R.length + 1) = Q := List.take_of_length_le (by omega)
  have hm : mailsAfter c R.length = mkMails c.p.inSz c.sched (singles R) := by
    rw [hafter _ (Nat.le_refl _), hRt]
  have hfix : round c (mailsAfter c R.length) = mailsAfter c R.length := by
    have := hround _ (Nat.le_refl R.length)
    rw [hRt, hRt1] at this
    rw [hm, this]
  refine ⟨hfix, ?_⟩
  intro n hn
  rw [system_stable c R.length hfix n hn]
  have hq : requests c (mkMails c.p.inSz c.sched (singles R)) = Q := by
    have := hreq R.length (Nat.le_refl _)
    rwa [hRt, hQt] at this
  have hs : sent (run c.p c.kind c.cnt c.fulls (mkMails c.p.inSz c.sched (singles R))).1 = Q := by
    have := hM R.length (Nat.le_refl _)
    rwa [hRt, hQt] at this
  simp only [system, resultOf, hm, hq, hsrv]
  exact ⟨ho, trivial, trivial, hs⟩

/-! ### upload segments: what the server sends and what the master makes of it -/

/-- padding of a segment below 7 bytes -/
def padN (n : Nat) : Nat := if n < 7 then 7 - n else 0

/-- the payload of an upload segment response: toggle, unused bytes, last flag; data padded to 7 bytes -/
def segBody (stog : Nat) (seg : List UInt8) (last : Bool) : List UInt8 :=
  encLE 2 (svcSdoRes <<< 12) ++ [UInt8.ofNat (stog <<< 4 ||| padN seg.length <<< 1 ||| (if last then 1 else 0))] ++ seg
    ++ zeros (padN seg.length)

theorem segCmd_bits : ∀ stog < 2, ∀ n < 8, ∀ l < 2,
    (stog <<< 4 ||| n <<< 1 ||| l) < 256 ∧ (stog <<< 4 ||| n <<< 1 ||| l) &&& 0xe0 = 0 ∧
    ((stog <<< 4 ||| n <<< 1 ||| l) >>> 1) &&& 7 = n ∧ (stog <<< 4 ||| n <<< 1 ||| l) &&& 1 = l := by decide

theorem segBody_length (stog : Nat) (seg : List UInt8) (last : Bool) :
    (segBody stog seg last).length = 3 + seg.length + padN seg.length := by
  simp [segBody]; omega

/-- cutting the padding where it is: a padded segment has mailbox length 10 -/
theorem trim_seg (a b c : UInt8) (seg : List UInt8) :
    let data := a :: b :: c :: (seg ++ zeros (padN seg.length))
    let data' := if data.length = 10 then data.take (10 - padN seg.length) else data
    data'.drop 3 = seg ∧ data'.length - 3 = seg.length := by
  by_cases h7 : seg.length < 7
  · have hp : padN seg.length = 7 - seg.length := by simp [padN, h7]
    have h10 : (a :: b :: c :: (seg ++ zeros (7 - seg.length))).length = 10 := by simp; omega
    have ht : 10 - (7 - seg.length) = seg.length + 3 := by omega
    simp only [hp, h10, if_true, ht]
    simp
  · have hp : padN seg.length = 0 := by simp [padN, h7]
    simp only [hp, zeros, List.replicate_zero, List.append_nil, Nat.sub_zero]
    split
    · rename_i h10
      have : seg.length = 7 := by simp at h10; omega
      simp [this, List.take_of_length_le (Nat.le_of_eq this)]
    · simp

theorem segBody_cons (stog : Nat) (seg : List UInt8) (last : Bool) :
    segBody stog seg last = UInt8.ofNat (svcSdoRes <<< 12 % 256) :: UInt8.ofNat (svcSdoRes <<< 12 / 256 % 256) ::
      UInt8.ofNat (stog <<< 4 ||| padN seg.length <<< 1 ||| (if last then 1 else 0)) :: (seg ++ zeros (padN seg.length)) := by
  simp only [segBody, encLE, List.cons_append, List.nil_append]

/-- what the repaired `sdo_read` extracts from a segment response -/
theorem seg_decode (stog : Nat) (seg : List UInt8) (last : Bool) (hs : stog < 2) :
    let data := segBody stog seg last
    let sdocmd := byte data 2
    let data' := if data.length = 10 then data.take (10 - ((sdocmd >>> 1) &&& 7)) else data
    ¬ data.length < 3 ∧ ¬ u16 data 0 >>> 12 ≠ coe_SDORES ∧ ¬ sdocmd &&& 0xe0 ≠ 0 ∧
      data'.drop 3 = seg ∧ data'.length - 3 = seg.length ∧ (sdocmd &&& 1 ≠ 0 ↔ last = true) := by
  have hn : padN seg.length < 8 := by unfold padN; split <;> omega
  have hl : (if last then 1 else 0 : Nat) < 2 := by split <;> omega
  obtain ⟨b1, b2, b3, b4⟩ := segCmd_bits stog hs (padN seg.length) hn (if last then 1 else 0) hl
  have hcmd : byte (segBody stog seg last) 2 = stog <<< 4 ||| padN seg.length <<< 1 ||| (if last then 1 else 0) := by
    have : byte (segBody stog seg last) 2 = (stog <<< 4 ||| padN seg.length <<< 1 ||| (if last then 1 else 0)) % 256 := by
      rw [segBody_cons]; exact UInt8.toNat_ofNat'
    rw [this]; omega
  have h16 : u16 (segBody stog seg last) 0 >>> 12 = coe_SDORES := by
    have : u16 (segBody stog seg last) 0 = svcSdoRes <<< 12 := by
      simp [u16, slice, segBody, encLE, decLE]; decide
    rw [this]; decide
  have htrim := trim_seg (UInt8.ofNat (svcSdoRes <<< 12 % 256)) (UInt8.ofNat (svcSdoRes <<< 12 / 256 % 256))
    (UInt8.ofNat (stog <<< 4 ||| padN seg.length <<< 1 ||| (if last then 1 else 0))) seg
  rw [← segBody_cons] at htrim
  intro data sdocmd data'
  have e1 : sdocmd = stog <<< 4 ||| padN seg.length <<< 1 ||| (if last then 1 else 0) := hcmd
  have e2 : data' = if (segBody stog seg last).length = 10 then (segBody stog seg last).take (10 - padN seg.length)
      else segBody stog seg last := by
    show (if data.length = 10 then data.take (10 - ((sdocmd >>> 1) &&& 7)) else data) = _
    rw [e1, b3]
  refine ⟨?_, ?_, ?_, ?_, ?_, ?_⟩
  · show ¬ (segBody stog seg last).length < 3
    rw [segBody_length]; omega
  · rw [show u16 data 0 >>> 12 = coe_SDORES from h16]; simp
  · rw [e1, b2]; simp
  · rw [e2]; exact htrim.1
  · rw [e2]; exact htrim.2
  · rw [e1, b4]; cases last <;> simp

/-- the next value of the master's mailbox counter -/
def cntNext (c : Nat) : Nat := c % mbxMod + 1

/-- the first `k` upload segment requests: toggles alternate from `stog`, counters follow on -/
def segReqMsgs (p : Params) : Nat → Nat → Nat → List (List UInt8)
  | 0, _, _ => []
  | k + 1, cnt, stog => msgOf cnt (segUpReq p (16 * stog)) :: segReqMsgs p k (cntNext cnt) (stog ^^^ 1)

/-- the server's upload segment mails for the bytes `rest` that are left (`m` bounds their number) -/
def segMails (inSz : Nat) : Nat → Nat → Nat → List UInt8 → List (List UInt8)
  | 0, _, _, _ => []
  | m + 1, scnt, stog, rest =>
    if rest = [] then []
    else srvMail mbxCoE scnt (segBody stog (rest.take (inSz - 9)) (rest.drop (inSz - 9)).isEmpty) ::
      segMails inSz m (scnt % 7 + 1) (stog ^^^ 1) (rest.drop (inSz - 9))

theorem segMails_nil (inSz m scnt stog : Nat) : segMails inSz m scnt stog [] = [] := by
  cases m <;> simp [segMails]

theorem segUpReq_length (p : Params) (t : Nat) : (segUpReq p t).length = 10 := by simp [segUpReq, sdoHdr_length]

theorem segMail_decode (inSz scnt stog : Nat) (seg : List UInt8) (last : Bool) (h16 : 16 ≤ inSz) (hlt : inSz < 65536)
    (hseg : seg.length ≤ inSz - 9) :
    decodeMail (padTo inSz (srvMail mbxCoE scnt (segBody stog seg last))) = .ok (mbx_COE, segBody stog seg last) := by
  have hcoe : mbxCoE = mbx_COE := by decide
  have hl : (segBody stog seg last).length ≤ inSz - 6 := by
    rw [segBody_length]; unfold padN; split <;> omega
  rw [← hcoe]
  exact decodeMail_srvMail _ _ _ _ (by omega) (by omega) (by decide) (by decide)

theorem tog_xor (stog : Nat) (h : stog < 2) : 16 * stog ^^^ 0x10 = 16 * (stog ^^^ 1) ∧ stog ^^^ 1 < 2 := by
  have : stog = 0 ∨ stog = 1 := by omega
  rcases this with rfl | rfl <;> decide

theorem finish_run (size : Nat) (ret : List (List UInt8)) (s : St) : finish size ret size s = (s, .ok ret.flatten) := by
  simp [finish, pure, M.pure]

theorem segLoop_done (p : Params) (f size : Nat) (ret : List (List UInt8)) (t : Nat) (s : St) :
    segLoop p (f + 1) size ret size t s = (s, .ok ret.flatten) := by
  simp [segLoop, finish_run]

/-- **the upload segment loop against the server's mails**: with the first `j` of the mails that are due, the loop
writes the next `j + 1` segment requests and waits, or — having them all — returns what it had plus all of `rest` -/
theorem segLoop_run (p : Params) (hwf : Wf p) : ∀ (m : Nat) (rest : List UInt8) (j fuel size : Nat)
    (ret : List (List UInt8)) (retsize stog cnt scnt : Nat) (sched : List Slot) (tr : List Ev),
    rest.length ≤ m → stog < 2 → SchedOk p.inSz sched → retsize + rest.length = size →
    ((segMails p.inSz m scnt stog rest).take j).length < fuel →
    ∃ s', segLoop p fuel size ret retsize (16 * stog)
        (envSt p.inSz cnt sched ((segMails p.inSz m scnt stog rest).take j) tr) =
          (s', if (segMails p.inSz m scnt stog rest).length ≤ j then .ok (ret.flatten ++ rest) else .err .blocked) ∧
      sent s'.tr = sent tr ++ segReqMsgs p (min (j + 1) (segMails p.inSz m scnt stog rest).length) cnt stog := by
  obtain ⟨ho, hi, hi2, hidx, hsub, ho2⟩ := hwf
  intro m
  induction m with
  | zero =>
    intro rest j fuel size ret retsize stog cnt scnt sched tr hm _ _ hsz hf
    have hr : rest = [] := List.eq_nil_of_length_eq_zero (by omega)
    subst hr
    obtain ⟨f, rfl⟩ : ∃ f, fuel = f + 1 := ⟨fuel - 1, by omega⟩
    simp at hsz; subst hsz
    exact ⟨envSt p.inSz cnt sched [] tr, by simp [segMails, segLoop_done], by simp [segMails, segReqMsgs, envSt]⟩
  | succ m ih =>
    intro rest j fuel size ret retsize stog cnt scnt sched tr hm hst hs hsz hf
    obtain ⟨f, rfl⟩ : ∃ f, fuel = f + 1 := ⟨fuel - 1, by omega⟩
    by_cases hr : rest = []
    · subst hr
      simp at hsz; subst hsz
      exact ⟨envSt p.inSz cnt sched [] tr, by simp [segMails, segLoop_done], by simp [segMails, segReqMsgs, envSt]⟩
    · have hpos : 0 < rest.length := List.length_pos_iff.mpr hr
      have hlt : retsize < size := by omega
      have hb : (segUpReq p (16 * stog)).length < 65536 := by rw [segUpReq_length]; omega
      simp only [segMails, hr, if_false] at hf ⊢
      unfold segLoop
      simp only [hlt, if_true]
      cases j with
      | zero =>
        obtain ⟨s', h1, h2⟩ := exch_blocked p.inSz cnt sched tr (segUpReq p (16 * stog)) hs hb
        refine ⟨s', ?_, ?_⟩
        · simp only [List.take_zero, bind_err h1]; simp
        · rw [h2]; simp [segReqMsgs]
      | succ j =>
        have hseg : (rest.take (p.inSz - 9)).length ≤ p.inSz - 9 := by simp; omega
        have hdec := segMail_decode p.inSz scnt stog (rest.take (p.inSz - 9)) (rest.drop (p.inSz - 9)).isEmpty hi hi2 hseg
        simp only [List.take_succ_cons] at hf ⊢
        obtain ⟨tr', ht, hx⟩ := exch_ok p.inSz cnt sched tr (segUpReq p (16 * stog)) _ _
          ((segMails p.inSz m (scnt % 7 + 1) (stog ^^^ 1) (rest.drop (p.inSz - 9))).take j) hs hb hdec
        rw [bind_ok hx]
        obtain ⟨d1, d2, d3, d4, d5, d6⟩ := seg_decode stog (rest.take (p.inSz - 9)) (rest.drop (p.inSz - 9)).isEmpty hst
        simp only [d1, d2, d3, if_false, d4, d5]
        obtain ⟨x1, x2⟩ := tog_xor stog hst
        by_cases hlast : (rest.drop (p.inSz - 9)).isEmpty = true
        · have hl : (byte (segBody stog (rest.take (p.inSz - 9)) (rest.drop (p.inSz - 9)).isEmpty) 2 &&& 1 ≠ 0) := d6.mpr hlast
          have hnil : rest.drop (p.inSz - 9) = [] := List.isEmpty_iff.mp hlast
          have htake : rest.take (p.inSz - 9) = rest := by
            have := List.take_append_drop (p.inSz - 9) rest; rw [hnil] at this; simpa using this
          rw [if_pos hl]
          simp only [hnil, segMails_nil, htake, List.take_nil]
          rw [hsz, finish_run]
          exact ⟨envSt p.inSz (cnt % mbxMod + 1) sched.tail [] tr', by simp, by simp [envSt, ht, segReqMsgs]⟩
        · have hl : ¬ (byte (segBody stog (rest.take (p.inSz - 9)) (rest.drop (p.inSz - 9)).isEmpty) 2 &&& 1 ≠ 0) :=
            fun h => hlast (d6.mp h)
          rw [if_neg hl, x1]
          have hdl : (rest.drop (p.inSz - 9)).length ≤ m := by simp; omega
          have hsz' : retsize + (rest.take (p.inSz - 9)).length + (rest.drop (p.inSz - 9)).length = size := by
            simp; omega
          obtain ⟨s', r1, r2⟩ := ih (rest.drop (p.inSz - 9)) j f size (ret ++ [rest.take (p.inSz - 9)])
            (retsize + (rest.take (p.inSz - 9)).length) (stog ^^^ 1) (cntNext cnt) (scnt % 7 + 1) sched.tail tr'
            hdl x2 (schedOk_tail _ _ hs) hsz' (by simp at hf ⊢; omega)
          refine ⟨s', ?_, ?_⟩
          · rw [show cnt % mbxMod + 1 = cntNext cnt from rfl, r1]
            simp [List.take_append_drop, Nat.succ_le_succ_iff]
          · rw [r2, ht]
            simp [segReqMsgs, Nat.succ_min_succ]

/-- a conformant server answers an upload segment request with the next `inSz − 9` bytes -/
theorem step_upseg (s : Srv) (p : Params) (hwf : Wf p) (c stog i sub : Nat) (ca : Bool) (rest : List UInt8)
    (hsz : s.outSz = p.outSz) (hst : stog < 2) (hx : s.xfer = .up i sub ca rest stog) :
    step s (msgOf c (segUpReq p (16 * stog))) =
      ({ s with cnt := s.cnt % 7 + 1,
                xfer := if (rest.drop (s.inSz - 9)).isEmpty then .idle else .up i sub ca (rest.drop (s.inSz - 9)) (stog ^^^ 1) },
       [srvMail mbxCoE s.cnt (segBody stog (rest.take (s.inSz - 9)) (rest.drop (s.inSz - 9)).isEmpty)]) := by
  obtain ⟨ho, hi, hi2, hidx, hsub, ho2⟩ := hwf
  have hc : od_SEG_UP_REQ + 16 * stog < 256 ∧ (od_SEG_UP_REQ + 16 * stog) >>> 5 = 3 ∧
      ((od_SEG_UP_REQ + 16 * stog) >>> 4) &&& 1 = stog := by
    have : stog = 0 ∨ stog = 1 := by omega
    rcases this with rfl | rfl <;> decide
  have hsvc : u16 (segUpReq p (16 * stog)) 0 >>> 12 = 2 := by
    unfold segUpReq; rw [u16_sdoHdr0 _ _ _ _ _ (by decide)]; decide
  have hcmd : byte (segUpReq p (16 * stog)) 2 = od_SEG_UP_REQ + 16 * stog := by
    unfold segUpReq; rw [byte_sdoHdr2 _ _ _ _ _ hc.1]
  rw [step_sdo s c _ (by rw [segUpReq_length]; omega) (by rw [segUpReq_length]; omega) (by rw [segUpReq_length]; omega) hsvc,
    hcmd, hc.2.1]
  simp only [uploadSegment, hx, hc.2.2, ne_eq, not_true_eq_false, if_false, mail_eq]
  cases (rest.drop (s.inSz - 9)).isEmpty <;> simp [segBody, padN]

/-- the server answers the segment requests one by one with `segMails`, and keeps its objects -/
theorem serve_segs (p : Params) (hwf : Wf p) : ∀ (m : Nat) (rest : List UInt8) (s : Srv) (stog cnt i sub : Nat) (ca : Bool),
    rest.length ≤ m → stog < 2 → s.outSz = p.outSz → s.inSz = p.inSz →
    s.xfer = (if rest = [] then .idle else .up i sub ca rest stog) →
    ∃ sN, serveAll s (segReqMsgs p (segMails p.inSz m s.cnt stog rest).length cnt stog) =
        (sN, singles (segMails p.inSz m s.cnt stog rest)) ∧ sN.objs = s.objs := by
  intro m
  induction m with
  | zero => intro rest s stog cnt i sub ca _ _ _ _ _; exact ⟨s, by simp [segMails, segReqMsgs, serveAll, singles], rfl⟩
  | succ m ih =>
    intro rest s stog cnt i sub ca hm hst ho hi hx
    by_cases hr : rest = []
    · subst hr; exact ⟨s, by simp [segMails, segReqMsgs, serveAll, singles], rfl⟩
    · simp only [hr, if_false] at hx
      have hstep := step_upseg s p hwf cnt stog i sub ca rest ho hst hx
      rw [hi] at hstep
      simp only [segMails, hr, if_false, List.length_cons, segReqMsgs, serveAll, hstep]
      have hdl : (rest.drop (p.inSz - 9)).length ≤ m := by
        have := List.length_pos_iff.mpr hr
        have := hwf.2.1
        simp; omega
      obtain ⟨sN, h1, h2⟩ := ih (rest.drop (p.inSz - 9))
        ⟨s.outSz, p.inSz, s.objs, s.cnt % 7 + 1,
          if (rest.drop (p.inSz - 9)).isEmpty then .idle else .up i sub ca (rest.drop (p.inSz - 9)) (stog ^^^ 1)⟩
        (stog ^^^ 1) (cntNext cnt) i sub ca hdl (tog_xor stog hst).2 ho rfl
        (by cases h : rest.drop (p.inSz - 9) <;> simp)
      simp only [] at h1
      refine ⟨sN, ?_, h2⟩
      rw [h1]
      simp [singles]

/-! ### uploads of every length -/

theorem segReqMsgs_take (p : Params) (n k cnt stog : Nat) :
    (segReqMsgs p n cnt stog).take k = segReqMsgs p (min k n) cnt stog := by
  induction n generalizing k cnt stog with
  | zero => simp [segReqMsgs]
  | succ n ih =>
    cases k with
    | zero => simp [segReqMsgs]
    | succ k => simp [segReqMsgs, ih, Nat.succ_min_succ]

theorem segReqMsgs_length (p : Params) (n cnt stog : Nat) : (segReqMsgs p n cnt stog).length = n := by
  induction n generalizing cnt stog with
  | zero => rfl
  | succ n ih => simp [segReqMsgs, ih]

theorem sdoRead_eq (p : Params) : sdoRead p = (exchange (upReq p) >>= fun data => readCont p data) := rfl

/-- the payload of the normal initiate-upload response -/
def upNormBody (p : Params) (v : List UInt8) : List UInt8 :=
  sdoBody svcSdoRes (0x41 ||| caBit p.sub.isNone) p.index (subOr1 p) (encLE 4 v.length ++ v.take (p.inSz - 16))

/-- with a normal response `sdo_read` enters the segment loop with the bytes of the response -/
theorem readCont_normal (p : Params) (hwf : Wf p) (v : List UInt8) (hv : v.length < 256 ^ 4) (s : St) :
    readCont p (upNormBody p v) s = segStart p v.length (v.take (p.inSz - 16)) s := by
  obtain ⟨ho, hi, hi2, hidx, hsub, ho2⟩ := hwf
  obtain ⟨r1, r2⟩ := coeRes_facts
  have c1 : (0x41 ||| caBit p.sub.isNone) < 256 ∧ (0x41 ||| caBit p.sub.isNone) &&& 2 = 0 := by
    cases p.sub.isNone <;> decide
  unfold upNormBody
  rw [sdoBody_eq]
  have hlen : ¬ (sdoHdr (svcSdoRes <<< 12) (0x41 ||| caBit p.sub.isNone) p.index (subOr1 p) ++
      (encLE 4 v.length ++ v.take (p.inSz - 16))).length < 10 := by
    simp [sdoHdr_length]; omega
  unfold readCont
  simp only [hlen, if_false, u16_sdoHdr0 _ _ _ _ _ r1, byte_sdoHdr2 _ _ _ _ _ c1.1, u16_sdoHdr3 _ _ _ _ _ hidx, r2, c1.2,
    u32_sdoHdr6 _ _ _ _ _ _ hv, drop10_sdoHdr]
  simp

/-- **the master's side of a normal/segmented upload**: given the first `j` mails of the server it has written the
first `j + 1` requests, and with all of them it returns the object -/
theorem read_master (p : Params) (hwf : Wf p) (cnt sc : Nat) (sched : List Slot) (hs : SchedOk p.inSz sched)
    (v : List UInt8) (hv : v.length < 256 ^ 4) (j : Nat) :
    let rest := v.drop (p.inSz - 16)
    let R := srvMail mbxCoE sc (upNormBody p v) :: segMails p.inSz rest.length (sc % 7 + 1) 0 rest
    let Q := msgOf cnt (upReq p) :: segReqMsgs p (segMails p.inSz rest.length (sc % 7 + 1) 0 rest).length (cntNext cnt) 0
    sent (run p .read cnt (sched.map (·.full)) (mkMails p.inSz sched (singles (R.take j)))).1 = Q.take (j + 1) ∧
    (R.length ≤ j → (run p .read cnt (sched.map (·.full)) (mkMails p.inSz sched (singles (R.take j)))).2 = .ok v) := by
  intro rest R Q
  have hb : (upReq p).length < 65536 := by simp
  have hrun : run p .read cnt (sched.map (·.full)) (mkMails p.inSz sched (singles (R.take j))) =
      ((sdoRead p (envSt p.inSz cnt sched (R.take j) [])).1.tr, (sdoRead p (envSt p.inSz cnt sched (R.take j) [])).2) := rfl
  rw [hrun, sdoRead_eq]
  cases j with
  | zero =>
    obtain ⟨s', h1, h2⟩ := exch_blocked p.inSz cnt sched [] (upReq p) hs hb
    simp only [List.take_zero, bind_err h1, h2]
    simp [Q, sent]
  | succ j =>
    have hcoe : mbxCoE = mbx_COE := by decide
    have hdec : decodeMail (padTo p.inSz (srvMail mbxCoE sc (upNormBody p v))) = .ok (mbx_COE, upNormBody p v) := by
      rw [← hcoe]
      have hl : (upNormBody p v).length ≤ p.inSz - 6 := by
        have := hwf.2.1
        simp [upNormBody, sdoBody_length]; omega
      have := hwf.2.1; have := hwf.2.2.1
      exact decodeMail_srvMail _ _ _ _ (by omega) (by omega) (by decide) (by decide)
    obtain ⟨tr', ht, hx⟩ := exch_ok p.inSz cnt sched [] (upReq p) _ _ ((segMails p.inSz rest.length (sc % 7 + 1) 0 rest).take j) hs hb hdec
    rw [show cnt % mbxMod + 1 = cntNext cnt from rfl] at hx
    simp only [R, List.take_succ_cons, bind_ok hx, readCont_normal p hwf v hv, segStart]
    have hfuel : ((segMails p.inSz rest.length (sc % 7 + 1) 0 rest).take j).length <
        (envSt p.inSz (cntNext cnt) sched.tail ((segMails p.inSz rest.length (sc % 7 + 1) 0 rest).take j) tr').mails.length + 1 := by
      have := length_le_mkMails p.inSz sched.tail ((segMails p.inSz rest.length (sc % 7 + 1) 0 rest).take j)
      simp only [envSt]; omega
    obtain ⟨s', r1, r2⟩ := segLoop_run p hwf rest.length rest j _ v.length [v.take (p.inSz - 16)] (v.take (p.inSz - 16)).length
      0 (cntNext cnt) (sc % 7 + 1) sched.tail tr' (Nat.le_refl _) (by decide) (schedOk_tail _ _ hs)
      (by simp [rest]; omega) hfuel
    simp only [Nat.mul_zero] at r1
    rw [r1]
    refine ⟨?_, ?_⟩
    · simp only [r2, ht, Q, List.take_succ_cons, segReqMsgs_take]
      simp [sent]
    · intro hle
      have : (segMails p.inSz rest.length (sc % 7 + 1) 0 rest).length ≤ j := by simp at hle; omega
      simp only [this, if_true]
      simp [rest, List.take_append_drop]

theorem segReqMsgs_len16 (p : Params) (n cnt stog : Nat) : ∀ q ∈ segReqMsgs p n cnt stog, q.length = 16 := by
  induction n generalizing cnt stog with
  | zero => simp [segReqMsgs]
  | succ n ih =>
    intro q hq
    simp only [segReqMsgs, List.mem_cons] at hq
    rcases hq with rfl | hq
    · simp [segUpReq_length]
    · exact ih _ _ q hq

/-- what a run of the composed system looks like: outcome, the server's objects, its mails, the master's messages -/
def RunIs (c : Setup) (o : Sdo.R (List UInt8)) (objs : List Obj) (R Q : List (List UInt8)) : Prop :=
  round c (mailsAfter c R.length) = mailsAfter c R.length ∧ ∀ n, R.length ≤ n → (system c n).outcome = o ∧ (system c n).objs = objs ∧
    (system c n).responses = singles R ∧ sent (system c n).trace = Q

/-- the server's answer to the initiate-upload request for an object that is not expedited, in normal form -/
theorem step_upload_long (p : Params) (hwf : Wf p) (cnt sc : Nat) (x : Xfer) (objs : List Obj) (o : Obj) (hobj : Holds p objs o)
    (hne : ¬ (1 ≤ o.val.length ∧ o.val.length ≤ 4)) :
    step (⟨p.outSz, p.inSz, objs, sc, x⟩ : Srv) (msgOf cnt (upReq p)) =
      (⟨p.outSz, p.inSz, objs, sc % 7 + 1, if o.val.drop (p.inSz - 16) = [] then .idle
          else .up p.index (subOr1 p) p.sub.isNone (o.val.drop (p.inSz - 16)) 0⟩,
       [srvMail mbxCoE sc (upNormBody p o.val)]) := by
  rw [step_upload (⟨p.outSz, p.inSz, objs, sc, x⟩ : Srv) p hwf cnt o rfl hobj]
  by_cases h : o.val.length > p.inSz - 16
  · have : o.val.drop (p.inSz - 16) ≠ [] := by
      intro h0; have := congrArg List.length h0; simp at this; omega
    simp [uploadAnswer, hne, respond, mail_eq, h, this, upNormBody]
  · have : o.val.drop (p.inSz - 16) = [] := List.drop_eq_nil_of_le (by omega)
    simp [uploadAnswer, hne, respond, mail_eq, h, this, upNormBody]

/-- **upload, normal or segmented** (0 or at least 5 bytes, any number of segments): the run of the composed system -/
theorem read_long_run (p : Params) (cnt sc : Nat) (x : Xfer) (sched : List Slot) (objs : List Obj) (o : Obj) (hwf : Wf p)
    (hs : SchedOk p.inSz sched) (hobj : Holds p objs o) (hne : ¬ (1 ≤ o.val.length ∧ o.val.length ≤ 4))
    (hv : o.val.length < 256 ^ 4) :
    RunIs ⟨p, .read, cnt, sched, objs, sc, x⟩ (.ok o.val) objs
      (srvMail mbxCoE sc (upNormBody p o.val) ::
        segMails p.inSz (o.val.drop (p.inSz - 16)).length (sc % 7 + 1) 0 (o.val.drop (p.inSz - 16)))
      (msgOf cnt (upReq p) :: segReqMsgs p
        (segMails p.inSz (o.val.drop (p.inSz - 16)).length (sc % 7 + 1) 0 (o.val.drop (p.inSz - 16))).length (cntNext cnt) 0) := by
  have hup := step_upload_long p hwf cnt sc x objs o hobj hne
  obtain ⟨sN, h1, h2⟩ := serve_segs p hwf (o.val.drop (p.inSz - 16)).length (o.val.drop (p.inSz - 16))
    ⟨p.outSz, p.inSz, objs, sc % 7 + 1, if o.val.drop (p.inSz - 16) = [] then .idle
      else .up p.index (subOr1 p) p.sub.isNone (o.val.drop (p.inSz - 16)) 0⟩
    0 (cntNext cnt) p.index (subOr1 p) p.sub.isNone (Nat.le_refl _) (by decide) rfl rfl rfl
  have hM := fun j => read_master p hwf cnt sc sched hs o.val hv j
  have hres := conversation ⟨p, .read, cnt, sched, objs, sc, x⟩
    (msgOf cnt (upReq p) :: segReqMsgs p
      (segMails p.inSz (o.val.drop (p.inSz - 16)).length (sc % 7 + 1) 0 (o.val.drop (p.inSz - 16))).length (cntNext cnt) 0)
    (srvMail mbxCoE sc (upNormBody p o.val) ::
      segMails p.inSz (o.val.drop (p.inSz - 16)).length (sc % 7 + 1) 0 (o.val.drop (p.inSz - 16)))
    sN (.ok o.val) (by simp [segReqMsgs_length]) ?_ ?_ (fun j _ => (hM j).1) ?_
  · refine ⟨hres.1, fun n hn => ?_⟩
    obtain ⟨a, b, c, d⟩ := hres.2 n hn
    exact ⟨a, by rw [b, h2], c, d⟩
  · intro q hq
    simp only [List.mem_cons] at hq
    rcases hq with rfl | hq
    · simp; exact hwf.1
    · rw [segReqMsgs_len16 p _ _ _ q hq]; exact hwf.1
  · simp only [Setup.srv, serveAll, hup, h1]
    simp [singles]
  · have := (hM (srvMail mbxCoE sc (upNormBody p o.val) ::
      segMails p.inSz (o.val.drop (p.inSz - 16)).length (sc % 7 + 1) 0 (o.val.drop (p.inSz - 16))).length).2 (Nat.le_refl _)
    rw [List.take_length] at this
    exact this

/-- the payload of the expedited initiate-upload response -/
def upExpBody (p : Params) (v : List UInt8) : List UInt8 :=
  sdoBody svcSdoRes (0x43 ||| ((4 - v.length) <<< 2) ||| caBit p.sub.isNone) p.index (subOr1 p) (v ++ zeros (4 - v.length))

/-- **expedited upload** (1..4 bytes): the run of the composed system -/
theorem read_exp_run (p : Params) (cnt sc : Nat) (x : Xfer) (sched : List Slot) (objs : List Obj) (o : Obj) (hwf : Wf p)
    (hs : SchedOk p.inSz sched) (hobj : Holds p objs o) (h1 : 1 ≤ o.val.length) (h4 : o.val.length ≤ 4) :
    RunIs ⟨p, .read, cnt, sched, objs, sc, x⟩ (.ok o.val) objs [srvMail mbxCoE sc (upExpBody p o.val)] [msgOf cnt (upReq p)] := by
  have hup := step_upload (⟨p.outSz, p.inSz, objs, sc, x⟩ : Srv) p hwf cnt o rfl hobj
  simp only [uploadAnswer, h1, h4, and_self, if_true, respond, mail_eq] at hup
  have hb : (upReq p).length < 65536 := by simp
  have hcoe : mbxCoE = mbx_COE := by decide
  have hdec : decodeMail (padTo p.inSz (srvMail mbxCoE sc (upExpBody p o.val))) = .ok (mbx_COE, upExpBody p o.val) := by
    rw [← hcoe]
    have := hwf.2.1
    exact decodeMail_srvMail _ _ _ _ (by simp [upExpBody, sdoBody_length]; omega) (by simp [upExpBody, sdoBody_length]; omega)
      (by decide) (by decide)
  have hrun : ∀ rs, run p .read cnt (sched.map (·.full)) (mkMails p.inSz sched (singles rs)) =
      ((sdoRead p (envSt p.inSz cnt sched rs [])).1.tr, (sdoRead p (envSt p.inSz cnt sched rs [])).2) := fun _ => rfl
  obtain ⟨s0, b1, b2⟩ := exch_blocked p.inSz cnt sched [] (upReq p) hs hb
  obtain ⟨tr', t1, t2⟩ := exch_ok p.inSz cnt sched [] (upReq p) _ _ [] hs hb hdec
  have hc : ∀ s, readCont p (upExpBody p o.val) s = (s, .ok o.val) := readCont_expedited p hwf o.val h1 h4 p.sub.isNone
  have hres := conversation ⟨p, .read, cnt, sched, objs, sc, x⟩ [msgOf cnt (upReq p)] [srvMail mbxCoE sc (upExpBody p o.val)]
    _ (.ok o.val) rfl (by intro q hq; simp at hq; subst hq; simp; exact hwf.1)
    (by simp only [Setup.srv, serveAll, hup]; rfl) ?_ ?_
  · refine ⟨hres.1, fun n hn => ?_⟩
    obtain ⟨a, b, c, d⟩ := hres.2 n hn
    exact ⟨a, by rw [b], c, d⟩
  · intro j hj
    have : j = 0 ∨ j = 1 := by simp at hj; omega
    rcases this with rfl | rfl
    · simp only [Setup.fulls, List.take_zero, hrun, sdoRead_eq, bind_err b1, b2]; simp [sent]
    · simp only [Setup.fulls, List.take_succ_cons, List.take_zero, hrun, sdoRead_eq, bind_ok t2]
      simp [hc, envSt, t1, sent]
  · simp only [Setup.fulls, hrun, sdoRead_eq, bind_ok t2]
    simp [hc]

/-! ## the property: uploads -/

/-- **expedited upload**: an object of 1..4 bytes is returned byte for byte — every content, index, subindex or
complete access, mailbox sizes, counter, and every schedule of delays, unrelated mail and drains -/
theorem read_expedited_exact (p : Params) (cnt sc : Nat) (x : Xfer) (sched : List Slot) (objs : List Obj) (o : Obj) (hwf : Wf p)
    (hs : SchedOk p.inSz sched) (hobj : Holds p objs o) (h1 : 1 ≤ o.val.length) (h4 : o.val.length ≤ 4) :
    Eventually ⟨p, .read, cnt, sched, objs, sc, x⟩ (fun r => r.outcome = .ok o.val) :=
  ⟨_, fun n hn => ((read_exp_run p cnt sc x sched objs o hwf hs hobj h1 h4).2 n hn).1⟩

/-- **normal upload in one frame**: an object of 0 or 5..`inSz − 16` bytes is returned byte for byte -/
theorem read_normal_exact (p : Params) (cnt sc : Nat) (x : Xfer) (sched : List Slot) (objs : List Obj) (o : Obj) (hwf : Wf p)
    (hs : SchedOk p.inSz sched) (hobj : Holds p objs o) (hne : ¬ (1 ≤ o.val.length ∧ o.val.length ≤ 4))
    (hfit : o.val.length + 16 ≤ p.inSz) :
    Eventually ⟨p, .read, cnt, sched, objs, sc, x⟩ (fun r => r.outcome = .ok o.val) :=
  ⟨_, fun n hn => ((read_long_run p cnt sc x sched objs o hwf hs hobj hne (by have := hwf.2.2.1; omega)).2 n hn).1⟩

/-- **segmented upload**: an object longer than the first response can carry — any number of segments, a short last
one included — is returned byte for byte, under every schedule (unrelated mail between the segments too) -/
theorem read_segmented_exact (p : Params) (cnt sc : Nat) (x : Xfer) (sched : List Slot) (objs : List Obj) (o : Obj) (hwf : Wf p)
    (hs : SchedOk p.inSz sched) (hobj : Holds p objs o) (_hlong : p.inSz < o.val.length + 16)
    (hv : o.val.length < 256 ^ 4) :
    Eventually ⟨p, .read, cnt, sched, objs, sc, x⟩ (fun r => r.outcome = .ok o.val) := by
  by_cases hexp : 1 ≤ o.val.length ∧ o.val.length ≤ 4      -- only with a 16-byte mailbox: the server answers expedited
  · exact ⟨_, fun n hn => ((read_exp_run p cnt sc x sched objs o hwf hs hobj hexp.1 hexp.2).2 n hn).1⟩
  · exact ⟨_, fun n hn => ((read_long_run p cnt sc x sched objs o hwf hs hobj hexp hv).2 n hn).1⟩

/-! ### download segments: what the master sends, what the server makes of it and answers -/

/-- the confirmation of a download segment: scs 1 with the toggle of the request -/
def confBody (stog : Nat) : List UInt8 := encLE 2 (svcSdoRes <<< 12) ++ [UInt8.ofNat (0x20 ||| stog <<< 4)] ++ zeros 7

theorem downCmd_bits : ∀ stog < 2, ∀ l < 2, ∀ k < 8,
    ((16 * stog ||| l) ||| k <<< 1) < 256 ∧ ((16 * stog ||| l) ||| k <<< 1) >>> 5 = 0 ∧
    (((16 * stog ||| l) ||| k <<< 1) >>> 4) &&& 1 = stog ∧ (((16 * stog ||| l) ||| k <<< 1) >>> 1) &&& 7 = k ∧
    (((16 * stog ||| l) ||| k <<< 1) &&& 1 != 0) = (l != 0) := by decide

theorem segDownCmd_eq (stog : Nat) (last : Bool) (n : Nat) :
    segDownCmd (16 * stog) last n = (16 * stog ||| (if last then 1 else 0)) ||| (if n < 7 then 7 - n else 0) <<< 1 := by
  unfold segDownCmd; cases last <;> by_cases h : n < 7 <;> simp [h]

theorem segDownReq_length (t : Nat) (last : Bool) (d : List UInt8) : (segDownReq t last d).length = 3 + d.length + (7 - d.length) := by
  simp [segDownReq]; omega

/-- what the master checks in a segment confirmation -/
theorem conf_check (stog : Nat) (hs : stog < 2) :
    ¬ (confBody stog).length < 3 ∧
      ¬ (u16 (confBody stog) 0 >>> 12 ≠ coe_SDORES ∨ byte (confBody stog) 2 ≠ (0x20 ||| 16 * stog)) := by
  have : stog = 0 ∨ stog = 1 := by omega
  rcases this with rfl | rfl <;> decide

theorem conf_decode (inSz scnt stog : Nat) (h16 : 16 ≤ inSz) :
    decodeMail (padTo inSz (srvMail mbxCoE scnt (confBody stog))) = .ok (mbx_COE, confBody stog) := by
  have hcoe : mbxCoE = mbx_COE := by decide
  rw [← hcoe]
  exact decodeMail_srvMail _ _ _ _ (by simp [confBody]; omega) (by simp [confBody]) (by decide) (by decide)

/-- the download segment requests from `stop` on (`m` bounds their number) and the server's confirmations -/
def downMsgs (p : Params) (v : List UInt8) : Nat → Nat → Nat → Nat → List (List UInt8)
  | 0, _, _, _ => []
  | m + 1, stop, cnt, stog =>
    if stop < v.length then
      msgOf cnt (segDownReq (16 * stog) (min v.length (stop + p.outSz - 9) = v.length) (slice v stop (min v.length (stop + p.outSz - 9)))) ::
        downMsgs p v m (min v.length (stop + p.outSz - 9)) (cntNext cnt) (stog ^^^ 1)
    else []

def confMails (p : Params) (v : List UInt8) : Nat → Nat → Nat → Nat → List (List UInt8)
  | 0, _, _, _ => []
  | m + 1, stop, scnt, stog =>
    if stop < v.length then
      srvMail mbxCoE scnt (confBody stog) :: confMails p v m (min v.length (stop + p.outSz - 9)) (scnt % 7 + 1) (stog ^^^ 1)
    else []

theorem downMsgs_length (p : Params) (v : List UInt8) (m stop cnt scnt stog : Nat) :
    (downMsgs p v m stop cnt stog).length = (confMails p v m stop scnt stog).length := by
  induction m generalizing stop cnt scnt stog with
  | zero => rfl
  | succ m ih => simp only [downMsgs, confMails]; split <;> simp [ih _ _ (scnt % 7 + 1)]

theorem slice_length_le (v : List UInt8) (a b : Nat) : (slice v a b).length ≤ b - a := by
  simp [slice]; omega

/-- **the download segment loop against the server's confirmations**: with the first `j` confirmations it writes the
next `j + 1` segments and waits, or — having them all — returns -/
theorem downLoop_run (p : Params) (hwf : Wf p) (v : List UInt8) : ∀ (m stop j fuel stog cnt scnt : Nat)
    (sched : List Slot) (tr : List Ev),
    v.length - stop ≤ m → stog < 2 → SchedOk p.inSz sched →
    ((confMails p v m stop scnt stog).take j).length < fuel →
    ∃ s', downLoop p v fuel stop (16 * stog) (envSt p.inSz cnt sched ((confMails p v m stop scnt stog).take j) tr) =
          (s', if (confMails p v m stop scnt stog).length ≤ j then .ok [] else .err .blocked) ∧
      sent s'.tr = sent tr ++ (downMsgs p v m stop cnt stog).take (j + 1) := by
  obtain ⟨ho, hi, hi2, hidx, hsub, ho2⟩ := hwf
  intro m
  induction m with
  | zero =>
    intro stop j fuel stog cnt scnt sched tr hm _ _ hf
    obtain ⟨f, rfl⟩ : ∃ f, fuel = f + 1 := ⟨fuel - 1, by omega⟩
    have : ¬ stop < v.length := by omega
    exact ⟨envSt p.inSz cnt sched [] tr, by simp [confMails, downLoop, this, pure, M.pure], by simp [downMsgs, envSt]⟩
  | succ m ih =>
    intro stop j fuel stog cnt scnt sched tr hm hst hs hf
    obtain ⟨f, rfl⟩ : ∃ f, fuel = f + 1 := ⟨fuel - 1, by omega⟩
    by_cases hlt : stop < v.length
    · simp only [confMails, downMsgs, hlt, if_true] at hf ⊢
      unfold downLoop
      simp only [hlt, if_true]
      have hb : (segDownReq (16 * stog) (min v.length (stop + p.outSz - 9) = v.length)
          (slice v stop (min v.length (stop + p.outSz - 9)))).length < 65536 := by
        have := slice_length_le v stop (min v.length (stop + p.outSz - 9))
        rw [segDownReq_length]; omega
      cases j with
      | zero =>
        obtain ⟨s', h1, h2⟩ := exch_blocked p.inSz cnt sched tr _ hs hb
        exact ⟨s', by simp only [List.take_zero, bind_err h1]; simp, by rw [h2]; simp⟩
      | succ j =>
        obtain ⟨tr', ht, hx⟩ := exch_ok p.inSz cnt sched tr _ _ _
          ((confMails p v m (min v.length (stop + p.outSz - 9)) (scnt % 7 + 1) (stog ^^^ 1)).take j) hs hb
          (conf_decode p.inSz scnt stog hi)
        simp only [List.take_succ_cons] at hf ⊢
        rw [bind_ok hx]
        obtain ⟨c1, c2⟩ := conf_check stog hst
        obtain ⟨x1, x2⟩ := tog_xor stog hst
        simp only [c1, c2, if_false, x1]
        obtain ⟨s', r1, r2⟩ := ih (min v.length (stop + p.outSz - 9)) j f (stog ^^^ 1) (cntNext cnt) (scnt % 7 + 1)
          sched.tail tr' (by omega) x2 (schedOk_tail _ _ hs) (by simp at hf ⊢; omega)
        refine ⟨s', ?_, ?_⟩
        · rw [show cnt % mbxMod + 1 = cntNext cnt from rfl, r1]; simp [Nat.succ_le_succ_iff]
        · rw [r2, ht]; simp
    · exact ⟨envSt p.inSz cnt sched [] tr, by simp [confMails, downLoop, hlt, pure, M.pure], by simp [downMsgs, hlt, envSt]⟩

/-- the server finds the data of a segment behind the 3-byte header, without the padding -/
theorem pad_extract (a b c : UInt8) (d : List UInt8) :
    (if (a :: b :: c :: (d ++ zeros (7 - d.length))).length = 10
      then ((a :: b :: c :: (d ++ zeros (7 - d.length))).drop 3).take (7 - padN d.length)
      else (a :: b :: c :: (d ++ zeros (7 - d.length))).drop 3) = d := by
  by_cases h7 : d.length < 7
  · have hp : padN d.length = 7 - d.length := by simp [padN, h7]
    have h10 : (a :: b :: c :: (d ++ zeros (7 - d.length))).length = 10 := by simp; omega
    have : 7 - (7 - d.length) = d.length := by omega
    simp only [h10, if_true, hp, this]
    simp
  · have hp : padN d.length = 0 := by simp [padN, h7]
    have hz : 7 - d.length = 0 := by omega
    simp only [hp, hz, zeros, List.replicate_zero, List.append_nil, Nat.sub_zero]
    split
    · rename_i h10
      have : d.length = 7 := by simp at h10; omega
      simp [List.take_of_length_le (Nat.le_of_eq this)]
    · simp

theorem segDownReq_cons (t : Nat) (last : Bool) (d : List UInt8) :
    segDownReq t last d = UInt8.ofNat (coe_SDOREQ <<< 12 % 256) :: UInt8.ofNat (coe_SDOREQ <<< 12 / 256 % 256) ::
      UInt8.ofNat (segDownCmd t last d.length) :: (d ++ zeros (7 - d.length)) := by
  simp only [segDownReq, encLE, List.cons_append, List.nil_append]

/-- a conformant server appends the data of a download segment and confirms with the same toggle; the last
segment must complete the announced size and stores the value -/
theorem step_downseg (s : Srv) (p : Params) (hwf : Wf p) (c stog i sub size : Nat) (ca : Bool) (buf d : List UInt8)
    (last : Bool) (hsz : s.outSz = p.outSz) (hst : stog < 2) (hx : s.xfer = .down i sub ca size buf stog)
    (hd : d.length ≤ p.outSz - 9) (hle : buf.length + d.length ≤ size) (hl : last = true ↔ buf.length + d.length = size) :
    step s (msgOf c (segDownReq (16 * stog) last d)) =
      mail (if last then { s with objs := store s.objs i sub ca (buf ++ d), xfer := .idle }
            else { s with xfer := .down i sub ca size (buf ++ d) (stog ^^^ 1) }) mbxCoE (confBody stog) := by
  obtain ⟨ho, hi, hi2, hidx, hsub, ho2⟩ := hwf
  have hk : padN d.length < 8 := by unfold padN; split <;> omega
  have hl2 : (if last then 1 else 0 : Nat) < 2 := by split <;> omega
  obtain ⟨b1, b2, b3, b4, b5⟩ := downCmd_bits stog hst (if last then 1 else 0) hl2 (padN d.length) hk
  have hcmdeq : segDownCmd (16 * stog) last d.length = (16 * stog ||| (if last then 1 else 0)) ||| padN d.length <<< 1 :=
    segDownCmd_eq stog last d.length
  have hlen := segDownReq_length (16 * stog) last d
  have hsvc : u16 (segDownReq (16 * stog) last d) 0 >>> 12 = 2 := by
    have : u16 (segDownReq (16 * stog) last d) 0 = coe_SDOREQ <<< 12 := by
      simp [u16, slice, segDownReq, encLE, decLE]; decide
    rw [this]; decide
  have hcmd : byte (segDownReq (16 * stog) last d) 2 = (16 * stog ||| (if last then 1 else 0)) ||| padN d.length <<< 1 := by
    have : byte (segDownReq (16 * stog) last d) 2 = segDownCmd (16 * stog) last d.length % 256 := by
      rw [segDownReq_cons]; exact UInt8.toNat_ofNat'
    rw [this, hcmdeq]; omega
  rw [step_sdo s c _ (by omega) (by omega) (by omega) hsvc, hcmd, b2]
  have hseg := pad_extract (UInt8.ofNat (coe_SDOREQ <<< 12 % 256)) (UInt8.ofNat (coe_SDOREQ <<< 12 / 256 % 256))
    (UInt8.ofNat (segDownCmd (16 * stog) last d.length)) d
  rw [← segDownReq_cons] at hseg
  have hnle : ¬ (buf ++ d).length > size := by simp; omega
  simp only [downloadSegment, hx, b3, b4, b5, ne_eq, not_true_eq_false, if_false, hseg, hnle]
  cases last with
  | true =>
    have : (buf ++ d).length = size := by simp; exact hl.mp rfl
    simp [this, confBody]
  | false =>
    simp [confBody]

theorem take_append_slice (v : List UInt8) (a b : Nat) (h : a ≤ b) : v.take a ++ slice v a b = v.take b := by
  obtain ⟨k, rfl⟩ : ∃ k, b = a + k := ⟨b - a, by omega⟩
  simp [slice, List.take_add]

/-- the server takes the download segments one by one, confirms each, and ends up holding the whole value -/
theorem serve_down (p : Params) (hwf : Wf p) (v : List UInt8) : ∀ (m stop : Nat) (s : Srv) (stog cnt i sub : Nat) (ca : Bool),
    v.length - stop ≤ m → stop ≤ v.length → stog < 2 → s.outSz = p.outSz →
    (stop < v.length → s.xfer = .down i sub ca v.length (v.take stop) stog) →
    ∃ sN, serveAll s (downMsgs p v m stop cnt stog) = (sN, singles (confMails p v m stop s.cnt stog)) ∧
      sN.objs = (if stop < v.length then store s.objs i sub ca v else s.objs) := by
  intro m
  induction m with
  | zero =>
    intro stop s stog cnt i sub ca hm _ _ _ _
    have : ¬ stop < v.length := by omega
    exact ⟨s, by simp [downMsgs, confMails, serveAll, singles], by simp [this]⟩
  | succ m ih =>
    intro stop s stog cnt i sub ca hm hle hst ho hx
    by_cases hlt : stop < v.length
    · have hout := hwf.1
      have hs' : stop < min v.length (stop + p.outSz - 9) := by omega
      have hsl : (slice v stop (min v.length (stop + p.outSz - 9))).length = min v.length (stop + p.outSz - 9) - stop :=
        length_slice v _ _ (by omega)
      have htk : (v.take stop).length = stop := by simp; omega
      have hstep := step_downseg s p hwf cnt stog i sub v.length ca (v.take stop)
        (slice v stop (min v.length (stop + p.outSz - 9))) (decide (min v.length (stop + p.outSz - 9) = v.length)) ho hst
        (hx hlt) (by omega) (by omega) (by simp; omega)
      rw [take_append_slice v _ _ (by omega), mail_eq] at hstep
      simp only [downMsgs, confMails, hlt, if_true, serveAll, hstep]
      by_cases hlast : min v.length (stop + p.outSz - 9) = v.length
      · have hnl : ¬ min v.length (stop + p.outSz - 9) < v.length := by omega
        obtain ⟨sN, h1, h2⟩ := ih (min v.length (stop + p.outSz - 9))
          ⟨s.outSz, s.inSz, store s.objs i sub ca (v.take (min v.length (stop + p.outSz - 9))), s.cnt % 7 + 1, .idle⟩
          (stog ^^^ 1) (cntNext cnt) i sub ca (by omega) (by omega) (tog_xor stog hst).2 ho (fun h => absurd h hnl)
        simp only [hlast, decide_true, if_true] at h1 h2 ⊢
        refine ⟨sN, by rw [h1]; simp [singles], ?_⟩
        simp only [Nat.lt_irrefl, if_false] at h2
        rw [h2]; simp
      · have hl' : min v.length (stop + p.outSz - 9) < v.length := by omega
        obtain ⟨sN, h1, h2⟩ := ih (min v.length (stop + p.outSz - 9))
          ⟨s.outSz, s.inSz, s.objs, s.cnt % 7 + 1,
            .down i sub ca v.length (v.take (min v.length (stop + p.outSz - 9))) (stog ^^^ 1)⟩
          (stog ^^^ 1) (cntNext cnt) i sub ca (by omega) (by omega) (tog_xor stog hst).2 ho (fun _ => rfl)
        simp only [hlast, decide_false, Bool.false_eq_true, if_false] at h1 h2 ⊢
        refine ⟨sN, by rw [h1]; simp [singles], ?_⟩
        simp only [hl', if_true] at h2
        exact h2
    · exact ⟨s, by simp [downMsgs, confMails, hlt, serveAll, singles], by simp [hlt]⟩

/-! ### downloads of every length -/

/-- the first request of `sdo_write` and how much of the value it carries -/
def firstReq (p : Params) (v : List UInt8) : List UInt8 := if expedited p v then expReq p v else initDownReq p v
def stop0 (p : Params) (v : List UInt8) : Nat := if expedited p v then v.length else min v.length (p.outSz - 16)

/-- the payload of the server's confirmation of an initiate download -/
def downConfBody (p : Params) : List UInt8 := sdoBody svcSdoRes (0x60 ||| caBit p.sub.isNone) p.index (subOr1 p) (zeros 4)

theorem sdoWrite_eq (p : Params) (v : List UInt8) : sdoWrite p v = (exchange (firstReq p v) >>= fun d => writeCont p v d) := rfl

/-- the command byte of the initiate-download request -/
def downCmd (p : Params) : Nat := if p.sub.isNone then od_DOWN_INIT_CA else od_DOWN_INIT

theorem initDownReq_eq (p : Params) (v : List UInt8) :
    initDownReq p v = sdoHdr (coe_SDOREQ <<< 12) (downCmd p) p.index (subOr1 p) ++
      (encLE 4 v.length ++ v.take (min v.length (p.outSz - 16))) := rfl

theorem downCmd_facts (p : Params) : downCmd p < 256 ∧ downCmd p >>> 5 = 1 ∧ (downCmd p &&& 0x10 != 0) = p.sub.isNone ∧
    (downCmd p &&& 2 != 0) = false ∧ (downCmd p &&& 1 == 0) = false := by
  unfold downCmd
  cases p.sub <;> simp <;> decide

theorem initDownReq_length (p : Params) (v : List UInt8) : (initDownReq p v).length = 10 + min v.length (p.outSz - 16) := by
  rw [initDownReq_eq]; simp [sdoHdr_length]; omega

theorem expedited_iff (p : Params) (v : List UInt8) :
    expedited p v = true ↔ 1 ≤ v.length ∧ v.length ≤ 4 ∧ p.sub.isSome = true := by
  simp only [expedited, Bool.and_eq_true, decide_eq_true_eq]
  exact ⟨fun h => ⟨h.1.1, h.1.2, h.2⟩, fun h => ⟨⟨h.1, h.2.1⟩, h.2.2⟩⟩

theorem firstReq_length (p : Params) (v : List UInt8) (hwf : Wf p) :
    10 ≤ (firstReq p v).length ∧ 6 + (firstReq p v).length ≤ p.outSz := by
  have := hwf.1
  unfold firstReq
  split
  · rename_i h; obtain ⟨_, h4, _⟩ := (expedited_iff p v).mp h; rw [expReq_length p v h4]; omega
  · rw [initDownReq_length]; omega

/-- the server on the first request of a download: it confirms, holds the value if it came in one piece and
otherwise waits for segments with what it has -/
theorem step_first (p : Params) (hwf : Wf p) (cnt sc : Nat) (x : Xfer) (objs : List Obj) (o : Obj) (v : List UInt8)
    (hobj : Holds p objs o) (hcap : v.length ≤ o.cap) (hv : v.length < 256 ^ 4) :
    step (⟨p.outSz, p.inSz, objs, sc, x⟩ : Srv) (msgOf cnt (firstReq p v)) =
      (⟨p.outSz, p.inSz, if stop0 p v = v.length then store objs p.index (subOr1 p) p.sub.isNone v else objs, sc % 7 + 1,
        if stop0 p v = v.length then .idle else .down p.index (subOr1 p) p.sub.isNone v.length (v.take (stop0 p v)) 0⟩,
       [srvMail mbxCoE sc (downConfBody p)]) := by
  by_cases hexp : expedited p v = true
  · obtain ⟨h1, h4, hsub⟩ := (expedited_iff p v).mp hexp
    have hca : p.sub.isNone = false := by cases h : p.sub <;> simp [h] at hsub ⊢
    have hobj' : find (⟨p.outSz, p.inSz, objs, sc, x⟩ : Srv).objs p.index (subOr1 p) false = some o := by
      simpa [Holds, hca, init] using hobj
    simp only [firstReq, stop0, hexp, if_true]
    rw [step_download_exp (⟨p.outSz, p.inSz, objs, sc, x⟩ : Srv) p hwf cnt o v rfl hobj' h1 h4 hcap]
    simp [respond, mail_eq,  hca, downConfBody, caBit]
  · obtain ⟨ho, hi, hi2, hidx, hsb, ho2⟩ := hwf
    obtain ⟨c1, c2, c3, c4, c5⟩ := downCmd_facts p
    have hexp' : expedited p v = false := by simpa using hexp
    simp only [firstReq, stop0, hexp', Bool.false_eq_true, if_false]
    have hl := initDownReq_length p v
    have hsvc : u16 (initDownReq p v) 0 >>> 12 = 2 := by
      rw [initDownReq_eq, u16_sdoHdr0 _ _ _ _ _ (by decide)]; decide
    rw [step_sdo _ cnt (initDownReq p v) (by omega) (by simp; omega) (by omega) hsvc]
    have hcmd : byte (initDownReq p v) 2 = downCmd p := by rw [initDownReq_eq, byte_sdoHdr2 _ _ _ _ _ c1]
    rw [hcmd, c2]
    simp only [initDownload, rd16_eq_u16, rd8_eq_byte, rd32_eq_u32, c3, c4, c5]
    rw [initDownReq_eq, u16_sdoHdr3 _ _ _ _ _ hidx, byte_sdoHdr5 _ _ _ _ _ hsb, u32_sdoHdr6 _ _ _ _ _ _ hv, drop10_sdoHdr]
    have hf : find (⟨p.outSz, p.inSz, objs, sc, x⟩ : Srv).objs p.index (subOr1 p) p.sub.isNone = some o := hobj
    have h1 : ¬ v.length > o.cap := by omega
    have h2 : ¬ (v.take (min v.length (p.outSz - 16))).length > v.length := by simp; omega
    simp only [hf, h1, h2, if_false, Bool.false_eq_true]
    by_cases hall : min v.length (p.outSz - 16) = v.length
    · have : (v.take (min v.length (p.outSz - 16))).length = v.length := by simp [hall]
      have ht : v.take (min v.length (p.outSz - 16)) = v := by rw [hall]; simp
      simp [hall, respond, mail_eq,  downConfBody]
    · have : (v.take (min v.length (p.outSz - 16))).length ≠ v.length := by simp; omega
      simp [hall, respond, mail_eq,  downConfBody]

/-- the master accepts the confirmation (index and the subindex it sent, 1 for complete access) and goes on to the segments -/
theorem writeCont_confirm (p : Params) (hwf : Wf p) (v : List UInt8) (s : St) :
    writeCont p v (downConfBody p) s = downStart p v (stop0 p v) s := by
  obtain ⟨ho, hi, hi2, hidx, hsb, ho2⟩ := hwf
  obtain ⟨r1, r2⟩ := coeRes_facts
  have c1 : (0x60 ||| caBit p.sub.isNone) < 256 := by cases p.sub.isNone <;> decide
  unfold downConfBody
  rw [sdoBody_eq]
  have hlen : ¬ (sdoHdr (svcSdoRes <<< 12) (0x60 ||| caBit p.sub.isNone) p.index (subOr1 p) ++ zeros 4).length < 6 := by
    simp [sdoHdr_length]
  unfold writeCont
  simp only [hlen, if_false, u16_sdoHdr0 _ _ _ _ _ r1, u16_sdoHdr3 _ _ _ _ _ hidx, byte_sdoHdr5 _ _ _ _ _ hsb, r2]
  simp [stop0]

theorem stop0_le (p : Params) (v : List UInt8) : stop0 p v ≤ v.length := by
  unfold stop0; split <;> omega

/-- **the master's side of a download**: given the first `j` mails of the server it has written the first `j + 1`
messages, and with all of them it returns -/
theorem write_master (p : Params) (hwf : Wf p) (cnt sc : Nat) (sched : List Slot) (hs : SchedOk p.inSz sched)
    (v : List UInt8) (j : Nat) :
    let R := srvMail mbxCoE sc (downConfBody p) :: confMails p v v.length (stop0 p v) (sc % 7 + 1) 0
    let Q := msgOf cnt (firstReq p v) :: downMsgs p v v.length (stop0 p v) (cntNext cnt) 0
    sent (run p (.write v) cnt (sched.map (·.full)) (mkMails p.inSz sched (singles (R.take j)))).1 = Q.take (j + 1) ∧
    (R.length ≤ j → (run p (.write v) cnt (sched.map (·.full)) (mkMails p.inSz sched (singles (R.take j)))).2 = .ok []) := by
  intro R Q
  have hb : (firstReq p v).length < 65536 := by have := (firstReq_length p v hwf).2; have := hwf.2.2.2.2.2; omega
  have hrun : run p (.write v) cnt (sched.map (·.full)) (mkMails p.inSz sched (singles (R.take j))) =
      ((sdoWrite p v (envSt p.inSz cnt sched (R.take j) [])).1.tr, (sdoWrite p v (envSt p.inSz cnt sched (R.take j) [])).2) := rfl
  rw [hrun, sdoWrite_eq]
  cases j with
  | zero =>
    obtain ⟨s', h1, h2⟩ := exch_blocked p.inSz cnt sched [] (firstReq p v) hs hb
    simp only [List.take_zero, bind_err h1, h2]
    simp [Q, sent]
  | succ j =>
    have hcoe : mbxCoE = mbx_COE := by decide
    have hdec : decodeMail (padTo p.inSz (srvMail mbxCoE sc (downConfBody p))) = .ok (mbx_COE, downConfBody p) := by
      rw [← hcoe]
      have := hwf.2.1
      exact decodeMail_srvMail _ _ _ _ (by simp [downConfBody, sdoBody_length]; omega)
        (by simp [downConfBody, sdoBody_length]) (by decide) (by decide)
    obtain ⟨tr', ht, hx⟩ := exch_ok p.inSz cnt sched [] (firstReq p v) _ _
      ((confMails p v v.length (stop0 p v) (sc % 7 + 1) 0).take j) hs hb hdec
    rw [show cnt % mbxMod + 1 = cntNext cnt from rfl] at hx
    simp only [R, List.take_succ_cons, bind_ok hx, writeCont_confirm p hwf v, downStart]
    have hfuel : ((confMails p v v.length (stop0 p v) (sc % 7 + 1) 0).take j).length <
        (envSt p.inSz (cntNext cnt) sched.tail ((confMails p v v.length (stop0 p v) (sc % 7 + 1) 0).take j) tr').mails.length + 1 := by
      have := length_le_mkMails p.inSz sched.tail ((confMails p v v.length (stop0 p v) (sc % 7 + 1) 0).take j)
      simp only [envSt]; omega
    obtain ⟨s', r1, r2⟩ := downLoop_run p hwf v v.length (stop0 p v) j _ 0 (cntNext cnt) (sc % 7 + 1) sched.tail tr'
      (by omega) (by decide) (schedOk_tail _ _ hs) hfuel
    simp only [Nat.mul_zero] at r1
    rw [r1]
    refine ⟨?_, ?_⟩
    · simp only [r2, ht, Q, List.take_succ_cons]; simp [sent]
    · intro hle
      have : (confMails p v v.length (stop0 p v) (sc % 7 + 1) 0).length ≤ j := by simp at hle; omega
      simp only [this, if_true]

theorem downMsgs_fit (p : Params) (hwf : Wf p) (v : List UInt8) (m stop cnt stog : Nat) :
    ∀ q ∈ downMsgs p v m stop cnt stog, q.length ≤ p.outSz := by
  induction m generalizing stop cnt stog with
  | zero => simp [downMsgs]
  | succ m ih =>
    intro q hq
    simp only [downMsgs] at hq
    split at hq
    · simp only [List.mem_cons] at hq
      rcases hq with rfl | hq
      · have := slice_length_le v stop (min v.length (stop + p.outSz - 9))
        have := hwf.1
        rw [msgOf_length, segDownReq_length]; omega
      · exact ih _ _ _ q hq
    · simp at hq

/-- **download of any value** (expedited, in one frame, in any number of segments; with subindex or complete access;
the empty value too): the run of the composed system -/
theorem write_run (p : Params) (cnt sc : Nat) (x : Xfer) (sched : List Slot) (objs : List Obj) (o : Obj) (v : List UInt8) (hwf : Wf p)
    (hs : SchedOk p.inSz sched) (hobj : Holds p objs o) (hcap : v.length ≤ o.cap) (hv : v.length < 256 ^ 4) :
    RunIs ⟨p, .write v, cnt, sched, objs, sc, x⟩ (.ok []) (store objs p.index (subOr1 p) p.sub.isNone v)
      (srvMail mbxCoE sc (downConfBody p) :: confMails p v v.length (stop0 p v) (sc % 7 + 1) 0)
      (msgOf cnt (firstReq p v) :: downMsgs p v v.length (stop0 p v) (cntNext cnt) 0) := by
  have hfirst := step_first p hwf cnt sc x objs o v hobj hcap hv
  have hle := stop0_le p v
  obtain ⟨sN, h1, h2⟩ := serve_down p hwf v v.length (stop0 p v)
    ⟨p.outSz, p.inSz, if stop0 p v = v.length then store objs p.index (subOr1 p) p.sub.isNone v else objs, sc % 7 + 1,
      if stop0 p v = v.length then .idle else .down p.index (subOr1 p) p.sub.isNone v.length (v.take (stop0 p v)) 0⟩
    0 (cntNext cnt) p.index (subOr1 p) p.sub.isNone (by omega) hle (by decide) rfl
    (fun h => by have : stop0 p v ≠ v.length := by omega
                 simp [this])
  have hM := fun j => write_master p hwf cnt sc sched hs v j
  have hres := conversation ⟨p, .write v, cnt, sched, objs, sc, x⟩
    (msgOf cnt (firstReq p v) :: downMsgs p v v.length (stop0 p v) (cntNext cnt) 0)
    (srvMail mbxCoE sc (downConfBody p) :: confMails p v v.length (stop0 p v) (sc % 7 + 1) 0)
    sN (.ok []) (by simp [downMsgs_length p v v.length (stop0 p v) (cntNext cnt) (sc % 7 + 1) 0]) ?_ ?_ (fun j _ => (hM j).1) ?_
  · refine ⟨hres.1, fun n hn => ?_⟩
    obtain ⟨a, b, c, d⟩ := hres.2 n hn
    refine ⟨a, ?_, c, d⟩
    rw [b, h2]
    by_cases h : stop0 p v < v.length
    · have : stop0 p v ≠ v.length := by omega
      simp [h, this]
    · have : stop0 p v = v.length := by omega
      simp [this]
  · intro q hq
    simp only [List.mem_cons] at hq
    rcases hq with rfl | hq
    · rw [msgOf_length]; exact (firstReq_length p v hwf).2
    · exact downMsgs_fit p hwf v _ _ _ _ q hq
  · simp only [Setup.srv, serveAll, hfirst, h1]
    simp [singles]
  · have := (hM (srvMail mbxCoE sc (downConfBody p) :: confMails p v v.length (stop0 p v) (sc % 7 + 1) 0).length).2 (Nat.le_refl _)
    rw [List.take_length] at this
    exact this

/-- the object ends up holding the value -/
theorem write_target (p : Params) (cnt sc : Nat) (x : Xfer) (sched : List Slot) (objs : List Obj) (o : Obj) (v : List UInt8) (hwf : Wf p)
    (hs : SchedOk p.inSz sched) (hobj : Holds p objs o) (hcap : v.length ≤ o.cap) (hv : v.length < 256 ^ 4) :
    Eventually ⟨p, .write v, cnt, sched, objs, sc, x⟩
      (fun r => r.outcome = .ok [] ∧ target ⟨p, .write v, cnt, sched, objs, sc, x⟩ r.objs = some v) := by
  refine ⟨(srvMail mbxCoE sc (downConfBody p) :: confMails p v v.length (stop0 p v) (sc % 7 + 1) 0).length, fun n hn => ?_⟩
  obtain ⟨a, b, _, _⟩ := (write_run p cnt sc x sched objs o v hwf hs hobj hcap hv).2 n hn
  refine ⟨a, ?_⟩
  rw [b]
  simp only [target]
  rw [find_store _ _ _ _ o v hobj]
  rfl

/-! ## the property: downloads -/

/-- **expedited download**: 1..4 bytes written with a subindex end up in the object byte for byte and the call returns —
under every schedule, unrelated mail before the confirmation included -/
theorem write_expedited_exact (p : Params) (cnt sc : Nat) (x : Xfer) (sched : List Slot) (objs : List Obj) (o : Obj) (v : List UInt8)
    (hwf : Wf p) (hs : SchedOk p.inSz sched) (_hsub : p.sub.isSome = true) (hobj : Holds p objs o)
    (_h1 : 1 ≤ v.length) (h4 : v.length ≤ 4) (hcap : v.length ≤ o.cap) :
    Eventually ⟨p, .write v, cnt, sched, objs, sc, x⟩
      (fun r => r.outcome = .ok [] ∧ target ⟨p, .write v, cnt, sched, objs, sc, x⟩ r.objs = some v) :=
  write_target p cnt sc x sched objs o v hwf hs hobj hcap (by omega)

/-- **normal and segmented download**: more than 4 bytes written with a subindex — one frame or any number of
segments, a short last one included — end up in the object byte for byte -/
theorem write_normal_exact (p : Params) (cnt sc : Nat) (x : Xfer) (sched : List Slot) (objs : List Obj) (o : Obj) (v : List UInt8)
    (hwf : Wf p) (hs : SchedOk p.inSz sched) (_hsub : p.sub.isSome = true) (hobj : Holds p objs o)
    (_h5 : 4 < v.length) (hcap : v.length ≤ o.cap) (hv : v.length < 256 ^ 4) :
    Eventually ⟨p, .write v, cnt, sched, objs, sc, x⟩
      (fun r => r.outcome = .ok [] ∧ target ⟨p, .write v, cnt, sched, objs, sc, x⟩ r.objs = some v) :=
  write_target p cnt sc x sched objs o v hwf hs hobj hcap hv

/-- **download with complete access** (no subindex), any length -/
theorem write_complete_exact (p : Params) (cnt sc : Nat) (x : Xfer) (sched : List Slot) (objs : List Obj) (o : Obj) (v : List UInt8)
    (hwf : Wf p) (hs : SchedOk p.inSz sched) (_hsub : p.sub = none) (hobj : Holds p objs o)
    (hcap : v.length ≤ o.cap) (hv : v.length < 256 ^ 4) :
    Eventually ⟨p, .write v, cnt, sched, objs, sc, x⟩
      (fun r => r.outcome = .ok [] ∧ target ⟨p, .write v, cnt, sched, objs, sc, x⟩ r.objs = some v) :=
  write_target p cnt sc x sched objs o v hwf hs hobj hcap hv

/-- **download of the empty value**: the object ends up empty (a normal transfer of complete size 0) -/
theorem write_zero_exact (p : Params) (cnt sc : Nat) (x : Xfer) (sched : List Slot) (objs : List Obj) (o : Obj)
    (hwf : Wf p) (hs : SchedOk p.inSz sched) (hobj : Holds p objs o) :
    Eventually ⟨p, .write [], cnt, sched, objs, sc, x⟩
      (fun r => r.outcome = .ok [] ∧ target ⟨p, .write [], cnt, sched, objs, sc, x⟩ r.objs = some []) :=
  write_target p cnt sc x sched objs o [] hwf hs hobj (by simp) (by simp)

/-! ### what the master writes, for every script of mails (conformant server or not) -/

/-- an exchange writes at most its own message, and exactly that when it gets an answer -/
theorem exchange_sent (body : List UInt8) (s : St) :
    ∃ ext : List (List UInt8), sent (exchange body s).1.tr = sent s.tr ++ ext ∧
      (ext = [] ∨ ∃ c, ext = [msgOf c body]) ∧ (∀ d, (exchange body s).2 = .ok d → ext ≠ []) := by
  rw [exchange_eq]
  cases h1 : mbxSend body s with
  | mk s1 r1 =>
    rcases mbxSend_cases body s with ⟨e, he, hs⟩ | ⟨c, hok, hs⟩
    · rw [h1] at he hs; simp only at he hs; subst he
      rw [bind_err h1]
      exact ⟨[], by simpa using hs, Or.inl rfl, by intro d hd; simp at hd⟩
    · rw [h1] at hok hs; simp only at hok hs; subst hok
      rw [bind_ok h1]
      exact ⟨[msgOf c body], by rw [recvCoe_sent, hs], Or.inr ⟨c, rfl⟩, by simp⟩

theorem finish_fst (size : Nat) (ret : List (List UInt8)) (rs : Nat) (s : St) : (finish size ret rs s).1 = s := by
  unfold finish; split <;> rfl

theorem segUpReq_cmd (p : Params) (t : Nat) (ht : t = 0 ∨ t = 0x10) : byte (segUpReq p t) 2 = od_SEG_UP_REQ + t := by
  unfold segUpReq
  rw [byte_sdoHdr2]
  rcases ht with rfl | rfl <;> decide

/-- messages of 16 bytes whose command bytes are upload segment requests with toggles alternating from `t` -/
def SegReqs (t : Nat) (ext : List (List UInt8)) : Prop :=
  (∀ m ∈ ext, m.length = 16) ∧ ext.map cmdOf = altCmds ext.length t

theorem segLoop_sent (p : Params) : ∀ (fuel size : Nat) (ret : List (List UInt8)) (rs t : Nat) (s : St),
    (t = 0 ∨ t = 0x10) →
    ∃ ext : List (List UInt8), sent (segLoop p fuel size ret rs t s).1.tr = sent s.tr ++ ext ∧ SegReqs t ext := by
  intro fuel
  induction fuel with
  | zero => intro size ret rs t s _; exact ⟨[], by simp [segLoop, fail], by simp, rfl⟩
  | succ fuel ih =>
    intro size ret rs t s ht
    unfold segLoop
    by_cases hlt : rs < size
    · simp only [hlt, if_true]
      have ht' : t ^^^ 0x10 = 0 ∨ t ^^^ 0x10 = 0x10 := by rcases ht with rfl | rfl <;> decide
      obtain ⟨ext, e1, e2, e3⟩ := exchange_sent (segUpReq p t) s
      have hone : SegReqs t ext := by
        rcases e2 with rfl | ⟨c, rfl⟩
        · exact ⟨by simp, rfl⟩
        · exact ⟨by simp [segUpReq_length], by simp [altCmds, cmdOf_msgOf, segUpReq_cmd p t ht]⟩
      cases hx : exchange (segUpReq p t) s with
      | mk s1 r1 =>
        rw [hx] at e1 e3; simp only at e1 e3
        cases r1 with
        | err e => rw [bind_err hx]; exact ⟨ext, e1, hone⟩
        | ok data =>
          rw [bind_ok hx]
          obtain ⟨c, rfl⟩ : ∃ c, ext = [msgOf c (segUpReq p t)] := by
            rcases e2 with rfl | h
            · exact absurd rfl (e3 data rfl)
            · exact h
          have stop : ∀ x : St × R (List UInt8), x.1 = s1 → ∃ ext : List (List UInt8),
              sent x.1.tr = sent s.tr ++ ext ∧ SegReqs t ext := by
            intro x hx'; rw [hx']; exact ⟨_, e1, hone⟩
          split
          · exact stop _ rfl
          · split
            · exact stop _ rfl
            · split
              · exact stop _ rfl
              · split
                · exact stop _ (finish_fst _ _ _ _)
                · obtain ⟨ext', f1, f2, f3⟩ := ih size _ _ (t ^^^ 0x10) s1 ht'
                  refine ⟨msgOf c (segUpReq p t) :: ext', by rw [f1, e1]; simp, ?_, ?_⟩
                  · intro m hm; simp at hm; rcases hm with rfl | h
                    · simp [segUpReq_length]
                    · exact f2 m h
                  · simp [altCmds, cmdOf_msgOf, segUpReq_cmd p t ht, f3]
    · simp only [hlt, if_false]
      exact ⟨[], by simp [finish_fst], by simp, rfl⟩

theorem readCont_sent (p : Params) (data : List UInt8) (s : St) :
    ∃ ext : List (List UInt8), sent (readCont p data s).1.tr = sent s.tr ++ ext ∧ SegReqs 0 ext := by
  have stop : ∀ x : St × R (List UInt8), x.1 = s → ∃ ext : List (List UInt8),
      sent x.1.tr = sent s.tr ++ ext ∧ SegReqs 0 ext := by
    intro x hx; rw [hx]; exact ⟨[], by simp, by simp, rfl⟩
  unfold readCont
  split
  · exact stop _ rfl
  · simp only []
    split
    · split
      · exact stop _ rfl
      · exact stop _ rfl
    · split
      · exact stop _ rfl
      · split
        · exact stop _ rfl
        · exact segLoop_sent p _ _ _ _ 0 s (Or.inl rfl)

/-- **what an upload writes, for every script of mails** (conformant server or not, any length, any interleaving):
every message is the 16-byte mailbox message of an SDO request, so it fits every receive mailbox of the domain;
the first is the initiate-upload request and the following ones are upload-segment requests whose toggle bits
are 0, 1, 0, 1, … -/
theorem read_requests_fit_and_toggle (p : Params) (hwf : Wf p) (cnt : Nat) (fulls : List Bool) (mails : List Mail) :
    (∀ m ∈ sent (run p .read cnt fulls mails).1, m.length = 16 ∧ m.length ≤ p.outSz) ∧
    (sent (run p .read cnt fulls mails).1 = [] ∨
      ∃ k, (sent (run p .read cnt fulls mails).1).map cmdOf = upCmd p :: altCmds k 0) := by
  have hout : 16 ≤ p.outSz := hwf.1
  have key : sent (run p .read cnt fulls mails).1 = [] ∨
      ∃ c ext, sent (run p .read cnt fulls mails).1 = msgOf c (upReq p) :: ext ∧ SegReqs 0 ext := by
    simp only [run, master, sdoRead_eq]
    obtain ⟨ext, e1, e2, e3⟩ := exchange_sent (upReq p) ⟨cnt, fulls, mails, []⟩
    cases hx : exchange (upReq p) ⟨cnt, fulls, mails, []⟩ with
    | mk s1 r1 =>
      rw [hx] at e1 e3; simp only at e1 e3
      cases r1 with
      | err e =>
        rw [bind_err hx]
        rcases e2 with rfl | ⟨c, rfl⟩
        · left; simpa [sent] using e1
        · right; exact ⟨c, [], by simpa [sent] using e1, by simp, rfl⟩
      | ok data =>
        rw [bind_ok hx]
        obtain ⟨c, rfl⟩ : ∃ c, ext = [msgOf c (upReq p)] := by
          rcases e2 with rfl | h
          · exact absurd rfl (e3 data rfl)
          · exact h
        obtain ⟨ext', f1, f2⟩ := readCont_sent p data s1
        right; exact ⟨c, ext', by rw [f1, e1]; simp [sent], f2⟩
  rcases key with h | ⟨c, ext, h, e2, e3⟩
  · rw [h]; simp
  · rw [h]
    refine ⟨?_, Or.inr ⟨ext.length, ?_⟩⟩
    · intro m hm; simp at hm
      rcases hm with rfl | hm
      · simp; exact hout
      · have := e2 m hm; omega
    · have hc : cmdOf (msgOf c (upReq p)) = upCmd p := by
        rw [cmdOf_msgOf, upReq_eq, byte_sdoHdr2 _ _ _ _ _ (upCmd_facts p).1]
      simp [hc, e3]

/-- the toggle bit of a message's SDO command byte -/
def togOf (m : List UInt8) : Nat := (cmdOf m >>> 4) &&& 1

/-- 0, 1, 0, 1, … from `b` -/
def altBits : Nat → Nat → List Nat
  | 0, _ => []
  | n + 1, b => b :: altBits n (b ^^^ 1)

theorem segDownReq_tog (c stog : Nat) (last : Bool) (d : List UInt8) (hst : stog < 2) :
    togOf (msgOf c (segDownReq (16 * stog) last d)) = stog := by
  have hk : padN d.length < 8 := by unfold padN; split <;> omega
  have hl2 : (if last then 1 else 0 : Nat) < 2 := by split <;> omega
  obtain ⟨b1, _, b3, _, _⟩ := downCmd_bits stog hst (if last then 1 else 0) hl2 (padN d.length) hk
  have : byte (segDownReq (16 * stog) last d) 2 = (16 * stog ||| (if last then 1 else 0)) ||| padN d.length <<< 1 := by
    have h : byte (segDownReq (16 * stog) last d) 2 = segDownCmd (16 * stog) last d.length % 256 := by
      rw [segDownReq_cons]; exact UInt8.toNat_ofNat'
    rw [h, segDownCmd_eq]
    show _ % 256 = (16 * stog ||| (if last then 1 else 0)) ||| padN d.length <<< 1
    unfold padN at b1 ⊢
    omega
  rw [togOf, cmdOf_msgOf, this, b3]

/-- download segments that fit the receive mailbox, toggles alternating from `b` -/
def DownSegs (outSz b : Nat) (ext : List (List UInt8)) : Prop :=
  (∀ m ∈ ext, m.length ≤ outSz) ∧ ext.map togOf = altBits ext.length b

theorem downLoop_sent (p : Params) (hwf : Wf p) (v : List UInt8) : ∀ (fuel stop stog : Nat) (s : St), stog < 2 →
    ∃ ext : List (List UInt8), sent (downLoop p v fuel stop (16 * stog) s).1.tr = sent s.tr ++ ext ∧
      DownSegs p.outSz stog ext := by
  have hout := hwf.1
  intro fuel
  induction fuel with
  | zero => intro stop stog s _; exact ⟨[], by simp [downLoop, fail], by simp, rfl⟩
  | succ fuel ih =>
    intro stop stog s hst
    unfold downLoop
    by_cases hlt : stop < v.length
    · simp only [hlt, if_true]
      obtain ⟨x1, x2⟩ := tog_xor stog hst
      obtain ⟨ext, e1, e2, e3⟩ := exchange_sent (segDownReq (16 * stog) (min v.length (stop + p.outSz - 9) = v.length)
        (slice v stop (min v.length (stop + p.outSz - 9)))) s
      have hfit : ∀ c, (msgOf c (segDownReq (16 * stog) (min v.length (stop + p.outSz - 9) = v.length)
          (slice v stop (min v.length (stop + p.outSz - 9))))).length ≤ p.outSz := by
        intro c
        have := slice_length_le v stop (min v.length (stop + p.outSz - 9))
        rw [msgOf_length, segDownReq_length]; omega
      have hone : DownSegs p.outSz stog ext := by
        rcases e2 with rfl | ⟨c, rfl⟩
        · exact ⟨by simp, rfl⟩
        · exact ⟨by simpa using hfit c, by simp [altBits, segDownReq_tog _ _ _ _ hst]⟩
      cases hx : exchange (segDownReq (16 * stog) (min v.length (stop + p.outSz - 9) = v.length)
          (slice v stop (min v.length (stop + p.outSz - 9)))) s with
      | mk s1 r1 =>
        rw [hx] at e1 e3; simp only at e1 e3
        cases r1 with
        | err e => rw [bind_err hx]; exact ⟨ext, e1, hone⟩
        | ok data =>
          rw [bind_ok hx]
          obtain ⟨c, rfl⟩ : ∃ c, ext = [msgOf c (segDownReq (16 * stog) (min v.length (stop + p.outSz - 9) = v.length)
              (slice v stop (min v.length (stop + p.outSz - 9))))] := by
            rcases e2 with rfl | h
            · exact absurd rfl (e3 data rfl)
            · exact h
          split
          · exact ⟨_, e1, hone⟩
          · split
            · exact ⟨_, e1, hone⟩
            · rw [x1]
              obtain ⟨ext', f1, f2, f3⟩ := ih (min v.length (stop + p.outSz - 9)) (stog ^^^ 1) s1 x2
              refine ⟨msgOf c (segDownReq (16 * stog) (min v.length (stop + p.outSz - 9) = v.length)
                (slice v stop (min v.length (stop + p.outSz - 9)))) :: ext', by rw [f1, e1]; simp, ?_, ?_⟩
              · intro m hm; simp at hm; rcases hm with rfl | h
                · exact hfit c
                · exact f2 m h
              · simp [altBits, segDownReq_tog _ _ _ _ hst, f3]
    · simp only [hlt, if_false]
      exact ⟨[], by simp [pure, M.pure], by simp, rfl⟩

/-- **what a download writes, for every script of mails** (conformant server or not, any value, any interleaving): every
message fits the receive mailbox, and the toggle bits of the segments after the first message are 0, 1, 0, 1, … -/
theorem write_requests_fit_and_toggle (p : Params) (hwf : Wf p) (v : List UInt8) (cnt : Nat) (fulls : List Bool)
    (mails : List Mail) :
    (∀ m ∈ sent (run p (.write v) cnt fulls mails).1, m.length ≤ p.outSz) ∧
    ((sent (run p (.write v) cnt fulls mails).1).drop 1).map togOf =
      altBits ((sent (run p (.write v) cnt fulls mails).1).length - 1) 0 := by
  have key : sent (run p (.write v) cnt fulls mails).1 = [] ∨
      ∃ c ext, sent (run p (.write v) cnt fulls mails).1 = msgOf c (firstReq p v) :: ext ∧ DownSegs p.outSz 0 ext := by
    simp only [run, master, sdoWrite_eq]
    obtain ⟨ext, e1, e2, e3⟩ := exchange_sent (firstReq p v) ⟨cnt, fulls, mails, []⟩
    cases hx : exchange (firstReq p v) ⟨cnt, fulls, mails, []⟩ with
    | mk s1 r1 =>
      rw [hx] at e1 e3; simp only at e1 e3
      cases r1 with
      | err e =>
        rw [bind_err hx]
        rcases e2 with rfl | ⟨c, rfl⟩
        · left; simpa [sent] using e1
        · right; exact ⟨c, [], by simpa [sent] using e1, by simp, rfl⟩
      | ok data =>
        rw [bind_ok hx]
        obtain ⟨c, rfl⟩ : ∃ c, ext = [msgOf c (firstReq p v)] := by
          rcases e2 with rfl | h
          · exact absurd rfl (e3 data rfl)
          · exact h
        right
        have stop : ∀ x : St × R (List UInt8), x.1 = s1 → ∃ c' ext', sent x.1.tr = msgOf c' (firstReq p v) :: ext' ∧
            DownSegs p.outSz 0 ext' := by
          intro x hx'; rw [hx']; exact ⟨c, [], by simpa [sent] using e1, by simp, rfl⟩
        unfold writeCont
        split
        · exact stop _ rfl
        · split
          · exact stop _ rfl
          · split
            · exact stop _ rfl
            · obtain ⟨ext', f1, f2⟩ := downLoop_sent p hwf v (s1.mails.length + 1) _ 0 s1 (by decide)
              exact ⟨c, ext', by simp only [downStart]; simp only [Nat.mul_zero] at f1; rw [f1, e1]; simp [sent], f2⟩
  rcases key with h | ⟨c, ext, h, e2, e3⟩
  · rw [h]; simp [altBits]
  · rw [h]
    refine ⟨?_, by simpa using e3⟩
    intro m hm; simp at hm
    rcases hm with rfl | hm
    · rw [msgOf_length]; exact (firstReq_length p v hwf).2
    · exact e2 m hm

/-! ## every message fits its mailbox, segment toggles alternate from 0 — in every run of the composed system -/

/-- the run's messages fit the receive mailbox and the server's mails fit the send mailbox -/
def Fits (p : Params) (r : Result) : Prop :=
  (∀ m ∈ sent r.trace, m.length ≤ p.outSz) ∧ (∀ rs ∈ r.responses, ∀ m ∈ rs, m.length ≤ p.inSz)

/-- **fits_mailbox**: uploads and downloads of every length, every schedule, after any number of rounds -/
theorem fits_mailbox (c : Setup) (hwf : Wf c.p) (n : Nat) : Fits c.p (system c n) := by
  refine ⟨?_, server_responses_fit c.srv _ hwf.2.1⟩
  cases hk : c.kind with
  | read =>
    intro m hm
    simp only [system, resultOf, hk] at hm
    exact ((read_requests_fit_and_toggle c.p hwf c.cnt c.fulls (mailsAfter c n)).1 m hm).2
  | write v =>
    intro m hm
    simp only [system, resultOf, hk] at hm
    exact (write_requests_fit_and_toggle c.p hwf v c.cnt c.fulls (mailsAfter c n)).1 m hm

/-- **toggle_alternates**: the upload segment requests carry toggles 0, 1, 0, … (command bytes 0x60, 0x70, 0x60, …),
and so do the download segments (bit 4 of their command bytes) -/
theorem toggle_alternates (c : Setup) (hwf : Wf c.p) (n : Nat) :
    (c.kind = .read → sent (system c n).trace = [] ∨
        ∃ k, (sent (system c n).trace).map cmdOf = upCmd c.p :: altCmds k 0) ∧
    (∀ v, c.kind = .write v → ((sent (system c n).trace).drop 1).map togOf =
        altBits ((sent (system c n).trace).length - 1) 0) := by
  constructor
  · intro hk
    simp only [system, resultOf, hk]
    exact (read_requests_fit_and_toggle c.p hwf c.cnt c.fulls (mailsAfter c n)).2
  · intro v hk
    simp only [system, resultOf, hk]
    exact (write_requests_fit_and_toggle c.p hwf v c.cnt c.fulls (mailsAfter c n)).2

/-! ## non-vacuity: concrete inputs satisfy the hypotheses and exercise the transfers -/

/-- a schedule with unrelated mail, a drain and a delay on the first exchange and unrelated mail before the third -/
def exSched : List Slot :=
  [⟨true, [[0, 0, 0, 0, 0, 0x12], [2, 0, 0, 0, 0, 0x21, 5, 6]], 2⟩, ⟨false, [], 1⟩, ⟨false, [[0, 0, 0, 0, 0, 0x15]], 0⟩]
def exP : Params := ⟨24, 24, 0x2000, some 1⟩
def exObj (n : Nat) : Obj := ⟨0x2000, 1, false, 64, (List.range n).map fun i => UInt8.ofNat (i + 1)⟩

example : Wf exP ∧ SchedOk exP.inSz exSched ∧ Holds exP [exObj 40] (exObj 40) ∧ exP.inSz < (exObj 40).val.length + 16 := by
  refine ⟨by unfold Wf subOr1; decide, by unfold SchedOk; decide, by unfold Holds; decide, by decide⟩
/-- segmented upload of 40 bytes through 24-byte mailboxes (8 + 15 + 15 + 2): four requests, toggles 0, 1, 0 -/
example : (system ⟨exP, .read, 3, exSched, [exObj 40], 1, .idle⟩ 4).outcome = .ok (exObj 40).val ∧
    (sent (system ⟨exP, .read, 3, exSched, [exObj 40], 1, .idle⟩ 4).trace).map cmdOf = [0x40, 0x60, 0x70, 0x60] := by
  decide +kernel
/-- segmented download of 40 bytes (8 + 15 + 15 + 2) into an object that held something else, on a terminal whose
mailbox service was left in the middle of an upload with its counter at 6 -/
example : (system ⟨exP, .write (exObj 40).val, 5, exSched, [exObj 3], 6, .up 0x2000 1 false [1, 2, 3] 1⟩ 4).outcome = .ok [] ∧
    target ⟨exP, .write (exObj 40).val, 5, exSched, [exObj 3], 6, .up 0x2000 1 false [1, 2, 3] 1⟩
      (system ⟨exP, .write (exObj 40).val, 5, exSched, [exObj 3], 6, .up 0x2000 1 false [1, 2, 3] 1⟩ 4).objs = some (exObj 40).val ∧
    ((sent (system ⟨exP, .write (exObj 40).val, 5, exSched, [exObj 3], 6, .up 0x2000 1 false [1, 2, 3] 1⟩ 4).trace).drop 1).map togOf = [0, 1, 0] := by
  decide +kernel
/-- the witnesses of the former findings (findings/C16.json) now pass: 23 and 9 bytes uploaded through 24-byte
mailboxes; 5 bytes, the empty value, and the empty value with complete access downloaded; an expedited download with
unrelated mail before the confirmation -/
example : (system ⟨⟨24, 24, 0x2000, some 1⟩, .read, 0, [], [exObj 23], 1, .idle⟩ 2).outcome = .ok (exObj 23).val ∧
    (system ⟨⟨24, 24, 0x2000, some 1⟩, .read, 0, [], [exObj 9], 1, .idle⟩ 2).outcome = .ok (exObj 9).val := by decide +kernel
example : target ⟨⟨32, 32, 0x2000, some 1⟩, .write [1, 2, 3, 4, 5], 0, [], [exObj 1], 1, .idle⟩
      (system ⟨⟨32, 32, 0x2000, some 1⟩, .write [1, 2, 3, 4, 5], 0, [], [exObj 1], 1, .idle⟩ 1).objs = some [1, 2, 3, 4, 5] ∧
    target ⟨⟨32, 32, 0x2000, some 1⟩, .write [], 0, [], [exObj 1], 1, .idle⟩
      (system ⟨⟨32, 32, 0x2000, some 1⟩, .write [], 0, [], [exObj 1], 1, .idle⟩ 1).objs = some [] ∧
    (system ⟨⟨32, 32, 0x2000, none⟩, .write [], 0, [], [⟨0x2000, 1, true, 8, [9]⟩], 1, .idle⟩ 1).outcome = .ok [] ∧
    (system ⟨⟨32, 32, 0x2000, some 1⟩, .write [7, 8], 0, [⟨false, [[0, 0, 0, 0, 0, 0x12]], 0⟩], [exObj 1], 1, .idle⟩ 1).outcome = .ok [] := by
  decide +kernel
example : altCmds 3 0 = [0x60, 0x70, 0x60] ∧ altBits 3 0 = [0, 1, 0] := by decide

end Ebv.C16
