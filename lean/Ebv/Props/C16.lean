import Ebv.Model.SdoSystem
/-! C16 — SDO transfers carry values byte-for-byte.

The theorems are about `SdoSystem.system`: the master of `Ebv.Sdo` (a transcription of
`Terminal.sdo_read/sdo_write/mbx_send/mbx_recv`) composed with the conformant server of
`Ebv.SdoServer`.  One theorem per transfer mode, each for all object contents, lengths, mailbox
sizes, indices, counters and schedules (delays, unrelated mail, drain by `mbx_send`).  The modes the code
gets wrong are stated at full strength as `def …_full : Prop`, refuted on a concrete witness, and what
remains provable is `…_partial`. -/
namespace Ebv.C16
open Ebv.Bytes Ebv.Sdo Ebv.SdoServer Ebv.SdoSystem Ebv.Consts

/-! ### hypotheses of the theorems -/

/-- the domain of the model: both mailboxes can hold an SDO header, sizes are 16-bit registers,
index and subindex fit their fields, the mailbox counter is one `MailboxLock` can hold -/
def Wf (p : Params) : Prop :=
  16 ≤ p.outSz ∧ 16 ≤ p.inSz ∧ p.inSz < 65536 ∧ p.index < 65536 ∧ subOr1 p < 256

/-- mail of another mailbox protocol, as the master will read it -/
def unrelated (inSz : Nat) (m : List UInt8) : Bool :=
  match decodeMail (padTo inSz m) with
  | .ok (t, _) => t != mbx_COE
  | .err _ => false

/-- unrelated mail only, and register 0x805 shows "full" only while such mail is pending -/
def SchedOk (inSz : Nat) (sched : List Slot) : Prop :=
  ∀ sl ∈ sched, (∀ m ∈ sl.pre, unrelated inSz m = true) ∧ (sl.full = true → sl.pre ≠ [])

/-- responses may be late, but nothing else is in the mailbox -/
def DelaysOnly (sched : List Slot) : Prop := ∀ sl ∈ sched, sl.pre = [] ∧ sl.full = false

/-- the object the call is about exists and holds `v` -/
def Holds (p : Params) (objs : List Obj) (o : Obj) : Prop :=
  find objs p.index (subOr1 p) p.sub.isNone = some o

/-! ### the monad -/

theorem bind_ok {α β : Type} {x : M α} {f : α → M β} {s s' : St} {a : α} (h : x s = (s', .ok a)) :
    (x >>= f) s = f a s' := by
  show M.bind x f s = _
  unfold M.bind; rw [h]

theorem bind_err {α β : Type} {x : M α} {f : α → M β} {s s' : St} {e : Err} (h : x s = (s', .err e)) :
    (x >>= f) s = (s', .err e) := by
  show M.bind x f s = _
  unfold M.bind; rw [h]

/-! ### bytes -/

theorem typ_nibble (t c : Nat) (ht : t < 16) : ((t ||| c <<< 4) % 256) &&& 15 = t := by
  have h1 : t ||| c <<< 4 = c <<< 4 + t := by
    rw [Nat.or_comm]; exact (Nat.shiftLeft_add_eq_or_of_lt (by omega) c).symm
  have h2 : (15 : Nat) = 2 ^ 4 - 1 := by decide
  rw [h1, h2, Nat.and_two_pow_sub_one_eq_mod, Nat.shiftLeft_eq]
  omega

theorem sdoHdr_length (a b c d : Nat) : (sdoHdr a b c d).length = 6 := by simp [sdoHdr]

theorem u16_sdoHdr0 (coe cmd idx sub : Nat) (rest : List UInt8) (h : coe < 65536) :
    u16 (sdoHdr coe cmd idx sub ++ rest) 0 = coe := by
  simp [u16, slice, sdoHdr, encLE, decLE]; omega
theorem byte_sdoHdr2 (coe cmd idx sub : Nat) (rest : List UInt8) (h : cmd < 256) :
    byte (sdoHdr coe cmd idx sub ++ rest) 2 = cmd := by
  simp [byte, sdoHdr, encLE]; omega
theorem u16_sdoHdr3 (coe cmd idx sub : Nat) (rest : List UInt8) (h : idx < 65536) :
    u16 (sdoHdr coe cmd idx sub ++ rest) 3 = idx := by
  simp [u16, slice, sdoHdr, encLE, decLE]; omega
theorem byte_sdoHdr5 (coe cmd idx sub : Nat) (rest : List UInt8) (h : sub < 256) :
    byte (sdoHdr coe cmd idx sub ++ rest) 5 = sub := by
  simp [byte, sdoHdr, encLE]; omega
theorem drop6_sdoHdr (coe cmd idx sub : Nat) (rest : List UInt8) :
    (sdoHdr coe cmd idx sub ++ rest).drop 6 = rest := by
  simp [sdoHdr, encLE]

theorem rd16_eq_u16 (bs : List UInt8) (o : Nat) : rd16 bs o = u16 bs o := by simp [rd16, u16, slice]
theorem rd32_eq_u32 (bs : List UInt8) (o : Nat) : rd32 bs o = u32 bs o := by simp [rd32, u32, slice]
theorem rd8_eq_byte (bs : List UInt8) (o : Nat) : rd8 bs o = byte bs o := rfl

theorem sdoBody_eq (svc cmd i sub : Nat) (rest : List UInt8) :
    sdoBody svc cmd i sub rest = sdoHdr (svc <<< 12) cmd i sub ++ rest := by simp [sdoBody, sdoHdr]

theorem padTo_of_le (n : Nat) (bs : List UInt8) (h : bs.length ≤ n) : padTo n bs = bs ++ zeros (n - bs.length) := by
  simp only [padTo, zeros, List.take_append, List.take_replicate]
  rw [List.take_of_length_le h]
  congr 2
  omega

/-- the mail the server builds -/
def srvMail (typ cnt : Nat) (body : List UInt8) : List UInt8 :=
  encLE 2 body.length ++ encLE 2 0 ++ [0, UInt8.ofNat (typ ||| cnt <<< 4)] ++ body

@[simp] theorem srvMail_length (typ cnt : Nat) (body : List UInt8) : (srvMail typ cnt body).length = 6 + body.length := by
  simp [srvMail]; omega

theorem mail_eq (s : Srv) (typ : Nat) (body : List UInt8) :
    mail s typ body = ({ s with cnt := s.cnt % 7 + 1 }, [srvMail typ s.cnt body]) := rfl

theorem decodeMail_srvMail (n typ cnt : Nat) (body : List UInt8) (hn : 6 + body.length ≤ n)
    (hb : body.length < 65536) (ht : typ < 16) (hty : mbxTypes.contains typ = true) :
    decodeMail (padTo n (srvMail typ cnt body)) = .ok (typ, body) := by
  rw [padTo_of_le _ _ (by simp; omega)]
  have h0 : u16 (srvMail typ cnt body ++ zeros (n - (srvMail typ cnt body).length)) 0 = body.length := by
    simp [u16, slice, srvMail, encLE, decLE]; omega
  have h5 : byte (srvMail typ cnt body ++ zeros (n - (srvMail typ cnt body).length)) 5 &&& 15 = typ := by
    have : byte (srvMail typ cnt body ++ zeros (n - (srvMail typ cnt body).length)) 5 = (typ ||| cnt <<< 4) % 256 := by
      simp only [srvMail, encLE, List.cons_append, List.nil_append]
      exact UInt8.toNat_ofNat'
    rw [this]; exact typ_nibble typ cnt ht
  have hd : ((srvMail typ cnt body ++ zeros (n - (srvMail typ cnt body).length)).drop 6).take body.length = body := by
    simp [srvMail, encLE]
  simp only [decodeMail, h0, h5, hd, hty, if_true]

/-! ### mbx_send, mbx_recv on the states that occur -/

/-- the mailbox message for a payload: header (length, address 0, channel/priority 0, CoE | counter) + payload -/
def msgOf (cnt : Nat) (body : List UInt8) : List UInt8 := mbxHeader body.length mbx_COE cnt ++ body

@[simp] theorem msgOf_length (cnt : Nat) (body : List UInt8) : (msgOf cnt body).length = 6 + body.length := by
  simp [msgOf, mbxHeader]; omega

@[simp] theorem sent_append (a b : List Ev) : sent (a ++ b) = sent a ++ sent b := by
  induction a with
  | nil => rfl
  | cons e a ih => cases e <;> simp [sent, ih]

@[simp] theorem sent_polls (d : Nat) : sent (polls d) = [] := by
  induction d with
  | zero => rfl
  | succ d ih => simpa [polls, List.replicate_succ, sent] using ih

def skipEvs (k : Nat) : List Ev := (List.replicate k (polls 0)).flatten

@[simp] theorem sent_skipEvs (k : Nat) : sent (skipEvs k) = [] := by
  induction k with
  | zero => rfl
  | succ k ih => simpa [skipEvs, List.replicate_succ] using ih

theorem mbxSend_nofull (body : List UInt8) (s : St) (hb : body.length < 65536) (hf : s.fulls.headD false = false) :
    mbxSend body s = ({ s with cnt := s.cnt % mbxMod + 1, fulls := s.fulls.tail,
                               tr := s.tr ++ [.st0 false, .send (msgOf s.cnt body), .kick] }, .ok ()) := by
  obtain ⟨cnt, fulls, mails, tr⟩ := s
  have hb' : ¬ body.length ≥ 65536 := by omega
  cases fulls with
  | nil => simp [mbxSend, bind, M.bind, pollOut, nextCounter, emit, hb', msgOf]
  | cons f fs =>
    simp at hf; subst hf
    simp [mbxSend, bind, M.bind, pollOut, nextCounter, emit, hb', msgOf]

theorem mbxSend_full (body : List UInt8) (s : St) (hb : body.length < 65536) (fs : List Bool) (m : Mail) (ms : List Mail)
    (td : Nat × List UInt8) (hf : s.fulls = true :: fs) (hm : s.mails = m :: ms) (hd : decodeMail m.raw = .ok td) :
    mbxSend body s = ({ cnt := s.cnt % mbxMod + 1, fulls := fs, mails := ms,
                        tr := s.tr ++ [.st0 true] ++ polls m.delay ++ [.send (msgOf s.cnt body), .kick] }, .ok ()) := by
  obtain ⟨cnt, fulls, mails, tr⟩ := s
  simp at hf hm; subst hf hm
  have hb' : ¬ body.length ≥ 65536 := by omega
  simp [mbxSend, bind, M.bind, pollOut, nextCounter, emit, hb', msgOf, discardMail, mbxRecv, hd]

theorem recvCoeL_skip (inSz : Nat) (pre : List (List UInt8)) (tail : List Mail)
    (h : ∀ m ∈ pre, unrelated inSz m = true) :
    recvCoeL (pre.map (toMail inSz 0) ++ tail) =
      (skipEvs pre.length ++ (recvCoeL tail).1, (recvCoeL tail).2.1, (recvCoeL tail).2.2) := by
  induction pre with
  | nil => simp [skipEvs]
  | cons m pre ih =>
    have hm := h m (by simp)
    have ih := ih (fun x hx => h x (by simp [hx]))
    simp only [List.map_cons, List.cons_append, recvCoeL]
    unfold unrelated at hm
    simp only [toMail]
    cases hd : decodeMail (padTo inSz m) with
    | err e => simp [hd] at hm
    | ok td =>
      obtain ⟨t, d⟩ := td
      simp only [hd] at hm
      have : t ≠ mbx_COE := by simpa using hm
      simp only [this, if_false]
      rw [ih]
      simp [skipEvs, List.replicate_succ]

/-- the first request of a call under a schedule: what is pending is unrelated mail, one of which the
`mbx_send` drains when 0x805 says "full" -/
theorem send_first (inSz cnt : Nat) (fulls : List Bool) (pre : List (List UInt8)) (tail : List Mail) (body : List UInt8)
    (hpre : ∀ m ∈ pre, unrelated inSz m = true) (hfull : fulls.headD false = true → pre ≠ [])
    (hb : body.length < 65536) :
    ∃ (tr1 : List Ev) (pre' : List (List UInt8)), (∀ m ∈ pre', unrelated inSz m = true) ∧ sent tr1 = [msgOf cnt body] ∧
      mbxSend body ⟨cnt, fulls, pre.map (toMail inSz 0) ++ tail, []⟩ =
        (⟨cnt % mbxMod + 1, fulls.tail, pre'.map (toMail inSz 0) ++ tail, tr1⟩, .ok ()) := by
  cases hf : fulls.headD false with
  | false =>
    refine ⟨[] ++ [.st0 false, .send (msgOf cnt body), .kick], pre, hpre, ?_, mbxSend_nofull body _ hb hf⟩
    simp [sent]
  | true =>
    have hne := hfull hf
    obtain ⟨m, pre', rfl⟩ := List.exists_cons_of_ne_nil hne
    obtain ⟨f, fs, rfl⟩ : ∃ f fs, fulls = f :: fs := by
      cases fulls with
      | nil => simp at hf
      | cons f fs => exact ⟨f, fs, rfl⟩
    simp at hf; subst hf
    have hm := hpre m (by simp)
    unfold unrelated at hm
    cases hd : decodeMail (padTo inSz m) with
    | err e => simp [hd] at hm
    | ok td =>
      refine ⟨[] ++ [.st0 true] ++ polls 0 ++ [.send (msgOf cnt body), .kick], pre',
        fun x hx => hpre x (by simp [hx]), ?_,
        mbxSend_full body _ hb fs (toMail inSz 0 m) (pre'.map (toMail inSz 0) ++ tail) td rfl (by simp) (by simpa [toMail] using hd)⟩
      simp [sent]

/-- request written, nothing but unrelated mail ever arrives: the call waits, having sent exactly the request -/
theorem exchange_blocked {α : Type} (inSz cnt : Nat) (fulls : List Bool) (pre : List (List UInt8)) (body : List UInt8)
    (k : List UInt8 → M α)
    (hpre : ∀ m ∈ pre, unrelated inSz m = true) (hfull : fulls.headD false = true → pre ≠ [])
    (hb : body.length < 65536) :
    ∃ s', (mbxSend body >>= fun _ => recvCoe >>= k) ⟨cnt, fulls, pre.map (toMail inSz 0), []⟩ = (s', .err .blocked) ∧
      sent s'.tr = [msgOf cnt body] := by
  obtain ⟨tr1, pre', hpre', hs, h⟩ := send_first inSz cnt fulls pre [] body hpre hfull hb
  simp only [List.append_nil] at h
  rw [bind_ok h]
  have hr : recvCoe ⟨cnt % mbxMod + 1, fulls.tail, pre'.map (toMail inSz 0), tr1⟩ =
      (⟨cnt % mbxMod + 1, fulls.tail, [], tr1 ++ skipEvs pre'.length⟩, .err .blocked) := by
    have := recvCoeL_skip inSz pre' [] hpre'
    simp only [List.append_nil] at this
    simp [recvCoe, this, recvCoeL]
  exact ⟨_, bind_err hr, by simp [hs]⟩

/-- request written, the answer arrives behind the unrelated mail: the call goes on with the answer's payload -/
theorem exchange_ok {α : Type} (inSz cnt : Nat) (fulls : List Bool) (pre : List (List UInt8)) (body : List UInt8)
    (k : List UInt8 → M α) (d : Nat) (resp data : List UInt8) (rest : List Mail)
    (hpre : ∀ m ∈ pre, unrelated inSz m = true) (hfull : fulls.headD false = true → pre ≠ [])
    (hb : body.length < 65536) (hresp : decodeMail (padTo inSz resp) = .ok (mbx_COE, data)) :
    ∃ tr, sent tr = [msgOf cnt body] ∧
      (mbxSend body >>= fun _ => recvCoe >>= k) ⟨cnt, fulls, pre.map (toMail inSz 0) ++ toMail inSz d resp :: rest, []⟩ =
        k data ⟨cnt % mbxMod + 1, fulls.tail, rest, tr⟩ := by
  obtain ⟨tr1, pre', hpre', hs, h⟩ := send_first inSz cnt fulls pre (toMail inSz d resp :: rest) body hpre hfull hb
  rw [bind_ok h]
  have hr : recvCoe ⟨cnt % mbxMod + 1, fulls.tail, pre'.map (toMail inSz 0) ++ toMail inSz d resp :: rest, tr1⟩ =
      (⟨cnt % mbxMod + 1, fulls.tail, rest, tr1 ++ (skipEvs pre'.length ++ polls d)⟩, .ok data) := by
    have h1 := recvCoeL_skip inSz pre' (toMail inSz d resp :: rest) hpre'
    have h2 : recvCoeL (toMail inSz d resp :: rest) = (polls d, rest, .ok data) := by
      simp [recvCoeL, toMail, hresp]
    rw [h2] at h1
    simp only [recvCoe, h1]
  exact ⟨_, by simp [hs], bind_ok hr⟩

/-! ### the composed system when one exchange settles the call -/

theorem iter_fix {α : Type} (f : α → α) (x : α) (h : f x = x) (n : Nat) : iter f n x = x := by
  induction n with
  | zero => rfl
  | succ n ih => simp [iter, h, ih]

theorem serveAll_one (s s1 : Srv) (req : List UInt8) (rs : List (List UInt8)) (h : step s req = (s1, rs)) :
    serveAll s [req] = (s1, [rs]) := by
  simp [serveAll, h]

/-- if the call sends `req` whatever it waits for, the server answers `resp`, and with `resp` in the mailbox the
call sends nothing more, then that is the run of the composed system -/
theorem single_exchange (c : Setup) (req resp : List UInt8) (srv1 : Srv) (o : R (List UInt8))
    (hreq : req.length ≤ c.p.outSz)
    (h0 : sent (run c.p c.kind c.cnt c.fulls (mkMails c.p.inSz c.sched [])).1 = [req])
    (hsrv : step c.srv req = (srv1, [resp]))
    (h1 : sent (run c.p c.kind c.cnt c.fulls (mkMails c.p.inSz c.sched [[resp]])).1 = [req])
    (ho : (run c.p c.kind c.cnt c.fulls (mkMails c.p.inSz c.sched [[resp]])).2 = o) :
    ∀ n, 1 ≤ n → (system c n).outcome = o ∧ (system c n).objs = srv1.objs ∧ (system c n).responses = [[resp]] ∧
      sent (system c n).trace = [req] := by
  have ht : req.take c.p.outSz = req := List.take_of_length_le hreq
  have r0 : requests c (mkMails c.p.inSz c.sched []) = [req] := by simp [requests, h0, ht]
  have r1 : requests c (mkMails c.p.inSz c.sched [[resp]]) = [req] := by simp [requests, h1, ht]
  have hs := serveAll_one _ _ _ _ hsrv
  have f0 : round c (mkMails c.p.inSz c.sched []) = mkMails c.p.inSz c.sched [[resp]] := by simp [round, r0, hs]
  have f1 : round c (mkMails c.p.inSz c.sched [[resp]]) = mkMails c.p.inSz c.sched [[resp]] := by simp [round, r1, hs]
  intro n hn
  obtain ⟨m, rfl⟩ : ∃ m, n = m + 1 := ⟨n - 1, by omega⟩
  have hm : mailsAfter c (m + 1) = mkMails c.p.inSz c.sched [[resp]] := by
    simp [mailsAfter, iter, f0, iter_fix _ _ f1]
  simp only [system, hm, r1, hs]
  exact ⟨ho, trivial, trivial, h1⟩

/-! ### the server on the master's messages -/

theorem msgOf_parts (cnt : Nat) (body : List UInt8) (hb : body.length < 65536) :
    rd16 (msgOf cnt body) 0 = body.length ∧ rd8 (msgOf cnt body) 5 &&& 0xf = mbx_COE ∧
      ((msgOf cnt body).drop 6).take body.length = body := by
  refine ⟨?_, ?_, ?_⟩
  · simp [rd16, msgOf, mbxHeader, encLE, decLE]; omega
  · have : rd8 (msgOf cnt body) 5 = (mbx_COE ||| cnt <<< 4) % 256 := by
      simp only [msgOf, mbxHeader, encLE, List.cons_append, List.nil_append]
      exact UInt8.toNat_ofNat'
    rw [this]; exact typ_nibble mbx_COE cnt (by decide)
  · simp [msgOf, mbxHeader, encLE]

/-- a CoE SDO request of the master that fits the receive mailbox reaches the SDO service it names -/
theorem step_sdo (s : Srv) (cnt : Nat) (body : List UInt8) (h10 : 10 ≤ body.length) (hfit : 6 + body.length ≤ s.outSz)
    (hb : body.length < 65536) (hsvc : u16 body 0 >>> 12 = 2) :
    step s (msgOf cnt body) =
      match byte body 2 >>> 5 with
      | 1 => initDownload s (byte body 2) body
      | 0 => downloadSegment s (byte body 2) body.length body
      | 2 => initUpload s (byte body 2) body
      | 3 => uploadSegment s (byte body 2)
      | 4 => ({ s with xfer := .idle }, [])
      | _ => abort s 0 0 abCmd := by
  obtain ⟨h1, h2, h3⟩ := msgOf_parts cnt body hb
  have hl : ¬ (msgOf cnt body).length < 6 := by simp
  have hf : ¬ 6 + body.length > s.outSz := by omega
  have ht : ¬ mbx_COE ≠ mbxCoE := by decide
  have h2' : ¬ body.length < 2 := by omega
  have h10' : ¬ body.length < 10 := by omega
  have hs : ¬ rd16 body 0 >>> 12 ≠ svcSdoReq := by rw [rd16_eq_u16, hsvc]; decide
  unfold step
  have ht' : ¬ byte (msgOf cnt body) 5 &&& 15 ≠ mbxCoE := by rw [← rd8_eq_byte, h2]; exact ht
  simp only [hl, if_false, h1, h3, hf, h2', h10', Nat.sub_self, zeros, List.replicate_zero, List.append_nil, hs,
    rd8_eq_byte, ht']
  rfl

/-! ### upload: the request, the server's answer, what the master makes of it -/

/-- the command byte of the upload request -/
def upCmd (p : Params) : Nat := if p.sub.isNone then od_UP_REQ_CA else od_UP_REQ

theorem upReq_eq (p : Params) : upReq p = sdoHdr (coe_SDOREQ <<< 12) (upCmd p) p.index (subOr1 p) ++ zeros 4 := rfl

@[simp] theorem upReq_length (p : Params) : (upReq p).length = 10 := by simp [upReq, sdoHdr_length]

theorem upCmd_facts (p : Params) : upCmd p < 256 ∧ upCmd p >>> 5 = 2 ∧ (upCmd p &&& 0x10 != 0) = p.sub.isNone := by
  unfold upCmd
  cases p.sub <;> simp <;> decide

/-- what a conformant server answers to an initiate-upload request for an object it has -/
def uploadAnswer (s : Srv) (p : Params) (o : Obj) : Srv × List (List UInt8) :=
  if 1 ≤ o.val.length ∧ o.val.length ≤ 4 then
    respond { s with xfer := .idle } (0x43 ||| ((4 - o.val.length) <<< 2) ||| caBit p.sub.isNone) p.index (subOr1 p)
      (o.val ++ zeros (4 - o.val.length))
  else
    respond (if o.val.length > s.inSz - 16
        then { s with xfer := .up p.index (subOr1 p) p.sub.isNone (o.val.drop (s.inSz - 16)) 0 }
        else { s with xfer := .idle })
      (0x41 ||| caBit p.sub.isNone) p.index (subOr1 p) (encLE 4 o.val.length ++ o.val.take (s.inSz - 16))

theorem step_upload (s : Srv) (p : Params) (hwf : Wf p) (cnt : Nat) (o : Obj) (hsz : s.outSz = p.outSz)
    (hfind : find s.objs p.index (subOr1 p) p.sub.isNone = some o) :
    step s (msgOf cnt (upReq p)) = uploadAnswer s p o := by
  obtain ⟨ho, hi, hi2, hidx, hsub⟩ := hwf
  obtain ⟨c1, c2, c3⟩ := upCmd_facts p
  have hsvc : u16 (upReq p) 0 >>> 12 = 2 := by
    rw [upReq_eq, u16_sdoHdr0 _ _ _ _ _ (by decide)]; decide
  rw [step_sdo s cnt (upReq p) (by simp) (by simp; omega) (by simp) hsvc]
  have hcmd : byte (upReq p) 2 = upCmd p := by rw [upReq_eq, byte_sdoHdr2 _ _ _ _ _ c1]
  rw [hcmd, c2]
  simp only [initUpload, rd16_eq_u16, rd8_eq_byte, c3]
  rw [upReq_eq, u16_sdoHdr3 _ _ _ _ _ hidx, byte_sdoHdr5 _ _ _ _ _ hsub]
  simp only [hfind, uploadAnswer]
  split <;> rfl

end Ebv.C16
