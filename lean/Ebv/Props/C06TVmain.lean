import Ebv.Props.C06TVtab
import Ebv.Props.C06TVsyn
import Ebv.Props.C06TVrun
import Ebv.Props.C06
/-! C06 translation validation: every program of the regenerated family `Programs.xaddTable` (the REAL code /repo's
generator emits for `v += a` / `v -= a`: formats i I q Q x × constant / register / expression amounts × both signs ×
declared map variable / `m[base+const]` / `m[base+register]` / local variable), run under the Lean eBPF semantics
(`runXdp`) from arbitrary registers and arbitrary memory, has the shape the schedule model `Ebv.Xadd` assumes:
private computation of the amount, then ONE atomic add of that amount on exactly the variable, then code that does not
touch the variable.  Hence one run of the statement is one `Xadd.stepThread` of the model, and `Ebv.C06.no_lost_update`
speaks about the real code. -/
namespace Ebv.C06TV
open Ebv.Ebpf Ebv.XdpRun Ebv.Programs

variable {t : XaddProg} {e : Env} {g : Place} {R : Nat → W}

/-- **(a) `pre` neither writes nor reads the variable.**  From two memories that differ only in the variable's bytes,
`pre` (whatever code follows it) reaches the XADD's position; in both runs the variable's bytes are unchanged, the
memories still differ only there, and — helpers not looking at the variable — the registers are equal. -/
theorem pre_private (ht : t ∈ Programs.xaddTable) (hL : Lay t e g R) (M M2 : Mem)
    (h : EqOff (varAddr t g) t.n M M2) :
    ∃ s s2 : State, (∀ rest, Steps e (pre t ++ rest) t.steps ⟨R, M, 0⟩ s) ∧
      (∀ rest, Steps e (pre t ++ rest) t.steps ⟨R, M2, 0⟩ s2) ∧ s.pc = t.xpos ∧ s2.pc = t.xpos ∧
      SameOn (varAddr t g) t.n M s.mem ∧ SameOn (varAddr t g) t.n M2 s2.mem ∧
      EqOff (varAddr t g) t.n s.mem s2.mem ∧ (Private e (varAddr t g) t.n → s.regs = s2.regs) := by
  obtain ⟨-, Rf, Mf, Pf, hpre, hsame, heqo, hregs, -⟩ := table_shape t ht e g R hL
  exact ⟨⟨Rf M, Mf M, t.xpos⟩, ⟨Rf M2, Mf M2, t.xpos⟩, fun rest => hpre rest M, fun rest => hpre rest M2, rfl, rfl,
    hsame M, hsame M2, heqo M M2 h, hregs M M2 h⟩

/-- **(b) the single XADD is on the variable, with its width, and adds the statement's amount.**  The program text is
`pre ++ [XADD] ++ post` with no other atomic add and no load; when `pre` has run, the instruction at the program counter
is that XADD, its address register + offset is exactly the variable's address, and its source register holds `amount`
(modulo the variable's width) — a function of the private register alone. -/
theorem xadd_on_variable (ht : t ∈ Programs.xaddTable) (hL : Lay t e g R) (M : Mem) :
    Syntax t ∧ ∃ s : State, Steps e t.prog t.steps ⟨R, M, 0⟩ s ∧
      fetch t.prog s.pc = some ⟨xaddOp t.n, t.xdst, t.xsrc, t.xoff, 0⟩ ∧
      s.regs t.xdst + BitVec.ofInt 64 t.xoff = BitVec.ofNat 64 (varAddr t g) ∧
      (s.regs t.xsrc).toNat % 2 ^ (8 * t.n) = amount t (R t.areg) := by
  have hX := table_syntax t ht
  obtain ⟨-, Rf, Mf, Pf, hpre, -, -, -, htgt, hamt, -⟩ := table_shape t ht e g R hL
  refine ⟨hX, ⟨Rf M, Mf M, t.xpos⟩, ?_, fetch_xadd hX, htgt M, hamt M⟩
  have := hpre (xinsn t :: post t) M
  rwa [← hX.1] at this

/-- **(c) `post` neither writes nor reads the variable.**  From the instruction behind the XADD, with the registers
`pre` left and two arbitrary memories that differ only in the variable's bytes, the program exits with 0; in both runs
the variable's bytes are unchanged and the final memories differ only there. -/
theorem post_private (ht : t ∈ Programs.xaddTable) (hL : Lay t e g R) (M : Mem) :
    ∃ s : State, Steps e t.prog t.steps ⟨R, M, 0⟩ s ∧ ∀ M' M2' : Mem, EqOff (varAddr t g) t.n M' M2' →
      ∃ s' s2' : State, (∀ f, runXdp e t.prog (f + 8) ⟨s.regs, M', t.xpos + 1⟩ = .exit 0 s') ∧
        (∀ f, runXdp e t.prog (f + 8) ⟨s.regs, M2', t.xpos + 1⟩ = .exit 0 s2') ∧
        SameOn (varAddr t g) t.n M' s'.mem ∧ SameOn (varAddr t g) t.n M2' s2'.mem ∧
        EqOff (varAddr t g) t.n s'.mem s2'.mem := by
  have hX := table_syntax t ht
  obtain ⟨-, Rf, Mf, Pf, hpre, -, -, -, -, -, hpost, hpsame, hpeqo⟩ := table_shape t ht e g R hL
  refine ⟨⟨Rf M, Mf M, t.xpos⟩, ?_, fun M' M2' h => ?_⟩
  · have := hpre (xinsn t :: post t) M
    rwa [← hX.1] at this
  · obtain ⟨R1, pc1, h1⟩ := hpost M M'
    obtain ⟨R2, pc2, h2⟩ := hpost M M2'
    exact ⟨⟨R1, Pf M', pc1⟩, ⟨R2, Pf M2', pc2⟩, h1, h2, hpsame M', hpsame M2', hpeqo M' M2' h⟩

/-- **one run of the real statement**: from any memory the program exits with 0 and the final memory `F M` is "`M` with
variable += amount(private register)": the variable's value grows by `amount` modulo its width, and `F M` off the
variable does not depend on the variable's bytes -/
theorem table_run (ht : t ∈ Programs.xaddTable) (hL : Lay t e g R) :
    ∃ F : Mem → Mem,
      (∀ M fuel, t.steps + 9 ≤ fuel → ∃ R'' pc'', runXdp e t.prog fuel ⟨R, M, 0⟩ = .exit 0 ⟨R'', F M, pc''⟩) ∧
      (∀ M, cell t g (F M) = (cell t g M + amount t (R t.areg)) % 2 ^ (8 * t.n)) ∧
      (∀ M M2, EqOff (varAddr t g) t.n M M2 → EqOff (varAddr t g) t.n (F M) (F M2)) :=
  stmt_run (table_shape t ht) (table_syntax t ht) hL

/-! ### the link to the schedule model `Ebv.Xadd` -/

/-- the instance as the model sees it: `steps` private instructions, then one atomic add of `amount` -/
def threadOf (t : XaddProg) (R : Nat → W) : Xadd.Thread := ⟨t.steps, amount t (R t.areg), false⟩

/-- the final memory of one run of the real code (`M` itself should the run not exit — excluded by `table_run`) -/
def runOnce (e : Env) (t : XaddProg) (R : Nat → W) (M : Mem) : Mem :=
  match runXdp e t.prog (t.steps + 9) ⟨R, M, 0⟩ with
  | .exit _ s' => s'.mem
  | _ => M

/-- **the statement IS one step of the model**: on the variable's value, one run of the real code does what
`Xadd.stepThread` does for a thread that has finished its private part — and the private part itself
(`stepThread` with `pre > 0`) leaves the cell alone, as `pre_private` shows for the code -/
theorem stmt_is_step (ht : t ∈ Programs.xaddTable) (hL : Lay t e g R) (M : Mem) :
    Xadd.stepThread (2 ^ (8 * t.n)) (cell t g M) { threadOf t R with pre := 0 } =
      (cell t g (runOnce e t R M), { threadOf t R with pre := 0, done := true }) := by
  obtain ⟨F, hrun, hcell, -⟩ := table_run ht hL
  obtain ⟨R'', pc'', h⟩ := hrun M (t.steps + 9) (Nat.le_refl _)
  have : runOnce e t R M = F M := by unfold runOnce; rw [h]
  rw [this, hcell]
  simp [Xadd.stepThread, threadOf]

/-- the real code run by the instances one after another -/
def runAll (e : Env) (t : XaddProg) : List (Nat → W) → Mem → Mem
  | [], M => M
  | R :: Rs, M => runAll e t Rs (runOnce e t R M)

theorem pending_threads (t : XaddProg) (Rs : List (Nat → W)) :
    Xadd.pending (Rs.map (threadOf t)) = (Rs.map fun R => amount t (R t.areg)).sum := by
  induction Rs with
  | nil => rfl
  | cons R Rs ih =>
    simp only [Xadd.pending, List.map_cons, List.sum_cons] at ih ⊢
    rw [ih]; simp [threadOf]

/-- the real code, run by any number of instances in sequence, changes the variable by the sum of their amounts -/
theorem real_sum (ht : t ∈ Programs.xaddTable) (Rs : List (Nat → W)) (hL : ∀ R ∈ Rs, Lay t e g R) (M : Mem) :
    cell t g (runAll e t Rs M) = (cell t g M + (Rs.map fun R => amount t (R t.areg)).sum) % 2 ^ (8 * t.n) := by
  induction Rs generalizing M with
  | nil => simp [runAll, Nat.mod_eq_of_lt (cell_lt t g M)]
  | cons R Rs ih =>
    have h1 := stmt_is_step ht (hL R (List.mem_cons_self ..)) M
    simp only [Xadd.stepThread, threadOf, Bool.false_eq_true, if_false, if_true, Prod.mk.injEq] at h1
    simp only [runAll, List.map_cons, List.sum_cons]
    rw [ih (fun R' h' => hL R' (List.mem_cons_of_mem _ h')), ← h1.1, Nat.mod_add_mod, Nat.add_assoc]

/-- **no lost update, for the real code.**  Take any number of instances of a compiled statement of the family, each
with its own registers.  Abstract each as the model thread `threadOf` (justified by `pre_private`, `xadd_on_variable`,
`post_private`, `stmt_is_step`).  Then for EVERY schedule that lets all threads finish, the model's final cell is the
value the real code produces when the instances run one after another: the initial value plus the sum of all amounts
the real code computes, modulo the variable's width. -/
theorem real_no_lost_update (ht : t ∈ Programs.xaddTable) (Rs : List (Nat → W)) (hL : ∀ R ∈ Rs, Lay t e g R)
    (M : Mem) (sched : List Nat)
    (hall : ∀ th ∈ (Xadd.runSched (2 ^ (8 * t.n)) sched (cell t g M) (Rs.map (threadOf t))).2, th.done = true) :
    (Xadd.runSched (2 ^ (8 * t.n)) sched (cell t g M) (Rs.map (threadOf t))).1 = cell t g (runAll e t Rs M) ∧
    cell t g (runAll e t Rs M) = (cell t g M + (Rs.map fun R => amount t (R t.areg)).sum) % 2 ^ (8 * t.n) := by
  have h2 := real_sum ht Rs hL M
  refine ⟨?_, h2⟩
  rw [C06.no_lost_update _ sched _ _ hall (C06.cell_in_range _ sched _ _ (cell_lt t g M)), pending_threads, h2]

end Ebv.C06TV
