import Ebv.Props.C26TVe
import Ebv.Props.C26
/-! C26 translation validation: the regenerated Motor fast-group program `Programs.motorGroup`, run under the Lean
eBPF semantics over its helper call (`runXdp`), returns XDP_TX and leaves in the frame exactly what
`Ebv.FastGroup.program` (activate + working-counter bookkeeping), the enable bit and `Ebv.Motor.program` (the
velocity) prescribe — for every frame, DeviceVar values, error counter, register garbage and layout. -/
namespace Ebv.C26TV
open Ebv.Ebpf Ebv.XdpRun Ebv.Bytes Ebv.Motor

variable {a : Addrs} {e : Env} {s : State} {p : List UInt8} {cs : List Nat} {er : Nat} {reg : Nat → Bool}

set_option maxRecDepth 4000 in
theorem seg_ret (R : Nat → W) (M : W → BitVec 8) :
    Steps e Programs.motorGroup 1 ⟨R, M, 91⟩ ⟨upd R 0 3#64, M, 92⟩ ∧
    ∀ f, runXdp e Programs.motorGroup (f + 1) ⟨upd R 0 3#64, M, 92⟩ = .exit 3#64 ⟨upd R 0 3#64, M, 92⟩ := by
  refine ⟨⟨1, by omega, fun f => ?_⟩, fun f => ?_⟩
  · ysim []
  · ysim []

/-- the enabled pass: every run with fuel ≥ 100 ends with XDP_TX and the memory shows `pkRaw` and `errAct` -/
theorem motor_run_raw (hL : Layout geo a e s p cs er reg) (hlen : 63 < p.length) (her : er ≠ 0)
    (fuel : Nat) (hf : 100 ≤ fuel) :
    ∃ s', runXdp e Programs.motorGroup fuel s = .exit 3#64 s' ∧
      MemRel geo a s.mem s'.mem (pkRaw p cs) cs (errAct p er) p.length := by
  have hreg := hL.regions
  obtain ⟨R1, st1, h71, h91⟩ := prologue hL hlen her
  obtain ⟨R2, M2, st2, h72, h92, rel2⟩ := seg_activate (e := e) hreg (rel1 hL 0) hlen h71 h91
  obtain ⟨R3, M3, st3, h73, h93, rel3⟩ := seg_enable (e := e) hreg rel2 hlen h72 h92
  obtain ⟨R4, st4, h74, h94, v4⟩ := seg_d (e := e) hreg rel3 hlen h73 h93
  obtain ⟨R5, st5, h75, h95, v5⟩ := seg_acc_hi (e := e) hreg rel3 hlen h74 h94 v4
  obtain ⟨R6, st6, h76, h96, v6⟩ := seg_acc_lo (e := e) hreg rel3 hlen h75 h95 v5
  obtain ⟨R7, st7, h77, h97, v7⟩ := seg_vmax_hi (e := e) hreg rel3 hlen h76 h96 v6
  obtain ⟨R8, st8, h78, h98, v8⟩ := seg_vmax_lo (e := e) hreg rel3 hlen h77 h97 v7
  obtain ⟨M9, st9, rel9⟩ := seg_store (e := e) (R := R8) hreg rel3 hlen h98
  rw [v8] at rel9
  obtain ⟨R10, M10, st10, h910, rel10⟩ := seg_low (e := e) hreg rel9 hlen h98
  obtain ⟨R11, M11, st11, h911, rel11⟩ := seg_high (e := e) hreg rel10 hlen h910
  obtain ⟨st12, hx⟩ := seg_ret (e := e) R11 M11
  have hall := (((((((((((st1.trans st2).trans st3).trans st4).trans st5).trans st6).trans st7).trans st8).trans st9).trans
    st10).trans st11).trans st12)
  exact ⟨_, hall.exit hx fuel (by omega), rel11⟩

/-- the write datagrams of the regenerated group, as `Ebv.FastGroup` sees them -/
def writers : List FastGroup.Writer := Programs.motorGroup_writers.map fun w => ⟨w.1, w.2.1, w.2.2.1, w.2.2.2⟩

/-- `activate` and the working-counter check are what `Ebv.FastGroup.program` prescribes -/
theorem fast_eq (p : List UInt8) (er : Nat) (h : 63 < p.length) (her : er ≠ 0) :
    FastGroup.program writers Programs.motorGroup_size p er = (pkAct p, errAct p er) := by
  have e1 : encLE 1 5 = [5] := by decide
  have e2 : encLE 2 0 = [0, 0] := by decide
  simp only [FastGroup.program, writers, Programs.motorGroup_writers, Programs.motorGroup_size, Consts.ETHERNET_HEADER,
    List.map, FastGroup.activateAll, FastGroup.activateOne, FastGroup.M32, her, if_false]
  rw [if_neg (by omega), wkcAt_eq p 62 (by omega)]
  unfold pkAct errAct
  rw [e1, e2, setRange_one p 48 5 (by omega), setRange_two _ 62 0 0 (by simp; omega)]
  congr 1
  by_cases hw : decLE (slice p 62 (62 + 2)) = 1 <;> simp [hw]

/-- what the enabled pass leaves in the frame and in `wkc_errors` -/
def motorOut (p : List UInt8) (cs : List Nat) (er : Nat) : List UInt8 × Nat :=
  (pkVel (pkEn (FastGroup.program writers Programs.motorGroup_size p er).1 cs) (program (inp p cs)),
   (FastGroup.program writers Programs.motorGroup_size p er).2)

/-- **Translation validation of the Motor program, enabled pass** (frame long enough, `wkc_errors ≠ 0`; both
outcomes of the working-counter check). -/
theorem motor_refines (hL : Layout geo a e s p cs er reg) (hlen : 63 < p.length) (her : er ≠ 0)
    (fuel : Nat) (hf : 100 ≤ fuel) :
    ∃ s', runXdp e Programs.motorGroup fuel s = .exit 3#64 s' ∧
      MemRel geo a s.mem s'.mem (motorOut p cs er).1 cs (motorOut p cs er).2 p.length := by
  obtain ⟨s', hrun, hrel⟩ := motor_run_raw hL hlen her fuel hf
  refine ⟨s', hrun, ?_⟩
  simp only [motorOut, fast_eq p er hlen her]
  rw [← pkRaw_eq p cs hlen]; exact hrel

/-- **idle pass**: a short frame, or `wkc_errors = 0`: XDP_TX and nothing in frame or map changes -/
theorem motor_idle (hL : Layout geo a e s p cs er reg) (h : p.length ≤ 63 ∨ er = 0) (fuel : Nat) (hf : 100 ≤ fuel) :
    ∃ s', runXdp e Programs.motorGroup fuel s = .exit 3#64 s' ∧ MemRel geo a s.mem s'.mem p cs er p.length := by
  have key : ∃ R' pc', runXdp e Programs.motorGroup 30 s =
      .exit 3 ⟨R', storeN s.mem (BitVec.ofNat 64 (a.stk - 4)) 4 0, pc'⟩ := by
    by_cases hs : p.length ≤ 63
    · exact exit_short hL hs
    · exact exit_noerr hL (by omega) (by omega)
  obtain ⟨R', pc', hk⟩ := key
  obtain ⟨j, rfl⟩ : ∃ j, fuel = 30 + j := ⟨fuel - 30, by omega⟩
  refine ⟨⟨R', storeN s.mem (BitVec.ofNat 64 (a.stk - 4)) 4 0, pc'⟩, ?_, rel1 hL 0⟩
  rw [runXdp_add e _ 30 j s (by rw [hk]; exact fun hc => by cases hc), hk]
  rfl

/-! ### what the theorem says about the frame, field by field -/

theorem motorOut_eq (p : List UInt8) (cs : List Nat) (er : Nat) (h : 63 < p.length) (her : er ≠ 0) :
    motorOut p cs er = (pkVel (pkEn (pkAct p) cs) (program (inp p cs)), errAct p er) := by
  simp only [motorOut, fast_eq p er h her]

theorem ite_fits {c : Prop} [Decidable c] {x y : Int} (hx : fitsS 2 x = true) (hy : fitsS 2 y = true) :
    fitsS 2 (if c then x else y) = true := by split <;> assumption

theorem program_fits (i : Inputs) : fitsS 2 (program i) = true := by
  rw [program_eq]
  have h0 : fitsS 2 0 = true := by decide
  exact ite_fits h0 (ite_fits h0 (wrap16_fits _))

theorem len_pkEn_pkAct (p : List UInt8) (cs : List Nat) (h : 63 < p.length) : (pkEn (pkAct p) cs).length = p.length := by
  have l1 := length_setRange_enc p 48 1 5 (by omega)
  have l2 := length_setRange_enc (setRange p 48 (encLE 1 5)) 62 2 0 (by omega)
  unfold pkEn pkAct; rw [length_setRange_enc _ 58 1 _ (by omega), l2, l1]

/-- the velocity field of the returned frame is `Motor.program` of the inputs read from the received frame -/
theorem velocity_is_program (p : List UInt8) (cs : List Nat) (er : Nat) (h : 63 < p.length) (her : er ≠ 0) :
    toSigned 2 (decLE (slice (motorOut p cs er).1 60 62)) = program (inp p cs) := by
  rw [motorOut_eq p cs er h her]
  exact vel_readback _ _ (by rw [len_pkEn_pkAct p cs h]; omega) (program_fits _)

/-- with C26's `motor_exact`: under the property's hypotheses the bytecode commands exactly the limited control law -/
theorem velocity_is_spec (p : List UInt8) (cs : List Nat) (er : Nat) (h : 63 < p.length) (her : er ≠ 0)
    (hyp : Hyp (inp p cs)) : toSigned 2 (decLE (slice (motorOut p cs er).1 60 62)) = spec (inp p cs) := by
  rw [velocity_is_program p cs er h her, Ebv.C26.motor_exact _ hyp]

/-- bytes other than command (48), enable (58), velocity (60, 61) and working counter (62, 63) are unchanged -/
theorem other_bytes_unchanged (p : List UInt8) (cs : List Nat) (er : Nat) (h : 63 < p.length) (her : er ≠ 0) (i : Nat)
    (hi : i ≠ 48 ∧ i ≠ 58 ∧ i ≠ 60 ∧ i ≠ 61 ∧ i ≠ 62 ∧ i ≠ 63) : (motorOut p cs er).1[i]? = p[i]? := by
  rw [motorOut_eq p cs er h her]
  have l1 := length_setRange_enc p 48 1 5 (by omega)
  have l2 := length_setRange_enc (setRange p 48 (encLE 1 5)) 62 2 0 (by omega)
  have l3 := len_pkEn_pkAct p cs h
  simp only [pkVel]
  rw [getElem?_setRange_outside _ 60 _ i (by simp; omega) (by simp; omega)]
  unfold pkEn pkAct
  rw [getElem?_setRange_outside _ 58 _ i (by simp; omega) (by simp; omega),
    getElem?_setRange_outside _ 62 _ i (by simp; omega) (by simp; omega),
    getElem?_setRange_outside _ 48 _ i (by simp; omega) (by simp; omega)]

/-- the enable byte: bit 0 := (set_enable ≠ 0), the other bits as received -/
theorem enable_byte (p : List UInt8) (cs : List Nat) (er : Nat) (h : 63 < p.length) (her : er ≠ 0) :
    decLE (slice (motorOut p cs er).1 58 59) =
      if cs.getD 0 0 = 0 then decLE (slice p 58 59) &&& 254 else decLE (slice p 58 59) ||| 1 := by
  rw [motorOut_eq p cs er h her]
  have l1 := length_setRange_enc p 48 1 5 (by omega)
  have l2 := length_setRange_enc (setRange p 48 (encLE 1 5)) 62 2 0 (by omega)
  have l3 := len_pkEn_pkAct p cs h
  have hb := decLE_slice_bound p 58 1 (by omega)
  have h58 : slice (pkAct p) 58 59 = slice p 58 59 := by
    unfold pkAct
    rw [slice_setRange_enc _ 62 2 _ 58 59 (by omega) (by omega) (by omega),
      slice_setRange_enc _ 48 1 _ 58 59 (by omega) (by omega) (by omega)]
  simp only [pkVel]
  rw [slice_setRange_enc _ 60 2 _ 58 59 (by omega) (by omega) (by omega)]
  unfold pkEn
  rw [show (59 : Nat) = 58 + 1 from rfl, slice_setRange_enc_same _ 58 1 _ (by unfold pkAct; omega), h58]
  have hlt : (if cs.getD 0 0 = 0 then decLE (slice p 58 (58 + 1)) &&& 254 else decLE (slice p 58 (58 + 1)) ||| 1) < 256 := by
    split
    · exact Nat.lt_of_le_of_lt Nat.and_le_left hb
    · exact Nat.or_lt_two_pow (n := 8) hb (by omega)
  rw [decLE_encLE 1 _ (by simpa using hlt)]

/-- the offsets used above are those of the regenerated geometry -/
theorem offsets_ok : Programs.motorGroup_outBase = 58 ∧ Programs.motorGroup_outBase + 2 = 60 ∧
    Programs.motorGroup_inBase + 1 = 41 ∧ Programs.motorGroup_inBase + 2 = 42 ∧
    Programs.motorGroup_writers = [(48, 62, 5, 1)] ∧ Programs.motorGroup_size + Consts.ETHERNET_HEADER - 1 = 63 := by decide

/-! ### non-vacuity: a concrete invocation satisfying `Layout` -/
def exAddrs : Addrs := ⟨4096, 8192, 16384, 32768⟩
/-- a 64-byte frame: switches byte 0x10 (low active), stepcounter 1000, previous velocity 5, working counter 1 -/
def exP : List UInt8 := List.replicate 41 0 ++ [0x10, 0xE8, 0x03, 0, 0] ++ List.replicate 14 0 ++ [5, 0, 1, 0]
/-- set_enable 1, max_velocity 100, max_acceleration 10, target 2000, proportional 3 -/
def exCs : List Nat := [1, 100, 10, 2000, 3]
def exMem : W → BitVec 8 := fun x =>
  if 16384 ≤ x.toNat ∧ x.toNat < 16384 + 64 then byte (exP.getD (x.toNat - 16384) 0)
  else if x.toNat = 8193 then 0x40 else if x.toNat = 8196 then 64 else if x.toNat = 8197 then 0x40
  else if x.toNat = 32768 then 1 else if x.toNat = 32772 then 1 else if x.toNat = 32776 then 100
  else if x.toNat = 32780 then 10 else if x.toNat = 32784 then 0xD0 else if x.toNat = 32785 then 0x07
  else if x.toNat = 32788 then 3 else 0
def exState : State := ⟨fun k => if k = 10 then addr 4096 else if k = 1 then addr 8192 else 0xdeadbeef, exMem, 0⟩
def exEnv : Env where
  handle := fun fd => BitVec.ofInt 64 fd
  lookup := fun h k => if h = BitVec.ofInt 64 geo.varFd ∧ k = 0 then addr 32768 else 0
  rnd := 0
  tail := fun _ _ => false
  clob := fun _ _ _ => 0xbad

theorem exLayout : Layout geo exAddrs exEnv exState exP exCs 1 (fun _ => false) where
  pc := rfl
  r10 := rfl
  r1 := rfl
  regions := by
    refine ⟨?_, ?_, ?_, ?_, ?_, ?_, ?_, ?_, ?_, ?_, ?_, ?_⟩ <;>
      simp [exAddrs, exP, geo, disjointIv, Programs.motorGroup_varSize]
  data := by decide
  data_end := by decide
  pkt := by decide
  cs_len := by decide
  counters := by decide
  drop := by decide
  lookup := by simp [exEnv, exAddrs]
  tail := by intro i; simp [exEnv]

/-- on this invocation: d = 3·(2000−1000) = 3000, limited to vprev + acc = 15; the low switch does not act on 15 -/
example : program (inp exP exCs) = 15 := by decide

example : ∃ s', runXdp exEnv Programs.motorGroup 100 exState = .exit 3#64 s' ∧
    MemRel geo exAddrs exMem s'.mem (motorOut exP exCs 1).1 exCs (motorOut exP exCs 1).2 exP.length :=
  motor_refines exLayout (by decide) (by decide) 100 (by omega)

end Ebv.C26TV
