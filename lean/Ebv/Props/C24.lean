import Ebv.Model.Coro
/-! C24 — cancelling a sync group releases its resources and ends cancelled.

Part 1 is the metatheory of the coroutine semantics (`Ebv.Coro.run`): a cancellation index that
is not reached leaves the run unchanged; a well-formed coroutine (no `except`, cleanup blocks
that cannot block) ends with CancelledError exactly when the cancellation is delivered inside it.
Part 2 proves the clauses of the property for the transcribed `SyncGroupBase.run`,
`FastSyncGroup.run` and `ProcessSyncGroup.wait_for_process` — for every cancellation index,
every terminal list and every number of cycles. -/
namespace Ebv.C24
open Ebv.Coro Ebv.Consts

variable {α : Type}

/-! ## Part 1: metatheory of `run` -/

/-- the cancellation index lies in the range of awaits `[i, j)` -/
def Delivered (k : Option Nat) (i j : Nat) : Prop := ∃ m, k = some m ∧ i ≤ m ∧ m < j
/-- the cancellation index lies outside `[i, j)` -/
def NotIn (k : Option Nat) (i j : Nat) : Prop := ∀ m, k = some m → m < i ∨ j ≤ m

theorem delivered_split {k : Option Nat} {i j l : Nat} (h1 : i ≤ j) (h2 : j ≤ l) :
    Delivered k i l ↔ Delivered k i j ∨ Delivered k j l := by
  constructor
  · rintro ⟨m, hk, a, b⟩
    by_cases h : m < j
    · exact Or.inl ⟨m, hk, a, h⟩
    · exact Or.inr ⟨m, hk, by omega, b⟩
  · rintro (⟨m, hk, a, b⟩ | ⟨m, hk, a, b⟩)
    · exact ⟨m, hk, a, by omega⟩
    · exact ⟨m, hk, by omega, b⟩

theorem not_delivered_self (k : Option Nat) (i : Nat) : ¬ Delivered k i i := by
  rintro ⟨m, _, a, b⟩; omega

theorem delivered_one (k : Option Nat) (i : Nat) : Delivered k i (i + 1) ↔ k = some i := by
  constructor
  · rintro ⟨m, hk, a, b⟩
    have : m = i := by omega
    subst this; exact hk
  · intro h; exact ⟨i, h, by omega, by omega⟩

/-! ### the await counter only grows -/

theorem runAwaits_mono (k : Option Nat) (l : List α) (i : Nat) : i ≤ (runAwaits k l i).idx := by
  induction l generalizing i with
  | nil => simp [runAwaits]
  | cons a l ih =>
    unfold runAwaits
    split
    · simp
    · have := ih (i + 1); simp only; omega

theorem andThen_mono {r : Res α} {f : Nat → Res α} {i : Nat} (h : i ≤ r.idx) (hf : ∀ j, j ≤ (f j).idx) :
    i ≤ (r.andThen f).idx := by
  unfold Res.andThen
  split
  · have := hf r.idx; simp only; omega
  · exact h

theorem andThen_idx_ge (r : Res α) {f : Nat → Res α} (hf : ∀ j, j ≤ (f j).idx) : r.idx ≤ (r.andThen f).idx :=
  andThen_mono (Nat.le_refl _) hf

theorem finallyDo_mono {r : Res α} {f : Nat → Res α} {i : Nat} (h : i ≤ r.idx) (hf : ∀ j, j ≤ (f j).idx) :
    i ≤ (r.finallyDo f).idx := by
  unfold Res.finallyDo
  split
  · exact h
  · have := hf r.idx; simp only; omega

theorem exitOk_mono {r : Res α} {f : Nat → Res α} {i : Nat} (h : i ≤ r.idx) (hf : ∀ j, j ≤ (f j).idx) :
    i ≤ (r.exitOk f).idx := by
  unfold Res.exitOk
  split
  · have := hf r.idx; simp only; omega
  · exact h

theorem runLoop_mono {f : Nat → Res α} (hf : ∀ j, j ≤ (f j).idx) (n i : Nat) : i ≤ (runLoop f n i).idx := by
  induction n generalizing i with
  | zero => simp [runLoop]
  | succ n ih => unfold runLoop; exact andThen_mono (hf i) ih

theorem run_mono (k : Option Nat) (c : Coro α) (i : Nat) : i ≤ (run k c i).idx := by
  induction c generalizing i with
  | skip => simp [run]
  | act a => simp [run]
  | await a => simp only [run]; exact runAwaits_mono k _ i
  | park a => simp only [run]; split <;> simp
  | raise e => simp [run]
  | ret => simp [run]
  | seq p q ihp ihq => simp only [run]; exact andThen_mono (ihp i) ihq
  | tryFinally b f ihb ihf => simp only [run]; exact finallyDo_mono (ihb i) ihf
  | tryExcept b c h e ihb ihh ihe =>
    simp only [run]
    have hb := ihb i
    split
    · split
      · have := ihh (run k b i).idx; simp only; omega
      · exact hb
    · have := ihe (run k b i).idx; simp only; omega
    · exact hb
  | withCtx en ex fi b ihen ihex ihfi ihb =>
    simp only [run]
    exact finallyDo_mono (andThen_mono (ihen i) fun j => exitOk_mono (ihb j) ihex) ihfi
  | gather cs => simp only [run]; exact runAwaits_mono k _ i
  | loop n b ih => simp only [run]; exact runLoop_mono ih n i

/-! ### a cancellation index outside the run changes nothing -/

theorem notIn_left {k : Option Nat} {i j l : Nat} (h : NotIn k i l) (hj : j ≤ l) : NotIn k i j :=
  fun m hk => (h m hk).elim Or.inl fun x => Or.inr (by omega)

theorem notIn_right {k : Option Nat} {i j l : Nat} (h : NotIn k i l) (hj : i ≤ j) : NotIn k j l :=
  fun m hk => (h m hk).elim (fun x => Or.inl (by omega)) Or.inr

theorem runAwaits_undelivered (k : Option Nat) (l : List α) (i : Nat)
    (h : NotIn k i (runAwaits k l i).idx) : runAwaits k l i = runAwaits none l i := by
  induction l generalizing i with
  | nil => simp [runAwaits]
  | cons a l ih =>
    unfold runAwaits at h ⊢
    by_cases hk : k = some i
    · simp only [hk, ↓reduceIte] at h
      rcases h i rfl with x | x <;> omega
    · simp only [hk, ↓reduceIte, reduceCtorEq] at h ⊢
      rw [ih (i + 1) (notIn_right h (by omega))]

theorem andThen_undelivered {k : Option Nat} {i : Nat} {r r' : Res α} {f f' : Nat → Res α}
    (hf : ∀ j, j ≤ (f j).idx) (hi : i ≤ r.idx)
    (h : NotIn k i (r.andThen f).idx) (hr : NotIn k i r.idx → r = r')
    (hq : ∀ j, NotIn k j (f j).idx → f j = f' j) : r.andThen f = r'.andThen f' := by
  have e1 : r = r' := hr (notIn_left h (andThen_idx_ge r hf))
  subst e1
  unfold Res.andThen at h ⊢
  by_cases hn : r.out = .normal
  · simp only [hn, ↓reduceIte] at h ⊢
    rw [hq r.idx (notIn_right h hi)]
  · simp only [hn, ↓reduceIte]

theorem finallyDo_undelivered {k : Option Nat} {i : Nat} {r r' : Res α} {f f' : Nat → Res α}
    (hf : ∀ j, j ≤ (f j).idx) (hi : i ≤ r.idx)
    (h : NotIn k i (r.finallyDo f).idx) (hr : NotIn k i r.idx → r = r')
    (hq : ∀ j, NotIn k j (f j).idx → f j = f' j) : r.finallyDo f = r'.finallyDo f' := by
  have e1 : r = r' := hr (notIn_left h (finallyDo_mono (Nat.le_refl _) hf))
  subst e1
  unfold Res.finallyDo at h ⊢
  by_cases hn : r.out = .pending
  · simp only [hn, ↓reduceIte]
  · simp only [hn, ↓reduceIte] at h ⊢
    rw [hq r.idx (notIn_right h hi)]

theorem exitOk_undelivered {k : Option Nat} {i : Nat} {r r' : Res α} {f f' : Nat → Res α}
    (hf : ∀ j, j ≤ (f j).idx) (hi : i ≤ r.idx)
    (h : NotIn k i (r.exitOk f).idx) (hr : NotIn k i r.idx → r = r')
    (hq : ∀ j, NotIn k j (f j).idx → f j = f' j) : r.exitOk f = r'.exitOk f' := by
  have e1 : r = r' := hr (notIn_left h (exitOk_mono (Nat.le_refl _) hf))
  subst e1
  unfold Res.exitOk at h ⊢
  by_cases hn : r.out = .normal ∨ r.out = .returned
  · simp only [hn, ↓reduceIte] at h ⊢
    rw [hq r.idx (notIn_right h hi)]
  · simp only [hn, ↓reduceIte]

theorem runLoop_undelivered {k : Option Nat} {f f' : Nat → Res α} (hf : ∀ j, j ≤ (f j).idx)
    (hq : ∀ j, NotIn k j (f j).idx → f j = f' j) (n i : Nat)
    (h : NotIn k i (runLoop f n i).idx) : runLoop f n i = runLoop f' n i := by
  induction n generalizing i with
  | zero => simp [runLoop]
  | succ n ih =>
    unfold runLoop at h ⊢
    exact andThen_undelivered (runLoop_mono hf n) (hf i) h (hq i) ih

/-- **a cancellation that is never reached changes nothing**: if the cancellation index lies
outside the awaits the run passes through, the run is the uncancelled run -/
theorem undelivered_eq (k : Option Nat) (c : Coro α) (i : Nat) (h : NotIn k i (run k c i).idx) :
    run k c i = run none c i := by
  induction c generalizing i with
  | skip => simp [run]
  | act a => simp [run]
  | await a => simp only [run] at h ⊢; exact runAwaits_undelivered k _ i h
  | park a =>
    simp only [run] at h ⊢
    by_cases hk : k = some i
    · simp only [hk, ↓reduceIte] at h
      rcases h i rfl with x | x <;> omega
    · simp [hk]
  | raise e => simp [run]
  | ret => simp [run]
  | seq p q ihp ihq =>
    simp only [run] at h ⊢
    exact andThen_undelivered (run_mono k q) (run_mono k p i) h (ihp i) ihq
  | tryFinally b f ihb ihf =>
    simp only [run] at h ⊢
    exact finallyDo_undelivered (run_mono k f) (run_mono k b i) h (ihb i) ihf
  | tryExcept b c hd e ihb ihh ihe =>
    simp only [run] at h ⊢
    have hb := run_mono k b i
    have e1 : run k b i = run none b i := by
      apply ihb i
      refine notIn_left h ?_
      split
      · split
        · have := run_mono k hd (run k b i).idx; simp only; omega
        · exact Nat.le_refl _
      · have := run_mono k e (run k b i).idx; simp only; omega
      · exact Nat.le_refl _
    rw [← e1]
    generalize run k b i = r at h hb ⊢
    split
    · split
      · rename_i x heq hc
        simp only [heq, hc, ↓reduceIte] at h
        rw [ihh r.idx (notIn_right h hb)]
      · rfl
    · rename_i heq
      simp only [heq] at h
      rw [ihe r.idx (notIn_right h hb)]
    · rfl
  | withCtx en ex fi b ihen ihex ihfi ihb =>
    simp only [run] at h ⊢
    refine finallyDo_undelivered (run_mono k fi)
      (andThen_mono (run_mono k en i) fun j => exitOk_mono (run_mono k b j) (run_mono k ex)) h ?_ ihfi
    intro h2
    refine andThen_undelivered (fun j => exitOk_mono (run_mono k b j) (run_mono k ex)) (run_mono k en i) h2 (ihen i) ?_
    intro j h3
    exact exitOk_undelivered (run_mono k ex) (run_mono k b j) h3 (ihb j) ihex
  | gather cs => simp only [run] at h ⊢; exact runAwaits_undelivered k _ i h
  | loop n b ih =>
    simp only [run] at h ⊢
    exact runLoop_undelivered (run_mono k b) ih n i h

/-- once the cancellation has been delivered, everything later runs as if never cancelled -/
theorem past_eq {k : Option Nat} {m : Nat} (hk : k = some m) (c : Coro α) {i : Nat} (h : m < i) :
    run k c i = run none c i :=
  undelivered_eq k c i fun m' hk' => by
    rw [hk] at hk'; cases hk'; exact Or.inl h

/-! ### well-formed coroutines end cancelled exactly when the cancellation is delivered -/

/-- cannot block and cannot raise by itself: only actions, awaits, gathers, `finally`, `with` -/
def total : Coro α → Bool
  | .skip | .act _ | .await _ | .gather _ => true
  | .park _ | .raise _ | .ret | .tryExcept .. | .loop .. => false
  | .seq p q => total p && total q
  | .tryFinally b f => total b && total f
  | .withCtx en ex fi b => total en && total ex && total fi && total b

/-- no `except`/`raise`/`return`, and every cleanup block (`finally`, context-manager exit) is total -/
def wf : Coro α → Bool
  | .skip | .act _ | .await _ | .gather _ | .park _ => true
  | .raise _ | .ret | .tryExcept .. => false
  | .seq p q => wf p && wf q
  | .tryFinally b f => wf b && total f
  | .withCtx en ex fi b => wf en && total ex && total fi && wf b
  | .loop _ b => wf b

theorem total_wf (c : Coro α) (h : total c = true) : wf c = true := by
  induction c with
  | skip | act | await | gather | park | raise | ret | tryExcept | loop => simp_all [total, wf]
  | seq p q ihp ihq => simp_all [total, wf]
  | tryFinally b f ihb ihf => simp_all [total, wf]
  | withCtx en ex fi b ihen ihex ihfi ihb => simp_all [total, wf]

/-- what a run of a well-formed coroutine from await index `i` looks like -/
structure Good (k : Option Nat) (i : Nat) (r : Res α) (tot : Bool) : Prop where
  mono : i ≤ r.idx
  tri : r.out = .normal ∨ r.out = .pending ∨ r.out = .raised .cancelled
  canc : r.out = .raised .cancelled ↔ Delivered k i r.idx
  tot : tot = true → r.out ≠ .pending

theorem good_awaits (k : Option Nat) (l : List α) (i : Nat) : Good k i (runAwaits k l i) true := by
  induction l generalizing i with
  | nil =>
    simp only [runAwaits]
    exact ⟨Nat.le_refl _, Or.inl rfl, by simp [not_delivered_self], by simp⟩
  | cons a l ih =>
    unfold runAwaits
    by_cases hk : k = some i
    · simp only [hk, ↓reduceIte]
      exact ⟨by simp, Or.inr (Or.inr rfl), by simp [delivered_one], by simp⟩
    · simp only [hk, ↓reduceIte]
      have g := ih (i + 1)
      refine ⟨by have := g.mono; simp only; omega, g.tri, ?_, g.tot⟩
      simp only
      rw [g.canc, delivered_split (Nat.le_succ i) g.mono, delivered_one]
      simp [hk]

theorem good_andThen {k : Option Nat} {i : Nat} {r : Res α} {f : Nat → Res α} {t1 t2 : Bool}
    (h : Good k i r t1) (hf : ∀ j, Good k j (f j) t2) : Good k i (r.andThen f) (t1 && t2) := by
  unfold Res.andThen
  by_cases hn : r.out = .normal
  · simp only [hn, ↓reduceIte]
    have g := hf r.idx
    have hnd : ¬ Delivered k i r.idx := fun hd => by
      have := h.canc.2 hd; rw [hn] at this; cases this
    refine ⟨Nat.le_trans h.mono g.mono, g.tri, ?_, ?_⟩
    · simp only
      rw [g.canc, delivered_split h.mono g.mono]; simp [hnd]
    · intro ht; simp only [Bool.and_eq_true] at ht; exact g.tot ht.2
  · simp only [hn, ↓reduceIte]
    refine ⟨h.mono, h.tri, h.canc, ?_⟩
    intro ht; simp only [Bool.and_eq_true] at ht; exact h.tot ht.1

/-- `finally` / exit blocks are total -/
theorem good_finallyDo {k : Option Nat} {i : Nat} {r : Res α} {f : Nat → Res α} {t1 : Bool}
    (h : Good k i r t1) (hf : ∀ j, Good k j (f j) true) : Good k i (r.finallyDo f) t1 := by
  unfold Res.finallyDo
  by_cases hp : r.out = .pending
  · simp only [hp, ↓reduceIte]
    exact ⟨h.mono, h.tri, h.canc, h.tot⟩
  · simp only [hp, ↓reduceIte]
    have g := hf r.idx
    have gp := g.tot rfl
    refine ⟨Nat.le_trans h.mono g.mono, ?_, ?_, ?_⟩
    · simp only
      rcases g.tri with a | a | a
      · simp only [a, ↓reduceIte]; exact h.tri
      · exact absurd a gp
      · simp [a]
    · simp only
      rw [delivered_split h.mono g.mono, ← h.canc, ← g.canc]
      rcases g.tri with a | a | a
      · simp [a]
      · exact absurd a gp
      · simp [a]
    · intro _
      simp only
      rcases g.tri with a | a | a
      · simp only [a, ↓reduceIte]; exact hp
      · exact absurd a gp
      · simp [a]

theorem good_exitOk {k : Option Nat} {i : Nat} {r : Res α} {f : Nat → Res α} {t1 : Bool}
    (h : Good k i r t1) (hf : ∀ j, Good k j (f j) true) : Good k i (r.exitOk f) t1 := by
  unfold Res.exitOk
  by_cases hn : r.out = .normal
  · simp only [hn, true_or, ↓reduceIte]
    have g := hf r.idx
    have gp := g.tot rfl
    have hnd : ¬ Delivered k i r.idx := fun hd => by
      have := h.canc.2 hd; rw [hn] at this; cases this
    refine ⟨Nat.le_trans h.mono g.mono, ?_, ?_, ?_⟩
    · simp only
      rcases g.tri with a | a | a
      · simp [a]
      · exact absurd a gp
      · simp [a]
    · simp only
      rw [delivered_split h.mono g.mono, ← g.canc]
      rcases g.tri with a | a | a
      · simp [a, hnd]
      · exact absurd a gp
      · simp [a]
    · intro _
      simp only
      rcases g.tri with a | a | a
      · simp [a]
      · exact absurd a gp
      · simp [a]
  · have hr : ¬ (r.out = .normal ∨ r.out = .returned) := by
      rintro (a | a)
      · exact hn a
      · rcases h.tri with b | b | b <;> rw [a] at b <;> cases b
    simp only [hr, ↓reduceIte]
    exact ⟨h.mono, h.tri, h.canc, h.tot⟩

theorem good_loop {k : Option Nat} {f : Nat → Res α} {t : Bool} (hf : ∀ j, Good k j (f j) t) (n i : Nat) :
    Good k i (runLoop f n i) false := by
  induction n generalizing i with
  | zero =>
    simp only [runLoop]
    exact ⟨Nat.le_refl _, Or.inr (Or.inl rfl), by simp [not_delivered_self], by simp⟩
  | succ n ih =>
    unfold runLoop
    have := good_andThen (hf i) ih
    simpa using this

theorem good_weaken {k : Option Nat} {i : Nat} {r : Res α} {t : Bool} (h : Good k i r t) : Good k i r false :=
  ⟨h.mono, h.tri, h.canc, by simp⟩

/-- the shape of every run of a well-formed coroutine -/
theorem good_run (k : Option Nat) (c : Coro α) (hw : wf c = true) (i : Nat) : Good k i (run k c i) (total c) := by
  induction c generalizing i with
  | skip =>
    simp only [run, total]
    exact ⟨Nat.le_refl _, Or.inl rfl, by simp [not_delivered_self], by simp⟩
  | act a =>
    simp only [run, total]
    exact ⟨Nat.le_refl _, Or.inl rfl, by simp [not_delivered_self], by simp⟩
  | await a => simp only [run, total]; exact good_awaits k _ i
  | park a =>
    simp only [run, total]
    by_cases hk : k = some i
    · simp only [hk, ↓reduceIte]
      exact ⟨by simp, Or.inr (Or.inr rfl), by simp [delivered_one], by simp⟩
    · simp only [hk, ↓reduceIte]
      exact ⟨by simp, Or.inr (Or.inl rfl), by simp [delivered_one, hk], by simp⟩
  | raise e => simp [wf] at hw
  | ret => simp [wf] at hw
  | seq p q ihp ihq =>
    simp only [wf, Bool.and_eq_true] at hw
    simp only [run, total]
    exact good_andThen (ihp hw.1 i) (ihq hw.2)
  | tryFinally b f ihb ihf =>
    simp only [wf, Bool.and_eq_true] at hw
    simp only [run, total]
    have gf : ∀ j, Good k j (run k f j) true := fun j => by
      have := ihf (total_wf f hw.2) j; rwa [hw.2] at this
    have := good_finallyDo (ihb hw.1 i) gf
    rw [hw.2, Bool.and_true]; exact this
  | tryExcept b c h e => simp [wf] at hw
  | withCtx en ex fi b ihen ihex ihfi ihb =>
    simp only [wf, Bool.and_eq_true] at hw
    obtain ⟨⟨⟨h1, h2⟩, h3⟩, h4⟩ := hw
    simp only [run, total]
    have gx : ∀ j, Good k j (run k ex j) true := fun j => by
      have := ihex (total_wf ex h2) j; rwa [h2] at this
    have gf : ∀ j, Good k j (run k fi j) true := fun j => by
      have := ihfi (total_wf fi h3) j; rwa [h3] at this
    have := good_finallyDo (good_andThen (ihen h1 i) fun j => good_exitOk (ihb h4 j) gx) gf
    rw [h2, h3]; simpa using this
  | gather cs => simp only [run, total]; exact good_awaits k _ i
  | loop n b ih =>
    simp only [wf] at hw
    simp only [run, total]
    exact good_loop (ih hw) n i

/-- **a well-formed coroutine ends with CancelledError exactly when the cancellation index is one of
the awaits it passes through** (and with nothing else: `good_run.tri`) -/
theorem cancelled_iff_delivered (k : Option Nat) (c : Coro α) (hw : wf c = true) (i : Nat) :
    (run k c i).out = .raised .cancelled ↔ ∃ m, k = some m ∧ i ≤ m ∧ m < (run k c i).idx :=
  (good_run k c hw i).canc

/-- a well-formed coroutine cancelled at any index ends with CancelledError, unless the index is
never reached — then the run is the uncancelled run -/
theorem ends_cancelled_or_unreached (k : Option Nat) (c : Coro α) (hw : wf c = true) :
    (runCancel k c).2 = .raised .cancelled ∨ runCancel k c = runCancel none c := by
  by_cases hd : Delivered k 0 (run k c 0).idx
  · exact Or.inl ((good_run k c hw 0).canc.2 hd)
  · right
    have : run k c 0 = run none c 0 := by
      apply undelivered_eq
      intro m hk
      by_cases hm : m < (run k c 0).idx
      · exact absurd ⟨m, hk, Nat.zero_le _, hm⟩ hd
      · exact Or.inr (by omega)
    simp [runCancel, this]

theorem uncancelled_out (c : Coro α) (hw : wf c = true) (i : Nat) :
    (run none c i).out = .normal ∨ (run none c i).out = .pending := by
  have g := good_run none c hw i
  rcases g.tri with a | a | a
  · exact Or.inl a
  · exact Or.inr a
  · obtain ⟨m, hk, _⟩ := g.canc.1 a; cases hk

/-- syntactically certain to block when never cancelled -/
def blocks : Coro α → Bool
  | .park _ | .loop .. => true
  | .seq p q => blocks p || blocks q
  | .tryFinally b _ => blocks b
  | .withCtx en _ _ b => blocks en || blocks b
  | _ => false

theorem runLoop_not_normal (f : Nat → Res α) (n i : Nat) : (runLoop f n i).out ≠ .normal := by
  induction n generalizing i with
  | zero => simp [runLoop]
  | succ n ih =>
    unfold runLoop Res.andThen
    by_cases h : (f i).out = .normal
    · simp only [h, ↓reduceIte]; exact ih _
    · simp only [h, ↓reduceIte]; exact h

theorem blocks_pending (c : Coro α) (hw : wf c = true) (hb : blocks c = true) (i : Nat) :
    (run none c i).out = .pending := by
  induction c generalizing i with
  | skip | act | await | gather | raise | ret | tryExcept => simp [blocks] at hb
  | park a => simp [run]
  | seq p q ihp ihq =>
    simp only [wf, Bool.and_eq_true] at hw
    simp only [blocks, Bool.or_eq_true] at hb
    simp only [run, Res.andThen]
    rcases uncancelled_out p hw.1 i with a | a
    · simp only [a, ↓reduceIte]
      rcases hb with hb | hb
      · have := ihp hw.1 hb i; rw [a] at this; cases this
      · exact ihq hw.2 hb _
    · simp [a]
  | tryFinally b f ihb ihf =>
    simp only [wf, Bool.and_eq_true] at hw
    simp only [blocks] at hb
    simp only [run, Res.finallyDo, ihb hw.1 hb i, ↓reduceIte]
  | withCtx en ex fi b ihen ihex ihfi ihb =>
    simp only [wf, Bool.and_eq_true] at hw
    obtain ⟨⟨⟨h1, h2⟩, h3⟩, h4⟩ := hw
    simp only [blocks, Bool.or_eq_true] at hb
    have inner : ((run none en i).andThen fun j => (run none b j).exitOk (run none ex)).out = .pending := by
      simp only [Res.andThen]
      rcases uncancelled_out en h1 i with a | a
      · simp only [a, ↓reduceIte]
        rcases hb with hb | hb
        · have := ihen h1 hb i; rw [a] at this; cases this
        · simp [Res.exitOk, ihb h4 hb _]
      · simp [a]
    simp only [run, Res.finallyDo, inner, ↓reduceIte]
  | loop n b ih =>
    simp only [wf] at hw
    have g := good_run none (.loop n b) (by simpa [wf] using hw) i
    simp only [run] at g ⊢
    rcases g.tri with a | a | a
    · exact absurd a (runLoop_not_normal _ n i)
    · exact a
    · obtain ⟨m, hk, _⟩ := g.canc.1 a; cases hk

/-! ### every event of a run is an action the coroutine mentions -/

def acts : Coro α → List α
  | .skip | .raise _ | .ret => []
  | .act a | .await a | .park a => [a]
  | .seq p q => acts p ++ acts q
  | .tryFinally b f => acts b ++ acts f
  | .tryExcept b _ h e => acts b ++ acts h ++ acts e
  | .withCtx en ex fi b => acts en ++ acts ex ++ acts fi ++ acts b
  | .gather cs => cs.flatten
  | .loop _ b => acts b

theorem runAwaits_sub (k : Option Nat) (l : List α) (i : Nat) : ∀ x ∈ (runAwaits k l i).trace, x ∈ l := by
  induction l generalizing i with
  | nil => simp [runAwaits]
  | cons a l ih =>
    unfold runAwaits
    split
    · simp
    · intro x hx
      simp only [List.mem_cons] at hx ⊢
      rcases hx with rfl | hx
      · exact Or.inl rfl
      · exact Or.inr (ih _ x hx)

theorem mem_andThen {r : Res α} {f : Nat → Res α} {x : α} (h : x ∈ (r.andThen f).trace) :
    x ∈ r.trace ∨ x ∈ (f r.idx).trace := by
  unfold Res.andThen at h
  split at h
  · simpa using h
  · exact Or.inl h

theorem mem_finallyDo {r : Res α} {f : Nat → Res α} {x : α} (h : x ∈ (r.finallyDo f).trace) :
    x ∈ r.trace ∨ x ∈ (f r.idx).trace := by
  unfold Res.finallyDo at h
  split at h
  · exact Or.inl h
  · simpa using h

theorem mem_exitOk {r : Res α} {f : Nat → Res α} {x : α} (h : x ∈ (r.exitOk f).trace) :
    x ∈ r.trace ∨ x ∈ (f r.idx).trace := by
  unfold Res.exitOk at h
  split at h
  · simpa using h
  · exact Or.inl h

theorem mem_runLoop {f : Nat → Res α} {x : α} (n i : Nat) (h : x ∈ (runLoop f n i).trace) :
    ∃ j, x ∈ (f j).trace := by
  induction n generalizing i with
  | zero => simp [runLoop] at h
  | succ n ih =>
    unfold runLoop at h
    rcases mem_andThen h with h | h
    · exact ⟨i, h⟩
    · exact ih _ h

theorem heads_sub (cs : List (List α)) : ∀ x ∈ heads cs, ∃ c ∈ cs, x ∈ c := by
  induction cs with
  | nil => simp [heads]
  | cons c cs ih =>
    cases c with
    | nil =>
      intro x hx
      simp only [heads] at hx
      obtain ⟨c, hc, hx⟩ := ih x hx
      exact ⟨c, by simp [hc], hx⟩
    | cons a l =>
      intro x hx
      simp only [heads, List.mem_cons] at hx
      rcases hx with rfl | hx
      · exact ⟨x :: l, by simp, by simp⟩
      · obtain ⟨c, hc, hx⟩ := ih x hx
        exact ⟨c, by simp [hc], hx⟩

theorem tails_sub (cs : List (List α)) : ∀ d ∈ tails cs, ∃ c ∈ cs, ∀ x ∈ d, x ∈ c := by
  induction cs with
  | nil => simp [tails]
  | cons c cs ih =>
    cases c with
    | nil =>
      intro d hd
      simp only [tails] at hd
      obtain ⟨c, hc, hx⟩ := ih d hd
      exact ⟨c, by simp [hc], hx⟩
    | cons a l =>
      intro d hd
      simp only [tails, List.mem_cons] at hd
      rcases hd with rfl | hd
      · exact ⟨a :: d, by simp, fun x hx => by simp [hx]⟩
      · obtain ⟨c, hc, hx⟩ := ih d hd
        exact ⟨c, by simp [hc], hx⟩

theorem interleaveAux_sub (n : Nat) (cs : List (List α)) : ∀ x ∈ interleaveAux n cs, ∃ c ∈ cs, x ∈ c := by
  induction n generalizing cs with
  | zero => simp [interleaveAux]
  | succ n ih =>
    intro x hx
    simp only [interleaveAux, List.mem_append] at hx
    rcases hx with hx | hx
    · exact heads_sub cs x hx
    · obtain ⟨d, hd, hx⟩ := ih (tails cs) x hx
      obtain ⟨c, hc, hsub⟩ := tails_sub cs d hd
      exact ⟨c, hc, hsub x hx⟩

/-- every await of a gather belongs to one of its children -/
theorem interleave_sub (cs : List (List α)) : ∀ x ∈ interleave cs, ∃ c ∈ cs, x ∈ c :=
  interleaveAux_sub _ cs

theorem trace_sub_acts (k : Option Nat) (c : Coro α) (i : Nat) : ∀ x ∈ (run k c i).trace, x ∈ acts c := by
  induction c generalizing i with
  | skip => simp [run]
  | act a => simp [run, acts]
  | await a => simp only [run, acts]; exact runAwaits_sub k _ i
  | park a => simp only [run, acts]; split <;> simp
  | raise e => simp [run]
  | ret => simp [run]
  | seq p q ihp ihq =>
    intro x hx
    simp only [run] at hx
    simp only [acts, List.mem_append]
    rcases mem_andThen hx with h | h
    · exact Or.inl (ihp _ x h)
    · exact Or.inr (ihq _ x h)
  | tryFinally b f ihb ihf =>
    intro x hx
    simp only [run] at hx
    simp only [acts, List.mem_append]
    rcases mem_finallyDo hx with h | h
    · exact Or.inl (ihb _ x h)
    · exact Or.inr (ihf _ x h)
  | tryExcept b c h e ihb ihh ihe =>
    intro x hx
    simp only [run] at hx
    simp only [acts, List.mem_append]
    split at hx
    · split at hx
      · simp only [List.mem_append] at hx
        rcases hx with hx | hx
        · exact Or.inl (Or.inl (ihb _ x hx))
        · exact Or.inl (Or.inr (ihh _ x hx))
      · exact Or.inl (Or.inl (ihb _ x hx))
    · simp only [List.mem_append] at hx
      rcases hx with hx | hx
      · exact Or.inl (Or.inl (ihb _ x hx))
      · exact Or.inr (ihe _ x hx)
    · exact Or.inl (Or.inl (ihb _ x hx))
  | withCtx en ex fi b ihen ihex ihfi ihb =>
    intro x hx
    simp only [run] at hx
    simp only [acts, List.mem_append]
    rcases mem_finallyDo hx with h | h
    · rcases mem_andThen h with h | h
      · exact Or.inl (Or.inl (Or.inl (ihen _ x h)))
      · rcases mem_exitOk h with h | h
        · exact Or.inr (ihb _ x h)
        · exact Or.inl (Or.inl (Or.inr (ihex _ x h)))
    · exact Or.inl (Or.inr (ihfi _ x h))
  | gather cs =>
    intro x hx
    simp only [run] at hx
    simp only [acts, List.mem_flatten]
    exact interleave_sub cs x (runAwaits_sub k _ i x hx)
  | loop n b ih =>
    intro x hx
    simp only [run] at hx
    obtain ⟨j, hj⟩ := mem_runLoop n i hx
    exact ih j x hj

theorem runAwaits_none (l : List α) (i : Nat) : runAwaits none l i = ⟨l, .normal, i + l.length⟩ := by
  induction l generalizing i with
  | nil => simp [runAwaits]
  | cons a l ih =>
    unfold runAwaits
    simp only [reduceCtorEq, ↓reduceIte, ih, List.length_cons]
    congr 1; omega

theorem heads_singletons (l : List α) : heads (l.map fun a => [a]) = l := by
  induction l with
  | nil => rfl
  | cons a l ih => simp [heads, ih]

theorem tails_singletons (l : List α) : tails (l.map fun a => [a]) = l.map fun _ => [] := by
  induction l with
  | nil => rfl
  | cons a l ih => simp [tails, ih]

theorem heads_empties (l : List α) : heads (l.map fun _ => ([] : List α)) = [] := by
  induction l with
  | nil => rfl
  | cons a l ih => simpa [heads] using ih

theorem interleaveAux_empties (n : Nat) (l : List α) : interleaveAux n (l.map fun _ => ([] : List α)) = [] := by
  induction n generalizing l with
  | zero => rfl
  | succ n ih =>
    have h2 : tails (l.map fun _ => ([] : List α)) = (([] : List α).map fun _ => ([] : List α)) := by
      induction l with
      | nil => rfl
      | cons a l ihl => simpa [tails] using ihl
    simp only [interleaveAux, heads_empties, h2, ih, List.append_nil]

theorem totalLen_singletons (l : List α) : totalLen (l.map fun a => [a]) = l.length := by
  induction l with
  | nil => rfl
  | cons a l ih => simp [totalLen, ih]; omega

/-- a gather of one-await children awaits them in order -/
theorem interleave_singletons (l : List α) : interleave (l.map fun a => [a]) = l := by
  unfold interleave
  rw [totalLen_singletons]
  cases l with
  | nil => rfl
  | cons a l =>
    simp only [List.length_cons, interleaveAux]
    rw [heads_singletons, tails_singletons, interleaveAux_empties]
    simp

/-! ## Part 2: the sync groups

`slowRun ts n` is `SyncGroupBase.run` for the terminal list `ts` with fuel for `n` cycles,
`fastRun busy index ts n` is `FastSyncGroup.run`, `procRun selfExit n` is `wait_for_process`. -/

theorem wf_mapFmmu (ms : List (Nat × Nat)) (body : Coro Act) : wf (mapFmmu ms body) = wf body := by
  induction ms with
  | nil => rfl
  | cons m ms ih => obtain ⟨t, j⟩ := m; simp [mapFmmu, mapOne, wf, total, ih]

theorem blocks_mapFmmu (ms : List (Nat × Nat)) (body : Coro Act) : blocks (mapFmmu ms body) = blocks body := by
  induction ms with
  | nil => rfl
  | cons m ms ih => obtain ⟨t, j⟩ := m; simp [mapFmmu, mapOne, blocks, ih]

theorem wf_opBody (ts : List Term) (n : Nat) : wf (opBody ts n) = true := by
  simp [opBody, cycle, wf]

theorem wf_slowRun (ts : List Term) (n : Nat) : wf (slowRun ts n) = true := by
  simp [slowRun, wf_mapFmmu, slowCore, opBody, safeFin, cycle, wf, total]

theorem blocks_slowRun (ts : List Term) (n : Nat) : blocks (slowRun ts n) = true := by
  simp [slowRun, blocks_mapFmmu, slowCore, opBody, blocks]

theorem total_lookups (busy : List Nat) (index : Nat) : total (lookups busy index) = true := by
  induction busy with
  | nil => rfl
  | cons b busy ih => simpa [lookups, total] using ih

theorem wf_fastRun (busy : List Nat) (index : Nat) (ts : List Term) (n : Nat) :
    wf (fastRun busy index ts n) = true := by
  simp [fastRun, fastBody, wf, total, wf_slowRun, total_wf _ (total_lookups busy index)]

theorem blocks_fastRun (busy : List Nat) (index : Nat) (ts : List Term) (n : Nat) :
    blocks (fastRun busy index ts n) = true := by
  simp [fastRun, fastBody, blocks, blocks_slowRun]

/-- **ends cancelled (slow group)**: for every cancellation index, every terminal list and every number
of cycles the task ends with CancelledError — or the index is never reached and the run is the
uncancelled one (which is still running: `never_returns_slow`) -/
theorem ends_cancelled_slow (k : Option Nat) (ts : List Term) (n : Nat) :
    (runCancel k (slowRun ts n)).2 = .raised .cancelled ∨
    runCancel k (slowRun ts n) = runCancel none (slowRun ts n) :=
  ends_cancelled_or_unreached k _ (wf_slowRun ts n)

theorem never_returns_slow (ts : List Term) (n : Nat) : (runCancel none (slowRun ts n)).2 = .pending :=
  blocks_pending _ (wf_slowRun ts n) (blocks_slowRun ts n) 0

/-- **ends cancelled (fast group)** -/
theorem ends_cancelled_fast (k : Option Nat) (busy : List Nat) (index : Nat) (ts : List Term) (n : Nat) :
    (runCancel k (fastRun busy index ts n)).2 = .raised .cancelled ∨
    runCancel k (fastRun busy index ts n) = runCancel none (fastRun busy index ts n) :=
  ends_cancelled_or_unreached k _ (wf_fastRun busy index ts n)

theorem never_returns_fast (busy : List Nat) (index : Nat) (ts : List Term) (n : Nat) :
    (runCancel none (fastRun busy index ts n)).2 = .pending :=
  blocks_pending _ (wf_fastRun busy index ts n) (blocks_fastRun busy index ts n) 0

/-- the cancellation is reached (index below the number of awaits passed) ⇒ CancelledError -/
theorem reached_cancelled_slow (m : Nat) (ts : List Term) (n : Nat)
    (h : m < awaitCount (some m) (slowRun ts n)) : (runCancel (some m) (slowRun ts n)).2 = .raised .cancelled :=
  (cancelled_iff_delivered (some m) _ (wf_slowRun ts n) 0).2 ⟨m, rfl, Nat.zero_le _, h⟩

/-! ### the shape of one FMMU mapping around a body -/

theorem mapOne_shape (k : Option Nat) (t j : Nat) (body : Coro Act) (i : Nat) (rb : Res Act)
    (hrb : run k body (i + 1) = rb) :
    ((run k (mapOne t j body) i).trace = [.slot t j true, .fmmuOn t j, .slot t j false] ∧
      (run k (mapOne t j body) i).out = .raised .cancelled) ∨
    ((run k (mapOne t j body) i).trace = [.slot t j true, .fmmuOn t j] ++ rb.trace ∧
      (run k (mapOne t j body) i).out = .pending ∧ rb.out = .pending) ∨
    (∃ mid, (mid = [] ∨ mid = [.fmmuOff t j]) ∧
      (run k (mapOne t j body) i).trace = [.slot t j true, .fmmuOn t j] ++ rb.trace ++ mid ++ [.slot t j false] ∧
      (run k (mapOne t j body) i).out ≠ .pending ∧ rb.out ≠ .pending) := by
  by_cases hk : k = some i
  · left
    simp [mapOne, run, runAwaits, Res.andThen, Res.finallyDo, hk]
  · right
    have e : run k (mapOne t j body) i =
        ⟨.slot t j true :: (Res.finallyDo ⟨.fmmuOn t j :: (rb.exitOk (runAwaits k [.fmmuOff t j])).trace,
            (rb.exitOk (runAwaits k [.fmmuOff t j])).out, (rb.exitOk (runAwaits k [.fmmuOff t j])).idx⟩
            fun j2 => ⟨[.slot t j false], .normal, j2⟩).trace,
          (Res.finallyDo ⟨.fmmuOn t j :: (rb.exitOk (runAwaits k [.fmmuOff t j])).trace,
            (rb.exitOk (runAwaits k [.fmmuOff t j])).out, (rb.exitOk (runAwaits k [.fmmuOff t j])).idx⟩
            fun j2 => ⟨[.slot t j false], .normal, j2⟩).out,
          (Res.finallyDo ⟨.fmmuOn t j :: (rb.exitOk (runAwaits k [.fmmuOff t j])).trace,
            (rb.exitOk (runAwaits k [.fmmuOff t j])).out, (rb.exitOk (runAwaits k [.fmmuOff t j])).idx⟩
            fun j2 => ⟨[.slot t j false], .normal, j2⟩).idx⟩ := by
      simp [mapOne, run, runAwaits, Res.andThen, hk, hrb]
    rw [e]
    clear e hrb
    by_cases hp : rb.out = .pending
    · left
      simp [Res.finallyDo, Res.exitOk, hp]
    · right
      by_cases hn : rb.out = .normal ∨ rb.out = .returned
      · refine ⟨[.fmmuOff t j], Or.inr rfl, ?_⟩
        by_cases hc : k = some rb.idx
        · rcases hn with hn | hn <;> simp [runAwaits, Res.finallyDo, Res.exitOk, hn, hc]
        · rcases hn with hn | hn <;> simp [runAwaits, Res.finallyDo, Res.exitOk, hn, hc]
      · refine ⟨[], Or.inl rfl, ?_⟩
        simp [Res.finallyDo, Res.exitOk, hn, hp]

/-! ### every OPERATIONAL request is followed by a SAFE-OPERATIONAL request -/

/-- the terminal an event asks to go OPERATIONAL -/
def opOf : Act → Option Nat
  | .setState t v => if v = ms_OPERATIONAL then some t else none
  | _ => none

/-- every `set_state(OPERATIONAL)` of terminal t is followed, later in the trace, by a
`set_state(SAFE_OPERATIONAL)` of t -/
def opCovered : List Act → Bool
  | [] => true
  | a :: rest =>
    (match opOf a with
      | some t => rest.contains (.setState t ms_SAFE_OPERATIONAL)
      | none => true) && opCovered rest

theorem opOf_some {a : Act} {t : Nat} : opOf a = some t ↔ a = .setState t ms_OPERATIONAL := by
  cases a <;> simp [opOf]
  rename_i t' v
  constructor
  · rintro ⟨rfl, rfl⟩; exact ⟨rfl, rfl⟩
  · rintro ⟨rfl, rfl⟩; exact ⟨rfl, rfl⟩

/-- the Boolean check means what the property says -/
theorem opCovered_spec (tr : List Act) (h : opCovered tr = true) (pre : List Act) (t : Nat) (post : List Act)
    (e : tr = pre ++ .setState t ms_OPERATIONAL :: post) : .setState t ms_SAFE_OPERATIONAL ∈ post := by
  induction pre generalizing tr with
  | nil =>
    subst e
    simp only [List.nil_append, opCovered, Bool.and_eq_true] at h
    have : opOf (.setState t ms_OPERATIONAL) = some t := opOf_some.2 rfl
    rw [this] at h
    simpa using h.1
  | cons a pre ih =>
    subst e
    simp only [List.cons_append, opCovered, Bool.and_eq_true] at h
    exact ih _ h.2 rfl

theorem opCovered_append {a b : List Act} (hb : opCovered b = true)
    (h : ∀ t, .setState t ms_OPERATIONAL ∈ a → .setState t ms_SAFE_OPERATIONAL ∈ b) :
    opCovered (a ++ b) = true := by
  induction a with
  | nil => simpa using hb
  | cons x a ih =>
    simp only [List.cons_append, opCovered, Bool.and_eq_true]
    refine ⟨?_, ih fun t ht => h t (by simp [ht])⟩
    cases hx : opOf x with
    | none => rfl
    | some t =>
      have := h t (by rw [opOf_some.1 hx]; simp)
      simp [this]

theorem opCovered_append_both {a b : List Act} (ha : opCovered a = true) (hb : opCovered b = true) :
    opCovered (a ++ b) = true := by
  induction a with
  | nil => simpa using hb
  | cons x a ih =>
    simp only [List.cons_append, opCovered, Bool.and_eq_true] at ha ⊢
    refine ⟨?_, ih ha.2⟩
    cases hx : opOf x with
    | none => rfl
    | some t =>
      have h1 := ha.1
      rw [hx] at h1
      simp only [List.contains_eq_mem, List.mem_append, decide_eq_true_eq] at h1 ⊢
      exact Or.inl h1

theorem opCovered_neutral_left {a b : List Act} (h : ∀ x ∈ a, opOf x = none) :
    opCovered (a ++ b) = opCovered b := by
  induction a with
  | nil => rfl
  | cons x a ih =>
    simp only [List.cons_append, opCovered, h x (by simp), Bool.true_and]
    exact ih fun y hy => h y (by simp [hy])

theorem opCovered_noOp {l : List Act} (h : ∀ x ∈ l, opOf x = none) : opCovered l = true := by
  have := opCovered_neutral_left (b := []) h
  simpa [opCovered] using this

theorem opCovered_neutral_right {a b : List Act} (ha : opCovered a = true) (h : ∀ x ∈ b, opOf x = none) :
    opCovered (a ++ b) = true :=
  opCovered_append_both ha (opCovered_noOp h)

theorem interleave_map_single {β : Type} (f : β → α) (l : List β) :
    interleave (l.map fun p => [f p]) = l.map f := by
  have := interleave_singletons (l.map f)
  simpa [List.map_map, Function.comp_def] using this

/-- `to_operational(SAFE_OPERATIONAL)` never requests OPERATIONAL, whatever state the terminal starts in
(checked against the regenerated declaration order of `MachineState`) -/
theorem toOp_noOp (t : Term) : ∀ x ∈ toOp t, opOf x = none := by
  have key : ∀ s : Nat, ∀ x ∈ toOpSteps t.pos ms_SAFE_OPERATIONAL (Ebv.AlDriver.after s) s, opOf x = none := by
    intro s
    by_cases h1 : s = 1
    · subst h1; simp [Ebv.AlDriver.after, msOrder, toOpSteps, opOf, ms_SAFE_OPERATIONAL, ms_OPERATIONAL]
    by_cases h2 : s = 2
    · subst h2; simp [Ebv.AlDriver.after, msOrder, toOpSteps, opOf, ms_SAFE_OPERATIONAL, ms_OPERATIONAL]
    by_cases h4 : s = 4
    · subst h4; simp [Ebv.AlDriver.after, msOrder, toOpSteps, opOf, ms_SAFE_OPERATIONAL, ms_OPERATIONAL]
    by_cases h8 : s = 8
    · subst h8; simp [Ebv.AlDriver.after, msOrder, toOpSteps, opOf, ms_SAFE_OPERATIONAL, ms_OPERATIONAL]
    by_cases h3 : s = 3
    · subst h3; simp [Ebv.AlDriver.after, msOrder, toOpSteps, opOf, ms_SAFE_OPERATIONAL, ms_OPERATIONAL]
    have b1 : (1 != s) = true := by simp only [bne_iff_ne, ne_eq]; omega
    have b2 : (2 != s) = true := by simp only [bne_iff_ne, ne_eq]; omega
    have b4 : (4 != s) = true := by simp only [bne_iff_ne, ne_eq]; omega
    have b8 : (8 != s) = true := by simp only [bne_iff_ne, ne_eq]; omega
    have b3 : (3 != s) = true := by simp only [bne_iff_ne, ne_eq]; omega
    have e : Ebv.AlDriver.after s = [] := by
      simp [Ebv.AlDriver.after, msOrder, List.dropWhile, b1, b2, b4, b8, b3]
    simp [e, toOpSteps]
  intro x hx
  simp only [toOp, List.mem_cons] at hx
  rcases hx with rfl | hx
  · rfl
  · exact key _ x hx

theorem safe_ne_op : ms_SAFE_OPERATIONAL ≠ ms_OPERATIONAL := by decide

theorem andThen_loop_not_normal (r : Res α) (f : Nat → Res α) (n : Nat) :
    (r.andThen (runLoop f n)).out ≠ .normal := by
  unfold Res.andThen
  by_cases h : r.out = .normal
  · simp only [h, ↓reduceIte]; exact runLoop_not_normal f n _
  · simp only [h, ↓reduceIte]; exact h

/-- the `try … finally` of `SyncGroupBase.run`: if it is over, the cancellation came inside the `try`
block and the `finally` block requested SAFE-OPERATIONAL for every read-write terminal -/
theorem tryFin_trace (k : Option Nat) (ts : List Term) (n j : Nat)
    (hp : (run k (.tryFinally (opBody ts n) (safeFin ts)) j).out ≠ .pending) :
    (run k (.tryFinally (opBody ts n) (safeFin ts)) j).trace =
      (run k (opBody ts n) j).trace ++ (rwOf ts).map fun p => .setState p ms_SAFE_OPERATIONAL := by
  have g := good_run k (opBody ts n) (wf_opBody ts n) j
  have hnn : (run k (opBody ts n) j).out ≠ .normal := by
    simp only [opBody, run]; exact andThen_loop_not_normal _ _ n
  have hnp : (run k (opBody ts n) j).out ≠ .pending := by
    intro h; apply hp; simp [run, Res.finallyDo, h]
  have hc : (run k (opBody ts n) j).out = .raised .cancelled := by
    rcases g.tri with a | a | a
    · exact absurd a hnn
    · exact absurd a hnp
    · exact a
  obtain ⟨m, hk, _, hm⟩ := g.canc.1 hc
  have hfin : run k (safeFin ts) (run k (opBody ts n) j).idx =
      ⟨(rwOf ts).map fun p => .setState p ms_SAFE_OPERATIONAL, .normal,
        (run k (opBody ts n) j).idx + ((rwOf ts).map fun p => Act.setState p ms_SAFE_OPERATIONAL).length⟩ := by
    rw [past_eq hk _ hm]
    simp only [safeFin, run]
    rw [interleave_map_single, runAwaits_none]
  simp only [run, Res.finallyDo, hnp, ↓reduceIte, hfin]

theorem opBody_ops (k : Option Nat) (ts : List Term) (n j t : Nat)
    (h : Act.setState t ms_OPERATIONAL ∈ (run k (opBody ts n) j).trace) : t ∈ rwOf ts := by
  have := trace_sub_acts k (opBody ts n) j _ h
  simp only [opBody, cycle, acts, List.mem_append, List.mem_flatten, List.mem_map] at this
  rcases this with ⟨c, ⟨p, hp, rfl⟩, hx⟩ | hx
  · simp only [List.mem_singleton, Act.setState.injEq] at hx
    rw [hx.1]; exact hp
  · simp at hx

theorem safeList_noOp (l : List Nat) : ∀ x ∈ l.map (fun p => Act.setState p ms_SAFE_OPERATIONAL), opOf x = none := by
  intro x hx
  obtain ⟨p, _, rfl⟩ := List.mem_map.1 hx
  simp [opOf, safe_ne_op]

/-- the part of `SyncGroupBase.run` inside `async with self.map_fmmu()` -/
theorem slowCore_op (k : Option Nat) (ts : List Term) (n i : Nat)
    (hp : (run k (slowCore ts n) i).out ≠ .pending) : opCovered (run k (slowCore ts n) i).trace = true := by
  have e : run k (slowCore ts n) i = (runAwaits k (interleave (ts.map toOp)) i).andThen fun j =>
      Res.andThen ⟨[.send], .normal, j⟩ fun j => run k (.tryFinally (opBody ts n) (safeFin ts)) j := rfl
  rw [e] at hp ⊢
  have hG : ∀ x ∈ (runAwaits k (interleave (ts.map toOp)) i).trace, opOf x = none := by
    intro x hx
    obtain ⟨c, hc, hxc⟩ := interleave_sub _ x (runAwaits_sub _ _ _ x hx)
    obtain ⟨t, _, rfl⟩ := List.mem_map.1 hc
    exact toOp_noOp t x hxc
  generalize runAwaits k (interleave (ts.map toOp)) i = G at hp hG ⊢
  by_cases hn : G.out = .normal
  · simp only [Res.andThen, hn, ↓reduceIte] at hp ⊢
    rw [tryFin_trace k ts n _ hp, opCovered_neutral_left hG]
    have hs : ∀ x ∈ [Act.send], opOf x = none := by simp [opOf]
    rw [opCovered_neutral_left hs]
    apply opCovered_append (opCovered_noOp (safeList_noOp _))
    intro t ht
    exact List.mem_map.2 ⟨t, opBody_ops k ts n _ t ht, rfl⟩
  · simp only [Res.andThen, hn, ↓reduceIte]
    exact opCovered_noOp hG

/-- wrapping a body into FMMU mappings adds no AL-state requests -/
theorem mapFmmu_op (body : Coro Act)
    (hb : ∀ k i, (run k body i).out ≠ .pending → opCovered (run k body i).trace = true)
    (ms : List (Nat × Nat)) (k : Option Nat) (i : Nat)
    (hp : (run k (mapFmmu ms body) i).out ≠ .pending) : opCovered (run k (mapFmmu ms body) i).trace = true := by
  induction ms generalizing i with
  | nil => exact hb k i hp
  | cons m ms ih =>
    obtain ⟨t, j⟩ := m
    simp only [mapFmmu] at hp ⊢
    rcases mapOne_shape k t j (mapFmmu ms body) i _ rfl with ⟨h1, _⟩ | ⟨_, h2, _⟩ | ⟨mid, hm, h1, _, h3⟩
    · rw [h1]; simp [opCovered, opOf]
    · exact absurd h2 hp
    · rw [h1]
      have pre : ∀ x ∈ [Act.slot t j true, Act.fmmuOn t j], opOf x = none := by simp [opOf]
      have post : ∀ x ∈ mid ++ [Act.slot t j false], opOf x = none := by
        rcases hm with rfl | rfl <;> simp [opOf]
      rw [List.append_assoc, List.append_assoc, opCovered_neutral_left pre]
      exact opCovered_neutral_right (ih _ h3) post

/-- **OPERATIONAL implies SAFE-OPERATIONAL (slow group)**: whenever the task is over, every
`set_state(OPERATIONAL)` in the trace is followed by a `set_state(SAFE_OPERATIONAL)` of the same terminal -/
theorem slowRun_op (k : Option Nat) (ts : List Term) (n i : Nat)
    (hp : (run k (slowRun ts n) i).out ≠ .pending) : opCovered (run k (slowRun ts n) i).trace = true :=
  mapFmmu_op _ (fun k i => slowCore_op k ts n i) _ k i hp

theorem op_implies_safeop_slow (k : Option Nat) (ts : List Term) (n : Nat)
    (hp : (runCancel k (slowRun ts n)).2 ≠ .pending) (pre : List Act) (t : Nat) (post : List Act)
    (e : (runCancel k (slowRun ts n)).1 = pre ++ .setState t ms_OPERATIONAL :: post) :
    .setState t ms_SAFE_OPERATIONAL ∈ post :=
  opCovered_spec _ (slowRun_op k ts n 0 hp) pre t post e

/-! ### tables replayed from the trace: FMMU slots, program table, sync_groups -/

/-- replay of one table write: `some (key, true)` inserts, `some (key, false)` removes -/
def tabStep {κ : Type} [BEq κ] (cls : Act → Option (κ × Bool)) (T : List κ) (a : Act) : List κ :=
  match cls a with
  | some (x, true) => x :: T
  | some (x, false) => T.filter (· != x)
  | none => T

/-- the table after replaying the trace from table `T` -/
def tabAfter {κ : Type} [BEq κ] (cls : Act → Option (κ × Bool)) (tr : List Act) (T : List κ) : List κ :=
  tr.foldl (tabStep cls) T

def slotCls : Act → Option ((Nat × Nat) × Bool)
  | .slot t j b => some ((t, j), b)
  | _ => none
def progCls : Act → Option (Nat × Bool)
  | .progSet i => some (i, true)
  | .progDel i => some (i, false)
  | _ => none
def groupCls : Act → Option (Nat × Bool)
  | .groupSet i => some (i, true)
  | .groupDel i => some (i, false)
  | _ => none

section tab
variable {κ : Type} [BEq κ] (cls : Act → Option (κ × Bool))

theorem tabAfter_append (a b : List Act) (T : List κ) :
    tabAfter cls (a ++ b) T = tabAfter cls b (tabAfter cls a T) := by
  simp [tabAfter, List.foldl_append]

theorem tabAfter_neutral {tr : List Act} (h : ∀ x ∈ tr, cls x = none) (T : List κ) : tabAfter cls tr T = T := by
  induction tr generalizing T with
  | nil => rfl
  | cons x tr ih =>
    simp only [tabAfter, List.foldl_cons, tabStep, h x (by simp)]
    exact ih (fun y hy => h y (by simp [hy])) T

/-- the replay only removes keys from `T` -/
def Shrinks (tr : List Act) : Prop := ∀ T : List κ, ∃ p : κ → Bool, tabAfter cls tr T = T.filter p

theorem shrinks_neutral {tr : List Act} (h : ∀ x ∈ tr, cls x = none) : Shrinks cls tr :=
  fun T => ⟨fun _ => true, by
    rw [tabAfter_neutral cls h]; exact (List.filter_eq_self.2 fun _ _ => rfl).symm⟩

theorem shrinks_append {a b : List Act} (ha : Shrinks cls a) (hb : Shrinks cls b) : Shrinks cls (a ++ b) := by
  intro T
  obtain ⟨p, hp⟩ := ha T
  obtain ⟨q, hq⟩ := hb (T.filter p)
  refine ⟨fun x => p x && q x, ?_⟩
  rw [tabAfter_append, hp, hq, List.filter_filter]
  congr 1; funext x; exact Bool.and_comm _ _

/-- insert `x`, run something that only removes, remove `x`: only removes -/
theorem shrinks_bracket [LawfulBEq κ] {s c : Act} {x : κ} {mid : List Act} (hs : cls s = some (x, true)) (hc : cls c = some (x, false))
    (hm : Shrinks cls mid) : Shrinks cls (s :: (mid ++ [c])) := by
  intro T
  obtain ⟨p, hp⟩ := hm (x :: T)
  refine ⟨fun y => p y && (y != x), ?_⟩
  have e1 : tabAfter cls (s :: (mid ++ [c])) T = tabAfter cls [c] (tabAfter cls mid (x :: T)) := by
    rw [← tabAfter_append]
    simp [tabAfter, tabStep, hs]
  rw [e1, hp]
  simp only [tabAfter, List.foldl_cons, List.foldl_nil, tabStep, hc, List.filter_filter]
  rw [List.filter_cons]
  by_cases hx : p x = true
  · simp [hx, Bool.and_comm]
  · simp [hx, Bool.and_comm]

theorem shrinks_empty {tr : List Act} (h : Shrinks cls tr) : tabAfter cls tr [] = [] := by
  obtain ⟨p, hp⟩ := h []
  simpa using hp
end tab

/-- bus traffic of the cycle: AL state accesses and the process-data frame -/
def busAct : Act → Bool
  | .getState _ | .setState .. | .send | .recv | .sleep => true
  | _ => false

theorem toOpSteps_bus (t target : Nat) (todo : List Nat) (s : Nat) : ∀ x ∈ toOpSteps t target todo s, busAct x = true := by
  induction todo generalizing s with
  | nil => simp [toOpSteps]
  | cons c todo ih =>
    unfold toOpSteps
    split
    · simp
    · intro x hx
      simp only [List.mem_cons] at hx
      rcases hx with rfl | rfl | hx
      · rfl
      · rfl
      · exact ih _ x hx

theorem slowCore_bus (ts : List Term) (n : Nat) : ∀ x ∈ acts (slowCore ts n), busAct x = true := by
  intro x hx
  simp only [slowCore, opBody, safeFin, cycle, acts, List.mem_append, List.mem_flatten, List.mem_map] at hx
  rcases hx with ⟨c, ⟨t, _, rfl⟩, hx⟩ | hx | (⟨c, ⟨p, _, rfl⟩, hx⟩ | hx) | ⟨c, ⟨p, _, rfl⟩, hx⟩
  · simp only [toOp, List.mem_cons] at hx
    rcases hx with rfl | hx
    · rfl
    · exact toOpSteps_bus _ _ _ _ x hx
  · simp only [List.mem_singleton] at hx; subst hx; rfl
  · simp only [List.mem_singleton] at hx; subst hx; rfl
  · simp only [List.mem_cons, List.not_mem_nil, or_false] at hx
    rcases hx with rfl | rfl | rfl <;> rfl
  · simp only [List.mem_singleton] at hx; subst hx; rfl

theorem bus_slot {x : Act} (h : busAct x = true) : slotCls x = none := by cases x <;> simp_all [busAct, slotCls]
theorem bus_prog {x : Act} (h : busAct x = true) : progCls x = none := by cases x <;> simp_all [busAct, progCls]
theorem bus_group {x : Act} (h : busAct x = true) : groupCls x = none := by cases x <;> simp_all [busAct, groupCls]

/-- FMMU mappings around a body that does not touch the slot table: whenever the run is over,
the slot-table writes only removed entries -/
theorem mapFmmu_shrinks (body : Coro Act) (hb : ∀ k i, ∀ x ∈ (run k body i).trace, slotCls x = none)
    (ms : List (Nat × Nat)) (k : Option Nat) (i : Nat)
    (hp : (run k (mapFmmu ms body) i).out ≠ .pending) : Shrinks slotCls (run k (mapFmmu ms body) i).trace := by
  induction ms generalizing i with
  | nil => exact shrinks_neutral slotCls (hb k i)
  | cons m ms ih =>
    obtain ⟨t, j⟩ := m
    simp only [mapFmmu] at hp ⊢
    rcases mapOne_shape k t j (mapFmmu ms body) i _ rfl with ⟨h1, _⟩ | ⟨_, h2, _⟩ | ⟨mid, hm, h1, _, h3⟩
    · rw [h1]
      exact shrinks_bracket slotCls (x := (t, j)) (mid := [.fmmuOn t j]) rfl rfl
        (shrinks_neutral slotCls (by simp [slotCls]))
    · exact absurd h2 hp
    · rw [h1]
      have e : [Act.slot t j true, Act.fmmuOn t j] ++ (run k (mapFmmu ms body) (i + 1)).trace ++ mid ++ [Act.slot t j false]
          = Act.slot t j true :: (([Act.fmmuOn t j] ++ ((run k (mapFmmu ms body) (i + 1)).trace ++ mid)) ++ [Act.slot t j false]) := by
        simp
      rw [e]
      refine shrinks_bracket slotCls (x := (t, j)) rfl rfl ?_
      refine shrinks_append slotCls (shrinks_neutral slotCls (by simp [slotCls])) ?_
      refine shrinks_append slotCls (ih _ h3) (shrinks_neutral slotCls ?_)
      rcases hm with rfl | rfl <;> simp [slotCls]

theorem slowRun_shrinks (k : Option Nat) (ts : List Term) (n i : Nat)
    (hp : (run k (slowRun ts n) i).out ≠ .pending) : Shrinks slotCls (run k (slowRun ts n) i).trace :=
  mapFmmu_shrinks _ (fun k i x hx => bus_slot (slowCore_bus ts n x (trace_sub_acts k _ i x hx))) _ k i hp

/-- **FMMUs freed (slow group)**: whenever the task is over, replaying the slot-table writes of the
trace (`fmmu_used[i] = logical` / `= None`) from the empty table gives the empty table -/
theorem fmmu_freed_slow (k : Option Nat) (ts : List Term) (n : Nat)
    (hp : (runCancel k (slowRun ts n)).2 ≠ .pending) :
    tabAfter slotCls (runCancel k (slowRun ts n)).1 [] = [] :=
  shrinks_empty slotCls (slowRun_shrinks k ts n 0 hp)

/-! ### the fast group: `register_sync_group` around the slow run -/

theorem run_lookups (k : Option Nat) (busy : List Nat) (index i : Nat) :
    run k (lookups busy index) i = ⟨busy.map .lookup ++ [.lookup index], .normal, i⟩ := by
  induction busy with
  | nil => rfl
  | cons b busy ih =>
    have e : lookups (b :: busy) index = .seq (.act (.lookup b)) (lookups busy index) := rfl
    rw [e]; simp [run, Res.andThen, ih]

/-- the body of the `with` block: two priming sends, then `SyncGroupBase.run` -/
theorem fastBody_shape (k : Option Nat) (ts : List Term) (n i : Nat) (rs : Res Act)
    (hrs : run k (slowRun ts n) (i + 2) = rs) :
    ((run k (fastBody ts n) i).trace = [.send, .sleep] ∧ (run k (fastBody ts n) i).out = .raised .cancelled) ∨
    ((run k (fastBody ts n) i).trace = [.send, .sleep, .send, .sleep] ∧
      (run k (fastBody ts n) i).out = .raised .cancelled) ∨
    ((run k (fastBody ts n) i).trace = [.send, .sleep, .send, .sleep] ++ rs.trace ∧
      (run k (fastBody ts n) i).out = rs.out) := by
  by_cases h0 : k = some i
  · left; simp [fastBody, run, runAwaits, Res.andThen, h0]
  · right
    by_cases h1 : k = some (i + 1)
    · left; simp [fastBody, run, runAwaits, Res.andThen, h1]
    · right
      have e : run k (fastBody ts n) i = ⟨[.send, .sleep, .send, .sleep] ++ rs.trace, rs.out, rs.idx⟩ := by
        simp [fastBody, run, runAwaits, Res.andThen, h0, h1, hrs]
      rw [e]; exact ⟨rfl, rfl⟩

def fastPre (busy : List Nat) (index : Nat) : List Act :=
  .load :: (busy.map .lookup ++ [.lookup index])

theorem fastRun_shape (k : Option Nat) (busy : List Nat) (index : Nat) (ts : List Term) (n i : Nat) (rb : Res Act)
    (hrb : run k (fastBody ts n) i = rb) :
    (run k (fastRun busy index ts n) i).out = rb.out ∧
    (run k (fastRun busy index ts n) i).trace =
      fastPre busy index ++ [.progSet index, .closeFd, .groupSet index] ++ rb.trace ++
        (if rb.out = .pending then [] else [.progDel index, .groupDel index]) := by
  have e : run k (fastRun busy index ts n) i =
      ⟨fastPre busy index ++ [.progSet index, .closeFd, .groupSet index] ++
        ((rb.exitOk fun j => ⟨[], .normal, j⟩).finallyDo fun j => ⟨[.progDel index, .groupDel index], .normal, j⟩).trace,
       ((rb.exitOk fun j => ⟨[], .normal, j⟩).finallyDo fun j => ⟨[.progDel index, .groupDel index], .normal, j⟩).out,
       ((rb.exitOk fun j => ⟨[], .normal, j⟩).finallyDo fun j => ⟨[.progDel index, .groupDel index], .normal, j⟩).idx⟩ := by
    simp [fastRun, fastPre, run, run_lookups, Res.andThen, hrb]
  rw [e]
  clear e hrb
  by_cases hp : rb.out = .pending
  · simp [Res.exitOk, Res.finallyDo, hp]
  · by_cases hn : rb.out = .normal ∨ rb.out = .returned
    · rcases hn with hn | hn <;> simp [Res.exitOk, Res.finallyDo, hn]
    · simp [Res.exitOk, Res.finallyDo, hn, hp]

theorem mapFmmu_acts (P : Act → Prop) (hs : ∀ t j b, P (.slot t j b)) (hon : ∀ t j, P (.fmmuOn t j))
    (hoff : ∀ t j, P (.fmmuOff t j)) (body : Coro Act) (hb : ∀ x ∈ acts body, P x) (ms : List (Nat × Nat)) :
    ∀ x ∈ acts (mapFmmu ms body), P x := by
  induction ms with
  | nil => exact hb
  | cons m ms ih =>
    obtain ⟨t, j⟩ := m
    intro x hx
    simp only [mapFmmu, mapOne, acts, List.mem_append, List.mem_singleton] at hx
    rcases hx with rfl | ((rfl | rfl) | rfl) | hx
    · exact hs _ _ _
    · exact hon _ _
    · exact hoff _ _
    · exact hs _ _ _
    · exact ih x hx

theorem fastBody_tables (k : Option Nat) (ts : List Term) (n i : Nat) :
    ∀ x ∈ (run k (fastBody ts n) i).trace, progCls x = none ∧ groupCls x = none := by
  intro x hx
  have hx := trace_sub_acts k _ i x hx
  simp only [fastBody, acts, List.mem_append, List.mem_singleton] at hx
  rcases hx with rfl | rfl | rfl | rfl | hx
  · exact ⟨rfl, rfl⟩
  · exact ⟨rfl, rfl⟩
  · exact ⟨rfl, rfl⟩
  · exact ⟨rfl, rfl⟩
  · exact mapFmmu_acts (fun x => progCls x = none ∧ groupCls x = none) (fun _ _ _ => ⟨rfl, rfl⟩)
      (fun _ _ => ⟨rfl, rfl⟩) (fun _ _ => ⟨rfl, rfl⟩) _
      (fun y hy => ⟨bus_prog (slowCore_bus ts n y hy), bus_group (slowCore_bus ts n y hy)⟩) _ x hx

theorem fastBody_op (k : Option Nat) (ts : List Term) (n i : Nat) (hp : (run k (fastBody ts n) i).out ≠ .pending) :
    opCovered (run k (fastBody ts n) i).trace = true ∧ Shrinks slotCls (run k (fastBody ts n) i).trace := by
  rcases fastBody_shape k ts n i _ rfl with ⟨h1, _⟩ | ⟨h1, _⟩ | ⟨h1, h2⟩
  · rw [h1]; exact ⟨by simp [opCovered, opOf], shrinks_neutral slotCls (by simp [slotCls])⟩
  · rw [h1]; exact ⟨by simp [opCovered, opOf], shrinks_neutral slotCls (by simp [slotCls])⟩
  · rw [h2] at hp
    rw [h1]
    have pre : ∀ x ∈ [Act.send, Act.sleep, Act.send, Act.sleep], opOf x = none := by simp [opOf]
    refine ⟨?_, shrinks_append slotCls (shrinks_neutral slotCls (by simp [slotCls])) (slowRun_shrinks k ts n _ hp)⟩
    rw [opCovered_neutral_left pre]
    exact slowRun_op k ts n _ hp

/-- the trace of a finished fast group: registration, the body, unregistration -/
theorem fastRun_trace (k : Option Nat) (busy : List Nat) (index : Nat) (ts : List Term) (n i : Nat)
    (hp : (run k (fastRun busy index ts n) i).out ≠ .pending) :
    (run k (fastRun busy index ts n) i).trace =
      fastPre busy index ++ [.progSet index, .closeFd, .groupSet index] ++ (run k (fastBody ts n) i).trace ++
        [.progDel index, .groupDel index] ∧ (run k (fastBody ts n) i).out ≠ .pending := by
  obtain ⟨h1, h2⟩ := fastRun_shape k busy index ts n i _ rfl
  rw [h1] at hp
  rw [h2]; simp [hp]

theorem fastPre_neutral (busy : List Nat) (index : Nat) :
    ∀ x ∈ fastPre busy index, opOf x = none ∧ slotCls x = none ∧ progCls x = none ∧ groupCls x = none := by
  intro x hx
  simp only [fastPre, List.mem_cons, List.mem_append, List.mem_map, List.not_mem_nil, or_false] at hx
  rcases hx with rfl | ⟨b, _, rfl⟩ | rfl <;> exact ⟨rfl, rfl, rfl, rfl⟩

/-- **OPERATIONAL implies SAFE-OPERATIONAL (fast group)** -/
theorem op_implies_safeop_fast (k : Option Nat) (busy : List Nat) (index : Nat) (ts : List Term) (n : Nat)
    (hp : (runCancel k (fastRun busy index ts n)).2 ≠ .pending) (pre : List Act) (t : Nat) (post : List Act)
    (e : (runCancel k (fastRun busy index ts n)).1 = pre ++ .setState t ms_OPERATIONAL :: post) :
    .setState t ms_SAFE_OPERATIONAL ∈ post := by
  obtain ⟨h1, h2⟩ := fastRun_trace k busy index ts n 0 hp
  refine opCovered_spec _ ?_ pre t post e
  simp only [runCancel]
  rw [h1, List.append_assoc, List.append_assoc]
  rw [opCovered_neutral_left fun x hx => (fastPre_neutral busy index x hx).1]
  rw [opCovered_neutral_left (a := [Act.progSet index, Act.closeFd, Act.groupSet index]) (by simp [opOf])]
  exact opCovered_neutral_right (fastBody_op k ts n 0 h2).1 (by simp [opOf])

/-- **FMMUs freed (fast group)** -/
theorem fmmu_freed_fast (k : Option Nat) (busy : List Nat) (index : Nat) (ts : List Term) (n : Nat)
    (hp : (runCancel k (fastRun busy index ts n)).2 ≠ .pending) :
    tabAfter slotCls (runCancel k (fastRun busy index ts n)).1 [] = [] := by
  obtain ⟨h1, h2⟩ := fastRun_trace k busy index ts n 0 hp
  apply shrinks_empty
  simp only [runCancel]
  rw [h1]
  refine shrinks_append slotCls (shrinks_append slotCls (shrinks_append slotCls ?_ ?_) (fastBody_op k ts n 0 h2).2) ?_
  · exact shrinks_neutral slotCls fun x hx => (fastPre_neutral busy index x hx).2.1
  · exact shrinks_neutral slotCls (by simp [slotCls])
  · exact shrinks_neutral slotCls (by simp [slotCls])

/-- **program unregistered (fast group)**: whenever the task is over, the program-table entry written by
`register_sync_group` has been deleted again and so has the `sync_groups` entry (replay of the trace from
empty tables gives empty tables; both entries were really made) -/
theorem program_unregistered (k : Option Nat) (busy : List Nat) (index : Nat) (ts : List Term) (n : Nat)
    (hp : (runCancel k (fastRun busy index ts n)).2 ≠ .pending) :
    tabAfter progCls (runCancel k (fastRun busy index ts n)).1 [] = [] ∧
    tabAfter groupCls (runCancel k (fastRun busy index ts n)).1 [] = [] ∧
    .progSet index ∈ (runCancel k (fastRun busy index ts n)).1 ∧
    .groupSet index ∈ (runCancel k (fastRun busy index ts n)).1 := by
  obtain ⟨h1, _⟩ := fastRun_trace k busy index ts n 0 hp
  have hB := fastBody_tables k ts n 0
  simp only [runCancel]
  rw [h1]
  generalize (run k (fastBody ts n) 0).trace = B at hB
  refine ⟨?_, ?_, by simp, by simp⟩
  · apply shrinks_empty
    have e : fastPre busy index ++ [Act.progSet index, Act.closeFd, Act.groupSet index] ++ B ++
        [Act.progDel index, Act.groupDel index] =
        fastPre busy index ++ ((Act.progSet index :: (([Act.closeFd, Act.groupSet index] ++ B) ++ [Act.progDel index]))
          ++ [Act.groupDel index]) := by simp
    rw [e]
    refine shrinks_append progCls (shrinks_neutral progCls fun x hx => (fastPre_neutral busy index x hx).2.2.1) ?_
    refine shrinks_append progCls ?_ (shrinks_neutral progCls (by simp [progCls]))
    refine shrinks_bracket progCls (x := index) rfl rfl ?_
    exact shrinks_append progCls (shrinks_neutral progCls (by simp [progCls]))
      (shrinks_neutral progCls fun x hx => (hB x hx).1)
  · apply shrinks_empty
    have e : fastPre busy index ++ [Act.progSet index, Act.closeFd, Act.groupSet index] ++ B ++
        [Act.progDel index, Act.groupDel index] =
        (fastPre busy index ++ [Act.progSet index, Act.closeFd]) ++
          (Act.groupSet index :: ((B ++ [Act.progDel index]) ++ [Act.groupDel index])) := by simp
    rw [e]
    refine shrinks_append groupCls ?_ ?_
    · refine shrinks_append groupCls (shrinks_neutral groupCls fun x hx => (fastPre_neutral busy index x hx).2.2.2) ?_
      exact shrinks_neutral groupCls (by simp [groupCls])
    · refine shrinks_bracket groupCls (x := index) rfl rfl ?_
      exact shrinks_append groupCls (shrinks_neutral groupCls fun x hx => (hB x hx).2)
        (shrinks_neutral groupCls (by simp [groupCls]))

/-! ### the process group: `wait_for_process` -/

/-- what a cancelled `wait_for_process` did: told the child to stop, waited again, saw it terminate -/
def procCancelledTrace : List Act :=
  [.pidfdOpen, .waitChild, .setRunning false, .removeReader, .waitChild, .childSeen, .removeReader]

theorem proc_cancel_at_wait (selfExit : Bool) (n : Nat) :
    runCancel (some 0) (procRun selfExit (n + 2)) = (procCancelledTrace, .raised .cancelled) := by
  cases selfExit <;>
    simp [runCancel, procRun, waitLoop, waitIter, run, runAwaits, Res.andThen, Res.finallyDo, isCancelled,
      procCancelledTrace]

theorem proc_not_first (k : Option Nat) (hk : k ≠ some 0) (selfExit : Bool) (n : Nat) :
    runCancel k (procRun selfExit (n + 1)) =
      if selfExit then ([.pidfdOpen, .waitChild, .childSeen, .removeReader], .returned)
      else ([.pidfdOpen, .waitChild], .pending) := by
  cases selfExit <;>
    simp [runCancel, procRun, waitLoop, waitIter, run, runAwaits, Res.andThen, Res.finallyDo, hk]

/-- **ends cancelled (process group)**: cancelled at its (only) await, the task ends with CancelledError;
any other index is never reached and the run is the uncancelled one -/
theorem ends_cancelled_proc (k : Option Nat) (selfExit : Bool) (n : Nat) (hn : 2 ≤ n) :
    (runCancel k (procRun selfExit n)).2 = .raised .cancelled ∨
    runCancel k (procRun selfExit n) = runCancel none (procRun selfExit n) := by
  obtain ⟨m, rfl⟩ : ∃ m, n = m + 2 := ⟨n - 2, by omega⟩
  by_cases hk : k = some 0
  · left; rw [hk, proc_cancel_at_wait]
  · right
    rw [proc_not_first k hk selfExit (m + 1), proc_not_first none (by simp) selfExit (m + 1)]

/-- **child stopped (process group)**: whenever the task ends with CancelledError, `runningValue` was
cleared, the task waited for the child again and observed its termination before re-raising, and the
reader was removed -/
theorem child_stopped (k : Option Nat) (selfExit : Bool) (n : Nat)
    (h : (runCancel k (procRun selfExit n)).2 = .raised .cancelled) :
    (runCancel k (procRun selfExit n)).1 = procCancelledTrace := by
  by_cases hk : k = some 0
  · subst hk
    match n with
    | 0 => simp [runCancel, procRun, waitLoop, run, runLoop, Res.andThen] at h
    | 1 =>
      cases selfExit <;>
        simp [runCancel, procRun, waitLoop, waitIter, run, runLoop, runAwaits, Res.andThen, Res.finallyDo,
          isCancelled] at h
    | m + 2 => rw [proc_cancel_at_wait]
  · match n with
    | 0 => simp [runCancel, procRun, waitLoop, run, runLoop, Res.andThen] at h
    | m + 1 =>
      rw [proc_not_first k hk] at h
      cases selfExit <;> simp at h

/-! ### the group started again: every run of a history has the property

`runsOf mk ks ts` starts the group once per entry of `ks` (the earlier runs each ended by their cancellation, the
retry/restart a user does after an error).  Every run of such a history is a run of the same group on terminals that
differ from the declared ones only in the AL state they are found in — and the theorems above hold for every such
state.  `fmmu_freed` of one run is what the next run's slot choice assumes (all of the terminal's FMMUs free). -/

/-- same terminals, whatever AL state they are in -/
def SameTerms (ts ts' : List Term) : Prop :=
  ts'.map (fun t => (t.pos, t.rw, t.out, t.inp)) = ts.map (fun t => (t.pos, t.rw, t.out, t.inp))

theorem sameTerms_restart (tr : List Act) (ts : List Term) : SameTerms ts (restartTerms tr ts) := by
  simp [SameTerms, restartTerms, List.map_map, Function.comp_def]

theorem runsOf_mem (mk : List Term → Coro Act) (ks : List (Option Nat)) : ∀ (ts0 ts : List Term), SameTerms ts0 ts →
    ∀ r ∈ runsOf mk ks ts, ∃ k ts', k ∈ ks ∧ SameTerms ts0 ts' ∧ r = run k (mk ts') 0 := by
  induction ks with
  | nil => intro ts0 ts _ r hr; simp [runsOf] at hr
  | cons k ks ih =>
    intro ts0 ts hs r hr
    simp only [runsOf, List.mem_cons] at hr
    rcases hr with rfl | hr
    · exact ⟨k, ts, by simp, hs, rfl⟩
    · have hs' : SameTerms ts0 (restartTerms (run k (mk ts) 0).trace ts) := by
        have := sameTerms_restart (run k (mk ts) 0).trace ts
        unfold SameTerms at *
        rw [this, hs]
      obtain ⟨k', ts', hk, h1, h2⟩ := ih ts0 _ hs' r hr
      exact ⟨k', ts', by simp [hk], h1, h2⟩

/-- **slow group, any history of starts**: each run ends cancelled or is still running (its cancellation index was
never reached); a run that ended has every OPERATIONAL request followed by a SAFE-OPERATIONAL request of the same
terminal *within that run*, and leaves the FMMU slot table empty -/
theorem restart_slow (ks : List (Option Nat)) (ts : List Term) (n : Nat) :
    ∀ r ∈ runsOf (fun ts => slowRun ts n) ks ts,
      (r.out = .raised .cancelled ∨ r.out = .pending) ∧
      (r.out ≠ .pending → opCovered r.trace = true ∧ tabAfter slotCls r.trace [] = []) := by
  intro r hr
  obtain ⟨k, ts', _, _, rfl⟩ := runsOf_mem _ ks ts ts rfl r hr
  refine ⟨?_, fun hp => ⟨slowRun_op k ts' n 0 hp, fmmu_freed_slow k ts' n hp⟩⟩
  rcases ends_cancelled_slow k ts' n with h | h
  · exact Or.inl h
  · right
    have h2 := never_returns_slow ts' n
    have := congrArg Prod.snd h
    simp only [runCancel] at this h2
    rw [this, h2]

/-- **fast group, any history of starts**: additionally the program-table and `sync_groups` entries are gone after
every run that ended -/
theorem restart_fast (ks : List (Option Nat)) (busy : List Nat) (index : Nat) (ts : List Term) (n : Nat) :
    ∀ r ∈ runsOf (fun ts => fastRun busy index ts n) ks ts,
      (r.out = .raised .cancelled ∨ r.out = .pending) ∧
      (r.out ≠ .pending → tabAfter slotCls r.trace [] = [] ∧ tabAfter progCls r.trace [] = [] ∧
        tabAfter groupCls r.trace [] = [] ∧
        ∀ pre t post, r.trace = pre ++ .setState t ms_OPERATIONAL :: post → .setState t ms_SAFE_OPERATIONAL ∈ post) := by
  intro r hr
  obtain ⟨k, ts', _, _, rfl⟩ := runsOf_mem _ ks ts ts rfl r hr
  refine ⟨?_, fun hp => ⟨fmmu_freed_fast k busy index ts' n hp, (program_unregistered k busy index ts' n hp).1,
    (program_unregistered k busy index ts' n hp).2.1, fun pre t post e => op_implies_safeop_fast k busy index ts' n hp pre t post e⟩⟩
  rcases ends_cancelled_fast k busy index ts' n with h | h
  · exact Or.inl h
  · right
    have h2 := never_returns_fast busy index ts' n
    have := congrArg Prod.snd h
    simp only [runCancel] at this h2
    rw [this, h2]

/-! ### non-vacuity: concrete runs that exercise the hypotheses -/

/-- a read-write terminal with both mappings starting in PRE-OP, a read-only one with an IN mapping in INIT -/
def exTerms : List Term := [⟨1, true, some 1, some 2, 2⟩, ⟨2, false, none, some 1, 1⟩]

-- cancelled while the OPERATIONAL request is in flight (await 11): over, cancelled, OP then SAFE-OP, slots set and cleared
example : runCancel (some 11) (slowRun exTerms 3) =
    ([.slot 1 1 true, .fmmuOn 1 1, .slot 1 2 true, .fmmuOn 1 2, .slot 2 1 true, .fmmuOn 2 1,
      .getState 1, .getState 2, .setState 1 4, .setState 2 2, .getState 1, .getState 2, .setState 2 4, .getState 2,
      .send, .setState 1 8, .setState 1 4, .slot 2 1 false, .slot 1 2 false, .slot 1 1 false],
     .raised .cancelled) := by decide
-- cancelled in the second cycle
example : (runCancel (some 13) (slowRun exTerms 3)).2 = .raised .cancelled ∧
    Act.setState 1 ms_OPERATIONAL ∈ (runCancel (some 13) (slowRun exTerms 3)).1 := by decide
-- never cancelled: still running after the fuel, terminal 1 in OP
example : (runCancel none (slowRun exTerms 2)).2 = .pending ∧ awaitCount none (slowRun exTerms 2) = 16 := by decide
example : runCancel (some 7) (fastRun [5] 7 [⟨1, true, some 1, none, 4⟩] 2) =
    ([.load, .lookup 5, .lookup 7, .progSet 7, .closeFd, .groupSet 7, .send, .sleep, .send, .sleep,
      .slot 1 1 true, .fmmuOn 1 1, .getState 1, .send, .setState 1 8, .recv, .sleep, .send, .recv,
      .setState 1 4, .slot 1 1 false, .progDel 7, .groupDel 7], .raised .cancelled) := by decide
example : runCancel (some 0) (procRun false 5) = (procCancelledTrace, .raised .cancelled) := by decide
example : slotsOf 3 true true = some (some 1, some 2) ∧ slotsOf 2 true true = some (some 1, some 0) ∧
    slotsOf 1 true false = some (some 0, none) := by decide

-- started again after a cancellation in the second cycle: the terminals are found in SAFE-OP (4) resp. as left, and the
-- second run, cancelled while the OPERATIONAL request is in flight (await 5 now), still asks back to SAFE-OP
example : ((runsOf (fun ts => slowRun ts 3) [some 14, some 5] exTerms).map (·.out) = [.raised .cancelled, .raised .cancelled]) ∧
    ((runsOf (fun ts => slowRun ts 3) [some 14, some 5] exTerms).map (fun r => opCovered r.trace) = [true, true]) ∧
    ((runsOf (fun ts => slowRun ts 3) [some 14, some 5] exTerms)[1]?.map fun r => r.trace.drop 8) =
      some [.send, .setState 1 8, .setState 1 4, .slot 2 1 false, .slot 1 2 false, .slot 1 1 false] := by decide

/-! ### the two defects already fixed in /repo, as the model sees them

Before `fix: terminals stayed OPERATIONAL if a sync group was cancelled early` the OPERATIONAL requests were
made before the `try`; the model of that code violates the clause on a concrete cancellation index. -/
def slowCoreUnfixed (ts : List Term) (n : Nat) : Coro Act :=
  .seq (.gather (ts.map toOp))
    (.seq (.act .send)
      (.seq (.gather ((rwOf ts).map fun p => [.setState p ms_OPERATIONAL]))
        (.tryFinally (.loop n cycle) (safeFin ts))))

example : (runCancel (some 11) (mapFmmu (mappings exTerms) (slowCoreUnfixed exTerms 3))).2 = .raised .cancelled ∧
    opCovered (runCancel (some 11) (mapFmmu (mappings exTerms) (slowCoreUnfixed exTerms 3))).1 = false := by decide

/-- before `fix: cancelling a ProcessSyncGroup ended with UnboundLocalError`: `except CancelledError as error`
unbinds `error`, so the `else:` branch of the next pass raises UnboundLocalError (error 1) -/
def waitIterUnfixed : Coro Act :=
  .tryFinally
    (.tryExcept (.seq (.await .waitChild) (.act .childSeen)) isCancelled (.act (.setRunning false)) (.raise (.error 1)))
    (.act .removeReader)

example : (runCancel (some 0) (.seq (.act .pidfdOpen) (.seq (waitIter false false) waitIterUnfixed))).2 = .raised (.error 1) := by
  decide

end Ebv.C24
