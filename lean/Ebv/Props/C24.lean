import Ebv.Model.Coro
/-! C24 — cancelling a sync group releases its resources and ends cancelled.

Part 1 is the metatheory of the coroutine semantics (`Ebv.Coro.run`): a cancellation index that
is not reached leaves the run unchanged; a well-formed coroutine (no `except`, cleanup blocks
that cannot block) ends with CancelledError exactly when the cancellation is delivered inside it.
Part 2 proves the clauses of the property for the transcribed `SyncGroupBase.run`,
`FastSyncGroup.run` and `ProcessSyncGroup.wait_for_process` — for every cancellation index,
every terminal list and every number of cycles. -/
namespace Ebv.C24
open Ebv.Coro Ebv.Consts

variable {α : Type}

/-! ## Part 1: metatheory of `run` -/

/-- the cancellation index lies in the range of awaits `[i, j)` -/
def Delivered (k : Option Nat) (i j : Nat) : Prop := ∃ m, k = some m ∧ i ≤ m ∧ m < j
/-- the cancellation index lies outside `[i, j)` -/
def NotIn (k : Option Nat) (i j : Nat) : Prop := ∀ m, k = some m → m < i ∨ j ≤ m

theorem delivered_split {k : Option Nat} {i j l : Nat} (h1 : i ≤ j) (h2 : j ≤ l) :
    Delivered k i l ↔ Delivered k i j ∨ Delivered k j l := by
  constructor
  · rintro ⟨m, hk, a, b⟩
    by_cases h : m < j
    · exact Or.inl ⟨m, hk, a, h⟩
    · exact Or.inr ⟨m, hk, by omega, b⟩
  · rintro (⟨m, hk, a, b⟩ | ⟨m, hk, a, b⟩)
    · exact ⟨m, hk, a, by omega⟩
    · exact ⟨m, hk, by omega, b⟩

theorem not_delivered_self (k : Option Nat) (i : Nat) : ¬ Delivered k i i := by
  rintro ⟨m, _, a, b⟩; omega

theorem delivered_one (k : Option Nat) (i : Nat) : Delivered k i (i + 1) ↔ k = some i := by
  constructor
  · rintro ⟨m, hk, a, b⟩
    have : m = i := by omega
    subst this; exact hk
  · intro h; exact ⟨i, h, by omega, by omega⟩

/-! ### the await counter only grows -/

theorem runAwaits_mono (k : Option Nat) (l : List α) (i : Nat) : i ≤ (runAwaits k l i).idx := by
  induction l generalizing i with
  | nil => simp [runAwaits]
  | cons a l ih =>
    unfold runAwaits
    split
    · simp
    · have := ih (i + 1); simp only; omega

theorem andThen_mono {r : Res α} {f : Nat → Res α} {i : Nat} (h : i ≤ r.idx) (hf : ∀ j, j ≤ (f j).idx) :
    i ≤ (r.andThen f).idx := by
  unfold Res.andThen
  split
  · have := hf r.idx; simp only; omega
  · exact h

theorem andThen_idx_ge (r : Res α) {f : Nat → Res α} (hf : ∀ j, j ≤ (f j).idx) : r.idx ≤ (r.andThen f).idx :=
  andThen_mono (Nat.le_refl _) hf

theorem finallyDo_mono {r : Res α} {f : Nat → Res α} {i : Nat} (h : i ≤ r.idx) (hf : ∀ j, j ≤ (f j).idx) :
    i ≤ (r.finallyDo f).idx := by
  unfold Res.finallyDo
  split
  · exact h
  · have := hf r.idx; simp only; omega

theorem exitOk_mono {r : Res α} {f : Nat → Res α} {i : Nat} (h : i ≤ r.idx) (hf : ∀ j, j ≤ (f j).idx) :
    i ≤ (r.exitOk f).idx := by
  unfold Res.exitOk
  split
  · have := hf r.idx; simp only; omega
  · exact h

theorem runLoop_mono {f : Nat → Res α} (hf : ∀ j, j ≤ (f j).idx) (n i : Nat) : i ≤ (runLoop f n i).idx := by
  induction n generalizing i with
  | zero => simp [runLoop]
  | succ n ih => unfold runLoop; exact andThen_mono (hf i) ih

theorem run_mono (k : Option Nat) (c : Coro α) (i : Nat) : i ≤ (run k c i).idx := by
  induction c generalizing i with
  | skip => simp [run]
  | act a => simp [run]
  | await a => simp only [run]; exact runAwaits_mono k _ i
  | park a => simp only [run]; split <;> simp
  | raise e => simp [run]
  | ret => simp [run]
  | seq p q ihp ihq => simp only [run]; exact andThen_mono (ihp i) ihq
  | tryFinally b f ihb ihf => simp only [run]; exact finallyDo_mono (ihb i) ihf
  | tryExcept b c h e ihb ihh ihe =>
    simp only [run]
    have hb := ihb i
    split
    · split
      · have := ihh (run k b i).idx; simp only; omega
      · exact hb
    · have := ihe (run k b i).idx; simp only; omega
    · exact hb
  | withCtx en ex fi b ihen ihex ihfi ihb =>
    simp only [run]
    exact finallyDo_mono (andThen_mono (ihen i) fun j => exitOk_mono (ihb j) ihex) ihfi
  | gather cs => simp only [run]; exact runAwaits_mono k _ i
  | loop n b ih => simp only [run]; exact runLoop_mono ih n i

/-! ### a cancellation index outside the run changes nothing -/

theorem notIn_left {k : Option Nat} {i j l : Nat} (h : NotIn k i l) (hj : j ≤ l) : NotIn k i j :=
  fun m hk => (h m hk).elim Or.inl fun x => Or.inr (by omega)

theorem notIn_right {k : Option Nat} {i j l : Nat} (h : NotIn k i l) (hj : i ≤ j) : NotIn k j l :=
  fun m hk => (h m hk).elim (fun x => Or.inl (by omega)) Or.inr

theorem runAwaits_undelivered (k : Option Nat) (l : List α) (i : Nat)
    (h : NotIn k i (runAwaits k l i).idx) : runAwaits k l i = runAwaits none l i := by
  induction l generalizing i with
  | nil => simp [runAwaits]
  | cons a l ih =>
    unfold runAwaits at h ⊢
    by_cases hk : k = some i
    · simp only [hk, ↓reduceIte] at h
      rcases h i rfl with x | x <;> omega
    · simp only [hk, ↓reduceIte, reduceCtorEq] at h ⊢
      rw [ih (i + 1) (notIn_right h (by omega))]

theorem andThen_undelivered {k : Option Nat} {i : Nat} {r r' : Res α} {f f' : Nat → Res α}
    (hf : ∀ j, j ≤ (f j).idx) (hi : i ≤ r.idx)
    (h : NotIn k i (r.andThen f).idx) (hr : NotIn k i r.idx → r = r')
    (hq : ∀ j, NotIn k j (f j).idx → f j = f' j) : r.andThen f = r'.andThen f' := by
  have e1 : r = r' := hr (notIn_left h (andThen_idx_ge r hf))
  subst e1
  unfold Res.andThen at h ⊢
  by_cases hn : r.out = .normal
  · simp only [hn, ↓reduceIte] at h ⊢
    rw [hq r.idx (notIn_right h hi)]
  · simp only [hn, ↓reduceIte]

theorem finallyDo_undelivered {k : Option Nat} {i : Nat} {r r' : Res α} {f f' : Nat → Res α}
    (hf : ∀ j, j ≤ (f j).idx) (hi : i ≤ r.idx)
    (h : NotIn k i (r.finallyDo f).idx) (hr : NotIn k i r.idx → r = r')
    (hq : ∀ j, NotIn k j (f j).idx → f j = f' j) : r.finallyDo f = r'.finallyDo f' := by
  have e1 : r = r' := hr (notIn_left h (finallyDo_mono (Nat.le_refl _) hf))
  subst e1
  unfold Res.finallyDo at h ⊢
  by_cases hn : r.out = .pending
  · simp only [hn, ↓reduceIte]
  · simp only [hn, ↓reduceIte] at h ⊢
    rw [hq r.idx (notIn_right h hi)]

theorem exitOk_undelivered {k : Option Nat} {i : Nat} {r r' : Res α} {f f' : Nat → Res α}
    (hf : ∀ j, j ≤ (f j).idx) (hi : i ≤ r.idx)
    (h : NotIn k i (r.exitOk f).idx) (hr : NotIn k i r.idx → r = r')
    (hq : ∀ j, NotIn k j (f j).idx → f j = f' j) : r.exitOk f = r'.exitOk f' := by
  have e1 : r = r' := hr (notIn_left h (exitOk_mono (Nat.le_refl _) hf))
  subst e1
  unfold Res.exitOk at h ⊢
  by_cases hn : r.out = .normal ∨ r.out = .returned
  · simp only [hn, ↓reduceIte] at h ⊢
    rw [hq r.idx (notIn_right h hi)]
  · simp only [hn, ↓reduceIte]

theorem runLoop_undelivered {k : Option Nat} {f f' : Nat → Res α} (hf : ∀ j, j ≤ (f j).idx)
    (hq : ∀ j, NotIn k j (f j).idx → f j = f' j) (n i : Nat)
    (h : NotIn k i (runLoop f n i).idx) : runLoop f n i = runLoop f' n i := by
  induction n generalizing i with
  | zero => simp [runLoop]
  | succ n ih =>
    unfold runLoop at h ⊢
    exact andThen_undelivered (runLoop_mono hf n) (hf i) h (hq i) ih

/-- **a cancellation that is never reached changes nothing**: if the cancellation index lies
outside the awaits the run passes through, the run is the uncancelled run -/
theorem undelivered_eq (k : Option Nat) (c : Coro α) (i : Nat) (h : NotIn k i (run k c i).idx) :
    run k c i = run none c i := by
  induction c generalizing i with
  | skip => simp [run]
  | act a => simp [run]
  | await a => simp only [run] at h ⊢; exact runAwaits_undelivered k _ i h
  | park a =>
    simp only [run] at h ⊢
    by_cases hk : k = some i
    · simp only [hk, ↓reduceIte] at h
      rcases h i rfl with x | x <;> omega
    · simp [hk]
  | raise e => simp [run]
  | ret => simp [run]
  | seq p q ihp ihq =>
    simp only [run] at h ⊢
    exact andThen_undelivered (run_mono k q) (run_mono k p i) h (ihp i) ihq
  | tryFinally b f ihb ihf =>
    simp only [run] at h ⊢
    exact finallyDo_undelivered (run_mono k f) (run_mono k b i) h (ihb i) ihf
  | tryExcept b c hd e ihb ihh ihe =>
    simp only [run] at h ⊢
    have hb := run_mono k b i
    have e1 : run k b i = run none b i := by
      apply ihb i
      refine notIn_left h ?_
      split
      · split
        · have := run_mono k hd (run k b i).idx; simp only; omega
        · exact Nat.le_refl _
      · have := run_mono k e (run k b i).idx; simp only; omega
      · exact Nat.le_refl _
    rw [← e1]
    generalize run k b i = r at h hb ⊢
    split
    · split
      · rename_i x heq hc
        simp only [heq, hc, ↓reduceIte] at h
        rw [ihh r.idx (notIn_right h hb)]
      · rfl
    · rename_i heq
      simp only [heq] at h
      rw [ihe r.idx (notIn_right h hb)]
    · rfl
  | withCtx en ex fi b ihen ihex ihfi ihb =>
    simp only [run] at h ⊢
    refine finallyDo_undelivered (run_mono k fi)
      (andThen_mono (run_mono k en i) fun j => exitOk_mono (run_mono k b j) (run_mono k ex)) h ?_ ihfi
    intro h2
    refine andThen_undelivered (fun j => exitOk_mono (run_mono k b j) (run_mono k ex)) (run_mono k en i) h2 (ihen i) ?_
    intro j h3
    exact exitOk_undelivered (run_mono k ex) (run_mono k b j) h3 (ihb j) ihex
  | gather cs => simp only [run] at h ⊢; exact runAwaits_undelivered k _ i h
  | loop n b ih =>
    simp only [run] at h ⊢
    exact runLoop_undelivered (run_mono k b) ih n i h

/-- once the cancellation has been delivered, everything later runs as if never cancelled -/
theorem past_eq {k : Option Nat} {m : Nat} (hk : k = some m) (c : Coro α) {i : Nat} (h : m < i) :
    run k c i = run none c i :=
  undelivered_eq k c i fun m' hk' => by
    rw [hk] at hk'; cases hk'; exact Or.inl h

end Ebv.C24
