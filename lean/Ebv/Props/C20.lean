import Ebv.Model.Fmmu
/-! C20 — a terminal's FMMUs are never shared by two live mappings.

Every theorem is for an arbitrary number `n` of FMMUs (including 0 and more than 4) and an
arbitrary list of operations: `enter` (read or write, any logical address, with or without a
failing register write) and `exit` of any live mapping in any order (normal, by exception, with a
failing register write). -/
namespace Ebv.C20
open Ebv.Fmmu Ebv.Consts

/-! ### Python list primitives on the arguments the code produces -/

theorem pyIndexNone_eq_none {l : Table} (h : pyIndexNone l = none) : ∀ i : Nat, l[i]? ≠ some none := by
  induction l with
  | nil => simp
  | cons x l ih =>
    cases x with
    | none => simp [pyIndexNone] at h
    | some v =>
      simp only [pyIndexNone, Option.map_eq_none_iff] at h
      intro i
      cases i with
      | zero => simp
      | succ i => simpa using ih h i

theorem pyIndexNone_eq_some {l : Table} {k : Nat} (h : pyIndexNone l = some k) :
    l[k]? = some none ∧ ∀ j, j < k → l[j]? ≠ some none := by
  induction l generalizing k with
  | nil => simp [pyIndexNone] at h
  | cons x l ih =>
    cases x with
    | none =>
      simp only [pyIndexNone, Option.some.injEq] at h
      subst h
      simp
    | some v =>
      simp only [pyIndexNone, Option.map_eq_some_iff] at h
      obtain ⟨k', hk', rfl⟩ := h
      obtain ⟨h1, h2⟩ := ih hk'
      refine ⟨by simpa using h1, ?_⟩
      intro j hj
      cases j with
      | zero => simp
      | succ j => simpa using h2 j (by omega)

theorem pySliceRev_nat {α} (t : List α) (k : Nat) (hk : k < t.length) :
    pySliceRev t (k : Int) = (t.take (k + 1)).reverse := by
  have h1 : ¬ ((k : Int) < 0) := by omega
  have h2 : ¬ ((k : Int) ≥ (t.length : Int)) := by omega
  have h3 : ((k : Int) + 1).toNat = k + 1 := by omega
  simp only [pySliceRev, h1, h2, h3, if_false]

theorem pySetItem_nat {α} (t : List α) (i : Nat) (v : α) (hi : i < t.length) :
    pySetItem t (i : Int) v = some (t.set i v) := by
  have h1 : (0 : Int) ≤ (i : Int) := by omega
  have h2 : (i : Int) < (t.length : Int) := by omega
  simp [pySetItem, pyNorm, h1, h2]

/-- the `finally` clause frees the slot with that index and nothing else -/
theorem exit_frees_own (t : Table) (i : Nat) (hi : i < t.length) :
    exit t (i : Int) = t.set i none ∧ (exit t (i : Int))[i]? = some none ∧
      (∀ j, j ≠ i → (exit t (i : Int))[j]? = t[j]?) ∧ (exit t (i : Int)).length = t.length := by
  have h : exit t (i : Int) = t.set i none := by simp [exit, pySetItem_nat t i none hi]
  rw [h]
  refine ⟨rfl, by simp [hi], fun j hj => by simp [List.getElem?_set_ne (Ne.symm hj)], by simp⟩

/-! ### the slot choice -/

/-- number of FMMUs a mapping looks at: FMMU 1, then 0 for outputs; all, from the last, for inputs -/
def top (n : Nat) (write : Bool) : Nat := if write then min 2 n else n

theorem top_le (n : Nat) (w : Bool) : top n w ≤ n := by unfold top; split <;> omega

theorem startOf_eq (n : Nat) (w : Bool) : startOf n w = (top n w : Int) - 1 := by
  cases w <;> simp [startOf, top] <;> omega

theorem slotChoice_eq (t : Table) (w : Bool) :
    slotChoice t w =
      slotResult ((top t.length w : Int) - 1) (pyIndexNone (t.take (top t.length w)).reverse) := by
  unfold slotChoice
  rw [startOf_eq]
  cases t with
  | nil => cases w <;> simp [pySliceRev, top]
  | cons x t =>
    have hlt : top (x :: t).length w - 1 < (x :: t).length := by
      have := top_le (x :: t).length w
      simp at this ⊢; omega
    have hpos : top (x :: t).length w - 1 + 1 = top (x :: t).length w := by
      cases w <;> simp [top] <;> omega
    have hcast : (top (x :: t).length w : Int) - 1 = ((top (x :: t).length w - 1 : Nat) : Int) := by omega
    rw [hcast, pySliceRev_nat _ _ hlt, hpos]

/-- **what `enter` does**, completely: either no FMMU in the searched range is free — then it
raises ValueError — or it takes the highest free FMMU of the range and records the logical
address there, leaving every other slot alone. -/
theorem enter_spec (t : Table) (w : Bool) (l : Nat) :
    ((∀ i, i < top t.length w → t[i]? ≠ some none) ∧ enter t w l = .error .valueError) ∨
    (∃ i, i < top t.length w ∧ t[i]? = some none ∧ (∀ j, i < j → j < top t.length w → t[j]? ≠ some none) ∧
      enter t w l = .ok ((i : Int), t.set i (some l))) := by
  have hle := top_le t.length w
  have hlen : (t.take (top t.length w)).length = top t.length w := by simp; omega
  have hget : ∀ j, j < top t.length w →
      (t.take (top t.length w)).reverse[top t.length w - 1 - j]? = t[j]? := by
    intro j hj
    rw [List.getElem?_reverse (by rw [hlen]; omega), hlen, List.getElem?_take_of_lt (by omega)]
    congr 1; omega
  unfold enter
  rw [slotChoice_eq]
  cases h : pyIndexNone (t.take (top t.length w)).reverse with
  | none =>
    left
    refine ⟨?_, by simp [slotResult, enterAt]⟩
    intro i hi
    rw [← hget i hi]
    exact pyIndexNone_eq_none h _
  | some k =>
    right
    obtain ⟨h1, h2⟩ := pyIndexNone_eq_some h
    have hk : k < top t.length w := by
      have : k < (t.take (top t.length w)).reverse.length := by
        rcases Nat.lt_or_ge k (t.take (top t.length w)).reverse.length with h | h
        · exact h
        · simp [List.getElem?_eq_none h] at h1
      simpa [hlen] using this
    refine ⟨top t.length w - 1 - k, by omega, ?_, ?_, ?_⟩
    · rw [← hget _ (by omega)]
      have : top t.length w - 1 - (top t.length w - 1 - k) = k := by omega
      rw [this]; exact h1
    · intro j hj1 hj2
      rw [← hget j hj2]
      exact h2 _ (by omega)
    · have hcast : (top t.length w : Int) - 1 - (k : Int) = ((top t.length w - 1 - k : Nat) : Int) := by omega
      simp only [slotResult, enterAt, hcast]
      rw [pySetItem_nat t _ _ (by omega)]
      rfl

/-- a mapping that finds no free FMMU in its range fails (ValueError), whatever the rest of the table -/
theorem full_fails (t : Table) (w : Bool) (l : Nat)
    (h : ∀ i, i < top t.length w → t[i]? ≠ some none) : enter t w l = .error .valueError := by
  rcases enter_spec t w l with ⟨_, h2⟩ | ⟨i, hi, hf, _, _⟩
  · exact h2
  · exact absurd hf (h i hi)

/-- a mapping with a free FMMU in its range gets one: the highest free one -/
theorem free_succeeds (t : Table) (w : Bool) (l : Nat) (i : Nat) (hi : i < top t.length w)
    (hfree : t[i]? = some none) (hmax : ∀ j, i < j → j < top t.length w → t[j]? ≠ some none) :
    enter t w l = .ok ((i : Int), t.set i (some l)) := by
  rcases enter_spec t w l with ⟨h1, _⟩ | ⟨i', hi', hf', hmax', he⟩
  · exact absurd hfree (h1 i hi)
  · have : i' = i := by
      rcases Nat.lt_trichotomy i' i with h | h | h
      · exact absurd hfree (hmax' i h hi)
      · exact h
      · exact absurd hf' (hmax i' h hi')
    rw [← this]; exact he

/-- `fmmu_used[index] = logical` never raises IndexError: the index is always a slot of the terminal -/
theorem never_index_error (t : Table) (w : Bool) (l : Nat) : enter t w l ≠ .error .indexError := by
  rcases enter_spec t w l with ⟨_, h⟩ | ⟨i, _, _, _, h⟩ <;> rw [h] <;> simp

/-! ### the invariant over every operation list -/

structure Inv (s : St) : Prop where
  /-- the slot of every live mapping exists and holds the mapping's own logical address -/
  owns : ∀ m ∈ s.live, ∃ i : Nat, m.index = (i : Int) ∧ s.table[i]? = some (some m.logical)
  /-- live mappings hold pairwise different slots -/
  distinct : s.live.Pairwise (fun a b => a.index ≠ b.index)
  /-- every taken slot belongs to a live mapping -/
  noLeak : ∀ (i l : Nat), s.table[i]? = some (some l) → ∃ m ∈ s.live, m.index = (i : Int)

theorem inv_init (n : Nat) : Inv (init n) := by
  refine ⟨by simp [init], by simp [init], ?_⟩
  intro i l h
  simp [init, List.getElem?_replicate] at h

/-- an `enter` that does not return an index leaves table and live mappings exactly as they were
(ValueError before anything is touched; a failing register write is undone by `finally`) -/
theorem failed_enter_changes_nothing (cfg : Cfg) (s : St) (w : Bool) (l : Nat) (f : Bool)
    (h : ∀ i, (step cfg s (.enter w l f)).2.1 ≠ .entered i) : (step cfg s (.enter w l f)).1 = s := by
  rcases enter_spec s.table w l with ⟨_, he⟩ | ⟨i, hi, hf, _, he⟩
  · simp [step, stepEnter, enterResult, he]
  · have hlt : i < s.table.length := by have := top_le s.table.length w; omega
    cases f with
    | false => exact absurd (by simp [step, stepEnter, enterResult, he]) (h i)
    | true =>
      have hx : exit (s.table.set i (some l)) (i : Int) = s.table := by
        rw [(exit_frees_own _ i (by simpa using hlt)).1, List.set_set]
        apply List.ext_getElem? ; intro j
        by_cases hj : i = j
        · subst hj; rw [hf]; simp [hlt]
        · simp [List.getElem?_set_ne hj]
      simp [step, stepEnter, enterResult, he, hx]

theorem full_fails_step (cfg : Cfg) (s : St) (w : Bool) (l : Nat) (f : Bool)
    (h : ∀ i, i < top s.table.length w → s.table[i]? ≠ some none) :
    step cfg s (.enter w l f) = (s, .failed .valueError, []) := by
  simp [step, stepEnter, enterResult, full_fails s.table w l h]

theorem mem_eraseIdx_index_ne {live : List Live} {k : Nat} {m m' : Live}
    (hd : live.Pairwise (fun a b => a.index ≠ b.index)) (hk : live[k]? = some m)
    (hm' : m' ∈ live.eraseIdx k) : m'.index ≠ m.index := by
  rw [List.mem_eraseIdx_iff_getElem?] at hm'
  obtain ⟨i, hik, hi⟩ := hm'
  rw [List.pairwise_iff_getElem] at hd
  obtain ⟨hi1, hi2⟩ := List.getElem?_eq_some_iff.1 hi
  obtain ⟨hk1, hk2⟩ := List.getElem?_eq_some_iff.1 hk
  rcases Nat.lt_or_gt_of_ne hik with h | h
  · have := hd i k hi1 hk1 h; rw [hi2, hk2] at this; exact this
  · have := hd k i hk1 hi1 h; rw [hi2, hk2] at this; exact fun e => this e.symm

theorem step_inv (cfg : Cfg) (s : St) (op : Op) (h : Inv s) : Inv (step cfg s op).1 := by
  cases op with
  | enter w l f =>
    rcases enter_spec s.table w l with ⟨_, he⟩ | ⟨i, hi, hf, _, he⟩
    · simpa [step, stepEnter, enterResult, he] using h
    · have hlt : i < s.table.length := by have := top_le s.table.length w; omega
      cases f with
      | true =>
        rw [failed_enter_changes_nothing cfg s w l true (by simp [step, stepEnter, enterResult, he])]
        exact h
      | false =>
        simp only [step, stepEnter, enterResult, he, Bool.false_eq_true, if_false]
        refine ⟨?_, ?_, ?_⟩
        · intro m hm
          simp only [List.mem_append, List.mem_singleton] at hm
          rcases hm with hm | rfl
          · obtain ⟨j, hj1, hj2⟩ := h.owns m hm
            refine ⟨j, hj1, ?_⟩
            have : i ≠ j := by rintro rfl; rw [hf] at hj2; simp at hj2
            simpa [List.getElem?_set_ne this] using hj2
          · exact ⟨i, rfl, by simp [hlt]⟩
        · rw [List.pairwise_append]
          refine ⟨h.distinct, by simp, ?_⟩
          intro a ha b hb
          simp only [List.mem_singleton] at hb
          subst hb
          obtain ⟨j, hj1, hj2⟩ := h.owns a ha
          simp only [hj1]
          intro e
          have : j = i := by omega
          subst this; rw [hf] at hj2; simp at hj2
        · intro j l' hj
          by_cases hij : i = j
          · subst hij
            exact ⟨⟨(i : Int), l, w⟩, by simp, rfl⟩
          · rw [List.getElem?_set_ne hij] at hj
            obtain ⟨m, hm, hmi⟩ := h.noLeak j l' hj
            exact ⟨m, by simp [hm], hmi⟩
  | exit k mode =>
    cases hk : s.live[k]? with
    | none => simpa [step, stepExit, exitResult, hk] using h
    | some m =>
      have hm : m ∈ s.live := List.mem_of_getElem? hk
      obtain ⟨i, hi1, hi2⟩ := h.owns m hm
      have hlt : i < s.table.length := by
        rcases Nat.lt_or_ge i s.table.length with h' | h'
        · exact h'
        · simp [List.getElem?_eq_none h'] at hi2
      have hx := (exit_frees_own s.table i hlt).1
      have key : (step cfg s (.exit k mode)).1 = { table := s.table.set i none, live := s.live.eraseIdx k } := by
        simp [step, stepExit, exitResult, hk, hi1, hx]
      rw [key]
      refine ⟨?_, ?_, ?_⟩
      · intro m' hm'
        have hne := mem_eraseIdx_index_ne h.distinct hk hm'
        obtain ⟨j, hj1, hj2⟩ := h.owns m' (List.mem_of_mem_eraseIdx hm')
        refine ⟨j, hj1, ?_⟩
        have : i ≠ j := by rintro rfl; exact hne (by rw [hj1, hi1])
        simpa [List.getElem?_set_ne this] using hj2
      · exact h.distinct.sublist (List.eraseIdx_sublist _ _)
      · intro j l' hj
        simp only at hj
        by_cases hij : i = j
        · subst hij; simp [hlt] at hj
        · rw [List.getElem?_set_ne hij] at hj
          obtain ⟨m', hm', hmi'⟩ := h.noLeak j l' hj
          refine ⟨m', ?_, hmi'⟩
          rw [List.mem_eraseIdx_iff_getElem?]
          obtain ⟨p, hp⟩ := List.getElem?_of_mem hm'
          refine ⟨p, ?_, hp⟩
          rintro rfl
          rw [hk] at hp
          have : m = m' := by simpa using hp
          subst this
          omega

theorem run_inv (cfg : Cfg) (ops : List Op) (s : St) (h : Inv s) : Inv (run cfg s ops) := by
  induction ops generalizing s with
  | nil => exact h
  | cons op ops ih => exact ih _ (step_inv cfg s op h)

theorem step_length (cfg : Cfg) (s : St) (op : Op) (h : Inv s) :
    (step cfg s op).1.table.length = s.table.length := by
  cases op with
  | enter w l f =>
    rcases enter_spec s.table w l with ⟨_, he⟩ | ⟨i, hi, hf, _, he⟩
    · simp [step, stepEnter, enterResult, he]
    · cases f with
      | true => rw [failed_enter_changes_nothing cfg s w l true (by simp [step, stepEnter, enterResult, he])]
      | false => simp [step, stepEnter, enterResult, he]
  | exit k mode =>
    cases hk : s.live[k]? with
    | none => simp [step, stepExit, exitResult, hk]
    | some m =>
      obtain ⟨i, hi1, hi2⟩ := h.owns m (List.mem_of_getElem? hk)
      have hlt : i < s.table.length := by
        rcases Nat.lt_or_ge i s.table.length with h' | h'
        · exact h'
        · simp [List.getElem?_eq_none h'] at hi2
      have hx := (exit_frees_own s.table i hlt).1
      simp [step, stepExit, exitResult, hk, hi1, hx]

theorem run_length (cfg : Cfg) (ops : List Op) (s : St) (h : Inv s) :
    (run cfg s ops).table.length = s.table.length := by
  induction ops generalizing s with
  | nil => rfl
  | cons op ops ih =>
    simp only [run]
    rw [ih _ (step_inv cfg s op h), step_length cfg s op h]

/-! ### the property, for every number of FMMUs and every operation list -/

variable (n : Nat) (cfg : Cfg) (ops : List Op)

/-- **live mappings hold pairwise different FMMUs** -/
theorem live_distinct : (run cfg (init n) ops).live.Pairwise (fun a b => a.index ≠ b.index) :=
  (run_inv cfg ops _ (inv_init n)).distinct

/-- the FMMU of each live mapping is one of the terminal's `n` and its slot-table entry is the
mapping's own logical address -/
theorem live_owns_slot : ∀ m ∈ (run cfg (init n) ops).live,
    ∃ i : Nat, i < n ∧ m.index = (i : Int) ∧ (run cfg (init n) ops).table[i]? = some (some m.logical) := by
  intro m hm
  obtain ⟨i, h1, h2⟩ := (run_inv cfg ops _ (inv_init n)).owns m hm
  refine ⟨i, ?_, h1, h2⟩
  have hl : (run cfg (init n) ops).table.length = n := by
    rw [run_length cfg ops _ (inv_init n)]; simp [init]
  rcases Nat.lt_or_ge i n with h' | h'
  · exact h'
  · rw [List.getElem?_eq_none (by rw [hl]; exact h')] at h2; simp at h2

/-- no FMMU stays taken without a live mapping that owns it (so "free" really is free) -/
theorem no_leak : ∀ (i l : Nat), (run cfg (init n) ops).table[i]? = some (some l) →
    ∃ m ∈ (run cfg (init n) ops).live, m.index = (i : Int) :=
  (run_inv cfg ops _ (inv_init n)).noLeak

/-- **exit frees exactly its own FMMU**: after leaving the `k`-th live mapping `m` (in any mode)
its slot is free, every other slot is unchanged, the other live mappings are still live and none
of them uses `m`'s slot -/
theorem exit_frees_own_step (k : Nat) (mode : ExitMode) (m : Live)
    (hk : (run cfg (init n) ops).live[k]? = some m) :
    let s := run cfg (init n) ops
    let s' := (step cfg s (.exit k mode)).1
    ∃ i : Nat, i < n ∧ m.index = (i : Int) ∧ s'.table = s.table.set i none ∧ s'.table[i]? = some none ∧
      (∀ j, j ≠ i → s'.table[j]? = s.table[j]?) ∧ s'.live = s.live.eraseIdx k ∧
      ∀ m' ∈ s'.live, m'.index ≠ m.index := by
  intro s s'
  have hinv : Inv s := run_inv cfg ops _ (inv_init n)
  obtain ⟨i, hin, hi1, hi2⟩ := live_owns_slot n cfg ops m (List.mem_of_getElem? hk)
  have hlt : i < s.table.length := by
    rcases Nat.lt_or_ge i s.table.length with h' | h'
    · exact h'
    · rw [List.getElem?_eq_none h'] at hi2; simp at hi2
  have hx := exit_frees_own s.table i hlt
  have key : s' = { table := s.table.set i none, live := s.live.eraseIdx k } := by
    show (step cfg s (.exit k mode)).1 = _
    simp [step, stepExit, exitResult, show s.live[k]? = some m from hk, hi1, hx.1]
  refine ⟨i, hin, hi1, by rw [key], by rw [key]; simp [hlt], ?_, by rw [key], ?_⟩
  · intro j hj; rw [key]; simp [List.getElem?_set_ne (Ne.symm hj)]
  · intro m' hm'
    rw [key] at hm'
    exact mem_eraseIdx_index_ne hinv.distinct hk hm'

/-- **register writes**: a successful enter writes exactly the 16-byte FMMU entry of its index
(logical start, length, start bit 0, stop bit 7, physical start, 0, type 2 = write / 1 = read,
activate 1) at 0x600 + 0x10·index; a normal exit writes 0 to the activate byte 0x60c + 0x10·index;
an exit by exception writes nothing; a refused enter writes nothing -/
theorem register_writes (s : St) :
    (∀ w l f i, (step cfg s (.enter w l f)).2.1 = .entered i →
      (step cfg s (.enter w l f)).2.2 =
        [⟨0x600 + 0x10 * i, [l, if w then cfg.outSz else cfg.inSz, 0, 7,
                              if w then cfg.outOff else cfg.inOff, 0, if w then 2 else 1, 1]⟩]) ∧
    (∀ w l f e, (step cfg s (.enter w l f)).2.1 = .failed e → (step cfg s (.enter w l f)).2.2 = []) ∧
    (∀ k m, s.live[k]? = some m →
      (step cfg s (.exit k .normal)).2.2 = [⟨0x60c + 0x10 * m.index, [0]⟩] ∧
      (step cfg s (.exit k .exc)).2.2 = []) := by
  refine ⟨?_, ?_, ?_⟩
  · intro w l f i h
    rcases enter_spec s.table w l with ⟨_, he⟩ | ⟨j, _, _, _, he⟩
    · simp [step, stepEnter, enterResult, he] at h
    · cases f with
      | true => simp [step, stepEnter, enterResult, he] at h
      | false =>
        simp only [step, stepEnter, enterResult, he, Bool.false_eq_true, if_false, Outcome.entered.injEq] at h ⊢
        subst h
        simp [activateWr, fmmu_reg_base, fmmu_reg_stride]
  · intro w l f e h
    rcases enter_spec s.table w l with ⟨_, he⟩ | ⟨j, _, _, _, he⟩
    · simp [step, stepEnter, enterResult, he]
    · cases f <;> simp [step, stepEnter, enterResult, he] at h
  · intro k m hk
    simp [step, stepExit, exitResult, exitWrites, hk, deactivateWr, fmmu_reg_base, fmmu_reg_stride, fmmu_reg_activate]

/-- the register blocks of two live mappings never overlap -/
theorem live_registers_distinct (a b : Nat) (ma mb : Live) (hab : a ≠ b)
    (ha : (run cfg (init n) ops).live[a]? = some ma) (hb : (run cfg (init n) ops).live[b]? = some mb) :
    (0x600 + 0x10 * ma.index) + 0x10 ≤ 0x600 + 0x10 * mb.index ∨
    (0x600 + 0x10 * mb.index) + 0x10 ≤ 0x600 + 0x10 * ma.index := by
  have hd := live_distinct n cfg ops
  rw [List.pairwise_iff_getElem] at hd
  obtain ⟨ha1, ha2⟩ := List.getElem?_eq_some_iff.1 ha
  obtain ⟨hb1, hb2⟩ := List.getElem?_eq_some_iff.1 hb
  have hne : ma.index ≠ mb.index := by
    rcases Nat.lt_or_gt_of_ne hab with h | h
    · have := hd a b ha1 hb1 h; rwa [ha2, hb2] at this
    · have := hd b a hb1 ha1 h; rw [ha2, hb2] at this; exact fun e => this e.symm
  omega

/-! ### the formula before commit 72130e4 is visibly wrong in this model -/

/-- `index = start - self.fmmu_used[start::-1].index(None) - 1` without clamping `start` -/
def slotChoiceOld (t : Table) (write : Bool) : Except Err Int :=
  let n : Int := t.length
  let start : Int := if write then 1 else n
  match pyIndexNone (pySliceRev t start) with
  | none => .error .valueError
  | some k => .ok (start - k - 1)

def enterOld (t : Table) (write : Bool) (logical : Nat) : Option (Int × Table) :=
  match slotChoiceOld t write with
  | .error _ => none
  | .ok index => (pySetItem t index (some logical)).map fun t' => (index, t')

/-- with the old formula two nested write mappings both get FMMU 0 (the second overwrites the
first), and with FMMU 1 taken and FMMU 0 free a write mapping gets index −1, i.e. the *last* FMMU,
even when that one is in use — the model's Python primitives make the regression visible -/
theorem old_formula_shares :
    enterOld [none, none] true 100 = some (0, [some 100, none]) ∧
    enterOld [some 100, none] true 200 = some (0, [some 200, none]) ∧
    enterOld [none, some 2, some 3] true 4 = some (-1, [none, some 2, some 4]) ∧
    (enter [some 100, none] true 200).toOption = some (1, [some 100, some 200]) ∧
    (enter [none, some 2, some 3] true 4).toOption = some (0, [some 4, some 2, some 3]) := by
  decide

/-! ### initialisation and several terminals: every terminal is on its own

The slot table `initialize` creates has exactly as many slots as the hardware reports FMMUs, so "one of the terminal's
`n`" in `live_owns_slot` means an FMMU that exists; and a history over several terminals is, seen from each terminal,
the history of the operations addressed to it — nothing another terminal does reaches it. -/

theorem init_table (n : Nat) : (init n).table.length = n ∧ ∀ i, i < n → (init n).table[i]? = some none := by
  refine ⟨by simp [init], ?_⟩
  intro i hi
  simp [init, hi]

/-- `initialize` switches off exactly the FMMUs that exist: one write per FMMU, to its activate register -/
theorem init_writes (n : Nat) : (initWrites n).length = n ∧
    ∀ i, i < n → (initWrites n)[i]? = some ⟨(fmmu_reg_base + fmmu_reg_activate : Nat) + fmmu_reg_stride * (i : Int), [0]⟩ := by
  refine ⟨by simp [initWrites], ?_⟩
  intro i hi
  simp [initWrites, deactivateWr, hi]

theorem busStep_other (b : Bus) (o : Nat × Op) (j : Nat) (h : o.1 ≠ j) : (busStep b o).1[j]? = b[j]? := by
  unfold busStep busStepAt
  cases hb : b[o.1]? with
  | none => rfl
  | some t => simp [h]

theorem busStep_self (b : Bus) (i : Nat) (op : Op) (t : Term) (h : b[i]? = some t) :
    (busStep b (i, op)).1[i]? = some ⟨t.cfg, (step t.cfg t.st op).1⟩ := by
  have hi : i < b.length := by
    rcases Nat.lt_or_ge i b.length with h' | h'
    · exact h'
    · simp [List.getElem?_eq_none h'] at h
  unfold busStep busStepAt
  simp only [h]
  rw [List.getElem?_set_self hi]

/-- **independence of terminals**: after any history over the whole bus, terminal `i` is in the state the operations
addressed to it alone produce -/
theorem bus_projection (os : List (Nat × Op)) : ∀ (b : Bus) (i : Nat) (t : Term), b[i]? = some t →
    (busRun b os)[i]? = some ⟨t.cfg, run t.cfg t.st (opsOf i os)⟩ := by
  induction os with
  | nil => intro b i t h; simpa [busRun, opsOf, run] using h
  | cons o os ih =>
    intro b i t h
    obtain ⟨j, op⟩ := o
    by_cases hj : j = i
    · subst hj
      have := ih _ j _ (busStep_self b j op t h)
      simpa [busRun, opsOf, run] using this
    · have h' : (busStep b (j, op)).1[i]? = some t := by rw [busStep_other b (j, op) i hj]; exact h
      have := ih _ i t h'
      have hne : (j == i) = false := by simpa using hj
      simpa [busRun, opsOf, run, hne] using this

/-- **the property on a bus of terminals**, from initialisation on: whatever is done on all the terminals in whatever
interleaving, the live mappings of terminal `i` hold pairwise different FMMUs, each one of the `n` FMMUs terminal `i`
really has, each recorded with its own logical address, and no slot stays taken without owner -/
theorem bus_live (ts : List (Nat × Cfg)) (os : List (Nat × Op)) (i n : Nat) (cfg : Cfg) (h : ts[i]? = some (n, cfg)) :
    ∃ s, (busRun (busInit ts) os)[i]? = some ⟨cfg, s⟩ ∧
      s.live.Pairwise (fun a b => a.index ≠ b.index) ∧
      (∀ m ∈ s.live, ∃ k : Nat, k < n ∧ m.index = (k : Int) ∧ s.table[k]? = some (some m.logical)) ∧
      (∀ (k l : Nat), s.table[k]? = some (some l) → ∃ m ∈ s.live, m.index = (k : Int)) ∧
      s.table.length = n := by
  have hb : (busInit ts)[i]? = some ⟨cfg, init n⟩ := by simp [busInit, h]
  refine ⟨_, bus_projection os _ i _ hb, live_distinct n cfg _, live_owns_slot n cfg _, no_leak n cfg _, ?_⟩
  rw [run_length cfg _ _ (inv_init n)]; simp [init]

/-- non-vacuity, and the case a two-slot table on a one-FMMU terminal gets wrong: on a bus of a 1-FMMU and a 2-FMMU terminal
the second overlapping mapping of the first terminal is refused while the second terminal still serves two -/
def bus0 : List (Nat × Cfg) := [(1, cfg1), (2, cfg1)]
  where cfg1 : Cfg := { outOff := 0x1100, outSz := 4, inOff := 0x1180, inSz := 6 }

example : (busTrace (busInit bus0) [(0, .enter true 100 false), (1, .enter true 200 false), (0, .enter false 300 false),
      (1, .enter false 400 false), (0, .exit 0 .normal), (0, .enter false 500 false)]).map (fun r => (r.1, r.2.1, r.2.2.2)) =
    [(0, .entered 0, [some 100]), (1, .entered 1, [none, some 200]), (0, .failed .valueError, [some 100]),
     (1, .entered 0, [some 400, some 200]), (0, .exited, [none]), (0, .entered 0, [some 500])] := by decide

/-! ### non-vacuity: overlapping mappings on a 3-FMMU terminal -/
def cfg0 : Cfg := { outOff := 0x1100, outSz := 4, inOff := 0x1180, inSz := 6 }
def ops0 : List Op :=
  [.enter true 100 false, .enter false 200 false, .enter true 300 false, .enter true 400 false,
   .exit 0 .normal, .exit 1 .exc, .enter false 7 true]

example : (trace cfg0 (init 3) ops0).map (fun r => (r.1, r.2.2)) =
    [(.entered 1, [none, some 100, none]), (.entered 2, [none, some 100, some 200]),
     (.entered 0, [some 300, some 100, some 200]), (.failed .valueError, [some 300, some 100, some 200]),
     (.exited, [some 300, none, some 200]), (.exited, [none, none, some 200]),
     (.busError, [none, none, some 200])] := by decide
example : (run cfg0 (init 3) (ops0.take 3)).live.length = 3 := by decide
example : ∀ i, i < top (run cfg0 (init 3) (ops0.take 3)).table.length true →
    (run cfg0 (init 3) (ops0.take 3)).table[i]? ≠ some none := by decide
example : (step cfg0 (run cfg0 (init 3) (ops0.take 4)) (.exit 0 .normal)).2.2 = [⟨0x60c + 0x10 * 1, [0]⟩] := by decide

end Ebv.C20
