import Ebv.Props.C06TVlib
/-! C06 translation validation, the text of the regenerated programs (decided on the table): every program IS
`pre ++ [XADD of the variable's width] ++ post` at the announced position with the announced registers, has no second
atomic add and no load instruction; and the table is the whole family. -/
namespace Ebv.C06TV
open Ebv.Ebpf Ebv.XdpRun Ebv.Programs

/-- **decomposition**: `prog = pre ++ [xadd] ++ post`; the XADD has the variable's width; `pre` and `post` contain no
atomic add and no load from memory (the only class-LD instruction is the two-slot load of the map handle) -/
theorem table_syntax : ∀ t ∈ Programs.xaddTable, Syntax t := by decide +kernel

/-- the table is the whole family of c06.py: both widths (formats i/I, q/Q/x with and without fixed-point scale) ×
constant / register / expression amounts × `+=` / `-=` × declared variable / `m[base+const]` / `m[base+register]` on
map memory, and every width × amount × sign on a local variable (420 entries) -/
theorem table_covers : Programs.xaddTable.length = 420 ∧
    ∀ n ∈ [4, 8], ∀ k ∈ [0, 1, 2], ∀ ng ∈ [false, true],
      (∀ a ∈ [0, 1, 2], ∃ t ∈ Programs.xaddTable, t.loc = false ∧ t.n = n ∧ t.kind = k ∧ t.neg = ng ∧ t.addr = a) ∧
      (∃ t ∈ Programs.xaddTable, t.loc = true ∧ t.n = n ∧ t.kind = k ∧ t.neg = ng) ∧
      (∃ t ∈ Programs.xaddTable, t.loc = false ∧ t.n = 8 ∧ t.scale = 100000 ∧ t.kind = k ∧ t.neg = ng) := by
  decide +kernel

/-- every entry's numbers are consistent: widths 4/8, no empty program, the scale is 1 or 100000 -/
theorem table_ok : ∀ t ∈ Programs.xaddTable, (t.n = 4 ∨ t.n = 8) ∧ t.prog ≠ [] ∧ (t.scale = 1 ∨ t.scale = 100000) ∧
    t.xpos < t.prog.length := by decide +kernel

end Ebv.C06TV
