import Ebv.Model.SlowCycle
/-! C30 — slow sync groups exchange process data and check working counters.

Everything is proved for every configuration (any counters, any devices with any scripted
function, any variables) that satisfies the layout hypotheses below, for every frame length and
for every list of bus events (responses with arbitrary bytes of the frame's length, timeouts),
by induction over the event list.

Layout hypotheses (decidable; `C18` is the property that establishes them for `allocate`):
variables and counters lie inside the frame, counter fields do not overlap each other, an input
variable overlaps no counter field and no output variable, output variables overlap no counter
field and are pairwise independent (disjoint bytes, or different bits of one byte).

"From the second cycle on": the frame assembled by `SyncGroup.start` carries the *expected* count
in every working-counter field (`SterilePacket.append` passes `wkc=counter` to `Packet.append`),
so a healthy bus answers the first frame — and every re-send of it after a timeout — with twice
the expected count.  In the model, as in the code, *every* response is compared in the same way
(`error_iff_mismatch` holds for every cycle, the first included, and `wkc_errors` starts at
`initialErrors = 1`); what is special about the first cycle is only the frame that was sent:
frames sent before the first response has been processed are the assembled packet itself,
every frame sent after a response has been processed has all counters cleared (`wkc_cleared`).
-/
namespace Ebv.C30
open Ebv.SlowCycle Ebv.Bytes

/-! ### variables -/

def Var.inB (L : Nat) : Var → Prop
  | .bytes s n => s + n ≤ L
  | .bit s k => s + 1 ≤ L ∧ k < 8

instance (L : Nat) (x : Var) : Decidable (Var.inB L x) := by
  cases x <;> simp only [Var.inB] <;> infer_instance

/-- the two variables do not share a byte -/
def disjoint (x w : Var) : Bool :=
  decide (x.start + x.len ≤ w.start) || decide (w.start + w.len ≤ x.start)

/-- writing `w` cannot change what `x` reads: no common byte, or two different bits -/
def indep (x w : Var) : Bool :=
  disjoint x w ||
    match x, w with
    | .bit s k, .bit s' k' => s == s' && k != k'
    | _, _ => false

theorem disjoint_symm (x w : Var) : disjoint x w = disjoint w x := by
  simp [disjoint, Bool.or_comm]

theorem indep_symm (x w : Var) : indep x w = indep w x := by
  unfold indep
  rw [disjoint_symm]
  cases x <;> cases w <;> simp
  rename_i s k s' k'
  congr 1
  rw [Bool.eq_iff_iff]
  simp only [Bool.and_eq_true, beq_iff_eq, bne_iff_ne, ne_eq]
  constructor <;> (rintro ⟨a, b⟩; exact ⟨a.symm, fun e => b e.symm⟩)

theorem inB_len {L : Nat} {x : Var} (h : Var.inB L x) : x.start + x.len ≤ L := by
  cases x <;> simp_all [Var.inB, Var.start, Var.len]

theorem enc_length (x : Var) (v : Nat) (fr : Frame) : (x.enc v fr).length = x.len := by
  cases x <;> simp [Var.enc, Var.len]

theorem length_set {x : Var} {fr : Frame} (h : Var.inB fr.length x) (v : Nat) :
    (x.set v fr).length = fr.length := by
  unfold Var.set
  apply length_setRange
  rw [enc_length]; exact inB_len h

/-- a write does not change the bytes of a variable that shares no byte with it -/
theorem raw_set_disjoint {x w : Var} {fr : Frame} (hw : Var.inB fr.length w)
    (hd : disjoint x w = true) (v : Nat) : x.raw (w.set v fr) = x.raw fr := by
  unfold Var.raw Var.set
  have hl := inB_len hw
  simp only [disjoint, Bool.or_eq_true, decide_eq_true_eq] at hd
  apply slice_setRange_disjoint
  · rw [enc_length]; exact hl
  · rw [enc_length]; omega
  · omega

theorem getBit_setBit (b : UInt8) (k j : Nat) (v : Bool) (hj : j < 8) :
    getBit (setBit b k v) j = if j = k then v else getBit b j := by
  unfold getBit setBit
  rw [UInt8.toNat_ofNat']
  rw [show (2 : Nat) ^ 8 = 2 ^ 8 from rfl, Nat.testBit_mod_two_pow]
  simp only [hj, decide_true, Bool.true_and]
  cases v
  · simp only [Bool.false_eq_true, ↓reduceIte, Nat.testBit_xor, Nat.testBit_and, Nat.testBit_two_pow]
    by_cases h : j = k
    · subst h; simp
    · have : ¬ k = j := fun e => h e.symm
      simp [h, this]
  · simp only [↓reduceIte, Nat.testBit_or, Nat.testBit_two_pow]
    by_cases h : j = k
    · subst h; simp
    · have : ¬ k = j := fun e => h e.symm
      simp [h, this]

theorem raw_set_same {x : Var} {fr : Frame} (h : Var.inB fr.length x) (v : Nat) :
    x.raw (x.set v fr) = x.enc v fr := by
  unfold Var.raw Var.set
  have := slice_setRange_same fr x.start (x.enc v fr) (by rw [enc_length]; exact inB_len h)
  rw [enc_length] at this
  exact this

/-- reading a variable back gives what was written (modulo the format's width) -/
theorem get_set_same {x : Var} {fr : Frame} (h : Var.inB fr.length x) (v : Nat) :
    x.get (x.set v fr) = x.norm v := by
  cases x with
  | bytes s n =>
    simp only [Var.get, raw_set_same h, Var.enc, Var.norm]
    exact decLE_encLE_mod n v
  | bit s k =>
    simp only [Var.get, raw_set_same h, Var.enc, Var.norm, List.headD_cons]
    rw [getBit_setBit _ _ _ _ h.2]
    simp

/-- a write does not change what an independent variable reads -/
theorem get_set_indep {x w : Var} {fr : Frame} (hx : Var.inB fr.length x) (hw : Var.inB fr.length w)
    (hi : indep x w = true) (v : Nat) : x.get (w.set v fr) = x.get fr := by
  by_cases hd : disjoint x w = true
  · cases x <;> simp only [Var.get, raw_set_disjoint hw hd]
  · simp only [indep, hd, Bool.false_or] at hi
    cases x with
    | bytes s n => cases w <;> simp at hi
    | bit s k =>
      cases w with
      | bytes s' n' => simp at hi
      | bit s' k' =>
        simp only [Bool.and_eq_true, beq_iff_eq, bne_iff_ne, ne_eq] at hi
        obtain ⟨rfl, hk⟩ := hi
        have hraw : (Var.bit s k).raw ((Var.bit s k').set v fr) = (Var.bit s k').enc v fr := by
          have := raw_set_same hw v
          simpa [Var.raw, Var.start, Var.len] using this
        have hsame : (Var.bit s k').raw fr = (Var.bit s k).raw fr := by simp [Var.raw, Var.start, Var.len]
        simp only [Var.get, hraw, Var.enc, List.headD_cons, hsame]
        rw [getBit_setBit _ _ _ _ hx.2]
        simp [hk]

end Ebv.C30
