import Ebv.Model.SlowCycle
/-! C30 — slow sync groups exchange process data and check working counters.

Everything is proved for every configuration (any counters, any devices with any scripted
function, any variables) that satisfies the layout hypotheses below, for every frame length and
for every list of bus events (responses with arbitrary bytes of the frame's length, timeouts),
by induction over the event list.

Layout hypotheses (decidable; `C18` is the property that establishes them for `allocate`):
variables and counters lie inside the frame, counter fields do not overlap each other, an input
variable overlaps no counter field and no output variable, output variables overlap no counter
field and are pairwise independent (disjoint bytes, or different bits of one byte).

"From the second cycle on": the frame assembled by `SyncGroup.start` carries the *expected* count
in every working-counter field (`SterilePacket.append` passes `wkc=counter` to `Packet.append`),
so a healthy bus answers the first frame — and every re-send of it after a timeout — with twice
the expected count.  In the model, as in the code, *every* response is compared in the same way
(`error_iff_mismatch` holds for every cycle, the first included, and `wkc_errors` starts at
`initialErrors = 1`); what is special about the first cycle is only the frame that was sent:
frames sent before the first response has been processed are the assembled packet itself,
every frame sent after a response has been processed has all counters cleared (`wkc_cleared`).
-/
namespace Ebv.C30
open Ebv.SlowCycle Ebv.Bytes

/-! ### variables -/

theorem disjoint_symm (x w : Var) : disjoint x w = disjoint w x := by
  simp [disjoint, Bool.or_comm]

theorem indep_symm (x w : Var) : indep x w = indep w x := by
  unfold indep
  rw [disjoint_symm]
  cases x <;> cases w <;> simp
  rename_i s k s' k'
  congr 1
  rw [Bool.eq_iff_iff]
  simp only [Bool.and_eq_true, beq_iff_eq, bne_iff_ne, ne_eq]
  constructor <;> (rintro ⟨a, b⟩; exact ⟨a.symm, fun e => b e.symm⟩)

theorem inB_len {L : Nat} {x : Var} (h : Var.inB L x) : x.start + x.len ≤ L := by
  cases x <;> simp_all [Var.inB, Var.start, Var.len]

theorem enc_length (x : Var) (v : Nat) (fr : Frame) : (x.enc v fr).length = x.len := by
  cases x <;> simp [Var.enc, Var.len]

theorem length_set {x : Var} {fr : Frame} (h : Var.inB fr.length x) (v : Nat) :
    (x.set v fr).length = fr.length := by
  unfold Var.set
  apply length_setRange
  rw [enc_length]; exact inB_len h

/-- a write does not change the bytes of a variable that shares no byte with it -/
theorem raw_set_disjoint {x w : Var} {fr : Frame} (hw : Var.inB fr.length w)
    (hd : disjoint x w = true) (v : Nat) : x.raw (w.set v fr) = x.raw fr := by
  unfold Var.raw Var.set
  have hl := inB_len hw
  simp only [disjoint, Bool.or_eq_true, decide_eq_true_eq] at hd
  apply slice_setRange_disjoint
  · rw [enc_length]; exact hl
  · rw [enc_length]; omega
  · omega

theorem getBit_setBit (b : UInt8) (k j : Nat) (v : Bool) (hj : j < 8) :
    getBit (setBit b k v) j = if j = k then v else getBit b j := by
  unfold getBit setBit
  rw [UInt8.toNat_ofNat']
  rw [show (2 : Nat) ^ 8 = 2 ^ 8 from rfl, Nat.testBit_mod_two_pow]
  simp only [hj, decide_true, Bool.true_and]
  cases v
  · simp only [Bool.false_eq_true, ↓reduceIte, Nat.testBit_xor, Nat.testBit_and, Nat.testBit_two_pow]
    by_cases h : j = k
    · subst h; simp
    · have : ¬ k = j := fun e => h e.symm
      simp [h, this]
  · simp only [↓reduceIte, Nat.testBit_or, Nat.testBit_two_pow]
    by_cases h : j = k
    · subst h; simp
    · have : ¬ k = j := fun e => h e.symm
      simp [h, this]

theorem raw_set_same {x : Var} {fr : Frame} (h : Var.inB fr.length x) (v : Nat) :
    x.raw (x.set v fr) = x.enc v fr := by
  unfold Var.raw Var.set
  have := slice_setRange_same fr x.start (x.enc v fr) (by rw [enc_length]; exact inB_len h)
  rw [enc_length] at this
  exact this

/-- reading a variable back gives what was written (modulo the format's width) -/
theorem get_set_same {x : Var} {fr : Frame} (h : Var.inB fr.length x) (v : Nat) :
    x.get (x.set v fr) = x.norm v := by
  cases x with
  | bytes s n =>
    simp only [Var.get, raw_set_same h, Var.enc, Var.norm]
    exact decLE_encLE_mod n v
  | bit s k =>
    simp only [Var.get, raw_set_same h, Var.enc, Var.norm, List.headD_cons]
    rw [getBit_setBit _ _ _ _ h.2]
    simp

/-- a write does not change what an independent variable reads -/
theorem get_set_indep {x w : Var} {fr : Frame} (hx : Var.inB fr.length x) (hw : Var.inB fr.length w)
    (hi : indep x w = true) (v : Nat) : x.get (w.set v fr) = x.get fr := by
  by_cases hd : disjoint x w = true
  · cases x <;> simp only [Var.get, raw_set_disjoint hw hd]
  · simp only [indep, hd, Bool.false_or] at hi
    cases x with
    | bytes s n => cases w <;> simp at hi
    | bit s k =>
      cases w with
      | bytes s' n' => simp at hi
      | bit s' k' =>
        simp only [Bool.and_eq_true, beq_iff_eq, bne_iff_ne, ne_eq] at hi
        obtain ⟨rfl, hk⟩ := hi
        have hraw : (Var.bit s k).raw ((Var.bit s k').set v fr) = (Var.bit s k').enc v fr := by
          have := raw_set_same hw v
          simpa [Var.raw, Var.start, Var.len] using this
        have hsame : (Var.bit s k').raw fr = (Var.bit s k).raw fr := by simp [Var.raw, Var.start, Var.len]
        simp only [Var.get, hraw, Var.enc, List.headD_cons, hsame]
        rw [getBit_setBit _ _ _ _ hx.2]
        simp [hk]

/-! ### sequences of writes -/

theorem applyWrites_cons (w : Var × Nat) (t : List (Var × Nat)) (fr : Frame) :
    applyWrites (w :: t) fr = applyWrites t (w.1.set w.2 fr) := rfl

theorem aw_length {L : Nat} (ws : List (Var × Nat)) (fr : Frame) (hL : fr.length = L)
    (hin : ∀ ov ∈ ws, Var.inB L ov.1) : (applyWrites ws fr).length = L := by
  induction ws generalizing fr with
  | nil => exact hL
  | cons w t ih =>
    rw [applyWrites_cons]
    apply ih
    · rw [length_set (hL ▸ hin w (by simp))]; exact hL
    · intro ov hov; exact hin ov (by simp [hov])

/-- writes to variables independent of `x` do not change what `x` reads -/
theorem aw_get_indep {L : Nat} (x : Var) (ws : List (Var × Nat)) (fr : Frame) (hL : fr.length = L)
    (hx : Var.inB L x) (hin : ∀ ov ∈ ws, Var.inB L ov.1) (hi : ∀ ov ∈ ws, indep x ov.1 = true) :
    x.get (applyWrites ws fr) = x.get fr := by
  induction ws generalizing fr with
  | nil => rfl
  | cons w t ih =>
    rw [applyWrites_cons]
    have hw : Var.inB fr.length w.1 := hL ▸ hin w (by simp)
    rw [ih (w.1.set w.2 fr) (by rw [length_set hw]; exact hL)
      (fun ov hov => hin ov (by simp [hov])) (fun ov hov => hi ov (by simp [hov]))]
    exact get_set_indep (hL ▸ hx) hw (hi w (by simp)) w.2

/-- after a sequence of writes to pairwise independent variables each of them reads what was written -/
theorem aw_get_written {L : Nat} (ws : List (Var × Nat)) (fr : Frame) (hL : fr.length = L)
    (hin : ∀ ov ∈ ws, Var.inB L ov.1) (hp : (ws.map Prod.fst).Pairwise IndepR)
    (ov : Var × Nat) (hov : ov ∈ ws) : ov.1.get (applyWrites ws fr) = ov.1.norm ov.2 := by
  induction ws generalizing fr with
  | nil => simp at hov
  | cons w t ih =>
    rw [applyWrites_cons]
    have hw : Var.inB fr.length w.1 := hL ▸ hin w (by simp)
    have hL' : (w.1.set w.2 fr).length = L := by rw [length_set hw]; exact hL
    simp only [List.map_cons, List.pairwise_cons] at hp
    rcases List.mem_cons.1 hov with rfl | hov
    · rw [aw_get_indep ov.1 t _ hL' (hL ▸ hw) (fun o ho => hin o (by simp [ho]))
        (fun o ho => hp.1 o.1 (List.mem_map_of_mem ho))]
      exact get_set_same hw ov.2
    · exact ih _ hL' (fun o ho => hin o (by simp [ho])) hp.2 hov

theorem zip_fst_sublist (os : List Var) (vs : List Nat) : ((os.zip vs).map Prod.fst).Sublist os := by
  induction os generalizing vs with
  | nil => simp
  | cons o os ih =>
    cases vs with
    | nil => simp
    | cons v vs => simpa using ih vs

theorem mem_zip_fst {os : List Var} {vs : List Nat} {ov : Var × Nat} (h : ov ∈ os.zip vs) : ov.1 ∈ os :=
  (List.of_mem_zip (a := ov.1) (b := ov.2) h).1

/-! ### the working counters -/

/-- the returned 16-bit counter differs from the expected count -/
def mismatch (data : Frame) (pc : Nat × Nat) : Bool := wkcAt data pc.1 != pc.2
/-- number of datagrams of a response whose counter is wrong -/
def mismatches (counters : List (Nat × Nat)) (data : Frame) : Nat := (counters.filter (mismatch data)).length

def clears (counters : List (Nat × Nat)) : List (Var × Nat) := counters.map fun pc => (cvar pc, 0)

theorem wkcAt_eq_get (f : Frame) (pc : Nat × Nat) : wkcAt f pc.1 = (cvar pc).get f := rfl

theorem checkCounters_eq (cs : List (Nat × Nat)) (data : Frame) (errs : Nat) (cur : Frame) :
    checkCounters cs data errs cur = (errs + mismatches cs data, applyWrites (clears cs) cur) := by
  induction cs generalizing errs cur with
  | nil => simp [checkCounters, mismatches, clears, applyWrites]
  | cons pc cs ih =>
    have hset : setRange cur pc.1 [0, 0] = (cvar pc).set 0 cur := rfl
    have := ih (if wkcAt data pc.1 != pc.2 then errs + 1 else errs) (setRange cur pc.1 [0, 0])
    unfold checkCounters at this ⊢
    rw [List.foldl_cons]
    simp only [counterStep]
    rw [this, hset]
    simp only [mismatches, List.filter_cons, mismatch, clears, List.map_cons, applyWrites_cons]
    congr 1
    by_cases h : (wkcAt data pc.1 != pc.2) = true
    · simp only [h, ↓reduceIte, List.length_cons]; omega
    · simp only [h, ↓reduceIte, Bool.false_eq_true]

theorem decLE_eq_zero (bs : List UInt8) (h : decLE bs = 0) : bs = zeros bs.length := by
  induction bs with
  | nil => rfl
  | cons b bs ih =>
    simp only [decLE] at h
    have hb : b.toNat = 0 := by omega
    have hr : decLE bs = 0 := by omega
    have : b = 0 := UInt8.toNat_inj.1 (by simpa using hb)
    simp only [zeros, List.length_cons, List.replicate_succ, this]
    congr 1
    exact ih hr

/-- the counter comparison looks at both bytes: the 16-bit value equals `c` iff the two bytes are `c`'s bytes -/
theorem wkc_full_width (data : Frame) (p c : Nat) (hp : p + 2 ≤ data.length) (hc : c < 65536) :
    wkcAt data p = c ↔ slice data p (p + 2) = encLE 2 c := by
  have hlen : (slice data p (p + 2)).length = 2 := by rw [length_slice _ _ _ hp]; omega
  constructor
  · intro h
    have := encLE_decLE (slice data p (p + 2))
    rw [hlen] at this
    rw [← this]; exact congrArg _ h
  · intro h
    unfold wkcAt
    rw [h]
    exact decLE_encLE 2 c (by simpa using hc)

/-- a zero 16-bit counter means both bytes are zero -/
theorem cleared_bytes (f : Frame) (p : Nat) (hp : p + 2 ≤ f.length) (h : wkcAt f p = 0) :
    slice f p (p + 2) = [0, 0] :=
  (wkc_full_width f p 0 hp (by decide)).1 h

/-! ### the layout hypotheses -/

/-! ### the device loop -/

section devs
variable {L : Nat} (c : Nat)

theorem devUpdate_fst (d : Dev) (cur : Frame) :
    (devUpdate c d cur).1 = applyWrites (d.outs.zip (d.f (d.ins.map (·.get cur)) c)) cur := rfl
theorem devUpdate_snd (d : Dev) (cur : Frame) : (devUpdate c d cur).2 = d.ins.map (·.get cur) := rfl

theorem devsUpdate_cons (d : Dev) (ds : List Dev) (cur : Frame) :
    devsUpdate c (d :: ds) cur =
      ((devsUpdate c ds (devUpdate c d cur).1).1, (devUpdate c d cur).2 :: (devsUpdate c ds (devUpdate c d cur).1).2) := rfl

theorem dev_length (d : Dev) (cur : Frame) (hL : cur.length = L) (ho : ∀ x ∈ d.outs, Var.inB L x) :
    (devUpdate c d cur).1.length = L := by
  rw [devUpdate_fst]
  exact aw_length _ _ hL (fun ov hov => ho _ (mem_zip_fst hov))

theorem dev_get_indep (d : Dev) (cur : Frame) (hL : cur.length = L) (ho : ∀ x ∈ d.outs, Var.inB L x)
    (x : Var) (hx : Var.inB L x) (hi : ∀ w ∈ d.outs, indep x w = true) :
    x.get (devUpdate c d cur).1 = x.get cur := by
  rw [devUpdate_fst]
  exact aw_get_indep x _ _ hL hx (fun ov hov => ho _ (mem_zip_fst hov)) (fun ov hov => hi _ (mem_zip_fst hov))

/-- the frame keeps its length, and a variable independent of every output reads the same afterwards -/
theorem devs_frame (devs : List Dev) (cur : Frame) (hL : cur.length = L)
    (ho : ∀ d ∈ devs, ∀ x ∈ d.outs, Var.inB L x) :
    (devsUpdate c devs cur).1.length = L ∧
    ∀ x, Var.inB L x → (∀ d ∈ devs, ∀ w ∈ d.outs, indep x w = true) → x.get (devsUpdate c devs cur).1 = x.get cur := by
  induction devs generalizing cur with
  | nil => exact ⟨hL, fun _ _ _ => rfl⟩
  | cons d ds ih =>
    simp only [devsUpdate_cons]
    have hd := dev_length c d cur hL (ho d (by simp))
    obtain ⟨h1, h2⟩ := ih (devUpdate c d cur).1 hd (fun d' hd' => ho d' (by simp [hd']))
    refine ⟨h1, fun x hx hi => ?_⟩
    rw [h2 x hx (fun d' hd' => hi d' (by simp [hd']))]
    exact dev_get_indep c d cur hL (ho d (by simp)) x hx (hi d (by simp))

/-- every device reads its inputs from the frame the loop started with -/
theorem devs_seen (devs : List Dev) (cur : Frame) (hL : cur.length = L)
    (hi : ∀ d ∈ devs, ∀ x ∈ d.ins, Var.inB L x) (ho : ∀ d ∈ devs, ∀ x ∈ d.outs, Var.inB L x)
    (hio : ∀ d ∈ devs, ∀ x ∈ d.ins, ∀ d' ∈ devs, ∀ w ∈ d'.outs, indep x w = true) :
    (devsUpdate c devs cur).2 = devs.map (fun d => d.ins.map (·.get cur)) := by
  induction devs generalizing cur with
  | nil => rfl
  | cons d ds ih =>
    simp only [devsUpdate_cons, List.map_cons, devUpdate_snd]
    congr 1
    have hd := dev_length c d cur hL (ho d (by simp))
    rw [ih (devUpdate c d cur).1 hd (fun d' hd' => hi d' (by simp [hd'])) (fun d' hd' => ho d' (by simp [hd']))
      (fun a ha x hx b hb => hio a (by simp [ha]) x hx b (by simp [hb]))]
    apply List.map_congr_left
    intro d' hd'
    apply List.map_congr_left
    intro x hx
    exact dev_get_indep c d cur hL (ho d (by simp)) x (hi d' (by simp [hd']) x hx)
      (hio d' (by simp [hd']) x hx d (by simp))

/-- what a device wrote is still there after the remaining devices ran -/
theorem devs_outs (devs : List Dev) (cur : Frame) (hL : cur.length = L)
    (hi : ∀ d ∈ devs, ∀ x ∈ d.ins, Var.inB L x) (ho : ∀ d ∈ devs, ∀ x ∈ d.outs, Var.inB L x)
    (hio : ∀ d ∈ devs, ∀ x ∈ d.ins, ∀ d' ∈ devs, ∀ w ∈ d'.outs, indep x w = true)
    (hoo : (devs.flatMap (·.outs)).Pairwise IndepR) :
    ∀ d ∈ devs, ∀ ov ∈ d.outs.zip (d.f (d.ins.map (·.get cur)) c),
      ov.1.get (devsUpdate c devs cur).1 = ov.1.norm ov.2 := by
  induction devs generalizing cur with
  | nil => intro d hd; simp at hd
  | cons d0 ds ih =>
    intro d hd ov hov
    simp only [devsUpdate_cons]
    simp only [List.flatMap_cons, List.pairwise_append] at hoo
    obtain ⟨hp0, hps, hcross⟩ := hoo
    have hd0 := dev_length c d0 cur hL (ho d0 (by simp))
    have hrest := devs_frame c ds (devUpdate c d0 cur).1 hd0 (fun d' hd' => ho d' (by simp [hd']))
    rcases List.mem_cons.1 hd with rfl | hd
    · -- the head device: written now, untouched by the others
      have hov1 : ov.1 ∈ d.outs := mem_zip_fst hov
      rw [hrest.2 ov.1 (ho d (by simp) _ hov1)
        (fun d' hd' w hw => hcross _ hov1 _ (List.mem_flatMap.2 ⟨d', hd', hw⟩))]
      rw [devUpdate_fst]
      exact aw_get_written _ _ hL (fun o ho' => ho d (by simp) _ (mem_zip_fst ho'))
        (List.Pairwise.sublist (zip_fst_sublist _ _) hp0) ov hov
    · -- a later device: it reads the same inputs as at the start of the loop
      have hsame : d.ins.map (·.get (devUpdate c d0 cur).1) = d.ins.map (·.get cur) := by
        apply List.map_congr_left
        intro x hx
        exact dev_get_indep c d0 cur hL (ho d0 (by simp)) x (hi d (by simp [hd]) x hx)
          (hio d (by simp [hd]) x hx d0 (by simp))
      have := ih (devUpdate c d0 cur).1 hd0 (fun d' hd' => hi d' (by simp [hd'])) (fun d' hd' => ho d' (by simp [hd']))
        (fun a ha x hx b hb => hio a (by simp [ha]) x hx b (by simp [hb])) hps d hd
      rw [hsame] at this
      exact this ov hov

end devs

/-! ### one cycle: `update_devices` and the re-send -/

theorem mem_allIns {cfg : Cfg} {d : Dev} {x : Var} (hd : d ∈ cfg.devs) (hx : x ∈ d.ins) : x ∈ allIns cfg :=
  List.mem_flatMap.2 ⟨d, hd, hx⟩
theorem mem_allOuts {cfg : Cfg} {d : Dev} {x : Var} (hd : d ∈ cfg.devs) (hx : x ∈ d.outs) : x ∈ allOuts cfg :=
  List.mem_flatMap.2 ⟨d, hd, hx⟩


section cycle
variable {cfg : Cfg} {L : Nat} (hlay : Layout cfg L) (st : St) (data : Frame) (hd : data.length = L)
include hlay hd

omit hlay hd in
theorem updateDevices_cur : (updateDevices cfg st data).cur =
    (devsUpdate st.cycle cfg.devs (applyWrites (clears cfg.counters) data)).1 := by
  simp [updateDevices, checkCounters_eq]

omit hlay hd in
theorem updateDevices_seen : (updateDevices cfg st data).seen =
    st.seen ++ [(devsUpdate st.cycle cfg.devs (applyWrites (clears cfg.counters) data)).2] := by
  simp [updateDevices, checkCounters_eq]

theorem cleared_length : (applyWrites (clears cfg.counters) data).length = L := by
  apply aw_length _ _ hd
  intro ov hov
  simp only [clears, List.mem_map] at hov
  obtain ⟨pc, hpc, rfl⟩ := hov
  exact hlay.1 _ (List.mem_map_of_mem hpc)

/-- an input variable reads from the cleared frame what it reads from the response -/
theorem cleared_get_in (x : Var) (hx : x ∈ allIns cfg) :
    x.get (applyWrites (clears cfg.counters) data) = x.get data := by
  apply aw_get_indep x _ _ hd (hlay.2.1 x hx)
  · intro ov hov
    simp only [clears, List.mem_map] at hov
    obtain ⟨pc, hpc, rfl⟩ := hov
    exact hlay.1 _ (List.mem_map_of_mem hpc)
  · intro ov hov
    simp only [clears, List.mem_map] at hov
    obtain ⟨pc, hpc, rfl⟩ := hov
    exact hlay.2.2.2.2.1 x hx _ (List.mem_map_of_mem hpc)

theorem seen_eq : (devsUpdate st.cycle cfg.devs (applyWrites (clears cfg.counters) data)).2 =
    cfg.devs.map (fun d => d.ins.map (·.get data)) := by
  rw [devs_seen st.cycle cfg.devs _ (cleared_length hlay data hd)
    (fun d hd' x hx => hlay.2.1 x (mem_allIns hd' hx))
    (fun d hd' x hx => hlay.2.2.1 x (mem_allOuts hd' hx))
    (fun d hd' x hx d' hd'' w hw => hlay.2.2.2.2.2.1 x (mem_allIns hd' hx) w (mem_allOuts hd'' hw))]
  apply List.map_congr_left
  intro d hd'
  apply List.map_congr_left
  intro x hx
  exact cleared_get_in hlay data hd x (mem_allIns hd' hx)

/-- **inputs_visible** — in the cycle of a response every device's `update()` reads, at each of its
input variables, exactly the bytes of that response -/
theorem inputs_visible :
    (step cfg st (.resp data)).seen = st.seen ++ [cfg.devs.map (fun d => d.ins.map (·.get data))] := by
  show (updateDevices cfg st data).seen = _
  rw [updateDevices_seen, seen_eq hlay st data hd]

/-- **outputs_next_frame** — the frame sent next is `current_data` after the device loop, and every
output variable a device set reads there what the device wrote (the value computed from the inputs
of this response) -/
theorem outputs_next_frame :
    (step cfg st (.resp data)).sent = st.sent ++ [(step cfg st (.resp data)).cur] ∧
    (step cfg st (.resp data)).last = (step cfg st (.resp data)).cur ∧
    ∀ d ∈ cfg.devs, ∀ ov ∈ d.outs.zip (d.f (d.ins.map (·.get data)) st.cycle),
      ov.1.get (step cfg st (.resp data)).cur = ov.1.norm ov.2 := by
  refine ⟨rfl, rfl, ?_⟩
  intro d hd' ov hov
  show ov.1.get (updateDevices cfg st data).cur = _
  rw [updateDevices_cur]
  have hsame : d.ins.map (·.get (applyWrites (clears cfg.counters) data)) = d.ins.map (·.get data) := by
    apply List.map_congr_left
    intro x hx
    exact cleared_get_in hlay data hd x (mem_allIns hd' hx)
  have := devs_outs st.cycle cfg.devs _ (cleared_length hlay data hd)
    (fun d hd' x hx => hlay.2.1 x (mem_allIns hd' hx))
    (fun d hd' x hx => hlay.2.2.1 x (mem_allOuts hd' hx))
    (fun d hd' x hx d' hd'' w hw => hlay.2.2.2.2.2.1 x (mem_allIns hd' hx) w (mem_allOuts hd'' hw))
    hlay.2.2.2.2.2.2.2 d hd'
  rw [hsame] at this
  exact this ov hov

theorem step_length : (step cfg st (.resp data)).cur.length = L := by
  show (updateDevices cfg st data).cur.length = L
  rw [updateDevices_cur]
  exact (devs_frame st.cycle cfg.devs _ (cleared_length hlay data hd)
    (fun d hd' x hx => hlay.2.2.1 x (mem_allOuts hd' hx))).1

/-- **wkc_cleared** (one cycle) — in the frame sent after a response every working counter is zero -/
theorem wkc_cleared_step : ∀ pc ∈ cfg.counters, wkcAt (step cfg st (.resp data)).cur pc.1 = 0 := by
  intro pc hpc
  show wkcAt (updateDevices cfg st data).cur pc.1 = 0
  rw [updateDevices_cur, wkcAt_eq_get]
  have hcv : cvar pc ∈ counterVars cfg := List.mem_map_of_mem hpc
  rw [(devs_frame st.cycle cfg.devs _ (cleared_length hlay data hd)
    (fun d hd' x hx => hlay.2.2.1 x (mem_allOuts hd' hx))).2 (cvar pc) (hlay.1 _ hcv)
    (fun d hd' w hw => by rw [indep_symm]; exact hlay.2.2.2.2.2.2.1 w (mem_allOuts hd' hw) _ hcv)]
  have := aw_get_written (clears cfg.counters) data hd
    (by
      intro ov hov
      simp only [clears, List.mem_map] at hov
      obtain ⟨pc', hpc', rfl⟩ := hov
      exact hlay.1 _ (List.mem_map_of_mem hpc'))
    (by simpa [clears, List.map_map, Function.comp_def, counterVars] using hlay.2.2.2.1)
    (cvar pc, 0) (by simp only [clears, List.mem_map]; exact ⟨pc, hpc, rfl⟩)
  rw [this]
  simp [Var.norm, cvar]

omit hlay hd in
/-- **error_iff_mismatch** (one cycle) — `wkc_errors` grows by exactly the number of datagrams of this
response whose returned 16-bit counter differs from the expected count; nothing else changes it -/
theorem error_iff_mismatch_step :
    (step cfg st (.resp data)).errors = st.errors + mismatches cfg.counters data ∧
    (step cfg st .timeout).errors = st.errors := by
  refine ⟨?_, rfl⟩
  show (updateDevices cfg st data).errors = _
  simp [updateDevices, checkCounters_eq]

end cycle

/-! ### the loop of `run`: induction over the list of bus events -/

/-- the responses among the events, in order -/
def resps : List Ev → List Frame
  | [] => []
  | .resp d :: t => d :: resps t
  | .timeout :: t => resps t

def timeouts : List Ev → Nat
  | [] => 0
  | .resp _ :: t => timeouts t
  | .timeout :: t => timeouts t + 1

/-- every response has the length of the frame -/
def RespLen (L : Nat) (evs : List Ev) : Prop := ∀ d, Ev.resp d ∈ evs → d.length = L

/-- all working counters of the frame are zero -/
def ClearedF (cfg : Cfg) (f : Frame) : Prop := ∀ pc ∈ cfg.counters, wkcAt f pc.1 = 0

section loop
variable {cfg : Cfg} {L : Nat}

theorem runFrom_cons (st : St) (e : Ev) (evs : List Ev) :
    runFrom cfg st (e :: evs) = runFrom cfg (step cfg st e) evs := rfl

theorem runFrom_append (st : St) (a b : List Ev) :
    runFrom cfg st (a ++ b) = runFrom cfg (runFrom cfg st a) b := by
  simp [runFrom, List.foldl_append]

theorem respLen_tail {e : Ev} {evs : List Ev} (h : RespLen L (e :: evs)) : RespLen L evs :=
  fun d hd => h d (List.mem_cons_of_mem _ hd)

theorem seen_from (hlay : Layout cfg L) (evs : List Ev) (st : St) (hlen : RespLen L evs) :
    (runFrom cfg st evs).seen =
      st.seen ++ (resps evs).map (fun data => cfg.devs.map (fun d => d.ins.map (·.get data))) := by
  induction evs generalizing st with
  | nil => simp [runFrom, resps]
  | cons e evs ih =>
    rw [runFrom_cons, ih _ (respLen_tail hlen)]
    cases e with
    | resp d =>
      rw [inputs_visible hlay st d (hlen d (by simp))]
      simp [resps]
    | timeout => simp [resps, step]

theorem errors_from (evs : List Ev) (st : St) :
    (runFrom cfg st evs).errors = st.errors + ((resps evs).map (mismatches cfg.counters)).sum ∧
    (runFrom cfg st evs).missed = st.missed + timeouts evs := by
  induction evs generalizing st with
  | nil => simp [runFrom, resps, timeouts]
  | cons e evs ih =>
    rw [runFrom_cons, (ih _).1, (ih _).2]
    cases e with
    | resp d =>
      rw [(error_iff_mismatch_step st d).1]
      simp only [resps, timeouts, List.map_cons, List.sum_cons]
      refine ⟨by omega, rfl⟩
    | timeout =>
      exact ⟨by simp [resps, step], by simp [timeouts, step]; omega⟩

theorem sent_length_from (evs : List Ev) (st : St) :
    (runFrom cfg st evs).sent.length = st.sent.length + evs.length := by
  induction evs generalizing st with
  | nil => rfl
  | cons e evs ih =>
    rw [runFrom_cons, ih]
    cases e <;> simp [step, updateDevices] <;> omega

/-- once the data to be sent has cleared counters, every further frame has -/
theorem sent_from (hlay : Layout cfg L) (evs : List Ev) (st : St) (hlen : RespLen L evs)
    (hc : ClearedF cfg st.last) :
    ∃ tail, (runFrom cfg st evs).sent = st.sent ++ tail ∧ tail.length = evs.length ∧
      (∀ f ∈ tail, ClearedF cfg f) ∧ ClearedF cfg (runFrom cfg st evs).last := by
  induction evs generalizing st with
  | nil => exact ⟨[], by simp [runFrom], rfl, by simp, hc⟩
  | cons e evs ih =>
    rw [runFrom_cons]
    cases e with
    | resp d =>
      have hd := hlen d (by simp)
      have hcl : ClearedF cfg (step cfg st (.resp d)).cur := wkc_cleared_step hlay st d hd
      obtain ⟨h1, h2, _⟩ := outputs_next_frame hlay st d hd
      obtain ⟨tail, t1, t2, t3, t4⟩ := ih (step cfg st (.resp d)) (respLen_tail hlen) (h2 ▸ hcl)
      refine ⟨(step cfg st (.resp d)).cur :: tail, ?_, by simp [t2], ?_, t4⟩
      · rw [t1, h1]; simp
      · intro f hf
        rcases List.mem_cons.1 hf with rfl | hf
        · exact hcl
        · exact t3 f hf
    | timeout =>
      obtain ⟨tail, t1, t2, t3, t4⟩ := ih (step cfg st .timeout) (respLen_tail hlen) hc
      refine ⟨st.last :: tail, ?_, by simp [t2], ?_, t4⟩
      · rw [t1]; simp [step]
      · intro f hf
        rcases List.mem_cons.1 hf with rfl | hf
        · exact hc
        · exact t3 f hf

theorem sent_timeouts (evs : List Ev) (st : St) (h : ∀ e ∈ evs, e = Ev.timeout) :
    (runFrom cfg st evs).sent = st.sent ++ List.replicate evs.length st.last ∧
    (runFrom cfg st evs).last = st.last := by
  induction evs generalizing st with
  | nil => simp [runFrom]
  | cons e evs ih =>
    have he := h e (by simp)
    subst he
    rw [runFrom_cons]
    obtain ⟨a, b⟩ := ih (step cfg st .timeout) (fun e he => h e (by simp [he]))
    rw [a, b]
    simp [step, List.replicate_succ]

theorem last_from (evs : List Ev) (st : St) (h : st.sent.getLast? = some st.last) :
    (runFrom cfg st evs).sent.getLast? = some (runFrom cfg st evs).last := by
  induction evs generalizing st with
  | nil => exact h
  | cons e evs ih =>
    rw [runFrom_cons]
    apply ih
    cases e <;> simp [step]

/-! ### the property -/

/-- **inputs_visible** — over a whole run: the k-th `update_devices` call is the one of the k-th
response, and in it every device reads at its input variables exactly the bytes of that response
(the latest one), whatever happened before and however many timeouts lie in between -/
theorem inputs_visible_run (hlay : Layout cfg L) (asm : Frame) (evs : List Ev) (hlen : RespLen L evs) :
    (run cfg asm evs).seen = (resps evs).map (fun data => cfg.devs.map (fun d => d.ins.map (·.get data))) := by
  have := seen_from hlay evs (init asm) hlen
  simpa [run, init] using this

/-- **error_iff_mismatch** — `wkc_errors` is `initialErrors` (= 1, set after the OPERATIONAL request)
plus, for every response, the number of datagrams whose returned 16-bit counter differs from the
expected count — the first response included; `missed_counter` counts the timeouts -/
theorem error_iff_mismatch (asm : Frame) (evs : List Ev) :
    (run cfg asm evs).errors = initialErrors + ((resps evs).map (mismatches cfg.counters)).sum ∧
    (run cfg asm evs).missed = timeouts evs := by
  have := errors_from (cfg := cfg) evs (init asm)
  simpa [run, init] using this

/-- **wkc_cleared** — every frame sent after a response has been processed (the frame answering that
response and everything after it, re-sends after timeouts included) has all working counters zero -/
theorem wkc_cleared (hlay : Layout cfg L) (asm : Frame) (pre : List Ev) (d : Frame) (post : List Ev)
    (hlen : RespLen L (pre ++ Ev.resp d :: post)) :
    ∃ tail, (run cfg asm (pre ++ Ev.resp d :: post)).sent = (run cfg asm pre).sent ++ tail ∧
      (run cfg asm pre).sent.length = 1 + pre.length ∧ tail.length = 1 + post.length ∧
      ∀ f ∈ tail, ClearedF cfg f := by
  have hd : d.length = L := hlen d (by simp)
  have hpost : RespLen L post := fun x hx => hlen x (by simp [hx])
  have hpre : (run cfg asm pre).sent.length = 1 + pre.length := by
    have := sent_length_from (cfg := cfg) pre (init asm)
    simpa [run, init, Nat.add_comm] using this
  unfold run at hpre ⊢
  rw [runFrom_append, runFrom_cons]
  generalize runFrom cfg (init asm) pre = st0 at hpre ⊢
  have hcl : ClearedF cfg (step cfg st0 (.resp d)).cur := wkc_cleared_step hlay st0 d hd
  obtain ⟨h1, h2, _⟩ := outputs_next_frame hlay st0 d hd
  obtain ⟨tail, t1, t2, t3, _⟩ := sent_from hlay post (step cfg st0 (.resp d)) hpost (h2 ▸ hcl)
  refine ⟨(step cfg st0 (.resp d)).cur :: tail, ?_, ?_, by simp [t2]; omega, ?_⟩
  · rw [t1, h1]; simp
  · exact hpre
  · intro f hf
    rcases List.mem_cons.1 hf with rfl | hf
    · exact hcl
    · exact t3 f hf

theorem cycle_from (evs : List Ev) (st : St) :
    (runFrom cfg st evs).cycle = st.cycle + (resps evs).length := by
  induction evs generalizing st with
  | nil => rfl
  | cons e evs ih =>
    rw [runFrom_cons, ih]
    cases e <;> simp [step, updateDevices, resps] <;> omega

/-- **outputs_next_frame** — over a whole run: the frame sent in answer to a response is
`current_data` after the device loop; every output variable reads there what its device wrote in
this cycle, computed from the inputs of this response (the device function gets the number of
earlier responses as cycle number) -/
theorem outputs_next_frame_run (hlay : Layout cfg L) (asm : Frame) (pre : List Ev) (d : Frame)
    (hlen : RespLen L (pre ++ [Ev.resp d])) :
    (run cfg asm (pre ++ [Ev.resp d])).sent = (run cfg asm pre).sent ++ [(run cfg asm (pre ++ [Ev.resp d])).cur] ∧
    ∀ dev ∈ cfg.devs, ∀ ov ∈ dev.outs.zip (dev.f (dev.ins.map (·.get d)) (resps pre).length),
      ov.1.get (run cfg asm (pre ++ [Ev.resp d])).cur = ov.1.norm ov.2 := by
  have hd : d.length = L := hlen d (by simp)
  have hc : (run cfg asm pre).cycle = (resps pre).length := by
    have := cycle_from (cfg := cfg) pre (init asm)
    simpa [run, init] using this
  unfold run at hc ⊢
  rw [runFrom_append]
  generalize runFrom cfg (init asm) pre = st0 at hc ⊢
  obtain ⟨h1, _, h3⟩ := outputs_next_frame hlay st0 d hd
  rw [hc] at h3
  exact ⟨h1, h3⟩

/-- a timeout sends the previous frame again, unchanged: outputs stay, counters stay cleared -/
theorem timeout_resends (asm : Frame) (evs : List Ev) :
    ∃ f, (run cfg asm evs).sent.getLast? = some f ∧
      (run cfg asm (evs ++ [Ev.timeout])).sent = (run cfg asm evs).sent ++ [f] := by
  refine ⟨(run cfg asm evs).last, last_from evs (init asm) rfl, ?_⟩
  unfold run
  rw [runFrom_append]
  rfl

/-- before the first response has been processed the assembled packet itself is (re)sent: its
counter fields hold the expected counts `Packet.assemble` put there -/
theorem first_frames (asm : Frame) (evs : List Ev) (h : ∀ e ∈ evs, e = Ev.timeout) :
    (run cfg asm evs).sent = List.replicate (evs.length + 1) asm := by
  have := (sent_timeouts (cfg := cfg) evs (init asm) h).1
  rw [run, this]
  simp [init, List.replicate_succ]

end loop

/-! ### non-vacuity: a concrete layout, devices with byte and bit variables, a run with timeouts,
wrong counters ≥ 256 and a high-byte-only difference -/

def exDevA : Dev :=
  { ins := [.bytes 4 2, .bit 6 3], outs := [.bytes 14 2, .bit 16 0, .bit 16 5],
    f := fun seen c => [seen.sum + c, 1, seen.sum % 2] }
def exDevB : Dev := { ins := [.bytes 7 1], outs := [.bytes 17 1], f := fun seen c => [seen.sum * 3 + c] }
def exCfg : Cfg := { counters := [(10, 1), (20, 2)], devs := [exDevA, exDevB] }
def exAsm : Frame := [0,0,0,0, 0,0,0,0, 0,0, 1,0, 0,0, 0,0,0,0, 0,0, 2,0, 0,0]
/-- inputs 0x1234 / bit 3 / 9, first counter 0x0101 (high byte only differs from 1), second 2 -/
def exResp1 : Frame := [0,0,0,0, 0x34,0x12,8,9, 0,0, 1,1, 0,0, 0,0,0xff,0, 0,0, 2,0, 0,0]
/-- first counter right, second counter 0x0300 -/
def exResp2 : Frame := [0,0,0,0, 1,0,0,2, 0,0, 1,0, 0,0, 0,0,0,0, 0,0, 0,3, 0,0]
def exEvs : List Ev := [.timeout, .resp exResp1, .timeout, .resp exResp2]

example : Layout exCfg 24 := by decide
example : RespLen 24 exEvs := by
  intro d hd
  simp [exEvs] at hd
  rcases hd with rfl | rfl <;> rfl
example : (run exCfg exAsm exEvs).seen = [[[0x1234, 1], [9]], [[1, 0], [2]]] := by decide
example : (run exCfg exAsm exEvs).errors = 1 + 1 + 1 ∧ (run exCfg exAsm exEvs).missed = 2 := by decide
example : (run exCfg exAsm exEvs).sent =
    [exAsm, exAsm,
     [0,0,0,0, 0x34,0x12,8,9, 0,0, 0,0, 0,0, 0x35,0x12,0xff,27, 0,0, 0,0, 0,0],
     [0,0,0,0, 0x34,0x12,8,9, 0,0, 0,0, 0,0, 0x35,0x12,0xff,27, 0,0, 0,0, 0,0],
     [0,0,0,0, 1,0,0,2, 0,0, 0,0, 0,0, 2,0,0x21,7, 0,0, 0,0, 0,0]] := by decide

end Ebv.C30
