import Ebv.Props.C26TVb
/-! C26 translation validation, part c: the control law in the 64-bit temporary (pc 34–66 of `Programs.motorGroup`):
desired velocity, acceleration limits, upper velocity limit.  Register values are tracked through `BitVec.toInt`, which
the bridge lemmas of `Lemmas/XdpInt` turn into the `Int` arithmetic with explicit `wrapS` of `Ebv.Motor.program`. -/
namespace Ebv.C26TV
open Ebv.Ebpf Ebv.XdpRun Ebv.Bytes Ebv.Motor

variable {a : Addrs} {e : Env} {M0 M : W → BitVec 8} {q : List UInt8} {cs : List Nat} {er len : Nat} {R : Nat → W}

theorem wrap64_id (x : Int) (h : -9223372036854775808 ≤ x ∧ x < 9223372036854775808) : wrapS 64 x = x := by
  have e2 : (2 : Int) ^ 64 = 18446744073709551616 := by decide
  have e3 : (2 : Int) ^ (64 - 1) = 9223372036854775808 := by decide
  simp only [wrapS, e2, e3]; split <;> omega

theorem toSigned4_bounds (n : Nat) (h : n < 4294967296) : -2147483648 ≤ toSigned 4 n ∧ toSigned 4 n < 2147483648 := by
  have e : (2 : Nat) ^ (8 * 4 - 1) = 2147483648 := by decide
  have e2 : (2 : Int) ^ (8 * 4) = 4294967296 := by decide
  simp only [toSigned, e, e2]; split <;> omega

theorem toSigned2_bounds (n : Nat) (h : n < 65536) : -32768 ≤ toSigned 2 n ∧ toSigned 2 n < 32768 := by
  have e : (2 : Nat) ^ (8 * 2 - 1) = 32768 := by decide
  have e2 : (2 : Int) ^ (8 * 2) = 65536 := by decide
  simp only [toSigned, e, e2]; split <;> omega

/-- the inputs of the control law as the program reads them from the frame and the DeviceVars -/
def inp (q : List UInt8) (cs : List Nat) : Inputs :=
  ⟨cs.getD 4 0, cs.getD 3 0, toSigned 4 (decLE (slice q 42 46)), toSigned 2 (decLE (slice q 60 62)), cs.getD 2 0,
    cs.getD 1 0, decide (decLE (slice q 41 42) &&& 16 ≠ 0), decide (decLE (slice q 41 42) &&& 8 ≠ 0)⟩

def vD (i : Inputs) : Int := wrapS 64 ((i.gain : Int) * ((i.target : Int) - i.position))

set_option hygiene false in
macro "vsetup" : tactic => `(tactic| (
  ssetup
  have hb42 := decLE_slice_lt' q 42 4 (by omega)
  have hb60 := decLE_slice_lt' q 60 2 (by omega)
  simp only [Nat.reduceAdd, Nat.reducePow] at hb42 hb60
  have hpos := toSigned4_bounds _ hb42
  have hvp := toSigned2_bounds _ hb60))

theorem decLE_slice_lt' (q : List UInt8) (k n : Nat) (h : k + n ≤ q.length) : decLE (slice q k (k + n)) < 256 ^ n := by
  have := decLE_lt (slice q k (k + n))
  rwa [length_slice _ _ _ h, Nat.add_sub_cancel_left] at this

set_option maxRecDepth 4000 in
set_option maxHeartbeats 2000000 in
/-- pc 34–40: r0 := proportional · (target − stepcounter) in 64 bits -/
theorem seg_d (hreg : Regions geo a len) (hrel : MemRel geo a M0 M q cs er len) (h : 63 < len)
    (h7 : R 7 = BitVec.ofNat 64 a.mp) (h9 : R 9 = BitVec.ofNat 64 a.dat) :
    ∃ R', Steps e Programs.motorGroup 7 ⟨R, M, 34⟩ ⟨R', M, 41⟩ ∧
      R' 7 = BitVec.ofNat 64 a.mp ∧ R' 9 = BitVec.ofNat 64 a.dat ∧ (R' 0).toInt = vD (inp q cs) := by
  vsetup
  refine ⟨?R', ⟨7, by omega, fun f => ?eq⟩, ?h7, ?h9, ?v⟩
  case eq =>
    ysim [h7, h9, hlp, hv3, hv4]
    rfl
  case v =>
    simp only [upd_apply, Nat.reduceEqDiff, if_false, if_true]
    rw [tI_mul, tI_sub, tI_ofNat _ (by omega), tI_ofNat _ (by omega), sext32_toInt _ hb42]
    simp only [vD, inp]
    rw [wrap64_id ((cs.getD 3 0 : Int) - toSigned 4 (decLE (slice q 42 46))) (by omega)]
  all_goals simp only [upd_apply, Nat.reduceEqDiff, if_false, h7, h9]

def vR (i : Inputs) : Int := if vD i > i.vprev + i.acc then i.vprev + i.acc else vD i

set_option maxRecDepth 4000 in
set_option maxHeartbeats 2000000 in
/-- pc 41–51: upper acceleration limit -/
theorem seg_acc_hi (hreg : Regions geo a len) (hrel : MemRel geo a M0 M q cs er len) (h : 63 < len)
    (h7 : R 7 = BitVec.ofNat 64 a.mp) (h9 : R 9 = BitVec.ofNat 64 a.dat) (h0 : (R 0).toInt = vD (inp q cs)) :
    ∃ R', Steps e Programs.motorGroup 11 ⟨R, M, 41⟩ ⟨R', M, 52⟩ ∧
      R' 7 = BitVec.ofNat 64 a.mp ∧ R' 9 = BitVec.ofNat 64 a.dat ∧ (R' 0).toInt = vR (inp q cs) := by
  vsetup
  have hsum : ((BitVec.ofNat 64 (decLE (slice q 60 62)) <<< 48).sshiftRight 48 + BitVec.ofNat 64 (cs.getD 2 0)).toInt =
      (inp q cs).vprev + (inp q cs).acc := by
    rw [tI_add, sext16_toInt _ hb60, tI_ofNat _ (by omega)]
    simp only [inp]
    rw [wrap64_id _ (by omega)]
  by_cases hc : vD (inp q cs) ≤ (inp q cs).vprev + (inp q cs).acc
  · refine ⟨?R', ⟨6, by omega, fun f => ?eq⟩, ?h7, ?h9, ?v⟩
    case eq =>
      ysim [h7, h9, hlp, hv2, h0, hsum, hc]
      rfl
    case v =>
      simp only [upd_apply, Nat.reduceEqDiff, if_false, h0, vR]
      rw [if_neg (by omega)]
    all_goals simp only [upd_apply, Nat.reduceEqDiff, if_false, h7, h9]
  · refine ⟨?R2, ⟨11, by omega, fun f => ?eq2⟩, ?h72, ?h92, ?v2⟩
    case eq2 =>
      ysim [h7, h9, hlp, hv2, h0, hsum, hc]
      rfl
    case v2 =>
      simp only [upd_apply, Nat.reduceEqDiff, if_false, if_true, hsum, vR]
      rw [if_pos (by omega)]
    all_goals simp only [upd_apply, Nat.reduceEqDiff, if_false, h7, h9]

def vR2 (i : Inputs) : Int := if wrapS 64 (vR i + i.acc) < i.vprev then i.vprev - i.acc else vR i
def vR3 (i : Inputs) : Int := if vR2 i > i.vmax then i.vmax else vR2 i
def vR4 (i : Inputs) : Int := if wrapS 64 (vR3 i + i.vmax) < 0 then wrapS 64 (0 - (i.vmax : Int)) else vR3 i

set_option maxRecDepth 4000 in
set_option maxHeartbeats 2000000 in
/-- pc 52–63: lower acceleration limit -/
theorem seg_acc_lo (hreg : Regions geo a len) (hrel : MemRel geo a M0 M q cs er len) (h : 63 < len)
    (h7 : R 7 = BitVec.ofNat 64 a.mp) (h9 : R 9 = BitVec.ofNat 64 a.dat) (h0 : (R 0).toInt = vR (inp q cs)) :
    ∃ R', Steps e Programs.motorGroup 12 ⟨R, M, 52⟩ ⟨R', M, 64⟩ ∧
      R' 7 = BitVec.ofNat 64 a.mp ∧ R' 9 = BitVec.ofNat 64 a.dat ∧ (R' 0).toInt = vR2 (inp q cs) := by
  vsetup
  have hs2 : (R 0 + BitVec.ofNat 64 (cs.getD 2 0)).toInt = wrapS 64 (vR (inp q cs) + (inp q cs).acc) := by
    rw [tI_add, h0, tI_ofNat _ (by omega)]; rfl
  have hs3 : ((BitVec.ofNat 64 (decLE (slice q 60 62)) <<< 48).sshiftRight 48).toInt = (inp q cs).vprev :=
    sext16_toInt _ hb60
  have hdiff : ((BitVec.ofNat 64 (decLE (slice q 60 62)) <<< 48).sshiftRight 48 - BitVec.ofNat 64 (cs.getD 2 0)).toInt =
      (inp q cs).vprev - (inp q cs).acc := by
    rw [tI_sub, sext16_toInt _ hb60, tI_ofNat _ (by omega)]
    simp only [inp]
    rw [wrap64_id _ (by omega)]
  by_cases hc : (inp q cs).vprev ≤ wrapS 64 (vR (inp q cs) + (inp q cs).acc)
  · refine ⟨?R', ⟨7, by omega, fun f => ?eq⟩, ?h7, ?h9, ?v⟩
    case eq =>
      ysim [h7, h9, hlp, hv2, hs2, hs3, hc]
      rfl
    case v =>
      simp only [upd_apply, Nat.reduceEqDiff, if_false, h0, vR2]
      rw [if_neg (by omega)]
    all_goals simp only [upd_apply, Nat.reduceEqDiff, if_false, h7, h9]
  · refine ⟨?R2, ⟨12, by omega, fun f => ?eq2⟩, ?h72, ?h92, ?v2⟩
    case eq2 =>
      ysim [h7, h9, hlp, hv2, hs2, hs3, hc]
      rfl
    case v2 =>
      simp only [upd_apply, Nat.reduceEqDiff, if_false, if_true, hdiff, vR2]
      rw [if_pos (by omega)]
    all_goals simp only [upd_apply, Nat.reduceEqDiff, if_false, h7, h9]

set_option maxRecDepth 4000 in
set_option maxHeartbeats 2000000 in
/-- pc 64–66: upper velocity limit -/
theorem seg_vmax_hi (hreg : Regions geo a len) (hrel : MemRel geo a M0 M q cs er len) (h : 63 < len)
    (h7 : R 7 = BitVec.ofNat 64 a.mp) (h9 : R 9 = BitVec.ofNat 64 a.dat) (h0 : (R 0).toInt = vR2 (inp q cs)) :
    ∃ R', Steps e Programs.motorGroup 3 ⟨R, M, 64⟩ ⟨R', M, 67⟩ ∧
      R' 7 = BitVec.ofNat 64 a.mp ∧ R' 9 = BitVec.ofNat 64 a.dat ∧ (R' 0).toInt = vR3 (inp q cs) := by
  vsetup
  have hm : (BitVec.ofNat 64 (cs.getD 1 0)).toInt = (inp q cs).vmax := tI_ofNat _ (by omega)
  by_cases hc : vR2 (inp q cs) ≤ (inp q cs).vmax
  · refine ⟨?R', ⟨2, by omega, fun f => ?eq⟩, ?h7, ?h9, ?v⟩
    case eq =>
      ysim [h7, h9, hv1, h0, hm, hc]
      rfl
    case v =>
      simp only [upd_apply, Nat.reduceEqDiff, if_false, h0, vR3]
      rw [if_neg (by omega)]
    all_goals simp only [upd_apply, Nat.reduceEqDiff, if_false, h7, h9]
  · refine ⟨?R2, ⟨3, by omega, fun f => ?eq2⟩, ?h72, ?h92, ?v2⟩
    case eq2 =>
      ysim [h7, h9, hv1, h0, hm, hc]
      rfl
    case v2 =>
      simp only [upd_apply, Nat.reduceEqDiff, if_false, if_true, hm, vR3]
      rw [if_pos (by omega)]
    all_goals simp only [upd_apply, Nat.reduceEqDiff, if_false, h7, h9]
end Ebv.C26TV
