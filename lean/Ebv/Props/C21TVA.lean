import Ebv.Props.C21TVlib
/-! C21 translation validation for the regenerated bare fast group `Programs.fastA` (write datagrams [(30, 44, 5, 1)], size 32):
the bytecode returns XDP_TX and leaves frame and `wkc_errors` as `Ebv.FastGroup.program` prescribes.
(File generated once from the template in the C21TV work; the numbers are tied to the regenerated geometry by `geometry_ok`.) -/
namespace Ebv.C21TV.fastA
open Ebv.Ebpf Ebv.XdpRun Ebv.Bytes Ebv.C21TV

abbrev geo : Geo := geoOf Programs.fastA_varFd 8

/-- the literals used below are those of the regenerated program -/
theorem geometry_ok : Programs.fastA_varSize = 8 ∧ Programs.fastA_offWkcErrors = 0 ∧ Programs.fastA_size + Consts.ETHERNET_HEADER - 1 = 45 ∧
    Programs.fastA_writers = [(30, 44, 5, 1)] := by decide

variable {a : Addrs} {e : Env} {s : State} {p : List UInt8} {er : Nat} {reg : Nat → Bool}

set_option hygiene false in
macro "psetup" : tactic => `(tactic| (
  have hL' := hL
  have her1 := fun z => err_load (rel1 hL z)
  have hd1 := fun z => (ctx_loads hL z).1
  have he1 := fun z => (ctx_loads hL z).2
  obtain ⟨R, M, pc⟩ := s
  obtain ⟨hpc, hr10, hr1, hreg, hdata, hend, hpkt, hclen, hcnt, hdrop, hlook, htail⟩ := hL
  have hreg' := hreg
  obtain ⟨s1, s2, c1, p1, m0, m1, -, -, -, -, -, -⟩ := hreg'
  simp only [addr, geo, geoOf, Programs.fastA_varFd] at *
  subst hpc
  have hlt : a.dat + p.length < 4294967296 := by rw [← hend]; exact loadN_lt' M 4 _
  have hmp : ¬ a.mp = 0 := by omega
  have herlt : er < 4294967296 := by rw [← hdrop]; exact loadN_lt' M 4 _
  clear hpkt hcnt hdrop hdata hend hclen))

set_option maxRecDepth 4000 in
set_option maxHeartbeats 2000000 in
theorem exit_short (hL : Layout geo a e s p [] er reg) (h : p.length ≤ 45) :
    ∃ R' pc', runXdp e Programs.fastA 30 s = .exit 3 ⟨R', storeN s.mem (BitVec.ofNat 64 (a.stk - 4)) 4 0, pc'⟩ := by
  psetup
  ysim [hr10, hr1, hlook, hmp, hd1, he1, her1]
  exact ⟨_, _, rfl⟩

set_option maxRecDepth 4000 in
set_option maxHeartbeats 2000000 in
theorem exit_noerr (hL : Layout geo a e s p [] er reg) (h : 45 < p.length) (h0 : er = 0) :
    ∃ R' pc', runXdp e Programs.fastA 30 s = .exit 3 ⟨R', storeN s.mem (BitVec.ofNat 64 (a.stk - 4)) 4 0, pc'⟩ := by
  psetup
  ysim [hr10, hr1, hlook, hmp, hd1, he1, her1]
  exact ⟨_, _, rfl⟩

set_option maxRecDepth 4000 in
set_option maxHeartbeats 2000000 in
theorem prologue (hL : Layout geo a e s p [] er reg) (h : 45 < p.length) (h0 : er ≠ 0) :
    ∃ R', Steps e Programs.fastA 20 s ⟨R', storeN s.mem (BitVec.ofNat 64 (a.stk - 4)) 4 0, 20⟩ ∧
      R' 7 = BitVec.ofNat 64 a.mp ∧ R' 9 = BitVec.ofNat 64 a.dat := by
  psetup
  refine ⟨?R', ⟨16, by omega, fun f => ?eq⟩, ?h7, ?h9⟩
  case eq =>
    ysim [hr10, hr1, hlook, hmp, hd1, he1, her1]
    rfl
  all_goals simp only [upd_apply, callR_apply, Nat.reduceEqDiff, Nat.reduceLeDiff, if_true, if_false]

variable {M0 M : W → BitVec 8} {q : List UInt8} {len : Nat} {R : Nat → W}


set_option maxRecDepth 4000 in
set_option maxHeartbeats 2000000 in
/-- `activate` of write datagram 0: command byte 30 := 5, working counter at 44 compared with 1 and cleared -/
theorem seg_act0 (hreg : Regions geo a len) (hrel : MemRel geo a M0 M q [] er len) (h : 45 < len)
    (h7 : R 7 = BitVec.ofNat 64 a.mp) (h9 : R 9 = BitVec.ofNat 64 a.dat) :
    ∃ R' M', Steps e Programs.fastA 6 ⟨R, M, 20⟩ ⟨R', M', 26⟩ ∧
      R' 7 = BitVec.ofNat 64 a.mp ∧ R' 9 = BitVec.ofNat 64 a.dat ∧
      MemRel geo a M0 M' (actP q 30 44 5) [] (actE q 44 1 er) len := by
  have hlp := hrel.load_pkt
  have hle := err_load hrel
  have hplen := hrel.plen
  have hreg' := hreg
  obtain ⟨s1, s2, c1, p1, m0, m1, -, -, -, -, -, -⟩ := hreg'
  have hbw := decLE_slice_bound q 44 2 (by omega)
  simp only [Nat.reduceAdd, Nat.reducePow] at hbw
  unfold actE
  simp only [Nat.reduceAdd]
  by_cases hw : decLE (slice q 44 46) = 1
  · refine ⟨?R', ?M', ⟨4, by omega, fun f => ?eq⟩, ?h7, ?h9, ?rel⟩
    case eq =>
      ysim [h7, h9, hlp, hle, ld_map0_st_pkt hreg, hw]
      rfl
    case rel => rw [if_pos hw]; exact rel_act_ok hreg hrel 30 44 5 (by omega) (by omega)
    all_goals simp only [upd_apply, Nat.reduceEqDiff, if_false, h7, h9]
  · refine ⟨?R2, ?M2, ⟨6, by omega, fun f => ?eq2⟩, ?h72, ?h92, ?rel2⟩
    case eq2 =>
      ysim [h7, h9, hlp, hle, ld_map0_st_pkt hreg, hw]
      rfl
    case rel2 => rw [if_neg hw]; exact rel_act_err hreg hrel 30 44 5 (er + 1) (by omega) (by omega)
    all_goals simp only [upd_apply, Nat.reduceEqDiff, if_false, h7, h9]


set_option maxRecDepth 4000 in
theorem seg_ret (R : Nat → W) (M : W → BitVec 8) :
    Steps e Programs.fastA 1 ⟨R, M, 26⟩ ⟨upd R 0 3#64, M, 27⟩ ∧
    ∀ f, runXdp e Programs.fastA (f + 1) ⟨upd R 0 3#64, M, 27⟩ = .exit 3#64 ⟨upd R 0 3#64, M, 27⟩ := by
  refine ⟨⟨1, by omega, fun f => ?_⟩, fun f => ?_⟩
  · ysim []
  · ysim []

/-- the write datagrams of the regenerated group, as `Ebv.FastGroup` sees them -/
def writers : List FastGroup.Writer := Programs.fastA_writers.map fun w => ⟨w.1, w.2.1, w.2.2.1, w.2.2.2⟩

theorem fast_eq (p : List UInt8) (er : Nat) (h : 45 < p.length) (her : er ≠ 0) :
    FastGroup.program writers Programs.fastA_size p er = ((actP p 30 44 5), (actE p 44 1 er)) := by
  simp only [FastGroup.program, writers, Programs.fastA_writers, Programs.fastA_size, Consts.ETHERNET_HEADER, List.map,
    FastGroup.activateAll, her, if_false]
  rw [if_neg (by omega)]
  rw [activateOne_eq p 30 44 5 1 _ (by omega) (by omega) (by omega)]

/-- **Translation validation of `Programs.fastA`, enabled pass** (frame longer than 45 bytes, `wkc_errors ≠ 0`) -/
theorem refines (hL : Layout geo a e s p [] er reg) (hlen : 45 < p.length) (her : er ≠ 0) (fuel : Nat)
    (hf : 60 ≤ fuel) :
    ∃ s', runXdp e Programs.fastA fuel s = .exit 3#64 s' ∧
      MemRel geo a s.mem s'.mem (FastGroup.program writers Programs.fastA_size p er).1 []
        (FastGroup.program writers Programs.fastA_size p er).2 p.length := by
  rw [fast_eq p er hlen her]
  have hreg := hL.regions
  obtain ⟨R0, st, h7, h9⟩ := prologue hL hlen her
  have rel := rel1 hL 0
  obtain ⟨R1, M1, st1, h7, h9, rel⟩ := seg_act0 (e := e) hreg rel hlen h7 h9
  have st := st.trans st1
  obtain ⟨str, hx⟩ := seg_ret (e := e) R1 M1
  exact ⟨_, (st.trans str).exit hx fuel (by omega), rel⟩

/-- **idle pass**: a short frame or `wkc_errors = 0`: XDP_TX, nothing changes -/
theorem idle (hL : Layout geo a e s p [] er reg) (h : p.length ≤ 45 ∨ er = 0) (fuel : Nat) (hf : 60 ≤ fuel) :
    ∃ s', runXdp e Programs.fastA fuel s = .exit 3#64 s' ∧
      MemRel geo a s.mem s'.mem (FastGroup.program writers Programs.fastA_size p er).1 []
        (FastGroup.program writers Programs.fastA_size p er).2 p.length := by
  have hfp : FastGroup.program writers Programs.fastA_size p er = (p, er) := by
    unfold FastGroup.program
    rcases h with h | h
    · rw [if_pos (by simp only [Programs.fastA_size, Consts.ETHERNET_HEADER]; omega)]
    · subst h; split <;> rfl
  rw [hfp]
  have key : ∃ R' pc', runXdp e Programs.fastA 30 s =
      .exit 3 ⟨R', storeN s.mem (BitVec.ofNat 64 (a.stk - 4)) 4 0, pc'⟩ := by
    by_cases hs : p.length ≤ 45
    · exact exit_short hL hs
    · exact exit_noerr hL (by omega) (by omega)
  obtain ⟨R', pc', hk⟩ := key
  obtain ⟨j, rfl⟩ : ∃ j, fuel = 30 + j := ⟨fuel - 30, by omega⟩
  refine ⟨⟨R', storeN s.mem (BitVec.ofNat 64 (a.stk - 4)) 4 0, pc'⟩, ?_, rel1 hL 0⟩
  rw [runXdp_add e _ 30 j s (by rw [hk]; exact fun hc => by cases hc), hk]
  rfl

end Ebv.C21TV.fastA
