import Ebv.Lemmas.SendLoopPack
/-! C12 — every datagram request gets exactly its own response.
All theorems are about `Ebv.SendLoop.run init evs` for every event list `evs` (any number of
requests of any size, cancellations anywhere, any response bytes, loss, duplication, reordering). -/
namespace Ebv.C12
open Ebv.SendLoop Ebv.Consts Ebv.Bytes

/-! ### how the events move the fields -/

theorem deliver_futs (f : Nat) (d : List UInt8) (s : St) : (deliver f d s).futs = s.futs := by
  unfold deliver; split
  · rfl
  · split <;> rfl

theorem deliver_sent (f : Nat) (d : List UInt8) (s : St) : (deliver f d s).sent = s.sent := by
  unfold deliver; split
  · rfl
  · split <;> rfl

theorem deliver_queue (f : Nat) (d : List UInt8) (s : St) : (deliver f d s).queue = s.queue := by
  unfold deliver; split
  · rfl
  · split <;> rfl

theorem deliver_subs (f : Nat) (d : List UInt8) (s : St) : (deliver f d s).subs = s.subs := by
  unfold deliver; split
  · rfl
  · split <;> rfl

theorem quiesce_queue (s : St) : (quiesce s).queue = [] := by
  unfold quiesce; rw [(drain_fields _ _ _ _).1]

theorem quiesce_subs (s : St) : (quiesce s).subs = s.subs := by
  unfold quiesce; rw [(drain_fields _ _ _ _).2.1]

theorem quiesce_arrived (s : St) : (quiesce s).arrived = [] := by
  unfold quiesce; rw [(drain_fields _ _ _ _).2.2.1]

theorem quiesce_sent (s : St) : (quiesce s).sent = s.sent ++ pack s.queue [] PACKET_HEADER s.sent.length := by
  unfold quiesce; rw [(drain_fields _ _ _ _).2.2.2.1]

theorem quiesce_waiting (s : St) :
    (quiesce s).waiting = s.waiting ++ pack s.queue [] PACKET_HEADER s.sent.length := by
  unfold quiesce; rw [(drain_fields _ _ _ _).2.2.2.2]

theorem quiesce_ext (s : St) : Ext s.futs (quiesce s).futs := by
  unfold quiesce
  exact (ext_processAll s.arrived s.futs).trans
    (ext_drain s.queue [] PACKET_HEADER { s with futs := processAll s.arrived s.futs, arrived := [], queue := [] })

/-- one quiesce, request by request: first the arrived responses, then the `OverflowError`s -/
theorem quiesce_futs_get (s : St) (x : Rid) :
    (quiesce s).futs.get x =
      if (processAll s.arrived s.futs).get x = some .pending ∧ oversizeIn s.queue x = true then some .overflow
      else (processAll s.arrived s.futs).get x := by
  unfold quiesce
  rw [drain_futs_get _ _ _ _ dinv_nil]

/-! ### sent exactly once, in submission order -/

/-- the requests that are or will be on the wire, in order: those sent, then the sendable ones queued -/
def line (s : St) : List Rid := sentRids s ++ sendableRids s.queue

/-- what an event adds to the line: a `submit` of an unused name whose datagram fits an empty packet -/
def accepts (s : St) : Ev → List Rid
  | .submit r len => if (s.futs.get r).isNone && sendable len then [r] else []
  | _ => []

/-- the accepted sendable submissions of a run, in order -/
def accepted (s : St) : List Ev → List Rid
  | [] => []
  | e :: es => accepts s e ++ accepted (step s e) es

theorem sendableRids_append (a b : List (Rid × Nat)) : sendableRids (a ++ b) = sendableRids a ++ sendableRids b := by
  simp [sendableRids]

theorem line_step (s : St) (e : Ev) : line (step s e) = line s ++ accepts s e := by
  cases e with
  | submit r len =>
    simp only [step, accepts]
    by_cases hn : (s.futs.get r).isNone = true
    · simp only [hn, ↓reduceIte, Bool.true_and, line, sentRids, sendableRids_append, sendableRids_cons]
      by_cases hs : sendable len = true <;> simp [hs, sendableRids]
    · simp [hn, line]
  | cancel r => simp [step, accepts, line, sentRids]
  | quiesce =>
    simp only [step, accepts, line, sentRids_eq, quiesce_sent, quiesce_queue, ridsOf_append,
      pack_rids _ _ _ _ dinv_nil]
    simp [sendableRids]
  | deliver f d => simp [step, accepts, line, sentRids_eq, deliver_sent, deliver_queue]
  | duplicate f d => simp [step, accepts, line, sentRids_eq, deliver_sent, deliver_queue]
  | lose f => simp [step, accepts, line]

theorem run_cons (s : St) (e : Ev) (es : List Ev) : run s (e :: es) = run (step s e) es := rfl
theorem run_append (s : St) (a b : List Ev) : run s (a ++ b) = run (run s a) b := by
  simp [run, List.foldl_append]

theorem line_run (s : St) (evs : List Ev) : line (run s evs) = line s ++ accepted s evs := by
  induction evs generalizing s with
  | nil => simp [run, accepted]
  | cons e es ih => rw [run_cons, ih, line_step, accepted, List.append_assoc]

/-- **sent once, in order.**  At any moment the requests on the wire followed by the sendable ones
still queued are exactly the accepted sendable submissions, in submission order — whether or not
they were cancelled in the meantime (`sendloop` does not look at the future before packing). -/
theorem sent_once_in_order (evs : List Ev) :
    sentRids (run init evs) ++ sendableRids (run init evs).queue = accepted init evs := by
  have := line_run init evs
  simpa [line, sentRids, init, sendableRids] using this

theorem accepted_append (s : St) (a b : List Ev) : accepted s (a ++ b) = accepted s a ++ accepted (run s a) b := by
  induction a generalizing s with
  | nil => simp [accepted, run]
  | cons e es ih => simp [accepted, run_cons, ih]

/-- after a quiesce nothing is left in the queue: everything sendable that was submitted is on the wire -/
theorem sent_after_quiesce (evs : List Ev) :
    (run init (evs ++ [.quiesce])).queue = [] ∧ sentRids (run init (evs ++ [.quiesce])) = accepted init evs := by
  have hq : (run init (evs ++ [.quiesce])).queue = [] := by
    rw [run_append]; exact quiesce_queue _
  refine ⟨hq, ?_⟩
  have := sent_once_in_order (evs ++ [.quiesce])
  rw [hq, accepted_append] at this
  simpa [sendableRids, accepted, accepts] using this

/-! ### completes at most once -/

theorem step_stable (s : St) (e : Ev) {r : Rid} {v : Fut} (h : s.futs.get r = some v) (hv : v ≠ .pending) :
    (step s e).futs.get r = some v := by
  cases e with
  | submit r' len =>
    simp only [step]
    by_cases hn : (s.futs.get r').isNone = true
    · simp only [hn, ↓reduceIte, Futs.get_set]
      have : r ≠ r' := by rintro rfl; rw [h] at hn; simp at hn
      simp [this, h]
    · simp [hn, h]
  | cancel r' => exact (ext_settle s.futs r' .cancelled).stable h hv
  | quiesce => exact (quiesce_ext s).stable h hv
  | deliver f d => simp only [step, deliver_futs]; exact h
  | duplicate f d => simp only [step, deliver_futs]; exact h
  | lose f => exact h

/-- **completes at most once.**  Once a request has an outcome (result, error or cancelled) no later
event of any kind changes it. -/
theorem completes_at_most_once (evs more : List Ev) (r : Rid) (v : Fut)
    (h : (run init evs).futs.get r = some v) (hv : v ≠ .pending) :
    (run init (evs ++ more)).futs.get r = some v := by
  rw [run_append]
  generalize run init evs = s at h
  induction more generalizing s with
  | nil => exact h
  | cons e es ih => exact ih _ (step_stable s e h hv)

/-! ### invariants of reachable states -/

theorem deliver_cases (f : Nat) (d : List UInt8) (s : St) :
    deliver f d s = s ∨
    ∃ fr, fr ∈ s.waiting ∧ fr.id = f ∧ PACKET_INDEX + 4 ≤ d.length ∧
      deliver f d s = { s with waiting := s.waiting.filter (fun x => x.id != f), arrived := s.arrived ++ [(fr, d)] } := by
  unfold deliver
  by_cases hl : d.length < PACKET_INDEX + 4
  · simp [hl]
  · simp only [hl, ↓reduceIte]
    cases hf : s.waiting.find? (fun fr => fr.id == f) with
    | none => exact Or.inl rfl
    | some fr =>
      refine Or.inr ⟨fr, List.mem_of_find?_eq_some hf, by simpa using List.find?_some hf, by omega, rfl⟩

/-- frames: everything on the wire is well laid out, and what waits or has arrived is on the wire -/
def InvF (s : St) : Prop :=
  (∀ fr ∈ s.sent, FrameOK fr) ∧ (∀ fr ∈ s.waiting, fr ∈ s.sent) ∧ (∀ p ∈ s.arrived, p.1 ∈ s.sent)

theorem invF_init : InvF init := by simp [InvF, init]

theorem invF_step (s : St) (e : Ev) (h : InvF s) : InvF (step s e) := by
  obtain ⟨h1, h2, h3⟩ := h
  have hdel : ∀ f d, InvF (deliver f d s) := by
    intro f d
    rcases deliver_cases f d s with he | ⟨fr, hm, _, _, he⟩
    · rw [he]; exact ⟨h1, h2, h3⟩
    · rw [he]
      refine ⟨h1, fun x hx => h2 x (List.mem_filter.mp hx).1, fun p hp => ?_⟩
      rcases List.mem_append.mp hp with hp | hp
      · exact h3 p hp
      · simp only [List.mem_singleton] at hp; subst hp; exact h2 fr hm
  cases e with
  | submit r len =>
    simp only [step]; split
    · exact ⟨h1, h2, h3⟩
    · exact ⟨h1, h2, h3⟩
  | cancel r => exact ⟨h1, h2, h3⟩
  | quiesce =>
    simp only [step, InvF, quiesce_sent, quiesce_waiting, quiesce_arrived]
    refine ⟨fun fr hfr => ?_, fun fr hfr => ?_, by simp⟩
    · rcases List.mem_append.mp hfr with hfr | hfr
      · exact h1 fr hfr
      · exact pack_ok _ _ _ _ oinv_nil fr hfr
    · rcases List.mem_append.mp hfr with hfr | hfr
      · exact List.mem_append_left _ (h2 fr hfr)
      · exact List.mem_append_right _ hfr
  | deliver f d => exact hdel f d
  | duplicate f d => exact hdel f d
  | lose f => exact ⟨h1, h2, h3⟩

theorem invF_run (s : St) (evs : List Ev) (h : InvF s) : InvF (run s evs) := by
  induction evs generalizing s with
  | nil => exact h
  | cons e es ih => exact ih _ (invF_step s e h)

/-- **frames are well-formed.**  Every frame handed to the transport holds between 1 and
`MAX_DATAGRAMS` datagrams, laid out back to back from the packet header (`start = previous end +
DATAGRAM_HEADER`, working counter at `stop`), and ends within `MAXSIZE`; in particular the
`[start, stop + DATAGRAM_TAIL)` ranges of its requests are disjoint. -/
theorem frames_wellformed (evs : List Ev) : ∀ fr ∈ (run init evs).sent, FrameOK fr :=
  (invF_run init evs invF_init).1

/-- names: no request is twice among the sent and queued ones, and all of them have a future -/
def InvN (s : St) : Prop :=
  (sentRids s ++ s.queue.map (·.1)).Nodup ∧ ∀ x ∈ sentRids s ++ s.queue.map (·.1), (s.futs.get x).isSome = true

theorem invN_init : InvN init := by simp [InvN, init, sentRids]

theorem sendableRids_sublist (q : List (Rid × Nat)) : (sendableRids q).Sublist (q.map (·.1)) :=
  List.Sublist.map _ (List.filter_sublist)

theorem invN_step (s : St) (e : Ev) (h : InvN s) : InvN (step s e) := by
  obtain ⟨h1, h2⟩ := h
  cases e with
  | submit r len =>
    simp only [step]
    by_cases hn : (s.futs.get r).isNone = true
    · simp only [hn, ↓reduceIte, InvN, sentRids]
      have hfresh : r ∉ sentRids s ++ s.queue.map (·.1) := by
        intro hm; have := h2 r hm; rw [Option.isNone_iff_eq_none] at hn; rw [hn] at this; simp at this
      refine ⟨?_, fun x hx => ?_⟩
      · have : (List.flatMap (fun fr => fr.dgs.map (·.rid)) s.sent ++ (s.queue ++ [(r, len)]).map (·.1)) =
            (sentRids s ++ s.queue.map (·.1)) ++ [r] := by simp [sentRids]
        rw [this]
        exact List.nodup_append.mpr ⟨h1, by simp, fun a ha b hb => by
          simp only [List.mem_singleton] at hb; subst hb; rintro rfl; exact hfresh ha⟩
      · simp only [Futs.get_set]
        by_cases hx' : x = r
        · simp [hx']
        · simp only [hx', ↓reduceIte]
          apply h2
          simp only [List.map_append, List.mem_append, List.map_cons, List.map_nil, List.mem_singleton] at hx
          rcases hx with hx | hx | hx
          · exact List.mem_append_left _ hx
          · exact List.mem_append_right _ hx
          · exact absurd hx hx'
    · simp only [hn]; exact ⟨h1, h2⟩
  | cancel r =>
    exact ⟨h1, fun x hx => by rw [show (step s (.cancel r)).futs = settle s.futs r .cancelled from rfl,
      (ext_settle s.futs r .cancelled).isSome]; exact h2 x hx⟩
  | quiesce =>
    have hsub : (sentRids (quiesce s) ++ (quiesce s).queue.map (·.1)).Sublist (sentRids s ++ s.queue.map (·.1)) := by
      rw [quiesce_queue, sentRids_eq, quiesce_sent, ridsOf_append, pack_rids _ _ _ _ dinv_nil]
      simpa [sentRids_eq] using List.Sublist.append_left (sendableRids_sublist s.queue) (ridsOf s.sent)
    exact ⟨h1.sublist hsub, fun x hx => by
      rw [show (step s .quiesce).futs = (quiesce s).futs from rfl, (quiesce_ext s).isSome]
      exact h2 x (hsub.subset hx)⟩
  | deliver f d =>
    simp only [step, InvN, sentRids_eq, deliver_sent, deliver_queue, deliver_futs]; exact ⟨h1, h2⟩
  | duplicate f d =>
    simp only [step, InvN, sentRids_eq, deliver_sent, deliver_queue, deliver_futs]; exact ⟨h1, h2⟩
  | lose f => exact ⟨h1, h2⟩

theorem invN_run (s : St) (evs : List Ev) (h : InvN s) : InvN (run s evs) := by
  induction evs generalizing s with
  | nil => exact h
  | cons e es ih => exact ih _ (invN_step s e h)

/-- **exactly once.**  No request is on the wire twice (in one frame or in two), and none is both on
the wire and still queued. -/
theorem sent_nodup (evs : List Ev) :
    (sentRids (run init evs) ++ (run init evs).queue.map (·.1)).Nodup :=
  (invN_run init evs invN_init).1

/-! ### every outcome is explained by the request's own events -/

/-- the bus handed in `d` as (a copy of) frame `f` -/
def Delivered (E : Ev → Prop) (f : Nat) (d : List UInt8) : Prop := E (.deliver f d) ∨ E (.duplicate f d)

/-- `v` is what a delivered response of a frame that carries `x` holds at `x`'s own datagram -/
def FromResp (E : Ev → Prop) (s : St) (x : Rid) (v : Fut) : Prop :=
  ∃ fr ∈ s.sent, ∃ g ∈ fr.dgs, g.rid = x ∧ ∃ d, Delivered E fr.id d ∧ v = respOutcome d g

/-- why a request has the outcome it has -/
def Explained (E : Ev → Prop) (s : St) (x : Rid) : Fut → Prop
  | .pending => True
  | .cancelled => E (.cancel x)
  | .overflow => ∃ len, (x, len) ∈ s.subs ∧ sendable len = false
  | .result bs => FromResp E s x (.result bs)
  | .ecError => FromResp E s x .ecError
  | .structError => FromResp E s x .structError

theorem respOutcome_cases (d : List UInt8) (g : Dg) :
    (short d g.stop = true ∧ respOutcome d g = .structError) ∨
    (short d g.stop = false ∧ wkcAt d g.stop = 0 ∧ respOutcome d g = .ecError) ∨
    (short d g.stop = false ∧ wkcAt d g.stop ≠ 0 ∧ respOutcome d g = .result (slice d g.start g.stop)) := by
  unfold respOutcome
  by_cases hs : short d g.stop = true
  · simp [hs]
  · by_cases hw : wkcAt d g.stop = 0 <;> simp [hs, hw]

theorem explained_of_fromResp {E : Ev → Prop} {s : St} {x : Rid} {v : Fut} (h : FromResp E s x v) :
    Explained E s x v := by
  obtain ⟨fr, hfr, g, hg, hx, d, hd, hv⟩ := h
  have h' : FromResp E s x v := ⟨fr, hfr, g, hg, hx, d, hd, hv⟩
  rcases respOutcome_cases d g with ⟨_, e⟩ | ⟨_, _, e⟩ | ⟨_, _, e⟩ <;> rw [e] at hv <;> subst hv <;> exact h'

theorem explained_mono {E : Ev → Prop} {s s' : St} {x : Rid} {v : Fut} (h : Explained E s x v)
    (h1 : ∀ fr ∈ s.sent, fr ∈ s'.sent) (h2 : ∀ p ∈ s.subs, p ∈ s'.subs) : Explained E s' x v := by
  have hf : ∀ w, FromResp E s x w → FromResp E s' x w := by
    rintro w ⟨fr, hfr, rest⟩; exact ⟨fr, h1 fr hfr, rest⟩
  cases v with
  | pending => trivial
  | cancelled => exact h
  | overflow => obtain ⟨len, hm, hs⟩ := h; exact ⟨len, h2 _ hm, hs⟩
  | result bs => exact hf _ h
  | ecError => exact hf _ h
  | structError => exact hf _ h

theorem arrOutcome_some {arr : List (Frame × List UInt8)} {x : Rid} {v : Fut} (h : arrOutcome arr x = some v) :
    ∃ p ∈ arr, ∃ g, dgOf p.1.dgs x = some g ∧ v = respOutcome p.2 g := by
  unfold arrOutcome at h
  obtain ⟨p, hp, he⟩ := List.exists_of_findSome?_eq_some h
  cases hd : dgOf p.1.dgs x with
  | none => simp [hd] at he
  | some g => exact ⟨p, hp, g, hd, by simpa [hd] using he.symm⟩

/-- the history invariant: relative to the set `E` of events that happened -/
def Hist (E : Ev → Prop) (s : St) : Prop :=
  InvF s ∧ (∀ p ∈ s.arrived, Delivered E p.1.id p.2) ∧ (∀ q ∈ s.queue, q ∈ s.subs) ∧
  ∀ x v, s.futs.get x = some v → Explained E s x v

theorem hist_init (E : Ev → Prop) : Hist E init := by
  refine ⟨invF_init, ?_, ?_, ?_⟩ <;> simp [init]

theorem hist_step (E : Ev → Prop) (s : St) (e : Ev) (he : E e) (h : Hist E s) : Hist E (step s e) := by
  obtain ⟨hF, hA, hQ, hX⟩ := h
  have hF' := invF_step s e hF
  have hdel : ∀ f d, Delivered E f d → Hist E (deliver f d s) := by
    intro f d hd
    have hF'' : InvF (deliver f d s) := invF_step s (.deliver f d) hF
    rcases deliver_cases f d s with hc | ⟨fr, hm, hid, _, hc⟩
    · rw [hc]; exact ⟨hF, hA, hQ, hX⟩
    · refine ⟨hF'', ?_, ?_, ?_⟩
      · rw [hc]; intro p hp
        rcases List.mem_append.mp hp with hp | hp
        · exact hA p hp
        · simp only [List.mem_singleton] at hp; subst hp; simpa [hid] using hd
      · rw [deliver_queue, deliver_subs]; exact hQ
      · intro x v hv
        rw [deliver_futs] at hv
        exact explained_mono (hX x v hv) (by rw [deliver_sent]; exact fun _ h => h) (by rw [deliver_subs]; exact fun _ h => h)
  cases e with
  | submit r len =>
    simp only [step] at hF' ⊢
    by_cases hn : (s.futs.get r).isNone = true
    · simp only [hn, ↓reduceIte] at hF' ⊢
      refine ⟨hF', hA, ?_, ?_⟩
      · intro q hq
        rcases List.mem_append.mp hq with hq | hq
        · exact List.mem_append_left _ (hQ q hq)
        · exact List.mem_append_right _ hq
      · intro x v hv
        simp only [Futs.get_set] at hv
        by_cases hx : x = r
        · simp only [hx, ↓reduceIte, Option.some.injEq] at hv; subst hv; trivial
        · simp only [hx, ↓reduceIte] at hv
          exact explained_mono (hX x v hv) (fun _ h => h) (fun _ h => List.mem_append_left _ h)
    · simp only [hn]; exact ⟨hF, hA, hQ, hX⟩
  | cancel r =>
    refine ⟨hF', hA, hQ, ?_⟩
    intro x v hv
    rw [show (step s (.cancel r)).futs = settle s.futs r .cancelled from rfl, settle_get] at hv
    by_cases hc : x = r ∧ s.futs.get r = some .pending
    · simp only [hc, and_self, ↓reduceIte, Option.some.injEq] at hv
      subst hv; rw [hc.1]; exact he
    · simp only [hc, ↓reduceIte] at hv
      exact explained_mono (hX x v hv) (fun _ h => h) (fun _ h => h)
  | quiesce =>
    refine ⟨hF', ?_, ?_, ?_⟩
    · simp [step, quiesce_arrived]
    · simp [step, quiesce_queue]
    · intro x v hv
      have hsent : ∀ fr ∈ s.sent, fr ∈ (step s .quiesce).sent := by
        intro fr hfr; simp only [step, quiesce_sent]; exact List.mem_append_left _ hfr
      have hsubs : ∀ p ∈ s.subs, p ∈ (step s .quiesce).subs := by
        intro p hp; simpa [step, quiesce_subs] using hp
      have hmono : ∀ p ∈ s.arrived, Mono p.1.dgs := fun p hp => (hF.1 _ (hF.2.2 p hp)).mono
      rw [show (step s .quiesce).futs = (quiesce s).futs from rfl, quiesce_futs_get] at hv
      by_cases ho : (processAll s.arrived s.futs).get x = some .pending ∧ oversizeIn s.queue x = true
      · simp only [ho, and_self, ↓reduceIte, Option.some.injEq] at hv
        subst hv
        obtain ⟨len, hm, hs⟩ := oversizeIn_iff.mp ho.2
        exact ⟨len, hsubs _ (hQ _ hm), hs⟩
      · simp only [ho, ↓reduceIte] at hv
        rw [processAll_get _ _ hmono] at hv
        by_cases hp : s.futs.get x = some .pending
        · simp only [hp, ↓reduceIte] at hv
          cases ha : arrOutcome s.arrived x with
          | none => simp only [ha, Option.some.injEq] at hv; subst hv; trivial
          | some w =>
            simp only [ha, Option.some.injEq] at hv; subst hv
            obtain ⟨p, hpm, g, hg, hw⟩ := arrOutcome_some ha
            exact explained_of_fromResp ⟨p.1, hsent _ (hF.2.2 p hpm), g, (dgOf_mem hg).1, (dgOf_mem hg).2, p.2, hA p hpm, hw⟩
        · simp only [hp, ↓reduceIte] at hv
          exact explained_mono (hX x v hv) hsent hsubs
  | deliver f d => exact hdel f d (Or.inl he)
  | duplicate f d => exact hdel f d (Or.inr he)
  | lose f => exact ⟨hF, hA, hQ, hX⟩

theorem hist_run (E : Ev → Prop) (s : St) (evs : List Ev) (he : ∀ e ∈ evs, E e) (h : Hist E s) : Hist E (run s evs) := by
  induction evs generalizing s with
  | nil => exact h
  | cons e es ih =>
    exact ih _ (fun x hx => he x (List.mem_cons_of_mem _ hx)) (hist_step E s e (he e (by simp)) h)

theorem explained (evs : List Ev) (x : Rid) (v : Fut) (h : (run init evs).futs.get x = some v) :
    Explained (· ∈ evs) (run init evs) x v :=
  (hist_run (· ∈ evs) init evs (fun _ h => h) (hist_init _)).2.2.2 x v h

theorem respOutcome_result {d : List UInt8} {g : Dg} {bs : List UInt8} (h : .result bs = respOutcome d g) :
    short d g.stop = false ∧ wkcAt d g.stop ≠ 0 ∧ bs = slice d g.start g.stop := by
  rcases respOutcome_cases d g with ⟨_, e⟩ | ⟨_, _, e⟩ | ⟨h1, h2, e⟩ <;> rw [e] at h
  · cases h
  · cases h
  · exact ⟨h1, h2, by injection h⟩

theorem respOutcome_ecError {d : List UInt8} {g : Dg} (h : .ecError = respOutcome d g) :
    short d g.stop = false ∧ wkcAt d g.stop = 0 := by
  rcases respOutcome_cases d g with ⟨_, e⟩ | ⟨h1, h2, e⟩ | ⟨_, _, e⟩ <;> rw [e] at h
  · cases h
  · exact ⟨h1, h2⟩
  · cases h

/-- **own bytes.**  A request that completed with a result got the bytes at its own `(start, stop)`
of a response that the bus delivered for the frame that carried it, and its own working counter in
that response was not 0. -/
theorem own_bytes (evs : List Ev) (r : Rid) (bs : List UInt8)
    (h : (run init evs).futs.get r = some (.result bs)) :
    ∃ fr ∈ (run init evs).sent, ∃ g ∈ fr.dgs, g.rid = r ∧
      ∃ d, (.deliver fr.id d ∈ evs ∨ .duplicate fr.id d ∈ evs) ∧
        g.stop + 2 ≤ d.length ∧ wkcAt d g.stop ≠ 0 ∧ bs = slice d g.start g.stop := by
  obtain ⟨fr, hfr, g, hg, hr, d, hd, hv⟩ := explained evs r _ h
  obtain ⟨h1, h2, h3⟩ := respOutcome_result hv
  exact ⟨fr, hfr, g, hg, hr, d, hd, by simpa [short] using h1, h2, h3⟩

/-- **wkc 0 fails (1).**  `EtherCatError` only for a request whose own working counter was 0 in a
delivered response of its own frame. -/
theorem wkc_zero_fails (evs : List Ev) (r : Rid) (h : (run init evs).futs.get r = some .ecError) :
    ∃ fr ∈ (run init evs).sent, ∃ g ∈ fr.dgs, g.rid = r ∧
      ∃ d, (.deliver fr.id d ∈ evs ∨ .duplicate fr.id d ∈ evs) ∧ g.stop + 2 ≤ d.length ∧ wkcAt d g.stop = 0 := by
  obtain ⟨fr, hfr, g, hg, hr, d, hd, hv⟩ := explained evs r _ h
  obtain ⟨h1, h2⟩ := respOutcome_ecError hv
  exact ⟨fr, hfr, g, hg, hr, d, hd, by simpa [short] using h1, h2⟩

/-- `OverflowError` only for a request whose datagram alone does not fit a frame -/
theorem overflow_only_unsendable (evs : List Ev) (r : Rid) (h : (run init evs).futs.get r = some .overflow) :
    ∃ len, (r, len) ∈ (run init evs).subs ∧ PACKET_HEADER + len + DATAGRAM_HEADER + DATAGRAM_TAIL > MAXSIZE := by
  obtain ⟨len, hm, hs⟩ := explained evs r _ h
  refine ⟨len, hm, ?_⟩
  by_cases hle : PACKET_HEADER + len + DATAGRAM_HEADER + DATAGRAM_TAIL ≤ MAXSIZE
  · have : sendable len = true := by
      simp only [sendable, fits, dgLen, Bool.and_eq_true, decide_eq_true_eq]
      exact ⟨decide_eq_true (by omega), max_datagrams_pos⟩
    rw [this] at hs; cases hs
  · omega

/-- cancelled only if its own caller was cancelled -/
theorem cancelled_only_own (evs : List Ev) (r : Rid) (h : (run init evs).futs.get r = some .cancelled) :
    .cancel r ∈ evs := explained evs r _ h

/-! ### independence: the outcome of `r` is a function of what belongs to `r` -/

/-- two responses hold the same for request `r` in a frame with datagrams `dgs`: the bytes outside
`r`'s own datagram (other requests' payloads and working counters, headers, padding) may differ -/
def SameFor (r : Rid) (dgs : List Dg) (d d' : List UInt8) : Prop :=
  ∀ g, dgOf dgs r = some g → respOutcome d g = respOutcome d' g

/-- enough for `SameFor`: same presence, same working counter and same payload bytes at `r`'s datagram -/
theorem sameFor_of_bytes {r : Rid} {dgs : List Dg} {d d' : List UInt8}
    (h : ∀ g ∈ dgs, g.rid = r → short d g.stop = short d' g.stop ∧ wkcAt d g.stop = wkcAt d' g.stop ∧
      slice d g.start g.stop = slice d' g.start g.stop) : SameFor r dgs d d' := by
  intro g hg
  obtain ⟨h1, h2, h3⟩ := h g (dgOf_mem hg).1 (dgOf_mem hg).2
  simp [respOutcome, h1, h2, h3]

/-- events that are none of `r`'s business: another caller is cancelled, a frame is lost -/
def Irrelevant (r : Rid) : Ev → Prop
  | .cancel q => q ≠ r
  | .lose _ => True
  | _ => False

/-- the frame and bytes of a delivery -/
def respOf : Ev → Option (Nat × List UInt8)
  | .deliver f d => some (f, d)
  | .duplicate f d => some (f, d)
  | _ => none

/-- `e'` may replace `e` in state `s` as far as `r` is concerned -/
inductive EvRel (r : Rid) (s : St) : Ev → Ev → Prop
  | same (e : Ev) : EvRel r s e e
  | other {e e' : Ev} : Irrelevant r e → Irrelevant r e' → EvRel r s e e'
  | resp {e e' : Ev} (f : Nat) (d d' : List UInt8) : respOf e = some (f, d) → respOf e' = some (f, d') →
      (d.length < PACKET_INDEX + 4 ↔ d'.length < PACKET_INDEX + 4) →
      (∀ fr ∈ s.waiting, fr.id = f → SameFor r fr.dgs d d') → EvRel r s e e'

/-- two runs that differ only in what is none of `r`'s business -/
inductive Sim (r : Rid) : St → List Ev → List Ev → Prop
  | nil (s : St) : Sim r s [] []
  | cons {s : St} {e e' : Ev} {es es' : List Ev} : EvRel r s e e' → Sim r (step s e) es es' → Sim r s (e :: es) (e' :: es')

def ArrRel (r : Rid) (p p' : Frame × List UInt8) : Prop := p.1 = p'.1 ∧ SameFor r p.1.dgs p.2 p'.2

/-- the same frames have arrived, with responses that hold the same for `r` -/
inductive ArrSim (r : Rid) : List (Frame × List UInt8) → List (Frame × List UInt8) → Prop
  | nil : ArrSim r [] []
  | cons {p p' : Frame × List UInt8} {l l' : List (Frame × List UInt8)} :
      ArrRel r p p' → ArrSim r l l' → ArrSim r (p :: l) (p' :: l')

theorem ArrSim.append {r : Rid} {a a' b b' : List (Frame × List UInt8)} (h1 : ArrSim r a a') (h2 : ArrSim r b b') :
    ArrSim r (a ++ b) (a' ++ b') := by
  induction h1 with
  | nil => exact h2
  | cons hp _ ih => exact ArrSim.cons hp ih

/-- the two states agree on everything that can influence `r` -/
def EqOn (r : Rid) (s s' : St) : Prop :=
  s.queue = s'.queue ∧ s.sent = s'.sent ∧ s.waiting = s'.waiting ∧
  ArrSim r s.arrived s'.arrived ∧
  s.futs.get r = s'.futs.get r ∧ ∀ q, (s.futs.get q).isSome = (s'.futs.get q).isSome

theorem arrOutcome_rel {r : Rid} {arr arr' : List (Frame × List UInt8)} (h : ArrSim r arr arr') :
    arrOutcome arr r = arrOutcome arr' r := by
  induction h with
  | nil => rfl
  | @cons p p' l l' hp _ ih =>
    obtain ⟨h1, h2⟩ := hp
    have hhead : (dgOf p.1.dgs r).map (respOutcome p.2) = (dgOf p'.1.dgs r).map (respOutcome p'.2) := by
      rw [← h1]
      cases hd : dgOf p.1.dgs r with
      | none => rfl
      | some g => simp [h2 g hd]
    unfold arrOutcome at ih ⊢
    rw [List.findSome?_cons, List.findSome?_cons, hhead, ih]

theorem processAll_rel {r : Rid} {arr arr' : List (Frame × List UInt8)} {fs fs' : Futs}
    (h : ArrSim r arr arr') (hm : ∀ p ∈ arr, Mono p.1.dgs) (hm' : ∀ p ∈ arr', Mono p.1.dgs)
    (hr : fs.get r = fs'.get r) : (processAll arr fs).get r = (processAll arr' fs').get r := by
  rw [processAll_get _ _ hm, processAll_get _ _ hm', arrOutcome_rel h, hr]

theorem deliver_rel {r : Rid} {s s' : St} (f : Nat) (d d' : List UInt8) (h : EqOn r s s')
    (hl : d.length < PACKET_INDEX + 4 ↔ d'.length < PACKET_INDEX + 4)
    (hs : ∀ fr ∈ s.waiting, fr.id = f → SameFor r fr.dgs d d') : EqOn r (deliver f d s) (deliver f d' s') := by
  obtain ⟨h1, h2, h3, h4, h5, h6⟩ := h
  unfold deliver
  by_cases hlen : d.length < PACKET_INDEX + 4
  · have hlen' := hl.mp hlen
    simp only [hlen, hlen', ↓reduceIte]; exact ⟨h1, h2, h3, h4, h5, h6⟩
  · have hlen' : ¬ d'.length < PACKET_INDEX + 4 := fun x => hlen (hl.mpr x)
    simp only [hlen, hlen', ↓reduceIte, ← h3]
    cases hf : s.waiting.find? (fun fr => fr.id == f) with
    | none => exact ⟨h1, h2, h3, h4, h5, h6⟩
    | some fr =>
      have hmem := List.mem_of_find?_eq_some hf
      have hid : fr.id = f := by simpa using List.find?_some hf
      refine ⟨h1, h2, by simp only [h3], ?_, h5, h6⟩
      exact h4.append (ArrSim.cons ⟨rfl, hs fr hmem hid⟩ ArrSim.nil)

theorem eqOn_refl (r : Rid) (s : St) : EqOn r s s := by
  refine ⟨rfl, rfl, rfl, ?_, rfl, fun _ => rfl⟩
  generalize s.arrived = a
  induction a with
  | nil => exact ArrSim.nil
  | cons p l ih => exact ArrSim.cons ⟨rfl, fun _ _ => rfl⟩ ih

theorem irrelevant_step {r : Rid} {s : St} {e : Ev} (h : Irrelevant r e) :
    (step s e).queue = s.queue ∧ (step s e).sent = s.sent ∧ (step s e).waiting = s.waiting ∧
    (step s e).arrived = s.arrived ∧ (step s e).futs.get r = s.futs.get r ∧
    ∀ q, ((step s e).futs.get q).isSome = (s.futs.get q).isSome := by
  cases e with
  | cancel q =>
    have hq : q ≠ r := h
    refine ⟨rfl, rfl, rfl, rfl, ?_, fun x => (ext_settle s.futs q .cancelled).isSome x⟩
    show (settle s.futs q .cancelled).get r = _
    rw [settle_get]
    have : ¬ r = q := fun e => hq e.symm
    simp [this]
  | lose f => exact ⟨rfl, rfl, rfl, rfl, rfl, fun _ => rfl⟩
  | submit _ _ => cases h
  | quiesce => cases h
  | deliver _ _ => cases h
  | duplicate _ _ => cases h

theorem respOf_step {e : Ev} {f : Nat} {d : List UInt8} (h : respOf e = some (f, d)) (s : St) :
    step s e = deliver f d s := by
  cases e with
  | deliver f' d' => simp only [respOf, Option.some.injEq, Prod.mk.injEq] at h; obtain ⟨rfl, rfl⟩ := h; rfl
  | duplicate f' d' => simp only [respOf, Option.some.injEq, Prod.mk.injEq] at h; obtain ⟨rfl, rfl⟩ := h; rfl
  | submit _ _ => cases h
  | cancel _ => cases h
  | quiesce => cases h
  | lose _ => cases h

theorem eqOn_step {r : Rid} {s s' : St} {e e' : Ev} (h : EqOn r s s') (hF : InvF s) (hF' : InvF s')
    (hr : EvRel r s e e') : EqOn r (step s e) (step s' e') := by
  have hsame_del : ∀ f d, EqOn r (deliver f d s) (deliver f d s') :=
    fun f d => deliver_rel f d d h Iff.rfl (fun _ _ _ _ _ => rfl)
  obtain ⟨h1, h2, h3, h4, h5, h6⟩ := h
  cases hr with
  | same =>
    cases e with
    | submit q len =>
      simp only [step]
      have hn : (s.futs.get q).isNone = (s'.futs.get q).isNone := by
        have := h6 q
        cases ha : s.futs.get q <;> cases hb : s'.futs.get q <;> simp [ha, hb] at this ⊢
      by_cases hq : (s.futs.get q).isNone = true
      · have hq' : (s'.futs.get q).isNone = true := hn ▸ hq
        simp only [hq, hq', ↓reduceIte]
        refine ⟨by simp only [h1], h2, h3, h4, ?_, fun x => ?_⟩
        · simp only [Futs.get_set, h5]
        · simp only [Futs.get_set]; split
          · rfl
          · exact h6 x
      · have hq' : ¬ (s'.futs.get q).isNone = true := hn ▸ hq
        simp only [hq, hq']; exact ⟨h1, h2, h3, h4, h5, h6⟩
    | cancel q =>
      refine ⟨h1, h2, h3, h4, ?_, fun x => ?_⟩
      · show (settle s.futs q .cancelled).get r = (settle s'.futs q .cancelled).get r
        rw [settle_get, settle_get]
        by_cases hq : r = q
        · subst hq; simp [h5]
        · simp [hq, h5]
      · show ((settle s.futs q .cancelled).get x).isSome = ((settle s'.futs q .cancelled).get x).isSome
        rw [(ext_settle s.futs q .cancelled).isSome, (ext_settle s'.futs q .cancelled).isSome]; exact h6 x
    | quiesce =>
      simp only [step]
      refine ⟨by rw [quiesce_queue, quiesce_queue], by rw [quiesce_sent, quiesce_sent, h1, h2],
        by rw [quiesce_waiting, quiesce_waiting, h1, h2, h3], by rw [quiesce_arrived, quiesce_arrived]; exact ArrSim.nil,
        ?_, fun x => by rw [(quiesce_ext s).isSome, (quiesce_ext s').isSome]; exact h6 x⟩
      rw [quiesce_futs_get, quiesce_futs_get,
        processAll_rel h4 (fun p hp => (hF.1 _ (hF.2.2 p hp)).mono) (fun p hp => (hF'.1 _ (hF'.2.2 p hp)).mono) h5, h1]
    | deliver f d => exact hsame_del f d
    | duplicate f d => exact hsame_del f d
    | lose f => exact ⟨h1, h2, h3, h4, h5, h6⟩
  | other hi hi' =>
    obtain ⟨a1, a2, a3, a4, a5, a6⟩ := irrelevant_step (s := s) hi
    obtain ⟨b1, b2, b3, b4, b5, b6⟩ := irrelevant_step (s := s') hi'
    exact ⟨by rw [a1, b1, h1], by rw [a2, b2, h2], by rw [a3, b3, h3], by rw [a4, b4]; exact h4,
      by rw [a5, b5, h5], fun x => by rw [a6, b6]; exact h6 x⟩
  | resp f d d' he he' hl hs =>
    rw [respOf_step he, respOf_step he']
    exact deliver_rel f d d' ⟨h1, h2, h3, h4, h5, h6⟩ hl hs

theorem eqOn_run {r : Rid} {s s' : St} {evs evs' : List Ev} (h : EqOn r s s') (hF : InvF s) (hF' : InvF s')
    (hs : Sim r s evs evs') : EqOn r (run s evs) (run s' evs') := by
  induction hs generalizing s' with
  | nil s => exact h
  | cons hr _ ih => exact ih (eqOn_step h hF hF' hr) (invF_step _ _ hF) (invF_step _ _ hF')

/-- **independence.**  Take any run and change what is none of `r`'s business: add, remove or move
cancellations of other requests (`cancel q` ↔ a no-op such as `lose`), and replace delivered responses
by responses that differ anywhere outside `r`'s own datagram (other requests' working counters and
payload bytes; everything, if `r` is not in that frame).  Then `r` has the same outcome, and the same
frames are on the wire. -/
theorem independence (r : Rid) (evs evs' : List Ev) (h : Sim r init evs evs') :
    (run init evs).futs.get r = (run init evs').futs.get r ∧ (run init evs).sent = (run init evs').sent := by
  have := eqOn_run (eqOn_refl r init) invF_init invF_init h
  exact ⟨this.2.2.2.2.1, this.2.1⟩

/-! ### an unsendable request fails and nothing stalls -/

theorem mem_sendableRids {q : List (Rid × Nat)} {x : Rid} (h : x ∈ sendableRids q) :
    ∃ len, (x, len) ∈ q ∧ sendable len = true := by
  simp only [sendableRids, List.mem_map, List.mem_filter] at h
  obtain ⟨⟨a, b⟩, ⟨hm, hs⟩, rfl⟩ := h
  exact ⟨b, hm, hs⟩

/-- submissions: names are used once, every queued or sent request is a logged submission, and what
is on the wire was sendable -/
def InvS (s : St) : Prop :=
  (s.subs.map (·.1)).Nodup ∧ (∀ p ∈ s.subs, (s.futs.get p.1).isSome = true) ∧ (∀ p ∈ s.queue, p ∈ s.subs) ∧
  ∀ x ∈ sentRids s, ∃ len, (x, len) ∈ s.subs ∧ sendable len = true

theorem invS_init : InvS init := by simp [InvS, init, sentRids]

theorem invS_step (s : St) (e : Ev) (h : InvS s) : InvS (step s e) := by
  obtain ⟨h1, h2, h3, h4⟩ := h
  cases e with
  | submit r len =>
    simp only [step]
    by_cases hn : (s.futs.get r).isNone = true
    · simp only [hn, ↓reduceIte]
      have hfresh : r ∉ s.subs.map (·.1) := by
        intro hm
        obtain ⟨p, hp, rfl⟩ := List.mem_map.mp hm
        have := h2 p hp; rw [Option.isNone_iff_eq_none] at hn; rw [hn] at this; simp at this
      refine ⟨?_, ?_, ?_, ?_⟩
      · rw [List.map_append]
        exact List.nodup_append.mpr ⟨h1, by simp, fun a ha b hb => by
          simp only [List.map_cons, List.map_nil, List.mem_singleton] at hb; subst hb; rintro rfl; exact hfresh ha⟩
      · intro p hp
        simp only [Futs.get_set]
        split
        · rfl
        · rcases List.mem_append.mp hp with hp | hp
          · exact h2 p hp
          · simp only [List.mem_singleton] at hp; subst hp; simp at *
      · intro p hp
        rcases List.mem_append.mp hp with hp | hp
        · exact List.mem_append_left _ (h3 p hp)
        · exact List.mem_append_right _ hp
      · intro x hx
        obtain ⟨l, hl, hs⟩ := h4 x hx
        exact ⟨l, List.mem_append_left _ hl, hs⟩
    · simp only [hn]; exact ⟨h1, h2, h3, h4⟩
  | cancel r =>
    exact ⟨h1, fun p hp => by
      rw [show (step s (.cancel r)).futs = settle s.futs r .cancelled from rfl, (ext_settle s.futs r .cancelled).isSome]
      exact h2 p hp, h3, h4⟩
  | quiesce =>
    simp only [step, InvS, quiesce_subs, quiesce_queue, sentRids_eq, quiesce_sent, ridsOf_append,
      pack_rids _ _ _ _ dinv_nil]
    refine ⟨h1, fun p hp => by rw [(quiesce_ext s).isSome]; exact h2 p hp, by simp, ?_⟩
    intro x hx
    simp only [List.map_nil, List.nil_append, List.mem_append] at hx
    rcases hx with hx | hx
    · exact h4 x hx
    · obtain ⟨l, hl, hs⟩ := mem_sendableRids hx
      exact ⟨l, h3 _ hl, hs⟩
  | deliver f d =>
    simp only [step, InvS, sentRids_eq, deliver_sent, deliver_queue, deliver_futs, deliver_subs]
    exact ⟨h1, h2, h3, h4⟩
  | duplicate f d =>
    simp only [step, InvS, sentRids_eq, deliver_sent, deliver_queue, deliver_futs, deliver_subs]
    exact ⟨h1, h2, h3, h4⟩
  | lose f => exact ⟨h1, h2, h3, h4⟩

theorem invS_run (s : St) (evs : List Ev) (h : InvS s) : InvS (run s evs) := by
  induction evs generalizing s with
  | nil => exact h
  | cons e es ih => exact ih _ (invS_step s e h)

theorem snd_unique {l : List (Rid × Nat)} (hn : (l.map (·.1)).Nodup) {a b b' : Nat} (h : (a, b) ∈ l) (h' : (a, b') ∈ l) :
    b = b' := by
  induction l with
  | nil => cases h
  | cons p rest ih =>
    simp only [List.map_cons, List.nodup_cons] at hn
    rcases List.mem_cons.mp h with e1 | h1
    · rcases List.mem_cons.mp h' with e2 | h2
      · rw [← e1] at e2; injection e2 with _ e3; exact e3.symm
      · subst e1; exact absurd (List.mem_map.mpr ⟨(a, b'), h2, rfl⟩) hn.1
    · rcases List.mem_cons.mp h' with e2 | h2
      · subst e2; exact absurd (List.mem_map.mpr ⟨(a, b), h1, rfl⟩) hn.1
      · exact ih hn.2 h1 h2

theorem subs_mono_run (s : St) (evs : List Ev) : ∀ p ∈ s.subs, p ∈ (run s evs).subs := by
  induction evs generalizing s with
  | nil => exact fun _ h => h
  | cons e es ih =>
    intro p hp
    apply ih (step s e)
    cases e with
    | submit r len => simp only [step]; split
                      · exact List.mem_append_left _ hp
                      · exact hp
    | cancel r => exact hp
    | quiesce => simpa [step, quiesce_subs] using hp
    | deliver f d => simpa [step, deliver_subs] using hp
    | duplicate f d => simpa [step, deliver_subs] using hp
    | lose f => exact hp

theorem arrOutcome_none {arr : List (Frame × List UInt8)} {x : Rid} (h : ∀ p ∈ arr, x ∉ p.1.dgs.map (·.rid)) :
    arrOutcome arr x = none := by
  unfold arrOutcome
  rw [List.findSome?_eq_none_iff]
  intro p hp
  rw [dgOf_none.mpr (h p hp)]; rfl

theorem mem_ridsOf {frs : List Frame} {fr : Frame} {x : Rid} (h : fr ∈ frs) (hx : x ∈ fr.dgs.map (·.rid)) :
    x ∈ ridsOf frs := by
  unfold ridsOf; exact List.mem_flatMap.mpr ⟨fr, h, hx⟩

/-- **an unsendable request fails, nothing stalls.**  Let a request whose datagram alone exceeds the
frame limit be queued.  The next quiesce — a total function: one pass of `sendloop` consumes the
whole queue — leaves the queue empty, gives exactly that request the `OverflowError` (unless its
caller was cancelled before), puts every sendable request submitted so far on the wire, including
those queued behind it, and it is never transmitted, now or later. -/
theorem unsendable_fails (evs : List Ev) (r len : Nat) (hq : (r, len) ∈ (run init evs).queue)
    (hs : sendable len = false) :
    (run init (evs ++ [.quiesce])).futs.get r =
      (if (run init evs).futs.get r = some .pending then some .overflow else (run init evs).futs.get r) ∧
    (run init (evs ++ [.quiesce])).queue = [] ∧
    sentRids (run init (evs ++ [.quiesce])) = accepted init evs ∧
    ∀ more, r ∉ sentRids (run init (evs ++ more)) := by
  have hF := invF_run init evs invF_init
  have hN := invN_run init evs invN_init
  have hS := invS_run init evs invS_init
  refine ⟨?_, (sent_after_quiesce evs).1, (sent_after_quiesce evs).2, ?_⟩
  · rw [run_append]
    generalize run init evs = s at hq hF hN hS
    show (quiesce s).futs.get r = _
    have hnot : r ∉ sentRids s := by
      intro hm
      have := (List.nodup_append.mp hN.1).2.2 r hm r (List.mem_map.mpr ⟨(r, len), hq, rfl⟩)
      exact this rfl
    have hnone : arrOutcome s.arrived r = none :=
      arrOutcome_none fun p hp hx => hnot (mem_ridsOf (hF.2.2 p hp) hx)
    rw [quiesce_futs_get, processAll_get _ _ (fun p hp => (hF.1 _ (hF.2.2 p hp)).mono), hnone]
    have hov : oversizeIn s.queue r = true := oversizeIn_iff.mpr ⟨len, hq, hs⟩
    by_cases hp : s.futs.get r = some .pending <;> simp [hp, hov]
  · intro more hm
    have hS' := invS_run init (evs ++ more) invS_init
    obtain ⟨l, hl, hsl⟩ := hS'.2.2.2 r hm
    have hsub : (r, len) ∈ (run init (evs ++ more)).subs := by
      rw [run_append]; exact subs_mono_run _ more _ (hS.2.2.1 _ hq)
    have := snd_unique hS'.1 hl hsub
    rw [this, hs] at hsl; cases hsl

/-! ### a delivered response completes the request with what it holds at its own datagram -/

/-- frame numbers: below the number of frames sent; a frame is not both waiting and arrived, nor twice -/
def InvI (s : St) : Prop :=
  (∀ fr ∈ s.sent, fr.id < s.sent.length) ∧ ((s.waiting ++ s.arrived.map (·.1)).map (·.id)).Nodup

theorem invI_init : InvI init := by simp [InvI, init]

theorem invI_step (s : St) (e : Ev) (hF : InvF s) (h : InvI s) : InvI (step s e) := by
  obtain ⟨h1, h2⟩ := h
  have hdel : ∀ f d, InvI (deliver f d s) := by
    intro f d
    rcases deliver_cases f d s with hc | ⟨fr, hm, hid, _, hc⟩
    · rw [hc]; exact ⟨h1, h2⟩
    · rw [hc]
      refine ⟨h1, ?_⟩
      simp only [List.map_append, List.map_cons, List.map_nil] at h2 ⊢
      obtain ⟨hw, ha, hdis⟩ := List.nodup_append.mp h2
      have hfw : f ∈ s.waiting.map (·.id) := List.mem_map.mpr ⟨fr, hm, hid⟩
      refine List.nodup_append.mpr ⟨hw.sublist (List.Sublist.map _ List.filter_sublist), ?_, ?_⟩
      · exact List.nodup_append.mpr ⟨ha, by simp, fun a ha' b hb => by
          simp only [List.mem_singleton] at hb; subst hb; rintro rfl; exact hdis _ hfw _ ha' (hid ▸ rfl)⟩
      · intro a ha' b hb
        obtain ⟨x, hx, rfl⟩ := List.mem_map.mp ha'
        obtain ⟨hxw, hxf⟩ := List.mem_filter.mp hx
        rcases List.mem_append.mp hb with hb | hb
        · exact hdis _ (List.mem_map.mpr ⟨x, hxw, rfl⟩) _ hb
        · simp only [List.mem_singleton] at hb; subst hb
          intro he; rw [he, hid] at hxf; simp at hxf
  cases e with
  | submit r len => simp only [step]; split <;> exact ⟨h1, h2⟩
  | cancel r => exact ⟨h1, h2⟩
  | quiesce =>
    simp only [step, InvI, quiesce_sent, quiesce_waiting, quiesce_arrived, List.map_nil, List.append_nil,
      List.length_append, List.map_append]
    refine ⟨fun fr hfr => ?_, ?_⟩
    · rcases List.mem_append.mp hfr with hfr | hfr
      · have := h1 fr hfr; omega
      · exact (pack_id_bounds hfr).2
    · have hw : (s.waiting.map (·.id)).Nodup := by
        rw [List.map_append] at h2; exact (List.nodup_append.mp h2).1
      refine List.nodup_append.mpr ⟨hw, pack_ids_nodup _ _ _ _, ?_⟩
      intro a ha b hb
      obtain ⟨x, hx, rfl⟩ := List.mem_map.mp ha
      obtain ⟨y, hy, rfl⟩ := List.mem_map.mp hb
      have := h1 x (hF.2.1 x hx)
      have := (pack_id_bounds hy).1
      omega
  | deliver f d => exact hdel f d
  | duplicate f d => exact hdel f d
  | lose f => exact ⟨h1, h2⟩

theorem invI_run (s : St) (evs : List Ev) (hF : InvF s) (h : InvI s) : InvI (run s evs) := by
  induction evs generalizing s with
  | nil => exact h
  | cons e es ih => exact ih _ (invF_step s e hF) (invI_step s e hF h)

theorem frame_unique {frs : List Frame} (hn : (ridsOf frs).Nodup) {a b : Frame} {x : Rid} (ha : a ∈ frs) (hb : b ∈ frs)
    (hxa : x ∈ a.dgs.map (·.rid)) (hxb : x ∈ b.dgs.map (·.rid)) : a = b := by
  induction frs with
  | nil => cases ha
  | cons fr rest ih =>
    rw [ridsOf_cons] at hn
    obtain ⟨_, h2, h3⟩ := List.nodup_append.mp hn
    rcases List.mem_cons.mp ha with rfl | ha' <;> rcases List.mem_cons.mp hb with e | hb'
    · exact e.symm
    · exact absurd rfl (h3 x hxa x (mem_ridsOf hb' hxb))
    · subst e; exact absurd rfl (h3 x hxb x (mem_ridsOf ha' hxa))
    · exact ih h2 ha' hb'

theorem dgOf_unique {dgs : List Dg} (hn : (dgs.map (·.rid)).Nodup) {g : Dg} (hg : g ∈ dgs) : dgOf dgs g.rid = some g := by
  induction dgs with
  | nil => cases hg
  | cons a rest ih =>
    simp only [List.map_cons, List.nodup_cons] at hn
    rw [dgOf_cons]
    rcases List.mem_cons.mp hg with rfl | hg'
    · simp
    · have : a.rid ≠ g.rid := fun e => hn.1 (e ▸ List.mem_map.mpr ⟨g, hg', rfl⟩)
      simp [this, ih hn.2 hg']

theorem nodup_of_ridsOf {frs : List Frame} (hn : (ridsOf frs).Nodup) {fr : Frame} (h : fr ∈ frs) :
    (fr.dgs.map (·.rid)).Nodup := by
  induction frs with
  | nil => cases h
  | cons a rest ih =>
    rw [ridsOf_cons] at hn
    rcases List.mem_cons.mp h with rfl | h'
    · exact (List.nodup_append.mp hn).1
    · exact ih (List.nodup_append.mp hn).2.1 h'

theorem id_inj {l : List Frame} (hn : (l.map (·.id)).Nodup) {a b : Frame} (ha : a ∈ l) (hb : b ∈ l)
    (h : a.id = b.id) : a = b := by
  induction l with
  | nil => cases ha
  | cons x rest ih =>
    simp only [List.map_cons, List.nodup_cons] at hn
    rcases List.mem_cons.mp ha with e1 | ha' <;> rcases List.mem_cons.mp hb with e2 | hb'
    · rw [e1, e2]
    · subst e1; exact absurd (List.mem_map.mpr ⟨b, hb', h.symm⟩) hn.1
    · subst e2; exact absurd (List.mem_map.mpr ⟨a, ha', h⟩) hn.1
    · exact ih hn.2 ha' hb'

theorem arrOutcome_append_single {arr : List (Frame × List UInt8)} {x : Rid} {fr : Frame} {d : List UInt8}
    (h : arrOutcome arr x = none) : arrOutcome (arr ++ [(fr, d)]) x = (dgOf fr.dgs x).map (respOutcome d) := by
  unfold arrOutcome at h ⊢
  rw [List.findSome?_append, h]; simp

/-- **wkc 0 fails (2) / a response completes its requests.**  A pending request whose frame is
waiting: when the bus hands in a response `d` for that frame (long enough to carry the index) and
the loop runs, the request completes with exactly what `d` holds at its own datagram —
`EtherCatError` iff its own working counter is 0, else the bytes at its own `(start, stop)`
(`struct.error` if `d` ends before its working counter) — whatever `d` holds anywhere else. -/
theorem response_completes (evs : List Ev) (fr : Frame) (g : Dg) (d : List UInt8)
    (hw : fr ∈ (run init evs).waiting) (hg : g ∈ fr.dgs) (hp : (run init evs).futs.get g.rid = some .pending)
    (hl : PACKET_INDEX + 4 ≤ d.length) :
    (run init (evs ++ [.deliver fr.id d, .quiesce])).futs.get g.rid = some (respOutcome d g) := by
  have hF := invF_run init evs invF_init
  have hN := invN_run init evs invN_init
  have hI := invI_run init evs invF_init invI_init
  rw [run_append]
  generalize run init evs = s at hw hp hF hN hI
  show (quiesce (deliver fr.id d s)).futs.get g.rid = _
  have hsent : (ridsOf s.sent).Nodup := (List.nodup_append.mp hN.1).1
  have hfrs : fr ∈ s.sent := hF.2.1 fr hw
  -- the delivery finds this frame
  have hdel : deliver fr.id d s =
      { s with waiting := s.waiting.filter (fun x => x.id != fr.id), arrived := s.arrived ++ [(fr, d)] } := by
    rcases deliver_cases fr.id d s with hc | ⟨fr', hm', hid', _, hc⟩
    · exfalso
      unfold deliver at hc
      have : ¬ d.length < PACKET_INDEX + 4 := by omega
      simp only [this, ↓reduceIte] at hc
      cases hf : s.waiting.find? (fun x => x.id == fr.id) with
      | none => exact absurd (List.find?_eq_none.mp hf fr hw) (by simp)
      | some fr' =>
        simp only [hf] at hc
        have := congrArg (fun t => t.arrived.length) hc
        simp at this
    · have hwn : (s.waiting.map (·.id)).Nodup := by
        have := hI.2; rw [List.map_append] at this; exact (List.nodup_append.mp this).1
      have : fr' = fr := by
        exact id_inj hwn hm' hw hid'
      rw [hc, this]
  -- the request is in no frame that arrived earlier
  have hnone : arrOutcome s.arrived g.rid = none := by
    apply arrOutcome_none
    intro p hpm hx
    have hpe : p.1 = fr := frame_unique hsent (hF.2.2 p hpm) hfrs hx (List.mem_map.mpr ⟨g, hg, rfl⟩)
    have h2 := hI.2
    rw [List.map_append] at h2
    exact (List.nodup_append.mp h2).2.2 fr.id (List.mem_map.mpr ⟨fr, hw, rfl⟩) fr.id
      (List.mem_map.mpr ⟨p.1, List.mem_map.mpr ⟨p, hpm, rfl⟩, by rw [hpe]⟩) rfl
  have hF2 : InvF (deliver fr.id d s) := invF_step s (.deliver fr.id d) hF
  have hnq : oversizeIn (deliver fr.id d s).queue g.rid = false := by
    rw [deliver_queue]
    cases ho : oversizeIn s.queue g.rid with
    | false => rfl
    | true =>
      obtain ⟨len, hm, _⟩ := oversizeIn_iff.mp ho
      exact absurd rfl ((List.nodup_append.mp hN.1).2.2 g.rid (mem_ridsOf hfrs (List.mem_map.mpr ⟨g, hg, rfl⟩)) g.rid
        (List.mem_map.mpr ⟨(g.rid, len), hm, rfl⟩))
  rw [quiesce_futs_get, hnq, processAll_get _ _ (fun p hp => (hF2.1 _ (hF2.2.2 p hp)).mono), deliver_futs, hp]
  rw [hdel]
  simp only [↓reduceIte, Bool.false_eq_true, and_false]
  rw [arrOutcome_append_single hnone, dgOf_unique (nodup_of_ridsOf hsent hfrs) hg]
  simp

/-! ### non-vacuity: concrete runs that meet the hypotheses and exercise every branch -/

/-- a response for a frame with two 2-byte datagrams at 26..28 and 40..42 -/
def resp2 (a b : List UInt8) (w0 w1 : UInt8) : List UInt8 :=
  zeros 26 ++ a ++ [w0, 0] ++ zeros 10 ++ b ++ [w1, 0]

def demo : List Ev :=
  [.submit 0 2, .submit 1 2, .submit 2 2000, .submit 3 2, .quiesce, .cancel 3,
   .deliver 0 (resp2 [0xaa, 0xbb] [0xcc, 0xdd] 0 1), .quiesce]

-- requests 0, 1 share frame 0 (shipped when the unsendable request 2 turns up); request 3, queued behind 2, still goes out
example : (run init demo).sent = [⟨0, [⟨26, 28, 0⟩, ⟨40, 42, 1⟩]⟩, ⟨1, [⟨26, 28, 3⟩]⟩] := by decide
example : (run init demo).futs.get 0 = some .ecError := by decide
example : (run init demo).futs.get 1 = some (.result [0xcc, 0xdd]) := by decide
example : (run init demo).futs.get 2 = some .overflow := by decide
example : (run init demo).futs.get 3 = some .cancelled := by decide
example : accepted init demo = [0, 1, 3] := by decide

-- the count limit: 16 empty datagrams make a frame of 15 and a frame of 1
example : ((run init ((List.range 16).map (fun r => Ev.submit r 0) ++ [.quiesce])).sent.map fun fr => fr.dgs.length) = [15, 1] := by
  decide

-- the size limit: 1472 bytes is the largest sendable payload
example : sendable 1472 = true ∧ sendable 1473 = false := by decide

-- hypotheses of `unsendable_fails`
example : (2, 2000) ∈ (run init (demo.take 4)).queue ∧ sendable 2000 = false := by decide

-- hypotheses of `response_completes` (request 1 in frame 0, after the first quiesce)
example : (⟨0, [⟨26, 28, 0⟩, ⟨40, 42, 1⟩]⟩ : Frame) ∈ (run init (demo.take 5)).waiting ∧
    (run init (demo.take 5)).futs.get 1 = some .pending := by decide

-- hypotheses of `independence`: for request 1, the cancellation of 3 is dropped and the response
-- differs in request 0's bytes and working counter
def demo' : List Ev :=
  [.submit 0 2, .submit 1 2, .submit 2 2000, .submit 3 2, .quiesce, .lose 7,
   .duplicate 0 (resp2 [0x11, 0x22] [0xcc, 0xdd] 5 1), .quiesce]

example : Sim 1 init demo demo' := by
  refine .cons (.same _) (.cons (.same _) (.cons (.same _) (.cons (.same _) (.cons (.same _) (.cons (.other ?_ trivial)
    (.cons (.resp 0 _ _ rfl rfl (by decide) ?_) (.cons (.same _) (.nil _))))))))
  · show (3 : Nat) ≠ 1; decide
  · intro fr hfr hid
    apply sameFor_of_bytes
    revert fr
    decide

example : (run init demo').futs.get 1 = some (.result [0xcc, 0xdd]) ∧ (run init demo').futs.get 0 = some (.result [0x11, 0x22]) := by
  decide

end Ebv.C12
