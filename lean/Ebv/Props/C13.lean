import Ebv.Model.Roundtrip
/-! C13 — datagram field encoding and decoding round-trip.
All theorems quantify over every argument list (any number of format/value groups, any
formats over b B h H i I q Q x Ns, any values), every kind of raw data (absent, bytes of
any length including empty, a count including 0) and every response of the request's shape. -/
namespace Ebv.C13
open Ebv.Roundtrip Ebv.Bytes


/-! ### the struct model: sizes -/

theorem encInt_length (c : Code) (v : Int) : (encInt c v).length = c.size := by simp [encInt]

theorem packInts_length (c : Code) (n : Nat) (vs : List Val) (b : List UInt8) (r : List Val)
    (h : packInts c n vs = some (b, r)) : b.length = n * c.size := by
  induction n generalizing vs b with
  | zero => simp [packInts] at h; simp [h.1.symm]
  | succ n ih =>
    cases vs with
    | nil => simp [packInts] at h
    | cons v vs =>
      cases v with
      | bytes bs => simp [packInts] at h
      | int v =>
        simp only [packInts] at h
        split at h
        · cases hr : packInts c n vs with
          | none => simp [hr] at h
          | some p =>
            simp only [hr, Option.map_some, Option.some.injEq, Prod.mk.injEq] at h
            have := ih vs p.1 (by rw [hr, ← h.2])
            rw [← h.1]
            simp [encInt_length, this, Nat.succ_mul]; omega
        · cases h

theorem fitStr_length (n : Nat) (bs : List UInt8) : (fitStr n bs).length = n := by
  simp [fitStr]; omega

theorem packItem_length (it : Item) (vs : List Val) (b : List UInt8) (r : List Val)
    (h : packItem it vs = some (b, r)) : b.length = itemSize it := by
  unfold itemSize
  cases hc : it.code <;> simp only [packItem, hc] at h
  case x => simp at h; simp [← h.1, Code.size]
  case s =>
    split at h
    · simp at h; simp [← h.1, fitStr_length, Code.size]
    · cases h
  all_goals exact packInts_length _ _ _ _ _ h

@[simp] theorem calcsize_nil : calcsize [] = 0 := rfl
@[simp] theorem calcsize_cons (it : Item) (f : Fmt) : calcsize (it :: f) = itemSize it + calcsize f := by
  simp [calcsize]
@[simp] theorem calcsize_append (f g : Fmt) : calcsize (f ++ g) = calcsize f + calcsize g := by
  simp [calcsize]

theorem packAll_length (f : Fmt) (vs : List Val) (b : List UInt8) (h : packAll f vs = some b) :
    b.length = calcsize f := by
  induction f generalizing vs b with
  | nil => cases vs <;> simp [packAll] at h; simp [h.symm]
  | cons it f ih =>
    simp only [packAll] at h
    split at h
    · cases h
    · rename_i bi r hi
      cases hr : packAll f r with
      | none => simp [hr] at h
      | some b' =>
        simp only [hr, Option.map_some, Option.some.injEq] at h
        simp [← h, packItem_length _ _ _ _ hi, ih _ _ hr]

/-! ### packing consumes a prefix of the values -/

theorem packInts_append (c : Code) (n : Nat) (vs e : List Val) (b : List UInt8) (r : List Val)
    (h : packInts c n vs = some (b, r)) : packInts c n (vs ++ e) = some (b, r ++ e) := by
  induction n generalizing vs b with
  | zero => simp [packInts] at h ⊢; simp [h.1, h.2]
  | succ n ih =>
    cases vs with
    | nil => simp [packInts] at h
    | cons v vs =>
      cases v with
      | bytes bs => simp [packInts] at h
      | int v =>
        simp only [packInts, List.cons_append] at h ⊢
        split at h
        · rename_i hf
          cases hr : packInts c n vs with
          | none => simp [hr] at h
          | some p =>
            simp only [hr, Option.map_some, Option.some.injEq, Prod.mk.injEq] at h
            simp [hf, ih vs p.1 (by rw [hr, ← h.2]), h.1]
        · cases h

theorem packItem_append (it : Item) (vs e : List Val) (b : List UInt8) (r : List Val)
    (h : packItem it vs = some (b, r)) : packItem it (vs ++ e) = some (b, r ++ e) := by
  cases hc : it.code <;> simp only [packItem, hc] at h ⊢
  case x => simp at h ⊢; simp [h.1, h.2]
  case s =>
    cases vs with
    | nil => simp at h
    | cons v vs =>
      cases v with
      | int v => simp at h
      | bytes bs => simp at h ⊢; simp [h.1, h.2]
  all_goals exact packInts_append _ _ _ _ _ _ h

/-- packing a concatenation of formats with the concatenation of their values is the
concatenation of the packings: every field keeps its own offset -/
theorem packAll_append (f1 f2 : Fmt) (v1 v2 : List Val) (b1 : List UInt8) (h : packAll f1 v1 = some b1) :
    packAll (f1 ++ f2) (v1 ++ v2) = (packAll f2 v2).map (b1 ++ ·) := by
  induction f1 generalizing v1 b1 with
  | nil =>
    cases v1 <;> simp [packAll] at h
    subst h
    simp
  | cons it f ih =>
    simp only [packAll, List.cons_append] at h ⊢
    split at h
    · cases h
    · rename_i bi r hi
      cases hr : packAll f r with
      | none => simp [hr] at h
      | some b' =>
        simp only [hr, Option.map_some, Option.some.injEq] at h
        subst h
        rw [packItem_append _ _ _ _ _ hi]
        simp only [ih r b' hr, Option.map_map]
        congr 1
        funext x
        simp

/-! ### decoding: fields sit at consecutive offsets -/

theorem decodeAll_append (f1 f2 : Fmt) (b1 b2 : List UInt8) (h : b1.length = calcsize f1) :
    decodeAll (f1 ++ f2) (b1 ++ b2) = decodeAll f1 b1 ++ decodeAll f2 b2 := by
  induction f1 generalizing b1 with
  | nil =>
    simp at h
    subst h
    simp [decodeAll]
  | cons it f ih =>
    simp only [calcsize_cons] at h
    simp only [List.cons_append, decodeAll, List.append_assoc]
    rw [List.take_append_of_le_length (by omega), List.drop_append_of_le_length (by omega),
      ih (b1.drop (itemSize it)) (by simp; omega)]

theorem ofSigned_lt (c : Code) (v : Int) : ofSigned c.size v < 256 ^ c.size := by
  cases c <;> simp [Code.size, ofSigned] <;> omega

theorem decInt_encInt (c : Code) (v : Int) (h : fitsInt c v = true) : decInt c (encInt c v) = v := by
  unfold decInt encInt
  unfold fitsInt at h
  by_cases hs : c.signed = true
  · simp only [hs, ↓reduceIte] at h ⊢
    rw [decLE_encLE _ _ (ofSigned_lt c v)]
    exact toSigned_ofSigned c.size (by cases c <;> simp [Code.size]) v h
  · simp only [hs, Bool.false_eq_true, ↓reduceIte] at h ⊢
    simp only [fitsU, Bool.and_eq_true, decide_eq_true_eq] at h
    have : v.toNat < 256 ^ c.size := by
      cases c <;> simp [Code.size, Code.signed] at h hs ⊢ <;> omega
    rw [decLE_encLE _ _ this]
    omega

theorem decInts_packInts (c : Code) (n : Nat) (vs : List Val) (b : List UInt8) (r : List Val)
    (h : packInts c n vs = some (b, r)) : decInts c n b = vs.take n ∧ r = vs.drop n := by
  induction n generalizing vs b with
  | zero => simp [packInts] at h; simp [decInts, h.2]
  | succ n ih =>
    cases vs with
    | nil => simp [packInts] at h
    | cons v vs =>
      cases v with
      | bytes bs => simp [packInts] at h
      | int v =>
        simp only [packInts] at h
        split at h
        · rename_i hf
          cases hr : packInts c n vs with
          | none => simp [hr] at h
          | some p =>
            simp only [hr, Option.map_some, Option.some.injEq, Prod.mk.injEq] at h
            obtain ⟨i1, i2⟩ := ih vs p.1 (by rw [hr, ← h.2])
            rw [← h.1]
            simp only [decInts, List.take_succ_cons, List.drop_succ_cons]
            rw [List.take_append_of_le_length (by simp [encInt_length]),
              List.drop_append_of_le_length (by simp [encInt_length])]
            have e1 : (encInt c v).take c.size = encInt c v := by
              rw [List.take_of_length_le]; simp [encInt_length]
            have e2 : (encInt c v).drop c.size = [] := by
              rw [List.drop_of_length_le]; simp [encInt_length]
            simp [e1, e2, decInt_encInt c v hf, i1, i2]
        · cases h

/-- what comes back for one item: integers unchanged, `Ns` values cut or zero-padded to N -/
def echoItem (it : Item) (vs : List Val) : List Val × List Val :=
  match it.code with
  | .x => ([], vs)
  | .s =>
    match vs with
    | .bytes bs :: r => ([.bytes (fitStr it.count bs)], r)
    | _ => ([], vs)
  | _ => (vs.take it.count, vs.drop it.count)

def echoAll : Fmt → List Val → List Val
  | [], _ => []
  | it :: f, vs => (echoItem it vs).1 ++ echoAll f (echoItem it vs).2

theorem decItem_packItem (it : Item) (vs : List Val) (b : List UInt8) (r : List Val)
    (h : packItem it vs = some (b, r)) : decItem it b = (echoItem it vs).1 ∧ r = (echoItem it vs).2 := by
  cases hc : it.code <;> simp only [packItem, hc, decItem, echoItem] at h ⊢
  case x => simp at h; simp [h.2]
  case s =>
    cases vs with
    | nil => simp at h
    | cons v vs =>
      cases v with
      | int v => simp at h
      | bytes bs =>
        simp at h ⊢
        refine ⟨?_, h.2.symm⟩
        rw [← h.1, List.take_of_length_le]; simp [fitStr_length]
  all_goals exact decInts_packInts _ _ _ _ _ h

/-- unpack ∘ pack: every field comes back from the bytes it was packed into -/
theorem decodeAll_packAll (f : Fmt) (vs : List Val) (b : List UInt8) (h : packAll f vs = some b) :
    decodeAll f b = echoAll f vs := by
  induction f generalizing vs b with
  | nil => simp [decodeAll, echoAll]
  | cons it f ih =>
    simp only [packAll] at h
    split at h
    · cases h
    · rename_i bi r hi
      cases hr : packAll f r with
      | none => simp [hr] at h
      | some b' =>
        simp only [hr, Option.map_some, Option.some.injEq] at h
        subst h
        have hl := packItem_length _ _ _ _ hi
        obtain ⟨d1, d2⟩ := decItem_packItem _ _ _ _ hi
        simp only [decodeAll, echoAll]
        rw [List.take_append_of_le_length (by omega), List.drop_append_of_le_length (by omega),
          List.take_of_length_le (by omega), List.drop_of_length_le (by omega)]
        simp [d1, ← d2, ih r b' hr]

theorem unpack_pack (f : Fmt) (vs : List Val) (b : List UInt8) (h : packAll f vs = some b) :
    unpackAll f b = some (echoAll f vs) := by
  simp [unpackAll, packAll_length f vs b h, decodeAll_packAll f vs b h]

/-- formats without `Ns` items: exactly the values sent come back -/
def NoStr (f : Fmt) : Prop := ∀ it ∈ f, it.code ≠ .s

theorem echoAll_noStr (f : Fmt) (vs : List Val) (b : List UInt8) (hn : NoStr f) (h : packAll f vs = some b) :
    echoAll f vs = vs := by
  induction f generalizing vs b with
  | nil => cases vs <;> simp [packAll] at h; simp [echoAll]
  | cons it f ih =>
    simp only [packAll] at h
    split at h
    · cases h
    · rename_i bi r hi
      cases hr : packAll f r with
      | none => simp [hr] at h
      | some b' =>
        obtain ⟨_, d2⟩ := decItem_packItem _ _ _ _ hi
        have hs : it.code ≠ .s := hn it (by simp)
        have ih' := ih r b' (fun x hx => hn x (by simp [hx])) hr
        simp only [echoAll]
        rw [← d2, ih']
        rw [d2]
        cases hc : it.code <;> simp [echoItem, hc] at hs ⊢

/-! ### the argument list of `roundtrip` -/

@[simp] theorem fmtsOf_append (a b : List Arg) : fmtsOf (a ++ b) = fmtsOf a ++ fmtsOf b := by
  induction a with
  | nil => rfl
  | cons x a ih => cases x <;> simp [fmtsOf, ih]

@[simp] theorem valsOf_append (a b : List Arg) : valsOf (a ++ b) = valsOf a ++ valsOf b := by
  induction a with
  | nil => rfl
  | cons x a ih => cases x <;> simp [valsOf, ih]

theorem trailing_snoc_fmt (init : List Arg) (t : Fmt) : trailing (init ++ [.fmt t]) = some t := by
  simp [trailing]
theorem trailing_snoc_val (init : List Arg) (v : Val) : trailing (init ++ [.val v]) = none := by
  simp [trailing]

/-- the format used for unpacking (`fmt` after `fmt += args[-1]`) is the concatenation of all format strings -/
theorem fullFmt_eq (args : List Arg) : fullFmt args = fmtsOf args := by
  rcases List.eq_nil_or_concat args with rfl | ⟨init, a, rfl⟩
  · rfl
  · rw [List.concat_eq_append]
    cases a with
    | fmt t => simp [fullFmt, trailing_snoc_fmt, fmtsOf]
    | val v => simp [fullFmt, trailing_snoc_val, fmtsOf]

theorem encode_snoc_fmt (init : List Arg) (t : Fmt) (data : RawData) :
    encode (init ++ [.fmt t]) data =
      (packAll (fmtsOf init) (valsOf init)).map (· ++ zeros (calcsize t) ++ rawBytes data) := by
  simp [encode, trailing_snoc_fmt, valsOf]

theorem encode_snoc_val (init : List Arg) (v : Val) (data : RawData) :
    encode (init ++ [.val v]) data =
      (packAll (fmtsOf init) (valsOf init ++ [v])).map (· ++ rawBytes data) := by
  simp [encode, trailing_snoc_val, valsOf, zeros]

/-- in general: all values are packed with the formats before the last argument; a trailing
format contributes zeros; raw data follows -/
theorem encode_general (args : List Arg) (data : RawData) (out : List UInt8) (h : encode args data = some out) :
    ∃ b, packAll (fmtsOf args.dropLast) (valsOf args) = some b ∧
      out = b ++ zeros (calcsize ((trailing args).getD [])) ++ rawBytes data := by
  unfold encode at h
  cases hp : packAll (fmtsOf args.dropLast) (valsOf args) with
  | none => simp [hp] at h
  | some b => simp [hp] at h; exact ⟨b, rfl, by simp [← h]⟩

theorem encode_length (args : List Arg) (data : RawData) (out : List UInt8) (h : encode args data = some out) :
    out.length = calcsize (fullFmt args) + (rawBytes data).length := by
  obtain ⟨b, hb, rfl⟩ := encode_general args data out h
  simp [packAll_length _ _ _ hb, fullFmt]; omega

/-! ### format/value groups: `roundtrip(cmd, pos, off, f₁, v₁…, f₂, v₂…, [t], data=…)` -/

abbrev Group := Fmt × List Val

def groupArgs (g : Group) : List Arg := .fmt g.1 :: g.2.map .val

def trailArgs : Option Fmt → List Arg
  | some t => [.fmt t]
  | none => []

def argsOf (gs : List Group) (t : Option Fmt) : List Arg := gs.flatMap groupArgs ++ trailArgs t

/-- every group is a valid `pack` call by itself; the packed bytes per group -/
def packGroups : List Group → Option (List (List UInt8))
  | [] => some []
  | g :: gs =>
    match packAll g.1 g.2, packGroups gs with
    | some b, some bs => some (b :: bs)
    | _, _ => none

theorem fmtsOf_groupArgs (g : Group) : fmtsOf (groupArgs g) = g.1 := by
  obtain ⟨f, vs⟩ := g
  simp only [groupArgs, fmtsOf]
  induction vs with
  | nil => simp [fmtsOf]
  | cons v vs ih => simpa [fmtsOf] using ih

theorem valsOf_groupArgs (g : Group) : valsOf (groupArgs g) = g.2 := by
  obtain ⟨f, vs⟩ := g
  simp only [groupArgs, valsOf]
  induction vs with
  | nil => simp [valsOf]
  | cons v vs ih => simpa [valsOf] using ih

theorem fmtsOf_groups (gs : List Group) : fmtsOf (gs.flatMap groupArgs) = gs.flatMap (·.1) := by
  induction gs with
  | nil => rfl
  | cons g gs ih => simp [fmtsOf_groupArgs, ih]

theorem valsOf_groups (gs : List Group) : valsOf (gs.flatMap groupArgs) = gs.flatMap (·.2) := by
  induction gs with
  | nil => rfl
  | cons g gs ih => simp [valsOf_groupArgs, ih]

theorem packAll_groups (gs : List Group) (bss : List (List UInt8)) (h : packGroups gs = some bss) :
    packAll (gs.flatMap (·.1)) (gs.flatMap (·.2)) = some bss.flatten := by
  induction gs generalizing bss with
  | nil => simp [packGroups] at h; subst h; simp [packAll]
  | cons g gs ih =>
    simp only [packGroups] at h
    split at h
    · rename_i b bs hb hbs
      simp only [Option.some.injEq] at h
      subst h
      simp [packAll_append _ _ _ _ _ hb, ih bs hbs]
    · cases h

theorem packGroups_concat (gs : List Group) (g : Group) (bss : List (List UInt8))
    (h : packGroups (gs ++ [g]) = some bss) :
    ∃ bs b, packGroups gs = some bs ∧ packAll g.1 g.2 = some b ∧ bss = bs ++ [b] := by
  induction gs generalizing bss with
  | nil =>
    simp only [List.nil_append, packGroups] at h
    split at h
    · rename_i b bs hb hbs
      simp at hbs h
      exact ⟨[], b, rfl, hb, by simp [← h, ← hbs]⟩
    · cases h
  | cons g0 gs ih =>
    simp only [List.cons_append, packGroups] at h
    split at h
    · rename_i b0 bs0 hb0 hbs0
      simp only [Option.some.injEq] at h
      obtain ⟨bs, b, i1, i2, i3⟩ := ih bs0 hbs0
      exact ⟨b0 :: bs, b, by simp [packGroups, hb0, i1], i2, by simp [← h, i3]⟩
    · cases h

/-- a format packed without any value consists of pad bytes (and empty repeats): all zeros -/
theorem packAll_no_values (f : Fmt) (b : List UInt8) (h : packAll f [] = some b) : b = zeros (calcsize f) := by
  induction f generalizing b with
  | nil => simp [packAll] at h; simp [← h, zeros]
  | cons it f ih =>
    simp only [packAll] at h
    split at h
    · cases h
    · rename_i bi r hi
      have hbi : bi = zeros (itemSize it) ∧ r = [] := by
        cases hc : it.code <;> simp only [packItem, hc] at hi
        case x => simp at hi; simp [← hi.1, ← hi.2, itemSize, hc, Code.size]
        case s => simp at hi
        all_goals
          cases hn : it.count with
          | zero => simp [hn, packInts] at hi; simp [← hi.1, ← hi.2, itemSize, hn, zeros]
          | succ n => simp [hn, packInts] at hi
      obtain ⟨rfl, rfl⟩ := hbi
      cases hr : packAll f [] with
      | none => simp [hr] at h
      | some b' =>
        simp only [hr, Option.map_some, Option.some.injEq] at h
        rw [← h, ih b' hr]
        simp [zeros, ← List.replicate_append_replicate]

/-- ENCODE LAYOUT: for groups that are valid `pack` calls by themselves, an optional trailing
read-only format and any raw data, the queued payload is
enc(values of group 1) ++ … ++ enc(values of group n) ++ zeros(calcsize trailing) ++ raw -/
theorem encode_layout (gs : List Group) (t : Option Fmt) (data : RawData) (bss : List (List UInt8))
    (h : packGroups gs = some bss) :
    encode (argsOf gs t) data = some (bss.flatten ++ zeros (calcsize (t.getD [])) ++ rawBytes data) := by
  cases t with
  | some t =>
    simp only [argsOf, trailArgs, encode_snoc_fmt, fmtsOf_groups, valsOf_groups, packAll_groups gs bss h]
    simp
  | none =>
    simp only [argsOf, trailArgs, List.append_nil, Option.getD_none, calcsize_nil]
    rcases List.eq_nil_or_concat gs with rfl | ⟨gs', g, rfl⟩
    · simp [packGroups] at h; subst h; simp [encode, packAll, fmtsOf, valsOf, trailing, zeros]
    · rw [List.concat_eq_append] at h ⊢
      obtain ⟨bs, b, h1, h2, rfl⟩ := packGroups_concat gs' g bss h
      obtain ⟨f, vs⟩ := g
      rcases List.eq_nil_or_concat vs with rfl | ⟨vs', v, rfl⟩
      · -- the last format has no values: it is the trailing read-only format
        have hz := packAll_no_values f b h2
        simp only [List.flatMap_append, List.flatMap_cons, List.flatMap_nil, List.append_nil, groupArgs,
          List.map_nil, encode_snoc_fmt, fmtsOf_groups, valsOf_groups, packAll_groups gs' bs h1]
        simp [hz, zeros]
      · simp only [List.concat_eq_append] at h h2 ⊢
        have e : (gs' ++ [(f, vs' ++ [v])]).flatMap groupArgs
            = (gs'.flatMap groupArgs ++ (.fmt f :: vs'.map .val)) ++ [.val v] := by
          simp [groupArgs]
        have hall := packAll_groups (gs' ++ [(f, vs' ++ [v])]) (bs ++ [b]) h
        rw [e, encode_snoc_val]
        simp only [fmtsOf_append, valsOf_append, fmtsOf_groups, valsOf_groups]
        have e1 : fmtsOf (Arg.fmt f :: vs'.map Arg.val) = f := fmtsOf_groupArgs (f, vs')
        have e2 : valsOf (Arg.fmt f :: vs'.map Arg.val) = vs' := valsOf_groupArgs (f, vs')
        rw [e1, e2]
        simp only [List.flatMap_append, List.flatMap_cons, List.flatMap_nil, List.append_nil,
          List.append_assoc] at hall ⊢
        simp [hall, zeros]

/-! ### decoding the response -/

def decGroups : List Group → List (List UInt8) → List Val
  | g :: gs, r :: rs => decodeAll g.1 r ++ decGroups gs rs
  | _, _ => []

/-- the response splits into one chunk per group, each of its format's size -/
def lensOk : List Group → List (List UInt8) → Prop
  | [], [] => True
  | g :: gs, r :: rs => r.length = calcsize g.1 ∧ lensOk gs rs
  | _, _ => False

theorem decodeAll_groups (gs : List Group) (rs : List (List UInt8)) (h : lensOk gs rs) (f2 : Fmt) (b2 : List UInt8) :
    decodeAll (gs.flatMap (·.1) ++ f2) (rs.flatten ++ b2) = decGroups gs rs ++ decodeAll f2 b2 ∧
    rs.flatten.length = calcsize (gs.flatMap (·.1)) := by
  induction gs generalizing rs with
  | nil =>
    cases rs with
    | nil => simp [decGroups]
    | cons r rs => simp [lensOk] at h
  | cons g gs ih =>
    cases rs with
    | nil => simp [lensOk] at h
    | cons r rs =>
      simp only [lensOk] at h
      obtain ⟨i1, i2⟩ := ih rs h.2
      simp only [List.flatMap_cons, List.flatten_cons, List.append_assoc, decGroups]
      rw [decodeAll_append _ _ _ _ h.1, i1]
      simp [h.1, i2]

theorem fullFmt_argsOf (gs : List Group) (t : Option Fmt) :
    fullFmt (argsOf gs t) = gs.flatMap (·.1) ++ t.getD [] := by
  rw [fullFmt_eq]
  cases t <;> simp [argsOf, trailArgs, fmtsOf_groups, fmtsOf]

theorem pyIndex_split (a n : Nat) : pyIndex (a + n) (((a + n : Nat) : Int) - (n : Int)) = a := by
  unfold pyIndex
  split <;> omega

/-- the fields the caller gets back: every group decoded from its own chunk, then the trailing format -/
def fieldsOf (gs : List Group) (t : Option Fmt) (rs : List (List UInt8)) (rt : List UInt8) : List Val :=
  decGroups gs rs ++ decodeAll (t.getD []) rt

/-- DECODE: whatever the bus put into the response (echo or overwrite), as long as it has the
request's shape — one chunk per group, the trailing format's bytes, the raw bytes — every group is
decoded with its own format from its own offset, the trailing format likewise, and when raw data
was given the raw chunk is returned as the last element -/
theorem decode_encode (gs : List Group) (t : Option Fmt) (data : RawData) (rs : List (List UInt8))
    (rt rraw : List UInt8) (hl : lensOk gs rs) (ht : rt.length = calcsize (t.getD []))
    (hraw : (rraw.length : Int) = rawLen data) (hne : argsOf gs t ≠ []) :
    decode (argsOf gs t) data (rs.flatten ++ rt ++ rraw) =
      some (match data with
        | .none => .tuple (fieldsOf gs t rs rt)
        | _ => .tupleRaw (fieldsOf gs t rs rt) rraw) := by
  obtain ⟨d1, d2⟩ := decodeAll_groups gs rs hl (t.getD []) rt
  have hlen : (rs.flatten ++ rt).length = calcsize (fullFmt (argsOf gs t)) := by
    simp [fullFmt_argsOf, d2, ht]
  have hemp : (argsOf gs t).isEmpty = false := by
    cases h : argsOf gs t with
    | nil => exact absurd h hne
    | cons a as => rfl
  have hk : pyIndex (rs.flatten ++ rt ++ rraw).length (((rs.flatten ++ rt ++ rraw).length : Int) - rawLen data)
      = (rs.flatten ++ rt).length := by
    rw [← hraw, List.length_append]
    exact pyIndex_split _ _
  cases data with
  | none =>
    simp only [rawLen] at hraw
    have : rraw = [] := by cases rraw with
      | nil => rfl
      | cons x xs => simp at hraw; omega
    subst this
    simp only [decode, unpackAll, List.append_nil, hlen, ↓reduceIte, Option.map_some, fieldsOf]
    rw [fullFmt_argsOf, d1]
  | bytes bs =>
    simp only [decode, hemp, Bool.false_eq_true, ↓reduceIte, hk]
    rw [List.take_left', List.drop_left']
    · simp only [unpackAll, hlen, ↓reduceIte, Option.map_some, fieldsOf]
      rw [fullFmt_argsOf, d1]
    · rfl
    · rfl
  | count n =>
    simp only [decode, hemp, Bool.false_eq_true, ↓reduceIte, hk]
    rw [List.take_left', List.drop_left']
    · simp only [unpackAll, hlen, ↓reduceIte, Option.map_some, fieldsOf]
      rw [fullFmt_argsOf, d1]
    · rfl
    · rfl

theorem lensOk_packGroups (gs : List Group) (bss : List (List UInt8)) (h : packGroups gs = some bss) :
    lensOk gs bss ∧ decGroups gs bss = gs.flatMap (fun g => echoAll g.1 g.2) := by
  induction gs generalizing bss with
  | nil => simp [packGroups] at h; subst h; simp [lensOk, decGroups]
  | cons g gs ih =>
    simp only [packGroups] at h
    split at h
    · rename_i b bs hb hbs
      simp only [Option.some.injEq] at h
      subst h
      obtain ⟨i1, i2⟩ := ih bs hbs
      exact ⟨⟨packAll_length _ _ _ hb, i1⟩, by simp [decGroups, decodeAll_packAll _ _ _ hb, i2]⟩
    · cases h

theorem rawBytes_length (data : RawData) (h : 0 ≤ rawLen data) : ((rawBytes data).length : Int) = rawLen data := by
  cases data with
  | none => rfl
  | bytes bs => rfl
  | count n => simp only [rawLen] at h; simp [rawBytes, rawLen]; omega

/-- ROUND TRIP on an echoing bus: the payload that `roundtrip` queues, sent back unchanged, is
decoded to the values that were sent (integers as given, `Ns` values cut/padded to N), zeros for
the trailing read-only format, and the raw data as the last element -/
theorem decode_echo (gs : List Group) (t : Option Fmt) (data : RawData) (bss : List (List UInt8))
    (h : packGroups gs = some bss) (hn : 0 ≤ rawLen data) (hne : argsOf gs t ≠ []) :
    ∃ out, encode (argsOf gs t) data = some out ∧
      decode (argsOf gs t) data out =
        some (match data with
          | .none => .tuple (gs.flatMap (fun g => echoAll g.1 g.2) ++ decodeAll (t.getD []) (zeros (calcsize (t.getD []))))
          | _ => .tupleRaw (gs.flatMap (fun g => echoAll g.1 g.2) ++ decodeAll (t.getD []) (zeros (calcsize (t.getD []))))
                  (rawBytes data)) := by
  refine ⟨_, encode_layout gs t data bss h, ?_⟩
  obtain ⟨l1, l2⟩ := lensOk_packGroups gs bss h
  have := decode_encode gs t data bss (zeros (calcsize (t.getD []))) (rawBytes data) l1 (by simp)
    (rawBytes_length data hn) hne
  rw [this]
  cases data <;> simp [fieldsOf, l2]

/-- with raw data but no format at all the response is returned as it is -/
theorem decode_raw_only (data : RawData) (ret : List UInt8) (hd : data ≠ .none) :
    decode [] data ret = some (.raw ret) := by
  cases data <;> simp [decode] at hd ⊢

/-- RAW TAIL: with at least one format and raw data of length n ≥ 0 (bytes of any length, also
empty; a count, also 0), for every response as long as the request: the fields are unpacked from
the front part and the returned tail is exactly the last n bytes -/
theorem raw_tail (args : List Arg) (data : RawData) (ret : List UInt8) (hargs : args ≠ [])
    (hd : data ≠ .none) (hn : 0 ≤ rawLen data)
    (hlen : ret.length = calcsize (fullFmt args) + (rawLen data).toNat) :
    decode args data ret =
      some (.tupleRaw (decodeAll (fullFmt args) (ret.take (calcsize (fullFmt args))))
                      (ret.drop (ret.length - (rawLen data).toNat))) ∧
    (ret.drop (ret.length - (rawLen data).toNat)).length = (rawLen data).toNat := by
  have hemp : args.isEmpty = false := by
    cases args with
    | nil => exact absurd rfl hargs
    | cons a as => rfl
  have hk : pyIndex ret.length ((ret.length : Int) - rawLen data) = calcsize (fullFmt args) := by
    obtain ⟨m, hm⟩ : ∃ m : Nat, rawLen data = (m : Int) := ⟨(rawLen data).toNat, by omega⟩
    rw [hm] at hlen ⊢
    simp only [Int.toNat_natCast] at hlen
    rw [hlen]
    exact pyIndex_split _ m
  have hsub : ret.length - (rawLen data).toNat = calcsize (fullFmt args) := by omega
  refine ⟨?_, by simp; omega⟩
  rw [hsub]
  cases data with
  | none => exact absurd rfl hd
  | bytes bs => simp [decode, hemp, hk, unpackAll]; omega
  | count n => simp [decode, hemp, hk, unpackAll]; omega

/-- the boundary the old slice `ret[:-0]` got wrong: empty raw data (`data=b""` or `data=0`)
returns all fields, decoded from the whole response, and an empty tail -/
theorem raw_tail_empty (args : List Arg) (data : RawData) (ret : List UInt8) (hargs : args ≠ [])
    (hd : data = .bytes [] ∨ data = .count 0) (hlen : ret.length = calcsize (fullFmt args)) :
    decode args data ret = some (.tupleRaw (decodeAll (fullFmt args) ret) []) := by
  have h0 : rawLen data = 0 := by rcases hd with rfl | rfl <;> rfl
  have := (raw_tail args data ret hargs (by rcases hd with rfl | rfl <;> simp) (by omega) (by simp [h0, hlen])).1
  rw [this, h0]
  simp [← hlen]

/-! ### the wire: which requests reach the bus at all

`roundtrip` hands the payload to the send loop; `Packet.append` decides whether a frame can carry
it.  These theorems pin the boundary: every payload up to `maxPayload` = MAXSIZE − PACKET_HEADER −
DATAGRAM_HEADER − DATAGRAM_TAIL bytes — a frame of exactly MAXSIZE bytes included — is sent and
decoded, only longer ones are refused. -/

open Ebv.Consts in
theorem sendable_iff (n : Nat) :
    sendable n = true ↔ PACKET_HEADER + n + DATAGRAM_HEADER + DATAGRAM_TAIL ≤ MAXSIZE := by
  unfold sendable appendSize
  by_cases h : PACKET_HEADER + n + DATAGRAM_HEADER + DATAGRAM_TAIL > MAXSIZE
  · simp [h]
  · simp [h]; omega

/-- the headers alone fit (checked on the limits regenerated from /repo) -/
theorem headers_fit : Ebv.Consts.PACKET_HEADER + Ebv.Consts.DATAGRAM_HEADER + Ebv.Consts.DATAGRAM_TAIL
    ≤ Ebv.Consts.MAXSIZE := by decide

theorem sendable_iff_le (n : Nat) : sendable n = true ↔ n ≤ maxPayload := by
  rw [sendable_iff]
  have := headers_fit
  unfold maxPayload
  omega

/-- the boundary itself: a payload of exactly `maxPayload` bytes makes a frame of exactly MAXSIZE
bytes and is sent; one byte more is refused -/
theorem wire_boundary :
    sendable maxPayload = true ∧ sendable (maxPayload + 1) = false ∧
    Ebv.Consts.PACKET_HEADER + maxPayload + Ebv.Consts.DATAGRAM_HEADER + Ebv.Consts.DATAGRAM_TAIL
      = Ebv.Consts.MAXSIZE := by
  refine ⟨(sendable_iff_le _).2 (Nat.le_refl _), ?_, ?_⟩
  · cases h : sendable (maxPayload + 1) with
    | false => rfl
    | true => have := (sendable_iff_le _).1 h; omega
  · have := headers_fit
    unfold maxPayload
    omega

/-- SENT: every request whose payload fits one frame goes out with exactly the payload of
`encode`, and its result is the decoding of its own response bytes -/
theorem wire_sent (args : List Arg) (data : RawData) (bus : List UInt8 → List UInt8) (out : List UInt8)
    (h : encode args data = some out) (hl : out.length ≤ maxPayload) :
    wire args data bus = .sent out (decode args data (bus out)) := by
  simp [wire, h, (sendable_iff_le _).2 hl]

/-- OverflowError is raised only for payloads no single frame can carry -/
theorem wire_overflow_iff (args : List Arg) (data : RawData) (bus : List UInt8 → List UInt8) :
    wire args data bus = .overflow ↔ ∃ out, encode args data = some out ∧ maxPayload < out.length := by
  unfold wire
  cases h : encode args data with
  | none => simp
  | some out =>
    simp only [Option.some.injEq, exists_eq_left']
    by_cases hle : out.length ≤ maxPayload
    · rw [if_pos ((sendable_iff_le _).2 hle)]
      refine ⟨fun h => ?_, fun h => ?_⟩
      · cases h
      · omega
    · have hns : ¬ sendable out.length = true := fun hs => hle ((sendable_iff_le _).1 hs)
      rw [if_neg hns]
      exact ⟨fun _ => (by omega), fun _ => rfl⟩

/-- ROUND TRIP over the wire with an echoing bus, for every grouped request that fits a frame -/
theorem wire_echo (gs : List Group) (t : Option Fmt) (data : RawData) (bss : List (List UInt8))
    (h : packGroups gs = some bss) (hn : 0 ≤ rawLen data) (hne : argsOf gs t ≠ [])
    (hfit : (bss.flatten ++ zeros (calcsize (t.getD [])) ++ rawBytes data).length ≤ maxPayload) :
    wire (argsOf gs t) data id =
      .sent (bss.flatten ++ zeros (calcsize (t.getD [])) ++ rawBytes data)
        (some (match data with
          | .none => .tuple (gs.flatMap (fun g => echoAll g.1 g.2) ++ decodeAll (t.getD []) (zeros (calcsize (t.getD []))))
          | _ => .tupleRaw (gs.flatMap (fun g => echoAll g.1 g.2) ++ decodeAll (t.getD []) (zeros (calcsize (t.getD []))))
                  (rawBytes data))) := by
  obtain ⟨out, e1, e2⟩ := decode_echo gs t data bss h hn hne
  have e3 := encode_layout gs t data bss h
  rw [e1] at e3
  cases e3
  rw [wire_sent _ _ _ _ e1 hfit]
  simp only [id]
  rw [e2]
  cases data <;> rfl

/-- several callers at once: the i-th outcome is decided by the i-th request alone -/
theorem wireAll_independent (reqs : List (List Arg × RawData × (List UInt8 → List UInt8))) (i : Nat) :
    (wireAll reqs)[i]? = reqs[i]?.map fun r => wire r.1 r.2.1 r.2.2 := by
  simp [wireAll]

/-! ### non-vacuity -/

def exGroups : List Group := [([⟨1, .H⟩, ⟨1, .I⟩], [.int 0x100, .int 0x1234]), ([⟨3, .s⟩], [.bytes [1, 2]])]

example : packGroups exGroups = some [[0, 1, 0x34, 0x12, 0, 0], [1, 2, 0]] := by decide
example : encode (argsOf exGroups (some [⟨1, .h⟩])) (.bytes []) = some [0, 1, 0x34, 0x12, 0, 0, 1, 2, 0, 0, 0] := by
  decide
example : decode (argsOf exGroups (some [⟨1, .h⟩])) (.count 0) [0, 1, 0x34, 0x12, 0, 0, 1, 2, 0, 0xff, 0xff]
    = some (.tupleRaw [.int 0x100, .int 0x1234, .bytes [1, 2, 0], .int (-1)] []) := by decide
example : decode (argsOf exGroups none) (.bytes [7, 7]) [0, 1, 0x34, 0x12, 0, 0, 1, 2, 0, 8, 9]
    = some (.tupleRaw [.int 0x100, .int 0x1234, .bytes [1, 2, 0]] [8, 9]) := by decide
example : encode [.fmt [⟨1, .B⟩], .val (.int 256)] .none = none := by decide
example : sendable 1472 = true ∧ sendable 1473 = false ∧ maxPayload = 1472 := by decide
example : wire [.fmt [⟨1, .B⟩], .val (.int 256)] .none id = .structError := by decide
example : wire [.fmt [⟨1, .H⟩], .val (.int 0x1234)] (.bytes [9]) id
    = .sent [0x34, 0x12, 9] (some (.tupleRaw [.int 0x1234] [9])) := by decide

end Ebv.C13
