import Ebv.Props.C21TVA
import Ebv.Props.C21TVB
import Ebv.Props.C21TVC
/-! C21 translation validation: for three regenerated bare fast groups (`Programs.fastA/B/C`, one and two write
datagrams) the bytecode of `FastSyncGroup.program` with `SterilePacket.activate` computes `Ebv.FastGroup.program`
(theorems `fastX.refines`, `fastX.idle`).  Below: a concrete invocation satisfying `Layout` (non-vacuity). -/
namespace Ebv.C21TV
open Ebv.Ebpf Ebv.XdpRun Ebv.Bytes

def exAddrs : Addrs := ⟨4096, 8192, 16384, 32768⟩
/-- a 48-byte frame for `fastA`: working counter at 44 is 2 (expected 1) -/
def exP : List UInt8 := List.replicate 44 0 ++ [2, 0, 0, 0]
def exMem : W → BitVec 8 := fun x =>
  if 16384 ≤ x.toNat ∧ x.toNat < 16384 + 48 then byte (exP.getD (x.toNat - 16384) 0)
  else if x.toNat = 8193 then 0x40 else if x.toNat = 8196 then 48 else if x.toNat = 8197 then 0x40
  else if x.toNat = 32768 then 7 else 0
def exState : State := ⟨fun k => if k = 10 then addr 4096 else if k = 1 then addr 8192 else 0xdeadbeef, exMem, 0⟩
def exEnv : Env where
  handle := fun fd => BitVec.ofInt 64 fd
  lookup := fun h k => if h = BitVec.ofInt 64 fastA.geo.varFd ∧ k = 0 then addr 32768 else 0
  rnd := 0
  tail := fun _ _ => false
  clob := fun _ _ _ => 0xbad

theorem exLayout : Layout fastA.geo exAddrs exEnv exState exP [] 7 (fun _ => false) where
  pc := rfl
  r10 := rfl
  r1 := rfl
  regions := by
    refine ⟨?_, ?_, ?_, ?_, ?_, ?_, ?_, ?_, ?_, ?_, ?_, ?_⟩ <;> simp [exAddrs, exP, geoOf, disjointIv]
  data := by decide
  data_end := by decide
  pkt := by decide
  cs_len := by decide
  counters := by intro k h; exact absurd h (by simp)
  drop := by decide
  lookup := by simp [exEnv, exAddrs]
  tail := by intro i; simp [exEnv]

/-- on this invocation the model says: command byte set, working counter cleared, one more error -/
example : FastGroup.program fastA.writers Programs.fastA_size exP 7 =
    (((exP.set 30 5).set 44 0).set 45 0, 8) := by decide

example : ∃ s', runXdp exEnv Programs.fastA 60 exState = .exit 3#64 s' ∧
    MemRel fastA.geo exAddrs exMem s'.mem (FastGroup.program fastA.writers Programs.fastA_size exP 7).1 []
      (FastGroup.program fastA.writers Programs.fastA_size exP 7).2 exP.length :=
  fastA.refines exLayout (by decide) (by decide) 60 (by omega)

end Ebv.C21TV
