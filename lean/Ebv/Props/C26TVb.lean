import Ebv.Props.C26TVa
/-! C26 translation validation, part b: segment lemmas for `SterilePacket.activate` (pc 20–25) and the enable bit
(pc 26–33) of `Programs.motorGroup`.  A segment lemma takes the registers it needs and a `MemRel` for the current
memory and gives `Steps` to the segment's end with the `MemRel` of the memory there. -/
namespace Ebv.C26TV
open Ebv.Ebpf Ebv.XdpRun Ebv.Bytes

variable {a : Addrs} {e : Env} {M0 M : W → BitVec 8} {q : List UInt8} {cs : List Nat} {er len : Nat} {R : Nat → W}

/-- a load from the map value is not affected by a store into the packet -/
theorem ld_map_st_pkt (hr : Regions geo a len) (M : W → BitVec 8) (k n v j m : Nat) (hk : k + n ≤ len) (hj : j + m ≤ 24) :
    loadN (storeN M (BitVec.ofNat 64 (a.dat + k)) n v) (BitVec.ofNat 64 (a.mp + j)) m =
      loadN M (BitVec.ofNat 64 (a.mp + j)) m := by
  obtain ⟨s1, s2, c1, p1, m0, m1, d1, d2, d3, d4, d5, d6⟩ := hr
  simp only [disjointIv, geo, Programs.motorGroup_varSize] at *
  exact loadN_storeN_disj M _ n v _ m (by omega) (by omega) (by omega)

theorem ld_map0_st_pkt (hr : Regions geo a len) (M : W → BitVec 8) (k n v m : Nat) (hk : k + n ≤ len) (hj : m ≤ 24) :
    loadN (storeN M (BitVec.ofNat 64 (a.dat + k)) n v) (BitVec.ofNat 64 a.mp) m = loadN M (BitVec.ofNat 64 a.mp) m := by
  have := ld_map_st_pkt hr M k n v 0 m hk (by omega)
  simpa using this

set_option hygiene false in
/-- preamble of the segment lemmas: load rules of the current memory, bounds -/
macro "ssetup" : tactic => `(tactic| (
  have hl := loads_of_rel hrel
  have hlp := hl.pkt
  have hle := hl.err
  have hv0 := hl.v0
  have hv1 := hl.v1
  have hv2 := hl.v2
  have hv3 := hl.v3
  have hv4 := hl.v4
  have hb0 : cs.getD 0 0 < 4294967296 := by rw [← hv0]; exact loadN_lt' M 4 _
  have hb1 : cs.getD 1 0 < 4294967296 := by rw [← hv1]; exact loadN_lt' M 4 _
  have hb2 : cs.getD 2 0 < 4294967296 := by rw [← hv2]; exact loadN_lt' M 4 _
  have hb3 : cs.getD 3 0 < 4294967296 := by rw [← hv3]; exact loadN_lt' M 4 _
  have hb4 : cs.getD 4 0 < 4294967296 := by rw [← hv4]; exact loadN_lt' M 4 _
  have hber : er < 4294967296 := by rw [← hle]; exact loadN_lt' M 4 _
  have hplen := hrel.plen
  have hreg' := hreg
  obtain ⟨s1, s2, c1, p1, m0, m1, -, -, -, -, -, -⟩ := hreg'
  simp only [geo, Programs.motorGroup_varSize] at m1
  clear hl))

set_option maxRecDepth 4000 in
set_option maxHeartbeats 2000000 in
/-- `SterilePacket.activate`: command byte, working-counter check, working counter cleared -/
theorem seg_activate (hreg : Regions geo a len) (hrel : MemRel geo a M0 M q cs er len) (h : 63 < len)
    (h7 : R 7 = BitVec.ofNat 64 a.mp) (h9 : R 9 = BitVec.ofNat 64 a.dat) :
    ∃ R' M', Steps e Programs.motorGroup 6 ⟨R, M, 20⟩ ⟨R', M', 26⟩ ∧
      R' 7 = BitVec.ofNat 64 a.mp ∧ R' 9 = BitVec.ofNat 64 a.dat ∧
      MemRel geo a M0 M' (setRange (setRange q 48 (encLE 1 5)) 62 (encLE 2 0)) cs
        (if decLE (slice q 62 64) = 1 then er else (er + 1) % 4294967296) len := by
  ssetup
  have hb62 := decLE_lt (slice q 62 64)
  rw [length_slice _ _ _ (by omega)] at hb62
  simp only [Nat.reduceSub, Nat.reducePow] at hb62
  by_cases hw : decLE (slice q 62 64) = 1
  · refine ⟨?R', ?M', ⟨4, by omega, fun f => ?eq⟩, ?h7, ?h9, ?rel⟩
    case eq =>
      ysim [h7, h9, hlp, hle, ld_map0_st_pkt hreg, hw]
      rfl
    case rel =>
      rw [if_pos hw]
      exact MemRel.store_pkt hreg geo_ok (MemRel.store_pkt hreg geo_ok hrel 48 1 5 (by omega)) 62 2 0 (by omega)
    all_goals simp only [upd_apply, Nat.reduceEqDiff, if_false, h7, h9]
  · refine ⟨?R2, ?M2, ⟨6, by omega, fun f => ?eq2⟩, ?h72, ?h92, ?rel2⟩
    case eq2 =>
      ysim [h7, h9, hlp, hle, ld_map0_st_pkt hreg, hw]
      rfl
    case rel2 =>
      rw [if_neg hw]
      exact MemRel.store_pkt hreg geo_ok
        (MemRel.store_drop hreg geo_ok (MemRel.store_pkt hreg geo_ok hrel 48 1 5 (by omega)) (er + 1)) 62 2 0 (by omega)
    all_goals simp only [upd_apply, Nat.reduceEqDiff, if_false, h7, h9]

set_option maxRecDepth 10000 in
theorem or_enable : ∀ b, b < 256 →
    (BitVec.setWidth 64 (BitVec.setWidth 32 (BitVec.ofNat 64 b) ||| 1#32)).toNat = b ||| 1 := by decide
set_option maxRecDepth 10000 in
theorem and_enable : ∀ b, b < 256 → (BitVec.ofNat 64 (b % 4294967296 &&& 4294967294)).toNat = b &&& 254 := by decide

set_option maxRecDepth 4000 in
set_option maxHeartbeats 2000000 in
/-- the enable bit of the motor terminal := (set_enable ≠ 0) -/
theorem seg_enable (hreg : Regions geo a len) (hrel : MemRel geo a M0 M q cs er len) (h : 63 < len)
    (h7 : R 7 = BitVec.ofNat 64 a.mp) (h9 : R 9 = BitVec.ofNat 64 a.dat) :
    ∃ R' M', Steps e Programs.motorGroup 8 ⟨R, M, 26⟩ ⟨R', M', 34⟩ ∧
      R' 7 = BitVec.ofNat 64 a.mp ∧ R' 9 = BitVec.ofNat 64 a.dat ∧
      MemRel geo a M0 M' (setRange q 58 (encLE 1 (if cs.getD 0 0 = 0 then decLE (slice q 58 59) &&& 254
        else decLE (slice q 58 59) ||| 1))) cs er len := by
  ssetup
  have hb58 := decLE_lt (slice q 58 59)
  rw [length_slice _ _ _ (by omega)] at hb58
  simp only [Nat.reduceSub, Nat.reducePow] at hb58
  by_cases hw : cs.getD 0 0 = 0
  · refine ⟨?R', ?M', ⟨5, by omega, fun f => ?eq⟩, ?h7, ?h9, ?rel⟩
    case eq =>
      ysim [h7, h9, hlp, hv0, hw, and_enable _ hb58]
      rfl
    case rel =>
      rw [if_pos hw]
      exact MemRel.store_pkt hreg geo_ok hrel 58 1 _ (by omega)
    all_goals simp only [upd_apply, Nat.reduceEqDiff, if_false, h7, h9]
  · refine ⟨?R2, ?M2, ⟨6, by omega, fun f => ?eq2⟩, ?h72, ?h92, ?rel2⟩
    case eq2 =>
      ysim [h7, h9, hlp, hv0, hw, or_enable _ hb58]
      rfl
    case rel2 =>
      rw [if_neg hw]
      exact MemRel.store_pkt hreg geo_ok hrel 58 1 _ (by omega)
    all_goals simp only [upd_apply, Nat.reduceEqDiff, if_false, h7, h9]

end Ebv.C26TV
