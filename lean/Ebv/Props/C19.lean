import Ebv.Model.ProcVar
/-! C19 — process variables access their own bits and bytes on both paths.

`data` is the EtherCAT frame Python's `current_data` holds, `hdr ++ data` with `hdr.length = ETHERNET_HEADER` the
Ethernet frame the generated program sees; `s` is `PacketVar._start` and `s + ETHERNET_HEADER` what
`PacketVar.fmt_addr` hands to the generator.  All statements are for every frame, offset, format, bit number 0..7
and value.

Layers: (1) single accesses — own bytes / own bit, both paths read the same value and leave the same frame, round
trips; (2) whole statements and whole `update()` / `program()` bodies (`step_agree`, `run_agree`) for the Python
path as `_start` of the present sync group defines it; (3) the Python path as the code really runs it, with the
accessors cached on the `PacketVar` objects and rebuilt when the device or the group's `pdo_assign` changed:
`run_agree_full` (any cached accessors, any sharing of objects); the caching before that repair is kept as
`bindOld` and refuted on the two former known-finding witnesses (`run_agree_full_old_refuted*`). -/
namespace Ebv.C19
open Ebv.Bytes Ebv.ProcVar Ebv.Consts

/-! ### frame lemmas -/

theorem slice_append_left (h d : List UInt8) (a b : Nat) :
    slice (h ++ d) (h.length + a) (h.length + b) = slice d a b := by
  unfold slice
  rw [List.drop_length_add_append]
  congr 1; omega

theorem setRange_append_left (h d new : List UInt8) (a : Nat) :
    setRange (h ++ d) (h.length + a) new = h ++ setRange d a new := by
  unfold setRange
  rw [List.take_length_add_append, Nat.add_assoc, List.drop_length_add_append]
  simp [List.append_assoc]

/-- only the low `n` bytes of a register reach the frame -/
theorem encLE_mod (n r : Nat) : encLE n (r % 256 ^ n) = encLE n r := by
  have h := encLE_decLE (encLE n r)
  rw [length_encLE, decLE_encLE_mod] at h
  exact h

theorem pow256 (n : Nat) : ((256 ^ n : Nat) : Int) = 2 ^ (8 * n) := by
  rw [Int.pow_mul]; norm_cast

/-- a register congruent to `v` modulo the store width stores the bytes `struct.pack` produces for `v` -/
theorem encLE_congr_int (n r : Nat) (v : Int) (h : (r : Int) % 2 ^ (8 * n) = v % 2 ^ (8 * n)) :
    encLE n r = encLE n (ofSigned n v) := by
  rw [← encLE_mod n r]
  congr 1
  unfold ofSigned
  have h2 : ((r % 256 ^ n : Nat) : Int) = v % 2 ^ (8 * n) := by
    rw [Int.natCast_emod, pow256, h]
  rw [← h2]
  rfl

theorem slice_one (l : List UInt8) (a : Nat) (h : a < l.length) : slice l a (a + 1) = [l.getD a 0] := by
  simp [slice, List.take_one, List.head?_drop, List.getD_eq_getElem?_getD, h]

theorem setRange_one (l : List UInt8) (a : Nat) (b : UInt8) (h : a < l.length) : setRange l a [b] = l.set a b := by
  unfold setRange
  rw [List.set_eq_take_append_cons_drop]
  simp [h]

theorem ldx_one (l : List UInt8) (a : Nat) (h : a < l.length) : ldx l a 1 = (l.getD a 0).toNat := by
  simp [ldx, slice_one l a h, decLE]

theorem stx_one (l : List UInt8) (a r : Nat) (h : a < l.length) : stx l a 1 r = l.set a (UInt8.ofNat (r % 256)) := by
  simp [stx, encLE, setRange_one l a _ h]

/-! ### byte formats: get -/

theorem slice_len_le (data : List UInt8) (s n : Nat) : (slice data s (s + n)).length ≤ n := by
  simp [slice]; omega

theorem decLE_slice_lt (data : List UInt8) (s n : Nat) : decLE (slice data s (s + n)) < 256 ^ n :=
  Nat.lt_of_lt_of_le (decLE_lt _) (Nat.pow_le_pow_right (by decide) (slice_len_le data s n))

/-- in one memory: the register after the emitted load (+ sign extension) is the two's complement image, in the
register width the code computes in, of what `struct.unpack_from('<'+fmt)` returns -/
theorem load_eq (f : Fmt) (long : Bool) (mem : List UInt8) (a : Nat) :
    (progLoad f long mem a : Int) = pyGet f mem a % 2 ^ regWidth f long := by
  unfold progLoad pyGet ldx
  have hx := decLE_slice_lt mem a f.width
  generalize decLE (slice mem a (a + f.width)) = x at hx
  cases f <;> cases long <;>
    simp [Fmt.width, Fmt.signed, regWidth, sext, toSigned] at hx ⊢ <;>
    (repeat' split) <;> omega

/-- the payload behind the Ethernet header is the EtherCAT frame: the same bytes are decoded -/
theorem pyGet_payload (f : Fmt) (hdr data : List UInt8) (s : Nat) (hh : hdr.length = ETHERNET_HEADER) :
    pyGet f (hdr ++ data) (s + ETHERNET_HEADER) = pyGet f data s := by
  unfold pyGet
  have : slice (hdr ++ data) (s + ETHERNET_HEADER) (s + ETHERNET_HEADER + f.width) = slice data s (s + f.width) := by
    rw [← hh, Nat.add_comm s, Nat.add_assoc]
    exact slice_append_left ..
  rw [this]

/-- **both paths read the same value**: Python `get` on the EtherCAT frame vs the program's load on the Ethernet
frame with that payload, for every format, frame and offset -/
theorem paths_agree_get (f : Fmt) (long : Bool) (hdr data : List UInt8) (s : Nat)
    (hh : hdr.length = ETHERNET_HEADER) :
    (progLoad f long (hdr ++ data) (s + ETHERNET_HEADER) : Int) = pyGet f data s % 2 ^ regWidth f long := by
  rw [load_eq, pyGet_payload f hdr data s hh]

/-- the value Python reads lies in the format's range -/
theorem pyGet_fits (f : Fmt) (data : List UInt8) (s : Nat) : fits f (pyGet f data s) = true := by
  unfold pyGet fits
  have hx := decLE_slice_lt data s f.width
  generalize decLE (slice data s (s + f.width)) = x at hx
  cases f <;> simp [Fmt.width, Fmt.signed, toSigned, fitsS, fitsU] at hx ⊢ <;> (repeat' split) <;> omega

/-- in one memory: the run-time test `value != 0` on the loaded register is Python's truthiness of the value -/
theorem test_eq (f : Fmt) (mem : List UInt8) (a : Nat) : progTest f mem a = (pyGet f mem a != 0) := by
  have h := load_eq f false mem a
  have hf := pyGet_fits f mem a
  unfold progTest
  generalize progLoad f false mem a = r at h
  generalize pyGet f mem a = v at h hf
  have : (r = 0) ↔ (v = 0) := by
    cases f <;>
      simp only [fits, Fmt.signed, fitsS, fitsU, Bool.and_eq_true, decide_eq_true_eq, ↓reduceIte, Bool.false_eq_true] at hf <;>
      simp [Fmt.width, regWidth] at h hf <;> omega
  by_cases hv : v = 0
  · have hr : r = 0 := this.mpr hv
    simp [hv, hr]
  · have hr : r ≠ 0 := fun h0 => hv (this.mp h0)
    have h1 : (r != 0) = true := by simpa using hr
    have h2 : (v != 0) = true := by simpa using hv
    rw [h1, h2]

/-- a byte-format source used as a run-time Boolean (`value != 0`) tests what Python's truthiness tests -/
theorem paths_agree_test (f : Fmt) (hdr data : List UInt8) (s : Nat) (hh : hdr.length = ETHERNET_HEADER) :
    progTest f (hdr ++ data) (s + ETHERNET_HEADER) = (pyGet f data s != 0) := by
  rw [test_eq, pyGet_payload f hdr data s hh]

/-! ### byte formats: set -/

/-- **Python `set` writes only the variable's own bytes**, and they hold the packed value -/
theorem py_own_bytes (f : Fmt) (data d' : List UInt8) (s : Nat) (v : Int)
    (hb : s + f.width ≤ data.length) (h : pySet f data s v = some d') :
    d'.length = data.length ∧ (∀ i, i < s ∨ s + f.width ≤ i → d'[i]? = data[i]?) ∧
    slice d' s (s + f.width) = encLE f.width (ofSigned f.width v) := by
  unfold pySet at h
  split at h
  · injection h with h
    subst h
    have hl : s + (encLE f.width (ofSigned f.width v)).length ≤ data.length := by simpa using hb
    refine ⟨length_setRange _ _ _ hl, ?_, ?_⟩
    · intro i hi
      exact getElem?_setRange_outside _ _ _ _ hl (by simpa using hi)
    · have := slice_setRange_same data s (encLE f.width (ofSigned f.width v)) hl
      simpa using this
  · cases h

/-- **the program's store writes only the variable's own bytes**: the low bytes of the register -/
theorem prog_own_bytes (frame : List UInt8) (a n r : Nat) (hb : a + n ≤ frame.length) :
    (stx frame a n r).length = frame.length ∧ (∀ i, i < a ∨ a + n ≤ i → (stx frame a n r)[i]? = frame[i]?) ∧
    slice (stx frame a n r) a (a + n) = encLE n r := by
  have hl : a + (encLE n r).length ≤ frame.length := by simpa using hb
  refine ⟨length_setRange _ _ _ hl, ?_, ?_⟩
  · intro i hi
    exact getElem?_setRange_outside _ _ _ _ hl (by simpa using hi)
  · have := slice_setRange_same frame a (encLE n r) hl
    simpa [stx] using this

/-- **both paths write the same frame**: for a representable value `v` and any register congruent to it modulo
the store width (a constant's image, a loaded and sign-extended variable, …) -/
theorem paths_agree_set (f : Fmt) (hdr data : List UInt8) (s : Nat) (v : Int) (r : Nat)
    (hh : hdr.length = ETHERNET_HEADER) (hv : fits f v = true)
    (hr : (r : Int) % 2 ^ (8 * f.width) = v % 2 ^ (8 * f.width)) :
    ∃ d', pySet f data s v = some d' ∧ stx (hdr ++ data) (s + ETHERNET_HEADER) f.width r = hdr ++ d' := by
  refine ⟨setRange data s (encLE f.width (ofSigned f.width v)), by simp [pySet, hv], ?_⟩
  unfold stx
  rw [encLE_congr_int _ _ _ hr, ← hh, Nat.add_comm s]
  exact setRange_append_left ..

/-- a constant source: the stored immediate / `LD_IMM64` image is congruent to the constant -/
theorem constReg_congr (k : Int) (n : Nat) (hn : n ≤ 8) : ((constReg k : Nat) : Int) % 2 ^ (8 * n) = k % 2 ^ (8 * n) := by
  unfold constReg ofSigned
  have hp : (0 : Int) < 2 ^ (8 * 8) := Int.pow_pos (by decide)
  rw [Int.toNat_of_nonneg (Int.emod_nonneg _ (by omega))]
  exact Int.emod_emod_of_dvd _ ⟨2 ^ (8 * 8 - 8 * n), by rw [← Int.pow_add]; congr 1; omega⟩

/-- **`self.out = self.inp` leaves the same frame on both paths** whenever the value read is representable in the
destination format (formats may differ; the register width is the one `_set` asks for) -/
theorem paths_agree_copy (fs fd : Fmt) (hdr data : List UInt8) (ss sd : Nat)
    (hh : hdr.length = ETHERNET_HEADER) (hv : fits fd (pyGet fs data ss) = true) :
    ∃ d', pySet fd data sd (pyGet fs data ss) = some d' ∧
      stx (hdr ++ data) (sd + ETHERNET_HEADER) fd.width
        (progLoad fs (fd.width == 8) (hdr ++ data) (ss + ETHERNET_HEADER)) = hdr ++ d' := by
  apply paths_agree_set fd hdr data sd _ _ hh hv
  rw [paths_agree_get fs _ hdr data ss hh]
  generalize pyGet fs data ss = v
  cases fs <;> cases fd <;> simp [regWidth, Fmt.width] <;> omega

/-! ### value round trips -/

theorem ofSigned_lt (f : Fmt) (v : Int) : ofSigned f.width v < 256 ^ f.width := by
  unfold ofSigned
  have hp : (0 : Int) < 2 ^ (8 * f.width) := Int.pow_pos (by decide)
  have h1 := Int.emod_lt_of_pos v hp
  have h0 := Int.emod_nonneg v (Int.ne_of_gt hp)
  have : ((v % 2 ^ (8 * f.width)).toNat : Int) < ((256 ^ f.width : Nat) : Int) := by
    rw [pow256, Int.toNat_of_nonneg h0]; exact h1
  exact Int.ofNat_lt.mp this

/-- **Python round trip**: every value of the format's range is read back exactly -/
theorem py_roundtrip (f : Fmt) (data d' : List UInt8) (s : Nat) (v : Int)
    (hb : s + f.width ≤ data.length) (h : pySet f data s v = some d') : pyGet f d' s = v := by
  have hfit : fits f v = true := by
    unfold pySet at h
    split at h
    · assumption
    · cases h
  have ⟨_, _, hs⟩ := py_own_bytes f data d' s v hb h
  unfold pyGet
  rw [hs, decLE_encLE _ _ (ofSigned_lt f v)]
  unfold fits at hfit
  cases hsg : f.signed
  · simp only [hsg] at hfit ⊢
    simp only [Bool.false_eq_true, ↓reduceIte, fitsU, Bool.and_eq_true, decide_eq_true_eq] at hfit ⊢
    unfold ofSigned
    rw [Int.emod_eq_of_lt hfit.1 hfit.2]
    exact Int.toNat_of_nonneg hfit.1
  · simp only [hsg, ↓reduceIte] at hfit ⊢
    exact toSigned_ofSigned f.width (by cases f <;> simp [Fmt.width]) v hfit

/-- **program round trip**: after storing a register congruent to a representable `v`, the emitted load yields `v`
(as the two's complement image in the register width) -/
theorem prog_roundtrip (f : Fmt) (long : Bool) (frame : List UInt8) (a r : Nat) (v : Int)
    (hb : a + f.width ≤ frame.length) (hv : fits f v = true)
    (hr : (r : Int) % 2 ^ (8 * f.width) = v % 2 ^ (8 * f.width)) :
    (progLoad f long (stx frame a f.width r) a : Int) = v % 2 ^ regWidth f long := by
  rw [load_eq]
  congr 1
  apply py_roundtrip f frame _ a v hb
  simp [pySet, hv, stx, encLE_congr_int _ _ _ hr]

/-! ### single bits -/

/-- byte-level facts by exhaustive kernel evaluation over all 256 byte values × 8 bit numbers:
Python's `|= mask` / `&= ~mask` change exactly bit `n`; the emitted 32-bit `OR` / `AND` + byte store compute the
same byte; the emitted mask-and-shift / `JSET` read the same bit as `bool(byte & mask)` -/
theorem byte_facts : ∀ x : Fin 256, ∀ n : Fin 8,
    (∀ j : Fin 8, (pySetByte (UInt8.ofNat x.val) n.val true).toNat.testBit j.val
        = (if j = n then true else x.val.testBit j.val)) ∧
    (∀ j : Fin 8, (pySetByte (UInt8.ofNat x.val) n.val false).toNat.testBit j.val
        = (if j = n then false else x.val.testBit j.val)) ∧
    UInt8.ofNat (((x.val ||| (1 <<< n.val)) % 2 ^ 32) % 256) = pySetByte (UInt8.ofNat x.val) n.val true ∧
    UInt8.ofNat ((x.val &&& (2 ^ 32 - 1 - 2 ^ n.val)) % 256) = pySetByte (UInt8.ofNat x.val) n.val false ∧
    ((x.val &&& ((2 ^ 1 - 1) <<< n.val)) >>> n.val) = (if UInt8.ofNat x.val &&& mask n.val != 0 then 1 else 0) ∧
    ((x.val &&& (1 <<< n.val) != 0) = (UInt8.ofNat x.val &&& mask n.val != 0)) ∧
    ((UInt8.ofNat x.val &&& mask n.val != 0) = x.val.testBit n.val) := by
  decide +kernel

theorem byte_facts' (x : UInt8) (n : Nat) (hn : n < 8) :
    (∀ j, j < 8 → (pySetByte x n true).toNat.testBit j = (if j = n then true else x.toNat.testBit j)) ∧
    (∀ j, j < 8 → (pySetByte x n false).toNat.testBit j = (if j = n then false else x.toNat.testBit j)) ∧
    UInt8.ofNat (((x.toNat ||| (1 <<< n)) % 2 ^ 32) % 256) = pySetByte x n true ∧
    UInt8.ofNat ((x.toNat &&& (2 ^ 32 - 1 - 2 ^ n)) % 256) = pySetByte x n false ∧
    ((x.toNat &&& ((2 ^ 1 - 1) <<< n)) >>> n) = (if x &&& mask n != 0 then 1 else 0) ∧
    ((x.toNat &&& (1 <<< n) != 0) = (x &&& mask n != 0)) ∧
    ((x &&& mask n != 0) = x.toNat.testBit n) := by
  have h := byte_facts ⟨x.toNat, x.toNat_lt⟩ ⟨n, hn⟩
  simp only [UInt8.ofNat_toNat] at h
  obtain ⟨h1, h2, h3, h4, h5, h6, h7⟩ := h
  refine ⟨?_, ?_, h3, h4, h5, h6, h7⟩
  · intro j hj
    have := h1 ⟨j, hj⟩
    simpa [Fin.ext_iff] using this
  · intro j hj
    have := h2 ⟨j, hj⟩
    simpa [Fin.ext_iff] using this

/-- setting bit `n` of a byte to `b` changes no other bit -/
theorem pySetByte_bits (x : UInt8) (n : Nat) (b : Bool) (hn : n < 8) :
    (∀ j, j ≠ n → (pySetByte x n b).toNat.testBit j = x.toNat.testBit j) ∧
    (pySetByte x n b).toNat.testBit n = b := by
  have ⟨h1, h2, _⟩ := byte_facts' x n hn
  constructor
  · intro j hj
    by_cases hj8 : j < 8
    · cases b
      · simpa [hj] using h2 j hj8
      · simpa [hj] using h1 j hj8
    · have hp : (2 : Nat) ^ 8 ≤ 2 ^ j := Nat.pow_le_pow_right (by decide) (by omega)
      rw [Nat.testBit_lt_two_pow (Nat.lt_of_lt_of_le (UInt8.toNat_lt _) hp),
          Nat.testBit_lt_two_pow (Nat.lt_of_lt_of_le (UInt8.toNat_lt _) hp)]
  · cases b
    · simpa using h2 n hn
    · simpa using h1 n hn

/-- **Python `set` of a bit changes only that bit**: every other byte of the frame and the other 7 bits of the
byte are unchanged, the bit holds the value -/
theorem py_own_bit (data : List UInt8) (s n : Nat) (b : Bool) (hs : s < data.length) (hn : n < 8) :
    (pySetBit data s n b).length = data.length ∧
    (∀ i, i ≠ s → (pySetBit data s n b)[i]? = data[i]?) ∧
    (∀ j, j ≠ n → ((pySetBit data s n b).getD s 0).toNat.testBit j = (data.getD s 0).toNat.testBit j) ∧
    ((pySetBit data s n b).getD s 0).toNat.testBit n = b := by
  have hg : (pySetBit data s n b).getD s 0 = pySetByte (data.getD s 0) n b := by
    simp [pySetBit, List.getD_eq_getElem?_getD, hs]
  refine ⟨by simp [pySetBit], ?_, ?_, ?_⟩
  · intro i hi
    simp [pySetBit, List.getElem?_set_ne (Ne.symm hi)]
  · rw [hg]; exact (pySetByte_bits _ n b hn).1
  · rw [hg]; exact (pySetByte_bits _ n b hn).2

/-- the emitted read-modify-write computes, in one memory, the byte Python computes (constant and run-time) -/
theorem prog_bit_eq (frame : List UInt8) (a n : Nat) (b : Bool) (ha : a < frame.length) (hn : n < 8) :
    progSetBitConst frame a n b = pySetBit frame a n b ∧ progSetBitRt frame a n b = pySetBit frame a n b := by
  have ⟨_, _, h3, h4, _⟩ := byte_facts' (frame.getD a 0) n hn
  have on : progBitOn frame a n = pySetBit frame a n true := by
    unfold progBitOn pySetBit; rw [ldx_one _ _ ha, stx_one _ _ _ ha, h3]
  have off : progBitOff frame a n = pySetBit frame a n false := by
    unfold progBitOff pySetBit; rw [ldx_one _ _ ha, stx_one _ _ _ ha, h4]
  cases b <;> simp [progSetBitConst, progSetBitRt, on, off]

/-- **the program's bit write changes only that bit**, for a constant and for a run-time Boolean -/
theorem prog_own_bit (frame : List UInt8) (a n : Nat) (b : Bool) (ha : a < frame.length) (hn : n < 8) :
    ∀ out, (out = progSetBitConst frame a n b ∨ out = progSetBitRt frame a n b) →
    out.length = frame.length ∧
    (∀ i, i ≠ a → out[i]? = frame[i]?) ∧
    (∀ j, j ≠ n → (out.getD a 0).toNat.testBit j = (frame.getD a 0).toNat.testBit j) ∧
    (out.getD a 0).toNat.testBit n = b := by
  intro out ho
  have ⟨e1, e2⟩ := prog_bit_eq frame a n b ha hn
  have : out = pySetBit frame a n b := by
    rcases ho with ho | ho
    · rw [ho, e1]
    · rw [ho, e2]
  rw [this]
  exact py_own_bit frame a n b ha hn

theorem getD_append_right (h d : List UInt8) (s : Nat) : (h ++ d).getD (h.length + s) 0 = d.getD s 0 := by
  simp [List.getD_eq_getElem?_getD, List.getElem?_append_right]

theorem pySetBit_append (h d : List UInt8) (s n : Nat) (b : Bool) :
    pySetBit (h ++ d) (h.length + s) n b = h ++ pySetBit d s n b := by
  unfold pySetBit
  rw [getD_append_right, List.set_append_right _ _ (by omega)]
  simp

/-- **both paths leave the same frame after a bit write**, with a constant and with a run-time Boolean -/
theorem paths_agree_set_bit (hdr data : List UInt8) (s n : Nat) (b : Bool)
    (hh : hdr.length = ETHERNET_HEADER) (hs : s < data.length) (hn : n < 8) :
    progSetBitConst (hdr ++ data) (s + ETHERNET_HEADER) n b = hdr ++ pySetBit data s n b ∧
    progSetBitRt (hdr ++ data) (s + ETHERNET_HEADER) n b = hdr ++ pySetBit data s n b := by
  have ha : s + ETHERNET_HEADER < (hdr ++ data).length := by simp [hh]; omega
  have ⟨e1, e2⟩ := prog_bit_eq (hdr ++ data) (s + ETHERNET_HEADER) n b ha hn
  rw [e1, e2, ← hh, Nat.add_comm s, pySetBit_append]
  exact ⟨rfl, rfl⟩

/-- **both paths read the same bit**: the value (`LDX B`, mask, shift) and the run-time test (`JSET`) -/
theorem paths_agree_get_bit (hdr data : List UInt8) (s n : Nat)
    (hh : hdr.length = ETHERNET_HEADER) (hs : s < data.length) (hn : n < 8) :
    progGetBit (hdr ++ data) (s + ETHERNET_HEADER) n = (if pyGetBit data s n then 1 else 0) ∧
    progTestBit (hdr ++ data) (s + ETHERNET_HEADER) n = pyGetBit data s n ∧
    pyGetBit data s n = (data.getD s 0).toNat.testBit n := by
  have ha : s + ETHERNET_HEADER < (hdr ++ data).length := by simp [hh]; omega
  have hb : (hdr ++ data).getD (s + ETHERNET_HEADER) 0 = data.getD s 0 := by
    rw [← hh, Nat.add_comm s]; exact getD_append_right ..
  have ⟨_, _, _, _, h5, h6, h7⟩ := byte_facts' (data.getD s 0) n hn
  simp only [progGetBit, progTestBit, pyGetBit, ldx_one _ _ ha, hb]
  exact ⟨h5, h6, h7⟩

/-- **bit round trip** on both paths -/
theorem bit_roundtrip (data : List UInt8) (s n : Nat) (b : Bool) (hs : s < data.length) (hn : n < 8) :
    pyGetBit (pySetBit data s n b) s n = b ∧ progTestBit (progSetBitConst data s n b) s n = b ∧
    progTestBit (progSetBitRt data s n b) s n = b := by
  have ⟨e1, e2⟩ := prog_bit_eq data s n b hs hn
  have ⟨hl, _, _, hbit⟩ := py_own_bit data s n b hs hn
  have hs' : s < (pySetBit data s n b).length := by omega
  have ⟨_, _, _, _, _, h6, h7⟩ := byte_facts' ((pySetBit data s n b).getD s 0) n hn
  have hpy : pyGetBit (pySetBit data s n b) s n = b := by
    unfold pyGetBit; rw [h7]; exact hbit
  refine ⟨hpy, ?_, ?_⟩
  · rw [e1]; unfold progTestBit; rw [ldx_one _ _ hs', h6]; exact hpy
  · rw [e2]; unfold progTestBit; rw [ldx_one _ _ hs', h6]; exact hpy

/-! ### whole statements and whole device programs (the functions the driver runs) -/
/-- `r` and `v` agree modulo a store of `m` bytes -/
def Congr (m r : Nat) (v : Int) : Prop := (r : Int) % 2 ^ (8 * m) = v % 2 ^ (8 * m)

theorem pow2_dvd (a b : Nat) (h : a ≤ b) : (2 : Int) ^ a ∣ 2 ^ b :=
  ⟨2 ^ (b - a), by rw [← Int.pow_add]; congr 1; omega⟩

theorem congr_of_mod (m W r : Nat) (v : Int) (h : (r : Int) = v % 2 ^ W) (hm : 8 * m ≤ W) : Congr m r v := by
  unfold Congr
  rw [h]
  exact Int.emod_emod_of_dvd _ (pow2_dvd _ _ hm)

theorem regWidth_ge (f : Fmt) (long : Bool) (m : Nat) (hm : m ≤ 4 ∨ (long = true ∧ m ≤ 8)) : 8 * m ≤ regWidth f long := by
  unfold regWidth
  rcases hm with hm | ⟨hl, hm⟩
  · split <;> omega
  · simp [hl]; omega

/-- what is in a DeviceVar's memory decodes to the value -/
theorem pyGet_enc (f : Fmt) (v : Int) (hv : fits f v = true) : pyGet f (encLE f.width (ofSigned f.width v)) 0 = v := by
  apply py_roundtrip f (encLE f.width (ofSigned f.width v)) _ 0 v (by simp)
  simp [pySet, hv, setRange]

theorem stx_full (mem : List UInt8) (n r : Nat) (h : mem.length = n) : stx mem 0 n r = encLE n r := by
  simp [stx, setRange, h]



/-- the fast group's DeviceVar memory holds, in its own format, the value the slow group keeps as an attribute -/
def DvRel (v : Int) (m : Fmt × List UInt8) : Prop :=
  fits m.1 v = true ∧ m.2 = encLE m.1.width (ofSigned m.1.width v)

/-- the two paths' states correspond: the program's frame is the Ethernet header followed by Python's frame -/
structure Rel (hdr : List UInt8) (py : PyState) (pr : ProgState) : Prop where
  frame : pr.frame = hdr ++ py.data
  len : py.dvs.length = pr.dvs.length
  dvs : ∀ (j : Nat) (v : Int) (m : Fmt × List UInt8), py.dvs[j]? = some v → pr.dvs[j]? = some m → DvRel v m

/-- every linked variable lies inside the frame (Python would raise otherwise); bit numbers are 0..7 -/
def InBounds (vars : List Linked) (len : Nat) : Prop :=
  ∀ l ∈ vars, ∀ s, start l.assign l.var = some s →
    match l.var.size with
    | .fmt f => s + f.width ≤ len
    | .bit n => s < len ∧ n < 8

theorem read_agree (hdr : List UInt8) (hh : hdr.length = ETHERNET_HEADER) (vars : List Linked) (py : PyState)
    (pr : ProgState) (hR : Rel hdr py pr) (hB : InBounds vars py.data.length)
    (i : Nat) (v : Int) (h : pyRead vars py i = some v) (long : Bool) :
    ∃ r, progReg vars pr long (.var i) = some r ∧ (∀ m, (m ≤ 4 ∨ (long = true ∧ m ≤ 8)) → Congr m r v) ∧
      progCond vars pr (.var i) = some (v != 0) := by
  unfold pyRead at h
  cases hl : vars[i]? with
  | none => simp [hl] at h
  | some l =>
    cases hs : start l.assign l.var with
    | none => simp [hl, hs] at h
    | some s =>
      have hmem : l ∈ vars := List.mem_of_getElem? hl
      have hb := hB l hmem s hs
      have ha : progAddr l.assign l.var = some (s + ETHERNET_HEADER) := by simp [progAddr, hs]
      simp only [hl, hs, Option.bind_eq_bind, Option.bind_some, pyReadAt] at h
      cases hsz : l.var.size with
      | fmt f =>
        simp only [hsz, pure, Option.some.injEq] at h
        subst h
        refine ⟨progLoad f long pr.frame (s + ETHERNET_HEADER), by simp [progReg, hl, ha, hsz], ?_, ?_⟩
        · intro m hm
          rw [hR.frame]
          exact congr_of_mod m _ _ _ (paths_agree_get f long hdr py.data s hh) (regWidth_ge f long m hm)
        · simp only [progCond, hl, ha, hsz, Option.bind_eq_bind, Option.bind_some, pure, Option.some.injEq]
          rw [hR.frame]
          exact paths_agree_test f hdr py.data s hh
      | bit n =>
        simp only [hsz] at hb h
        simp only [pure, Option.some.injEq] at h
        have ⟨g1, g2, _⟩ := paths_agree_get_bit hdr py.data s n hh hb.1 hb.2
        refine ⟨progGetBit pr.frame (s + ETHERNET_HEADER) n, by simp [progReg, hl, ha, hsz], ?_, ?_⟩
        · intro m _
          rw [hR.frame, g1, ← h]
          unfold Congr
          split <;> rfl
        · simp only [progCond, hl, ha, hsz, Option.bind_eq_bind, Option.bind_some, pure, Option.some.injEq]
          rw [hR.frame, g2, ← h]
          cases pyGetBit py.data s n <;> rfl


theorem dv_agree (hdr : List UInt8) (vars : List Linked) (py : PyState) (pr : ProgState) (hR : Rel hdr py pr)
    (j : Nat) (v : Int) (h : py.dvs[j]? = some v) (long : Bool) :
    ∃ r, progReg vars pr long (.dv j) = some r ∧ (∀ m, (m ≤ 4 ∨ (long = true ∧ m ≤ 8)) → Congr m r v) ∧
      progCond vars pr (.dv j) = some (v != 0) := by
  have hj : j < pr.dvs.length := by
    rw [← hR.len]; exact (List.getElem?_eq_some_iff.mp h).1
  obtain ⟨⟨f, mem⟩, hm⟩ : ∃ m, pr.dvs[j]? = some m := ⟨pr.dvs[j], List.getElem?_eq_getElem hj⟩
  have ⟨hfit, hmem⟩ := hR.dvs j v (f, mem) h hm
  simp only at hfit hmem
  have hget : pyGet f mem 0 = v := by rw [hmem]; exact pyGet_enc f v hfit
  refine ⟨progLoad f long mem 0, by simp [progReg, hm], ?_, ?_⟩
  · intro m hm'
    have := load_eq f long mem 0
    rw [hget] at this
    exact congr_of_mod m _ _ _ this (regWidth_ge f long m hm')
  · simp only [progCond, hm, Option.bind_eq_bind, Option.bind_some, pure, Option.some.injEq]
    rw [test_eq, hget]

theorem value_agree (hdr : List UInt8) (hh : hdr.length = ETHERNET_HEADER) (vars : List Linked) (py : PyState)
    (pr : ProgState) (hR : Rel hdr py pr) (hB : InBounds vars py.data.length)
    (src : Src) (v : Int) (h : pyValue vars py src = some v) (long : Bool) :
    ∃ r, progReg vars pr long src = some r ∧ (∀ m, (m ≤ 4 ∨ (long = true ∧ m ≤ 8)) → Congr m r v) ∧
      progCond vars pr src = some (v != 0) := by
  cases src with
  | var i => exact read_agree hdr hh vars py pr hR hB i v h long
  | dv j => exact dv_agree hdr vars py pr hR j v h long
  | const k =>
    simp only [pyValue, Option.some.injEq] at h
    subst h
    refine ⟨constReg k, rfl, ?_, rfl⟩
    intro m hm
    exact constReg_congr k m (by omega)



theorem width_long (f : Fmt) : f.width ≤ 4 ∨ ((f.width == 8) = true ∧ f.width ≤ 8) := by
  cases f <;> simp [Fmt.width]

theorem store_agree (hdr : List UInt8) (hh : hdr.length = ETHERNET_HEADER) (vars : List Linked) (py py' : PyState)
    (pr : ProgState) (hR : Rel hdr py pr) (hB : InBounds vars py.data.length)
    (d : Nat) (src : Src) (v : Int) (hv : pyValue vars py src = some v) (hs : pyStore vars py d v = some py') :
    ∃ pr', progStore vars pr d src = some pr' ∧ Rel hdr py' pr' ∧ py'.data.length = py.data.length ∧
      pr'.dvs = pr.dvs := by
  unfold pyStore at hs
  cases hl : vars[d]? with
  | none => simp [hl] at hs
  | some l =>
    cases hst : start l.assign l.var with
    | none => simp [hl, hst] at hs
    | some s =>
      have hb := hB l (List.mem_of_getElem? hl) s hst
      have ha : progAddr l.assign l.var = some (s + ETHERNET_HEADER) := by simp [progAddr, hst]
      simp only [hl, hst, Option.bind_eq_bind, Option.bind_some, pyStoreAt] at hs
      cases hsz : l.var.size with
      | fmt f =>
        simp only [hsz] at hb hs
        cases hp : pySet f py.data s v with
        | none => simp [hp] at hs
        | some data' =>
          simp only [hp, Option.map_some, Option.some.injEq] at hs
          subst hs
          have hfit : fits f v = true := by
            unfold pySet at hp; split at hp
            · assumption
            · cases hp
          obtain ⟨r, hr, hc, _⟩ := value_agree hdr hh vars py pr hR hB src v hv (f.width == 8)
          obtain ⟨d', hd', hst'⟩ := paths_agree_set f hdr py.data s v r hh hfit (hc f.width (width_long f))
          rw [hp] at hd'
          injection hd' with hd'
          subst hd'
          refine ⟨{ pr with frame := stx pr.frame (s + ETHERNET_HEADER) f.width r }, ?_, ⟨?_, hR.len, hR.dvs⟩, ?_, rfl⟩
          · simp [progStore, hl, ha, hsz, hr]
          · simp only; rw [hR.frame]; exact hst'
          · exact (py_own_bytes f py.data _ s v hb hp).1
      | bit n =>
        simp only [hsz] at hb hs
        simp only [Option.some.injEq] at hs
        subst hs
        have ⟨g1, g2⟩ := paths_agree_set_bit hdr py.data s n (v != 0) hh hb.1 hb.2
        have hlen : (pySetBit py.data s n (v != 0)).length = py.data.length := by simp [pySetBit]
        cases src with
        | const k =>
          simp only [pyValue, Option.some.injEq] at hv
          subst hv
          refine ⟨{ pr with frame := progSetBitConst pr.frame (s + ETHERNET_HEADER) n (k != 0) }, ?_, ⟨?_, hR.len, hR.dvs⟩, hlen, rfl⟩
          · simp [progStore, hl, ha, hsz]
          · simp only; rw [hR.frame]; exact g1
        | var i =>
          obtain ⟨_, _, _, hc⟩ := value_agree hdr hh vars py pr hR hB (.var i) v hv false
          refine ⟨{ pr with frame := progSetBitRt pr.frame (s + ETHERNET_HEADER) n (v != 0) }, ?_, ⟨?_, hR.len, hR.dvs⟩, hlen, rfl⟩
          · simp [progStore, hl, ha, hsz, hc]
          · simp only; rw [hR.frame]; exact g2
        | dv j =>
          obtain ⟨_, _, _, hc⟩ := value_agree hdr hh vars py pr hR hB (.dv j) v hv false
          refine ⟨{ pr with frame := progSetBitRt pr.frame (s + ETHERNET_HEADER) n (v != 0) }, ?_, ⟨?_, hR.len, hR.dvs⟩, hlen, rfl⟩
          · simp [progStore, hl, ha, hsz, hc]
          · simp only; rw [hR.frame]; exact g2



/-- the property's domain for one statement: a value stored into a DeviceVar fits that DeviceVar's format
(a slow group keeps any Python integer, the fast group keeps the low bytes) -/
def GetFits (fmts : List Fmt) (vars : List Linked) (py : PyState) : Op → Prop
  | .get j i => ∃ f, fmts[j]? = some f ∧ ∀ v, pyRead vars py i = some v → fits f v = true
  | .set _ _ => True

def RunFits (fmts : List Fmt) (vars : List Linked) : PyState → List Op → Prop
  | _, [] => True
  | py, o :: os => GetFits fmts vars py o ∧ ∀ py', pyStep vars py o = some py' → RunFits fmts vars py' os

/-- **one statement** (`self.x = …` in `update()` resp. `program()`): if the Python path executes it (values
representable), the program path executes it too and leaves the same frame and the same DeviceVar values -/
theorem step_agree (hdr : List UInt8) (hh : hdr.length = ETHERNET_HEADER) (vars : List Linked) (py py' : PyState)
    (pr : ProgState) (hR : Rel hdr py pr) (hB : InBounds vars py.data.length) (op : Op)
    (hF : GetFits (pr.dvs.map (·.1)) vars py op) (hs : pyStep vars py op = some py') :
    ∃ pr', progStep vars pr op = some pr' ∧ Rel hdr py' pr' ∧ py'.data.length = py.data.length ∧
      pr'.dvs.map (·.1) = pr.dvs.map (·.1) := by
  cases op with
  | set d src =>
    simp only [pyStep] at hs
    cases hv : pyValue vars py src with
    | none => simp [hv] at hs
    | some v =>
      simp only [hv, Option.bind_some] at hs
      obtain ⟨pr', h1, h2, h3, h4⟩ := store_agree hdr hh vars py py' pr hR hB d src v hv hs
      exact ⟨pr', h1, h2, h3, by rw [h4]⟩
  | get j i =>
    simp only [pyStep] at hs
    cases hv : pyRead vars py i with
    | none => simp [hv] at hs
    | some v =>
      simp only [hv, Option.map_some, Option.some.injEq] at hs
      subst hs
      obtain ⟨f, hf, hfit⟩ := hF
      have hfit := hfit v hv
      rw [List.getElem?_map] at hf
      cases hm : pr.dvs[j]? with
      | none => simp [hm] at hf
      | some fm =>
        obtain ⟨f', mem⟩ := fm
        simp only [hm, Option.map_some, Option.some.injEq] at hf
        subst hf
        have hj : j < pr.dvs.length := (List.getElem?_eq_some_iff.mp hm).1
        have hjp : j < py.dvs.length := by rw [hR.len]; exact hj
        have hold := hR.dvs j py.dvs[j] (f', mem) (List.getElem?_eq_getElem hjp) hm
        have hlen : mem.length = f'.width := by
          have := hold.2
          simp only at this
          rw [this]; simp
        obtain ⟨r, hr, hc, _⟩ := read_agree hdr hh vars py pr hR hB i v hv (f'.width == 8)
        have hnew : stx mem 0 f'.width r = encLE f'.width (ofSigned f'.width v) := by
          rw [stx_full mem _ r hlen]
          exact encLE_congr_int _ _ _ (hc f'.width (width_long f'))
        refine ⟨{ pr with dvs := pr.dvs.set j (f', stx mem 0 f'.width r) }, ?_, ⟨hR.frame, ?_, ?_⟩, rfl, ?_⟩
        · simp [progStep, hm, hr]
        · simp [hR.len]
        · intro j' v' m' h1 h2
          simp only [List.getElem?_set] at h1 h2
          by_cases hjj : j = j'
          · subst hjj
            simp only [↓reduceIte, hjp, hj, Option.some.injEq] at h1 h2
            subst h1 h2
            exact ⟨hfit, hnew⟩
          · simp only [hjj, ↓reduceIte] at h1 h2
            exact hR.dvs j' v' m' h1 h2
        · simp only
          apply List.ext_getElem?
          intro k
          simp only [List.getElem?_map, List.getElem?_set]
          by_cases hjk : j = k
          · subst hjk
            have he : pr.dvs[j] = (f', mem) := by
              have := List.getElem?_eq_getElem hj
              rw [hm] at this
              injection this with this
              exact this.symm
            simp [hj, he]
          · simp [hjk]

/-- **a device's whole `update()` / `program()`**: for every list of statements, every frame and Ethernet header,
if the run stays representable the fast program leaves exactly the frame the Python path leaves (behind the
untouched Ethernet header) and its DeviceVars decode to the values Python holds -/
theorem run_agree (hdr : List UInt8) (hh : hdr.length = ETHERNET_HEADER) (vars : List Linked) (ops : List Op) :
    ∀ (py py' : PyState) (pr : ProgState), Rel hdr py pr → InBounds vars py.data.length →
      RunFits (pr.dvs.map (·.1)) vars py ops → pyRun vars py ops = some py' →
      ∃ pr', progRun vars pr ops = some pr' ∧ pr'.frame = hdr ++ py'.data ∧
        pr'.dvs.map (fun m => pyGet m.1 m.2 0) = py'.dvs := by
  induction ops with
  | nil =>
    intro py py' pr hR _ _ h
    simp only [pyRun, Option.some.injEq] at h
    subst h
    refine ⟨pr, rfl, hR.frame, ?_⟩
    apply List.ext_getElem?
    intro j
    simp only [List.getElem?_map]
    cases hm : pr.dvs[j]? with
    | none =>
      have : pr.dvs.length ≤ j := List.getElem?_eq_none_iff.mp hm
      simp [List.getElem?_eq_none_iff.mpr (hR.len ▸ this)]
    | some m =>
      have hj : j < py.dvs.length := by rw [hR.len]; exact (List.getElem?_eq_some_iff.mp hm).1
      have ⟨hfit, hmem⟩ := hR.dvs j py.dvs[j] m (List.getElem?_eq_getElem hj) hm
      simp only [Option.map_some, List.getElem?_eq_getElem hj, Option.some.injEq]
      rw [hmem]; exact pyGet_enc m.1 _ hfit
  | cons o os ih =>
    intro py py' pr hR hB hF h
    simp only [pyRun] at h
    cases hs : pyStep vars py o with
    | none => simp [hs] at h
    | some py1 =>
      simp only [hs, Option.bind_some] at h
      obtain ⟨pr1, h1, hR1, hl1, hf1⟩ := step_agree hdr hh vars py py1 pr hR hB o hF.1 hs
      have := ih py1 py' pr1 hR1 (hl1 ▸ hB) (hf1 ▸ hF.2 py1 hs) h
      obtain ⟨pr', h2, h3⟩ := this
      exact ⟨pr', by simp [progRun, h1, h2], h3⟩

/-- the states the driver (and the harness) start from are related -/
theorem rel_init (hdr data : List UInt8) (dvs : List (Fmt × Int)) (h : ∀ p ∈ dvs, fits p.1 p.2 = true) :
    Rel hdr ⟨data, dvs.map (·.2)⟩ ⟨hdr ++ data, dvs.map fun p => (p.1, encLE p.1.width (ofSigned p.1.width p.2))⟩ := by
  refine ⟨rfl, by simp, ?_⟩
  intro j v m h1 h2
  simp only [List.getElem?_map] at h1 h2
  cases hp : dvs[j]? with
  | none => simp [hp] at h1
  | some p =>
    simp only [hp, Option.map_some, Option.some.injEq] at h1 h2
    subst h1 h2
    exact ⟨h p (List.mem_of_getElem? hp), rfl⟩

/-! ### the cached accessors of the real Python path (repaired code: `_rebound`) -/

/-- whatever closure is cached on the object, a call by `dev` under `a` uses `_start` of `a` -/
theorem bindNew_ok (c : Option (Nat × Assign)) (dev : Nat) (a : Assign) (v : Var) (s : Nat) (hs : start a v = some s) :
    ∃ g, bindNew c dev a v = .ok (s, g) := by
  cases c with
  | none => exact ⟨some (dev, a), by simp [bindNew, rebind, hs]⟩
  | some p =>
    obtain ⟨d, a'⟩ := p
    by_cases h : (d == dev && a' == a) = true
    · have ha : a' = a := by simp only [Bool.and_eq_true, beq_iff_eq] at h; exact h.2
      subst ha
      exact ⟨some (d, a'), by simp only [bindNew, h, ↓reduceIte, hs]⟩
    · exact ⟨some (dev, a), by simp only [bindNew, h, Bool.false_eq_true, ↓reduceIte, rebind, hs]⟩

theorem getter_ok (vars : List Linked) (caches : List PvCache) (i : Nat) (l : Linked) (s : Nat)
    (hl : vars[i]? = some l) (hs : start l.assign l.var = some s) :
    ∃ caches', getterStart bindNew vars caches i = .ok (l, s, caches') := by
  obtain ⟨g, hb⟩ := bindNew_ok (caches.getD l.obj PvCache.empty).getter l.dev l.assign l.var s hs
  exact ⟨caches.set l.obj { caches.getD l.obj PvCache.empty with getter := g },
    by simp only [getterStart, linkedAt, hl, bind, Except.bind, hb, pure, Except.pure]⟩

theorem setter_ok (vars : List Linked) (caches : List PvCache) (i : Nat) (l : Linked) (s : Nat)
    (hl : vars[i]? = some l) (hs : start l.assign l.var = some s) :
    ∃ caches', setterStart bindNew vars caches i = .ok (l, s, caches') := by
  obtain ⟨g, hb⟩ := bindNew_ok (caches.getD l.obj PvCache.empty).setter l.dev l.assign l.var s hs
  exact ⟨caches.set l.obj { caches.getD l.obj PvCache.empty with setter := g },
    by simp only [setterStart, linkedAt, hl, bind, Except.bind, hb, pure, Except.pure]⟩

theorem valueC_of_value (vars : List Linked) (caches : List PvCache) (st : PyState) (src : Src) (v : Int)
    (h : pyValue vars st src = some v) : ∃ caches', pyValueC bindNew vars ⟨st, caches⟩ src = .ok (v, caches') := by
  cases src with
  | var i =>
    simp only [pyValue, pyRead] at h
    cases hl : vars[i]? with
    | none => simp [hl] at h
    | some l =>
      cases hs : start l.assign l.var with
      | none => simp [hl, hs] at h
      | some s =>
        simp only [hl, hs, Option.bind_eq_bind, Option.bind_some, pure, Option.some.injEq] at h
        obtain ⟨c', h1⟩ := getter_ok vars caches i l s hl hs
        exact ⟨c', by simp only [pyValueC, h1, bind, Except.bind, pure, Except.pure, h]⟩
  | dv j =>
    simp only [pyValue] at h
    exact ⟨caches, by simp only [pyValueC, h]⟩
  | const k =>
    simp only [pyValue, Option.some.injEq] at h
    exact ⟨caches, by simp only [pyValueC, h]⟩

/-- the cached accessors do what `_start` of the present group says, whatever is cached on the objects -/
theorem stepC_of_step (vars : List Linked) (caches : List PvCache) (st st' : PyState) (op : Op)
    (h : pyStep vars st op = some st') : ∃ caches', pyStepC vars ⟨st, caches⟩ op = .ok ⟨st', caches'⟩ := by
  cases op with
  | get j i =>
    simp only [pyStep] at h
    cases hv : pyRead vars st i with
    | none => simp [hv] at h
    | some v =>
      simp only [hv, Option.map_some, Option.some.injEq] at h
      obtain ⟨c', h1⟩ := valueC_of_value vars caches st (.var i) v hv
      exact ⟨c', by simp only [pyStepC, pyStepW, h1, h]⟩
  | set d src =>
    simp only [pyStep] at h
    cases hv : pyValue vars st src with
    | none => simp [hv] at h
    | some v =>
      simp only [hv, Option.bind_some, pyStore] at h
      obtain ⟨c1, h1⟩ := valueC_of_value vars caches st src v hv
      cases hl : vars[d]? with
      | none => simp [hl] at h
      | some l =>
        cases hs : start l.assign l.var with
        | none => simp [hl, hs] at h
        | some s =>
          simp only [hl, hs, Option.bind_eq_bind, Option.bind_some] at h
          obtain ⟨c2, h3⟩ := setter_ok vars c1 d l s hl hs
          exact ⟨c2, by simp only [pyStepC, pyStepW, h1, h3, h]⟩

theorem runC_of_run (vars : List Linked) (ops : List Op) :
    ∀ (caches : List PvCache) (st st' : PyState), pyRun vars st ops = some st' →
    ∃ caches', pyRunC vars ⟨st, caches⟩ ops = .ok ⟨st', caches'⟩ := by
  induction ops with
  | nil =>
    intro caches st st' h
    simp only [pyRun, Option.some.injEq] at h
    exact ⟨caches, by simp only [pyRunC, pyRunW, h]⟩
  | cons o os ih =>
    intro caches st st' h
    simp only [pyRun] at h
    cases hs : pyStep vars st o with
    | none => simp [hs] at h
    | some st1 =>
      simp only [hs, Option.bind_some] at h
      obtain ⟨c1, h1⟩ := stepC_of_step vars caches st st1 o hs
      obtain ⟨c2, h3⟩ := ih c1 st1 st' h
      simp only [pyStepC] at h1
      simp only [pyRunC] at h3
      exact ⟨c2, by simp only [pyRunC, pyRunW, h1, h3]⟩

/-- **C19 for whole device programs, full strength**: for every frame, header, list of linked variables and
statements and **whatever accessors are cached on the `PacketVar` objects** (earlier sync groups, objects linked to
several devices), the real Python path and the generated program leave the same frame and the same DeviceVar values -/
theorem run_agree_full (hdr : List UInt8) (hh : hdr.length = ETHERNET_HEADER) (vars : List Linked) (ops : List Op)
    (py py' : PyState) (pr : ProgState) (caches : List PvCache)
    (hR : Rel hdr py pr) (hB : InBounds vars py.data.length) (hF : RunFits (pr.dvs.map (·.1)) vars py ops)
    (h : pyRun vars py ops = some py') :
    ∃ caches' pr', pyRunC vars ⟨py, caches⟩ ops = .ok ⟨py', caches'⟩ ∧ progRun vars pr ops = some pr' ∧
      pr'.frame = hdr ++ py'.data ∧ pr'.dvs.map (fun m => pyGet m.1 m.2 0) = py'.dvs := by
  obtain ⟨c', h1⟩ := runC_of_run vars ops caches py py' h
  obtain ⟨pr', h2, h3, h4⟩ := run_agree hdr hh vars ops py py' pr hR hB hF h
  exact ⟨c', pr', h1, h2, h3, h4⟩

/-! #### the caching before the repair (commit "fix: process variables kept stale offsets …") violated this -/

/-- the full statement for the old accessors (`bindOld`: never rebuilt, `assert instance is device`) -/
def run_agree_full_old : Prop :=
  ∀ (hdr : List UInt8) (vars : List Linked) (ops : List Op) (py py' : PyState) (pr : ProgState) (caches : List PvCache),
    hdr.length = ETHERNET_HEADER → Rel hdr py pr → InBounds vars py.data.length →
    RunFits (pr.dvs.map (·.1)) vars py ops → pyRun vars py ops = some py' →
    ∃ caches', pyRunCOld vars ⟨py, caches⟩ ops = .ok ⟨py', caches'⟩

def wHdr : List UInt8 := List.replicate 14 0
def wData : List UInt8 := List.replicate 40 0
/-- one `B` output at region base 26 -/
def wVars : List Linked := [⟨⟨.out, 0, .fmt .B⟩, ⟨none, some 26⟩, 0, 0⟩]
/-- its `set` accessor was built while the device ran in a group that put the region at 30 -/
def wStale : List PvCache := [⟨none, some (0, ⟨none, some 30⟩)⟩]

theorem wInBounds : InBounds wVars wData.length := by
  intro l hl s hs
  simp only [wVars, List.mem_cons, List.not_mem_nil, or_false] at hl
  subst hl
  simp [start, Assign.base] at hs
  subst hs
  simp [wData, Fmt.width]

/-- **old code, stale start**: `self.out = 1` must write byte 26 (the program does); the old Python path wrote byte 30 -/
theorem run_agree_full_old_refuted : ¬ run_agree_full_old := by
  intro h
  obtain ⟨c', hc⟩ := h wHdr wVars [.set 0 (.const 1)] ⟨wData, []⟩ ⟨wData.set 26 1, []⟩ ⟨wHdr ++ wData, []⟩
    wStale (by decide) ⟨rfl, rfl, by intro j v m h1; simp at h1⟩ wInBounds ⟨trivial, fun _ _ => trivial⟩ (by decide)
  have h2 := congrArg (fun r => r.toOption.map (fun c => c.st.data)) hc
  simp only [Except.toOption, Option.map_some] at h2
  exact absurd h2 (by decide)

/-- on that witness the old path wrote the foreign byte 30; the repaired path writes byte 26 -/
theorem stale_start_old_vs_new :
    (pyRunCOld wVars ⟨⟨wData, []⟩, wStale⟩ [.set 0 (.const 1)]).toOption.map (fun c => c.st.data) = some (wData.set 30 1) ∧
    (pyRunC wVars ⟨⟨wData, []⟩, wStale⟩ [.set 0 (.const 1)]).toOption.map (fun c => c.st.data) = some (wData.set 26 1) := by
  decide

/-! #### invariance under restart

The same group object may be started again after its terminals were configured differently (`SyncGroup.start`
allocates anew), any number of times, each earlier start under any layout, with any statements or Python reads, ended
normally or by an exception.  Nothing of that reaches the present cycle. -/

/-- whatever history of earlier starts the objects went through, the present cycle is the cycle of fresh objects -/
theorem restart_invariant (hist : List Earlier) (caches0 : List PvCache) (vars : List Linked) (ops : List Op)
    (py py' : PyState) (h : pyRun vars py ops = some py') :
    ∃ caches', pyRunC vars ⟨py, historyCaches caches0 hist⟩ ops = .ok ⟨py', caches'⟩ :=
  runC_of_run vars ops (historyCaches caches0 hist) py py' h

/-- … and agrees with the generated program of the present layout -/
theorem restart_agree (hdr : List UInt8) (hh : hdr.length = ETHERNET_HEADER) (hist : List Earlier) (caches0 : List PvCache)
    (vars : List Linked) (ops : List Op) (py py' : PyState) (pr : ProgState)
    (hR : Rel hdr py pr) (hB : InBounds vars py.data.length) (hF : RunFits (pr.dvs.map (·.1)) vars py ops)
    (h : pyRun vars py ops = some py') :
    ∃ caches' pr', pyRunC vars ⟨py, historyCaches caches0 hist⟩ ops = .ok ⟨py', caches'⟩ ∧ progRun vars pr ops = some pr' ∧
      pr'.frame = hdr ++ py'.data ∧ pr'.dvs.map (fun m => pyGet m.1 m.2 0) = py'.dvs :=
  run_agree_full hdr hh vars ops py py' pr (historyCaches caches0 hist) hR hB hF h

/-- Python reads after any history see the variable's own bytes/bit at the present start -/
theorem restart_read (hist : List Earlier) (caches0 : List PvCache) (vars : List Linked) (i : Nat)
    (l : Linked) (s : Nat) (hl : vars[i]? = some l) (hs : start l.assign l.var = some s) :
    ∃ caches', getterStart bindNew vars (historyCaches caches0 hist) i = .ok (l, s, caches') := by
  obtain ⟨c, h⟩ := getter_ok vars (historyCaches caches0 hist) i l s hl hs
  exact ⟨c, h⟩

/-- non-vacuity, and the restart that a cache keyed on the *identity* of the group (kept across `allocate`) gets wrong:
the output region moved from 30 to 26 between two starts of device 0's group; the present path writes byte 26, a
closure that survives (`bindOld`, same device) writes byte 30 -/
def wEarlier : Earlier := { vars := [⟨⟨.out, 0, .fmt .B⟩, ⟨none, some 30⟩, 0, 0⟩], st := ⟨wData, []⟩, ops := [.set 0 (.const 1)] }

theorem restart_witness :
    historyCaches [PvCache.empty] [wEarlier] = wStale ∧
    (pyRunC wVars ⟨⟨wData, []⟩, historyCaches [PvCache.empty] [wEarlier]⟩ [.set 0 (.const 1)]).toOption.map (fun c => c.st.data)
      = some (wData.set 26 1) ∧
    (pyRunCOld wVars ⟨⟨wData, []⟩, historyCaches [PvCache.empty] [wEarlier]⟩ [.set 0 (.const 1)]).toOption.map (fun c => c.st.data)
      = some (wData.set 30 1) := by
  decide

/-! #### earlier program generations

A device may have been compiled into a program before — in an earlier fast group, or by an earlier `FastSyncGroup`
object over the same devices under another layout.  Generation leaves nothing on the objects, so histories that contain
generations are covered by `restart_invariant` / `restart_agree` (`hist` is arbitrary there), and the program of the
present group is `progRun` of the present layout alone. -/

theorem generation_leaves_nothing (e : Earlier) (h : e.generated = true) (caches : List PvCache) : e.leaves caches = caches := by
  simp [Earlier.leaves, h]

/-- a history of program generations only is no history -/
theorem generated_only_history (hist : List Earlier) (h : ∀ e ∈ hist, e.generated = true) (caches0 : List PvCache) :
    historyCaches caches0 hist = caches0 := by
  induction hist generalizing caches0 with
  | nil => rfl
  | cons e es ih =>
    simp only [historyCaches]
    rw [generation_leaves_nothing e (h e (by simp))]
    exact ih (fun e' he' => h e' (by simp [he'])) caches0

/-- after any number of earlier generations both paths of the present group are those of fresh objects -/
theorem generation_agree (hdr : List UInt8) (hh : hdr.length = ETHERNET_HEADER) (hist : List Earlier)
    (hg : ∀ e ∈ hist, e.generated = true) (vars : List Linked) (ops : List Op) (py py' : PyState) (pr : ProgState)
    (hR : Rel hdr py pr) (hB : InBounds vars py.data.length) (hF : RunFits (pr.dvs.map (·.1)) vars py ops)
    (h : pyRun vars py ops = some py') :
    historyCaches (List.replicate vars.length PvCache.empty) hist = List.replicate vars.length PvCache.empty ∧
    ∃ pr', progRun vars pr ops = some pr' ∧ pr'.frame = hdr ++ py'.data ∧ pr'.dvs.map (fun m => pyGet m.1 m.2 0) = py'.dvs := by
  refine ⟨generated_only_history hist hg _, ?_⟩
  obtain ⟨_, pr', _, h2, h3, h4⟩ := restart_agree hdr hh hist [] vars ops py py' pr hR hB hF h
  exact ⟨pr', h2, h3, h4⟩

/-- non-vacuity, and what an address kept from an earlier generation gets wrong: the output region moved from 30 to 26;
the program of the present layout writes Ethernet byte 26 + 14 as the Python path writes byte 26, a program compiled with
the kept address writes byte 30 + 14 -/
def wGenerated : Earlier := { wEarlier with generated := true }

theorem generation_witness :
    historyCaches [PvCache.empty] [wGenerated] = [PvCache.empty] ∧
    (progRun wVars ⟨wHdr ++ wData, []⟩ [.set 0 (.const 1)]).map (·.frame) = some (wHdr ++ wData.set 26 1) ∧
    (progRun (memoVars wGenerated.vars wVars) ⟨wHdr ++ wData, []⟩ [.set 0 (.const 1)]).map (·.frame) = some (wHdr ++ wData.set 30 1) := by
  decide

/-- two devices linked to one `PacketVar` object, both reading it -/
def wShared : List Linked := [⟨⟨.out, 0, .fmt .B⟩, ⟨none, some 26⟩, 0, 0⟩, ⟨⟨.out, 0, .fmt .B⟩, ⟨none, some 26⟩, 0, 1⟩]

/-- **old code, shared object**: fresh caches; the second device's read tripped `assert instance is device` -/
theorem run_agree_full_old_refuted_shared : ¬ run_agree_full_old := by
  intro h
  have hR : Rel wHdr ⟨wData, [7, 7]⟩ ⟨wHdr ++ wData, [(.B, [7]), (.B, [7])]⟩ := by
    refine ⟨rfl, rfl, ?_⟩
    intro j v m h1 h2
    match j with
    | 0 => simp at h1 h2; subst h1 h2; exact ⟨by decide, by decide⟩
    | 1 => simp at h1 h2; subst h1 h2; exact ⟨by decide, by decide⟩
    | j + 2 => simp at h1
  have hB : InBounds wShared wData.length := by
    intro l hl s hs
    simp only [wShared, List.mem_cons, List.not_mem_nil, or_false] at hl
    rcases hl with rfl | rfl <;> simp [start, Assign.base] at hs <;> subst hs <;> simp [wData, Fmt.width]
  have hF : RunFits [.B, .B] wShared ⟨wData, [7, 7]⟩ [.get 0 0, .get 1 1] := by
    refine ⟨⟨.B, rfl, ?_⟩, fun _ _ => ⟨⟨.B, rfl, ?_⟩, fun _ _ => trivial⟩⟩ <;>
    · intro v hv
      simp only [pyRead, pyReadAt, wShared] at hv
      simp [start, Assign.base] at hv
      subst hv
      exact pyGet_fits .B _ _
  obtain ⟨c', hc⟩ := h wHdr wShared [.get 0 0, .get 1 1] ⟨wData, [7, 7]⟩ ⟨wData, [0, 0]⟩ ⟨wHdr ++ wData, [(.B, [7]), (.B, [7])]⟩
    [PvCache.empty] (by decide) hR hB hF (by decide)
  have h2 := congrArg (fun r => r.toOption.isSome) hc
  simp only [Except.toOption, Option.isSome] at h2
  exact absurd h2 (by decide)

/-- the repaired path serves both devices on that witness -/
theorem shared_new_ok :
    (pyRunC wShared ⟨⟨wData, [7, 7]⟩, [PvCache.empty]⟩ [.get 0 0, .get 1 1]).toOption.map (fun c => c.st.dvs) = some [0, 0] := by
  decide

/-! ### offsets -/

/-- the program's address is the Python start moved by the Ethernet header: both name the same payload byte -/
theorem prog_addr_in_payload (a : Assign) (v : Var) (s : Nat) (h : start a v = some s) :
    progAddr a v = some (s + ETHERNET_HEADER) ∧
    ∀ hdr data : List UInt8, hdr.length = ETHERNET_HEADER → ∀ i, (hdr ++ data)[s + ETHERNET_HEADER + i]? = data[s + i]? := by
  refine ⟨by simp [progAddr, h], ?_⟩
  intro hdr data hh i
  rw [List.getElem?_append_right (by omega)]
  congr 1; omega

/-- `PacketDesc` (also inside a Struct channel): region base + position + the Struct's offset for that sync manager -/
theorem resolve_packet (pdos : List Pdo) (off : StructOff) (sm : Sm) (p : Nat) (sz : Size) (a : Assign) (base : Nat)
    (hb : a.base sm = some base) :
    ∃ v, resolve pdos off (.packet sm p sz) = some v ∧ v.size = sz ∧ start a v = some (base + p + off.pos sm) := by
  refine ⟨⟨sm, p + off.pos sm, sz⟩, rfl, rfl, ?_⟩
  simp [start, hb, Nat.add_assoc]

/-- `ProcessDesc`: the entry of `terminal.pdos` with index + CoE offset of the Struct; its offset is used as is -/
theorem resolve_process (pdos : List Pdo) (off : StructOff) (index sub : Nat) (sz : Option Size) (v : Var)
    (h : resolve pdos off (.process index sub sz) = some v) :
    ∃ e ∈ pdos, e.index = index + off.coe ∧ e.sub = sub ∧ v = ⟨e.sm, e.offset, sz.getD e.size⟩ := by
  unfold resolve at h
  cases hf : pdos.find? (fun p => p.index == index + off.coe && p.sub == sub) with
  | none => simp [hf] at h
  | some e =>
    simp only [hf, Option.map_some, Option.some.injEq] at h
    have hm := List.mem_of_find?_eq_some hf
    have hp := List.find?_some hf
    simp only [Bool.and_eq_true, beq_iff_eq] at hp
    exact ⟨e, hm, hp.1, hp.2, h.symm⟩

/-- regenerated ties: the widths the model loads/stores are the widths of the opcodes `fmt_to_opcode` selects for each
letter in the working tree (and `struct.calcsize`); and on a real `PacketVar` (region base 100, position 7) the real
`_start` and `fmt_addr` return what the model's `start` / `progAddr` compute, the latter with the regenerated
`Packet.ETHERNET_HEADER` -/
theorem width_table : pv_fmt_chars = Fmt.all.map Fmt.char ∧ pv_fmt_widths = Fmt.all.map Fmt.width ∧
    pv_fmt_calcsize = Fmt.all.map Fmt.width ∧
    start ⟨some 100, none⟩ ⟨.inp, 7, .fmt .H⟩ = some pv_start_probe ∧
    progAddr ⟨some 100, none⟩ ⟨.inp, 7, .fmt .H⟩ = some pv_addr_probe := by decide

/-! ### non-vacuity -/

-- a 16-bit signed variable at offset 3 of an 8-byte EtherCAT frame; Ethernet header of 14 bytes
example : pyGet .h [0, 1, 2, 0xfe, 0xff, 5, 6, 7] 3 = -2 := by decide
example : progLoad .h true (List.replicate 14 9 ++ [0, 1, 2, 0xfe, 0xff, 5, 6, 7]) (3 + ETHERNET_HEADER) = 2 ^ 64 - 2 := by decide
example : fits .h (-2) = true ∧ 3 + Fmt.width .h ≤ [0, 1, 2, 0xfe, 0xff, 5, 6, 7].length := by decide
example : pySet .h [0, 1, 2, 3, 4, 5, 6, 7] 3 (-2) = some [0, 1, 2, 0xfe, 0xff, 5, 6, 7] := by decide
example : pySet .B [0, 1, 2] 1 256 = none := by decide
-- three bit variables sharing byte 1: writing bit 5 leaves bits 0 and 7 alone
example : pySetBit [0, 0x81, 2] 1 5 true = [0, 0xa1, 2] ∧ progSetBitRt [0, 0x81, 2] 1 5 true = [0, 0xa1, 2] := by decide
example : pySetBit [0, 0xff, 2] 1 0 false = [0, 0xfe, 2] ∧ progSetBitConst [0, 0xff, 2] 1 0 false = [0, 0xfe, 2] := by decide
-- a Struct channel with CoE offset 0x10 and position offsets: both descriptor kinds resolve
example : resolve [⟨0x6000, 1, .inp, 0, .bit 3⟩, ⟨0x6010, 1, .inp, 2, .fmt .H⟩] ⟨4, 6, 0x10⟩ (.process 0x6000 1 (some (.fmt .h)))
    = some ⟨.inp, 2, .fmt .h⟩ := by decide
example : start ⟨some 26, some 41⟩ ⟨.out, 1 + 6, .bit 2⟩ = some 48 ∧ progAddr ⟨some 26, some 41⟩ ⟨.out, 1 + 6, .bit 2⟩ = some 62 := by decide

-- a device with an `h` input at 26+1, an `i` output at 41+0, two bit outputs sharing byte 41+4 and a DeviceVar `i`:
-- `out = inp; bit5 = bit0; bit0 = 1; dv = inp` — hypotheses of `run_agree` hold and both runs give the same frame
def exVars : List Linked :=
  [⟨⟨.inp, 1, .fmt .h⟩, ⟨some 2, some 5⟩, 0, 0⟩, ⟨⟨.out, 0, .fmt .i⟩, ⟨some 2, some 5⟩, 1, 0⟩,
   ⟨⟨.out, 4, .bit 5⟩, ⟨some 2, some 5⟩, 2, 0⟩, ⟨⟨.out, 4, .bit 0⟩, ⟨some 2, some 5⟩, 3, 0⟩]
def exOps : List Op := [.set 1 (.var 0), .set 2 (.var 3), .set 3 (.const 1), .get 0 0]
def exData : List UInt8 := [9, 9, 7, 0xfe, 0xff, 1, 2, 3, 4, 0x80]
def exHdr : List UInt8 := List.replicate 14 0xee

example : (pyRun exVars ⟨exData, [5]⟩ exOps).map (fun s => (s.data, s.dvs)) =
    some ([9, 9, 7, 0xfe, 0xff, 0xfe, 0xff, 0xff, 0xff, 0x81], [-2]) := by decide
example : (progRun exVars ⟨exHdr ++ exData, [(.i, [5, 0, 0, 0])]⟩ exOps).map (·.frame) =
    some (exHdr ++ [9, 9, 7, 0xfe, 0xff, 0xfe, 0xff, 0xff, 0xff, 0x81]) := by decide
example : (progRun exVars ⟨exHdr ++ exData, [(.i, [5, 0, 0, 0])]⟩ exOps).map (·.dvs) = some [(.i, [0xfe, 0xff, 0xff, 0xff])] := by decide
example : InBounds exVars exData.length := by
  intro l hl s hs
  simp only [exVars, List.mem_cons, List.not_mem_nil, or_false] at hl
  rcases hl with rfl | rfl | rfl | rfl <;> simp [start, Assign.base] at hs <;> subst hs <;> simp [exData, Fmt.width]
example : RunFits [.i] exVars ⟨exData, [5]⟩ exOps := by
  refine ⟨trivial, fun _ _ => ⟨trivial, fun _ _ => ⟨trivial, fun p3 h3 => ⟨⟨.i, rfl, ?_⟩, fun _ _ => trivial⟩⟩⟩⟩
  intro v hv
  have := pyGet_fits .h p3.data 3
  simp only [pyRead, pyReadAt, exVars, start, Assign.base] at hv
  simp at hv
  subst hv
  revert this
  generalize pyGet .h p3.data 3 = x
  simp only [fits, Fmt.signed, fitsS, Bool.and_eq_true, decide_eq_true_eq, ↓reduceIte]
  simp [Fmt.width]
  omega

end Ebv.C19
