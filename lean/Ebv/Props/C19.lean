import Ebv.Model.ProcVar
/-! C19 — process variables access their own bits and bytes on both paths.

`data` is the EtherCAT frame Python's `current_data` holds, `hdr ++ data` with `hdr.length = ETHERNET_HEADER` the
Ethernet frame the generated program sees; `s` is `PacketVar._start` and `s + ETHERNET_HEADER` what
`PacketVar.fmt_addr` hands to the generator.  All statements are for every frame, offset, format, bit number 0..7
and value. -/
namespace Ebv.C19
open Ebv.Bytes Ebv.ProcVar Ebv.Consts

/-! ### frame lemmas -/

theorem slice_append_left (h d : List UInt8) (a b : Nat) :
    slice (h ++ d) (h.length + a) (h.length + b) = slice d a b := by
  unfold slice
  rw [List.drop_length_add_append]
  congr 1; omega

theorem setRange_append_left (h d new : List UInt8) (a : Nat) :
    setRange (h ++ d) (h.length + a) new = h ++ setRange d a new := by
  unfold setRange
  rw [List.take_length_add_append, Nat.add_assoc, List.drop_length_add_append]
  simp [List.append_assoc]

/-- only the low `n` bytes of a register reach the frame -/
theorem encLE_mod (n r : Nat) : encLE n (r % 256 ^ n) = encLE n r := by
  have h := encLE_decLE (encLE n r)
  rw [length_encLE, decLE_encLE_mod] at h
  exact h

theorem pow256 (n : Nat) : ((256 ^ n : Nat) : Int) = 2 ^ (8 * n) := by
  rw [Int.pow_mul]; norm_cast

/-- a register congruent to `v` modulo the store width stores the bytes `struct.pack` produces for `v` -/
theorem encLE_congr_int (n r : Nat) (v : Int) (h : (r : Int) % 2 ^ (8 * n) = v % 2 ^ (8 * n)) :
    encLE n r = encLE n (ofSigned n v) := by
  rw [← encLE_mod n r]
  congr 1
  unfold ofSigned
  have h2 : ((r % 256 ^ n : Nat) : Int) = v % 2 ^ (8 * n) := by
    rw [Int.natCast_emod, pow256, h]
  rw [← h2]
  rfl

theorem slice_one (l : List UInt8) (a : Nat) (h : a < l.length) : slice l a (a + 1) = [l.getD a 0] := by
  simp [slice, List.take_one, List.head?_drop, List.getD_eq_getElem?_getD, h]

theorem setRange_one (l : List UInt8) (a : Nat) (b : UInt8) (h : a < l.length) : setRange l a [b] = l.set a b := by
  unfold setRange
  rw [List.set_eq_take_append_cons_drop]
  simp [h]

theorem ldx_one (l : List UInt8) (a : Nat) (h : a < l.length) : ldx l a 1 = (l.getD a 0).toNat := by
  simp [ldx, slice_one l a h, decLE]

theorem stx_one (l : List UInt8) (a r : Nat) (h : a < l.length) : stx l a 1 r = l.set a (UInt8.ofNat (r % 256)) := by
  simp [stx, encLE, setRange_one l a _ h]

/-! ### byte formats: get -/

theorem slice_len_le (data : List UInt8) (s n : Nat) : (slice data s (s + n)).length ≤ n := by
  simp [slice]; omega

theorem decLE_slice_lt (data : List UInt8) (s n : Nat) : decLE (slice data s (s + n)) < 256 ^ n :=
  Nat.lt_of_lt_of_le (decLE_lt _) (Nat.pow_le_pow_right (by decide) (slice_len_le data s n))

/-- in one memory: the register after the emitted load (+ sign extension) is the two's complement image, in the
register width the code computes in, of what `struct.unpack_from('<'+fmt)` returns -/
theorem load_eq (f : Fmt) (long : Bool) (mem : List UInt8) (a : Nat) :
    (progLoad f long mem a : Int) = pyGet f mem a % 2 ^ regWidth f long := by
  unfold progLoad pyGet ldx
  have hx := decLE_slice_lt mem a f.width
  generalize decLE (slice mem a (a + f.width)) = x at hx
  cases f <;> cases long <;>
    simp [Fmt.width, Fmt.signed, regWidth, sext, toSigned] at hx ⊢ <;>
    (repeat' split) <;> omega

/-- **both paths read the same value**: Python `get` on the EtherCAT frame vs the program's load on the Ethernet
frame with that payload, for every format, frame and offset -/
theorem paths_agree_get (f : Fmt) (long : Bool) (hdr data : List UInt8) (s : Nat)
    (hh : hdr.length = ETHERNET_HEADER) :
    (progLoad f long (hdr ++ data) (s + ETHERNET_HEADER) : Int) = pyGet f data s % 2 ^ regWidth f long := by
  rw [load_eq]
  congr 1
  unfold pyGet
  have : slice (hdr ++ data) (s + ETHERNET_HEADER) (s + ETHERNET_HEADER + f.width) = slice data s (s + f.width) := by
    rw [← hh, Nat.add_comm s, Nat.add_assoc]
    exact slice_append_left ..
  rw [this]

/-- the value Python reads lies in the format's range -/
theorem pyGet_fits (f : Fmt) (data : List UInt8) (s : Nat) : fits f (pyGet f data s) = true := by
  unfold pyGet fits
  have hx := decLE_slice_lt data s f.width
  generalize decLE (slice data s (s + f.width)) = x at hx
  cases f <;> simp [Fmt.width, Fmt.signed, toSigned, fitsS, fitsU] at hx ⊢ <;> (repeat' split) <;> omega

/-- a byte-format source used as a run-time Boolean (`value != 0`) tests what Python's truthiness tests -/
theorem paths_agree_test (f : Fmt) (hdr data : List UInt8) (s : Nat) (hh : hdr.length = ETHERNET_HEADER) :
    progTest f (hdr ++ data) (s + ETHERNET_HEADER) = (pyGet f data s != 0) := by
  have h := paths_agree_get f false hdr data s hh
  have hf := pyGet_fits f data s
  unfold progTest
  generalize progLoad f false (hdr ++ data) (s + ETHERNET_HEADER) = r at h
  generalize pyGet f data s = v at h hf
  have : (r = 0) ↔ (v = 0) := by
    cases f <;>
      simp only [fits, Fmt.signed, fitsS, fitsU, Bool.and_eq_true, decide_eq_true_eq, ↓reduceIte, Bool.false_eq_true] at hf <;>
      simp [Fmt.width, regWidth] at h hf <;> omega
  by_cases hv : v = 0
  · have hr : r = 0 := this.mpr hv
    simp [hv, hr]
  · have hr : r ≠ 0 := fun h0 => hv (this.mp h0)
    have h1 : (r != 0) = true := by simpa using hr
    have h2 : (v != 0) = true := by simpa using hv
    rw [h1, h2]

/-! ### byte formats: set -/

/-- **Python `set` writes only the variable's own bytes**, and they hold the packed value -/
theorem py_own_bytes (f : Fmt) (data d' : List UInt8) (s : Nat) (v : Int)
    (hb : s + f.width ≤ data.length) (h : pySet f data s v = some d') :
    d'.length = data.length ∧ (∀ i, i < s ∨ s + f.width ≤ i → d'[i]? = data[i]?) ∧
    slice d' s (s + f.width) = encLE f.width (ofSigned f.width v) := by
  unfold pySet at h
  split at h
  · injection h with h
    subst h
    have hl : s + (encLE f.width (ofSigned f.width v)).length ≤ data.length := by simpa using hb
    refine ⟨length_setRange _ _ _ hl, ?_, ?_⟩
    · intro i hi
      exact getElem?_setRange_outside _ _ _ _ hl (by simpa using hi)
    · have := slice_setRange_same data s (encLE f.width (ofSigned f.width v)) hl
      simpa using this
  · cases h

/-- **the program's store writes only the variable's own bytes**: the low bytes of the register -/
theorem prog_own_bytes (frame : List UInt8) (a n r : Nat) (hb : a + n ≤ frame.length) :
    (stx frame a n r).length = frame.length ∧ (∀ i, i < a ∨ a + n ≤ i → (stx frame a n r)[i]? = frame[i]?) ∧
    slice (stx frame a n r) a (a + n) = encLE n r := by
  have hl : a + (encLE n r).length ≤ frame.length := by simpa using hb
  refine ⟨length_setRange _ _ _ hl, ?_, ?_⟩
  · intro i hi
    exact getElem?_setRange_outside _ _ _ _ hl (by simpa using hi)
  · have := slice_setRange_same frame a (encLE n r) hl
    simpa [stx] using this

/-- **both paths write the same frame**: for a representable value `v` and any register congruent to it modulo
the store width (a constant's image, a loaded and sign-extended variable, …) -/
theorem paths_agree_set (f : Fmt) (hdr data : List UInt8) (s : Nat) (v : Int) (r : Nat)
    (hh : hdr.length = ETHERNET_HEADER) (hv : fits f v = true)
    (hr : (r : Int) % 2 ^ (8 * f.width) = v % 2 ^ (8 * f.width)) :
    ∃ d', pySet f data s v = some d' ∧ stx (hdr ++ data) (s + ETHERNET_HEADER) f.width r = hdr ++ d' := by
  refine ⟨setRange data s (encLE f.width (ofSigned f.width v)), by simp [pySet, hv], ?_⟩
  unfold stx
  rw [encLE_congr_int _ _ _ hr, ← hh, Nat.add_comm s]
  exact setRange_append_left ..

/-- a constant source: the stored immediate / `LD_IMM64` image is congruent to the constant -/
theorem constReg_congr (k : Int) (n : Nat) (hn : n ≤ 8) : ((constReg k : Nat) : Int) % 2 ^ (8 * n) = k % 2 ^ (8 * n) := by
  unfold constReg ofSigned
  have hp : (0 : Int) < 2 ^ (8 * 8) := Int.pow_pos (by decide)
  rw [Int.toNat_of_nonneg (Int.emod_nonneg _ (by omega))]
  exact Int.emod_emod_of_dvd _ ⟨2 ^ (8 * 8 - 8 * n), by rw [← Int.pow_add]; congr 1; omega⟩

/-- **`self.out = self.inp` leaves the same frame on both paths** whenever the value read is representable in the
destination format (formats may differ; the register width is the one `_set` asks for) -/
theorem paths_agree_copy (fs fd : Fmt) (hdr data : List UInt8) (ss sd : Nat)
    (hh : hdr.length = ETHERNET_HEADER) (hv : fits fd (pyGet fs data ss) = true) :
    ∃ d', pySet fd data sd (pyGet fs data ss) = some d' ∧
      stx (hdr ++ data) (sd + ETHERNET_HEADER) fd.width
        (progLoad fs (fd.width == 8) (hdr ++ data) (ss + ETHERNET_HEADER)) = hdr ++ d' := by
  apply paths_agree_set fd hdr data sd _ _ hh hv
  rw [paths_agree_get fs _ hdr data ss hh]
  generalize pyGet fs data ss = v
  cases fs <;> cases fd <;> simp [regWidth, Fmt.width] <;> omega

/-! ### value round trips -/

theorem ofSigned_lt (f : Fmt) (v : Int) : ofSigned f.width v < 256 ^ f.width := by
  unfold ofSigned
  have hp : (0 : Int) < 2 ^ (8 * f.width) := Int.pow_pos (by decide)
  have h1 := Int.emod_lt_of_pos v hp
  have h0 := Int.emod_nonneg v (Int.ne_of_gt hp)
  have : ((v % 2 ^ (8 * f.width)).toNat : Int) < ((256 ^ f.width : Nat) : Int) := by
    rw [pow256, Int.toNat_of_nonneg h0]; exact h1
  exact Int.ofNat_lt.mp this

/-- **Python round trip**: every value of the format's range is read back exactly -/
theorem py_roundtrip (f : Fmt) (data d' : List UInt8) (s : Nat) (v : Int)
    (hb : s + f.width ≤ data.length) (h : pySet f data s v = some d') : pyGet f d' s = v := by
  have hfit : fits f v = true := by
    unfold pySet at h
    split at h
    · assumption
    · cases h
  have ⟨_, _, hs⟩ := py_own_bytes f data d' s v hb h
  unfold pyGet
  rw [hs, decLE_encLE _ _ (ofSigned_lt f v)]
  unfold fits at hfit
  cases hsg : f.signed
  · simp only [hsg] at hfit ⊢
    simp only [Bool.false_eq_true, ↓reduceIte, fitsU, Bool.and_eq_true, decide_eq_true_eq] at hfit ⊢
    unfold ofSigned
    rw [Int.emod_eq_of_lt hfit.1 hfit.2]
    exact Int.toNat_of_nonneg hfit.1
  · simp only [hsg, ↓reduceIte] at hfit ⊢
    exact toSigned_ofSigned f.width (by cases f <;> simp [Fmt.width]) v hfit

/-- **program round trip**: after storing a register congruent to a representable `v`, the emitted load yields `v`
(as the two's complement image in the register width) -/
theorem prog_roundtrip (f : Fmt) (long : Bool) (frame : List UInt8) (a r : Nat) (v : Int)
    (hb : a + f.width ≤ frame.length) (hv : fits f v = true)
    (hr : (r : Int) % 2 ^ (8 * f.width) = v % 2 ^ (8 * f.width)) :
    (progLoad f long (stx frame a f.width r) a : Int) = v % 2 ^ regWidth f long := by
  rw [load_eq]
  congr 1
  apply py_roundtrip f frame _ a v hb
  simp [pySet, hv, stx, encLE_congr_int _ _ _ hr]

/-! ### single bits -/

/-- byte-level facts by exhaustive kernel evaluation over all 256 byte values × 8 bit numbers:
Python's `|= mask` / `&= ~mask` change exactly bit `n`; the emitted 32-bit `OR` / `AND` + byte store compute the
same byte; the emitted mask-and-shift / `JSET` read the same bit as `bool(byte & mask)` -/
theorem byte_facts : ∀ x : Fin 256, ∀ n : Fin 8,
    (∀ j : Fin 8, (pySetByte (UInt8.ofNat x.val) n.val true).toNat.testBit j.val
        = (if j = n then true else x.val.testBit j.val)) ∧
    (∀ j : Fin 8, (pySetByte (UInt8.ofNat x.val) n.val false).toNat.testBit j.val
        = (if j = n then false else x.val.testBit j.val)) ∧
    UInt8.ofNat (((x.val ||| (1 <<< n.val)) % 2 ^ 32) % 256) = pySetByte (UInt8.ofNat x.val) n.val true ∧
    UInt8.ofNat ((x.val &&& (2 ^ 32 - 1 - 2 ^ n.val)) % 256) = pySetByte (UInt8.ofNat x.val) n.val false ∧
    ((x.val &&& ((2 ^ 1 - 1) <<< n.val)) >>> n.val) = (if UInt8.ofNat x.val &&& mask n.val != 0 then 1 else 0) ∧
    ((x.val &&& (1 <<< n.val) != 0) = (UInt8.ofNat x.val &&& mask n.val != 0)) ∧
    ((UInt8.ofNat x.val &&& mask n.val != 0) = x.val.testBit n.val) := by
  decide +kernel

theorem byte_facts' (x : UInt8) (n : Nat) (hn : n < 8) :
    (∀ j, j < 8 → (pySetByte x n true).toNat.testBit j = (if j = n then true else x.toNat.testBit j)) ∧
    (∀ j, j < 8 → (pySetByte x n false).toNat.testBit j = (if j = n then false else x.toNat.testBit j)) ∧
    UInt8.ofNat (((x.toNat ||| (1 <<< n)) % 2 ^ 32) % 256) = pySetByte x n true ∧
    UInt8.ofNat ((x.toNat &&& (2 ^ 32 - 1 - 2 ^ n)) % 256) = pySetByte x n false ∧
    ((x.toNat &&& ((2 ^ 1 - 1) <<< n)) >>> n) = (if x &&& mask n != 0 then 1 else 0) ∧
    ((x.toNat &&& (1 <<< n) != 0) = (x &&& mask n != 0)) ∧
    ((x &&& mask n != 0) = x.toNat.testBit n) := by
  have h := byte_facts ⟨x.toNat, x.toNat_lt⟩ ⟨n, hn⟩
  simp only [UInt8.ofNat_toNat] at h
  obtain ⟨h1, h2, h3, h4, h5, h6, h7⟩ := h
  refine ⟨?_, ?_, h3, h4, h5, h6, h7⟩
  · intro j hj
    have := h1 ⟨j, hj⟩
    simpa [Fin.ext_iff] using this
  · intro j hj
    have := h2 ⟨j, hj⟩
    simpa [Fin.ext_iff] using this

/-- setting bit `n` of a byte to `b` changes no other bit -/
theorem pySetByte_bits (x : UInt8) (n : Nat) (b : Bool) (hn : n < 8) :
    (∀ j, j ≠ n → (pySetByte x n b).toNat.testBit j = x.toNat.testBit j) ∧
    (pySetByte x n b).toNat.testBit n = b := by
  have ⟨h1, h2, _⟩ := byte_facts' x n hn
  constructor
  · intro j hj
    by_cases hj8 : j < 8
    · cases b
      · simpa [hj] using h2 j hj8
      · simpa [hj] using h1 j hj8
    · have hp : (2 : Nat) ^ 8 ≤ 2 ^ j := Nat.pow_le_pow_right (by decide) (by omega)
      rw [Nat.testBit_lt_two_pow (Nat.lt_of_lt_of_le (UInt8.toNat_lt _) hp),
          Nat.testBit_lt_two_pow (Nat.lt_of_lt_of_le (UInt8.toNat_lt _) hp)]
  · cases b
    · simpa using h2 n hn
    · simpa using h1 n hn

/-- **Python `set` of a bit changes only that bit**: every other byte of the frame and the other 7 bits of the
byte are unchanged, the bit holds the value -/
theorem py_own_bit (data : List UInt8) (s n : Nat) (b : Bool) (hs : s < data.length) (hn : n < 8) :
    (pySetBit data s n b).length = data.length ∧
    (∀ i, i ≠ s → (pySetBit data s n b)[i]? = data[i]?) ∧
    (∀ j, j ≠ n → ((pySetBit data s n b).getD s 0).toNat.testBit j = (data.getD s 0).toNat.testBit j) ∧
    ((pySetBit data s n b).getD s 0).toNat.testBit n = b := by
  have hg : (pySetBit data s n b).getD s 0 = pySetByte (data.getD s 0) n b := by
    simp [pySetBit, List.getD_eq_getElem?_getD, hs]
  refine ⟨by simp [pySetBit], ?_, ?_, ?_⟩
  · intro i hi
    simp [pySetBit, List.getElem?_set_ne (Ne.symm hi)]
  · rw [hg]; exact (pySetByte_bits _ n b hn).1
  · rw [hg]; exact (pySetByte_bits _ n b hn).2

/-- the emitted read-modify-write computes, in one memory, the byte Python computes (constant and run-time) -/
theorem prog_bit_eq (frame : List UInt8) (a n : Nat) (b : Bool) (ha : a < frame.length) (hn : n < 8) :
    progSetBitConst frame a n b = pySetBit frame a n b ∧ progSetBitRt frame a n b = pySetBit frame a n b := by
  have ⟨_, _, h3, h4, _⟩ := byte_facts' (frame.getD a 0) n hn
  have on : progBitOn frame a n = pySetBit frame a n true := by
    unfold progBitOn pySetBit; rw [ldx_one _ _ ha, stx_one _ _ _ ha, h3]
  have off : progBitOff frame a n = pySetBit frame a n false := by
    unfold progBitOff pySetBit; rw [ldx_one _ _ ha, stx_one _ _ _ ha, h4]
  cases b <;> simp [progSetBitConst, progSetBitRt, on, off]

/-- **the program's bit write changes only that bit**, for a constant and for a run-time Boolean -/
theorem prog_own_bit (frame : List UInt8) (a n : Nat) (b : Bool) (ha : a < frame.length) (hn : n < 8) :
    ∀ out, (out = progSetBitConst frame a n b ∨ out = progSetBitRt frame a n b) →
    out.length = frame.length ∧
    (∀ i, i ≠ a → out[i]? = frame[i]?) ∧
    (∀ j, j ≠ n → (out.getD a 0).toNat.testBit j = (frame.getD a 0).toNat.testBit j) ∧
    (out.getD a 0).toNat.testBit n = b := by
  intro out ho
  have ⟨e1, e2⟩ := prog_bit_eq frame a n b ha hn
  have : out = pySetBit frame a n b := by
    rcases ho with ho | ho
    · rw [ho, e1]
    · rw [ho, e2]
  rw [this]
  exact py_own_bit frame a n b ha hn

theorem getD_append_right (h d : List UInt8) (s : Nat) : (h ++ d).getD (h.length + s) 0 = d.getD s 0 := by
  simp [List.getD_eq_getElem?_getD, List.getElem?_append_right]

theorem pySetBit_append (h d : List UInt8) (s n : Nat) (b : Bool) :
    pySetBit (h ++ d) (h.length + s) n b = h ++ pySetBit d s n b := by
  unfold pySetBit
  rw [getD_append_right, List.set_append_right _ _ (by omega)]
  simp

/-- **both paths leave the same frame after a bit write**, with a constant and with a run-time Boolean -/
theorem paths_agree_set_bit (hdr data : List UInt8) (s n : Nat) (b : Bool)
    (hh : hdr.length = ETHERNET_HEADER) (hs : s < data.length) (hn : n < 8) :
    progSetBitConst (hdr ++ data) (s + ETHERNET_HEADER) n b = hdr ++ pySetBit data s n b ∧
    progSetBitRt (hdr ++ data) (s + ETHERNET_HEADER) n b = hdr ++ pySetBit data s n b := by
  have ha : s + ETHERNET_HEADER < (hdr ++ data).length := by simp [hh]; omega
  have ⟨e1, e2⟩ := prog_bit_eq (hdr ++ data) (s + ETHERNET_HEADER) n b ha hn
  rw [e1, e2, ← hh, Nat.add_comm s, pySetBit_append]
  exact ⟨rfl, rfl⟩

/-- **both paths read the same bit**: the value (`LDX B`, mask, shift) and the run-time test (`JSET`) -/
theorem paths_agree_get_bit (hdr data : List UInt8) (s n : Nat)
    (hh : hdr.length = ETHERNET_HEADER) (hs : s < data.length) (hn : n < 8) :
    progGetBit (hdr ++ data) (s + ETHERNET_HEADER) n = (if pyGetBit data s n then 1 else 0) ∧
    progTestBit (hdr ++ data) (s + ETHERNET_HEADER) n = pyGetBit data s n ∧
    pyGetBit data s n = (data.getD s 0).toNat.testBit n := by
  have ha : s + ETHERNET_HEADER < (hdr ++ data).length := by simp [hh]; omega
  have hb : (hdr ++ data).getD (s + ETHERNET_HEADER) 0 = data.getD s 0 := by
    rw [← hh, Nat.add_comm s]; exact getD_append_right ..
  have ⟨_, _, _, _, h5, h6, h7⟩ := byte_facts' (data.getD s 0) n hn
  simp only [progGetBit, progTestBit, pyGetBit, ldx_one _ _ ha, hb]
  exact ⟨h5, h6, h7⟩

/-- **bit round trip** on both paths -/
theorem bit_roundtrip (data : List UInt8) (s n : Nat) (b : Bool) (hs : s < data.length) (hn : n < 8) :
    pyGetBit (pySetBit data s n b) s n = b ∧ progTestBit (progSetBitConst data s n b) s n = b ∧
    progTestBit (progSetBitRt data s n b) s n = b := by
  have ⟨e1, e2⟩ := prog_bit_eq data s n b hs hn
  have ⟨hl, _, _, hbit⟩ := py_own_bit data s n b hs hn
  have hs' : s < (pySetBit data s n b).length := by omega
  have ⟨_, _, _, _, _, h6, h7⟩ := byte_facts' ((pySetBit data s n b).getD s 0) n hn
  have hpy : pyGetBit (pySetBit data s n b) s n = b := by
    unfold pyGetBit; rw [h7]; exact hbit
  refine ⟨hpy, ?_, ?_⟩
  · rw [e1]; unfold progTestBit; rw [ldx_one _ _ hs', h6]; exact hpy
  · rw [e2]; unfold progTestBit; rw [ldx_one _ _ hs', h6]; exact hpy

/-! ### offsets -/

/-- the program's address is the Python start moved by the Ethernet header: both name the same payload byte -/
theorem prog_addr_in_payload (a : Assign) (v : Var) (s : Nat) (h : start a v = some s) :
    progAddr a v = some (s + ETHERNET_HEADER) ∧
    ∀ hdr data : List UInt8, hdr.length = ETHERNET_HEADER → ∀ i, (hdr ++ data)[s + ETHERNET_HEADER + i]? = data[s + i]? := by
  refine ⟨by simp [progAddr, h], ?_⟩
  intro hdr data hh i
  rw [List.getElem?_append_right (by omega)]
  congr 1; omega

/-- `PacketDesc` (also inside a Struct channel): region base + position + the Struct's offset for that sync manager -/
theorem resolve_packet (pdos : List Pdo) (off : StructOff) (sm : Sm) (p : Nat) (sz : Size) (a : Assign) (base : Nat)
    (hb : a.base sm = some base) :
    ∃ v, resolve pdos off (.packet sm p sz) = some v ∧ v.size = sz ∧ start a v = some (base + p + off.pos sm) := by
  refine ⟨⟨sm, p + off.pos sm, sz⟩, rfl, rfl, ?_⟩
  simp [start, hb, Nat.add_assoc]

/-- `ProcessDesc`: the entry of `terminal.pdos` with index + CoE offset of the Struct; its offset is used as is -/
theorem resolve_process (pdos : List Pdo) (off : StructOff) (index sub : Nat) (sz : Option Size) (v : Var)
    (h : resolve pdos off (.process index sub sz) = some v) :
    ∃ e ∈ pdos, e.index = index + off.coe ∧ e.sub = sub ∧ v = ⟨e.sm, e.offset, sz.getD e.size⟩ := by
  unfold resolve at h
  cases hf : pdos.find? (fun p => p.index == index + off.coe && p.sub == sub) with
  | none => simp [hf] at h
  | some e =>
    simp only [hf, Option.map_some, Option.some.injEq] at h
    have hm := List.mem_of_find?_eq_some hf
    have hp := List.find?_some hf
    simp only [Bool.and_eq_true, beq_iff_eq] at hp
    exact ⟨e, hm, hp.1, hp.2, h.symm⟩

/-- regenerated ties: the widths the model loads/stores are the widths of the opcodes `fmt_to_opcode` selects for each
letter in the working tree (and `struct.calcsize`); and on a real `PacketVar` (region base 100, position 7) the real
`_start` and `fmt_addr` return what the model's `start` / `progAddr` compute, the latter with the regenerated
`Packet.ETHERNET_HEADER` -/
theorem width_table : pv_fmt_chars = Fmt.all.map Fmt.char ∧ pv_fmt_widths = Fmt.all.map Fmt.width ∧
    pv_fmt_calcsize = Fmt.all.map Fmt.width ∧
    start ⟨some 100, none⟩ ⟨.inp, 7, .fmt .H⟩ = some pv_start_probe ∧
    progAddr ⟨some 100, none⟩ ⟨.inp, 7, .fmt .H⟩ = some pv_addr_probe := by decide

/-! ### non-vacuity -/

-- a 16-bit signed variable at offset 3 of an 8-byte EtherCAT frame; Ethernet header of 14 bytes
example : pyGet .h [0, 1, 2, 0xfe, 0xff, 5, 6, 7] 3 = -2 := by decide
example : progLoad .h true (List.replicate 14 9 ++ [0, 1, 2, 0xfe, 0xff, 5, 6, 7]) (3 + ETHERNET_HEADER) = 2 ^ 64 - 2 := by decide
example : fits .h (-2) = true ∧ 3 + Fmt.width .h ≤ [0, 1, 2, 0xfe, 0xff, 5, 6, 7].length := by decide
example : pySet .h [0, 1, 2, 3, 4, 5, 6, 7] 3 (-2) = some [0, 1, 2, 0xfe, 0xff, 5, 6, 7] := by decide
example : pySet .B [0, 1, 2] 1 256 = none := by decide
-- three bit variables sharing byte 1: writing bit 5 leaves bits 0 and 7 alone
example : pySetBit [0, 0x81, 2] 1 5 true = [0, 0xa1, 2] ∧ progSetBitRt [0, 0x81, 2] 1 5 true = [0, 0xa1, 2] := by decide
example : pySetBit [0, 0xff, 2] 1 0 false = [0, 0xfe, 2] ∧ progSetBitConst [0, 0xff, 2] 1 0 false = [0, 0xfe, 2] := by decide
-- a Struct channel with CoE offset 0x10 and position offsets: both descriptor kinds resolve
example : resolve [⟨0x6000, 1, .inp, 0, .bit 3⟩, ⟨0x6010, 1, .inp, 2, .fmt .H⟩] ⟨4, 6, 0x10⟩ (.process 0x6000 1 (some (.fmt .h)))
    = some ⟨.inp, 2, .fmt .h⟩ := by decide
example : start ⟨some 26, some 41⟩ ⟨.out, 1 + 6, .bit 2⟩ = some 48 ∧ progAddr ⟨some 26, some 41⟩ ⟨.out, 1 + 6, .bit 2⟩ = some 62 := by decide

end Ebv.C19
