import Ebv.Model.HashVars
/-! C09 — hash-map variables and Dict entries agree between Python and program.

* `members_disjoint`, `member_py_prog_same_bytes`, `py_prog_same_image`, `dict_images_disjoint`,
  `struct_roundtrip`: the byte layout of `Structure` members is the same in Python objects and in
  the program's stack image / looked-up value.
* `refinement`: every sequence of Python-side and program-side operations on a `Dict` produces
  exactly the observations of the abstract dictionary over member tuples (induction over the
  operation list), iteration of an empty Dict included.
* `lookup_absent_else`, `hashvar_*`: absent keys take the Else branch; hash variables (fixed-point
  `"x"` ones included) are independent 64-bit cells holding the default after `load` and carrying
  values unchanged in both directions. -/
namespace Ebv.C09
open Ebv.HashVars Ebv.Bytes Ebv.Consts

/-! ### the member codec -/

theorem size_pos (f : Fmt) : 0 < f.size := by cases f <;> decide

theorem pow256 (n : Nat) : (256 : Int) ^ n = 2 ^ (8 * n) := by
  rw [Int.pow_mul]; rfl

theorem ofSigned_lt (n : Nat) (v : Int) : ofSigned n v < 256 ^ n := by
  unfold ofSigned
  have hp : (0 : Int) < 2 ^ (8 * n) := Int.pow_pos (by decide)
  have h1 := Int.emod_lt_of_pos v hp
  have h0 := Int.emod_nonneg v (Int.ne_of_gt hp)
  have : ((v % 2 ^ (8 * n)).toNat : Int) < ((256 ^ n : Nat) : Int) := by
    rw [Int.toNat_of_nonneg h0, Int.natCast_pow]
    show v % 2 ^ (8 * n) < (256 : Int) ^ n
    rw [pow256]; exact h1
  exact Int.ofNat_lt.mp this

@[simp] theorem length_enc (f : Fmt) (v : Int) : (f.enc v).length = f.size := by
  unfold Fmt.enc; exact length_encLE _ _

/-- a value in the format's range survives `pack` / `unpack` (and a store / load of that width) -/
theorem dec_enc (f : Fmt) (v : Int) (h : f.fits v = true) : f.dec (f.enc v) = v := by
  unfold Fmt.dec Fmt.enc
  rw [decLE_encLE _ _ (ofSigned_lt _ _)]
  unfold Fmt.fits at h
  cases hs : f.signed
  · simp only [hs, Bool.false_eq_true, ↓reduceIte] at h ⊢
    simp only [fitsU, Bool.and_eq_true, decide_eq_true_eq] at h
    unfold ofSigned
    have hm : v % 2 ^ (8 * f.size) = v := Int.emod_eq_of_lt h.1 h.2
    rw [hm]
    exact Int.toNat_of_nonneg h.1
  · simp only [hs, ↓reduceIte] at h ⊢
    exact toSigned_ofSigned _ (size_pos f) v h

/-! ### lists: writing a range of a concatenation -/

theorem setRange_append (done rest new : Bytes) (h : new.length ≤ rest.length) :
    setRange (done ++ rest) done.length new = done ++ new ++ rest.drop new.length := by
  unfold setRange
  simp [List.take_append_of_le_length, List.drop_append]

theorem slice_append_mid (a b c : Bytes) : slice (a ++ b ++ c) a.length (a.length + b.length) = b := by
  unfold slice
  simp [List.append_assoc]

theorem setRange_eq (mem new : Bytes) (base : Nat) :
    setRange mem base new = mem.take base ++ new ++ mem.drop (base + new.length) := rfl

/-! ### `encStruct`, `writeMembers`, `readMembers` -/

theorem allFit_length : ∀ (fs : List Fmt) (vs : List Int), allFit fs vs = true → vs.length = fs.length
  | [], [], _ => rfl
  | [], _ :: _, h => by simp [allFit] at h
  | _ :: _, [], h => by simp [allFit] at h
  | f :: fs, v :: vs, h => by
    simp only [allFit, Bool.and_eq_true] at h
    simp [allFit_length fs vs h.2]

theorem length_encStruct : ∀ (fs : List Fmt) (vs : List Int), vs.length = fs.length →
    (encStruct fs vs).length = structSize fs
  | [], [], _ => rfl
  | [], _ :: _, h => by simp at h
  | _ :: _, [], h => by simp at h
  | f :: fs, v :: vs, h => by
    have := length_encStruct fs vs (by simpa using h)
    simp [encStruct, structSize, this] at *

theorem structSize_cons (f : Fmt) (fs : List Fmt) : structSize (f :: fs) = f.size + structSize fs := by
  simp [structSize]

/-- writing the members one by one over `rest` produces the concatenated member images -/
theorem writeMembers_spec (pack : Fmt → Int → Option Bytes) :
    ∀ (fs : List Fmt) (vs : List Int) (done rest : Bytes), vs.length = fs.length →
      (∀ f v, (f, v) ∈ fs.zip vs → pack f v = some (f.enc v)) → structSize fs ≤ rest.length →
      writeMembers pack done.length fs vs (done ++ rest) =
        some (done ++ encStruct fs vs ++ rest.drop (structSize fs))
  | [], [], done, rest, _, _, _ => by simp [writeMembers, encStruct, structSize]
  | [], _ :: _, _, _, h, _, _ => by simp at h
  | _ :: _, [], _, _, h, _, _ => by simp at h
  | f :: fs, v :: vs, done, rest, hl, hp, hr => by
    have hpv : pack f v = some (f.enc v) := hp f v (by simp)
    rw [structSize_cons] at hr
    have hle : (f.enc v).length ≤ rest.length := by simp; omega
    simp only [writeMembers, hpv]
    rw [setRange_append done rest (f.enc v) hle]
    have ih := writeMembers_spec pack fs vs (done ++ f.enc v) (rest.drop f.size)
      (by simpa using hl) (fun f' v' h' => hp f' v' (by simp [h'])) (by simp; omega)
    have hlen : (done ++ f.enc v).length = done.length + f.size := by simp
    rw [hlen] at ih
    rw [length_enc, ih]
    simp [encStruct, structSize_cons, List.drop_drop, List.append_assoc, Nat.add_comm]

/-- a member out of its format's range makes Python's `pack_into` raise -/
theorem pyWrite_none : ∀ (fs : List Fmt) (vs : List Int) (pos : Nat) (data : Bytes), vs.length = fs.length →
    allFit fs vs = false → writeMembers Fmt.pack pos fs vs data = none
  | [], [], _, _, _, h => by simp [allFit] at h
  | [], _ :: _, _, _, h, _ => by simp at h
  | _ :: _, [], _, _, h, _ => by simp at h
  | f :: fs, v :: vs, pos, data, hl, h => by
    simp only [allFit, Bool.and_eq_false_iff] at h
    simp only [writeMembers, Fmt.pack]
    cases hf : f.fits v
    · simp
    · simp only [↓reduceIte]
      rcases h with h | h
      · rw [hf] at h; cases h
      · exact pyWrite_none fs vs _ _ (by simpa using hl) h

theorem zip_fit : ∀ (fs : List Fmt) (vs : List Int), allFit fs vs = true →
    ∀ f v, (f, v) ∈ fs.zip vs → Fmt.pack f v = some (f.enc v)
  | [], [], _, _, _, h => by simp at h
  | [], _ :: _, h, _, _, _ => by simp [allFit] at h
  | _ :: _, [], h, _, _, _ => by simp [allFit] at h
  | f :: fs, v :: vs, h, f', v', hm => by
    simp only [allFit, Bool.and_eq_true] at h
    simp only [List.zip_cons_cons, List.mem_cons, Prod.mk.injEq] at hm
    rcases hm with ⟨rfl, rfl⟩ | hm
    · simp [Fmt.pack, h.1]
    · exact zip_fit fs vs h.2 f' v' hm

theorem drop_zeros (n : Nat) : (zeros n).drop n = [] := by simp [zeros]

/-- **Python side**: a structure whose members fit is the concatenation of the packed members -/
theorem pyStruct_fit (fs : List Fmt) (vs : List Int) (h : allFit fs vs = true) :
    pyStruct fs vs = some (encStruct fs vs) := by
  have hl := allFit_length fs vs h
  have := writeMembers_spec Fmt.pack fs vs [] (zeros (structSize fs)) hl (zip_fit fs vs h) (by simp)
  simpa [pyStruct, drop_zeros] using this

theorem pyStruct_unfit (fs : List Fmt) (vs : List Int) (hl : vs.length = fs.length) (h : allFit fs vs = false) :
    pyStruct fs vs = none := pyWrite_none fs vs _ _ hl h

/-- **program side**: the stores at `base + rel` overwrite exactly `[base, base + size)` with the same
concatenation (whatever the image held before) -/
theorem progStruct_eq (base : Nat) (fs : List Fmt) (vs : List Int) (mem : Bytes) (hl : vs.length = fs.length)
    (hroom : base + structSize fs ≤ mem.length) :
    progStruct base fs vs mem = setRange mem base (encStruct fs vs) := by
  have hb : base ≤ mem.length := by omega
  have hsplit : mem = mem.take base ++ mem.drop base := (List.take_append_drop base mem).symm
  have hlen : (mem.take base).length = base := by simp [Nat.min_eq_left hb]
  have := writeMembers_spec (fun f v => some (f.enc v)) fs vs (mem.take base) (mem.drop base) hl
    (fun _ _ _ => rfl) (by simp; omega)
  rw [hlen, ← hsplit] at this
  simp [progStruct, this, setRange_eq, length_encStruct fs vs hl, List.drop_drop, Nat.add_comm]

/-- reading the members back out of the concatenation gives the values (whatever surrounds it) -/
theorem readMembers_spec : ∀ (fs : List Fmt) (vs : List Int) (done rest : Bytes), allFit fs vs = true →
    readMembers done.length fs (done ++ encStruct fs vs ++ rest) = vs
  | [], [], _, _, _ => by simp [readMembers]
  | [], _ :: _, _, _, h => by simp [allFit] at h
  | _ :: _, [], _, _, h => by simp [allFit] at h
  | f :: fs, v :: vs, done, rest, h => by
    simp only [allFit, Bool.and_eq_true] at h
    simp only [readMembers, encStruct]
    have e1 : done ++ (f.enc v ++ encStruct fs vs) ++ rest = done ++ f.enc v ++ (encStruct fs vs ++ rest) := by
      simp [List.append_assoc]
    have hs : slice (done ++ f.enc v ++ (encStruct fs vs ++ rest)) done.length (done.length + f.size) = f.enc v := by
      have := slice_append_mid done (f.enc v) (encStruct fs vs ++ rest)
      simpa using this
    rw [e1, hs, dec_enc f v h.1]
    have ih := readMembers_spec fs vs (done ++ f.enc v) rest h.2
    simp only [List.length_append, length_enc] at ih
    have e2 : done ++ f.enc v ++ (encStruct fs vs ++ rest) = done ++ f.enc v ++ encStruct fs vs ++ rest := by
      simp [List.append_assoc]
    rw [e2, ih]

/-- what one side packs, the other side unpacks: member values survive the byte image -/
theorem struct_roundtrip (fs : List Fmt) (vs : List Int) (h : allFit fs vs = true) :
    readMembers 0 fs (encStruct fs vs) = vs := by
  have := readMembers_spec fs vs [] [] h
  simpa using this

/-- distinct member tuples (in range) have distinct byte images -/
theorem encStruct_inj (fs : List Fmt) (a b : List Int) (ha : allFit fs a = true) (hb : allFit fs b = true)
    (h : encStruct fs a = encStruct fs b) : a = b := by
  rw [← struct_roundtrip fs a ha, ← struct_roundtrip fs b hb, h]

/-! ### layout theorems -/

theorem offsets_length : ∀ (pos : Nat) (fs : List Fmt), (offsets pos fs).length = fs.length
  | _, [] => rfl
  | pos, f :: fs => by simp [offsets, offsets_length (pos + f.size) fs]

theorem offsets_get : ∀ (pos : Nat) (fs : List Fmt) (i : Nat), i < fs.length →
    (offsets pos fs)[i]? = some (pos + structSize (fs.take i))
  | _, [], _, h => by simp at h
  | pos, f :: fs, 0, _ => by simp [offsets, structSize]
  | pos, f :: fs, i + 1, h => by
    have := offsets_get (pos + f.size) fs i (by simpa using h)
    simp [offsets, this, structSize_cons, Nat.add_assoc]

theorem structSize_take_succ : ∀ (fs : List Fmt) (i : Nat) (h : i < fs.length),
    structSize (fs.take (i + 1)) = structSize (fs.take i) + (fs[i]).size
  | [], _, h => by simp at h
  | f :: fs, 0, _ => by simp [structSize]
  | f :: fs, i + 1, h => by
    have := structSize_take_succ fs i (by simpa using h)
    simp [structSize_cons, this, Nat.add_assoc]

theorem structSize_take_mono (fs : List Fmt) : ∀ (i j : Nat), i ≤ j → structSize (fs.take i) ≤ structSize (fs.take j) := by
  intro i j hij
  induction fs generalizing i j with
  | nil => simp
  | cons f fs ih =>
    cases i with
    | zero => simp [structSize]
    | succ i =>
      cases j with
      | zero => omega
      | succ j =>
        have := ih i j (by omega)
        simp [structSize_cons, this]

theorem structSize_take_le (fs : List Fmt) (i : Nat) : structSize (fs.take i) ≤ structSize fs := by
  by_cases h : i ≤ fs.length
  · have := structSize_take_mono fs i fs.length h
    simpa using this
  · rw [List.take_of_length_le (by omega)]
    exact Nat.le_refl _

/-- **members_disjoint**: the members of a structure occupy pairwise disjoint byte ranges, in
declaration order, inside `[pos, pos + size of the structure)` -/
theorem members_disjoint (pos : Nat) (fs : List Fmt) (i j : Nat) (hij : i < j) (hj : j < fs.length)
    (oi oj : Nat) (hoi : (offsets pos fs)[i]? = some oi) (hoj : (offsets pos fs)[j]? = some oj) :
    oi + (fs[i]'(by omega)).size ≤ oj ∧ oj + (fs[j]).size ≤ pos + structSize fs ∧ pos ≤ oi := by
  have hi : i < fs.length := by omega
  rw [offsets_get pos fs i hi] at hoi
  rw [offsets_get pos fs j hj] at hoj
  cases hoi; cases hoj
  have h1 := structSize_take_succ fs i hi
  have h2 := structSize_take_succ fs j hj
  have h3 := structSize_take_mono fs (i + 1) j (by omega)
  have h4 := structSize_take_le fs (j + 1)
  omega

/-- **member_py_prog_same_bytes**: Python's `pack_into(fmt, data, rel, v)` on the structure's `data` and
the program's store of the same bytes at `r10 + offset + rel` (or `r0 + rel`: `base = 0`) change the same
bytes of the same image: the image `[base, base + K)` of the memory after the store is the Python
`data` after `pack_into`, and nothing outside the image changes. -/
theorem member_py_prog_same_bytes (mem bs : Bytes) (base K rel : Nat)
    (hin : rel + bs.length ≤ K) (hmem : base + K ≤ mem.length) :
    slice (setRange mem (base + rel) bs) base (base + K) = setRange (slice mem base (base + K)) rel bs ∧
    (∀ i, i < base ∨ base + K ≤ i → (setRange mem (base + rel) bs)[i]? = mem[i]?) := by
  have hw : base + rel + bs.length ≤ mem.length := by omega
  constructor
  · apply List.ext_getElem?
    intro i
    have hS : (slice mem base (base + K)).length = K := by
      rw [length_slice _ _ _ hmem]; omega
    by_cases hiK : i < K
    · have hl : (slice (setRange mem (base + rel) bs) base (base + K))[i]? = (setRange mem (base + rel) bs)[base + i]? := by
        simp [slice, List.getElem?_take, List.getElem?_drop, hiK]
      rw [hl]
      by_cases hin2 : rel ≤ i ∧ i < rel + bs.length
      · have e : base + i = base + rel + (i - rel) := by omega
        rw [e, getElem?_setRange_inside mem (base + rel) bs (i - rel) hw (by omega)]
        have e2 : i = rel + (i - rel) := by omega
        rw [e2, getElem?_setRange_inside (slice mem base (base + K)) rel bs (i - rel) (by omega) (by omega)]
        congr 1; omega
      · rw [getElem?_setRange_outside mem (base + rel) bs (base + i) hw (by omega)]
        rw [getElem?_setRange_outside (slice mem base (base + K)) rel bs i (by omega) (by omega)]
        simp [slice, List.getElem?_take, List.getElem?_drop, hiK]
    · have h1 : (slice (setRange mem (base + rel) bs) base (base + K)).length = K := by
        rw [length_slice _ _ _ (by rw [length_setRange _ _ _ hw]; exact hmem)]; omega
      have h2 : (setRange (slice mem base (base + K)) rel bs).length = K := by
        rw [length_setRange _ _ _ (by omega)]; exact hS
      rw [List.getElem?_eq_none (by omega), List.getElem?_eq_none (by omega)]
  · intro i hi
    exact getElem?_setRange_outside mem (base + rel) bs i hw (by omega)

/-! ### the finite map under an encoding that is injective on the valid keys -/

section Assoc
variable {α β α' β' : Type} [DecidableEq α] [DecidableEq α']

/-- the image of an abstract map under key / value encodings -/
def emap (f : α → α') (g : β → β') (m : List (α × β)) : List (α' × β') := m.map fun e => (f e.1, g e.2)

variable (f : α → α') (g : β → β') (P : α → Prop) (inj : ∀ a b, P a → P b → f a = f b → a = b)
include inj

theorem lookup_emap : ∀ (m : List (α × β)) (k : α), (∀ e ∈ m, P e.1) → P k →
    lookup (emap f g m) (f k) = (lookup m k).map g
  | [], _, _, _ => rfl
  | (k', v) :: m, k, hm, hk => by
    have hk' : P k' := hm (k', v) (by simp)
    have ih := lookup_emap m k (fun e he => hm e (by simp [he])) hk
    by_cases h : k' = k
    · simp [emap, lookup, h]
    · have hne : f k' ≠ f k := fun e => h (inj k' k hk' hk e)
      simp only [emap, List.map_cons, lookup, h, hne, ↓reduceIte] at ih ⊢
      exact ih

theorem replace_emap : ∀ (m : List (α × β)) (k : α) (v : β), (∀ e ∈ m, P e.1) → P k →
    replace (emap f g m) (f k) (g v) = emap f g (replace m k v)
  | [], _, _, _, _ => rfl
  | (k', v') :: m, k, v, hm, hk => by
    have hk' : P k' := hm (k', v') (by simp)
    have ih := replace_emap m k v (fun e he => hm e (by simp [he])) hk
    by_cases h : k' = k
    · simp [emap, replace, h]
    · have hne : f k' ≠ f k := fun e => h (inj k' k hk' hk e)
      simp only [emap, List.map_cons, replace, h, hne, ↓reduceIte, List.cons.injEq, true_and] at ih ⊢
      exact ih

theorem erase_emap : ∀ (m : List (α × β)) (k : α), (∀ e ∈ m, P e.1) → P k →
    erase (emap f g m) (f k) = emap f g (erase m k)
  | [], _, _, _ => rfl
  | (k', v') :: m, k, hm, hk => by
    have hk' : P k' := hm (k', v') (by simp)
    have ih := erase_emap m k (fun e he => hm e (by simp [he])) hk
    by_cases h : k' = k
    · simp [emap, erase, h]
    · have hne : f k' ≠ f k := fun e => h (inj k' k hk' hk e)
      simp only [emap, List.map_cons, erase, h, hne, ↓reduceIte, List.cons.injEq, true_and] at ih ⊢
      exact ih

theorem update_emap (max : Nat) (m : List (α × β)) (k : α) (v : β) (fl : Nat) (hm : ∀ e ∈ m, P e.1) (hk : P k) :
    update max (emap f g m) (f k) (g v) fl = (emap f g (update max m k v fl).1, (update max m k v fl).2) := by
  unfold update
  by_cases hfl : fl > 2
  · simp [hfl]
  · simp only [hfl, ↓reduceIte]
    rw [lookup_emap f g P inj m k hm hk]
    cases hl : lookup m k with
    | some x =>
      simp only [Option.map_some]
      by_cases h1 : fl = 1
      · simp [h1]
      · simp only [h1, ↓reduceIte]
        rw [replace_emap f g P inj m k v hm hk]
    | none =>
      simp only [Option.map_none]
      by_cases h2 : fl = 2
      · simp [h2]
      · simp only [h2, ↓reduceIte]
        have hlen : (emap f g m).length = m.length := by simp [emap]
        rw [hlen]
        by_cases h3 : max ≤ m.length
        · simp [h3]
        · simp [h3, emap]

omit inj

end Assoc

section AssocInv
variable {α β : Type} [DecidableEq α]

theorem mem_replace (Q : α × β → Prop) : ∀ (m : List (α × β)) (k : α) (v : β), (∀ e ∈ m, Q e) →
    (∀ k', (∃ v', (k', v') ∈ m) → Q (k', v)) → ∀ e ∈ replace m k v, Q e
  | [], _, _, _, _, e, he => by simp [replace] at he
  | (k', v') :: m, k, v, hm, hnew, e, he => by
    by_cases h : k' = k
    · simp only [replace, h, ↓reduceIte, List.mem_cons] at he
      rcases he with rfl | he
      · exact hnew k ⟨v', by simp [h]⟩
      · exact hm e (by simp [he])
    · simp only [replace, h, ↓reduceIte, List.mem_cons] at he
      rcases he with rfl | he
      · exact hm _ (by simp)
      · exact mem_replace Q m k v (fun e he => hm e (by simp [he]))
          (fun k'' ⟨v'', h''⟩ => hnew k'' ⟨v'', by simp [h'']⟩) e he

theorem mem_erase : ∀ (m : List (α × β)) (k : α) (e : α × β), e ∈ erase m k → e ∈ m
  | [], _, _, he => by simp [erase] at he
  | (k', v') :: m, k, e, he => by
    by_cases h : k' = k
    · simp only [erase, h, ↓reduceIte] at he
      simp [he]
    · simp only [erase, h, ↓reduceIte, List.mem_cons] at he
      rcases he with rfl | he
      · simp
      · simp [mem_erase m k e he]

theorem mem_update (Pk : α → Prop) (Pv : β → Prop) (max : Nat) (m : List (α × β)) (k : α) (v : β) (fl : Nat)
    (hm : ∀ e ∈ m, Pk e.1 ∧ Pv e.2) (hk : Pk k) (hv : Pv v) :
    ∀ e ∈ (update max m k v fl).1, Pk e.1 ∧ Pv e.2 := by
  unfold update
  by_cases hfl : fl > 2
  · simpa [hfl] using hm
  · simp only [hfl, ↓reduceIte]
    cases hl : lookup m k with
    | some x =>
      by_cases h1 : fl = 1
      · simpa [h1] using hm
      · simp only [h1, ↓reduceIte]
        exact mem_replace (fun e => Pk e.1 ∧ Pv e.2) m k v hm (fun k' ⟨v', h'⟩ => ⟨(hm _ h').1, hv⟩)
    | none =>
      by_cases h2 : fl = 2
      · simpa [h2] using hm
      · simp only [h2, ↓reduceIte]
        by_cases h3 : max ≤ m.length
        · simpa [h3] using hm
        · simp only [h3, ↓reduceIte]
          intro e he
          rcases List.mem_append.mp he with he | he
          · exact hm e he
          · simp only [List.mem_singleton] at he
            subst he
            exact ⟨hk, hv⟩

/-- with flags ANY the helper only fails when the map is full -/
theorem update_any_code (max : Nat) (m : List (α × β)) (k : α) (v : β) :
    (update max m k v 0).2 = 0 ∨ (update max m k v 0).2 = -E2BIG := by
  unfold update
  cases lookup m k <;> simp <;> split <;> simp

theorem lookup_isSome_of_mem_keys : ∀ (m : List (α × β)) (k : α), lookup m k = none → ∀ e ∈ m, e.1 ≠ k
  | [], _, _, e, he => by simp at he
  | (k', v') :: m, k, h, e, he => by
    by_cases hk : k' = k
    · simp [lookup, hk] at h
    · simp only [lookup, hk, ↓reduceIte] at h
      simp only [List.mem_cons] at he
      rcases he with rfl | he
      · exact hk
      · exact lookup_isSome_of_mem_keys m k h e he

end AssocInv

theorem lookup_mem {α β : Type} [DecidableEq α] : ∀ (m : List (α × β)) (k : α) (v : β), lookup m k = some v →
    ∃ e ∈ m, e.2 = v
  | [], _, _, h => by simp [lookup] at h
  | (k', v') :: m, k, v, h => by
    by_cases hk : k' = k
    · simp only [lookup, hk, ↓reduceIte, Option.some.injEq] at h
      exact ⟨(k', v'), by simp, h⟩
    · simp only [lookup, hk, ↓reduceIte] at h
      obtain ⟨e, he, hv⟩ := lookup_mem m k v h
      exact ⟨e, by simp [he], hv⟩

theorem fits_zero (f : Fmt) : f.fits 0 = true := by cases f <;> decide

theorem allFit_zero : ∀ (fs : List Fmt), allFit fs (fs.map fun _ => (0 : Int)) = true
  | [] => rfl
  | f :: fs => by simp [allFit, fits_zero, allFit_zero fs]

/-! ### the two images on the program stack -/

theorem roundUp8_ge (n : Nat) : n ≤ roundUp8 n := by unfold roundUp8; omega

/-- **dict_images_disjoint**: `Dict.__set_name__` puts the value image entirely below the key image, both
inside the stack (`r10 + value_offset + V ≤ r10 + key_offset`, `r10 + key_offset + K ≤ r10`) -/
theorem dict_images_disjoint (D : DictDecl) (hv : D.valid = true) :
    D.valBase + D.V ≤ D.keyBase ∧ D.keyBase + D.K ≤ stackSize := by
  simp only [DictDecl.valid, Bool.and_eq_true, decide_eq_true_eq] at hv
  have h1 := roundUp8_ge (D.depth0 + D.K)
  have h2 := roundUp8_ge (D.keyDepth + D.V)
  simp only [DictDecl.keyBase, DictDecl.valBase, DictDecl.valDepth, DictDecl.keyDepth] at *
  omega

/-- **py_prog_same_image**: for the same member values, the key the program leaves at `r10 + key_offset`
and the value at `r10 + value_offset` (after setting all members of key and value, in this order, on any
stack) are byte for byte what Python's `Key()` / `Value()` objects hold in `.data` -/
theorem py_prog_same_image (D : DictDecl) (hv : D.valid = true) (stack0 : Bytes) (hs : stack0.length = stackSize)
    (k v : List Int) (hk : allFit D.keyFmts k = true) (hvv : allFit D.valFmts v = true) :
    let st := progStruct D.valBase D.valFmts v (progStruct D.keyBase D.keyFmts k stack0)
    some (slice st D.keyBase (D.keyBase + D.K)) = pyStruct D.keyFmts k ∧
    some (slice st D.valBase (D.valBase + D.V)) = pyStruct D.valFmts v ∧
    some (slice (progStruct D.keyBase D.keyFmts k stack0) D.keyBase (D.keyBase + D.K)) = pyStruct D.keyFmts k := by
  obtain ⟨g1, g2⟩ := dict_images_disjoint D hv
  have lk := allFit_length _ _ hk
  have lv := allFit_length _ _ hvv
  have eK : (encStruct D.keyFmts k).length = D.K := length_encStruct _ _ lk
  have eV : (encStruct D.valFmts v).length = D.V := length_encStruct _ _ lv
  have p1 : progStruct D.keyBase D.keyFmts k stack0 = setRange stack0 D.keyBase (encStruct D.keyFmts k) :=
    progStruct_eq _ _ _ _ lk (by rw [hs]; exact g2)
  have l1 : (setRange stack0 D.keyBase (encStruct D.keyFmts k)).length = stackSize := by
    rw [length_setRange _ _ _ (by rw [eK, hs]; exact g2), hs]
  have s1 : slice (setRange stack0 D.keyBase (encStruct D.keyFmts k)) D.keyBase (D.keyBase + D.K) = encStruct D.keyFmts k := by
    have := slice_setRange_same stack0 D.keyBase (encStruct D.keyFmts k) (by rw [eK, hs]; exact g2)
    rwa [eK] at this
  have hle : D.valBase + D.V ≤ stackSize := by omega
  have p2 : progStruct D.valBase D.valFmts v (setRange stack0 D.keyBase (encStruct D.keyFmts k)) =
      setRange (setRange stack0 D.keyBase (encStruct D.keyFmts k)) D.valBase (encStruct D.valFmts v) :=
    progStruct_eq _ _ _ _ lv (by rw [l1]; exact hle)
  intro st
  have hst : st = setRange (setRange stack0 D.keyBase (encStruct D.keyFmts k)) D.valBase (encStruct D.valFmts v) := by
    show progStruct D.valBase D.valFmts v (progStruct D.keyBase D.keyFmts k stack0) = _
    rw [p1, p2]
  rw [pyStruct_fit _ _ hk, pyStruct_fit _ _ hvv, p1, s1, hst]
  refine ⟨?_, ?_, rfl⟩
  · rw [slice_setRange_disjoint _ _ _ _ _ (by rw [eV, l1]; exact hle) (Or.inr (by rw [eV]; exact g1)) (by omega), s1]
  · have := slice_setRange_same (setRange stack0 D.keyBase (encStruct D.keyFmts k)) D.valBase (encStruct D.valFmts v)
      (by rw [eV, l1]; exact hle)
    rw [eV] at this
    rw [this]

/-! ### refinement: the implementation behaves like the abstract dictionary of member tuples -/

/-- the kernel map is the byte image of the abstract dictionary, whose tuples are all in range -/
def Rel (D : DictDecl) (m : KMap) (a : AMap) : Prop :=
  m = emap (encStruct D.keyFmts) (encStruct D.valFmts) a ∧
  ∀ e ∈ a, allFit D.keyFmts e.1 = true ∧ allFit D.valFmts e.2 = true

/-- operations the theorem speaks about: tuples have one value per member; what the *program* stores
fits the member's format (a store of a wider value truncates: C01/C07); Python values are arbitrary -/
def OpOk (D : DictDecl) : Op → Prop
  | .pySet k v => k.length = D.keyFmts.length ∧ v.length = D.valFmts.length
  | .pyGet k => k.length = D.keyFmts.length
  | .pyDel k => k.length = D.keyFmts.length
  | .pyPop k => k.length = D.keyFmts.length
  | .pyIter => True
  | .prUpdate k v _ => allFit D.keyFmts k = true ∧ allFit D.valFmts v = true
  | .prLookup k => allFit D.keyFmts k = true
  | .prModify k v => allFit D.keyFmts k = true ∧ allFit D.valFmts v = true

theorem emap_keys_read (D : DictDecl) : ∀ (a : AMap), (∀ e ∈ a, allFit D.keyFmts e.1 = true ∧ allFit D.valFmts e.2 = true) →
    (emap (encStruct D.keyFmts) (encStruct D.valFmts) a).map (fun e => readMembers 0 D.keyFmts e.1) = a.map Prod.fst
  | [], _ => rfl
  | e :: a, h => by
    have := emap_keys_read D a (fun x hx => h x (by simp [hx]))
    simp only [emap, List.map_cons, List.map_map] at this ⊢
    rw [struct_roundtrip _ _ (h e (by simp)).1]
    simp only [List.cons.injEq, true_and]
    exact this

/-- regenerated from /repo: `TheDict.pop` issues `BPF_MAP_LOOKUP_AND_DELETE_ELEM` -/
theorem pop_deletes : dict_pop_cmd = bpf_LOOKUP_DELETE := by decide

theorem step_refines (D : DictDecl) (hv : D.valid = true) (stack0 : Bytes) (hs : stack0.length = stackSize)
    (m : KMap) (a : AMap) (hR : Rel D m a) (op : Op) (hop : OpOk D op) :
    Rel D (cStep D stack0 m op).1 (aStep D a op).1 ∧ (cStep D stack0 m op).2 = (aStep D a op).2 := by
  obtain ⟨hm, hfit⟩ := hR
  subst hm
  have hfitK : ∀ e ∈ a, allFit D.keyFmts e.1 = true := fun e he => (hfit e he).1
  have inj := encStruct_inj D.keyFmts
  have LK := lookup_emap (encStruct D.keyFmts) (encStruct D.valFmts) (fun k => allFit D.keyFmts k = true) inj a
  have RP := replace_emap (encStruct D.keyFmts) (encStruct D.valFmts) (fun k => allFit D.keyFmts k = true) inj a
  have ER := erase_emap (encStruct D.keyFmts) (encStruct D.valFmts) (fun k => allFit D.keyFmts k = true) inj a
  have UP := fun k v fl => update_emap (encStruct D.keyFmts) (encStruct D.valFmts) (fun k => allFit D.keyFmts k = true) inj
    D.maxEntries a k v fl hfitK
  have INV := fun k v fl => mem_update (fun k => allFit D.keyFmts k = true) (fun v => allFit D.valFmts v = true)
    D.maxEntries a k v fl hfit
  cases op with
  | pySet k v =>
    obtain ⟨lk, lv⟩ := hop
    by_cases hk : allFit D.keyFmts k = true
    · by_cases hvv : allFit D.valFmts v = true
      · simp only [cStep, aStep, pyStruct_fit _ _ hk, pyStruct_fit _ _ hvv, hk, hvv, Bool.and_self, ↓reduceIte]
        rw [UP k v 0 hk]
        refine ⟨⟨rfl, INV k v 0 hk hvv⟩, ?_⟩
        rcases update_any_code D.maxEntries a k v with h | h
        · simp [h]
        · simp [h, E2BIG]
      · have hvf : allFit D.valFmts v = false := by simpa using hvv
        simp only [cStep, aStep, pyStruct_fit _ _ hk, pyStruct_unfit _ _ lv hvf, hk, hvf, Bool.and_false,
          Bool.false_eq_true, ↓reduceIte]
        exact ⟨⟨rfl, hfit⟩, by trivial⟩
    · have hkf : allFit D.keyFmts k = false := by simpa using hk
      simp only [cStep, aStep, pyStruct_unfit _ _ lk hkf, hkf, Bool.false_and, Bool.false_eq_true, ↓reduceIte]
      exact ⟨⟨rfl, hfit⟩, by trivial⟩
  | pyGet k =>
    by_cases hk : allFit D.keyFmts k = true
    · simp only [cStep, aStep, pyStruct_fit _ _ hk, hk, ↓reduceIte, LK k hfitK hk]
      cases hl : lookup a k with
      | none => exact ⟨⟨rfl, hfit⟩, by trivial⟩
      | some v =>
        have hvf : allFit D.valFmts v = true := by
          obtain ⟨e, he, rfl⟩ := lookup_mem a k v hl
          exact (hfit e he).2
        simp only [Option.map_some, struct_roundtrip _ _ hvf]
        exact ⟨⟨rfl, hfit⟩, by trivial⟩
    · have hkf : allFit D.keyFmts k = false := by simpa using hk
      simp only [cStep, aStep, pyStruct_unfit _ _ hop hkf, hkf, Bool.false_eq_true, ↓reduceIte]
      exact ⟨⟨rfl, hfit⟩, by trivial⟩
  | pyDel k =>
    by_cases hk : allFit D.keyFmts k = true
    · simp only [cStep, aStep, pyStruct_fit _ _ hk, hk, ↓reduceIte, LK k hfitK hk]
      cases hl : lookup a k with
      | none => exact ⟨⟨rfl, hfit⟩, by trivial⟩
      | some v =>
        simp only [Option.map_some, ER k hfitK hk]
        exact ⟨⟨rfl, fun e he => hfit e (mem_erase a k e he)⟩, by trivial⟩
    · have hkf : allFit D.keyFmts k = false := by simpa using hk
      simp only [cStep, aStep, pyStruct_unfit _ _ hop hkf, hkf, Bool.false_eq_true, ↓reduceIte]
      exact ⟨⟨rfl, hfit⟩, by trivial⟩
  | pyPop k =>
    by_cases hk : allFit D.keyFmts k = true
    · simp only [cStep, aStep, pyStruct_fit _ _ hk, hk, ↓reduceIte, LK k hfitK hk, pop_deletes]
      cases hl : lookup a k with
      | none => exact ⟨⟨rfl, hfit⟩, by trivial⟩
      | some v =>
        have hvf : allFit D.valFmts v = true := by
          obtain ⟨e, he, rfl⟩ := lookup_mem a k v hl
          exact (hfit e he).2
        simp only [Option.map_some, ER k hfitK hk, struct_roundtrip _ _ hvf]
        exact ⟨⟨rfl, fun e he => hfit e (mem_erase a k e he)⟩, by trivial⟩
    · have hkf : allFit D.keyFmts k = false := by simpa using hk
      simp only [cStep, aStep, pyStruct_unfit _ _ hop hkf, hkf, Bool.false_eq_true, ↓reduceIte]
      exact ⟨⟨rfl, hfit⟩, by trivial⟩
  | pyIter =>
    simp only [cStep, aStep]
    refine ⟨⟨rfl, hfit⟩, ?_⟩
    rw [emap_keys_read D a hfit]
  | prUpdate k v fl =>
    obtain ⟨hk, hvv⟩ := hop
    obtain ⟨i1, i2, _⟩ := py_prog_same_image D hv stack0 hs k v hk hvv
    rw [pyStruct_fit _ _ hk] at i1
    rw [pyStruct_fit _ _ hvv] at i2
    simp only [cStep, aStep, Option.some.inj i1, Option.some.inj i2]
    rw [UP k v fl hk]
    exact ⟨⟨rfl, INV k v fl hk hvv⟩, by trivial⟩
  | prLookup k =>
    have hvv0 : allFit D.valFmts (D.valFmts.map fun _ => (0 : Int)) = true := allFit_zero _
    obtain ⟨_, _, i3⟩ := py_prog_same_image D hv stack0 hs k _ hop hvv0
    rw [pyStruct_fit _ _ hop] at i3
    simp only [cStep, aStep, Option.some.inj i3, LK k hfitK hop]
    cases hl : lookup a k with
    | none => exact ⟨⟨rfl, hfit⟩, by trivial⟩
    | some v =>
      have hvf : allFit D.valFmts v = true := by
        obtain ⟨e, he, rfl⟩ := lookup_mem a k v hl
        exact (hfit e he).2
      simp only [Option.map_some, struct_roundtrip _ _ hvf]
      exact ⟨⟨rfl, hfit⟩, by trivial⟩
  | prModify k v =>
    obtain ⟨hk, hvv⟩ := hop
    obtain ⟨_, _, i3⟩ := py_prog_same_image D hv stack0 hs k v hk hvv
    rw [pyStruct_fit _ _ hk] at i3
    simp only [cStep, aStep, Option.some.inj i3, LK k hfitK hk]
    cases hl : lookup a k with
    | none => exact ⟨⟨rfl, hfit⟩, by trivial⟩
    | some v0 =>
      have hvf : allFit D.valFmts v0 = true := by
        obtain ⟨e, he, rfl⟩ := lookup_mem a k v0 hl
        exact (hfit e he).2
      have l0 := allFit_length _ _ hvf
      have lv := allFit_length _ _ hvv
      -- the stores through r0 overwrite the whole looked-up value in place
      have hin : progStruct 0 D.valFmts v (encStruct D.valFmts v0) = encStruct D.valFmts v := by
        rw [progStruct_eq 0 D.valFmts v _ lv (by rw [length_encStruct _ _ l0]; omega)]
        simp [setRange_eq, length_encStruct _ _ l0, length_encStruct _ _ lv]
      simp only [Option.map_some, hin, struct_roundtrip _ _ hvf, RP k v hfitK hk]
      refine ⟨⟨rfl, ?_⟩, by trivial⟩
      exact mem_replace (fun e => allFit D.keyFmts e.1 = true ∧ allFit D.valFmts e.2 = true) a k v hfit
        (fun k' ⟨v', h'⟩ => ⟨(hfit _ h').1, hvv⟩)

/-- **refinement**: any sequence of Python-side and program-side operations on a Dict, started from related
states (e.g. both empty), produces exactly the observations of the abstract dictionary of member tuples and ends
in related states — induction over the operation list. -/
theorem refinement (D : DictDecl) (hv : D.valid = true) (stack0 : Bytes) (hs : stack0.length = stackSize) :
    ∀ (ops : List Op) (m : KMap) (a : AMap), Rel D m a → (∀ op ∈ ops, OpOk D op) →
      Rel D (cRun D stack0 m ops).1 (aRun D a ops).1 ∧ (cRun D stack0 m ops).2 = (aRun D a ops).2
  | [], m, a, hR, _ => ⟨hR, rfl⟩
  | op :: ops, m, a, hR, hok => by
    obtain ⟨h1, h2⟩ := step_refines D hv stack0 hs m a hR op (hok op (by simp))
    obtain ⟨h3, h4⟩ := refinement D hv stack0 hs ops _ _ h1 (fun o ho => hok o (by simp [ho]))
    exact ⟨h3, by simp only [cRun, aRun, h2, h4]⟩

/-- the empty kernel map is the image of the empty dictionary -/
theorem rel_empty (D : DictDecl) : Rel D [] [] := ⟨rfl, by simp⟩

/-- **lookup_absent_else**: a program lookup of a key that is absent from the dictionary takes the Else branch
(and leaves the map alone), whatever was done before from either side -/
theorem lookup_absent_else (D : DictDecl) (hv : D.valid = true) (stack0 : Bytes) (hs : stack0.length = stackSize)
    (m : KMap) (a : AMap) (hR : Rel D m a) (k : List Int) (hk : allFit D.keyFmts k = true) (habs : lookup a k = none) :
    cStep D stack0 m (.prLookup k) = (m, .els) := by
  obtain ⟨hm, hfit⟩ := hR
  subst hm
  have hvv0 : allFit D.valFmts (D.valFmts.map fun _ => (0 : Int)) = true := allFit_zero _
  obtain ⟨_, _, i3⟩ := py_prog_same_image D hv stack0 hs k _ hk hvv0
  rw [pyStruct_fit _ _ hk] at i3
  have LK := lookup_emap (encStruct D.keyFmts) (encStruct D.valFmts) (fun k => allFit D.keyFmts k = true)
    (encStruct_inj D.keyFmts) a k (fun e he => (hfit e he).1) hk
  simp only [cStep, Option.some.inj i3, LK, habs, Option.map_none]

/-- present keys are found with the member values the other side stored -/
theorem lookup_present_found (D : DictDecl) (hv : D.valid = true) (stack0 : Bytes) (hs : stack0.length = stackSize)
    (m : KMap) (a : AMap) (hR : Rel D m a) (k v : List Int) (hk : allFit D.keyFmts k = true) (hp : lookup a k = some v) :
    cStep D stack0 m (.prLookup k) = (m, .found v) := by
  have h := step_refines D hv stack0 hs m a hR (.prLookup k) hk
  have hc : aStep D a (.prLookup k) = (a, .found v) := by simp [aStep, hp]
  obtain ⟨⟨hm, _⟩, ho⟩ := h
  rw [hc] at ho hm
  have e1 : (cStep D stack0 m (.prLookup k)).1 = m := by
    simp only [cStep]; split <;> rfl
  exact Prod.ext e1 ho

/-! ### hash-map variables -/

section AssocMore
variable {α β : Type} [DecidableEq α]

theorem lookup_replace_ne : ∀ (m : List (α × β)) (k k' : α) (v : β), k ≠ k' → lookup (replace m k v) k' = lookup m k'
  | [], _, _, _, _ => rfl
  | (k0, v0) :: m, k, k', v, h => by
    have ih := lookup_replace_ne m k k' v h
    by_cases h0 : k0 = k
    · subst h0
      simp [replace, lookup, h]
    · by_cases h1 : k0 = k'
      · subst h1
        simp [replace, lookup, h0]
      · simp [replace, lookup, h0, h1, ih]

theorem lookup_replace_same : ∀ (m : List (α × β)) (k : α) (v : β), lookup m k ≠ none → lookup (replace m k v) k = some v
  | [], _, _, h => by simp [lookup] at h
  | (k0, v0) :: m, k, v, h => by
    by_cases h0 : k0 = k
    · simp [replace, lookup, h0]
    · simp only [lookup, h0, ↓reduceIte] at h
      simp [replace, lookup, h0, lookup_replace_same m k v h]

theorem length_replace : ∀ (m : List (α × β)) (k : α) (v : β), (replace m k v).length = m.length
  | [], _, _ => rfl
  | (k0, v0) :: m, k, v => by
    by_cases h0 : k0 = k <;> simp [replace, h0, length_replace m k v]

theorem lookup_append_single : ∀ (m : List (α × β)) (k k' : α) (v : β),
    lookup (m ++ [(k, v)]) k' = match lookup m k' with | some x => some x | none => if k = k' then some v else none
  | [], k, k', v => by simp [lookup]
  | (k0, v0) :: m, k, k', v => by
    by_cases h0 : k0 = k'
    · simp [lookup, h0]
    · simp [lookup, h0, lookup_append_single m k k' v]

theorem lookup_update_ne (max : Nat) (m : List (α × β)) (k k' : α) (v : β) (fl : Nat) (h : k ≠ k') :
    lookup (update max m k v fl).1 k' = lookup m k' := by
  unfold update
  split
  · rfl
  · split
    · split
      · rfl
      · exact lookup_replace_ne m k k' v h
    · split
      · rfl
      · split
        · rfl
        · rw [lookup_append_single]
          cases lookup m k' <;> simp [h]

/-- with flags ANY the update succeeds when the key is present or the map has room, and then holds the value -/
theorem lookup_update_same (max : Nat) (m : List (α × β)) (k : α) (v : β)
    (h : lookup m k ≠ none ∨ m.length < max) :
    lookup (update max m k v 0).1 k = some v ∧ (update max m k v 0).1.length ≤ m.length + 1 := by
  have e0 : ¬ ((0 : Nat) > 2) := by decide
  have e1 : ¬ ((0 : Nat) = 1) := by decide
  have e2 : ¬ ((0 : Nat) = 2) := by decide
  unfold update
  cases hl : lookup m k with
  | some x =>
    simp only [e0, e1, ↓reduceIte]
    exact ⟨lookup_replace_same m k v (by simp [hl]), by rw [length_replace]; omega⟩
  | none =>
    have hroom : ¬ max ≤ m.length := by
      rcases h with h | h
      · exact absurd hl h
      · omega
    simp only [e0, e2, hroom, ↓reduceIte]
    refine ⟨?_, by simp⟩
    rw [lookup_append_single, hl]
    simp

end AssocMore

theorem max_ord : hv_max_ordinal = 255 := by decide

theorem pyKey_eq (i : Nat) (hi : i + 1 ≤ hv_max_ordinal) : pyKey i = some (progKey i) := by
  simp [pyKey, progKey, hi]

/-- **distinct ordinals ⇒ distinct keys** (on both sides: Python packs the ordinal, the program stores it) -/
theorem key_ne (i j : Nat) (hi : i + 1 ≤ hv_max_ordinal) (hj : j + 1 ≤ hv_max_ordinal) (h : i ≠ j) :
    progKey i ≠ progKey j := by
  rw [max_ord] at hi hj
  intro heq
  have h1 : (UInt8.ofNat (i + 1)).toNat = (UInt8.ofNat (j + 1)).toNat := by
    simp only [progKey, List.cons.injEq, and_true] at heq
    rw [heq]
  simp at h1
  omega

/-- the variable an operation is about -/
def target : HOp → Option Nat
  | .load => none
  | .pyGet i | .pySet i _ _ | .prGet i | .prSet i _ | .prAdd i _ => some i

/-- **hashvar_cells_independent**: an operation on one variable, from either side, never changes the cell of
another one (distinct ordinals ⇒ distinct 1-byte keys ⇒ independent cells) -/
theorem hashvar_cells_independent (vars : List HVar) (m : KMap) (op : HOp) (i j : Nat)
    (ht : target op = some i) (hij : i ≠ j) (hi : i + 1 ≤ hv_max_ordinal) (hj : j + 1 ≤ hv_max_ordinal) :
    lookup (hvStep vars m op).1 (progKey j) = lookup m (progKey j) := by
  have hne := key_ne i j hi hj hij
  cases op with
  | load => cases ht
  | pyGet i' =>
    cases ht
    simp only [hvStep]
    repeat' split
    all_goals rfl
  | prGet i' =>
    cases ht
    simp only [hvStep]
    repeat' split
    all_goals rfl
  | pySet i' v fl =>
    cases ht
    simp only [hvStep, hvPySet, pyKey_eq i hi]
    repeat' split
    all_goals first | rfl | exact lookup_update_ne _ _ _ _ _ _ hne
  | prSet i' v =>
    cases ht
    simp only [hvStep]
    exact lookup_update_ne _ _ _ _ _ _ hne
  | prAdd i' c =>
    cases ht
    simp only [hvStep]
    repeat' split
    all_goals first | rfl | exact lookup_update_ne _ _ _ _ _ _ hne

/-- the value `HashMap.load` stores for a variable (0 when the default cannot be packed) -/
def storedDefault (x : HVar) : Int := (pyStored x.fmt x.default x.defaultIsFloat).getD 0

/-- a default `HashMap.load` can store: it packs, in the 64-bit range of the variable's signedness -/
def okDefault (x : HVar) : Bool :=
  match pyStored x.fmt x.default x.defaultIsFloat with
  | some w => if x.fmt.signed then fitsS 8 w else fitsU 8 w
  | none => false

theorem pySet_ok (vars : List HVar) (m : KMap) (i : Nat) (x : HVar) (v w : Int) (fl : Bool) (hx : vars[i]? = some x)
    (hi : i + 1 ≤ hv_max_ordinal) (hw : pyStored x.fmt v fl = some w)
    (hv : (if x.fmt.signed then fitsS 8 w else fitsU 8 w) = true) :
    hvPySet vars m i v fl = ((update vars.length m (progKey i) (enc64 w) 0).1, .ok) := by
  simp only [hvPySet, hx, pyKey_eq i hi, hw, hv, ↓reduceIte]

theorem okDefault_spec (x : HVar) (h : okDefault x = true) :
    pyStored x.fmt x.default x.defaultIsFloat = some (storedDefault x) ∧
    (if x.fmt.signed then fitsS 8 (storedDefault x) else fitsU 8 (storedDefault x)) = true := by
  unfold okDefault at h
  unfold storedDefault
  cases hp : pyStored x.fmt x.default x.defaultIsFloat with
  | none => rw [hp] at h; cases h
  | some w => rw [hp] at h; exact ⟨rfl, h⟩

theorem load_inv (vars : List HVar) (hn : vars.length ≤ hv_max_ordinal) (hok : ∀ x ∈ vars, okDefault x = true) :
    ∀ (rest : List HVar) (i : Nat) (m : KMap), vars.drop i = rest → m.length ≤ i →
      (∀ t x, t < i → vars[t]? = some x → lookup m (progKey t) = some (enc64 (storedDefault x))) →
      (hvLoadFrom vars m i rest).2 = .ok ∧
      ∀ t x, vars[t]? = some x → lookup (hvLoadFrom vars m i rest).1 (progKey t) = some (enc64 (storedDefault x))
  | [], i, m, hd, _, hinv => by
    refine ⟨rfl, fun t x hx => hinv t x ?_ hx⟩
    have h1 : vars.length ≤ i := by
      have := congrArg List.length hd
      simp at this; omega
    have h2 : t < vars.length := by
      rcases List.getElem?_eq_some_iff.mp hx with ⟨h, _⟩; exact h
    omega
  | x :: rest, i, m, hd, hlen, hinv => by
    have hi : i < vars.length := by
      have := congrArg List.length hd
      simp at this; omega
    have hx : vars[i]? = some x := by
      have := congrArg (fun l => l[0]?) hd
      simpa using this
    have hmem : x ∈ vars := List.mem_of_getElem? hx
    have hokx := okDefault_spec x (hok x hmem)
    have hio : i + 1 ≤ hv_max_ordinal := by omega
    have hset := pySet_ok vars m i x x.default (storedDefault x) x.defaultIsFloat hx hio hokx.1 hokx.2
    have hup := lookup_update_same vars.length m (progKey i) (enc64 (storedDefault x)) (Or.inr (by omega))
    simp only [hvLoadFrom, hset]
    have hd' : vars.drop (i + 1) = rest := by
      have := congrArg List.tail hd
      simpa using this
    apply load_inv vars hn hok rest (i + 1) _ hd' (by omega)
    intro t y ht hy
    by_cases hti : t = i
    · subst hti
      rw [hx] at hy; cases hy
      exact hup.1
    · have htl : t + 1 ≤ hv_max_ordinal := by
        rcases List.getElem?_eq_some_iff.mp hy with ⟨h, _⟩; omega
      rw [lookup_update_ne _ _ _ _ _ _ (key_ne i t hio htl (Ne.symm hti))]
      exact hinv t y (by omega) hy

/-- **hashvar_default**: after `HashMap.load` (at most 255 variables, defaults that can be packed) every variable's
cell holds its declared default (scaled by `FIXED_BASE` for a fixed-point variable): `load` succeeds and both sides read the default through the variable's format -/
theorem hashvar_default (vars : List HVar) (hn : vars.length ≤ hv_max_ordinal) (hok : ∀ x ∈ vars, okDefault x = true) :
    (hvStep vars [] .load).2 = .ok ∧
    ∀ i x, vars[i]? = some x →
      lookup (hvStep vars [] .load).1 (progKey i) = some (enc64 (storedDefault x)) ∧
      (hvStep vars (hvStep vars [] .load).1 (.prGet i)).2 = .value (x.fmt.view (enc64 (storedDefault x))) := by
  have h := load_inv vars hn hok vars 0 [] (by simp) (by simp) (by intro t x ht; omega)
  refine ⟨h.1, fun i x hx => ⟨h.2 i x hx, ?_⟩⟩
  have := h.2 i x hx
  simp only [hvStep] at this ⊢
  simp only [hx, this]

/-! #### a value written on one side is read unchanged on the other -/

theorem encLE_take : ∀ (n m x : Nat), n ≤ m → (encLE m x).take n = encLE n x
  | 0, _, _, _ => by simp [encLE]
  | n + 1, 0, _, h => by omega
  | n + 1, m + 1, x, h => by simp [encLE, encLE_take n m (x / 256) (by omega)]

theorem encLE_congr : ∀ (n a b : Nat), a % 256 ^ n = b % 256 ^ n → encLE n a = encLE n b
  | 0, _, _, _ => rfl
  | n + 1, a, b, h => by
    have h1 : a % 256 = b % 256 := by
      have := congrArg (· % 256) h
      simp only [Nat.pow_succ, Nat.mod_mul_left_mod] at this
      exact this
    have h2 : a / 256 % 256 ^ n = b / 256 % 256 ^ n := by
      have e : ∀ x : Nat, x / 256 % 256 ^ n = x % 256 ^ (n + 1) / 256 := by
        intro x
        rw [Nat.pow_succ, Nat.mul_comm, Nat.mod_mul_right_div_self]
      rw [e a, e b, h]
    simp [encLE, h1, encLE_congr n _ _ h2]

theorem ofSigned_low (f : Fmt) (v : Int) : ofSigned 8 v % 256 ^ f.size = ofSigned f.size v % 256 ^ f.size := by
  cases f <;> simp [ofSigned, Fmt.size] <;> omega

/-- the low bytes of the 8-byte cell are the member image of the same value -/
theorem take_enc64 (f : Fmt) (v : Int) : (enc64 v).take f.size = f.enc v := by
  unfold enc64 Fmt.enc
  rw [encLE_take f.size 8 _ (by cases f <;> decide)]
  exact encLE_congr _ _ _ (ofSigned_low f v)

theorem view_enc64 (f : Fmt) (v : Int) (h : f.fits v = true) : (HFmt.plain f).view (enc64 v) = v := by
  simp only [HFmt.view, take_enc64, dec_enc f v h]

theorem fitsS_iff (n : Nat) (v : Int) : fitsS n v = true ↔ -(2 ^ (8 * n - 1)) ≤ v ∧ v < 2 ^ (8 * n - 1) := by
  simp [fitsS]

theorem fitsU_iff (n : Nat) (v : Int) : fitsU n v = true ↔ 0 ≤ v ∧ v < 2 ^ (8 * n) := by
  simp [fitsU]

theorem fits64 (f : Fmt) (v : Int) (h : f.fits v = true) : (if f.signed then fitsS 8 v else fitsU 8 v) = true := by
  cases f <;> simp only [Fmt.fits, Fmt.signed, ↓reduceIte, Bool.false_eq_true, fitsS_iff, fitsU_iff] at h ⊢ <;>
    simp only [Fmt.size, Nat.reduceMul, Nat.reduceSub, Int.reducePow, Int.reduceNeg] at h ⊢ <;> omega

/-- **Python → program**: a value of the variable's format written by `HashGlobalVarDesc.__set__` is what the
program's read of the variable yields -/
theorem hashvar_py_to_prog (vars : List HVar) (m : KMap) (i : Nat) (x : HVar) (f : Fmt) (v : Int)
    (hx : vars[i]? = some x) (hf : x.fmt = .plain f) (hi : i + 1 ≤ hv_max_ordinal) (hfit : f.fits v = true)
    (hroom : lookup m (progKey i) ≠ none ∨ m.length < vars.length) :
    (hvStep vars m (.pySet i v false)).2 = .ok ∧
    (hvStep vars (hvStep vars m (.pySet i v false)).1 (.prGet i)).2 = .value v := by
  have h64 : (if x.fmt.signed then fitsS 8 v else fitsU 8 v) = true := by
    rw [hf]; exact fits64 f v hfit
  have hset := pySet_ok vars m i x v v false hx hi (by rw [hf]; rfl) h64
  have hup := lookup_update_same vars.length m (progKey i) (enc64 v) hroom
  simp only [hvStep, hset, hx, hup.1, hf, view_enc64 f v hfit, and_self]

/-- **program → Python**: a value of the variable's format stored by the program is what
`HashGlobalVarDesc.__get__` returns -/
theorem hashvar_prog_to_py (vars : List HVar) (m : KMap) (i : Nat) (x : HVar) (f : Fmt) (v : Int)
    (hx : vars[i]? = some x) (hf : x.fmt = .plain f) (hi : i + 1 ≤ hv_max_ordinal) (hfit : f.fits v = true)
    (hroom : lookup m (progKey i) ≠ none ∨ m.length < vars.length) :
    (hvStep vars (hvStep vars m (.prSet i v)).1 (.pyGet i)).2 = .value v := by
  have hup := lookup_update_same vars.length m (progKey i) (enc64 v) hroom
  simp only [hvStep, hx, pyKey_eq i hi, hup.1, hf, view_enc64 f v hfit]

theorem view_fixed (w : Int) (h : fitsS 8 w = true) : HFmt.fixed.view (enc64 w) = w := by
  have := dec_enc .q w (by simpa [Fmt.fits, Fmt.signed, Fmt.size] using h)
  simpa [HFmt.view, enc64, Fmt.dec, Fmt.enc, Fmt.signed, Fmt.size] using this

/-- **fixed-point variables, both directions**: Python's `var = value` stores `round(value * FIXED_BASE)` (`w`, given
scaled for a float, `v * FIXED_BASE` for an int) and the program reads that scaled value; what the program stores is
what Python's read divides by `FIXED_BASE` (observed scaled) -/
theorem hashvar_fixed_roundtrip (vars : List HVar) (m : KMap) (i : Nat) (x : HVar) (v w : Int) (fl : Bool)
    (hx : vars[i]? = some x) (hf : x.fmt = .fixed) (hi : i + 1 ≤ hv_max_ordinal)
    (hw : w = if fl then v else v * FIXED_BASE) (hfit : fitsS 8 w = true)
    (hroom : lookup m (progKey i) ≠ none ∨ m.length < vars.length) :
    (hvStep vars m (.pySet i v fl)).2 = .ok ∧
    (hvStep vars (hvStep vars m (.pySet i v fl)).1 (.prGet i)).2 = .value w ∧
    (hvStep vars (hvStep vars m (.prSet i w)).1 (.pyGet i)).2 = .value w := by
  have hset := pySet_ok vars m i x v w fl hx hi (by rw [hf, hw]; rfl) (by rw [hf]; exact hfit)
  have hup := lookup_update_same vars.length m (progKey i) (enc64 w) hroom
  simp only [hvStep, hset, hx, hup.1, hf, pyKey_eq i hi, view_fixed w hfit, and_self]

/-! ### non-vacuity: the hypotheses hold on concrete non-trivial declarations and histories -/

/-- the declaration probed in the kernel (notes/probes/p6.py): 15-byte key, 13-byte value -/
def exD : DictDecl := ⟨[.q, .I, .h, .B], [.Q, .i, .b], 12, 8⟩

example : exD.valid = true := by decide
example : (exD.K, exD.V, exD.keyDepth, exD.valDepth) = (15, 13, 32, 48) := by decide
example : offsets 0 exD.keyFmts = [0, 8, 12, 14] ∧ layoutOk 0 [.B, .I] = false := by decide
example : OpOk exD (.prUpdate [10, 20, 30, 40] [18364758544493064720, -5, -6] 0) := ⟨by decide, by decide⟩
example : Rel exD [] [] := rel_empty exD
example : (aRun exD [] [.prUpdate [10, 20, 30, 40] [7, -5, -6] 0, .pyGet [10, 20, 30, 40], .pyPop [10, 20, 30, 40],
    .prLookup [10, 20, 30, 40], .pyIter]).2 = [.r0 0, .value [7, -5, -6], .value [7, -5, -6], .els, .keys []] := by decide
example : (cRun exD (zeros stackSize) [] [.prUpdate [10, 20, 30, 40] [7, -5, -6] 0, .pyGet [10, 20, 30, 40], .pyPop [10, 20, 30, 40],
    .prLookup [10, 20, 30, 40], .pyIter]).2 = [.r0 0, .value [7, -5, -6], .value [7, -5, -6], .els, .keys []] := by
  decide +kernel
example : okDefault ⟨.plain .I, 5, false⟩ = true ∧ okDefault ⟨.plain .q, -7, false⟩ = true ∧
    okDefault ⟨.fixed, 150000, true⟩ = true ∧ storedDefault ⟨.fixed, 3, false⟩ = 300000 := by decide
example : target (.prAdd 1 200) = some 1 := rfl

/-! ### several loaded programs: instances of one class, restarts

The statement "each hash-map variable behaves as an independent cell … a value written by Python or by
the program is read back unchanged by the other side" is about *a* program; with two programs alive at
the same time (two instances of one program class, or a program that was closed and created again) it
must hold for each of them whatever is done with the others. -/

section Several
variable (D : DictDecl) (stack0 : Bytes) (vars : List HVar)

/-- an operation on program `op.inst` leaves the maps of every other program alone -/
theorem sysStep_other (s : Sys) (op : SOp) (i : Nat) (h : i ≠ op.inst) :
    (sysStep D stack0 vars s op).1 i = s i := by
  simp [sysStep, setInst, h]

theorem sysStep_own (s : Sys) (op : SOp) :
    (sysStep D stack0 vars s op).1 op.inst = (instStep D stack0 vars (s op.inst) op).1 := by
  simp [sysStep, setInst]

/-- **instances_independent**: in any interleaving of operations on any number of programs (creations and
restarts included), program `i` ends with exactly the maps, and makes exactly the observations, of a run of
its own operations alone — induction over the operation list. -/
theorem instances_independent (i : Nat) : ∀ (ops : List SOp) (s : Sys),
    (sysRun D stack0 vars s ops).1 i = (instRun D stack0 vars (s i) (ops.filter (fun o => o.inst = i))).1 ∧
    ((sysRun D stack0 vars s ops).2.filter (fun e => e.1 = i)).map (fun e => e.2)
      = (instRun D stack0 vars (s i) (ops.filter (fun o => o.inst = i))).2
  | [], s => ⟨rfl, rfl⟩
  | op :: ops, s => by
    have ih := instances_independent i ops (sysStep D stack0 vars s op).1
    by_cases h : op.inst = i
    · have e : (sysStep D stack0 vars s op).1 i = (instStep D stack0 vars (s i) op).1 := by
        rw [← h]; exact sysStep_own D stack0 vars s op
      have e2 : (sysStep D stack0 vars s op).2 = (instStep D stack0 vars (s i) op).2 := by
        rw [← h]; rfl
      have hf : (op :: ops).filter (fun o => o.inst = i) = op :: ops.filter (fun o => o.inst = i) := by simp [h]
      rw [e] at ih
      rw [hf]
      refine ⟨by simp only [sysRun, instRun]; exact ih.1, ?_⟩
      simp only [sysRun, instRun, List.filter_cons, h, decide_true, if_true, List.map_cons, e2]
      rw [ih.2]
    · have e : (sysStep D stack0 vars s op).1 i = s i := sysStep_other D stack0 vars s op i (fun x => h x.symm)
      have hf : (op :: ops).filter (fun o => o.inst = i) = ops.filter (fun o => o.inst = i) := by simp [h]
      rw [e] at ih
      rw [hf]
      refine ⟨by simp only [sysRun]; exact ih.1, ?_⟩
      simp only [sysRun, List.filter_cons, h, decide_false]
      exact ih.2

/-- **restart_fresh**: creating program `j` (again) succeeds, gives it an empty Dict and hash variables that hold
their declared defaults — whatever `j` or any other program held before — and changes no other program. -/
theorem restart_fresh (s : Sys) (j : Nat) (hn : vars.length ≤ hv_max_ordinal) (hok : ∀ x ∈ vars, okDefault x = true) :
    (sysStep D stack0 vars s (.new j)).2 = .loaded .ok ∧
    ((sysStep D stack0 vars s (.new j)).1 j).dict = [] ∧
    (∀ i x, vars[i]? = some x →
      (hvStep vars ((sysStep D stack0 vars s (.new j)).1 j).hv (.prGet i)).2 = .value (x.fmt.view (enc64 (storedDefault x)))) ∧
    ∀ i, i ≠ j → (sysStep D stack0 vars s (.new j)).1 i = s i := by
  have hd := hashvar_default vars hn hok
  refine ⟨?_, ?_, ?_, fun i hi => sysStep_other D stack0 vars s (.new j) i hi⟩
  · simp [sysStep, instStep, hd.1]
  · simp [sysStep, instStep, setInst, SOp.inst]
  · intro i x hx
    have := (hd.2 i x hx).2
    simpa [sysStep, instStep, setInst, SOp.inst] using this

/-! the abstract side: one dictionary of member tuples per program -/

abbrev ASys := Nat → AMap

def dictOut : SOut → Option Out
  | .dict o => some o
  | _ => none

def aSysStep (a : ASys) : SOp → ASys × Option Out
  | .new j => (fun i => if i = j then [] else a i, none)
  | .dict j op => (fun i => if i = j then (aStep D (a j) op).1 else a i, some (aStep D (a j) op).2)
  | .hvar _ _ => (a, none)

def aSysRun : ASys → List SOp → ASys × List (Nat × Option Out)
  | a, [] => (a, [])
  | a, op :: ops =>
    ((aSysRun (aSysStep D a op).1 ops).1, (op.inst, (aSysStep D a op).2) :: (aSysRun (aSysStep D a op).1 ops).2)

def SOpOk : SOp → Prop
  | .dict _ op => OpOk D op
  | _ => True

theorem sysStep_refines (hv : D.valid = true) (hs : stack0.length = stackSize) (s : Sys) (a : ASys)
    (hR : ∀ i, Rel D (s i).dict (a i)) (op : SOp) (hop : SOpOk D op) :
    (∀ i, Rel D ((sysStep D stack0 vars s op).1 i).dict ((aSysStep D a op).1 i)) ∧
    dictOut (sysStep D stack0 vars s op).2 = (aSysStep D a op).2 := by
  cases op with
  | new j =>
    refine ⟨fun i => ?_, rfl⟩
    by_cases h : i = j
    · simp [sysStep, instStep, setInst, SOp.inst, aSysStep, h, rel_empty]
    · simp [sysStep, setInst, SOp.inst, aSysStep, h, hR i]
  | dict j o =>
    obtain ⟨h1, h2⟩ := step_refines D hv stack0 hs (s j).dict (a j) (hR j) o hop
    refine ⟨fun i => ?_, ?_⟩
    · by_cases h : i = j
      · simp [sysStep, instStep, setInst, SOp.inst, aSysStep, h, h1]
      · simp [sysStep, setInst, SOp.inst, aSysStep, h, hR i]
    · simp [sysStep, instStep, SOp.inst, aSysStep, dictOut, h2]
  | hvar j o =>
    refine ⟨fun i => ?_, rfl⟩
    by_cases h : i = j
    · simp [sysStep, instStep, setInst, SOp.inst, aSysStep, h, hR j]
    · simp [sysStep, setInst, SOp.inst, aSysStep, h, hR i]

/-- **sys_refinement**: with any number of programs, every sequence of operations (creations, restarts, Dict and
hash-variable operations from both sides, on any program) makes on each program's Dict exactly the observations of
one abstract dictionary of member tuples *per program*: an entry put into one program's Dict is never seen in
another's. -/
theorem sys_refinement (hv : D.valid = true) (hs : stack0.length = stackSize) :
    ∀ (ops : List SOp) (s : Sys) (a : ASys), (∀ i, Rel D (s i).dict (a i)) → (∀ op ∈ ops, SOpOk D op) →
      (∀ i, Rel D ((sysRun D stack0 vars s ops).1 i).dict ((aSysRun D a ops).1 i)) ∧
      (sysRun D stack0 vars s ops).2.map (fun e => (e.1, dictOut e.2)) = (aSysRun D a ops).2
  | [], s, a, hR, _ => ⟨hR, rfl⟩
  | op :: ops, s, a, hR, hok => by
    obtain ⟨h1, h2⟩ := sysStep_refines D stack0 vars hv hs s a hR op (hok op (by simp))
    obtain ⟨h3, h4⟩ := sys_refinement hv hs ops _ _ h1 (fun o ho => hok o (by simp [ho]))
    exact ⟨h3, by simp only [sysRun, aSysRun, List.map_cons, h2, h4]⟩

end Several

/-- non-vacuity: two programs of one class; what the first one stores is not seen by the second -/
example : ((sysRun exD (zeros stackSize) [⟨.plain .I, 5, false⟩] emptySys
    [.new 0, .hvar 0 (.pySet 0 9 false), .new 1, .hvar 1 (.prGet 0), .hvar 0 (.prGet 0),
     .dict 0 (.prUpdate [10, 20, 30, 40] [7, -5, -6] 0), .dict 1 (.prLookup [10, 20, 30, 40]),
     .dict 0 (.prLookup [10, 20, 30, 40])]).2.map fun e => e.2)
    = [.loaded .ok, .hvar .ok, .loaded .ok, .hvar (.value 5), .hvar (.value 9), .dict (.r0 0), .dict .els,
       .dict (.found [7, -5, -6])] := by decide +kernel

/-! ### the objects Python keeps are values of their own

"An entry inserted or modified on one side is found with the same member values on the other": the `Value`
Python got for one key keeps showing that entry's members whatever Python looks up, pops, iterates or stores
afterwards, on this or any other program.  On the model: the heap of kept objects only grows at its end, an
object changes only when *it* is modified, and operations on kept objects do nothing to the kernel maps
except for an explicit store, which is a `table[k] = v` of the members the object shows. -/

section Kept
variable (D : DictDecl) (stack0 : Bytes) (vars : List HVar)

def _root_.Ebv.HashVars.POp.touchesVal : POp → Bool
  | .modVal _ _ _ => true
  | _ => false

def _root_.Ebv.HashVars.POp.touchesKey : POp → Bool
  | .modKey _ _ _ => true
  | _ => false

theorem modObj_length (fs : List Fmt) (objs : List Bytes) (i j : Nat) (x : Int) :
    (modObj fs objs i j x).1.length = objs.length := by
  unfold modObj
  split
  · rfl
  · simp

/-- modifying object `i mod n` leaves every other kept object as it is -/
theorem modObj_other (fs : List Fmt) (objs : List Bytes) (i j : Nat) (x : Int) (h : Nat) (hne : h ≠ i % objs.length) :
    (modObj fs objs i j x).1[h]? = objs[h]? := by
  unfold modObj
  split
  · rfl
  · simp [List.getElem?_set, Ne.symm hne]

/-- **kept_stable (one step)**: an operation that is not a modification of a kept value - any Dict or hash-variable
operation on any program from either side, creations, restarts, re-examinations, stores, modifications of kept
keys - leaves every kept value object exactly as it is; new objects are appended behind -/
theorem pStep_vals_prefix (w : PState) (op : POp) (h : op.touchesVal = false) :
    ∃ new, (pStep D stack0 vars w op).1.2.vals = w.2.vals ++ new := by
  cases op with
  | sys o =>
    cases o with
    | new j => exact ⟨[], by simp [pStep, Heap.keep]⟩
    | dict j o => exact ⟨keptVals D (w.1 j).dict o, by simp [pStep, Heap.keep]⟩
    | hvar j o => exact ⟨[], by simp [pStep, Heap.keep]⟩
  | recheck => exact ⟨[], by simp [pStep]⟩
  | modVal i j x => cases h
  | modKey i j x => exact ⟨[], by simp [pStep]⟩
  | store inst k i =>
    refine ⟨[], ?_⟩
    simp only [pStep]
    split <;> simp

theorem pStep_keys_prefix (w : PState) (op : POp) (h : op.touchesKey = false) :
    ∃ new, (pStep D stack0 vars w op).1.2.keys = w.2.keys ++ new := by
  cases op with
  | sys o =>
    cases o with
    | new j => exact ⟨[], by simp [pStep, Heap.keep]⟩
    | dict j o => exact ⟨keptKeys (w.1 j).dict o, by simp [pStep, Heap.keep]⟩
    | hvar j o => exact ⟨[], by simp [pStep, Heap.keep]⟩
  | recheck => exact ⟨[], by simp [pStep]⟩
  | modVal i j x => exact ⟨[], by simp [pStep]⟩
  | modKey i j x => cases h
  | store inst k i =>
    refine ⟨[], ?_⟩
    simp only [pStep]
    split <;> simp

/-- **kept_stable**: over any sequence of operations without modifications of kept values, every value object
Python holds at the start is still the same bytes at the end (and so shows the same members) -/
theorem kept_stable : ∀ (ops : List POp) (w : PState), (∀ op ∈ ops, op.touchesVal = false) →
    ∃ new, (pRun D stack0 vars w ops).1.2.vals = w.2.vals ++ new
  | [], w, _ => ⟨[], by simp [pRun]⟩
  | op :: ops, w, h => by
    obtain ⟨n1, h1⟩ := pStep_vals_prefix D stack0 vars w op (h op (by simp))
    obtain ⟨n2, h2⟩ := kept_stable ops (pStep D stack0 vars w op).1 (fun o ho => h o (by simp [ho]))
    exact ⟨n1 ++ n2, by simp only [pRun]; rw [h2, h1, List.append_assoc]⟩

theorem kept_keys_stable : ∀ (ops : List POp) (w : PState), (∀ op ∈ ops, op.touchesKey = false) →
    ∃ new, (pRun D stack0 vars w ops).1.2.keys = w.2.keys ++ new
  | [], w, _ => ⟨[], by simp [pRun]⟩
  | op :: ops, w, h => by
    obtain ⟨n1, h1⟩ := pStep_keys_prefix D stack0 vars w op (h op (by simp))
    obtain ⟨n2, h2⟩ := kept_keys_stable ops (pStep D stack0 vars w op).1 (fun o ho => h o (by simp [ho]))
    exact ⟨n1 ++ n2, by simp only [pRun]; rw [h2, h1, List.append_assoc]⟩

/-- a modification changes the one object it names, nothing else -/
theorem modVal_only_target (w : PState) (i j : Nat) (x : Int) (h : Nat) (hne : h ≠ i % w.2.vals.length) :
    (pStep D stack0 vars w (.modVal i j x)).1.2.vals[h]? = w.2.vals[h]? ∧
    (pStep D stack0 vars w (.modVal i j x)).1.2.keys = w.2.keys ∧
    (pStep D stack0 vars w (.modVal i j x)).1.2.vals.length = w.2.vals.length := by
  simp only [pStep]
  exact ⟨modObj_other _ _ i j x h hne, trivial, modObj_length _ _ i j x⟩

/-- looking at kept objects and modifying them does nothing to any program's maps -/
theorem kept_ops_leave_maps (w : PState) (op : POp) (h : ∀ o, op ≠ .sys o) (hs : ∀ inst k i, op ≠ .store inst k i) :
    (pStep D stack0 vars w op).1.1 = w.1 := by
  cases op with
  | sys o => exact absurd rfl (h o)
  | recheck => rfl
  | modVal i j x => rfl
  | modKey i j x => rfl
  | store inst k i => exact absurd rfl (hs inst k i)

/-- on the kernel maps a wrapped operation is the operation: every theorem about `sysRun` applies -/
theorem pStep_sys (w : PState) (op : SOp) :
    (pStep D stack0 vars w (.sys op)).1.1 = (sysStep D stack0 vars w.1 op).1 ∧
    (pStep D stack0 vars w (.sys op)).2 = .sys (sysStep D stack0 vars w.1 op).2 := ⟨rfl, rfl⟩

/-- **kept_is_reported**: the object Python keeps from `table[k]` / `table.pop(k)` shows exactly the members the
operation reported -/
theorem kept_is_reported (m : KMap) (op : Op) (v : List Int) (hop : (∃ k, op = .pyGet k) ∨ (∃ k, op = .pyPop k))
    (h : (cStep D stack0 m op).2 = .value v) :
    (keptVals D m op).map (readMembers 0 D.valFmts) = [v] := by
  rcases hop with ⟨k, rfl⟩ | ⟨k, rfl⟩ <;>
  · simp only [cStep, keptVals] at h ⊢
    cases hk : pyStruct D.keyFmts k with
    | none => simp [hk] at h
    | some kb =>
      simp only [hk] at h
      cases hl : lookup m kb with
      | none => simp [hl] at h
      | some vb =>
        simp only [hl] at h
        injection h with h
        simp [keptValsAt, hl, h]

/-- and the keys `list(table)` yields show the reported members -/
theorem kept_keys_reported (m : KMap) :
    (keptKeys m .pyIter).map (readMembers 0 D.keyFmts) = m.map fun e => readMembers 0 D.keyFmts e.1 := by
  simp [keptKeys]

/-- **store_is_set**: storing a kept object whose buffer is the image of the members `v` is `table[Key(k)] = Value(v)` -/
theorem store_is_set (m : KMap) (k v : List Int) (vb : Bytes) (hv : pyStruct D.valFmts v = some vb) :
    storeRaw D m vb (pyStruct D.keyFmts k) = cStep D stack0 m (.pySet k v) := by
  cases hk : pyStruct D.keyFmts k with
  | none => simp [storeRaw, cStep, hk]
  | some kb => simp [storeRaw, cStep, hk, hv]

end Kept

/-- non-vacuity: two values and the keys are kept while the table goes on being used; nothing kept changes, the
modified object changes alone, and the stored object arrives as the members it shows -/
example : (pRun exD (zeros stackSize) [] (emptySys, emptyHeap)
    [.sys (.new 0), .sys (.dict 0 (.pySet [1, 2, 3, 4] [7, -5, -6])), .sys (.dict 0 (.pySet [5, 6, 7, 8] [9, 1, 2])),
     .sys (.dict 0 (.pyGet [1, 2, 3, 4])), .sys (.dict 0 (.pyGet [5, 6, 7, 8])), .sys (.dict 0 .pyIter), .recheck,
     .modVal 0 1 44, .store 0 [5, 6, 7, 8] 0, .sys (.dict 0 (.pyGet [5, 6, 7, 8])), .recheck]).2
    = [.sys (.loaded .ok), .sys (.dict .ok), .sys (.dict .ok), .sys (.dict (.value [7, -5, -6])), .sys (.dict (.value [9, 1, 2])),
       .sys (.dict (.keys [[1, 2, 3, 4], [5, 6, 7, 8]])), .held [[7, -5, -6], [9, 1, 2]] [[1, 2, 3, 4], [5, 6, 7, 8]],
       .ok, .stored .ok, .sys (.dict (.value [7, 44, -6])),
       .held [[7, 44, -6], [9, 1, 2], [7, 44, -6]] [[1, 2, 3, 4], [5, 6, 7, 8]]] := by decide +kernel

end Ebv.C09
