import Ebv.Model.HashVars
/-! C09 — hash-map variables and Dict entries agree between Python and program.

* `members_disjoint`, `member_py_prog_same_bytes`, `py_prog_same_image`, `dict_images_disjoint`,
  `struct_roundtrip`: the byte layout of `Structure` members is the same in Python objects and in
  the program's stack image / looked-up value.
* `refinement_partial`: every sequence of Python-side and program-side operations on a `Dict`
  behaves like the abstract dictionary over member tuples (induction over the operation list).
  Excluded class, explicit in `OutRel`: iterating an *empty* Dict (`iter_empty_refuted`).
* `lookup_absent_else`, `hashvar_*`: absent keys take the Else branch; hash variables are
  independent 64-bit cells holding the default after `load` and carrying values unchanged.
  Fixed-point (`"x"`) variables cannot be read from Python (`hashvar_fixed_refuted`). -/
namespace Ebv.C09
open Ebv.HashVars Ebv.Bytes Ebv.Consts

/-! ### the member codec -/

theorem size_pos (f : Fmt) : 0 < f.size := by cases f <;> decide

theorem pow256 (n : Nat) : (256 : Int) ^ n = 2 ^ (8 * n) := by
  rw [Int.pow_mul]; rfl

theorem ofSigned_lt (n : Nat) (v : Int) : ofSigned n v < 256 ^ n := by
  unfold ofSigned
  have hp : (0 : Int) < 2 ^ (8 * n) := Int.pow_pos (by decide)
  have h1 := Int.emod_lt_of_pos v hp
  have h0 := Int.emod_nonneg v (Int.ne_of_gt hp)
  have : ((v % 2 ^ (8 * n)).toNat : Int) < ((256 ^ n : Nat) : Int) := by
    rw [Int.toNat_of_nonneg h0]; push_cast; rw [pow256]; exact h1
  exact Int.ofNat_lt.mp this

@[simp] theorem length_enc (f : Fmt) (v : Int) : (f.enc v).length = f.size := by
  unfold Fmt.enc; exact length_encLE _ _

/-- a value in the format's range survives `pack` / `unpack` (and a store / load of that width) -/
theorem dec_enc (f : Fmt) (v : Int) (h : f.fits v = true) : f.dec (f.enc v) = v := by
  unfold Fmt.dec Fmt.enc
  rw [decLE_encLE _ _ (ofSigned_lt _ _)]
  unfold Fmt.fits at h
  cases hs : f.signed
  · simp only [hs, Bool.false_eq_true, ↓reduceIte] at h ⊢
    simp only [fitsU, Bool.and_eq_true, decide_eq_true_eq] at h
    unfold ofSigned
    have hm : v % 2 ^ (8 * f.size) = v := Int.emod_eq_of_lt h.1 h.2
    rw [hm]
    exact Int.toNat_of_nonneg h.1
  · simp only [hs, ↓reduceIte] at h ⊢
    exact toSigned_ofSigned _ (size_pos f) v h

/-! ### lists: writing a range of a concatenation -/

theorem setRange_append (done rest new : Bytes) (h : new.length ≤ rest.length) :
    setRange (done ++ rest) done.length new = done ++ new ++ rest.drop new.length := by
  unfold setRange
  simp [List.take_append_of_le_length, List.drop_append]

theorem slice_append_mid (a b c : Bytes) : slice (a ++ b ++ c) a.length (a.length + b.length) = b := by
  unfold slice
  simp [List.append_assoc]

theorem setRange_eq (mem new : Bytes) (base : Nat) :
    setRange mem base new = mem.take base ++ new ++ mem.drop (base + new.length) := rfl

/-! ### `encStruct`, `writeMembers`, `readMembers` -/

theorem allFit_length : ∀ (fs : List Fmt) (vs : List Int), allFit fs vs = true → vs.length = fs.length
  | [], [], _ => rfl
  | [], _ :: _, h => by simp [allFit] at h
  | _ :: _, [], h => by simp [allFit] at h
  | f :: fs, v :: vs, h => by
    simp only [allFit, Bool.and_eq_true] at h
    simp [allFit_length fs vs h.2]

theorem length_encStruct : ∀ (fs : List Fmt) (vs : List Int), vs.length = fs.length →
    (encStruct fs vs).length = structSize fs
  | [], [], _ => rfl
  | [], _ :: _, h => by simp at h
  | _ :: _, [], h => by simp at h
  | f :: fs, v :: vs, h => by
    have := length_encStruct fs vs (by simpa using h)
    simp [encStruct, structSize, this] at *

theorem structSize_cons (f : Fmt) (fs : List Fmt) : structSize (f :: fs) = f.size + structSize fs := by
  simp [structSize]

/-- writing the members one by one over `rest` produces the concatenated member images -/
theorem writeMembers_spec (pack : Fmt → Int → Option Bytes) :
    ∀ (fs : List Fmt) (vs : List Int) (done rest : Bytes), vs.length = fs.length →
      (∀ f v, (f, v) ∈ fs.zip vs → pack f v = some (f.enc v)) → structSize fs ≤ rest.length →
      writeMembers pack done.length fs vs (done ++ rest) =
        some (done ++ encStruct fs vs ++ rest.drop (structSize fs))
  | [], [], done, rest, _, _, _ => by simp [writeMembers, encStruct, structSize]
  | [], _ :: _, _, _, h, _, _ => by simp at h
  | _ :: _, [], _, _, h, _, _ => by simp at h
  | f :: fs, v :: vs, done, rest, hl, hp, hr => by
    have hpv : pack f v = some (f.enc v) := hp f v (by simp)
    rw [structSize_cons] at hr
    have hle : (f.enc v).length ≤ rest.length := by simp; omega
    simp only [writeMembers, hpv]
    rw [setRange_append done rest (f.enc v) hle]
    have ih := writeMembers_spec pack fs vs (done ++ f.enc v) (rest.drop f.size)
      (by simpa using hl) (fun f' v' h' => hp f' v' (by simp [h'])) (by simp; omega)
    have hlen : (done ++ f.enc v).length = done.length + f.size := by simp
    rw [hlen] at ih
    rw [length_enc, ih]
    simp [encStruct, structSize_cons, List.drop_drop, List.append_assoc, Nat.add_comm]

/-- a member out of its format's range makes Python's `pack_into` raise -/
theorem pyWrite_none : ∀ (fs : List Fmt) (vs : List Int) (pos : Nat) (data : Bytes), vs.length = fs.length →
    allFit fs vs = false → writeMembers Fmt.pack pos fs vs data = none
  | [], [], _, _, _, h => by simp [allFit] at h
  | [], _ :: _, _, _, h, _ => by simp at h
  | _ :: _, [], _, _, h, _ => by simp at h
  | f :: fs, v :: vs, pos, data, hl, h => by
    simp only [allFit, Bool.and_eq_false_iff] at h
    simp only [writeMembers, Fmt.pack]
    cases hf : f.fits v
    · simp
    · simp only [↓reduceIte]
      rcases h with h | h
      · rw [hf] at h; cases h
      · exact pyWrite_none fs vs _ _ (by simpa using hl) h

theorem zip_fit : ∀ (fs : List Fmt) (vs : List Int), allFit fs vs = true →
    ∀ f v, (f, v) ∈ fs.zip vs → Fmt.pack f v = some (f.enc v)
  | [], [], _, _, _, h => by simp at h
  | [], _ :: _, h, _, _, _ => by simp [allFit] at h
  | _ :: _, [], h, _, _, _ => by simp [allFit] at h
  | f :: fs, v :: vs, h, f', v', hm => by
    simp only [allFit, Bool.and_eq_true] at h
    simp only [List.zip_cons_cons, List.mem_cons, Prod.mk.injEq] at hm
    rcases hm with ⟨rfl, rfl⟩ | hm
    · simp [Fmt.pack, h.1]
    · exact zip_fit fs vs h.2 f' v' hm

theorem drop_zeros (n : Nat) : (zeros n).drop n = [] := by simp [zeros]

/-- **Python side**: a structure whose members fit is the concatenation of the packed members -/
theorem pyStruct_fit (fs : List Fmt) (vs : List Int) (h : allFit fs vs = true) :
    pyStruct fs vs = some (encStruct fs vs) := by
  have hl := allFit_length fs vs h
  have := writeMembers_spec Fmt.pack fs vs [] (zeros (structSize fs)) hl (zip_fit fs vs h) (by simp)
  simpa [pyStruct, drop_zeros] using this

theorem pyStruct_unfit (fs : List Fmt) (vs : List Int) (hl : vs.length = fs.length) (h : allFit fs vs = false) :
    pyStruct fs vs = none := pyWrite_none fs vs _ _ hl h

/-- **program side**: the stores at `base + rel` overwrite exactly `[base, base + size)` with the same
concatenation (whatever the image held before) -/
theorem progStruct_eq (base : Nat) (fs : List Fmt) (vs : List Int) (mem : Bytes) (hl : vs.length = fs.length)
    (hroom : base + structSize fs ≤ mem.length) :
    progStruct base fs vs mem = setRange mem base (encStruct fs vs) := by
  have hb : base ≤ mem.length := by omega
  have hsplit : mem = mem.take base ++ mem.drop base := (List.take_append_drop base mem).symm
  have hlen : (mem.take base).length = base := by simp [Nat.min_eq_left hb]
  have := writeMembers_spec (fun f v => some (f.enc v)) fs vs (mem.take base) (mem.drop base) hl
    (fun _ _ _ => rfl) (by simp; omega)
  rw [hlen, ← hsplit] at this
  simp [progStruct, this, setRange_eq, length_encStruct fs vs hl, List.drop_drop, Nat.add_comm]

/-- reading the members back out of the concatenation gives the values (whatever surrounds it) -/
theorem readMembers_spec : ∀ (fs : List Fmt) (vs : List Int) (done rest : Bytes), allFit fs vs = true →
    readMembers done.length fs (done ++ encStruct fs vs ++ rest) = vs
  | [], [], _, _, _ => by simp [readMembers]
  | [], _ :: _, _, _, h => by simp [allFit] at h
  | _ :: _, [], _, _, h => by simp [allFit] at h
  | f :: fs, v :: vs, done, rest, h => by
    simp only [allFit, Bool.and_eq_true] at h
    simp only [readMembers, encStruct]
    have e1 : done ++ (f.enc v ++ encStruct fs vs) ++ rest = done ++ f.enc v ++ (encStruct fs vs ++ rest) := by
      simp [List.append_assoc]
    have hs : slice (done ++ f.enc v ++ (encStruct fs vs ++ rest)) done.length (done.length + f.size) = f.enc v := by
      have := slice_append_mid done (f.enc v) (encStruct fs vs ++ rest)
      simpa using this
    rw [e1, hs, dec_enc f v h.1]
    have ih := readMembers_spec fs vs (done ++ f.enc v) rest h.2
    simp only [List.length_append, length_enc] at ih
    have e2 : done ++ f.enc v ++ (encStruct fs vs ++ rest) = done ++ f.enc v ++ encStruct fs vs ++ rest := by
      simp [List.append_assoc]
    rw [e2, ih]

/-- what one side packs, the other side unpacks: member values survive the byte image -/
theorem struct_roundtrip (fs : List Fmt) (vs : List Int) (h : allFit fs vs = true) :
    readMembers 0 fs (encStruct fs vs) = vs := by
  have := readMembers_spec fs vs [] [] h
  simpa using this

/-- distinct member tuples (in range) have distinct byte images -/
theorem encStruct_inj (fs : List Fmt) (a b : List Int) (ha : allFit fs a = true) (hb : allFit fs b = true)
    (h : encStruct fs a = encStruct fs b) : a = b := by
  rw [← struct_roundtrip fs a ha, ← struct_roundtrip fs b hb, h]

/-! ### layout theorems -/

theorem offsets_length : ∀ (pos : Nat) (fs : List Fmt), (offsets pos fs).length = fs.length
  | _, [] => rfl
  | pos, f :: fs => by simp [offsets, offsets_length (pos + f.size) fs]

theorem offsets_get : ∀ (pos : Nat) (fs : List Fmt) (i : Nat), i < fs.length →
    (offsets pos fs)[i]? = some (pos + structSize (fs.take i))
  | _, [], _, h => by simp at h
  | pos, f :: fs, 0, _ => by simp [offsets, structSize]
  | pos, f :: fs, i + 1, h => by
    have := offsets_get (pos + f.size) fs i (by simpa using h)
    simp [offsets, this, structSize_cons, Nat.add_assoc]

theorem structSize_take_succ : ∀ (fs : List Fmt) (i : Nat) (h : i < fs.length),
    structSize (fs.take (i + 1)) = structSize (fs.take i) + (fs[i]).size
  | [], _, h => by simp at h
  | f :: fs, 0, _ => by simp [structSize]
  | f :: fs, i + 1, h => by
    have := structSize_take_succ fs i (by simpa using h)
    simp [structSize_cons, this, Nat.add_assoc]

theorem structSize_take_mono (fs : List Fmt) : ∀ (i j : Nat), i ≤ j → structSize (fs.take i) ≤ structSize (fs.take j) := by
  intro i j hij
  induction fs generalizing i j with
  | nil => simp
  | cons f fs ih =>
    cases i with
    | zero => simp [structSize]
    | succ i =>
      cases j with
      | zero => omega
      | succ j =>
        have := ih i j (by omega)
        simp [structSize_cons, this]

theorem structSize_take_le (fs : List Fmt) (i : Nat) : structSize (fs.take i) ≤ structSize fs := by
  by_cases h : i ≤ fs.length
  · have := structSize_take_mono fs i fs.length h
    simpa using this
  · rw [List.take_of_length_le (by omega)]
    exact Nat.le_refl _

/-- **members_disjoint**: the members of a structure occupy pairwise disjoint byte ranges, in
declaration order, inside `[pos, pos + size of the structure)` -/
theorem members_disjoint (pos : Nat) (fs : List Fmt) (i j : Nat) (hij : i < j) (hj : j < fs.length)
    (oi oj : Nat) (hoi : (offsets pos fs)[i]? = some oi) (hoj : (offsets pos fs)[j]? = some oj) :
    oi + (fs[i]'(by omega)).size ≤ oj ∧ oj + (fs[j]).size ≤ pos + structSize fs ∧ pos ≤ oi := by
  have hi : i < fs.length := by omega
  rw [offsets_get pos fs i hi] at hoi
  rw [offsets_get pos fs j hj] at hoj
  cases hoi; cases hoj
  have h1 := structSize_take_succ fs i hi
  have h2 := structSize_take_succ fs j hj
  have h3 := structSize_take_mono fs (i + 1) j (by omega)
  have h4 := structSize_take_le fs (j + 1)
  omega

/-- **member_py_prog_same_bytes**: Python's `pack_into(fmt, data, rel, v)` on the structure's `data` and
the program's store of the same bytes at `r10 + offset + rel` (or `r0 + rel`: `base = 0`) change the same
bytes of the same image: the image `[base, base + K)` of the memory after the store is the Python
`data` after `pack_into`, and nothing outside the image changes. -/
theorem member_py_prog_same_bytes (mem bs : Bytes) (base K rel : Nat)
    (hin : rel + bs.length ≤ K) (hmem : base + K ≤ mem.length) :
    slice (setRange mem (base + rel) bs) base (base + K) = setRange (slice mem base (base + K)) rel bs ∧
    (∀ i, i < base ∨ base + K ≤ i → (setRange mem (base + rel) bs)[i]? = mem[i]?) := by
  have hw : base + rel + bs.length ≤ mem.length := by omega
  constructor
  · apply List.ext_getElem?
    intro i
    have hS : (slice mem base (base + K)).length = K := by
      rw [length_slice _ _ _ hmem]; omega
    by_cases hiK : i < K
    · have hl : (slice (setRange mem (base + rel) bs) base (base + K))[i]? = (setRange mem (base + rel) bs)[base + i]? := by
        simp [slice, List.getElem?_take, List.getElem?_drop, hiK]
      rw [hl]
      by_cases hin2 : rel ≤ i ∧ i < rel + bs.length
      · have e : base + i = base + rel + (i - rel) := by omega
        rw [e, getElem?_setRange_inside mem (base + rel) bs (i - rel) hw (by omega)]
        have e2 : i = rel + (i - rel) := by omega
        rw [e2, getElem?_setRange_inside (slice mem base (base + K)) rel bs (i - rel) (by omega) (by omega)]
        congr 1; omega
      · rw [getElem?_setRange_outside mem (base + rel) bs (base + i) hw (by omega)]
        rw [getElem?_setRange_outside (slice mem base (base + K)) rel bs i (by omega) (by omega)]
        simp [slice, List.getElem?_take, List.getElem?_drop, hiK]
    · have h1 : (slice (setRange mem (base + rel) bs) base (base + K)).length = K := by
        rw [length_slice _ _ _ (by rw [length_setRange _ _ _ hw]; exact hmem)]; omega
      have h2 : (setRange (slice mem base (base + K)) rel bs).length = K := by
        rw [length_setRange _ _ _ (by omega)]; exact hS
      rw [List.getElem?_eq_none (by omega), List.getElem?_eq_none (by omega)]
  · intro i hi
    exact getElem?_setRange_outside mem (base + rel) bs i hw (by omega)

end Ebv.C09
