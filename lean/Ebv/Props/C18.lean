import Ebv.Model.Alloc
/-! C18 — sync groups give each terminal disjoint, exactly-sized process data.
All theorems quantify over every list of terminals (any sizes, flags, addressing modes,
Aerotech-style allocators) and every list of sync groups of one master. -/
namespace Ebv.C18
open Ebv.Alloc Ebv.Consts

/-! ### the layout without the limit checks -/

/-- a packet respects the limits `Packet.append` enforces -/
def Fits (p : Pkt) : Prop := p.size ≤ MAXSIZE ∧ p.dgrams.length ≤ MAX_DATAGRAMS
instance (p : Pkt) : Decidable (Fits p) := by unfold Fits; infer_instance

def opPure (op : Op) (p : Pkt) : Pkt :=
  match op with
  | .fmmuIn n => { p with fmmuInSize := p.fmmuInSize + n, fmmuInCount := p.fmmuInCount + 1 }
  | .fmmuOut n => { p with fmmuOutSize := p.fmmuOutSize + n, fmmuOutCount := p.fmmuOutCount + 1 }
  | .directIn d => p.push d
  | .directOut d => p.pushWriter d
  | .extra d w => if w then p.pushWriter d else p.push d

def purePkt : List Op → Pkt → Pkt
  | [], p => p
  | op :: ops, p => purePkt ops (opPure op p)

def pureClaims : List Op → Pkt → List Claim
  | [], _ => []
  | op :: ops, p => opClaim op p ++ pureClaims ops (opPure op p)

def pureTermsPkt : List Term → Pkt → Pkt
  | [], p => p
  | t :: ts, p => pureTermsPkt ts (purePkt (termOps t) p)

def pureTermsClaims : List Term → Pkt → List (List Claim)
  | [], _ => []
  | t :: ts, p => pureClaims (termOps t) p :: pureTermsClaims ts (purePkt (termOps t) p)

def lrd (la : Nat) (p : Pkt) : Dgram := ⟨cmd_LRD, p.fmmuInSize, 0, p.fmmuInCount, [la]⟩
def lwr (la : Nat) (p : Pkt) : Dgram := ⟨cmd_LWR, p.fmmuOutSize, 0, p.fmmuOutCount, [la + logical_addr_inc]⟩

def pureFmmu1 (la : Nat) (p : Pkt) : Pkt := if p.fmmuInSize ≠ 0 then p.push (lrd la p) else p
def pureFmmu2 (la : Nat) (p1 : Pkt) : Pkt := if p1.fmmuOutSize ≠ 0 then p1.pushWriter (lwr la p1) else p1

def pureFmmu (la : Nat) (p : Pkt) : FmmuPos :=
  ⟨pureFmmu2 la (pureFmmu1 la p), p.size, (pureFmmu1 la p).size, la, la + logical_addr_inc⟩

/-- what `allocate` would produce if frames were unlimited -/
def layout (ts : List Term) (la : Nat) : Out :=
  let f := pureFmmu la (pureTermsPkt ts Pkt.empty)
  ⟨(pureTermsClaims ts Pkt.empty).map (·.map (place f)), f⟩

/-! ### the checked run is the unchecked one guarded by the limits -/

@[simp] theorem push_dgrams (p : Pkt) (d : Dgram) : (p.push d).dgrams = p.dgrams ++ [d] := rfl
@[simp] theorem push_size (p : Pkt) (d : Dgram) :
    (p.push d).size = p.size + d.len + DATAGRAM_HEADER + DATAGRAM_TAIL := rfl
@[simp] theorem push_in (p : Pkt) (d : Dgram) : (p.push d).fmmuInSize = p.fmmuInSize := rfl
@[simp] theorem push_out (p : Pkt) (d : Dgram) : (p.push d).fmmuOutSize = p.fmmuOutSize := rfl
@[simp] theorem pushWriter_dgrams (p : Pkt) (d : Dgram) : (p.pushWriter d).dgrams = p.dgrams ++ [d] := rfl
@[simp] theorem pushWriter_size (p : Pkt) (d : Dgram) :
    (p.pushWriter d).size = p.size + d.len + DATAGRAM_HEADER + DATAGRAM_TAIL := rfl
@[simp] theorem pushWriter_in (p : Pkt) (d : Dgram) : (p.pushWriter d).fmmuInSize = p.fmmuInSize := rfl
@[simp] theorem pushWriter_out (p : Pkt) (d : Dgram) : (p.pushWriter d).fmmuOutSize = p.fmmuOutSize := rfl

theorem append_eq (p : Pkt) (d : Dgram) :
    p.append d = if Fits (p.push d) then some (p.push d) else none := by
  unfold Pkt.append Fits
  simp only [push_size, push_dgrams, List.length_append, List.length_singleton]
  by_cases h1 : p.size + d.len + DATAGRAM_HEADER + DATAGRAM_TAIL > MAXSIZE
  · have : ¬ (p.size + d.len + DATAGRAM_HEADER + DATAGRAM_TAIL ≤ MAXSIZE) := by omega
    simp [h1, this]
  · by_cases h2 : p.dgrams.length + 1 > MAX_DATAGRAMS
    · have : ¬ (p.dgrams.length + 1 ≤ MAX_DATAGRAMS) := by omega
      simp [h1, h2, this]
    · have a : p.size + d.len + DATAGRAM_HEADER + DATAGRAM_TAIL ≤ MAXSIZE := by omega
      have b : p.dgrams.length + 1 ≤ MAX_DATAGRAMS := by omega
      simp [h1, h2, a, b]

theorem appendWriter_eq (p : Pkt) (d : Dgram) :
    p.appendWriter d = if Fits (p.pushWriter d) then some (p.pushWriter d) else none := by
  unfold Pkt.appendWriter
  rw [append_eq]
  have : Fits (p.pushWriter d) ↔ Fits (p.push d) := Iff.rfl
  by_cases h : Fits (p.push d) <;> simp [h, this]

/-- sizes and the datagram list only grow -/
structure Le (p q : Pkt) : Prop where
  dgrams : p.dgrams <+: q.dgrams
  size : p.size ≤ q.size
  fin : p.fmmuInSize ≤ q.fmmuInSize
  fout : p.fmmuOutSize ≤ q.fmmuOutSize

theorem Le.refl (p : Pkt) : Le p p := ⟨List.prefix_refl _, Nat.le_refl _, Nat.le_refl _, Nat.le_refl _⟩
theorem Le.trans {p q r : Pkt} (a : Le p q) (b : Le q r) : Le p r :=
  ⟨a.dgrams.trans b.dgrams, Nat.le_trans a.size b.size, Nat.le_trans a.fin b.fin, Nat.le_trans a.fout b.fout⟩

theorem Le.fits {p q : Pkt} (h : Le p q) (hq : Fits q) : Fits p :=
  ⟨Nat.le_trans h.size hq.1, Nat.le_trans h.dgrams.length_le hq.2⟩

theorem le_push (p : Pkt) (d : Dgram) : Le p (p.push d) :=
  ⟨by simp, by simp; omega, by simp, by simp⟩
theorem le_pushWriter (p : Pkt) (d : Dgram) : Le p (p.pushWriter d) :=
  ⟨by simp, by simp; omega, by simp, by simp⟩

theorem le_opPure (op : Op) (p : Pkt) : Le p (opPure op p) := by
  cases op with
  | fmmuIn n => exact ⟨List.prefix_refl _, Nat.le_refl _, Nat.le_add_right _ _, Nat.le_refl _⟩
  | fmmuOut n => exact ⟨List.prefix_refl _, Nat.le_refl _, Nat.le_refl _, Nat.le_add_right _ _⟩
  | directIn d => exact le_push p d
  | directOut d => exact le_pushWriter p d
  | extra d w => cases w <;> simp [opPure, le_push, le_pushWriter]

theorem le_purePkt (ops : List Op) (p : Pkt) : Le p (purePkt ops p) := by
  induction ops generalizing p with
  | nil => exact Le.refl p
  | cons op ops ih => exact (le_opPure op p).trans (ih _)

theorem le_pureTermsPkt (ts : List Term) (p : Pkt) : Le p (pureTermsPkt ts p) := by
  induction ts generalizing p with
  | nil => exact Le.refl p
  | cons t ts ih => exact (le_purePkt _ p).trans (ih _)

theorem le_pureFmmu1 (la : Nat) (p : Pkt) : Le p (pureFmmu1 la p) := by
  unfold pureFmmu1; split
  · exact le_push _ _
  · exact Le.refl p
theorem le_pureFmmu2 (la : Nat) (p : Pkt) : Le p (pureFmmu2 la p) := by
  unfold pureFmmu2; split
  · exact le_pushWriter _ _
  · exact Le.refl p

theorem opPkt_eq (op : Op) (p : Pkt) (hp : Fits p) :
    opPkt op p = if Fits (opPure op p) then some (opPure op p) else none := by
  cases op with
  | fmmuIn n =>
    have : Fits (opPure (.fmmuIn n) p) := hp
    simp [this]; rfl
  | fmmuOut n =>
    have : Fits (opPure (.fmmuOut n) p) := hp
    simp [this]; rfl
  | directIn d => exact append_eq p d
  | directOut d => exact appendWriter_eq p d
  | extra d w => cases w <;> simp [opPkt, opPure, append_eq, appendWriter_eq]

theorem runOps_eq (ops : List Op) (p : Pkt) (hp : Fits p) :
    runOps ops p = if Fits (purePkt ops p) then some (purePkt ops p, pureClaims ops p) else none := by
  induction ops generalizing p with
  | nil => simp [runOps, purePkt, pureClaims, hp]
  | cons op ops ih =>
    unfold runOps
    rw [opPkt_eq op p hp]
    by_cases h1 : Fits (opPure op p)
    · simp only [h1, ↓reduceIte, purePkt, pureClaims]
      rw [ih _ h1]
      by_cases h2 : Fits (purePkt ops (opPure op p)) <;> simp [h2]
    · have : ¬ Fits (purePkt ops (opPure op p)) := fun h => h1 ((le_purePkt ops _).fits h)
      simp [h1, purePkt, this]

theorem allocTerms_eq (ts : List Term) (p : Pkt) (hp : Fits p) :
    allocTerms ts p =
      if Fits (pureTermsPkt ts p) then some (pureTermsPkt ts p, pureTermsClaims ts p) else none := by
  induction ts generalizing p with
  | nil => simp [allocTerms, pureTermsPkt, pureTermsClaims, hp]
  | cons t ts ih =>
    unfold allocTerms termAlloc
    rw [runOps_eq _ p hp]
    by_cases h1 : Fits (purePkt (termOps t) p)
    · simp only [h1, ↓reduceIte, pureTermsPkt, pureTermsClaims]
      rw [ih _ h1]
      by_cases h2 : Fits (pureTermsPkt ts (purePkt (termOps t) p)) <;> simp [h2]
    · have : ¬ Fits (pureTermsPkt ts (purePkt (termOps t) p)) := fun h => h1 ((le_pureTermsPkt ts _).fits h)
      simp [h1, pureTermsPkt, this]

theorem appendFmmu_eq (la : Nat) (p : Pkt) (hp : Fits p) :
    appendFmmu la p = if Fits (pureFmmu la p).pkt then some (pureFmmu la p) else none := by
  unfold appendFmmu pureFmmu
  have e1 : (if p.fmmuInSize ≠ 0 then p.append ⟨cmd_LRD, p.fmmuInSize, 0, p.fmmuInCount, [la]⟩ else some p)
      = if Fits (pureFmmu1 la p) then some (pureFmmu1 la p) else none := by
    unfold pureFmmu1 lrd
    by_cases h : p.fmmuInSize ≠ 0
    · rw [if_pos h, if_pos h]; exact append_eq _ _
    · rw [if_neg h, if_neg h]; simp [hp]
  rw [e1]
  by_cases h1 : Fits (pureFmmu1 la p)
  · simp only [h1, ↓reduceIte]
    have e2 : (if (pureFmmu1 la p).fmmuOutSize ≠ 0
          then (pureFmmu1 la p).appendWriter ⟨cmd_LWR, (pureFmmu1 la p).fmmuOutSize, 0, (pureFmmu1 la p).fmmuOutCount, [la + logical_addr_inc]⟩
          else some (pureFmmu1 la p))
        = if Fits (pureFmmu2 la (pureFmmu1 la p)) then some (pureFmmu2 la (pureFmmu1 la p)) else none := by
      unfold pureFmmu2 lwr
      by_cases h : (pureFmmu1 la p).fmmuOutSize ≠ 0
      · rw [if_pos h, if_pos h]; exact appendWriter_eq _ _
      · rw [if_neg h, if_neg h]; simp [h1]
    rw [e2]
    by_cases h2 : Fits (pureFmmu2 la (pureFmmu1 la p)) <;> simp [h2]
  · have : ¬ Fits (pureFmmu2 la (pureFmmu1 la p)) := fun h => h1 ((le_pureFmmu2 la _).fits h)
    simp [h1, this]

theorem fits_empty : Fits Pkt.empty := by decide

/-- `allocate` is the unchecked layout, accepted exactly when its packet respects the limits -/
theorem allocate_eq (ts : List Term) (la : Nat) :
    allocate ts la = if Fits (layout ts la).f.pkt then some (layout ts la) else none := by
  unfold allocate
  rw [allocTerms_eq ts _ fits_empty]
  by_cases h1 : Fits (pureTermsPkt ts Pkt.empty)
  · simp only [h1, ↓reduceIte, finish]
    rw [appendFmmu_eq la _ h1]
    by_cases h2 : Fits (pureFmmu la (pureTermsPkt ts Pkt.empty)).pkt
    · simp [h2, layout]
    · simp [h2, layout]
  · have : ¬ Fits (layout ts la).f.pkt := by
      intro h
      apply h1
      exact ((le_pureFmmu1 la _).trans (le_pureFmmu2 la _)).fits h
    simp [h1, this]

/-! ### positions of datagrams -/

def bytes (ds : List Dgram) : Nat := (ds.map fun d => d.len + DATAGRAM_HEADER + DATAGRAM_TAIL).sum

@[simp] theorem bytes_nil : bytes [] = 0 := rfl
@[simp] theorem bytes_cons (d : Dgram) (ds : List Dgram) :
    bytes (d :: ds) = d.len + DATAGRAM_HEADER + DATAGRAM_TAIL + bytes ds := by simp [bytes]
@[simp] theorem bytes_append (a b : List Dgram) : bytes (a ++ b) = bytes a + bytes b := by
  simp [bytes, List.sum_append]

theorem dgramPos_eq (ds : List Dgram) (k : Nat) : dgramPos ds k = PACKET_HEADER + bytes (ds.take k) := rfl

theorem dgramPos_prefix {ds ds' : List Dgram} (h : ds <+: ds') {k : Nat} (hk : k ≤ ds.length) :
    dgramPos ds' k = dgramPos ds k := by
  obtain ⟨more, rfl⟩ := h
  rw [dgramPos_eq, dgramPos_eq, List.take_append_of_le_length hk]

theorem getElem?_prefix {ds ds' : List Dgram} (h : ds <+: ds') {k : Nat} {d : Dgram}
    (hk : ds[k]? = some d) : ds'[k]? = some d := by
  obtain ⟨more, rfl⟩ := h
  have hlt : k < ds.length := (List.getElem?_eq_some_iff.mp hk).1
  rw [List.getElem?_append_left hlt]; exact hk

/-- a datagram (header, data, working counter) ends before the end of the list's bytes -/
theorem dgram_end_le (ds : List Dgram) (k : Nat) (d : Dgram) (h : ds[k]? = some d) :
    dgramPos ds k + DATAGRAM_HEADER + d.len + DATAGRAM_TAIL ≤ PACKET_HEADER + bytes ds := by
  induction ds generalizing k with
  | nil => simp at h
  | cons a as ih =>
    cases k with
    | zero =>
      simp at h; subst h
      simp [dgramPos_eq]; omega
    | succ k =>
      simp at h
      have := ih k h
      simp [dgramPos_eq] at this ⊢; omega

/-- the packet's `size` is exactly the header plus all its datagrams -/
def Wf (p : Pkt) : Prop := p.size = PACKET_HEADER + bytes p.dgrams

theorem wf_empty : Wf Pkt.empty := rfl
theorem wf_push {p : Pkt} (h : Wf p) (d : Dgram) : Wf (p.push d) := by
  unfold Wf at *; simp [h]; omega
theorem wf_pushWriter {p : Pkt} (h : Wf p) (d : Dgram) : Wf (p.pushWriter d) := wf_push h d

theorem wf_opPure {p : Pkt} (h : Wf p) (op : Op) : Wf (opPure op p) := by
  cases op with
  | fmmuIn n => exact h
  | fmmuOut n => exact h
  | directIn d => exact wf_push h d
  | directOut d => exact wf_pushWriter h d
  | extra d w => cases w <;> simp [opPure, wf_push h, wf_pushWriter h]

theorem wf_purePkt {p : Pkt} (h : Wf p) (ops : List Op) : Wf (purePkt ops p) := by
  induction ops generalizing p with
  | nil => exact h
  | cons op ops ih => exact ih (wf_opPure h op)

theorem wf_pureTermsPkt {p : Pkt} (h : Wf p) (ts : List Term) : Wf (pureTermsPkt ts p) := by
  induction ts generalizing p with
  | nil => exact h
  | cons t ts ih => exact ih (wf_purePkt h _)

theorem wf_pureFmmu1 {p : Pkt} (h : Wf p) (la : Nat) : Wf (pureFmmu1 la p) := by
  unfold pureFmmu1; split
  · exact wf_push h _
  · exact h
theorem wf_pureFmmu2 {p : Pkt} (h : Wf p) (la : Nat) : Wf (pureFmmu2 la p) := by
  unfold pureFmmu2; split
  · exact wf_pushWriter h _
  · exact h

/-- the datagram just pushed sits at the old `size` -/
theorem pushed_at {p : Pkt} (h : Wf p) (d : Dgram) :
    (p.dgrams ++ [d])[p.dgrams.length]? = some d ∧ dgramPos (p.dgrams ++ [d]) p.dgrams.length = p.size := by
  refine ⟨by simp, ?_⟩
  rw [dgramPos_eq, List.take_append_of_le_length (Nat.le_refl _), List.take_length]
  exact h.symm

/-! ### claims are made in increasing, non-overlapping order -/

/-- the counter a claim's offset is taken from -/
def level (p : Pkt) : Base → Nat
  | .noFmmu => p.size
  | .fmmuIn => p.fmmuInSize
  | .fmmuOut => p.fmmuOutSize

/-- where the counter stands after the claim's action -/
def hi (c : Claim) : Nat :=
  match c.base with
  | .noFmmu => c.off + DATAGRAM_HEADER + c.n + DATAGRAM_TAIL
  | _ => c.off + c.n

def Before (a b : Claim) : Prop := a.base = b.base → hi a ≤ b.off

theorem level_mono {p q : Pkt} (h : Le p q) (b : Base) : level p b ≤ level q b := by
  cases b
  · exact h.size
  · exact h.fin
  · exact h.fout

theorem opClaim_bounds (op : Op) (p : Pkt) :
    ∀ c ∈ opClaim op p, level p c.base ≤ c.off ∧ hi c ≤ level (opPure op p) c.base := by
  cases op <;> simp [opClaim, opPure, level, hi] <;> omega

theorem opClaim_pairwise (R : Claim → Claim → Prop) (op : Op) (p : Pkt) : (opClaim op p).Pairwise R := by
  cases op <;> simp [opClaim]

theorem pureClaims_seg (ops : List Op) (p : Pkt) :
    (∀ c ∈ pureClaims ops p, level p c.base ≤ c.off ∧ hi c ≤ level (purePkt ops p) c.base) ∧
    (pureClaims ops p).Pairwise Before := by
  induction ops generalizing p with
  | nil => simp [pureClaims]
  | cons op ops ih =>
    obtain ⟨ih1, ih2⟩ := ih (opPure op p)
    have hb := opClaim_bounds op p
    simp only [pureClaims, purePkt, List.mem_append, List.pairwise_append]
    refine ⟨?_, opClaim_pairwise _ _ _, ih2, ?_⟩
    · rintro c (hc | hc)
      · exact ⟨(hb c hc).1, Nat.le_trans (hb c hc).2 (level_mono (le_purePkt ops _) _)⟩
      · exact ⟨Nat.le_trans (level_mono (le_opPure op p) _) (ih1 c hc).1, (ih1 c hc).2⟩
    · intro a ha b hb' hab
      have h1 := (hb a ha).2
      have h2 := (ih1 b hb').1
      rw [hab] at h1
      exact Nat.le_trans h1 h2

theorem purePkt_append (a b : List Op) (p : Pkt) : purePkt (a ++ b) p = purePkt b (purePkt a p) := by
  induction a generalizing p with
  | nil => rfl
  | cons op a ih => simp [purePkt, ih]

theorem pureClaims_append (a b : List Op) (p : Pkt) :
    pureClaims (a ++ b) p = pureClaims a p ++ pureClaims b (purePkt a p) := by
  induction a generalizing p with
  | nil => rfl
  | cons op a ih => simp [pureClaims, purePkt, ih]

theorem pureTerms_flat (ts : List Term) (p : Pkt) :
    pureTermsPkt ts p = purePkt (ts.flatMap termOps) p ∧
    (pureTermsClaims ts p).flatten = pureClaims (ts.flatMap termOps) p := by
  induction ts generalizing p with
  | nil => exact ⟨rfl, rfl⟩
  | cons t ts ih =>
    obtain ⟨h1, h2⟩ := ih (purePkt (termOps t) p)
    simp [pureTermsPkt, pureTermsClaims, purePkt_append, pureClaims_append, h1, h2]

/-- all claims of a group: each between the counters before and after, in non-overlapping order -/
theorem group_seg (ts : List Term) (p : Pkt) :
    (∀ c ∈ (pureTermsClaims ts p).flatten, hi c ≤ level (pureTermsPkt ts p) c.base) ∧
    (pureTermsClaims ts p).flatten.Pairwise Before := by
  obtain ⟨h1, h2⟩ := pureTerms_flat ts p
  rw [h1, h2]
  exact ⟨fun c hc => ((pureClaims_seg _ p).1 c hc).2, (pureClaims_seg _ p).2⟩

/-! ### what the property demands of each terminal -/

/-- the sync managers that must get a region: IN when non-empty, OUT when non-empty and written -/
def wanted (t : Term) : List Nat :=
  (if t.inSz ≠ 0 then [sm_IN] else []) ++ (if t.rw = true ∧ t.outSz ≠ 0 then [sm_OUT] else [])

/-- the exact size of the region of sync manager `sm` (Aerotech-style: the declared packet size) -/
def want (t : Term) (sm : Nat) : Nat :=
  match t.kind with
  | .aero i o => if sm = sm_IN then i else o
  | _ => if sm = sm_IN then t.inSz else t.outSz

/-- the datagram kind that transports the region -/
def baseOf (t : Term) (sm : Nat) : Base :=
  match t.kind with
  | .fmmu => if sm = sm_IN then .fmmuIn else .fmmuOut
  | .direct => .noFmmu
  | .aero _ _ => if sm = sm_IN then .fmmuIn else .noFmmu

def termShape (t : Term) : List (Nat × Base × Nat) := (wanted t).map fun sm => (sm, baseOf t sm, want t sm)

def shape (c : Claim) : Nat × Base × Nat := (c.sm, c.base, c.n)

def opShape : Op → List (Nat × Base × Nat)
  | .fmmuIn n => [(sm_IN, .fmmuIn, n)]
  | .fmmuOut n => [(sm_OUT, .fmmuOut, n)]
  | .directIn d => [(sm_IN, .noFmmu, d.len)]
  | .directOut d => [(sm_OUT, .noFmmu, d.len)]
  | .extra _ _ => []

theorem pureClaims_shape (ops : List Op) (p : Pkt) : (pureClaims ops p).map shape = ops.flatMap opShape := by
  induction ops generalizing p with
  | nil => rfl
  | cons op ops ih =>
    simp only [pureClaims, List.map_append, ih, List.flatMap_cons]
    congr 1
    cases op <;> rfl

theorem sm_ne : sm_OUT ≠ sm_IN := by decide

theorem termOps_shape (t : Term) : (termOps t).flatMap opShape = termShape t := by
  have hne := sm_ne
  obtain ⟨pos, inSz, outSz, inOff, outOff, rw, kind⟩ := t
  cases kind <;> cases rw <;> by_cases hi : inSz = 0 <;> by_cases ho : outSz = 0 <;>
    simp [termOps, opsIf, wantsIn, wantsOut, opShape, termShape, wanted, want, baseOf, hi, ho, hne]

/-- the datagram of a direct claim -/
def opDgramFor : Op → Option (Nat × Dgram)
  | .directIn d => some (sm_IN, d)
  | .directOut d => some (sm_OUT, d)
  | _ => none

/-- a NO_FMMU claim is the whole data area of a datagram that one of the actions appended -/
def Loc (ops : List Op) (q : Pkt) (c : Claim) : Prop :=
  c.base = .noFmmu → ∃ k d, q.dgrams[k]? = some d ∧ c.off = dgramPos q.dgrams k ∧ c.n = d.len ∧
    ∃ op ∈ ops, opDgramFor op = some (c.sm, d)

theorem Loc.mono {ops ops' : List Op} {q q' : Pkt} {c : Claim} (h : Loc ops q c) (hq : Le q q')
    (hops : ∀ op ∈ ops, op ∈ ops') : Loc ops' q' c := by
  intro hb
  obtain ⟨k, d, h1, h2, h3, op, hop, h4⟩ := h hb
  refine ⟨k, d, getElem?_prefix hq.dgrams h1, ?_, h3, op, hops op hop, h4⟩
  rw [dgramPos_prefix hq.dgrams (Nat.le_of_lt (List.getElem?_eq_some_iff.mp h1).1)]
  exact h2

theorem opClaim_loc (op : Op) (p : Pkt) (hw : Wf p) : ∀ c ∈ opClaim op p, Loc [op] (opPure op p) c := by
  cases op with
  | fmmuIn n => intro c hc hb; simp [opClaim] at hc; subst hc; cases hb
  | fmmuOut n => intro c hc hb; simp [opClaim] at hc; subst hc; cases hb
  | directIn d =>
    intro c hc _
    simp [opClaim] at hc; subst hc
    exact ⟨p.dgrams.length, d, (pushed_at hw d).1, (pushed_at hw d).2.symm, rfl, .directIn d, by simp, rfl⟩
  | directOut d =>
    intro c hc _
    simp [opClaim] at hc; subst hc
    exact ⟨p.dgrams.length, d, (pushed_at hw d).1, (pushed_at hw d).2.symm, rfl, .directOut d, by simp, rfl⟩
  | extra d w => intro c hc; simp [opClaim] at hc

theorem pureClaims_loc (ops : List Op) (p : Pkt) (hw : Wf p) :
    ∀ c ∈ pureClaims ops p, Loc ops (purePkt ops p) c := by
  induction ops generalizing p with
  | nil => simp [pureClaims]
  | cons op ops ih =>
    intro c hc
    simp only [pureClaims, List.mem_append] at hc
    rcases hc with hc | hc
    · exact (opClaim_loc op p hw c hc).mono (le_purePkt ops _) (by simp)
    · exact (ih _ (wf_opPure hw op) c hc).mono (Le.refl _) (by simp +contextual)

/-- the datagram that carries a direct region addresses the terminal's own sync manager -/
def DirectDgram (t : Term) (sm : Nat) (d : Dgram) : Prop :=
  d.cmd = (if sm = sm_IN then cmd_FPRD else cmd_FPWR) ∧
  d.addr = [t.position, if sm = sm_IN then t.inOff else t.outOff]

theorem termOps_direct (t : Term) : ∀ op ∈ termOps t, ∀ sm d, opDgramFor op = some (sm, d) → DirectDgram t sm d := by
  have hne := sm_ne
  obtain ⟨pos, inSz, outSz, inOff, outOff, rw, kind⟩ := t
  intro op hop sm d h
  cases kind <;> cases rw <;> by_cases hi : inSz = 0 <;> by_cases ho : outSz = 0 <;>
    simp [termOps, opsIf, wantsIn, wantsOut, hi, ho] at hop <;>
    (try (rcases hop with rfl | rfl | rfl | rfl)) <;> (try (rcases hop with rfl | rfl)) <;> (try subst hop) <;>
    simp [opDgramFor] at h <;> obtain ⟨rfl, rfl⟩ := h <;> simp [DirectDgram, hne]

/-- `R` holds between the elements of two lists of equal length, position by position -/
inductive Each₂ {α β : Type} (R : α → β → Prop) : List α → List β → Prop where
  | nil : Each₂ R [] []
  | cons {a : α} {b : β} {as : List α} {bs : List β} : R a b → Each₂ R as bs → Each₂ R (a :: as) (b :: bs)

theorem Each₂.imp {α β : Type} {R S : α → β → Prop} {as : List α} {bs : List β}
    (h : Each₂ R as bs) (f : ∀ a b, R a b → S a b) : Each₂ S as bs := by
  induction h with
  | nil => exact .nil
  | cons hab _ ih => exact .cons (f _ _ hab) ih

theorem Each₂.map_right {α β γ : Type} {R : α → γ → Prop} {as : List α} {bs : List β} (g : β → γ)
    (h : Each₂ (fun a b => R a (g b)) as bs) : Each₂ R as (bs.map g) := by
  induction h with
  | nil => exact .nil
  | cons hab _ ih => exact .cons hab ih

theorem Each₂.length_eq {α β : Type} {R : α → β → Prop} {as : List α} {bs : List β}
    (h : Each₂ R as bs) : as.length = bs.length := by
  induction h with
  | nil => rfl
  | cons _ _ ih => simp [ih]

theorem Each₂.get {α β : Type} {R : α → β → Prop} {as : List α} {bs : List β}
    (h : Each₂ R as bs) (i : Nat) (a : α) (b : β) (ha : as[i]? = some a) (hb : bs[i]? = some b) : R a b := by
  induction h generalizing i with
  | nil => simp at ha
  | cons hab _ ih =>
    cases i with
    | zero => simp at ha hb; subst ha; subst hb; exact hab
    | succ i => simp at ha hb; exact ih i ha hb

/-- what is known about the claims of one terminal, seen from a later packet state `q` -/
structure TermOk (t : Term) (q : Pkt) (cs : List Claim) : Prop where
  shape : cs.map shape = termShape t
  below : ∀ c ∈ cs, hi c ≤ level q c.base
  loc : ∀ c ∈ cs, c.base = .noFmmu → ∃ k d, q.dgrams[k]? = some d ∧ c.off = dgramPos q.dgrams k ∧
    c.n = d.len ∧ DirectDgram t c.sm d

theorem terms_ok (ts : List Term) (p q : Pkt) (hw : Wf p) (hq : Le (pureTermsPkt ts p) q) :
    Each₂ (fun t cs => TermOk t q cs) ts (pureTermsClaims ts p) := by
  induction ts generalizing p with
  | nil => exact .nil
  | cons t ts ih =>
    have hle : Le (purePkt (termOps t) p) q := (le_pureTermsPkt ts _).trans hq
    refine .cons ⟨?_, ?_, ?_⟩ (ih _ (wf_purePkt hw _) hq)
    · rw [pureClaims_shape, termOps_shape]
    · intro c hc
      exact Nat.le_trans ((pureClaims_seg _ p).1 c hc).2 (level_mono hle _)
    · intro c hc hb
      obtain ⟨k, d, h1, h2, h3, op, hop, h4⟩ := ((pureClaims_loc _ p hw c hc).mono hle (fun _ h => h)) hb
      exact ⟨k, d, h1, h2, h3, termOps_direct t op hop _ _ h4⟩

/-! ### `append_fmmu` -/

structure FmmuSpec (la : Nat) (p : Pkt) (f : FmmuPos) : Prop where
  le : Le p f.pkt
  wf : Wf f.pkt
  inPos : f.inPos = p.size
  logIn : f.logIn = la
  logOut : f.logOut = la + logical_addr_inc
  fin : f.pkt.fmmuInSize = p.fmmuInSize
  fout : f.pkt.fmmuOutSize = p.fmmuOutSize
  outPos0 : p.fmmuInSize = 0 → f.outPos = f.inPos
  lrd : p.fmmuInSize ≠ 0 → f.outPos = f.inPos + p.fmmuInSize + DATAGRAM_HEADER + DATAGRAM_TAIL ∧
    ∃ k d, f.pkt.dgrams[k]? = some d ∧ dgramPos f.pkt.dgrams k = f.inPos ∧
      d.cmd = cmd_LRD ∧ d.len = p.fmmuInSize ∧ d.addr = [la]
  lwr : p.fmmuOutSize ≠ 0 →
    ∃ k d, f.pkt.dgrams[k]? = some d ∧ dgramPos f.pkt.dgrams k = f.outPos ∧
      d.cmd = cmd_LWR ∧ d.len = p.fmmuOutSize ∧ d.addr = [la + logical_addr_inc]

theorem pureFmmu_spec (la : Nat) (p : Pkt) (hw : Wf p) : FmmuSpec la p (pureFmmu la p) := by
  have hw1 := wf_pureFmmu1 hw la
  have l1 := le_pureFmmu1 la p
  have l2 := le_pureFmmu2 la (pureFmmu1 la p)
  have fin1 : (pureFmmu1 la p).fmmuInSize = p.fmmuInSize := by unfold pureFmmu1; split <;> simp
  have fout1 : (pureFmmu1 la p).fmmuOutSize = p.fmmuOutSize := by unfold pureFmmu1; split <;> simp
  have fin2 : ∀ q, (pureFmmu2 la q).fmmuInSize = q.fmmuInSize := by
    intro q; unfold pureFmmu2; split <;> simp
  have fout2 : ∀ q, (pureFmmu2 la q).fmmuOutSize = q.fmmuOutSize := by
    intro q; unfold pureFmmu2; split <;> simp
  refine ⟨l1.trans l2, wf_pureFmmu2 hw1 la, rfl, rfl, rfl, ?_, ?_, ?_, ?_, ?_⟩
  · show (pureFmmu2 la (pureFmmu1 la p)).fmmuInSize = _
    rw [fin2, fin1]
  · show (pureFmmu2 la (pureFmmu1 la p)).fmmuOutSize = _
    rw [fout2, fout1]
  · intro h
    show (pureFmmu1 la p).size = p.size
    simp [pureFmmu1, h]
  · intro h
    have hs : pureFmmu1 la p = p.push (lrd la p) := by simp [pureFmmu1, h]
    refine ⟨?_, p.dgrams.length, lrd la p, ?_, ?_, rfl, rfl, rfl⟩
    · show (pureFmmu1 la p).size = p.size + p.fmmuInSize + DATAGRAM_HEADER + DATAGRAM_TAIL
      rw [hs]; simp [lrd]
    · show (pureFmmu2 la (pureFmmu1 la p)).dgrams[p.dgrams.length]? = _
      apply getElem?_prefix l2.dgrams
      rw [hs]; exact (pushed_at hw _).1
    · show dgramPos (pureFmmu2 la (pureFmmu1 la p)).dgrams p.dgrams.length = p.size
      rw [dgramPos_prefix l2.dgrams (by rw [hs]; simp), hs]
      exact (pushed_at hw _).2
  · intro h
    have h' : (pureFmmu1 la p).fmmuOutSize ≠ 0 := by rw [fout1]; exact h
    have hs : pureFmmu2 la (pureFmmu1 la p) = (pureFmmu1 la p).pushWriter (lwr la (pureFmmu1 la p)) := by
      simp [pureFmmu2, h']
    refine ⟨(pureFmmu1 la p).dgrams.length, lwr la (pureFmmu1 la p), ?_, ?_, rfl, fout1, rfl⟩
    · show (pureFmmu2 la (pureFmmu1 la p)).dgrams[(pureFmmu1 la p).dgrams.length]? = _
      rw [hs]; exact (pushed_at hw1 _).1
    · show dgramPos (pureFmmu2 la (pureFmmu1 la p)).dgrams (pureFmmu1 la p).dgrams.length = (pureFmmu1 la p).size
      rw [hs]; exact (pushed_at hw1 _).2

/-- the largest data area a frame can carry -/
def maxData : Nat := MAXSIZE - PACKET_HEADER - DATAGRAM_HEADER - DATAGRAM_TAIL

theorem fmmu_sizes_bounded {la : Nat} {p : Pkt} {f : FmmuPos} (hs : FmmuSpec la p f) (hw : Wf p)
    (hf : Fits f.pkt) : p.fmmuInSize ≤ maxData ∧ p.fmmuOutSize ≤ maxData := by
  have hsz : f.pkt.size ≤ MAXSIZE := hf.1
  have hwf : f.pkt.size = PACKET_HEADER + bytes f.pkt.dgrams := hs.wf
  have hp : PACKET_HEADER ≤ p.size := by rw [hw]; omega
  have hin := hs.inPos
  constructor
  · by_cases h : p.fmmuInSize = 0
    · omega
    · obtain ⟨_, k, d, h1, h2, _, h4, _⟩ := hs.lrd h
      have := dgram_end_le _ k d h1
      unfold maxData; omega
  · by_cases h : p.fmmuOutSize = 0
    · omega
    · obtain ⟨k, d, h1, h2, _, h4, _⟩ := hs.lwr h
      have := dgram_end_le _ k d h1
      have hout : f.inPos ≤ f.outPos := by
        by_cases h0 : p.fmmuInSize = 0
        · rw [hs.outPos0 h0]; omega
        · rw [(hs.lrd h0).1]; omega
      unfold maxData; omega

/-! ### the accepted allocation -/

theorem allocate_some {ts : List Term} {la : Nat} {o : Out} (h : allocate ts la = some o) :
    o = layout ts la ∧ Fits o.f.pkt := by
  rw [allocate_eq] at h
  split at h
  · simp at h; subst h; exact ⟨rfl, by assumption⟩
  · simp at h

/-- the state of the packet when all terminals have allocated -/
def termsPkt (ts : List Term) : Pkt := pureTermsPkt ts Pkt.empty

theorem layout_spec (ts : List Term) (la : Nat) : FmmuSpec la (termsPkt ts) (layout ts la).f :=
  pureFmmu_spec la _ (wf_pureTermsPkt wf_empty ts)

theorem layout_regions (ts : List Term) (la : Nat) :
    (layout ts la).regions = (pureTermsClaims ts Pkt.empty).map (·.map (place (layout ts la).f)) := rfl

def span (r : Region) : Nat × Nat := (r.start, r.start + r.n)
def Disjoint (a b : Nat × Nat) : Prop := a.2 ≤ b.1 ∨ b.2 ≤ a.1
/-- the byte ranges of the frame that `pdo_assign` hands to the terminals -/
def spans (o : Out) : List (Nat × Nat) := o.regions.flatten.map span

theorem place_disjoint {la : Nat} {p : Pkt} {f : FmmuPos} (hs : FmmuSpec la p f) (a b : Claim)
    (ha : hi a ≤ level p a.base) (hb : hi b ≤ level p b.base) (hab : Before a b) :
    Disjoint (span (place f a)) (span (place f b)) := by
  have hin := hs.inPos
  have hout : (p.fmmuInSize = 0 ∧ f.outPos = f.inPos) ∨
      (p.fmmuInSize ≠ 0 ∧ f.outPos = f.inPos + p.fmmuInSize + DATAGRAM_HEADER + DATAGRAM_TAIL) := by
    by_cases h0 : p.fmmuInSize = 0
    · exact Or.inl ⟨h0, hs.outPos0 h0⟩
    · exact Or.inr ⟨h0, (hs.lrd h0).1⟩
  obtain ⟨sa, ba, oa, na⟩ := a
  obtain ⟨sb, bb, ob, nb⟩ := b
  cases ba <;> cases bb <;>
    simp [place, span, Disjoint, frameOff, hi, level, Before] at * <;> omega

/-! ### C18, sentence 1: regions are exactly sized and pairwise disjoint -/

/-- For every terminal list: the regions a terminal gets are exactly the wanted sync managers
(IN when non-empty, OUT when non-empty and written), each reserved with exactly the terminal's
size in the datagram kind of its addressing mode; and all byte ranges `[start, start + size)` of
the group are pairwise disjoint. -/
theorem regions_sized_disjoint {ts : List Term} {la : Nat} {o : Out} (h : allocate ts la = some o) :
    Each₂ (fun t rs => rs.map (fun r => (r.sm, r.base, r.n)) =
                         (wanted t).map fun sm => (sm, baseOf t sm, want t sm)) ts o.regions ∧
    (spans o).Pairwise Disjoint := by
  obtain ⟨rfl, _⟩ := allocate_some h
  constructor
  · rw [layout_regions]
    apply Each₂.map_right
    refine (terms_ok ts Pkt.empty _ wf_empty (Le.refl _)).imp ?_
    intro t cs hok
    have := hok.shape
    simp only [termShape] at this
    rw [← this]
    simp [List.map_map, Function.comp_def, place, shape]
  · have hs := layout_spec ts la
    obtain ⟨hb, hp⟩ := group_seg ts Pkt.empty
    unfold spans
    rw [layout_regions, ← List.map_flatten, List.pairwise_map, List.pairwise_map]
    refine hp.imp_of_mem ?_
    intro a b ha hb' hab
    exact place_disjoint hs a b (hb a ha) (hb b hb') hab

/-! ### C18, sentences 1-2: every region lies in the data area of its datagram; logical mapping -/

/-- `d` is the datagram that has to transport region `r` of terminal `t` -/
def Transport (t : Term) (o : Out) (r : Region) (d : Dgram) : Prop :=
  match r.base with
  | .noFmmu => DirectDgram t r.sm d
  | .fmmuIn => d.cmd = cmd_LRD ∧ d.addr = [o.f.logIn]
  | .fmmuOut => d.cmd = cmd_LWR ∧ d.addr = [o.f.logOut]

/-- the region lies inside the data area of its datagram, which lies inside the frame -/
def Inside (t : Term) (o : Out) (r : Region) : Prop :=
  ∃ k d, o.f.pkt.dgrams[k]? = some d ∧ Transport t o r d ∧
    dataStart o.f.pkt.dgrams k ≤ r.start ∧ r.start + r.n ≤ dataStart o.f.pkt.dgrams k + d.len ∧
    (r.base = .noFmmu → r.start = dataStart o.f.pkt.dgrams k ∧ r.n = d.len) ∧
    dataStart o.f.pkt.dgrams k + d.len + DATAGRAM_TAIL ≤ o.f.pkt.size ∧ o.f.pkt.size ≤ MAXSIZE

/-- `fmmu_maps[t][sm] − logical base = pdo_assign[t][sm] − data start of the LRD/LWR datagram`;
regions of directly addressed sync managers have no logical address -/
def Logical (o : Out) (r : Region) : Prop :=
  match r.base with
  | .noFmmu => r.logical = none
  | _ => ∃ k d lbase a, o.f.pkt.dgrams[k]? = some d ∧
      d.cmd = (if r.base = .fmmuIn then cmd_LRD else cmd_LWR) ∧ d.addr = [lbase] ∧ r.logical = some a ∧
      lbase ≤ a ∧ dataStart o.f.pkt.dgrams k ≤ r.start ∧ a - lbase = r.start - dataStart o.f.pkt.dgrams k

theorem placed {ts : List Term} {la : Nat} {o : Out} (h : allocate ts la = some o) :
    Each₂ (fun t rs => ∀ r ∈ rs, 0 < r.n → Inside t o r ∧ Logical o r) ts o.regions := by
  obtain ⟨rfl, hfit⟩ := allocate_some h
  have hs := layout_spec ts la
  have hwf : (layout ts la).f.pkt.size = PACKET_HEADER + bytes (layout ts la).f.pkt.dgrams := hs.wf
  have hsz : (layout ts la).f.pkt.size ≤ MAXSIZE := hfit.1
  rw [layout_regions]
  apply Each₂.map_right
  refine (terms_ok ts Pkt.empty (layout ts la).f.pkt wf_empty hs.le).imp ?_
  intro t cs hok r hr hn
  simp only [List.mem_map] at hr
  obtain ⟨c, hc, rfl⟩ := hr
  have hbel := hok.below c hc
  have hloc := hok.loc c hc
  obtain ⟨sm, base, off, n⟩ := c
  cases base with
  | noFmmu =>
    obtain ⟨k, d, h1, h2, h3, h4⟩ := hloc rfl
    have he := dgram_end_le _ k d h1
    simp only at h2 h3 h4
    refine ⟨⟨k, d, h1, h4, ?_, ?_, ?_, ?_, hsz⟩, rfl⟩
    · simp [place, frameOff, dataStart, h2]
    · simp [place, frameOff, dataStart, h2, h3]
    · intro _; simp [place, frameOff, dataStart, h2, h3]
    · simp only [dataStart] <;> omega
  | fmmuIn =>
    simp only [hi, level, hs.fin] at hbel
    simp only [place] at hn
    have hne : (termsPkt ts).fmmuInSize ≠ 0 := by omega
    obtain ⟨_, k, d, h1, h2, h3, h4, h5⟩ := hs.lrd hne
    have he := dgram_end_le _ k d h1
    refine ⟨⟨k, d, h1, ⟨h3, by rw [hs.logIn]; exact h5⟩, ?_, ?_, ?_, ?_, hsz⟩,
            ⟨k, d, la, la + off, h1, by simpa [place] using h3, h5, ?_, Nat.le_add_right _ _, ?_, ?_⟩⟩
    · simp [place, frameOff, dataStart, h2] <;> omega
    · simp [place, frameOff, dataStart, h2, h4] <;> omega
    · intro hb; cases hb
    · simp only [dataStart] <;> omega
    · simp [place, logicalOff, hs.logIn]
    · simp [place, frameOff, dataStart, h2] <;> omega
    · simp [place, frameOff, dataStart, h2] <;> omega
  | fmmuOut =>
    simp only [hi, level, hs.fout] at hbel
    simp only [place] at hn
    have hne : (termsPkt ts).fmmuOutSize ≠ 0 := by omega
    obtain ⟨k, d, h1, h2, h3, h4, h5⟩ := hs.lwr hne
    have he := dgram_end_le _ k d h1
    refine ⟨⟨k, d, h1, ⟨h3, by rw [hs.logOut]; exact h5⟩, ?_, ?_, ?_, ?_, hsz⟩,
            ⟨k, d, la + logical_addr_inc, la + logical_addr_inc + off, h1, by simpa [place] using h3, h5, ?_,
             Nat.le_add_right _ _, ?_, ?_⟩⟩
    · simp [place, frameOff, dataStart, h2] <;> omega
    · simp [place, frameOff, dataStart, h2, h4] <;> omega
    · intro hb; cases hb
    · simp only [dataStart] <;> omega
    · simp [place, logicalOff, hs.logOut]
    · simp [place, frameOff, dataStart, h2] <;> omega
    · simp [place, frameOff, dataStart, h2] <;> omega

/-- Every region of non-zero size lies inside the data area of the datagram that transports it:
the FPRD/FPWR datagram addressed to the terminal's own sync manager (which it fills exactly) for
directly addressed regions, the group's LRD / LWR datagram for FMMU regions; that data area
(and its working counter) lies inside the frame, which respects `MAXSIZE`. -/
theorem region_inside_datagram {ts : List Term} {la : Nat} {o : Out} (h : allocate ts la = some o) :
    Each₂ (fun t rs => ∀ r ∈ rs, 0 < r.n → Inside t o r) ts o.regions :=
  (placed h).imp fun _ _ hp r hr hn => (hp r hr hn).1

/-- For FMMU regions the configured logical address is as far above the logical address of the
LRD/LWR datagram as the region is above the start of that datagram's data area. -/
theorem logical_consistent {ts : List Term} {la : Nat} {o : Out} (h : allocate ts la = some o) :
    Each₂ (fun _ rs => ∀ r ∈ rs, 0 < r.n → Logical o r) ts o.regions :=
  (placed h).imp fun _ _ hp r hr hn => (hp r hr hn).2

/-! ### C18, sentence 3: logical windows -/

/-- what the generated constants have to satisfy; re-checked by evaluation on every build -/
theorem consts_half : maxData ≤ logical_addr_inc := by decide
theorem consts_window : logical_addr_inc + maxData ≤ fmmu_window_inc := by decide
theorem consts_window_parallel : logical_addr_inc + maxData ≤ fmmu_lock_inc := by decide

/-- `fmmu_in_size` and `fmmu_out_size` of an accepted group are at most `logical_addr_inc`:
each is the data length of one datagram of a frame of at most `MAXSIZE` bytes -/
theorem fmmu_sizes_le_inc {ts : List Term} {la : Nat} {o : Out} (h : allocate ts la = some o) :
    o.f.pkt.fmmuInSize ≤ logical_addr_inc ∧ o.f.pkt.fmmuOutSize ≤ logical_addr_inc := by
  obtain ⟨rfl, hfit⟩ := allocate_some h
  have hs := layout_spec ts la
  have := fmmu_sizes_bounded hs (wf_pureTermsPkt wf_empty ts) hfit
  have := consts_half
  rw [hs.fin, hs.fout]; omega

/-- the logical byte ranges a group configures in its terminals' FMMUs (`fmmu_maps`) -/
def logSpans (o : Out) : List (Nat × Nat) :=
  o.regions.flatten.filterMap fun r => r.logical.map fun a => (a, a + r.n)

/-- inputs are mapped into the lower half `[la, la + logical_addr_inc)` of the group's window,
outputs into `[la + logical_addr_inc, la + logical_addr_inc + maxData)` -/
theorem window_contains {ts : List Term} {la : Nat} {o : Out} (h : allocate ts la = some o) :
    ∀ rs ∈ o.regions, ∀ r ∈ rs, ∀ a, r.logical = some a →
      (r.base = .fmmuIn ∧ la ≤ a ∧ a + r.n ≤ la + logical_addr_inc) ∨
      (r.base = .fmmuOut ∧ la + logical_addr_inc ≤ a ∧ a + r.n ≤ la + logical_addr_inc + maxData) := by
  obtain ⟨rfl, hfit⟩ := allocate_some h
  have hs := layout_spec ts la
  have hbd := fmmu_sizes_bounded hs (wf_pureTermsPkt wf_empty ts) hfit
  have hhalf := consts_half
  intro rs hrs r hr a ha
  rw [layout_regions] at hrs
  simp only [List.mem_map] at hrs
  obtain ⟨cs, hcs, rfl⟩ := hrs
  simp only [List.mem_map] at hr
  obtain ⟨c, hc, rfl⟩ := hr
  have hbel := (group_seg ts Pkt.empty).1 c (List.mem_flatten.mpr ⟨cs, hcs, hc⟩)
  obtain ⟨sm, base, off, n⟩ := c
  cases base with
  | noFmmu => simp [place, logicalOff] at ha
  | fmmuIn =>
    left
    simp [place, logicalOff, hs.logIn] at ha
    simp only [hi, level] at hbel
    have : (termsPkt ts).fmmuInSize = (pureTermsPkt ts Pkt.empty).fmmuInSize := rfl
    refine ⟨rfl, ?_, ?_⟩ <;> first | omega | (simp only [place]; omega)
  | fmmuOut =>
    right
    simp [place, logicalOff, hs.logOut] at ha
    simp only [hi, level] at hbel
    have : (termsPkt ts).fmmuOutSize = (pureTermsPkt ts Pkt.empty).fmmuOutSize := rfl
    refine ⟨rfl, ?_, ?_⟩ <;> first | omega | (simp only [place]; omega)

theorem logSpans_in_window {ts : List Term} {la : Nat} {o : Out} (h : allocate ts la = some o)
    (W : Nat) (hW : logical_addr_inc + maxData ≤ W) : ∀ s ∈ logSpans o, la ≤ s.1 ∧ s.2 ≤ la + W := by
  intro s hs
  simp only [logSpans, List.mem_filterMap, List.mem_flatten] at hs
  obtain ⟨r, ⟨rs, hrs, hr⟩, hsr⟩ := hs
  cases ha : r.logical with
  | none => simp [ha] at hsr
  | some a =>
    simp [ha] at hsr; subst hsr
    rcases window_contains h rs hrs r hr a ha with ⟨_, h1, h2⟩ | ⟨_, h1, h2⟩ <;> simp only <;> omega

theorem finish_logIn {p : Pkt} {bs : List (List Claim)} {la : Nat} {o : Out} (h : finish p bs la = some o) :
    o.f.logIn = la := by
  unfold finish at h
  split at h
  · simp at h
  · rename_i f hf
    simp at h; subst h
    unfold appendFmmu at hf
    split at hf
    · simp at hf
    · split at hf
      · simp at hf
      · simp at hf; subst hf; rfl

/-- Invariant over the sequence of `get_fmmu_addr` calls of one master: every accepted group got
a window base `next + i·inc` (i ≥ 1), is the result of `allocate` with that base, and the bases of
successive groups are at least `inc` apart. -/
theorem allocGroups_windows (gs : List (List Term)) (m : Master) :
    (∀ o ∈ (allocGroups gs m).filterMap id,
        (∃ i, 0 < i ∧ o.f.logIn = m.next + i * m.inc) ∧ ∃ g ∈ gs, allocate g o.f.logIn = some o) ∧
    ((allocGroups gs m).filterMap id).Pairwise (fun o1 o2 => o1.f.logIn + m.inc ≤ o2.f.logIn) := by
  induction gs generalizing m with
  | nil => simp [allocGroups]
  | cons g gs ih =>
    unfold allocGroups
    cases hg : allocTerms g Pkt.empty with
    | none =>
      obtain ⟨ih1, ih2⟩ := ih m
      simp only [List.filterMap_cons_none, id]
      refine ⟨fun o ho => ?_, ih2⟩
      obtain ⟨hi, g', hg', ha⟩ := ih1 o ho
      exact ⟨hi, g', by simp [hg'], ha⟩
    | some pb =>
      obtain ⟨p, bs⟩ := pb
      obtain ⟨ih1, ih2⟩ := ih (m.getFmmuAddr).2
      have hnext : (m.getFmmuAddr).2.next = m.next + m.inc := rfl
      have hinc : (m.getFmmuAddr).2.inc = m.inc := rfl
      have hla : (m.getFmmuAddr).1 = m.next + m.inc := rfl
      have tail : ∀ o ∈ (allocGroups gs (m.getFmmuAddr).2).filterMap id,
          (∃ i, 1 < i ∧ o.f.logIn = m.next + i * m.inc) ∧ ∃ g' ∈ g :: gs, allocate g' o.f.logIn = some o := by
        intro o ho
        obtain ⟨⟨i, hi0, hi⟩, g', hg', ha⟩ := ih1 o ho
        refine ⟨⟨i + 1, by omega, ?_⟩, g', by simp [hg'], ha⟩
        rw [hi, hnext, hinc, Nat.succ_mul]; omega
      simp only []
      cases hf : finish p bs (m.getFmmuAddr).1 with
      | none =>
        simp only [List.filterMap_cons_none, id]
        refine ⟨fun o ho => ?_, ?_⟩
        · obtain ⟨⟨i, hi0, hi⟩, hrest⟩ := tail o ho
          exact ⟨⟨i, by omega, hi⟩, hrest⟩
        · rw [hinc] at ih2; exact ih2
      | some o =>
        have hlog := finish_logIn hf
        rw [List.filterMap_cons_some (by rfl : id (some o) = some o)]
        refine ⟨fun o' ho' => ?_, ?_⟩
        · rcases List.mem_cons.mp ho' with rfl | ho'
          · refine ⟨⟨1, by omega, by rw [hlog, hla]; omega⟩, g, by simp, ?_⟩
            unfold allocate; rw [hg, hlog]; exact hf
          · obtain ⟨⟨i, hi0, hi⟩, hrest⟩ := tail o' ho'
            exact ⟨⟨i, by omega, hi⟩, hrest⟩
        · rw [List.pairwise_cons]
          refine ⟨fun o' ho' => ?_, by rw [hinc] at ih2; exact ih2⟩
          obtain ⟨⟨i, hi0, hi⟩, _⟩ := tail o' ho'
          obtain ⟨j, rfl⟩ : ∃ j, i = j + 2 := ⟨i - 2, by omega⟩
          rw [hi, hlog, hla, Nat.succ_mul, Nat.succ_mul]; omega

/-- the statement for a master whose `get_fmmu_addr` steps by `m.inc` -/
def WindowsDisjoint (gs : List (List Term)) (m : Master) : Prop :=
  let outs := (allocGroups gs m).filterMap id
  (∀ o ∈ outs, (∃ i, 0 < i ∧ o.f.logIn = m.next + i * m.inc) ∧
      (∀ s ∈ logSpans o, o.f.logIn ≤ s.1 ∧ s.2 ≤ o.f.logIn + m.inc) ∧
      o.f.logOut = o.f.logIn + logical_addr_inc ∧
      o.f.pkt.fmmuInSize ≤ logical_addr_inc ∧ o.f.pkt.fmmuOutSize ≤ logical_addr_inc) ∧
  outs.Pairwise (fun o1 o2 => o1.f.logIn + m.inc ≤ o2.f.logIn) ∧
  outs.Pairwise (fun o1 o2 => ∀ s1 ∈ logSpans o1, ∀ s2 ∈ logSpans o2, Disjoint s1 s2)

theorem windows_disjoint_of (gs : List (List Term)) (m : Master) (hW : logical_addr_inc + maxData ≤ m.inc) :
    WindowsDisjoint gs m := by
  obtain ⟨h1, h2⟩ := allocGroups_windows gs m
  have key : ∀ o ∈ (allocGroups gs m).filterMap id, ∀ s ∈ logSpans o, o.f.logIn ≤ s.1 ∧ s.2 ≤ o.f.logIn + m.inc := by
    intro o ho
    obtain ⟨_, g, _, ha⟩ := h1 o ho
    exact logSpans_in_window ha m.inc hW
  refine ⟨fun o ho => ?_, h2, ?_⟩
  · obtain ⟨hi, g, _, ha⟩ := h1 o ho
    refine ⟨hi, key o ho, ?_, fmmu_sizes_le_inc ha⟩
    have heq := (allocate_some ha).1
    rw [heq]; rfl
  · refine h2.imp_of_mem ?_
    intro o1 o2 ho1 ho2 hlt s1 hs1 s2 hs2
    have a := key o1 ho1 s1 hs1
    have b := key o2 ho2 s2 hs2
    left; omega

/-- Logical windows handed out by successive `EtherCat.get_fmmu_addr` calls of one master:
group number i gets `[a0 + i·fmmu_window_inc, + fmmu_window_inc)`, all logical ranges of the group
lie inside it (inputs in the lower `logical_addr_inc` bytes, outputs above), so the logical
ranges of different groups are pairwise disjoint. -/
theorem windows_disjoint (gs : List (List Term)) (a0 : Nat) : WindowsDisjoint gs (Master.simple a0) :=
  windows_disjoint_of gs _ consts_window

/-- the same for `ParallelEtherCat`, whose windows come from `FMMULock.get_next_addr` -/
theorem windows_disjoint_parallel (gs : List (List Term)) (a0 : Nat) : WindowsDisjoint gs (Master.parallel a0) :=
  windows_disjoint_of gs _ consts_window_parallel

/-! ### C18, sentence 4: a group too large for one frame is rejected -/

/-- data lengths of the datagrams a terminal appends itself -/
def directLens (t : Term) : List Nat :=
  match t.kind with
  | .fmmu => []
  | .direct => (if t.inSz ≠ 0 then [t.inSz] else []) ++ (if t.rw = true ∧ t.outSz ≠ 0 then [t.outSz] else [])
  | .aero _ o => (if t.inSz ≠ 0 then [1] else []) ++ (if t.rw = true ∧ t.outSz ≠ 0 then [o, 1] else [])

/-- bytes a terminal needs in the group's LRD datagram -/
def fmmuInNeed (t : Term) : Nat :=
  match t.kind with
  | .fmmu => t.inSz
  | .direct => 0
  | .aero i _ => if t.inSz ≠ 0 then i else 0

/-- bytes a terminal needs in the group's LWR datagram -/
def fmmuOutNeed (t : Term) : Nat :=
  match t.kind with
  | .fmmu => if t.rw = true then t.outSz else 0
  | _ => 0

def optLen (n : Nat) : List Nat := if n ≠ 0 then [n] else []

/-- data lengths of all datagrams the group's frame needs, in frame order -/
def dgramLens (ts : List Term) : List Nat :=
  ts.flatMap directLens ++ optLen (ts.map fmmuInNeed).sum ++ optLen (ts.map fmmuOutNeed).sum

/-- size of the frame the group needs -/
def needSize (ts : List Term) : Nat :=
  PACKET_HEADER + ((dgramLens ts).map (· + DATAGRAM_HEADER + DATAGRAM_TAIL)).sum
def needCount (ts : List Term) : Nat := (dgramLens ts).length

def opLens : Op → List Nat
  | .fmmuIn _ => []
  | .fmmuOut _ => []
  | .directIn d => [d.len]
  | .directOut d => [d.len]
  | .extra d _ => [d.len]
def opIn : Op → Nat
  | .fmmuIn n => n
  | _ => 0
def opOut : Op → Nat
  | .fmmuOut n => n
  | _ => 0

def lens (p : Pkt) : List Nat := p.dgrams.map (·.len)

theorem opPure_core (op : Op) (p : Pkt) :
    lens (opPure op p) = lens p ++ opLens op ∧
    (opPure op p).fmmuInSize = p.fmmuInSize + opIn op ∧
    (opPure op p).fmmuOutSize = p.fmmuOutSize + opOut op := by
  cases op with
  | extra d w => cases w <;> simp [opPure, lens, opLens, opIn, opOut]
  | _ => simp [opPure, lens, opLens, opIn, opOut]

theorem purePkt_core (ops : List Op) (p : Pkt) :
    lens (purePkt ops p) = lens p ++ ops.flatMap opLens ∧
    (purePkt ops p).fmmuInSize = p.fmmuInSize + (ops.map opIn).sum ∧
    (purePkt ops p).fmmuOutSize = p.fmmuOutSize + (ops.map opOut).sum := by
  induction ops generalizing p with
  | nil => simp [purePkt]
  | cons op ops ih =>
    obtain ⟨a, b, c⟩ := ih (opPure op p)
    obtain ⟨a', b', c'⟩ := opPure_core op p
    simp only [purePkt, a, b, c, a', b', c', List.flatMap_cons, List.map_cons, List.sum_cons,
      List.append_assoc, true_and]
    omega

theorem termOps_core (t : Term) :
    (termOps t).flatMap opLens = directLens t ∧
    ((termOps t).map opIn).sum = fmmuInNeed t ∧ ((termOps t).map opOut).sum = fmmuOutNeed t := by
  obtain ⟨pos, inSz, outSz, inOff, outOff, rw, kind⟩ := t
  cases kind <;> cases rw <;> by_cases hi : inSz = 0 <;> by_cases ho : outSz = 0 <;>
    simp [termOps, opsIf, wantsIn, wantsOut, opLens, opIn, opOut, directLens, fmmuInNeed, fmmuOutNeed, hi, ho]

theorem pureTermsPkt_core (ts : List Term) (p : Pkt) :
    lens (pureTermsPkt ts p) = lens p ++ ts.flatMap directLens ∧
    (pureTermsPkt ts p).fmmuInSize = p.fmmuInSize + (ts.map fmmuInNeed).sum ∧
    (pureTermsPkt ts p).fmmuOutSize = p.fmmuOutSize + (ts.map fmmuOutNeed).sum := by
  induction ts generalizing p with
  | nil => simp [pureTermsPkt]
  | cons t ts ih =>
    obtain ⟨a, b, c⟩ := ih (purePkt (termOps t) p)
    obtain ⟨a', b', c'⟩ := purePkt_core (termOps t) p
    obtain ⟨d1, d2, d3⟩ := termOps_core t
    simp only [pureTermsPkt, a, b, c, a', b', c', d1, d2, d3, List.flatMap_cons, List.map_cons,
      List.sum_cons, List.append_assoc, true_and]
    omega

/-- the datagrams of the unchecked layout are exactly the ones the terminals' sizes demand -/
theorem layout_lens (ts : List Term) (la : Nat) : lens (layout ts la).f.pkt = dgramLens ts := by
  obtain ⟨a, b, c⟩ := pureTermsPkt_core ts Pkt.empty
  have e0 : lens Pkt.empty = [] := rfl
  have e1 : Pkt.empty.fmmuInSize = 0 := rfl
  have e2 : Pkt.empty.fmmuOutSize = 0 := rfl
  rw [e0, List.nil_append] at a
  rw [e1, Nat.zero_add] at b
  rw [e2, Nat.zero_add] at c
  show lens (pureFmmu2 la (pureFmmu1 la (pureTermsPkt ts Pkt.empty))) = _
  have f1 : lens (pureFmmu1 la (pureTermsPkt ts Pkt.empty)) =
      ts.flatMap directLens ++ optLen (ts.map fmmuInNeed).sum := by
    unfold pureFmmu1 optLen
    rw [← b]
    split <;> simp [lens, lrd] <;> exact a
  have f2 : (pureFmmu1 la (pureTermsPkt ts Pkt.empty)).fmmuOutSize = (ts.map fmmuOutNeed).sum := by
    rw [← c]; unfold pureFmmu1; split <;> simp
  unfold dgramLens
  rw [← f1]
  unfold pureFmmu2 optLen
  rw [← f2]
  split <;> simp [lens, lwr]

theorem layout_size (ts : List Term) (la : Nat) :
    (layout ts la).f.pkt.size = needSize ts ∧ (layout ts la).f.pkt.dgrams.length = needCount ts := by
  have hw : (layout ts la).f.pkt.size = PACKET_HEADER + bytes (layout ts la).f.pkt.dgrams := (layout_spec ts la).wf
  have hl := layout_lens ts la
  unfold needSize needCount
  rw [← hl, hw]
  simp [lens, bytes, List.map_map, Function.comp_def]

/-- A group is rejected (OverflowError) exactly when the frame it needs — packet header plus one
datagram per directly addressed region, Aerotech tail access, and non-empty FMMU direction — is
larger than `MAXSIZE` or has more than `MAX_DATAGRAMS` datagrams.  In particular every group too
large for one frame is rejected, and no group that fits is. -/
theorem oversize_rejected (ts : List Term) (la : Nat) :
    allocate ts la = none ↔ (needSize ts > MAXSIZE ∨ needCount ts > MAX_DATAGRAMS) := by
  rw [allocate_eq]
  obtain ⟨h1, h2⟩ := layout_size ts la
  have hf : Fits (layout ts la).f.pkt ↔ needSize ts ≤ MAXSIZE ∧ needCount ts ≤ MAX_DATAGRAMS := by
    unfold Fits; rw [h1, h2]
  by_cases h : Fits (layout ts la).f.pkt
  · have := hf.mp h
    simp [h]; omega
  · have : ¬ (needSize ts ≤ MAXSIZE ∧ needCount ts ≤ MAX_DATAGRAMS) := fun x => h (hf.mpr x)
    simp [h]; omega

/-- an accepted group's frame has exactly the needed size -/
theorem accepted_size {ts : List Term} {la : Nat} {o : Out} (h : allocate ts la = some o) :
    o.f.pkt.size = needSize ts ∧ o.f.pkt.size ≤ MAXSIZE ∧ o.f.pkt.dgrams.map (·.len) = dgramLens ts := by
  obtain ⟨rfl, hfit⟩ := allocate_some h
  exact ⟨(layout_size ts la).1, hfit.1, layout_lens ts la⟩

/-! ### non-vacuity: concrete groups are accepted, laid out as the real code lays them out, and
the limits are hit exactly where the theorems say -/

/-- a directly addressed terminal, an Aerotech-style one (packet sizes 20/30) and an FMMU terminal -/
def exTerms : List Term :=
  [⟨1, 4, 2, 0x1100, 0x1000, true, .direct⟩, ⟨2, 100, 200, 0x1100, 0x1000, true, .aero 20 30⟩,
   ⟨3, 4, 2, 0x1100, 0x1000, true, .fmmu⟩]

/-- (sm, pdo_assign, size, fmmu_maps) per terminal, as the real `SyncGroup.allocate()` produces them -/
example : (allocate exTerms 4096).map (fun o => o.regions.map (·.map fun r => (r.sm, r.start, r.n, r.logical))) =
    some [[(3, 26, 4, none), (2, 42, 2, none)], [(3, 124, 20, some 4096), (2, 69, 30, none)],
          [(3, 144, 4, some 4116), (2, 160, 2, some 6144)]] := by decide
example : (allocate exTerms 4096).map (fun o => (o.f.pkt.size, o.f.pkt.dgrams.map (·.len), o.f.inPos, o.f.outPos)) =
    some (164, [4, 2, 1, 30, 1, 24, 2], 114, 150) := by decide
example : needSize exTerms = 164 ∧ needCount exTerms = 7 := by decide
/-- a read-only terminal gets no OUT region, an empty sync manager none at all -/
example : (allocate [⟨1, 4, 2, 0, 0, false, .fmmu⟩, ⟨2, 0, 0, 0, 0, true, .direct⟩] 4096).map
    (fun o => o.regions.map (·.map fun r => (r.sm, r.start, r.n, r.logical))) = some [[(3, 26, 4, some 4096)], []] := by decide
/-- the largest single FMMU input that fits, and the first that does not -/
example : (allocate [⟨1, 1472, 0, 0, 0, false, .fmmu⟩] 4096).isSome = true ∧
    allocate [⟨1, 1473, 0, 0, 0, false, .fmmu⟩] 4096 = none ∧ maxData = 1472 := by decide
/-- fifteen datagrams fit, sixteen do not -/
example : (allocate (List.replicate 15 ⟨1, 1, 0, 0, 0, false, .direct⟩) 4096).isSome = true ∧
    allocate (List.replicate 16 ⟨1, 1, 0, 0, 0, false, .direct⟩) 4096 = none := by decide
/-- three groups on one master; the middle one is rejected only in `append_fmmu`, after it has
consumed window 0x2000, so the third group gets 0x3000 -/
example : ((allocGroups [exTerms, [⟨1, 1473, 0, 0, 0, false, .fmmu⟩], exTerms] (Master.simple 0)).map
    (·.map fun o => (o.f.logIn, logSpans o))) =
    [some (4096, [(4096, 4116), (4116, 4120), (6144, 6146)]), none,
     some (12288, [(12288, 12308), (12308, 12312), (14336, 14338)])] := by decide

end Ebv.C18
