import Ebv.Model.MapCalls
/-! C10 — user-space map calls never overrun Python buffers.

Full statement (`C10`): for every declaration, every number of possible CPUs and every
sequence of API calls, every map command the library issues passes a key buffer of at
least `key_size` bytes and a value buffer of at least `value_size` bytes of the map it
was created with (per-CPU maps: `roundup8(value_size) × possible CPUs`; `GET_NEXT_KEY`:
NULL or `key_size` for the key, `key_size` for the next key). -/
namespace Ebv.C10
open Ebv.MapCalls Ebv.Consts

theorem roundUp8_ge (n : Nat) : n ≤ roundUp8 n := by unfold roundUp8; omega

theorem roundUp8_idem (n : Nat) : roundUp8 (roundUp8 n) = roundUp8 n := by unfold roundUp8; omega

theorem mem_replicate_eq {α} {n : Nat} {a c : α} (h : c ∈ List.replicate n a) : c = a :=
  (List.mem_replicate.mp h).2

theorem valueBytes_plain (g : Geometry) (ncpu : Nat) (h : g.mapType ≠ mt_PERCPU_ARRAY) :
    valueBytes g ncpu = g.valueSize := by simp [valueBytes, h]

theorem ok_rw (g : Geometry) (ncpu cmd k v : Nat)
    (hc : cmd = bpf_LOOKUP ∨ cmd = bpf_UPDATE ∨ cmd = bpf_LOOKUP_DELETE)
    (hk : g.keySize ≤ k) (hv : valueBytes g ncpu ≤ v) :
    (⟨cmd, some k, some v⟩ : Call).ok g ncpu = true := by
  simp [Call.ok, hc, lenAtLeast, hk, hv]

theorem ok_del (g : Geometry) (ncpu k : Nat) (hk : g.keySize ≤ k) :
    (⟨bpf_DELETE, some k, none⟩ : Call).ok g ncpu = true := by
  have h1 : ¬ (bpf_DELETE = bpf_LOOKUP ∨ bpf_DELETE = bpf_UPDATE ∨ bpf_DELETE = bpf_LOOKUP_DELETE) := by decide
  simp [Call.ok, h1, lenAtLeast, hk]

theorem ok_next (g : Geometry) (ncpu : Nat) (k : Option Nat) (v : Nat)
    (hk : ∀ x, k = some x → g.keySize ≤ x) (hv : g.keySize ≤ v) :
    (⟨bpf_NEXT_KEY, k, some v⟩ : Call).ok g ncpu = true := by
  have h1 : ¬ (bpf_NEXT_KEY = bpf_LOOKUP ∨ bpf_NEXT_KEY = bpf_UPDATE ∨ bpf_NEXT_KEY = bpf_LOOKUP_DELETE) := by decide
  have h2 : bpf_NEXT_KEY ≠ bpf_DELETE := by decide
  cases k with
  | none => simp [Call.ok, h1, h2, lenAtLeast, hv]
  | some x => simp [Call.ok, h1, h2, lenAtLeast, hv, hk x rfl]

theorem exact_kv (g : Geometry) (ncpu cmd : Nat) (h : cmd ≠ bpf_NEXT_KEY) :
    (⟨cmd, some g.keySize, some (valueBytes g ncpu)⟩ : Call).exact g ncpu = true := by
  simp [Call.exact, h]

theorem exact_k (g : Geometry) (ncpu cmd : Nat) :
    (⟨cmd, some g.keySize, none⟩ : Call).exact g ncpu = true := by
  simp [Call.exact]

theorem exact_next (g : Geometry) (ncpu : Nat) (k : Option Nat) (hk : ∀ x, k = some x → x = g.keySize) :
    (⟨bpf_NEXT_KEY, k, some g.keySize⟩ : Call).exact g ncpu = true := by
  cases k with
  | none => simp [Call.exact]
  | some x => simp [Call.exact, hk x rfl]

theorem c_hash_ne : mt_HASH ≠ mt_PERCPU_ARRAY := by decide
theorem c_lru_ne : mt_LRU_HASH ≠ mt_PERCPU_ARRAY := by decide
theorem c_prog_ne : mt_PROG_ARRAY ≠ mt_PERCPU_ARRAY := by decide
theorem c_hv_key : hv_key_size ≤ hv_key_len := by decide
theorem c_hv_get : hv_value_size ≤ hv_get_len := by decide
theorem c_hv_set : hv_value_size ≤ hv_set_len := by decide
theorem c_arr_key : arr_key_size ≤ arr_key_len := by decide

def hvGeo (n : Nat) : Geometry := ⟨mt_HASH, hv_key_size, hv_value_size, n, 0⟩
def progGeo : Geometry := ⟨mt_PROG_ARRAY, prog_key_size, prog_value_size, prog_max_entries, 0⟩

theorem hv_calls_ok (n ncpu : Nat) : hvGetCall.ok (hvGeo n) ncpu = true ∧ hvSetCall.ok (hvGeo n) ncpu = true :=
  ⟨ok_rw _ _ _ _ _ (.inl rfl) c_hv_key (by rw [valueBytes_plain _ _ c_hash_ne]; exact c_hv_get),
   ok_rw _ _ _ _ _ (.inr (.inl rfl)) c_hv_key (by rw [valueBytes_plain _ _ c_hash_ne]; exact c_hv_set)⟩

theorem hv_calls_exact (n ncpu : Nat) : hvGetCall.exact (hvGeo n) ncpu = true ∧ hvSetCall.exact (hvGeo n) ncpu = true := by
  have h := valueBytes_plain (hvGeo n) ncpu c_hash_ne
  have e1 : hvGetCall = ⟨bpf_LOOKUP, some (hvGeo n).keySize, some (valueBytes (hvGeo n) ncpu)⟩ := by rw [h]; rfl
  have e2 : hvSetCall = ⟨bpf_UPDATE, some (hvGeo n).keySize, some (valueBytes (hvGeo n) ncpu)⟩ := by rw [h]; rfl
  rw [e1, e2]
  exact ⟨exact_kv _ _ _ (by decide), exact_kv _ _ _ (by decide)⟩

theorem prog_valueBytes (ncpu : Nat) : valueBytes progGeo ncpu = prog_value_size :=
  valueBytes_plain progGeo ncpu c_prog_ne

/-- one API call on one declared map -/
theorem calls_ok (d : Decl) (ncpu : Nat) (g : Geometry) (hg : geometry d = some g) (a : Api) :
    ∀ c ∈ calls ncpu d a, c.ok g ncpu = true := by
  intro c hc
  cases d with
  | array s => cases a <;> simp [calls] at hc
  | percpu s =>
    cases a <;> simp [calls] at hc
    obtain ⟨h0, rfl⟩ := hc
    simp only [geometry, h0, ↓reduceIte, Option.some.injEq] at hg
    subst hg
    refine ok_rw _ _ _ _ _ (.inl rfl) c_arr_key ?_
    simp [valueBytes, mapSize, roundUp8_idem]
  | hashVars s =>
    simp only [geometry, Option.some.injEq] at hg
    subst hg
    have h := hv_calls_ok s.length ncpu
    cases a <;> simp [calls, hvOne] at hc
    case load => obtain ⟨_, rfl⟩ := hc; exact h.2
    case hvGet i => obtain ⟨_, rfl⟩ := hc; exact h.1
    case hvSet i => obtain ⟨_, rfl⟩ := hc; exact h.2
    case hvLoad => obtain ⟨_, rfl⟩ := hc; exact h.2
  | dict ks vs size lru =>
    simp only [geometry, Option.some.injEq] at hg
    subst hg
    have hv : valueBytes ⟨if lru then mt_LRU_HASH else mt_HASH, ks.sum, vs.sum, size, 0⟩ ncpu = vs.sum := by
      apply valueBytes_plain
      cases lru
      · exact c_hash_ne
      · exact c_lru_ne
    cases a <;> simp [calls] at hc
    case dSet => subst hc; exact ok_rw _ _ _ _ _ (.inr (.inl rfl)) (Nat.le_refl _) (by rw [hv]; exact Nat.le_refl _)
    case dGet => subst hc; exact ok_rw _ _ _ _ _ (.inl rfl) (Nat.le_refl _) (by rw [hv]; exact Nat.le_refl _)
    case dPop => subst hc; exact ok_rw _ _ _ _ _ (by decide) (Nat.le_refl _) (by rw [hv]; exact Nat.le_refl _)
    case dDel => subst hc; exact ok_del _ _ _ (Nat.le_refl _)
    case dIter n =>
      rcases hc with rfl | ⟨_, rfl⟩
      · exact ok_next _ _ _ _ (by intro x hx; cases hx) (Nat.le_refl _)
      · exact ok_next _ _ _ _ (by intro x hx; cases hx; exact Nat.le_refl _) (Nat.le_refl _)
  | progArray =>
    simp only [geometry, Option.some.injEq] at hg
    subst hg
    cases a <;> simp [calls] at hc
    case register occ =>
      rcases hc with ⟨_, rfl⟩ | rfl | rfl
      · exact ok_rw progGeo _ _ _ _ (.inl rfl) (by decide) (by rw [prog_valueBytes]; decide)
      · exact ok_rw progGeo _ _ _ _ (.inr (.inl rfl)) (by decide) (by rw [prog_valueBytes]; decide)
      · exact ok_del progGeo _ _ (by decide)

/-- **C10**: ∀ declarations, ∀ possible-CPU counts, ∀ API call sequences, every issued command is within bounds -/
theorem C10 (d : Decl) (ncpu : Nat) (g : Geometry) (hg : geometry d = some g) (apis : List Api) :
    ∀ c ∈ apis.flatMap (calls ncpu d), c.ok g ncpu = true := by
  intro c hc
  obtain ⟨a, _, hca⟩ := List.mem_flatMap.mp hc
  exact calls_ok d ncpu g hg a c hca

/-- no map command is issued at all when no map was created (an `ArrayMap` nobody uses) -/
theorem no_map_no_calls (d : Decl) (ncpu : Nat) (hg : geometry d = none) (apis : List Api) :
    apis.flatMap (calls ncpu d) = [] := by
  have h : ∀ a, calls ncpu d a = [] := by
    intro a
    cases d with
    | array s => cases a <;> rfl
    | percpu s =>
      have h0 : mapSize s = 0 := by
        simp only [geometry] at hg
        split at hg
        · assumption
        · cases hg
      cases a <;> simp [calls, h0]
    | hashVars s => simp [geometry] at hg
    | dict ks vs size lru => simp [geometry] at hg
    | progArray => simp [geometry] at hg
  induction apis with
  | nil => rfl
  | cons a as ih => simp [List.flatMap_cons, h a, ih]

/-- the buffers are not oversized either: every length equals what the kernel transfers -/
theorem C10_exact (d : Decl) (ncpu : Nat) (g : Geometry) (hg : geometry d = some g) (apis : List Api) :
    ∀ c ∈ apis.flatMap (calls ncpu d), c.exact g ncpu = true := by
  intro c hc
  obtain ⟨a, _, hc⟩ := List.mem_flatMap.mp hc
  cases d with
  | array s => cases a <;> simp [calls] at hc
  | percpu s =>
    cases a <;> simp [calls] at hc
    obtain ⟨h0, rfl⟩ := hc
    simp only [geometry, h0, ↓reduceIte, Option.some.injEq] at hg
    subst hg
    have h1 : bpf_LOOKUP ≠ bpf_NEXT_KEY := by decide
    have h2 : arr_key_len = arr_key_size := by decide
    simp [Call.exact, valueBytes, mapSize, roundUp8_idem, h1, h2]
  | hashVars s =>
    simp only [geometry, Option.some.injEq] at hg
    subst hg
    have h := hv_calls_exact s.length ncpu
    cases a <;> simp [calls, hvOne] at hc
    case load => obtain ⟨_, rfl⟩ := hc; exact h.2
    case hvGet i => obtain ⟨_, rfl⟩ := hc; exact h.1
    case hvSet i => obtain ⟨_, rfl⟩ := hc; exact h.2
    case hvLoad => obtain ⟨_, rfl⟩ := hc; exact h.2
  | dict ks vs size lru =>
    simp only [geometry, Option.some.injEq] at hg
    subst hg
    have hv : valueBytes ⟨if lru then mt_LRU_HASH else mt_HASH, ks.sum, vs.sum, size, 0⟩ ncpu = vs.sum := by
      apply valueBytes_plain
      cases lru
      · exact c_hash_ne
      · exact c_lru_ne
    have e1 : bpf_UPDATE ≠ bpf_NEXT_KEY := by decide
    have e2 : bpf_LOOKUP ≠ bpf_NEXT_KEY := by decide
    have e3 : dict_pop_cmd ≠ bpf_NEXT_KEY := by decide
    cases a <;> simp [calls] at hc
    case dSet => subst hc; simp [Call.exact, hv, e1]
    case dGet => subst hc; simp [Call.exact, hv, e2]
    case dPop => subst hc; simp [Call.exact, hv, e3]
    case dDel => subst hc; simp [Call.exact]
    case dIter n => rcases hc with rfl | ⟨_, rfl⟩ <;> simp [Call.exact]
  | progArray =>
    simp only [geometry, Option.some.injEq] at hg
    subst hg
    have hk : prog_key_len = progGeo.keySize := by decide
    have hl : prog_lookup_len = valueBytes progGeo ncpu := by rw [prog_valueBytes]; decide
    have hu : prog_update_len = valueBytes progGeo ncpu := by rw [prog_valueBytes]; decide
    cases a <;> simp [calls] at hc
    case register occ =>
      rcases hc with ⟨_, rfl⟩ | rfl | rfl
      · rw [hk, hl]; exact exact_kv progGeo _ _ (by decide)
      · rw [hk, hu]; exact exact_kv progGeo _ _ (by decide)
      · rw [hk]; exact exact_k progGeo _ _

/-- the per-CPU read buffer is exactly `roundup8(value_size) × possible CPUs` -/
theorem percpu_read_exact (s : List Nat) (ncpu : Nat) (g : Geometry) (hg : geometry (.percpu s) = some g) :
    calls ncpu (.percpu s) .percpuRead = [⟨bpf_LOOKUP, some arr_key_len, some (roundUp8 g.valueSize * ncpu)⟩] := by
  simp only [geometry] at hg
  split at hg
  · cases hg
  · rename_i h0
    cases hg
    have h0' : ¬ roundUp8 s.sum = 0 := h0
    simp [calls, mapSize, h0', roundUp8_idem]

/-- a buffer sized for fewer CPUs than possible (e.g. the online ones) is too short -/
theorem percpu_online_too_short (s : List Nat) (online ncpu : Nat) (g : Geometry)
    (hg : geometry (.percpu s) = some g) (h : online < ncpu) :
    (⟨bpf_LOOKUP, some arr_key_len, some (g.valueSize * online)⟩ : Call).ok g ncpu = false := by
  simp only [geometry] at hg
  split at hg
  · cases hg
  · rename_i h0
    cases hg
    have hp : 0 < mapSize s := Nat.pos_of_ne_zero h0
    have hlt : mapSize s * online < mapSize s * ncpu := Nat.mul_lt_mul_of_pos_left h hp
    simp [Call.ok, lenAtLeast, valueBytes, mapSize, roundUp8_idem]
    intro _
    simpa [mapSize] using hlt

/-- "`calcsize fmt ≤ 8` is not enough: the statement needs `= 8`": a hash-variable read whose
value buffer follows a format shorter than the map's 8-byte value violates the bound -/
theorem hashvar_get_needs_eight (s : List Nat) (ncpu fmtSize : Nat) (g : Geometry)
    (hg : geometry (.hashVars s) = some g) :
    (hvGetCallByFormat fmtSize).ok g ncpu = decide (hv_value_size ≤ fmtSize) := by
  simp only [geometry, Option.some.injEq] at hg
  subst hg
  have h1 : mt_HASH ≠ mt_PERCPU_ARRAY := by decide
  have h2 : hv_key_size ≤ hv_key_len := by decide
  simp [hvGetCallByFormat, Call.ok, lenAtLeast, valueBytes, h1, h2]

/-- every map the library creates has non-zero key and value size whenever the declaration is
non-degenerate (what the kernel demands of `create_map`) -/
theorem geometry_positive (d : Decl) (g : Geometry) (hg : geometry d = some g)
    (hd : ∀ ks vs size lru, d = .dict ks vs size lru → 0 < ks.sum ∧ 0 < vs.sum) :
    0 < g.keySize ∧ 0 < g.valueSize := by
  cases d with
  | array s =>
    simp only [geometry] at hg
    split at hg
    · cases hg
    · rename_i h0; cases hg; exact ⟨(by decide : 0 < arr_key_size), Nat.pos_of_ne_zero h0⟩
  | percpu s =>
    simp only [geometry] at hg
    split at hg
    · cases hg
    · rename_i h0; cases hg; exact ⟨(by decide : 0 < arr_key_size), Nat.pos_of_ne_zero h0⟩
  | hashVars s => cases hg; exact ⟨(by decide : 0 < hv_key_size), (by decide : 0 < hv_value_size)⟩
  | dict ks vs size lru => cases hg; exact hd ks vs size lru rfl
  | progArray => cases hg; exact ⟨(by decide : 0 < prog_key_size), (by decide : 0 < prog_value_size)⟩

/-- the mmap of an array map is exactly its value (never longer than the map) -/
theorem mmap_within_value (d : Decl) (n : Nat) (h : mmapLen d = some n) :
    ∃ g, geometry d = some g ∧ n = g.valueSize * g.maxEntries ∧ g.flags = mf_MMAPABLE := by
  cases d with
  | array s =>
    simp only [mmapLen] at h
    split at h
    · cases h
    · rename_i h0
      cases h
      refine ⟨⟨mt_ARRAY, arr_key_size, mapSize s, arr_max_entries, mf_MMAPABLE⟩, by simp [geometry, h0], ?_, rfl⟩
      show mapSize s = mapSize s * arr_max_entries
      rw [show arr_max_entries = 1 from rfl, Nat.mul_one]
  | percpu s => cases h
  | hashVars s => cases h
  | dict ks vs size lru => cases h
  | progArray => cases h

/-! ### non-vacuity: concrete declarations, call sequences and CPU counts -/

example : geometry (.percpu [4, 8, 2]) = some ⟨6, 4, 16, 1, 0⟩ := by decide
example : calls 24 (.percpu [4, 8, 2]) .percpuRead = [⟨1, some 4, some 384⟩] := by decide
example : (⟨1, some 4, some (16 * 16)⟩ : Call).ok ⟨6, 4, 16, 1, 0⟩ 24 = false := by decide
example : [Api.load, .hvGet 0, .hvSet 1, .hvGet 2].flatMap (calls 4 (.hashVars [4, 1])) =
    [⟨2, some 1, some 8⟩, ⟨2, some 1, some 8⟩, ⟨1, some 1, some 8⟩, ⟨2, some 1, some 8⟩] := by decide
example : (hvGetCallByFormat 4).ok ⟨1, 1, 8, 2, 0⟩ 4 = false := by decide
example : [Api.dSet, .dIter 2, .dPop, .dDel].flatMap (calls 4 (.dict [8, 4, 2, 1] [8, 4, 1] 31 false)) =
    [⟨2, some 15, some 13⟩, ⟨4, none, some 15⟩, ⟨4, some 15, some 15⟩, ⟨4, some 15, some 15⟩,
     ⟨dict_pop_cmd, some 15, some 13⟩, ⟨3, some 15, none⟩] := by decide
example : calls 4 .progArray (.register 1) =
    [⟨1, some 4, some 4⟩, ⟨1, some 4, some 4⟩, ⟨2, some 4, some 4⟩, ⟨3, some 4, none⟩] := by decide

end Ebv.C10
