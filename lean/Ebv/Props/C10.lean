import Ebv.Model.MapCalls
/-! C10 — user-space map calls never overrun Python buffers.

Full statement (`C10`): for every declaration, every number of possible CPUs and every
sequence of API calls, every map command the library issues passes a key buffer of at
least `key_size` bytes and a value buffer of at least `value_size` bytes of the map it
was created with (per-CPU maps: `roundup8(value_size) × possible CPUs`; `GET_NEXT_KEY`:
NULL or `key_size` for the key, `key_size` for the next key). -/
namespace Ebv.C10
open Ebv.MapCalls Ebv.Consts

theorem roundUp8_ge (n : Nat) : n ≤ roundUp8 n := by unfold roundUp8; omega

theorem roundUp8_idem (n : Nat) : roundUp8 (roundUp8 n) = roundUp8 n := by unfold roundUp8; omega

theorem mem_replicate_eq {α} {n : Nat} {a c : α} (h : c ∈ List.replicate n a) : c = a :=
  (List.mem_replicate.mp h).2

theorem valueBytes_plain (g : Geometry) (ncpu : Nat) (h : g.mapType ≠ mt_PERCPU_ARRAY) :
    valueBytes g ncpu = g.valueSize := by simp [valueBytes, h]

theorem ok_rw (g : Geometry) (ncpu cmd k v : Nat)
    (hc : cmd = bpf_LOOKUP ∨ cmd = bpf_UPDATE ∨ cmd = bpf_LOOKUP_DELETE)
    (hk : g.keySize ≤ k) (hv : valueBytes g ncpu ≤ v) :
    (⟨cmd, some k, some v⟩ : Call).ok g ncpu = true := by
  simp [Call.ok, hc, lenAtLeast, hk, hv]

theorem ok_del (g : Geometry) (ncpu k : Nat) (hk : g.keySize ≤ k) :
    (⟨bpf_DELETE, some k, none⟩ : Call).ok g ncpu = true := by
  have h1 : ¬ (bpf_DELETE = bpf_LOOKUP ∨ bpf_DELETE = bpf_UPDATE ∨ bpf_DELETE = bpf_LOOKUP_DELETE) := by decide
  simp [Call.ok, h1, lenAtLeast, hk]

theorem ok_next (g : Geometry) (ncpu : Nat) (k : Option Nat) (v : Nat)
    (hk : ∀ x, k = some x → g.keySize ≤ x) (hv : g.keySize ≤ v) :
    (⟨bpf_NEXT_KEY, k, some v⟩ : Call).ok g ncpu = true := by
  have h1 : ¬ (bpf_NEXT_KEY = bpf_LOOKUP ∨ bpf_NEXT_KEY = bpf_UPDATE ∨ bpf_NEXT_KEY = bpf_LOOKUP_DELETE) := by decide
  have h2 : bpf_NEXT_KEY ≠ bpf_DELETE := by decide
  cases k with
  | none => simp [Call.ok, h1, h2, lenAtLeast, hv]
  | some x => simp [Call.ok, h1, h2, lenAtLeast, hv, hk x rfl]

theorem exact_kv (g : Geometry) (ncpu cmd : Nat) (h : cmd ≠ bpf_NEXT_KEY) :
    (⟨cmd, some g.keySize, some (valueBytes g ncpu)⟩ : Call).exact g ncpu = true := by
  simp [Call.exact, h]

theorem exact_k (g : Geometry) (ncpu cmd : Nat) :
    (⟨cmd, some g.keySize, none⟩ : Call).exact g ncpu = true := by
  simp [Call.exact]

theorem exact_next (g : Geometry) (ncpu : Nat) (k : Option Nat) (hk : ∀ x, k = some x → x = g.keySize) :
    (⟨bpf_NEXT_KEY, k, some g.keySize⟩ : Call).exact g ncpu = true := by
  cases k with
  | none => simp [Call.exact]
  | some x => simp [Call.exact, hk x rfl]

theorem c_hash_ne : mt_HASH ≠ mt_PERCPU_ARRAY := by decide
theorem c_lru_ne : mt_LRU_HASH ≠ mt_PERCPU_ARRAY := by decide
theorem c_prog_ne : mt_PROG_ARRAY ≠ mt_PERCPU_ARRAY := by decide
theorem c_hv_key : hv_key_size ≤ hv_key_len := by decide
theorem c_hv_get : hv_value_size ≤ hv_get_len := by decide
theorem c_hv_set : hv_value_size ≤ hv_set_len := by decide
theorem c_arr_key : arr_key_size ≤ arr_key_len := by decide

def hvGeo (n : Nat) : Geometry := ⟨mt_HASH, hv_key_size, hv_value_size, n, 0⟩
def progGeo : Geometry := ⟨mt_PROG_ARRAY, prog_key_size, prog_value_size, prog_max_entries, 0⟩

theorem hv_calls_ok (n ncpu : Nat) : hvGetCall.ok (hvGeo n) ncpu = true ∧ hvSetCall.ok (hvGeo n) ncpu = true :=
  ⟨ok_rw _ _ _ _ _ (.inl rfl) c_hv_key (by rw [valueBytes_plain _ _ c_hash_ne]; exact c_hv_get),
   ok_rw _ _ _ _ _ (.inr (.inl rfl)) c_hv_key (by rw [valueBytes_plain _ _ c_hash_ne]; exact c_hv_set)⟩

theorem hv_calls_exact (n ncpu : Nat) : hvGetCall.exact (hvGeo n) ncpu = true ∧ hvSetCall.exact (hvGeo n) ncpu = true := by
  have h := valueBytes_plain (hvGeo n) ncpu c_hash_ne
  have e1 : hvGetCall = ⟨bpf_LOOKUP, some (hvGeo n).keySize, some (valueBytes (hvGeo n) ncpu)⟩ := by rw [h]; rfl
  have e2 : hvSetCall = ⟨bpf_UPDATE, some (hvGeo n).keySize, some (valueBytes (hvGeo n) ncpu)⟩ := by rw [h]; rfl
  rw [e1, e2]
  exact ⟨exact_kv _ _ _ (by decide), exact_kv _ _ _ (by decide)⟩

theorem prog_valueBytes (ncpu : Nat) : valueBytes progGeo ncpu = prog_value_size :=
  valueBytes_plain progGeo ncpu c_prog_ne

/-- one API call on one declared map -/
theorem calls_ok (d : Decl) (ncpu : Nat) (g : Geometry) (hg : geometry d = some g) (a : Api) :
    ∀ c ∈ calls ncpu d a, c.ok g ncpu = true := by
  intro c hc
  cases d with
  | array s => cases a <;> simp [calls] at hc
  | percpu s =>
    cases a <;> simp [calls] at hc
    obtain ⟨h0, rfl⟩ := hc
    simp only [geometry, h0, ↓reduceIte, Option.some.injEq] at hg
    subst hg
    refine ok_rw _ _ _ _ _ (.inl rfl) c_arr_key ?_
    simp [valueBytes, mapSize, roundUp8_idem]
  | hashVars s =>
    simp only [geometry, Option.some.injEq] at hg
    subst hg
    have h := hv_calls_ok s.length ncpu
    cases a <;> simp [calls, hvOne] at hc
    case load => obtain ⟨_, rfl⟩ := hc; exact h.2
    case hvGet i => obtain ⟨_, rfl⟩ := hc; exact h.1
    case hvSet i => obtain ⟨_, rfl⟩ := hc; exact h.2
    case hvLoad => obtain ⟨_, rfl⟩ := hc; exact h.2
  | dict ks vs size lru =>
    simp only [geometry, Option.some.injEq] at hg
    subst hg
    have hv : valueBytes ⟨if lru then mt_LRU_HASH else mt_HASH, ks.sum, vs.sum, size, 0⟩ ncpu = vs.sum := by
      apply valueBytes_plain
      cases lru
      · exact c_hash_ne
      · exact c_lru_ne
    cases a <;> simp [calls] at hc
    case dSet => subst hc; exact ok_rw _ _ _ _ _ (.inr (.inl rfl)) (Nat.le_refl _) (by rw [hv]; exact Nat.le_refl _)
    case dGet => subst hc; exact ok_rw _ _ _ _ _ (.inl rfl) (Nat.le_refl _) (by rw [hv]; exact Nat.le_refl _)
    case dPop => subst hc; exact ok_rw _ _ _ _ _ (by decide) (Nat.le_refl _) (by rw [hv]; exact Nat.le_refl _)
    case dDel => subst hc; exact ok_del _ _ _ (Nat.le_refl _)
    case dIter n =>
      rcases hc with rfl | ⟨_, rfl⟩
      · exact ok_next _ _ _ _ (by intro x hx; cases hx) (Nat.le_refl _)
      · exact ok_next _ _ _ _ (by intro x hx; cases hx; exact Nat.le_refl _) (Nat.le_refl _)
  | progArray =>
    simp only [geometry, Option.some.injEq] at hg
    subst hg
    cases a <;> simp [calls] at hc
    case register occ =>
      rcases hc with ⟨_, rfl⟩ | rfl | rfl
      · exact ok_rw progGeo _ _ _ _ (.inl rfl) (by decide) (by rw [prog_valueBytes]; decide)
      · exact ok_rw progGeo _ _ _ _ (.inr (.inl rfl)) (by decide) (by rw [prog_valueBytes]; decide)
      · exact ok_del progGeo _ _ (by decide)

/-- **C10**: ∀ declarations, ∀ possible-CPU counts, ∀ API call sequences, every issued command is within bounds -/
theorem C10 (d : Decl) (ncpu : Nat) (g : Geometry) (hg : geometry d = some g) (apis : List Api) :
    ∀ c ∈ apis.flatMap (calls ncpu d), c.ok g ncpu = true := by
  intro c hc
  obtain ⟨a, _, hca⟩ := List.mem_flatMap.mp hc
  exact calls_ok d ncpu g hg a c hca

/-- no map command is issued at all when no map was created (an `ArrayMap` nobody uses) -/
theorem no_map_no_calls (d : Decl) (ncpu : Nat) (hg : geometry d = none) (apis : List Api) :
    apis.flatMap (calls ncpu d) = [] := by
  have h : ∀ a, calls ncpu d a = [] := by
    intro a
    cases d with
    | array s => cases a <;> rfl
    | percpu s =>
      have h0 : mapSize s = 0 := by
        simp only [geometry] at hg
        split at hg
        · assumption
        · cases hg
      cases a <;> simp [calls, h0]
    | hashVars s => simp [geometry] at hg
    | dict ks vs size lru => simp [geometry] at hg
    | progArray => simp [geometry] at hg
  induction apis with
  | nil => rfl
  | cons a as ih => simp [List.flatMap_cons, h a, ih]

/-- the buffers are not oversized either: every length equals what the kernel transfers -/
theorem C10_exact (d : Decl) (ncpu : Nat) (g : Geometry) (hg : geometry d = some g) (apis : List Api) :
    ∀ c ∈ apis.flatMap (calls ncpu d), c.exact g ncpu = true := by
  intro c hc
  obtain ⟨a, _, hc⟩ := List.mem_flatMap.mp hc
  cases d with
  | array s => cases a <;> simp [calls] at hc
  | percpu s =>
    cases a <;> simp [calls] at hc
    obtain ⟨h0, rfl⟩ := hc
    simp only [geometry, h0, ↓reduceIte, Option.some.injEq] at hg
    subst hg
    have h1 : bpf_LOOKUP ≠ bpf_NEXT_KEY := by decide
    have h2 : arr_key_len = arr_key_size := by decide
    simp [Call.exact, valueBytes, mapSize, roundUp8_idem, h1, h2]
  | hashVars s =>
    simp only [geometry, Option.some.injEq] at hg
    subst hg
    have h := hv_calls_exact s.length ncpu
    cases a <;> simp [calls, hvOne] at hc
    case load => obtain ⟨_, rfl⟩ := hc; exact h.2
    case hvGet i => obtain ⟨_, rfl⟩ := hc; exact h.1
    case hvSet i => obtain ⟨_, rfl⟩ := hc; exact h.2
    case hvLoad => obtain ⟨_, rfl⟩ := hc; exact h.2
  | dict ks vs size lru =>
    simp only [geometry, Option.some.injEq] at hg
    subst hg
    have hv : valueBytes ⟨if lru then mt_LRU_HASH else mt_HASH, ks.sum, vs.sum, size, 0⟩ ncpu = vs.sum := by
      apply valueBytes_plain
      cases lru
      · exact c_hash_ne
      · exact c_lru_ne
    have e1 : bpf_UPDATE ≠ bpf_NEXT_KEY := by decide
    have e2 : bpf_LOOKUP ≠ bpf_NEXT_KEY := by decide
    have e3 : dict_pop_cmd ≠ bpf_NEXT_KEY := by decide
    cases a <;> simp [calls] at hc
    case dSet => subst hc; simp [Call.exact, hv, e1]
    case dGet => subst hc; simp [Call.exact, hv, e2]
    case dPop => subst hc; simp [Call.exact, hv, e3]
    case dDel => subst hc; simp [Call.exact]
    case dIter n => rcases hc with rfl | ⟨_, rfl⟩ <;> simp [Call.exact]
  | progArray =>
    simp only [geometry, Option.some.injEq] at hg
    subst hg
    have hk : prog_key_len = progGeo.keySize := by decide
    have hl : prog_lookup_len = valueBytes progGeo ncpu := by rw [prog_valueBytes]; decide
    have hu : prog_update_len = valueBytes progGeo ncpu := by rw [prog_valueBytes]; decide
    cases a <;> simp [calls] at hc
    case register occ =>
      rcases hc with ⟨_, rfl⟩ | rfl | rfl
      · rw [hk, hl]; exact exact_kv progGeo _ _ (by decide)
      · rw [hk, hu]; exact exact_kv progGeo _ _ (by decide)
      · rw [hk]; exact exact_k progGeo _ _

/-- the per-CPU read buffer is exactly `roundup8(value_size) × possible CPUs` -/
theorem percpu_read_exact (s : List Nat) (ncpu : Nat) (g : Geometry) (hg : geometry (.percpu s) = some g) :
    calls ncpu (.percpu s) .percpuRead = [⟨bpf_LOOKUP, some arr_key_len, some (roundUp8 g.valueSize * ncpu)⟩] := by
  simp only [geometry] at hg
  split at hg
  · cases hg
  · rename_i h0
    cases hg
    have h0' : ¬ roundUp8 s.sum = 0 := h0
    simp [calls, mapSize, h0', roundUp8_idem]

/-- a buffer sized for fewer CPUs than possible (e.g. the online ones) is too short -/
theorem percpu_online_too_short (s : List Nat) (online ncpu : Nat) (g : Geometry)
    (hg : geometry (.percpu s) = some g) (h : online < ncpu) :
    (⟨bpf_LOOKUP, some arr_key_len, some (g.valueSize * online)⟩ : Call).ok g ncpu = false := by
  simp only [geometry] at hg
  split at hg
  · cases hg
  · rename_i h0
    cases hg
    have hp : 0 < mapSize s := Nat.pos_of_ne_zero h0
    have hlt : mapSize s * online < mapSize s * ncpu := Nat.mul_lt_mul_of_pos_left h hp
    simp [Call.ok, lenAtLeast, valueBytes, mapSize, roundUp8_idem]
    intro _
    simpa [mapSize] using hlt

/-- "`calcsize fmt ≤ 8` is not enough: the statement needs `= 8`": a hash-variable read whose
value buffer follows a format shorter than the map's 8-byte value violates the bound -/
theorem hashvar_get_needs_eight (s : List Nat) (ncpu fmtSize : Nat) (g : Geometry)
    (hg : geometry (.hashVars s) = some g) :
    (hvGetCallByFormat fmtSize).ok g ncpu = decide (hv_value_size ≤ fmtSize) := by
  simp only [geometry, Option.some.injEq] at hg
  subst hg
  have h1 : mt_HASH ≠ mt_PERCPU_ARRAY := by decide
  have h2 : hv_key_size ≤ hv_key_len := by decide
  simp [hvGetCallByFormat, Call.ok, lenAtLeast, valueBytes, h1, h2]

/-- every map the library creates has non-zero key and value size whenever the declaration is
non-degenerate (what the kernel demands of `create_map`) -/
theorem geometry_positive (d : Decl) (g : Geometry) (hg : geometry d = some g)
    (hd : ∀ ks vs size lru, d = .dict ks vs size lru → 0 < ks.sum ∧ 0 < vs.sum) :
    0 < g.keySize ∧ 0 < g.valueSize := by
  cases d with
  | array s =>
    simp only [geometry] at hg
    split at hg
    · cases hg
    · rename_i h0; cases hg; exact ⟨(by decide : 0 < arr_key_size), Nat.pos_of_ne_zero h0⟩
  | percpu s =>
    simp only [geometry] at hg
    split at hg
    · cases hg
    · rename_i h0; cases hg; exact ⟨(by decide : 0 < arr_key_size), Nat.pos_of_ne_zero h0⟩
  | hashVars s => cases hg; exact ⟨(by decide : 0 < hv_key_size), (by decide : 0 < hv_value_size)⟩
  | dict ks vs size lru => cases hg; exact hd ks vs size lru rfl
  | progArray => cases hg; exact ⟨(by decide : 0 < prog_key_size), (by decide : 0 < prog_value_size)⟩

/-- the mmap of an array map is exactly its value (never longer than the map) -/
theorem mmap_within_value (d : Decl) (n : Nat) (h : mmapLen d = some n) :
    ∃ g, geometry d = some g ∧ n = g.valueSize * g.maxEntries ∧ g.flags = mf_MMAPABLE := by
  cases d with
  | array s =>
    simp only [mmapLen] at h
    split at h
    · cases h
    · rename_i h0
      cases h
      refine ⟨⟨mt_ARRAY, arr_key_size, mapSize s, arr_max_entries, mf_MMAPABLE⟩, by simp [geometry, h0], ?_, rfl⟩
      show mapSize s = mapSize s * arr_max_entries
      rw [show arr_max_entries = 1 from rfl, Nat.mul_one]
  | percpu s => cases h
  | hashVars s => cases h
  | dict ks vs size lru => cases h
  | progArray => cases h

/-! ### several live instances around one shared map descriptor

`runHist` is the library's behaviour with its state (`World`: the size on the shared descriptor
and what every instance keeps for itself); `specHist` has no shared state at all: a use of the
idx-th instance issues the calls of that instance's OWN declaration.  They are equal for every
family, every order of creation and every interleaving of uses (`runHist_eq_spec`), hence every
command of every live instance is within — and exactly — the geometry of that instance's own
map (`C10_instances`). -/

def Good (st : InstState) : Prop :=
  st.geo = geometry st.decl ∧ ∀ s, st.decl = .percpu s → st.readerSize = mapSize s

def Inv (f : Family) (w : World) (pre : List Inst) : Prop :=
  (∀ st ∈ w.insts, Good st) ∧ w.insts.map (·.decl) = pre.map (instDecl f)

theorem inv_empty (f : Family) : Inv f World.empty [] := by
  constructor
  · intro st h; cases h
  · rfl

theorem inv_create (f : Family) (w : World) (pre : List Inst) (i : Inst) (h : Inv f w pre) :
    Inv f (createInst f w i) (pre ++ [i]) := by
  obtain ⟨hg, hm⟩ := h
  constructor
  · intro st hst
    simp only [createInst, List.mem_append, List.mem_singleton] at hst
    rcases hst with hst | rfl
    · exact hg st hst
    · refine ⟨rfl, ?_⟩
      intro s hs
      simp only at hs
      simp only [hs, collected]
  · simp [createInst, hm]

theorem inv_lookup (f : Family) (w : World) (pre : List Inst) (h : Inv f w pre) (idx : Nat) :
    (∀ st, w.insts[idx]? = some st → ∃ inst, pre[idx]? = some inst ∧ st.decl = instDecl f inst ∧ Good st) ∧
    (w.insts[idx]? = none → pre[idx]? = none) := by
  obtain ⟨hg, hm⟩ := h
  have hi : (w.insts.map (·.decl))[idx]? = (pre.map (instDecl f))[idx]? := by rw [hm]
  rw [List.getElem?_map, List.getElem?_map] at hi
  constructor
  · intro st hst
    rw [hst] at hi
    cases hp : pre[idx]? with
    | none => rw [hp] at hi; cases hi
    | some inst =>
      rw [hp] at hi
      simp only [Option.map_some, Option.some.injEq] at hi
      exact ⟨inst, rfl, hi, hg st (List.mem_of_getElem? hst)⟩
  · intro hn
    rw [hn] at hi
    cases hp : pre[idx]? with
    | none => rfl
    | some inst => rw [hp] at hi; cases hi

/-- with what the instance stored at its creation, an API call issues the calls of its own declaration -/
theorem callsI_eq (ncpu : Nat) (st : InstState) (hg : Good st) (a : Api) :
    callsI ncpu st a = calls ncpu st.decl a := by
  cases a <;> try rfl
  case percpuRead =>
    show percpuReadI ncpu st = calls ncpu st.decl .percpuRead
    unfold percpuReadI
    cases hd : st.decl with
    | percpu s => simp only []; rw [hg.2 s hd]; rfl
    | _ => rfl

/-- the stateless specification: nothing is shared between instances -/
def specUse (f : Family) (ncpu : Nat) (pre : List Inst) (idx : Nat) (a : Api) : List Call :=
  match pre[idx]? with
  | some inst => calls ncpu (instDecl f inst) a
  | none => []

def specHist (f : Family) (ncpu : Nat) : List Inst → List Event → List (Nat × Call)
  | _, [] => []
  | pre, .create i :: es => specHist f ncpu (pre ++ [i]) es
  | pre, .use idx a :: es => (specUse f ncpu pre idx a).map (fun c => (idx, c)) ++ specHist f ncpu pre es

theorem step_use_spec (f : Family) (ncpu : Nat) (w : World) (pre : List Inst) (h : Inv f w pre)
    (idx : Nat) (a : Api) :
    stepEvent f ncpu w (.use idx a) = (w, specUse f ncpu pre idx a) := by
  have hl := inv_lookup f w pre h idx
  cases hw : w.insts[idx]? with
  | none => simp [stepEvent, specUse, hw, hl.2 hw]
  | some st =>
    obtain ⟨inst, hp, hd, hgood⟩ := hl.1 st hw
    simp [stepEvent, specUse, hw, hp, callsI_eq ncpu st hgood a, hd]

theorem runHist_eq_spec_gen (f : Family) (ncpu : Nat) (es : List Event) :
    ∀ (w : World) (pre : List Inst), Inv f w pre → runHist f ncpu w es = specHist f ncpu pre es := by
  induction es with
  | nil => intro w pre _; rfl
  | cons e es ih =>
    intro w pre h
    cases e with
    | create i =>
      simp only [runHist, specHist, stepEvent, List.nil_append]
      exact ih _ _ (inv_create f w pre i h)
    | use idx a =>
      simp only [runHist, specHist, step_use_spec f ncpu w pre h idx a]
      rw [ih w pre h]

/-- **instances are independent**: for every family, every order of creation and every
interleaving of uses, the library (with the size kept on the shared descriptor and the sizes
kept per instance) issues exactly what the stateless specification issues -/
theorem runHist_eq_spec (f : Family) (ncpu : Nat) (es : List Event) :
    runHist f ncpu World.empty es = specHist f ncpu [] es :=
  runHist_eq_spec_gen f ncpu es _ _ (inv_empty f)

def worldAfter (f : Family) (ncpu : Nat) (w : World) (es : List Event) : World :=
  es.foldl (fun w e => (stepEvent f ncpu w e).1) w

theorem inv_after (f : Family) (ncpu : Nat) (es : List Event) :
    ∀ (w : World) (pre : List Inst), Inv f w pre → Inv f (worldAfter f ncpu w es) (pre ++ createdOf es) := by
  induction es with
  | nil => intro w pre h; simpa [worldAfter, createdOf] using h
  | cons e es ih =>
    intro w pre h
    cases e with
    | create i =>
      have := ih _ _ (inv_create f w pre i h)
      simpa [worldAfter, createdOf, stepEvent, List.append_assoc] using this
    | use idx a =>
      have := ih w pre h
      simpa [worldAfter, createdOf, step_use_spec f ncpu w pre h idx a] using this

/-- after ANY history, a use of an instance issues the calls of that instance's own declaration:
the buffer sizes of each entry point are a function of the instance's own map geometry -/
theorem use_calls_own (f : Family) (ncpu : Nat) (es : List Event) (idx : Nat) (a : Api) (inst : Inst)
    (h : (createdOf es)[idx]? = some inst) :
    (stepEvent f ncpu (worldAfter f ncpu World.empty es) (.use idx a)).2 = calls ncpu (instDecl f inst) a := by
  have hi := inv_after f ncpu es _ _ (inv_empty f)
  rw [step_use_spec f ncpu _ _ hi idx a]
  simp [specUse, h]

theorem calls_nil_of_no_map (d : Decl) (ncpu : Nat) (hg : geometry d = none) (a : Api) : calls ncpu d a = [] := by
  have := no_map_no_calls d ncpu hg [a]
  simpa using this

theorem spec_mem (f : Family) (ncpu : Nat) (es : List Event) :
    ∀ (pre : List Inst) (idx : Nat) (c : Call), (idx, c) ∈ specHist f ncpu pre es →
      ∃ inst a, (pre ++ createdOf es)[idx]? = some inst ∧ c ∈ calls ncpu (instDecl f inst) a := by
  induction es with
  | nil => intro pre idx c h; cases h
  | cons e es ih =>
    intro pre idx c h
    cases e with
    | create i =>
      obtain ⟨inst, a, h1, h2⟩ := ih _ idx c h
      exact ⟨inst, a, by simpa [createdOf, List.append_assoc] using h1, h2⟩
    | use j a =>
      simp only [specHist, List.mem_append, List.mem_map] at h
      rcases h with ⟨c', hc', heq⟩ | h
      · cases heq
        unfold specUse at hc'
        cases hp : pre[idx]? with
        | none => rw [hp] at hc'; cases hc'
        | some inst =>
          rw [hp] at hc'
          have hlt : idx < pre.length := (List.getElem?_eq_some_iff.mp hp).1
          exact ⟨inst, a, by rw [List.getElem?_append_left hlt]; exact hp, hc'⟩
      · obtain ⟨inst, a', h1, h2⟩ := ih pre idx c h
        exact ⟨inst, a', by simpa [createdOf] using h1, h2⟩

/-- **C10 for several live instances**: ∀ families (base class, derived classes adding variables or
overriding the Dict, sub-program sets), ∀ possible-CPU counts, ∀ histories (instances created in any
order, all kept alive, used in any interleaving): every command issued for the idx-th instance
passes buffers within — and exactly of — the geometry of THAT instance's own map -/
theorem C10_instances (f : Family) (ncpu : Nat) (es : List Event) (idx : Nat) (c : Call)
    (h : (idx, c) ∈ runHist f ncpu World.empty es) :
    ∃ inst g, (createdOf es)[idx]? = some inst ∧ geometry (instDecl f inst) = some g ∧
      c.ok g ncpu = true ∧ c.exact g ncpu = true := by
  rw [runHist_eq_spec] at h
  obtain ⟨inst, a, h1, h2⟩ := spec_mem f ncpu es [] idx c h
  simp only [List.nil_append] at h1
  cases hg : geometry (instDecl f inst) with
  | none => rw [calls_nil_of_no_map _ ncpu hg a] at h2; cases h2
  | some g =>
    have hm : c ∈ [a].flatMap (calls ncpu (instDecl f inst)) := by simpa using h2
    exact ⟨inst, g, h1, hg, C10 _ ncpu g hg [a] c hm, C10_exact _ ncpu g hg [a] c hm⟩

/-- the size kept on the shared descriptor is the size of the instance created last: a read
sized by it is too short for every live instance whose own map is larger -/
theorem percpu_shared_size_too_short (s : List Nat) (last ncpu : Nat) (g : Geometry)
    (hg : geometry (.percpu s) = some g) (hl : last < g.valueSize) (hn : 0 < ncpu) :
    ∀ c ∈ percpuReadCall last ncpu, c.ok g ncpu = false := by
  intro c hc
  simp only [geometry] at hg
  split at hg
  · cases hg
  · cases hg
    simp only at hl
    unfold percpuReadCall at hc
    split at hc
    · cases hc
    · simp only [List.mem_singleton] at hc
      subst hc
      have hlt : last * ncpu < mapSize s * ncpu := Nat.mul_lt_mul_of_pos_right hl hn
      simp [Call.ok, lenAtLeast, valueBytes, mapSize, roundUp8_idem]
      intro _
      simpa [mapSize] using hlt

/-- witness: `Derived` (adds two 8-byte variables to the base class's per-CPU map) is created
first, `Base` afterwards; the descriptor now holds 8, the derived instance's map has 24 -/
def sharedWitness : Family := .percpu [8] [[8, 8]] []
def sharedWitnessWorld : World := worldAfter sharedWitness 4 World.empty [.create ⟨1, []⟩, .create ⟨0, []⟩]

theorem percpu_shared_size_refuted :
    geometry (instDecl sharedWitness ⟨1, []⟩) = some ⟨mt_PERCPU_ARRAY, 4, 24, 1, 0⟩ ∧
    percpuReadCallShared sharedWitnessWorld 4 = [⟨bpf_LOOKUP, some 4, some 32⟩] ∧
    (⟨bpf_LOOKUP, some 4, some 32⟩ : Call).ok ⟨mt_PERCPU_ARRAY, 4, 24, 1, 0⟩ 4 = false ∧
    (stepEvent sharedWitness 4 sharedWitnessWorld (.use 0 .percpuRead)).2 = [⟨bpf_LOOKUP, some 4, some 96⟩] := by
  decide

/-! ### non-vacuity: concrete declarations, call sequences and CPU counts -/

example : geometry (.percpu [4, 8, 2]) = some ⟨6, 4, 16, 1, 0⟩ := by decide
example : calls 24 (.percpu [4, 8, 2]) .percpuRead = [⟨1, some 4, some 384⟩] := by decide
example : (⟨1, some 4, some (16 * 16)⟩ : Call).ok ⟨6, 4, 16, 1, 0⟩ 24 = false := by decide
example : [Api.load, .hvGet 0, .hvSet 1, .hvGet 2].flatMap (calls 4 (.hashVars [4, 1])) =
    [⟨2, some 1, some 8⟩, ⟨2, some 1, some 8⟩, ⟨1, some 1, some 8⟩, ⟨2, some 1, some 8⟩] := by decide
example : (hvGetCallByFormat 4).ok ⟨1, 1, 8, 2, 0⟩ 4 = false := by decide
example : [Api.dSet, .dIter 2, .dPop, .dDel].flatMap (calls 4 (.dict [8, 4, 2, 1] [8, 4, 1] 31 false)) =
    [⟨2, some 15, some 13⟩, ⟨4, none, some 15⟩, ⟨4, some 15, some 15⟩, ⟨4, some 15, some 15⟩,
     ⟨dict_pop_cmd, some 15, some 13⟩, ⟨3, some 15, none⟩] := by decide
example : calls 4 .progArray (.register 1) =
    [⟨1, some 4, some 4⟩, ⟨1, some 4, some 4⟩, ⟨2, some 4, some 4⟩, ⟨3, some 4, none⟩] := by decide

/- several instances: a derived class with more variables, the base class, the base class with a
sub-program; created in that order, all used afterwards -/
example : runHist (.percpu [4] [[8, 8]] [[2]]) 3 World.empty
    [.create ⟨1, []⟩, .create ⟨0, []⟩, .use 0 .percpuRead, .create ⟨0, [0, 0]⟩, .use 1 .percpuRead,
     .use 2 .percpuRead, .use 0 .percpuRead] =
    [(0, ⟨1, some 4, some 72⟩), (1, ⟨1, some 4, some 24⟩), (2, ⟨1, some 4, some 24⟩), (0, ⟨1, some 4, some 72⟩)] := by decide
example : runHist (.dict ⟨[4], [8], 31, false⟩ [none, some ⟨[4], [8, 8], 3, false⟩]) 4 World.empty
    [.create ⟨2, []⟩, .create ⟨0, []⟩, .use 0 .dGet, .use 1 .dGet, .create ⟨1, []⟩, .use 2 .dSet] =
    [(0, ⟨1, some 4, some 16⟩), (1, ⟨1, some 4, some 8⟩), (2, ⟨2, some 4, some 8⟩)] := by decide

end Ebv.C10
