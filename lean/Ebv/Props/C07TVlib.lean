import Ebv.Lemmas.XdpFmt
import Ebv.Lemmas.XdpSeg
import Ebv.Lemmas.XdpRel
import Ebv.Model.PktVar
import Ebv.Generated.ProgramsFmt
/-! C07 translation validation, library: what is proved about every member of the regenerated packet-variable
family `Programs.fmtTable` (`Spec`), the memory picture a run starts from (`PktLayout`), and the tactics that
symbolically execute one regenerated instruction list under `runXdp` (`fsim`, `fmt_read`, `fmt_write`). -/
namespace Ebv.C07TV
open Ebv.Ebpf Ebv.XdpRun Ebv.Bytes Ebv.PktVar Ebv.Programs

/-- memory `M` holds the bytes of `pkt` from address `dat` on -/
def Shows (M : W → BitVec 8) (dat : Nat) (pkt : List UInt8) : Prop :=
  ∀ i (h : i < pkt.length), M (BitVec.ofNat 64 (dat + i)) = byte pkt[i]

/-- what an XDP invocation starts from: r1 → `xdp_md` whose 32-bit `data`/`data_end` delimit the packet bytes.
Everything else (other registers, the rest of memory, the helper environment) is arbitrary. -/
structure PktLayout (ctx dat : Nat) (s : State) (pkt : List UInt8) : Prop where
  pc : s.pc = 0
  r1 : s.regs 1 = BitVec.ofNat 64 ctx
  data : loadN s.mem (BitVec.ofNat 64 ctx) 4 = dat
  data_end : loadN s.mem (BitVec.ofNat 64 (ctx + 4)) 4 = dat + pkt.length
  pkt : Shows s.mem dat pkt

/-- the run ended with `EXIT`, return value `r`, in a state satisfying `P` -/
def ExitsWith (o : XOut) (r : W) (P : State → Prop) : Prop :=
  match o with
  | .exit r' s' => r' = r ∧ P s'
  | _ => False

/-- memory `M'` shows the packet with exactly the bytes `bs` written at offset `p`, and differs from `M` nowhere
outside those bytes (inside or outside the packet) -/
def WritePost (dat : Nat) (M M' : W → BitVec 8) (pkt : List UInt8) (p : Nat) (bs : List UInt8) : Prop :=
  Shows M' dat (setRange pkt p bs) ∧
  ∀ x, x < 2 ^ 64 → ¬ (dat + p ≤ x ∧ x < dat + p + bs.length) → M' (BitVec.ofNat 64 x) = M (BitVec.ofNat 64 x)

/-- the struct format of a table entry -/
def fmtOf (t : FmtProg) : Fmt := ⟨t.n, t.signed, if t.order = 0 then .native else if t.order = 1 then .le else .be⟩

/-- the XDP return value of the wrapper `XDP.program` emits around the guarded body -/
def pass : W := BitVec.ofNat 64 Programs.xdpPass

/-- **reads** (`r_k = var`): the access is covered by the guard; the run exits with PASS and unchanged memory; when
the packet is longer than the guard size the destination register holds exactly `PktVar.readReg` of the variable's
bytes (shorter packets: the program's own out-of-bounds exit, nothing read) -/
def ReadSpec (t : FmtProg) : Prop :=
  t.p + t.n ≤ t.N + 1 ∧
  ∀ (e : Env) (ctx dat : Nat) (s : State) (pkt : List UInt8), PktLayout ctx dat s pkt → ∀ fuel, 16 ≤ fuel →
    ExitsWith (runXdp e t.prog fuel s) pass (fun s' => s'.mem = s.mem ∧
      (t.N < pkt.length → s'.regs t.reg = BitVec.ofNat 64 (readReg (fmtOf t) t.long (slice pkt t.p (t.p + t.n)))))

/-- the bytes the model says a write stores: from a register, a constant, or the in-place sum -/
def newBytes (t : FmtProg) (regs : Nat → W) (pkt : List UInt8) : List UInt8 :=
  if t.kind = 1 then writeBytes (fmtOf t) (regs t.reg).toNat
  else if t.kind = 2 then writeBytes (fmtOf t) (t.arg % 2 ^ 64).toNat
  else iaddBytes (fmtOf t) (slice pkt t.p (t.p + t.n)) t.arg

/-- **writes** (`var = r_k`, `var = const`, `var += const`): when the packet is longer than the guard size the final
memory shows the packet with exactly the model's bytes at the variable's offset and is unchanged everywhere else;
shorter packets: the program's own out-of-bounds exit, memory unchanged -/
def WriteSpec (t : FmtProg) : Prop :=
  t.p + t.n ≤ t.N + 1 ∧
  ∀ (e : Env) (ctx dat : Nat) (s : State) (pkt : List UInt8), PktLayout ctx dat s pkt → ∀ fuel, 16 ≤ fuel →
    ExitsWith (runXdp e t.prog fuel s) pass (fun s' =>
      (t.N < pkt.length → WritePost dat s.mem s'.mem pkt t.p (newBytes t s.regs pkt)) ∧
      (pkt.length ≤ t.N → s'.mem = s.mem))

def Spec (t : FmtProg) : Prop := if t.kind = 0 then ReadSpec t else WriteSpec t

/-! ### lemmas -/

theorem ExitsWith.fuel {e : Env} {prog : List Insn} {s : State} {r : W} {P : State → Prop} (n : Nat)
    (h : ExitsWith (runXdp e prog n s) r P) : ∀ fuel, n ≤ fuel → ExitsWith (runXdp e prog fuel s) r P := by
  intro fuel hf
  obtain ⟨j, rfl⟩ : ∃ j, fuel = n + j := ⟨fuel - n, by omega⟩
  rw [runXdp_add e prog n j s (by intro hc; rw [hc] at h; exact h)]
  exact h

theorem exitsWith_exit (r' r : W) (s' : State) (P : State → Prop) :
    ExitsWith (.exit r' s') r P = (r' = r ∧ P s') := rfl

theorem Shows.load {M : W → BitVec 8} {dat : Nat} {pkt : List UInt8} (h : Shows M dat pkt) (k n : Nat)
    (hk : k + n ≤ pkt.length) : loadN M (BitVec.ofNat 64 (dat + k)) n = decLE (slice pkt k (k + n)) := by
  have hl : (slice pkt k (k + n)).length = n := by rw [length_slice _ _ _ hk]; omega
  have := loadN_bytes (slice pkt k (k + n)) M (dat + k) (by
    intro i hi
    rw [hl] at hi
    have hp := h (k + i) (by omega)
    rw [← Nat.add_assoc] at hp
    rw [hp]
    simp [slice])
  rwa [hl] at this

theorem Shows.load0 {M : W → BitVec 8} {dat : Nat} {pkt : List UInt8} (h : Shows M dat pkt) (n : Nat)
    (hk : n ≤ pkt.length) : loadN M (BitVec.ofNat 64 dat) n = decLE (slice pkt 0 n) := by
  have := h.load 0 n (by omega)
  simpa using this

theorem decLE_slice_bound (q : List UInt8) (k n : Nat) (h : k + n ≤ q.length) : decLE (slice q k (k + n)) < 256 ^ n := by
  have := decLE_lt (slice q k (k + n))
  rwa [length_slice _ _ _ h, Nat.add_sub_cancel_left] at this

/-- a store of `n` bytes at offset `p` of a shown packet -/
theorem store_post {M : W → BitVec 8} {dat : Nat} {pkt : List UInt8} (hs : Shows M dat pkt)
    (hhi : dat + pkt.length ≤ 2 ^ 64) (x p n v : Nat) (bs : List UInt8) (hx : x = dat + p)
    (hp : p + n ≤ pkt.length) (hb : encLE n v = bs) :
    WritePost dat M (storeN M (BitVec.ofNat 64 x) n v) pkt p bs := by
  subst hx hb
  have hlen : (setRange pkt p (encLE n v)).length = pkt.length := length_setRange _ _ _ (by simp; omega)
  refine ⟨?_, ?_⟩
  · intro i hi
    rw [hlen] at hi
    rw [storeN_at n M (dat + p) v (dat + i) (by omega) (by omega)]
    by_cases hin : p ≤ i ∧ i < p + n
    · have h1 : dat + p ≤ dat + i ∧ dat + i < dat + p + n := by omega
      simp only [h1, and_self, if_true]
      have h2 := getElem?_setRange_inside pkt p (encLE n v) (i - p) (by simp; omega) (by simp; omega)
      rw [show p + (i - p) = i by omega, encLE_getElem? n v (i - p) (by omega)] at h2
      rw [(List.getElem_eq_iff _).mpr h2, byte_ofNat, show dat + i - (dat + p) = i - p by omega]
      apply BitVec.eq_of_toNat_eq; simp
    · have h1 : ¬ (dat + p ≤ dat + i ∧ dat + i < dat + p + n) := by omega
      simp only [h1, if_false]
      have h2 := getElem?_setRange_outside pkt p (encLE n v) i (by simp; omega) (by simp; omega)
      rw [List.getElem?_eq_getElem (l := pkt) (by omega)] at h2
      rw [(List.getElem_eq_iff _).mpr h2]; exact hs i hi
  · intro y hy hn
    simp only [length_encLE] at hn
    rw [storeN_at n M _ v y (by omega) hy]
    simp only [hn, if_false]

end Ebv.C07TV
