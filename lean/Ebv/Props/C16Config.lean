import Ebv.Props.C17
import Ebv.Model.SdoConfig
/-! C16, configuration: the mailbox sizes every transfer theorem of `Ebv.Props.C16` is parametrised
by (`Params.outSz`, `Params.inSz`, universally quantified there) are, on a real terminal object, the
ones `parse_sync_managers` extracts from the sync manager table.  For every table — any number of
records in any order, process-data records, unused (all-zero) managers, any upper control bits —
the two mailboxes come out with exactly the offset and size of their own record: the sizes are
independent of each other, in particular they may differ. -/
namespace Ebv.C16
open Ebv.Sdo Ebv.Eeprom Ebv.SdoConfig Ebv.C17

/-- **mailboxes_exact**: the send mailbox is the last record with control nibble 6, the receive
mailbox the last record with control nibble 2, each with its own offset and size -/
theorem mailboxes_exact (es : List SMEntry) (hok : ∀ e ∈ es, e.ok) (io ii : Nat) (eo ei : SMEntry)
    (ho : lastOfKind 6 0 es = some (io, eo)) (hi : lastOfKind 2 0 es = some (ii, ei)) :
    mailboxes (encSMs es) = some ⟨eo.offset, eo.size, ei.offset, ei.size⟩ := by
  unfold mailboxes
  rw [sm_exact es hok]
  simp [smSpec, overlay, ho, hi, area]

/-- **configure_exact**: the transfer parameters carry the send mailbox's size as `outSz` and the
receive mailbox's size as `inSz`, whatever the other one is -/
theorem configure_exact (es : List SMEntry) (hok : ∀ e ∈ es, e.ok) (io ii : Nat) (eo ei : SMEntry)
    (ho : lastOfKind 6 0 es = some (io, eo)) (hi : lastOfKind 2 0 es = some (ii, ei))
    (index : Nat) (sub : Option Nat) :
    configure (encSMs es) index sub = some ⟨eo.size, ei.size, index, sub⟩ := by
  simp [configure, mailboxes_exact es hok io ii eo ei ho hi]

/-- without a record of one of the two kinds there is no mailbox to transfer through -/
theorem configure_none (es : List SMEntry) (hok : ∀ e ∈ es, e.ok)
    (h : lastOfKind 6 0 es = none ∨ lastOfKind 2 0 es = none) (index : Nat) (sub : Option Nat) :
    configure (encSMs es) index sub = none := by
  unfold configure mailboxes
  rw [sm_exact es hok]
  rcases h with h | h
  · simp [smSpec, overlay, h, area]
  · cases h6 : lastOfKind 6 0 es <;> simp [smSpec, overlay, h, h6, area]

/-! non-vacuity: an asymmetric terminal (send mailbox 256 bytes, receive mailbox 32 bytes), records
in the order in / process data / out, followed by an unused manager -/
def exTable : List SMEntry :=
  [⟨0x1400, 32, 0x22, 0, 1, 0⟩, ⟨0x1800, 6, 0x24, 0, 1, 0⟩, ⟨0x1000, 256, 0x26, 0, 1, 0⟩, ⟨0, 0, 0, 0, 0, 0⟩]
example : configure (encSMs exTable) 0x2000 (some 1) = some ⟨256, 32, 0x2000, some 1⟩ := by decide
example : (∀ e ∈ exTable, e.ok) ∧ lastOfKind 6 0 exTable = some (2, ⟨0x1000, 256, 0x26, 0, 1, 0⟩) ∧
    lastOfKind 2 0 exTable = some (0, ⟨0x1400, 32, 0x22, 0, 1, 0⟩) := by decide

end Ebv.C16
