import Ebv.Props.C16
import Ebv.Model.SdoHistory
/-! C16, histories: `Terminal` objects that stay alive and are used again (`Ebv.SdoHistory`).

The transfer theorems of `Ebv.Props.C16` hold for every state the terminal's mailbox service may be in when the
call starts (any counter, any transfer believed to be under way) and every `MailboxLock` counter.  Here they are
put to work on histories — lists of operations of any length on any number of terminals: re-configuration of the
same object with other mailboxes, transfers that fail, transfers cancelled at any bus access, other terminals in
between.

* `xfer_msgs_ok` — whatever happened before and however the call ends (also when it is cancelled): every message
  fits the receive mailbox the terminal has NOW, segment toggles alternate from 0;
* `xfer_write_exact`, `xfer_read_exact` — on every terminal state a download leaves exactly the value in the
  object and returns, an upload returns exactly the object's bytes;
* `history_present_config` — after any history the mailboxes of a terminal are those of the table of its LAST
  configuration;
* `history_write_exact`, `history_read_exact`, `history_msgs_ok` — the three statements after an arbitrary
  history, with the sizes of the last table;
* `instances_independent` — what a history does to one terminal and answers for it is what its own operations
  alone would do: operations on other terminals have no influence;
* `after_any_transfer_exact` — a transfer that follows a failed or cancelled one is exact. -/
namespace Ebv.C16
open Ebv.Bytes Ebv.Sdo Ebv.SdoServer Ebv.SdoSystem Ebv.SdoConfig Ebv.SdoHistory Ebv.Consts

/-! ### the settled run -/

theorem mailsAfter_fix (c : Setup) (k : Nat) (h : round c (mailsAfter c k) = mailsAfter c k) (d : Nat) :
    mailsAfter c (k + d) = mailsAfter c k := by
  unfold mailsAfter at h ⊢
  rw [iter_add, iter_fix _ _ h]

theorem mailsAfter_succ (c : Setup) (j : Nat) : mailsAfter c (j + 1) = round c (mailsAfter c j) := by
  unfold mailsAfter; rw [iter_succ']

/-- `settle` stops at the fixpoint if there is one within its reach -/
theorem settle_eq (c : Setup) (N : Nat) (hfix : round c (mailsAfter c N) = mailsAfter c N) :
    ∀ fuel j, j ≤ N → N ≤ j + fuel → settle c fuel (mailsAfter c j) = mailsAfter c N := by
  intro fuel
  induction fuel with
  | zero =>
    intro j h1 h2
    have : j = N := by omega
    subst this; rfl
  | succ f ih =>
    intro j h1 h2
    simp only [settle]
    by_cases h : round c (mailsAfter c j) = mailsAfter c j
    · rw [if_pos h]
      obtain ⟨d, rfl⟩ : ∃ d, N = j + d := ⟨N - j, by omega⟩
      exact (mailsAfter_fix c j h d).symm
    · rw [if_neg h]
      have hne : j ≠ N := fun e => h (e ▸ hfix)
      rw [← mailsAfter_succ]
      exact ih (j + 1) (by omega) (by omega)

theorem final_eq_system (c : Setup) (N : Nat) (hfix : round c (mailsAfter c N) = mailsAfter c N) (hN : N ≤ rounds c) :
    finalMails c = mailsAfter c N ∧ final c = system c N := by
  have h : finalMails c = mailsAfter c N := settle_eq c N hfix (rounds c) 0 (Nat.zero_le _) (by omega)
  exact ⟨h, by simp only [final, system, h]⟩

theorem confMails_length_le (p : Params) (v : List UInt8) (m stop sc stog : Nat) :
    (confMails p v m stop sc stog).length ≤ m := by
  induction m generalizing stop sc stog with
  | zero => simp [confMails]
  | succ m ih =>
    simp only [confMails]
    split
    · have := ih (min v.length (stop + p.outSz - 9)) (sc % 7 + 1) (stog ^^^ 1)
      simp; omega
    · simp

theorem segMails_length_le (inSz m sc stog : Nat) (rest : List UInt8) : (segMails inSz m sc stog rest).length ≤ m := by
  induction m generalizing sc stog rest with
  | zero => simp [segMails]
  | succ m ih =>
    simp only [segMails]
    split
    · simp
    · have := ih (sc % 7 + 1) (stog ^^^ 1) (rest.drop (inSz - 9))
      simp; omega

theorem le_maxLen (objs : List Obj) (o : Obj) (h : o ∈ objs) : o.val.length ≤ maxLen objs := by
  induction objs with
  | nil => cases h
  | cons x xs ih =>
    simp only [maxLen]
    rcases List.mem_cons.mp h with rfl | h
    · omega
    · have := ih h; omega

theorem holds_mem (p : Params) (objs : List Obj) (o : Obj) (h : Holds p objs o) : o ∈ objs :=
  List.mem_of_find?_eq_some h

/-! ### one transfer on any terminal state -/

/-- the parameters of a call on a terminal with mailboxes `m` -/
def paramsOf (m : Mbx) (index : Nat) (sub : Option Nat) : Params := ⟨m.outSz, m.inSz, index, sub⟩

theorem xferStep_full (tm : Term) (m : Mbx) (index : Nat) (sub : Option Nat) (kind : Kind) (sched : List Slot) :
    (xferStep tm m index sub kind sched none).trace = (final (setupOf tm m index sub kind sched)).trace ∧
    (xferStep tm m index sub kind sched none).outcome = some (final (setupOf tm m index sub kind sched)).outcome ∧
    (xferStep tm m index sub kind sched none).term.objs = (final (setupOf tm m index sub kind sched)).objs :=
  ⟨rfl, rfl, rfl⟩

theorem xferStep_mbx (tm : Term) (m : Mbx) (index : Nat) (sub : Option Nat) (kind : Kind) (sched : List Slot)
    (cut : Option Cut) : (xferStep tm m index sub kind sched cut).term.mbx = tm.mbx := by
  simp only [xferStep]
  cases cut.bind (cutPos _) <;> rfl

/-- **a download on any terminal state**: whatever counter the lock holds, whatever the terminal's mailbox service
was left in (its counter, a transfer it believes to be under way), under every schedule — the call returns and the
object holds exactly the value -/
theorem xfer_write_exact (tm : Term) (m : Mbx) (index : Nat) (sub : Option Nat) (v : List UInt8) (sched : List Slot)
    (o : Obj) (hwf : Wf (paramsOf m index sub)) (hs : SchedOk m.inSz sched)
    (hobj : Holds (paramsOf m index sub) tm.objs o) (hcap : v.length ≤ o.cap) (hv : v.length < 256 ^ 4) :
    (xferStep tm m index sub (.write v) sched none).outcome = some (.ok []) ∧
    objOf (xferStep tm m index sub (.write v) sched none).term.objs index sub = some v ∧
    (xferStep tm m index sub (.write v) sched none).term.mbx = tm.mbx := by
  obtain ⟨_, h2, h3⟩ := xferStep_full tm m index sub (.write v) sched
  have hrun := write_run (paramsOf m index sub) tm.cnt tm.scnt tm.xfer sched tm.objs o v hwf hs hobj hcap hv
  have hlen := confMails_length_le (paramsOf m index sub) v v.length (stop0 (paramsOf m index sub) v) (tm.scnt % 7 + 1) 0
  have hc : setupOf tm m index sub (.write v) sched =
      ⟨paramsOf m index sub, .write v, tm.cnt, sched, tm.objs, tm.scnt, tm.xfer⟩ := rfl
  obtain ⟨_, hfin⟩ := final_eq_system _ _ hrun.1 (by
    simp only [rounds, kindLen, List.length_cons]; omega)
  obtain ⟨a, b, _, _⟩ := hrun.2 _ (Nat.le_refl _)
  refine ⟨?_, ?_, xferStep_mbx _ _ _ _ _ _ _⟩
  · rw [h2, hc, hfin, a]
  · rw [h3, hc, hfin, b]
    simp only [objOf]
    have := find_store tm.objs index (sub.getD 1) sub.isNone o v hobj
    simp only [paramsOf, subOr1] at this ⊢
    rw [this]; rfl

/-- **an upload on any terminal state**: the call returns exactly the bytes the object holds (1..4 bytes expedited,
otherwise in one frame or any number of segments) and the terminal's objects are what they were -/
theorem xfer_read_exact (tm : Term) (m : Mbx) (index : Nat) (sub : Option Nat) (sched : List Slot) (o : Obj)
    (hwf : Wf (paramsOf m index sub)) (hs : SchedOk m.inSz sched)
    (hobj : Holds (paramsOf m index sub) tm.objs o) (hv : o.val.length < 256 ^ 4) :
    (xferStep tm m index sub .read sched none).outcome = some (.ok o.val) ∧
    (xferStep tm m index sub .read sched none).term.objs = tm.objs ∧
    (xferStep tm m index sub .read sched none).term.mbx = tm.mbx := by
  obtain ⟨_, h2, h3⟩ := xferStep_full tm m index sub .read sched
  have hc : setupOf tm m index sub .read sched =
      ⟨paramsOf m index sub, .read, tm.cnt, sched, tm.objs, tm.scnt, tm.xfer⟩ := rfl
  have hmax := le_maxLen tm.objs o (holds_mem _ _ _ hobj)
  by_cases hexp : 1 ≤ o.val.length ∧ o.val.length ≤ 4
  · have hrun := read_exp_run (paramsOf m index sub) tm.cnt tm.scnt tm.xfer sched tm.objs o hwf hs hobj hexp.1 hexp.2
    obtain ⟨_, hfin⟩ := final_eq_system _ _ hrun.1 (by simp only [rounds, kindLen, List.length_cons, List.length_nil]; omega)
    obtain ⟨a, b, _, _⟩ := hrun.2 _ (Nat.le_refl _)
    exact ⟨by rw [h2, hc, hfin, a], by rw [h3, hc, hfin, b], xferStep_mbx _ _ _ _ _ _ _⟩
  · have hrun := read_long_run (paramsOf m index sub) tm.cnt tm.scnt tm.xfer sched tm.objs o hwf hs hobj hexp hv
    have hlen := segMails_length_le (paramsOf m index sub).inSz (o.val.drop ((paramsOf m index sub).inSz - 16)).length
      (tm.scnt % 7 + 1) 0 (o.val.drop ((paramsOf m index sub).inSz - 16))
    obtain ⟨_, hfin⟩ := final_eq_system _ _ hrun.1 (by
      simp only [rounds, kindLen, List.length_cons]
      simp only [List.length_drop] at hlen ⊢
      omega)
    obtain ⟨a, b, _, _⟩ := hrun.2 _ (Nat.le_refl _)
    exact ⟨by rw [h2, hc, hfin, a], by rw [h3, hc, hfin, b], xferStep_mbx _ _ _ _ _ _ _⟩

/-! ### the messages of a call, however it ends -/

/-- what the property says about the messages of one call: each fits the receive mailbox, the segment toggles
alternate from 0 (uploads: command bytes 0x60, 0x70, … after the initiate request; downloads: bit 4 of the command
bytes after the first message) -/
def MsgsOk (p : Params) (kind : Kind) (msgs : List (List UInt8)) : Prop :=
  (∀ m ∈ msgs, m.length ≤ p.outSz) ∧
  (kind = .read → msgs = [] ∨ ∃ k, msgs.map cmdOf = upCmd p :: altCmds k 0) ∧
  (∀ v, kind = .write v → (msgs.drop 1).map togOf = altBits (msgs.length - 1) 0)

theorem sent_take (tr : List Ev) (n : Nat) : ∃ k, sent (tr.take n) = (sent tr).take k := by
  induction tr generalizing n with
  | nil => exact ⟨0, by simp [sent]⟩
  | cons e t ih =>
    cases n with
    | zero => exact ⟨0, by simp [sent]⟩
    | succ n =>
      obtain ⟨k, hk⟩ := ih n
      cases e with
      | send m => exact ⟨k + 1, by simp [sent, hk]⟩
      | st0 f => exact ⟨k, by simp [sent, hk]⟩
      | st1 r => exact ⟨k, by simp [sent, hk]⟩
      | kick => exact ⟨k, by simp [sent, hk]⟩
      | recv => exact ⟨k, by simp [sent, hk]⟩

theorem altCmds_take (n t k : Nat) : (altCmds n t).take k = altCmds (min k n) t := by
  induction n generalizing t k with
  | zero => simp [altCmds]
  | succ n ih =>
    cases k with
    | zero => simp [altCmds]
    | succ k => simp [altCmds, ih, Nat.succ_min_succ]

theorem altBits_take (n b k : Nat) : (altBits n b).take k = altBits (min k n) b := by
  induction n generalizing b k with
  | zero => simp [altBits]
  | succ n ih =>
    cases k with
    | zero => simp [altBits]
    | succ k => simp [altBits, ih, Nat.succ_min_succ]

/-- the messages written up to any point of a call satisfy what all of them satisfy -/
theorem msgsOk_take (p : Params) (kind : Kind) (msgs : List (List UInt8)) (k : Nat) (h : MsgsOk p kind msgs) :
    MsgsOk p kind (msgs.take k) := by
  obtain ⟨h1, h2, h3⟩ := h
  refine ⟨fun m hm => h1 m (List.mem_of_mem_take hm), fun hk => ?_, fun v hk => ?_⟩
  · cases k with
    | zero => left; simp
    | succ k =>
      rcases h2 hk with h | ⟨j, hj⟩
      · left; simp [h]
      · right
        refine ⟨min k j, ?_⟩
        rw [List.map_take, hj, List.take_succ_cons, altCmds_take]
  · have := h3 v hk
    rw [List.drop_take, List.map_take, this, altBits_take, List.length_take]
    congr 1
    omega

/-- **every message of a call fits the mailbox the terminal has now, and the toggles alternate from 0** — for
every state of the terminal object and of the terminal (whatever the history), every kind, value and schedule,
whether the call runs to its end, fails, or is cancelled at any bus access -/
theorem xfer_msgs_ok (tm : Term) (m : Mbx) (index : Nat) (sub : Option Nat) (kind : Kind) (sched : List Slot)
    (cut : Option Cut) (hwf : Wf (paramsOf m index sub)) :
    MsgsOk (paramsOf m index sub) kind (sent (xferStep tm m index sub kind sched cut).trace) := by
  have hfull : MsgsOk (paramsOf m index sub) kind
      (sent (run (paramsOf m index sub) kind tm.cnt (sched.map (·.full)) (finalMails (setupOf tm m index sub kind sched))).1) := by
    cases kind with
    | read =>
      obtain ⟨a, b⟩ := read_requests_fit_and_toggle (paramsOf m index sub) hwf tm.cnt (sched.map (·.full))
        (finalMails (setupOf tm m index sub .read sched))
      refine ⟨fun q hq => (a q hq).2, fun _ => b, ?_⟩
      intro v hv; cases hv
    | write v =>
      obtain ⟨a, b⟩ := write_requests_fit_and_toggle (paramsOf m index sub) hwf v tm.cnt (sched.map (·.full))
        (finalMails (setupOf tm m index sub (.write v) sched))
      refine ⟨a, ?_, ?_⟩
      · intro hk; cases hk
      · intro v' hv'; cases hv'; exact b
  simp only [xferStep]
  cases cut.bind (cutPos _) with
  | none => exact hfull
  | some i =>
    show MsgsOk _ _ (sent ((run (paramsOf m index sub) kind tm.cnt (sched.map (·.full))
      (finalMails (setupOf tm m index sub kind sched))).1.take (i + 1)))
    obtain ⟨k, hk⟩ := sent_take (run (paramsOf m index sub) kind tm.cnt (sched.map (·.full))
      (finalMails (setupOf tm m index sub kind sched))).1 (i + 1)
    rw [hk]
    exact msgsOk_take _ _ _ k hfull

/-! ### histories -/

theorem stepOp_other (w : List Term) (op : Op) (t : Nat) (h : op.term ≠ t) : (stepOp w op).1[t]? = w[t]? := by
  unfold stepOp
  cases w[op.term]? with
  | none => rfl
  | some tm => simp [onTerm, List.getElem?_set_ne h]

theorem stepOp_at (w : List Term) (op : Op) (tm : Term) (h : w[op.term]? = some tm) :
    (stepOp w op).1[op.term]? = some (termStep tm op).1 ∧ (stepOp w op).2 = (termStep tm op).2 := by
  have hlt : op.term < w.length := (List.getElem?_eq_some_iff.mp h).1
  unfold stepOp
  rw [h]
  simp [onTerm, hlt]

theorem stepOp_none (w : List Term) (op : Op) (h : w[op.term]? = none) : stepOp w op = (w, .nothing) := by
  unfold stepOp; rw [h]; rfl

/-- an operation sees of the world only the terminal it is about -/
theorem stepOp_same (w1 w2 : List Term) (op : Op) (h : w1[op.term]? = w2[op.term]?) :
    (stepOp w1 op).2 = (stepOp w2 op).2 ∧ (stepOp w1 op).1[op.term]? = (stepOp w2 op).1[op.term]? := by
  cases h2 : w2[op.term]? with
  | none =>
    rw [stepOp_none w1 op (h.trans h2), stepOp_none w2 op h2]
    exact ⟨rfl, h⟩
  | some tm =>
    obtain ⟨a1, b1⟩ := stepOp_at w1 op tm (h.trans h2)
    obtain ⟨a2, b2⟩ := stepOp_at w2 op tm h2
    exact ⟨b1.trans b2.symm, a1.trans a2.symm⟩

/-- the answers a history gives for terminal `t` -/
def outsFor (t : Nat) (ops : List Op) (outs : List Out) : List Out :=
  ((ops.zip outs).filter (fun x => decide (x.1.term = t))).map (·.2)

theorem independent_aux (t : Nat) : ∀ (ops : List Op) (w1 w2 : List Term), w1[t]? = w2[t]? →
    (runOps w1 ops).1[t]? = (runOps w2 (ops.filter (fun op => decide (op.term = t)))).1[t]? ∧
    outsFor t ops (runOps w1 ops).2 = (runOps w2 (ops.filter (fun op => decide (op.term = t)))).2 := by
  intro ops
  induction ops with
  | nil => intro w1 w2 h; exact ⟨h, rfl⟩
  | cons op ops ih =>
    intro w1 w2 h
    by_cases hop : op.term = t
    · obtain ⟨a, b⟩ := stepOp_same w1 w2 op (by rw [hop]; exact h)
      rw [hop] at b
      obtain ⟨c, d⟩ := ih (stepOp w1 op).1 (stepOp w2 op).1 b
      simp only [List.filter_cons, hop, decide_true, if_true, runOps, outsFor, List.zip_cons_cons]
      exact ⟨c, by rw [a]; exact congrArg _ d⟩
    · have hw : (stepOp w1 op).1[t]? = w2[t]? := (stepOp_other w1 op t hop).trans h
      obtain ⟨c, d⟩ := ih (stepOp w1 op).1 w2 hw
      simp only [List.filter_cons, hop, decide_false, runOps, outsFor, List.zip_cons_cons]
      exact ⟨c, d⟩

/-- **Terminal objects are independent**: what a history — operations on any number of terminals in any order —
does to terminal `t` and answers for it is what the operations on `t` alone do and answer; configuring, using,
failing or cancelling on other terminals has no influence -/
theorem instances_independent (w : List Term) (ops : List Op) (t : Nat) :
    (runOps w ops).1[t]? = (runOps w (ops.filter (fun op => decide (op.term = t)))).1[t]? ∧
    outsFor t ops (runOps w ops).2 = (runOps w (ops.filter (fun op => decide (op.term = t)))).2 :=
  independent_aux t ops w w rfl

theorem termStep_mbx (tm : Term) (op : Op) :
    (termStep tm op).1.mbx = presentMbx tm.mbx op.table := by
  cases op with
  | config t sm => rfl
  | set t i s ca v => rfl
  | xfer t i sub kind sched cut =>
    simp only [termStep, Op.table, presentMbx]
    cases hm : tm.mbx with
    | none => simp [xferOn, hm]
    | some m => simp only [xferOn, xferOut]; rw [xferStep_mbx, hm]

/-- **the present configuration is the last one**: after any history a terminal object that exists has the
mailboxes of the table of its last `config` operation (those it had before, if there was none) — whatever tables it
was configured from earlier, whatever transfers ran, failed or were cancelled in between, on it or on others -/
theorem history_present_config (t : Nat) : ∀ (ops : List Op) (w : List Term) (tm : Term), w[t]? = some tm →
    ∃ tm', (runOps w ops).1[t]? = some tm' ∧ tm'.mbx = presentMbx tm.mbx (lastConfig t ops) := by
  intro ops
  induction ops with
  | nil => intro w tm h; exact ⟨tm, h, rfl⟩
  | cons op ops ih =>
    intro w tm h
    by_cases hop : op.term = t
    · obtain ⟨a, _⟩ := stepOp_at w op tm (by rw [hop]; exact h)
      rw [hop] at a
      obtain ⟨tm', c, d⟩ := ih (stepOp w op).1 _ a
      refine ⟨tm', c, ?_⟩
      rw [d, termStep_mbx]
      simp only [lastConfig, hop, if_true]
      cases lastConfig t ops <;> cases op.table <;> rfl
    · obtain ⟨tm', c, d⟩ := ih (stepOp w op).1 tm ((stepOp_other w op t hop).trans h)
      refine ⟨tm', c, ?_⟩
      rw [d]
      simp only [lastConfig, hop, if_false]
      cases lastConfig t ops <;> rfl

/-- the answer of a transfer operation on a terminal that exists and has mailboxes -/
theorem stepOp_xfer (w : List Term) (t : Nat) (tm : Term) (m : Mbx) (h : w[t]? = some tm) (hm : tm.mbx = some m)
    (index : Nat) (sub : Option Nat) (kind : Kind) (sched : List Slot) (cut : Option Cut) :
    (stepOp w (.xfer t index sub kind sched cut)).2 =
      .xfer (xferStep tm m index sub kind sched cut).trace (xferStep tm m index sub kind sched cut).outcome
        (objOf (xferStep tm m index sub kind sched cut).term.objs index sub) := by
  rw [(stepOp_at w (.xfer t index sub kind sched cut) tm h).2]
  simp only [termStep, hm, xferOn, xferOut]

/-- **a download after any history**: let `ops` be any history from any world, `sm` the table of the last
configuration of terminal `t` in it and `m` its mailboxes.  Then a download to an object the terminal has (with room
for the value) returns, leaves exactly the value in the object, and all its messages fit the receive mailbox of
`m` — earlier tables, earlier transfers (completed, failed, cancelled) and other terminals do not matter -/
theorem history_write_exact (w : List Term) (ops : List Op) (t : Nat) (tm0 tm : Term) (h0 : w[t]? = some tm0)
    (sm : List UInt8) (m : Mbx) (hlast : lastConfig t ops = some sm) (hm : mailboxes sm = some m)
    (htm : (runOps w ops).1[t]? = some tm)
    (index : Nat) (sub : Option Nat) (v : List UInt8) (sched : List Slot) (o : Obj)
    (hwf : Wf (paramsOf m index sub)) (hs : SchedOk m.inSz sched)
    (hobj : Holds (paramsOf m index sub) tm.objs o) (hcap : v.length ≤ o.cap) (hv : v.length < 256 ^ 4) :
    ∃ tr, (stepOp (runOps w ops).1 (.xfer t index sub (.write v) sched none)).2 = .xfer tr (some (.ok [])) (some v) ∧
      MsgsOk (paramsOf m index sub) (.write v) (sent tr) := by
  obtain ⟨tm', c, d⟩ := history_present_config t ops w tm0 h0
  rw [htm] at c
  cases c
  have hmb : tm.mbx = some m := by rw [d, hlast]; exact hm
  obtain ⟨a, b, _⟩ := xfer_write_exact tm m index sub v sched o hwf hs hobj hcap hv
  refine ⟨_, ?_, xfer_msgs_ok tm m index sub (.write v) sched none hwf⟩
  rw [stepOp_xfer _ t tm m htm hmb, a, b]

/-- **an upload after any history** returns exactly the bytes the object holds now -/
theorem history_read_exact (w : List Term) (ops : List Op) (t : Nat) (tm0 tm : Term) (h0 : w[t]? = some tm0)
    (sm : List UInt8) (m : Mbx) (hlast : lastConfig t ops = some sm) (hm : mailboxes sm = some m)
    (htm : (runOps w ops).1[t]? = some tm)
    (index : Nat) (sub : Option Nat) (sched : List Slot) (o : Obj)
    (hwf : Wf (paramsOf m index sub)) (hs : SchedOk m.inSz sched)
    (hobj : Holds (paramsOf m index sub) tm.objs o) (hv : o.val.length < 256 ^ 4) :
    ∃ tr, (stepOp (runOps w ops).1 (.xfer t index sub .read sched none)).2 = .xfer tr (some (.ok o.val)) (some o.val) ∧
      MsgsOk (paramsOf m index sub) .read (sent tr) := by
  obtain ⟨tm', c, d⟩ := history_present_config t ops w tm0 h0
  rw [htm] at c
  cases c
  have hmb : tm.mbx = some m := by rw [d, hlast]; exact hm
  obtain ⟨a, b, _⟩ := xfer_read_exact tm m index sub sched o hwf hs hobj hv
  refine ⟨_, ?_, xfer_msgs_ok tm m index sub .read sched none hwf⟩
  rw [stepOp_xfer _ t tm m htm hmb, a, b]
  have : objOf tm.objs index sub = some o.val := by
    simp only [objOf]
    have h : find tm.objs index (sub.getD 1) sub.isNone = some o := hobj
    rw [h]; rfl
  rw [this]

/-- **every message after any history fits the mailbox of the last configuration**, toggles alternate from 0 —
any kind of transfer, conformant answers or not, run to the end or cancelled anywhere -/
theorem history_msgs_ok (w : List Term) (ops : List Op) (t : Nat) (tm0 : Term) (h0 : w[t]? = some tm0)
    (sm : List UInt8) (m : Mbx) (hlast : lastConfig t ops = some sm) (hm : mailboxes sm = some m)
    (index : Nat) (sub : Option Nat) (kind : Kind) (sched : List Slot) (cut : Option Cut)
    (hwf : Wf (paramsOf m index sub)) :
    ∃ tr oc ob, (stepOp (runOps w ops).1 (.xfer t index sub kind sched cut)).2 = .xfer tr oc ob ∧
      MsgsOk (paramsOf m index sub) kind (sent tr) := by
  obtain ⟨tm, c, d⟩ := history_present_config t ops w tm0 h0
  have hmb : tm.mbx = some m := by rw [d, hlast]; exact hm
  exact ⟨_, _, _, stepOp_xfer _ t tm m c hmb index sub kind sched cut, xfer_msgs_ok tm m index sub kind sched cut hwf⟩

/-- **a failed or cancelled transfer leaves the state the next one expects**: after ANY transfer operation on a
terminal — it may have been aborted by the terminal, have failed on a malformed answer, or have been cancelled at
any bus access — a download to an object the terminal has then is exact, and so is an upload -/
theorem after_any_transfer_exact (tm : Term) (m : Mbx) (hm : tm.mbx = some m) (X : Op) (hX : X.table = none)
    (index : Nat) (sub : Option Nat) (sched : List Slot) (o : Obj)
    (hwf : Wf (paramsOf m index sub)) (hs : SchedOk m.inSz sched)
    (hobj : Holds (paramsOf m index sub) (termStep tm X).1.objs o) :
    (∀ v : List UInt8, v.length ≤ o.cap → v.length < 256 ^ 4 →
      (xferStep (termStep tm X).1 m index sub (.write v) sched none).outcome = some (.ok []) ∧
      objOf (xferStep (termStep tm X).1 m index sub (.write v) sched none).term.objs index sub = some v) ∧
    (o.val.length < 256 ^ 4 →
      (xferStep (termStep tm X).1 m index sub .read sched none).outcome = some (.ok o.val)) ∧
    (termStep tm X).1.mbx = some m := by
  refine ⟨fun v hcap hv => ?_, fun hv => ?_, ?_⟩
  · obtain ⟨a, b, _⟩ := xfer_write_exact (termStep tm X).1 m index sub v sched o hwf hs hobj hcap hv
    exact ⟨a, b⟩
  · exact (xfer_read_exact (termStep tm X).1 m index sub sched o hwf hs hobj hv).1
  · rw [termStep_mbx, hX]; exact hm

/-! ## non-vacuity: a history with two terminals, a re-configuration with smaller mailboxes at other addresses, a
cancelled and a failed transfer; the hypotheses of the theorems hold on it and the transfers do what they say -/

def tbl (oo os io is : Nat) : List UInt8 :=
  encLE 2 oo ++ encLE 2 os ++ [0x26, 0, 1, 0] ++ encLE 2 io ++ encLE 2 is ++ [0x22, 0, 1, 0]
def exVal (n : Nat) : List UInt8 := (List.range n).map fun i => UInt8.ofNat (7 * i + 3)
def exWorld : List Term :=
  [⟨none, 0, [⟨0x2000, 1, false, 64, [1, 2]⟩], 1, .idle⟩, ⟨none, 5, [⟨0x2000, 1, false, 64, []⟩], 1, .idle⟩]
def exOps : List Op :=
  [.config 0 (tbl 0x1000 64 0x1400 64), .config 1 (tbl 0x1000 24 0x1400 24),
   .xfer 0 0x2000 (some 1) (.write (exVal 60)) [] none,             -- 48 + 12 bytes through the 64-byte mailbox
   .config 0 (tbl 0x1080 24 0x1200 32),                             -- the same object gets smaller mailboxes
   .xfer 0 0x2000 (some 1) (.write (exVal 30)) [] (some ⟨2, 1⟩),    -- cancelled after the second answer: 8 + 15 bytes there
   .xfer 1 0x2000 (some 1) (.write (exVal 9)) [] none,
   .xfer 0 0x2ee0 (some 1) .read [] none]                           -- fails: no such object

example : lastConfig 0 exOps = some (tbl 0x1080 24 0x1200 32) ∧
    mailboxes (tbl 0x1080 24 0x1200 32) = some ⟨0x1080, 24, 0x1200, 32⟩ ∧
    Wf (paramsOf ⟨0x1080, 24, 0x1200, 32⟩ 0x2000 (some 1)) := by
  refine ⟨by decide, by decide, by unfold Wf subOr1; decide⟩
/-- the cancelled download left the terminal in the middle of a transfer, the failed upload was answered with an abort -/
example : ((runOps exWorld exOps).2.map fun o => match o with | .xfer _ oc _ => oc | _ => none) =
      [none, none, some (.ok []), none, none, some (.ok []), some (.err .ethercat)] ∧
    ((runOps exWorld exOps).1.map (·.xfer)) = [.idle, .idle] ∧
    ((runOps exWorld (exOps.take 5)).1.map (·.xfer)) =
      [.down 0x2000 1 false 30 (exVal 23) 1, .idle] := by decide +kernel
/-- then 40 bytes go down in 8 + 15 + 15 + 2 through the 24-byte mailbox, toggles 0, 1, 0, and come up again -/
example : (stepOp (runOps exWorld exOps).1 (.xfer 0 0x2000 (some 1) (.write (exVal 40)) [] none)).2 =
      .xfer (xferStep ((runOps exWorld exOps).1.getD 0 ⟨none, 0, [], 0, .idle⟩) ⟨0x1080, 24, 0x1200, 32⟩ 0x2000 (some 1)
        (.write (exVal 40)) [] none).trace (some (.ok [])) (some (exVal 40)) ∧
    (sent (xferStep ((runOps exWorld exOps).1.getD 0 ⟨none, 0, [], 0, .idle⟩) ⟨0x1080, 24, 0x1200, 32⟩ 0x2000 (some 1)
        (.write (exVal 40)) [] none).trace).map (·.length) = [24, 24, 24, 16] := by decide +kernel

end Ebv.C16
