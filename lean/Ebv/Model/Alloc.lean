import Ebv.Generated.Consts
/-! Model of process-data allocation for one sync group and of the logical address
windows of one master (ebpfcat/ebpfcat.py `SyncGroupBase.allocate`, `EBPFTerminal.allocate`,
`SterilePacket.append/append_writer/append_fmmu`, `ParallelEtherCat.get_fmmu_addr`;
ebpfcat/terminals.py `AerotechBase.allocate`; ebpfcat/ethercat.py `Packet.append`,
`EtherCat.get_fmmu_addr`; ebpfcat/lock.py `FMMULock.get_next_addr`).

A terminal's `allocate` is read as the straight-line script of primitive actions it performs on
the packet (`termOps`); `runOps` executes them, `OverflowError` is `none`.  The size and
position accounting of `Packet.append` is modelled here (datagram `k` starts at
`PACKET_HEADER + Σ_{j<k} (len_j + DATAGRAM_HEADER + DATAGRAM_TAIL)`); the bytes of the assembled
frame belong to C11. -/
namespace Ebv.Alloc
open Ebv.Consts

/-- which `allocate` a terminal has -/
inductive Kind where
  | fmmu                              -- EBPFTerminal.allocate, use_fmmu = True
  | direct                            -- EBPFTerminal.allocate, use_fmmu = False
  | aero (inSize outSize : Nat)       -- AerotechBase.allocate with class variables in_size, out_size
deriving DecidableEq, Repr

structure Term where
  position : Nat
  inSz : Nat          -- pdo_in_sz
  outSz : Nat         -- pdo_out_sz
  inOff : Nat         -- pdo_in_off
  outOff : Nat        -- pdo_out_off
  rw : Bool           -- the readwrite flag the sync group passes
  kind : Kind
deriving DecidableEq, Repr

/-- one entry of `Packet.data`: `(cmd, data, wkc, idx=0) + address`, data = `len` copies of `fill` -/
structure Dgram where
  cmd : Nat
  len : Nat
  fill : Nat
  counter : Nat
  addr : List Nat     -- [position, offset] or [logical address]
deriving DecidableEq, Repr

/-- the state of a `SterilePacket` -/
structure Pkt where
  dgrams : List Dgram
  size : Nat
  onTheFly : List (Nat × Nat × Nat)     -- (start, stop, cmd)
  counters : List (Nat × Nat)           -- counters[size - 2] = counter
  fmmuInSize : Nat
  fmmuOutSize : Nat
  fmmuInCount : Nat
  fmmuOutCount : Nat
deriving DecidableEq, Repr

def Pkt.empty : Pkt := ⟨[], PACKET_HEADER, [], [], 0, 0, 0, 0⟩

/-- the unconditional part of `SterilePacket.append` over `Packet.append`:
`data.append(...)`, `size = newsize`, `counters[size - 2] = counter` -/
def Pkt.push (p : Pkt) (d : Dgram) : Pkt :=
  let newsize := p.size + d.len + DATAGRAM_HEADER + DATAGRAM_TAIL
  { p with dgrams := p.dgrams ++ [d], size := newsize,
           counters := p.counters ++ [(newsize - 2, d.counter)] }

/-- the unconditional part of `SterilePacket.append_writer` -/
def Pkt.pushWriter (p : Pkt) (d : Dgram) : Pkt :=
  let q := p.push d
  { q with onTheFly := q.onTheFly ++ [(p.size, q.size, d.cmd)] }

/-- `SterilePacket.append` over `Packet.append`; `none` = OverflowError.  The code tests
`len(self.data) > 14` before appending; `MAX_DATAGRAMS` (= 15, probed) is the number of appends
that succeed, so the test is `len + 1 > MAX_DATAGRAMS`. -/
def Pkt.append (p : Pkt) (d : Dgram) : Option Pkt :=
  let newsize := p.size + d.len + DATAGRAM_HEADER + DATAGRAM_TAIL
  if newsize > MAXSIZE then none
  else if p.dgrams.length + 1 > MAX_DATAGRAMS then none
  else some (p.push d)

/-- `SterilePacket.append_writer` -/
def Pkt.appendWriter (p : Pkt) (d : Dgram) : Option Pkt :=
  match p.append d with
  | none => none
  | some _ => some (p.pushWriter d)

inductive Base where
  | noFmmu | fmmuIn | fmmuOut
deriving DecidableEq, Repr

/-- one entry of the `bases` dict a terminal returns, `bases[sm] = (base, off)`, together with the
number of bytes `n` the same action reserved (advance of `fmmu_*_size` / data length of the datagram) -/
structure Claim where
  sm : Nat
  base : Base
  off : Nat
  n : Nat
deriving DecidableEq, Repr

/-- the primitive actions of the `allocate` methods -/
inductive Op where
  | fmmuIn (n : Nat)                  -- bases[IN] = (FMMU_IN, fmmu_in_size); fmmu_in_size += n; fmmu_in_count += 1
  | fmmuOut (n : Nat)                 -- bases[OUT] = (FMMU_OUT, fmmu_out_size); fmmu_out_size += n; fmmu_out_count += 1
  | directIn (d : Dgram)              -- bases[IN] = (NO_FMMU, size); packet.append(d)
  | directOut (d : Dgram)             -- bases[OUT] = (NO_FMMU, size); packet.append_writer(d)
  | extra (d : Dgram) (writer : Bool) -- a datagram that carries no region (Aerotech's one-byte tail access)
deriving DecidableEq, Repr

def wantsIn (t : Term) : Bool := t.inSz != 0
def wantsOut (t : Term) : Bool := t.rw && t.outSz != 0

def opsIf (c : Bool) (ops : List Op) : List Op := if c then ops else []

/-- the script of `EBPFTerminal.allocate` / `AerotechBase.allocate` -/
def termOps (t : Term) : List Op :=
  match t.kind with
  | .fmmu =>
    opsIf (wantsIn t) [.fmmuIn t.inSz] ++ opsIf (wantsOut t) [.fmmuOut t.outSz]
  | .direct =>
    opsIf (wantsIn t) [.directIn ⟨cmd_FPRD, t.inSz, 0, 1, [t.position, t.inOff]⟩] ++
    opsIf (wantsOut t) [.directOut ⟨cmd_FPWR, t.outSz, 0, 1, [t.position, t.outOff]⟩]
  | .aero inSize outSize =>
    opsIf (wantsIn t) [.fmmuIn inSize,
                       .extra ⟨cmd_FPRD, 1, 48, 1, [t.position, t.inOff + t.inSz - 1]⟩ false] ++
    opsIf (wantsOut t) [.directOut ⟨cmd_FPWR, outSize, 0, 1, [t.position, t.outOff]⟩,
                        .extra ⟨cmd_FPWR, 1, 51, 1, [t.position, t.outOff + t.outSz - 1]⟩ true]

/-- effect of one action on the packet -/
def opPkt (op : Op) (p : Pkt) : Option Pkt :=
  match op with
  | .fmmuIn n => some { p with fmmuInSize := p.fmmuInSize + n, fmmuInCount := p.fmmuInCount + 1 }
  | .fmmuOut n => some { p with fmmuOutSize := p.fmmuOutSize + n, fmmuOutCount := p.fmmuOutCount + 1 }
  | .directIn d => p.append d
  | .directOut d => p.appendWriter d
  | .extra d w => if w then p.appendWriter d else p.append d

/-- the `bases` entry one action makes, in the packet state it is executed in -/
def opClaim (op : Op) (p : Pkt) : List Claim :=
  match op with
  | .fmmuIn n => [⟨sm_IN, .fmmuIn, p.fmmuInSize, n⟩]
  | .fmmuOut n => [⟨sm_OUT, .fmmuOut, p.fmmuOutSize, n⟩]
  | .directIn d => [⟨sm_IN, .noFmmu, p.size, d.len⟩]
  | .directOut d => [⟨sm_OUT, .noFmmu, p.size, d.len⟩]
  | .extra _ _ => []

def runOps : List Op → Pkt → Option (Pkt × List Claim)
  | [], p => some (p, [])
  | op :: ops, p =>
    match opPkt op p with
    | none => none
    | some p1 =>
      match runOps ops p1 with
      | none => none
      | some (p2, cs) => some (p2, opClaim op p ++ cs)

/-- `t.allocate(packet, rw)`: the new packet state and the `bases` dict -/
def termAlloc (t : Term) (p : Pkt) : Option (Pkt × List Claim) := runOps (termOps t) p

/-- `{t: t.allocate(self.packet, rw) for t, rw in self.terminals.items()}` -/
def allocTerms : List Term → Pkt → Option (Pkt × List (List Claim))
  | [], p => some (p, [])
  | t :: ts, p =>
    match termAlloc t p with
    | none => none
    | some (p1, b) =>
      match allocTerms ts p1 with
      | none => none
      | some (p2, bs) => some (p2, b :: bs)

/-- the result of `SterilePacket.append_fmmu` -/
structure FmmuPos where
  pkt : Pkt
  inPos : Nat
  outPos : Nat
  logIn : Nat
  logOut : Nat
deriving DecidableEq, Repr

def appendFmmu (la : Nat) (p : Pkt) : Option FmmuPos :=
  match (if p.fmmuInSize ≠ 0 then p.append ⟨cmd_LRD, p.fmmuInSize, 0, p.fmmuInCount, [la]⟩ else some p) with
  | none => none
  | some p1 =>
    match (if p1.fmmuOutSize ≠ 0
           then p1.appendWriter ⟨cmd_LWR, p1.fmmuOutSize, 0, p1.fmmuOutCount, [la + logical_addr_inc]⟩
           else some p1) with
    | none => none
    | some p2 => some ⟨p2, p.size, p1.size, la, la + logical_addr_inc⟩

/-- one process-data region as the sync group publishes it:
`pdo_assign[t][sm] = start`, `fmmu_maps[t][sm] = logical` (absent for NO_FMMU) -/
structure Region where
  sm : Nat
  base : Base
  start : Nat
  n : Nat
  logical : Option Nat
deriving DecidableEq, Repr

def frameOff (f : FmmuPos) : Base → Nat
  | .noFmmu => 0
  | .fmmuIn => f.inPos
  | .fmmuOut => f.outPos

def logicalOff (f : FmmuPos) : Base → Option Nat
  | .noFmmu => none
  | .fmmuIn => some f.logIn
  | .fmmuOut => some f.logOut

def place (f : FmmuPos) (c : Claim) : Region :=
  ⟨c.sm, c.base, frameOff f c.base + c.off + DATAGRAM_HEADER, c.n, (logicalOff f c.base).map (· + c.off)⟩

structure Out where
  regions : List (List Region)      -- per terminal, in the order of `self.terminals`
  f : FmmuPos
deriving DecidableEq, Repr

def finish (p : Pkt) (bs : List (List Claim)) (la : Nat) : Option Out :=
  match appendFmmu la p with
  | none => none
  | some f => some ⟨bs.map (·.map (place f)), f⟩

/-- `SyncGroupBase.allocate` with `ec.get_fmmu_addr()` returning `la`; `none` = OverflowError -/
def allocate (ts : List Term) (la : Nat) : Option Out :=
  match allocTerms ts Pkt.empty with
  | none => none
  | some (p, bs) => finish p bs la

/-! ### the master's logical address windows -/

/-- `EtherCat.next_logical_addr` / `FMMULock.base_addr` and the step `get_fmmu_addr` adds -/
structure Master where
  next : Nat
  inc : Nat
deriving DecidableEq, Repr

/-- `get_fmmu_addr()`: `self.next_logical_addr += inc; return self.next_logical_addr` -/
def Master.getFmmuAddr (m : Master) : Nat × Master := (m.next + m.inc, { m with next := m.next + m.inc })

/-- `EtherCat(...)` with `next_logical_addr = a0` -/
def Master.simple (a0 : Nat) : Master := ⟨a0, fmmu_window_inc⟩
/-- `ParallelEtherCat` whose `FMMULock` has `base_addr = a0` -/
def Master.parallel (a0 : Nat) : Master := ⟨a0, fmmu_lock_inc⟩

/-- several sync groups allocated one after the other on one master.  A group whose terminals
already overflow the frame raises before `get_fmmu_addr` is called and consumes no window. -/
def allocGroups : List (List Term) → Master → List (Option Out)
  | [], _ => []
  | g :: gs, m =>
    match allocTerms g Pkt.empty with
    | none => none :: allocGroups gs m
    | some (p, bs) => finish p bs (m.getFmmuAddr).1 :: allocGroups gs (m.getFmmuAddr).2

/-! ### positions inside the frame -/

/-- frame offset at which datagram `k` of the list begins (its command byte) -/
def dgramPos (ds : List Dgram) (k : Nat) : Nat :=
  PACKET_HEADER + ((ds.take k).map fun d => d.len + DATAGRAM_HEADER + DATAGRAM_TAIL).sum

/-- first byte of the data area of datagram `k` -/
def dataStart (ds : List Dgram) (k : Nat) : Nat := dgramPos ds k + DATAGRAM_HEADER

end Ebv.Alloc
