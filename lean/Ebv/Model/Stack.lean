import Ebv.Model.Bytes
/-! Model of the stack layout rules of the generator (ebpfcat/ebpf.py `LocalVar.__set_name__`,
`LocalVar.fmt_addr`, `EBPF.get_stack`; ebpfcat/hashmap.py `Dict.__set_name__`): offsets are
relative to the frame pointer r10 and negative.  `x & -s` for a power of two `s` is modelled as
rounding down to a multiple of `s`. -/
namespace Ebv.Stack

/-- `x & -s` for `s` a power of two: the largest multiple of `s` not above `x` -/
def alignDown (x : Int) (s : Nat) : Int := x - x % (s : Int)

inductive Decl where
  | loc (size : Nat)                       -- LocalVar of a 1/2/4/8-byte format
  | dict (keySize valueSize : Nat)         -- Dict(Key, Value): key image and value image, 8-aligned
deriving Repr, DecidableEq

structure Slot where
  addr : Int
  size : Nat
deriving Repr, DecidableEq

/-- class-body evaluation: each declaration moves `stack` down; returns the slots in declaration order -/
def alloc : Int → List Decl → List Slot × Int
  | stack, [] => ([], stack)
  | stack, .loc size :: ds =>
    let a := alignDown (stack - size) size
    let (r, s') := alloc a ds
    (⟨a, size⟩ :: r, s')
  | stack, .dict k v :: ds =>
    let ka := alignDown (stack - k) 8
    let va := alignDown (ka - v) 8
    let (r, s') := alloc va ds
    (⟨ka, k⟩ :: ⟨va, v⟩ :: r, s')

/-- `get_stack(size)`: a temporary below the current stack -/
def getStack (stack : Int) (size : Nat) : Int := alignDown (stack - size) size

/-- address of a subprogram's local: `(ebpf.stack & -8) + relative_addr`, evaluated at use time -/
def subAddr (mainStack : Int) (rel : Int) : Int := alignDown mainStack 8 + rel

def Slot.disjoint (a b : Slot) : Prop := a.addr + a.size ≤ b.addr ∨ b.addr + b.size ≤ a.addr

instance (a b : Slot) : Decidable (Slot.disjoint a b) := by unfold Slot.disjoint; infer_instance

def wfDecl : Decl → Bool
  | .loc s => s = 1 || s = 2 || s = 4 || s = 8
  | .dict _ _ => true

/-! ### declared variables and what assignments do to them

The variables the property speaks about: every local variable, every *member* of every Dict's key and
value structure (addressed by the generated code at `r10 + addr_offset + relative_addr`, where
`addr_offset` is the key/value offset of *that* Dict, also when two Dicts use one Structure class), and
the array-map / hash-map variables, which are cells of maps of their own (C08, C09).  A statement
evaluates an expression over the variables, may write `get_stack` temporaries on the way (the key of
a hash-map variable, a widened operand) and stores the result into its target. -/

/-- declarations with the member sizes of a Dict's key and value structure (packed, in order) -/
inductive VDecl where
  | loc (size : Nat)
  | dict (keyMembers valMembers : List Nat)
deriving Repr, DecidableEq

/-- `Member.__set_name__`: members packed from `pos` on; the slot of each, relative to `base` -/
def memberSlots (base : Int) : Nat → List Nat → List Slot
  | _, [] => []
  | pos, s :: ss => ⟨base + pos, s⟩ :: memberSlots base (pos + s) ss

/-- the slots of all stack variables in declaration order (members instead of whole images), and the final `stack` -/
def varSlots : Int → List VDecl → List Slot × Int
  | stack, [] => ([], stack)
  | stack, .loc size :: ds =>
    let a := alignDown (stack - size) size
    (⟨a, size⟩ :: (varSlots a ds).1, (varSlots a ds).2)
  | stack, .dict k v :: ds =>
    let ka := alignDown (stack - k.sum) 8
    let va := alignDown (ka - v.sum) 8
    (memberSlots ka 0 k ++ memberSlots va 0 v ++ (varSlots va ds).1, (varSlots va ds).2)

abbrev Mem := Int → UInt8

def storeBytes (m : Mem) (a : Int) (bs : List UInt8) : Mem :=
  fun x => if a ≤ x ∧ x < a + bs.length then bs.getD (x - a).toNat 0 else m x

def loadBytes (m : Mem) (sl : Slot) : List UInt8 := (List.range sl.size).map fun (i : Nat) => m (sl.addr + (i : Int))

/-- a declared variable: bytes of the stack frame, or a cell of a map of its own -/
inductive Var where
  | stack (sl : Slot)
  | cell (id : Nat) (size : Nat)
deriving Repr, DecidableEq

def Var.size : Var → Nat
  | .stack sl => sl.size
  | .cell _ n => n

structure State where
  mem : Mem
  cells : Nat → Nat

def State.read (s : State) : Var → Nat
  | .stack sl => Ebv.Bytes.decLE (loadBytes s.mem sl)
  | .cell id _ => s.cells id

/-- a store of the variable's width: the low bytes of the value -/
def State.write (s : State) : Var → Nat → State
  | .stack sl, x => { s with mem := storeBytes s.mem sl.addr (Ebv.Bytes.encLE sl.size x) }
  | .cell id n, x => { s with cells := fun k => if k = id then x % 256 ^ n else s.cells k }

inductive Rhs where
  | const (v : Nat)
  | copy (src add : Nat)        -- `tgt = src + add`
  | sum (a b : Nat)             -- `tgt = a + b`
deriving Repr, DecidableEq

structure Stmt where
  target : Option Nat                    -- `none`: evaluated for its value only (`Dict.update()`, a read-out)
  rhs : Rhs
  temps : List (Nat × List UInt8)        -- sizes and contents of the nested `get_stack` temporaries used on the way
deriving Repr

/-- nested `get_stack` temporaries below `stack`, each written with (the first `n` bytes of) its content -/
def writeTemps : Int → List (Nat × List UInt8) → Mem → Mem
  | _, [], m => m
  | stack, (n, bs) :: ts, m =>
    writeTemps (getStack stack n) ts (storeBytes m (getStack stack n) ((bs ++ List.replicate n 0).take n))

def evalRhs (rd : Nat → Nat) : Rhs → Nat
  | .const v => v
  | .copy s a => rd s + a
  | .sum a b => rd a + rd b

/-- the value of variable number `i` in a state -/
def readVar (vars : List Var) (s : State) (i : Nat) : Nat :=
  match vars[i]? with
  | some v => s.read v
  | none => 0

/-- the generated code of one statement: temporaries below `final`, operands read, result stored -/
def execStmt (vars : List Var) (final : Int) (s : State) (st : Stmt) : State :=
  let s1 : State := { s with mem := writeTemps final st.temps s.mem }
  let x := evalRhs (readVar vars s1) st.rhs
  match st.target.bind (vars[·]?) with
  | some v => s1.write v x
  | none => s1

def execAll (vars : List Var) (final : Int) : State → List Stmt → State
  | s, [] => s
  | s, st :: sts => execAll vars final (execStmt vars final s st) sts

/-- what the property says a statement does: the target takes the (truncated) value, nothing else changes -/
def shadowStmt (vars : List Var) (σ : Nat → Nat) (st : Stmt) : Nat → Nat :=
  match st.target with
  | none => σ
  | some t =>
    match vars[t]? with
    | some v => fun i => if i = t then evalRhs σ st.rhs % 256 ^ v.size else σ i
    | none => σ

def shadowAll (vars : List Var) : (Nat → Nat) → List Stmt → (Nat → Nat)
  | σ, [] => σ
  | σ, st :: sts => shadowAll vars (shadowStmt vars σ st) sts

end Ebv.Stack
