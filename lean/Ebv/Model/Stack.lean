/-! Model of the stack layout rules of the generator (ebpfcat/ebpf.py `LocalVar.__set_name__`,
`LocalVar.fmt_addr`, `EBPF.get_stack`; ebpfcat/hashmap.py `Dict.__set_name__`): offsets are
relative to the frame pointer r10 and negative.  `x & -s` for a power of two `s` is modelled as
rounding down to a multiple of `s`. -/
namespace Ebv.Stack

/-- `x & -s` for `s` a power of two: the largest multiple of `s` not above `x` -/
def alignDown (x : Int) (s : Nat) : Int := x - x % (s : Int)

inductive Decl where
  | loc (size : Nat)                       -- LocalVar of a 1/2/4/8-byte format
  | dict (keySize valueSize : Nat)         -- Dict(Key, Value): key image and value image, 8-aligned
deriving Repr, DecidableEq

structure Slot where
  addr : Int
  size : Nat
deriving Repr, DecidableEq

/-- class-body evaluation: each declaration moves `stack` down; returns the slots in declaration order -/
def alloc : Int → List Decl → List Slot × Int
  | stack, [] => ([], stack)
  | stack, .loc size :: ds =>
    let a := alignDown (stack - size) size
    let (r, s') := alloc a ds
    (⟨a, size⟩ :: r, s')
  | stack, .dict k v :: ds =>
    let ka := alignDown (stack - k) 8
    let va := alignDown (ka - v) 8
    let (r, s') := alloc va ds
    (⟨ka, k⟩ :: ⟨va, v⟩ :: r, s')

/-- `get_stack(size)`: a temporary below the current stack -/
def getStack (stack : Int) (size : Nat) : Int := alignDown (stack - size) size

/-- address of a subprogram's local: `(ebpf.stack & -8) + relative_addr`, evaluated at use time -/
def subAddr (mainStack : Int) (rel : Int) : Int := alignDown mainStack 8 + rel

def Slot.disjoint (a b : Slot) : Prop := a.addr + a.size ≤ b.addr ∨ b.addr + b.size ≤ a.addr

instance (a b : Slot) : Decidable (Slot.disjoint a b) := by unfold Slot.disjoint; infer_instance

def wfDecl : Decl → Bool
  | .loc s => s = 1 || s = 2 || s = 4 || s = 8
  | .dict _ _ => true

end Ebv.Stack
