import Ebv.Generated.Consts
/-! Model of the buffers the library hands to `bpf()` for map commands
(ebpfcat/bpf.py `create_map/_lookup_elem/update_elem/delete_elem/get_next_key`,
ebpfcat/arraymap.py `ArrayMap.create_map`, `PerCPUArrayMap.create_map`, `PerCPUReader.read`,
ebpfcat/hashmap.py `HashMap.init/load`, `HashGlobalVarDesc.__get__/__set__`, `Dict.init`,
`TheDict.__setitem__/__getitem__/pop/__delitem__/__iter__`,
ebpfcat/ebpfcat.py `FastEtherCat.connect/register_sync_group`).

For every API entry point: the list of `(cmd, keyLen, valueLen)` it issues, as a function
of the declaration (variable sizes, structure member sizes, number of possible CPUs), and
the geometry given to `create_map`.  Numbers that are literals of /repo are the regenerated
`Ebv.Consts` (probed on the real entry points on every run). -/
namespace Ebv.MapCalls
open Ebv.Consts

/-- `((position + 7) // 8) * 8` -/
def roundUp8 (n : Nat) : Nat := (n + 7) / 8 * 8

/-- size of one struct code (`struct.calcsize` of a single code) -/
def codeSize : Char → Option Nat
  | 'b' | 'B' | 's' | 'x' | '?' | 'c' => some 1
  | 'h' | 'H' | 'e' => some 2
  | 'i' | 'I' | 'f' => some 4
  | 'q' | 'Q' | 'd' => some 8
  | _ => none

/-- `ebpf.fmtsize` for the formats `[count]code` and the fixed-point `"x"` -/
def fmtsize (s : String) : Option Nat :=
  if s = "x" then some 8 else
  match s.toList.reverse with
  | [] => some 0
  | c :: rd => do
    let sz ← codeSize c
    let n ← if rd = [] then some 1 else (String.ofList rd.reverse).toNat?
    pure (n * sz)

structure Geometry where
  mapType : Nat
  keySize : Nat
  valueSize : Nat
  maxEntries : Nat
  flags : Nat
deriving Repr, DecidableEq

/-- one map command: `keyLen = none` is a NULL key pointer, `valueLen = none` a command without
value pointer; for `BPF_MAP_GET_NEXT_KEY` `valueLen` is the length of the `next_key` buffer -/
structure Call where
  cmd : Nat
  keyLen : Option Nat
  valueLen : Option Nat
deriving Repr, DecidableEq

/-- what is declared in the program class -/
inductive Decl where
  | array (sizes : List Nat)                    -- `ArrayMap` with `globalVar`s of these `fmtsize`s
  | percpu (sizes : List Nat)                   -- `PerCPUArrayMap`
  | hashVars (sizes : List Nat)                 -- `HashMap` with one `globalVar` per entry (its format's size)
  | dict (keySizes valSizes : List Nat) (size : Nat) (lru : Bool)   -- `Dict(Key, Value, size, lru)`
  | progArray                                   -- `FastEtherCat.programs`
deriving Repr

/-- calls of the library's Python API (environment-dependent facts are parameters) -/
inductive Api where
  | load                                        -- `EBPF.load()` → every map's `load`
  | arraySet (i : Nat) | arrayGet (i : Nat)     -- `ArrayGlobalVarDesc.__set__/__get__` through the mmap
  | percpuRead                                  -- `PerCPUReader.read`
  | percpuItem (i cpu : Nat)                    -- `PerCPUVar.__getitem__` on the data read before
  | hvGet (i : Nat) | hvSet (i : Nat)           -- `HashGlobalVarDesc.__get__/__set__` of the i-th variable
  | hvLoad                                      -- `HashMap.load`
  | dSet | dGet | dPop | dDel                   -- `TheDict.__setitem__/__getitem__/pop/__delitem__`
  | dIter (entries : Nat)                       -- `list(table)` when the map holds `entries` keys
  | register (occupied : Nat)
      -- `with register_sync_group(sg)` when `randrange` hits `occupied` used slots before a free one:
      -- one lookup per slot tried, the update, and the delete when the `with` block is left
deriving Repr

def mapSize (sizes : List Nat) : Nat := roundUp8 sizes.sum

/-- arguments of `create_map`; `none`: no map is created (`if not self.size: return`) -/
def geometry : Decl → Option Geometry
  | .array s => if mapSize s = 0 then none else some ⟨mt_ARRAY, arr_key_size, mapSize s, arr_max_entries, mf_MMAPABLE⟩
  | .percpu s => if mapSize s = 0 then none else some ⟨mt_PERCPU_ARRAY, arr_key_size, mapSize s, arr_max_entries, 0⟩
  | .hashVars s => some ⟨mt_HASH, hv_key_size, hv_value_size, s.length, 0⟩
  | .dict ks vs size lru => some ⟨if lru then mt_LRU_HASH else mt_HASH, ks.sum, vs.sum, size, 0⟩
  | .progArray => some ⟨mt_PROG_ARRAY, prog_key_size, prog_value_size, prog_max_entries, 0⟩

/-- length given to `mmap(fd, self.size)` -/
def mmapLen : Decl → Option Nat
  | .array s => if mapSize s = 0 then none else some (mapSize s)
  | _ => none

def hvGetCall : Call := ⟨bpf_LOOKUP, some hv_key_len, some hv_get_len⟩
def hvSetCall : Call := ⟨bpf_UPDATE, some hv_key_len, some hv_set_len⟩

/-- `pack("B", self.count)` succeeds only for ordinals up to 255; ordinals count from 1 -/
def hvOne (n i : Nat) (c : Call) : List Call := if i < n ∧ i + 1 ≤ hv_max_ordinal then [c] else []

/-- the `(cmd, keyLen, valueLen)` an API call issues on a declared map with `ncpu` possible CPUs -/
def calls (ncpu : Nat) : Decl → Api → List Call
  | .percpu s, .percpuRead =>
      if mapSize s = 0 then [] else [⟨bpf_LOOKUP, some arr_key_len, some (mapSize s * ncpu)⟩]
  | .hashVars s, .hvGet i => hvOne s.length i hvGetCall
  | .hashVars s, .hvSet i => hvOne s.length i hvSetCall
  | .hashVars s, .hvLoad => List.replicate (min s.length hv_max_ordinal) hvSetCall
  | .hashVars s, .load => List.replicate (min s.length hv_max_ordinal) hvSetCall
  | .dict ks vs _ _, .dSet => [⟨bpf_UPDATE, some ks.sum, some vs.sum⟩]
  | .dict ks vs _ _, .dGet => [⟨bpf_LOOKUP, some ks.sum, some vs.sum⟩]
  | .dict ks vs _ _, .dPop => [⟨dict_pop_cmd, some ks.sum, some vs.sum⟩]
  | .dict ks _ _ _, .dDel => [⟨bpf_DELETE, some ks.sum, none⟩]
  | .dict ks _ _ _, .dIter n =>
      ⟨bpf_NEXT_KEY, none, some ks.sum⟩ :: List.replicate n ⟨bpf_NEXT_KEY, some ks.sum, some ks.sum⟩
  | .progArray, .register occ =>
      List.replicate (occ + 1) ⟨bpf_LOOKUP, some prog_key_len, some prog_lookup_len⟩ ++
      [⟨bpf_UPDATE, some prog_key_len, some prog_update_len⟩, ⟨bpf_DELETE, some prog_key_len, none⟩]
  | _, _ => []          -- mmap-based set/get, items of data already read, calls that do not apply to the map

/-- bytes one user-space lookup/update transfers behind the value pointer -/
def valueBytes (g : Geometry) (ncpu : Nat) : Nat :=
  if g.mapType = mt_PERCPU_ARRAY then roundUp8 g.valueSize * ncpu else g.valueSize

def lenAtLeast (l : Option Nat) (n : Nat) : Bool :=
  match l with
  | some k => n ≤ k
  | none => false

/-- the property for one command: every buffer is at least as long as what the kernel accesses -/
def Call.ok (g : Geometry) (ncpu : Nat) (c : Call) : Bool :=
  if c.cmd = bpf_LOOKUP ∨ c.cmd = bpf_UPDATE ∨ c.cmd = bpf_LOOKUP_DELETE then
    lenAtLeast c.keyLen g.keySize && lenAtLeast c.valueLen (valueBytes g ncpu)
  else if c.cmd = bpf_DELETE then lenAtLeast c.keyLen g.keySize
  else if c.cmd = bpf_NEXT_KEY then
    (c.keyLen.isNone || lenAtLeast c.keyLen g.keySize) && lenAtLeast c.valueLen g.keySize
  else false

/-- exact sizing (no buffer longer than needed either) -/
def Call.exact (g : Geometry) (ncpu : Nat) (c : Call) : Bool :=
  (c.keyLen.isNone || c.keyLen == some g.keySize) &&
  (c.valueLen.isNone || c.valueLen == some (if c.cmd = bpf_NEXT_KEY then g.keySize else valueBytes g ncpu))

/-! ### several program instances that share one map descriptor

A map is declared once, as a class attribute: the descriptor object (`ArrayMap()`, `HashMap()`,
`Dict(...)`) is shared by every instance of the class, of its subclasses, and of the same class
instantiated with other sub-programs.  What `collect` finds differs per instance (a derived
class adds variables, sub-programs bring their own), so each instance creates a map of its own
geometry.  `ArrayMap.init` writes `self.size` on the shared descriptor; whatever is needed
later has to be kept with the instance (`PerCPUReader.size`, the mmap, `TheDict.fd`). -/

structure DictGeo where
  keySizes : List Nat
  valSizes : List Nat
  size : Nat
  lru : Bool
deriving Repr

/-- a family of program classes around one shared map descriptor -/
inductive Family where
  | array (base : List Nat) (derived subs : List (List Nat))
      -- variables of the base class; what the k-th derived class adds; what the m-th sub-program class declares
  | percpu (base : List Nat) (derived subs : List (List Nat))
  | hashVars (base : List Nat)                              -- derived classes inherit the variables
  | dict (base : DictGeo) (derived : List (Option DictGeo)) -- a derived class may override the Dict
deriving Repr

/-- one program instance: `cls = 0` the base class, `k + 1` the k-th derived class; the
sub-program classes it was instantiated with (one sub-program object each, repeats allowed) -/
structure Inst where
  cls : Nat
  subs : List Nat
deriving Repr

def pick (l : List (List Nat)) (k : Nat) : List Nat :=
  match l[k]? with
  | some s => s
  | none => []

/-- the variables `ArrayMap.collect` finds for one instance -/
def varSizes (base : List Nat) (derived subs : List (List Nat)) (i : Inst) : List Nat :=
  base ++ (match i.cls with | 0 => [] | k + 1 => pick derived k) ++ i.subs.flatMap (pick subs)

def dictDecl (g : DictGeo) : Decl := .dict g.keySizes g.valSizes g.size g.lru

/-- the declaration one instance sees: its OWN map -/
def instDecl : Family → Inst → Decl
  | .array b d s, i => .array (varSizes b d s i)
  | .percpu b d s, i => .percpu (varSizes b d s i)
  | .hashVars b, _ => .hashVars b
  | .dict b d, i =>
      match i.cls with
      | 0 => dictDecl b
      | k + 1 =>
        match d[k]? with
        | some (some g) => dictDecl g
        | _ => dictDecl b

/-- what an instance keeps in its own objects when `init` ran for it -/
structure InstState where
  decl : Decl                  -- what `collect` / the class gave: this instance's declaration
  geo : Option Geometry        -- arguments of its `create_map`
  readerSize : Nat             -- `PerCPUReader.size`, stored when the reader was made
deriving Repr

/-- `descSize`: `ArrayMap.size` on the shared descriptor, rewritten by every `init` -/
structure World where
  descSize : Nat
  insts : List InstState
deriving Repr

def World.empty : World := ⟨0, []⟩

inductive Event where
  | create (i : Inst)                -- `Cls(prog_type, license, subprograms=[...])`
  | use (idx : Nat) (a : Api)        -- an API call on the idx-th instance created so far
deriving Repr

/-- `self.size = self.collect(ebpf)` (array maps only) -/
def collected (old : Nat) : Decl → Nat
  | .array s => mapSize s
  | .percpu s => mapSize s
  | _ => old

def createInst (f : Family) (w : World) (i : Inst) : World :=
  let d := instDecl f i
  let sz := collected w.descSize d
  ⟨sz, w.insts ++ [⟨d, geometry d, sz⟩]⟩

def percpuReadCall (size ncpu : Nat) : List Call :=
  if size = 0 then [] else [⟨bpf_LOOKUP, some arr_key_len, some (size * ncpu)⟩]

def percpuReadI (ncpu : Nat) (st : InstState) : List Call :=
  match st.decl with
  | .percpu _ => percpuReadCall st.readerSize ncpu     -- `self.size * self.map.cpu_no`
  | d => calls ncpu d .percpuRead

/-- the calls of one API call on one live instance: everything is taken from the instance -/
def callsI (ncpu : Nat) (st : InstState) : Api → List Call
  | .percpuRead => percpuReadI ncpu st
  | a => calls ncpu st.decl a

/-- one event: the new state and the map commands issued -/
def stepEvent (f : Family) (ncpu : Nat) (w : World) : Event → World × List Call
  | .create i => (createInst f w i, [])
  | .use idx a =>
      match w.insts[idx]? with
      | some st => (w, callsI ncpu st a)
      | none => (w, [])

/-- a history: the commands issued, each with the instance it was issued for -/
def runHist (f : Family) (ncpu : Nat) : World → List Event → List (Nat × Call)
  | _, [] => []
  | w, e :: es =>
      let r := stepEvent f ncpu w e
      (match e with
       | .use idx _ => r.2.map (fun c => (idx, c))
       | .create _ => []) ++ runHist f ncpu r.1 es

/-- the instances a history creates, in order -/
def createdOf : List Event → List Inst
  | [] => []
  | .create i :: es => i :: createdOf es
  | .use _ _ :: es => createdOf es

/-- the code before `fix: reading a per-CPU map used the size of the map of another program`:
`PerCPUReader.read` sized its buffer from `self.map.size`, the descriptor's — the size of the
instance created LAST -/
def percpuReadCallShared (w : World) (ncpu : Nat) : List Call := percpuReadCall w.descSize ncpu

/-- the code before `fix: reading a hash map variable overran the Python buffer`:
`lookup_elem(fd, pack("B", count), self.fmt)` sized the buffer by the format -/
def hvGetCallByFormat (fmtSize : Nat) : Call := ⟨bpf_LOOKUP, some hv_key_len, some fmtSize⟩

end Ebv.MapCalls
