import Ebv.Model.Bytes
/-! Model of the slow sync group's cycle (ebpfcat/ebpfcat.py): `SyncGroup.update_devices`,
the loop of `SyncGroupBase.run` and the Python path of `PacketVar.get/set`.

* A frame is the byte list handed to `ec.roundtrip_packet` (no Ethernet header): the assembled
  packet of `SyncGroup.start` first, `current_data` afterwards.
* `SterilePacket.counters` is a list of `(pos, expected)`: `pos` is the offset of a datagram's
  16-bit working counter inside the frame.
* A process variable on the Python path is `Var.bytes start n` (`struct '<'+fmt` of `n` bytes at
  absolute offset `start = pdo_assign[terminal][sm] + position`; the model keeps the unsigned image,
  signedness is presentation) or `Var.bit start k` (bit `k` of the byte at `start`).
* A device is "read these variables, then write those variables with values computed by a
  scripted function of what was read and of the cycle number" (`Device.update`).
* `run` folds over the bus events of one group: a response (the bytes that came back for the frame
  sent last) or a `wait_for` timeout (the last data is sent again, `missed_counter += 1`).
-/
namespace Ebv.SlowCycle
open Ebv.Bytes

abbrev Frame := List UInt8

/-- `wkc_errors = 1` is what `run` sets right after the OPERATIONAL request -/
def initialErrors : Nat := 1

inductive Var where
  | bytes (start n : Nat)
  | bit (start k : Nat)
deriving DecidableEq, Repr

def Var.start : Var → Nat
  | .bytes s _ => s
  | .bit s _ => s

/-- number of frame bytes the variable touches -/
def Var.len : Var → Nat
  | .bytes _ n => n
  | .bit _ _ => 1

def getBit (b : UInt8) (k : Nat) : Bool := b.toNat.testBit k

/-- `data[start] |= mask` / `data[start] &= ~mask` with `mask = 1 << k` -/
def setBit (b : UInt8) (k : Nat) (v : Bool) : UInt8 :=
  UInt8.ofNat (if v then b.toNat ||| 2 ^ k else b.toNat ^^^ (b.toNat &&& 2 ^ k))

/-- the frame bytes the variable lives in -/
def Var.raw (x : Var) (fr : Frame) : List UInt8 := slice fr x.start (x.start + x.len)

/-- `PacketVar.get` on `current_data`: unsigned image of the struct value, `0/1` for a bit -/
def Var.get (x : Var) (fr : Frame) : Nat :=
  match x with
  | .bytes _ _ => decLE (x.raw fr)
  | .bit _ k => if getBit ((x.raw fr).headD 0) k then 1 else 0

/-- the bytes `PacketVar.set` stores -/
def Var.enc (x : Var) (v : Nat) (fr : Frame) : List UInt8 :=
  match x with
  | .bytes _ n => encLE n v
  | .bit _ k => [setBit ((x.raw fr).headD 0) k (v != 0)]

/-- `PacketVar.set` on `current_data` -/
def Var.set (x : Var) (v : Nat) (fr : Frame) : Frame := setRange fr x.start (x.enc v fr)

/-- what reading back gives after `set x v` -/
def Var.norm (x : Var) (v : Nat) : Nat :=
  match x with
  | .bytes _ n => v % 256 ^ n
  | .bit _ _ => if v != 0 then 1 else 0

structure Dev where
  ins : List Var
  outs : List Var
  /-- values read (in the order of `ins`), number of earlier updates ↦ values to write (order of `outs`) -/
  f : List Nat → Nat → List Nat

structure Cfg where
  counters : List (Nat × Nat)      -- `self.packet.counters.items()`
  devs : List Dev                  -- `self.devices`

/-- `unpack_from('<H', data, pos)` -/
def wkcAt (data : Frame) (pos : Nat) : Nat := decLE (slice data pos (pos + 2))

/-- one round of the `for pos, counts in self.packet.counters.items()` loop:
compare the full 16-bit counter of the response, count an error, clear both bytes in `current_data` -/
def counterStep (data : Frame) (acc : Nat × Frame) (pc : Nat × Nat) : Nat × Frame :=
  (if wkcAt data pc.1 != pc.2 then acc.1 + 1 else acc.1, setRange acc.2 pc.1 [0, 0])

def checkCounters (counters : List (Nat × Nat)) (data : Frame) (errs : Nat) (cur : Frame) : Nat × Frame :=
  counters.foldl (counterStep data) (errs, cur)

/-- a sequence of `PacketVar.set` calls -/
def applyWrites (ws : List (Var × Nat)) (fr : Frame) : Frame := ws.foldl (fun fr ov => ov.1.set ov.2 fr) fr

/-- the device sets its outputs one after the other -/
def writeOuts (os : List Var) (vs : List Nat) (fr : Frame) : Frame := applyWrites (os.zip vs) fr

/-- `dev.update()`: returns the new `current_data` and what the device read -/
def devUpdate (c : Nat) (d : Dev) (cur : Frame) : Frame × List Nat :=
  let seen := d.ins.map (·.get cur)
  (writeOuts d.outs (d.f seen c) cur, seen)

/-- `for dev in self.devices: dev.update()` -/
def devsUpdate (c : Nat) : List Dev → Frame → Frame × List (List Nat)
  | [], cur => (cur, [])
  | d :: ds, cur =>
    let r := devUpdate c d cur
    let rs := devsUpdate c ds r.1
    (rs.1, r.2 :: rs.2)

inductive Ev where
  | resp (data : Frame)      -- `data = await wait_for(future, …)` succeeded
  | timeout                  -- `TimeoutError`
deriving Repr

structure St where
  cur : Frame                      -- `self.current_data`
  errors : Nat                     -- `self.wkc_errors`
  missed : Nat                     -- `self.missed_counter`
  cycle : Nat                      -- number of `update_devices` calls so far
  last : Frame                     -- the local `data` of `run`: what a timeout sends again
  sent : List Frame                -- everything handed to `roundtrip_packet`, oldest first
  seen : List (List (List Nat))    -- per `update_devices` call, per device: the values it read

/-- `SyncGroup.update_devices(data)` -/
def updateDevices (cfg : Cfg) (st : St) (data : Frame) : St :=
  let r := checkCounters cfg.counters data st.errors data      -- `self.current_data[:] = data` first
  let u := devsUpdate st.cycle cfg.devs r.2
  { st with cur := u.1, errors := r.1, cycle := st.cycle + 1, seen := st.seen ++ [u.2] }

/-- one turn of `while self.running:` -/
def step (cfg : Cfg) (st : St) : Ev → St
  | .resp data =>
    let st' := updateDevices cfg st data
    { st' with last := st'.cur, sent := st'.sent ++ [st'.cur] }
  | .timeout => { st with missed := st.missed + 1, sent := st.sent ++ [st.last] }

/-- after `start()` and the OPERATIONAL request: the assembled packet is on the wire -/
def init (asm : Frame) : St :=
  { cur := asm, errors := initialErrors, missed := 0, cycle := 0, last := asm, sent := [asm], seen := [] }

def runFrom (cfg : Cfg) (st : St) (evs : List Ev) : St := evs.foldl (step cfg) st

def run (cfg : Cfg) (asm : Frame) (evs : List Ev) : St := runFrom cfg (init asm) evs

/-! ### the group started again

`SyncGroup.start` may be called again once the task has ended: it allocates anew (`self.packet`, hence the counter
table, `pdo_assign`, hence the variables' positions), assembles the new packet and makes a new process image; `run` sets
`wkc_errors` to 0 and then 1.  The only thing a `SyncGroup` object carries from one run into the next is
`missed_counter` (a class attribute that `+=` turns into an instance attribute; never reset). -/

/-- the state `start()` + the beginning of `run()` produce on a group that ran before -/
def restart (prev : St) (asm : Frame) : St := { init asm with missed := prev.missed }

/-- one run of the group's life: the layout `allocate` computed for the configuration of that time, the packet assembled
for it, the bus events of that run -/
structure Run where
  cfg : Cfg
  asm : Frame
  evs : List Ev

/-- the state at the end of a history of runs of one group object (oldest first) -/
def lifeFrom (prev : St) : List Run → St
  | [] => prev
  | r :: rs => lifeFrom (runFrom r.cfg (restart prev r.asm) r.evs) rs

/-- the group's state at the end of its latest run, given all its earlier runs -/
def runAfter (hist : List Run) (r : Run) : St := lifeFrom (init []) (hist ++ [r])

/-! ### layout hypotheses (what `allocate` has to establish; decidable, evaluated by the driver) -/

/-- the variable lies inside a frame of `L` bytes -/
def Var.inB (L : Nat) : Var → Prop
  | .bytes s n => s + n ≤ L
  | .bit s k => s + 1 ≤ L ∧ k < 8

instance (L : Nat) (x : Var) : Decidable (Var.inB L x) := by
  cases x <;> simp only [Var.inB] <;> infer_instance

/-- the two variables do not share a byte -/
def disjoint (x w : Var) : Bool :=
  decide (x.start + x.len ≤ w.start) || decide (w.start + w.len ≤ x.start)

/-- writing `w` cannot change what `x` reads: no common byte, or two different bits -/
def indep (x w : Var) : Bool :=
  disjoint x w ||
    match x, w with
    | .bit s k, .bit s' k' => s == s' && k != k'
    | _, _ => false

def IndepR (x w : Var) : Prop := indep x w = true

def cvar (pc : Nat × Nat) : Var := .bytes pc.1 2
def counterVars (cfg : Cfg) : List Var := cfg.counters.map cvar
def allIns (cfg : Cfg) : List Var := cfg.devs.flatMap (·.ins)
def allOuts (cfg : Cfg) : List Var := cfg.devs.flatMap (·.outs)

/-- variables and counters lie inside the frame, counter fields do not overlap each other, an input
overlaps no counter and no output, outputs overlap no counter and are pairwise independent -/
def Layout (cfg : Cfg) (L : Nat) : Prop :=
  (∀ x ∈ counterVars cfg, Var.inB L x) ∧ (∀ x ∈ allIns cfg, Var.inB L x) ∧ (∀ x ∈ allOuts cfg, Var.inB L x) ∧
  (counterVars cfg).Pairwise IndepR ∧
  (∀ x ∈ allIns cfg, ∀ w ∈ counterVars cfg, indep x w = true) ∧
  (∀ x ∈ allIns cfg, ∀ w ∈ allOuts cfg, indep x w = true) ∧
  (∀ x ∈ allOuts cfg, ∀ w ∈ counterVars cfg, indep x w = true) ∧
  (allOuts cfg).Pairwise IndepR

instance (x w : Var) : Decidable (IndepR x w) := by unfold IndepR; infer_instance
instance (cfg : Cfg) (L : Nat) : Decidable (Layout cfg L) := by unfold Layout; infer_instance


end Ebv.SlowCycle
