import Ebv.Model.Ebpf
import Ebv.Generated.Consts
/-! # `Gen` — model of the ebpfcat expression code generator (ebpfcat/ebpf.py)

Two layers, as in the Python code:

* **surface layer** (`SExpr`, `elabE`): what the operator overloads build.  A JSON program of
  `harness/vh/dsl.py` is walked exactly like the harness walks it with the real classes; the result of every
  Python-level operation is a `PyVal` (a plain `int` or an `Expression` object tree).  Expression objects are
  never mutated by the operator overloads (`Sum.__add__`/`__sub__` with an integer build a new `Sum`), so an object
  that is used twice behaves like two copies of its tree: values of `Expr` need no identity.  Reflected operators,
  `Register.__add__ → Sum`, `Sum ± int → Sum`,
  the subclass-first rule of Python's binary operator protocol (`Binary + Sum` calls `Sum.__radd__`),
  `__rshift__` choosing ARSH/RSH by signedness are all here.
* **emission layer** (`calculate`, `load`, `setReg`, `setMem`): a state monad over
  `{code (append-only), owners, stack}` with `Except AsmError`.  Python context managers only ever *release*
  registers on exit, so `calculate` returns the registers to release (`CalcRes.rel`) and the caller releases
  them where the Python `with` block ends (`release`).

Extension points (C02 fixed point, C03 comparisons): `Expr` nodes carry the Python attributes that the
surface layer inspects (`signed`, `kind`); a `fixed` flag is added the same way (`Expr.fixed`, today constantly
`false`, is already consulted nowhere — add a field to `reg`/`bin`/`const` and the `FIXED_BASE` insertions to
`exprSum`/`exprMul`/...).  Statements are a separate type `Stmt` with one constructor today; `with` blocks
become a constructor with nested statement lists; jump patching needs only `g.code.length`. -/
namespace Ebv.Gen
open Ebv.Ebpf

/-! ## expression objects -/

/-- the `operator` of a `Binary` (an `Opcode` member) -/
inductive BinOp where
  | add | sub | mul | div | or | and | lsh | rsh | mod | xor | arsh
deriving DecidableEq, Repr, Inhabited

def BinOp.opcode : BinOp → Nat
  | .add => Consts.op_ADD | .sub => Consts.op_SUB | .mul => Consts.op_MUL | .div => Consts.op_DIV
  | .or => Consts.op_OR | .and => Consts.op_AND | .lsh => Consts.op_LSH | .rsh => Consts.op_RSH
  | .mod => Consts.op_MOD | .xor => Consts.op_XOR | .arsh => Consts.op_ARSH

def BinOp.name : BinOp → String
  | .add => "add" | .sub => "sub" | .mul => "mul" | .div => "div" | .or => "or" | .and => "and"
  | .lsh => "lsh" | .rsh => "rsh" | .mod => "mod" | .xor => "xor" | .arsh => "arsh"

/-- `struct` format letters of memory variables -/
inductive Fmt where
  | B | H | I | Q | b | h | i | q
deriving DecidableEq, Repr, Inhabited

def Fmt.size : Fmt → Nat
  | .B | .b => 1 | .H | .h => 2 | .I | .i => 4 | .Q | .q => 8
def Fmt.signed : Fmt → Bool
  | .b | .h | .i | .q => true | _ => false
/-- `fmt_to_opcode` -/
def Fmt.sizeOp : Fmt → Nat
  | .B | .b => Consts.op_B | .H | .h => Consts.op_H | .I | .i => Consts.op_W | .Q | .q => Consts.op_DW
/-- `fmt[-1] in "QqAx"` -/
def Fmt.isLong : Fmt → Bool
  | .Q | .q => true | _ => false
def Fmt.name : Fmt → String
  | .B => "B" | .H => "H" | .I => "I" | .Q => "Q" | .b => "b" | .h => "h" | .i => "i" | .q => "q"

/-- which Python class a `Binary` object has (`isinstance` tests in `Memory` and in the operator protocol) -/
inductive Kind where
  | plain | sum | and
deriving DecidableEq, Repr, Inhabited

/-- `Expression` object trees -/
inductive Expr where
  | const (v : Int)
  | reg (no : Nat) (long : Bool) (signed : Bool)
  | bin (op : BinOp) (l r : Expr) (signed : Bool) (kind : Kind)
  | neg (a : Expr)
  | abs (a : Expr)
  | mem (fmt : Fmt) (addr : Expr)
deriving Repr, Inhabited, DecidableEq

/-- the `signed` attribute -/
def Expr.signed : Expr → Bool
  | .const v => v < 0
  | .reg _ _ s => s
  | .bin _ _ _ s _ => s
  | .neg _ => true
  | .abs _ => false
  | .mem f _ => f.signed

/-- `Constant.small_constant` (for every other class the class attribute `False`) -/
def isSmall (v : Int) : Bool := -(Consts.small_lo_neg : Int) ≤ v ∧ v < (Consts.small_hi : Int)

def Expr.asSmallConst : Expr → Option Int
  | .const v => if isSmall v then some v else none
  | _ => none

/-- `isinstance(e, Sum)`: base register and offset -/
def Expr.asSum : Expr → Option (Nat × Int)
  | .bin _ (.reg no _ _) (.const c) _ .sum => some (no, c)
  | _ => none

/-- `contains(no)`; `no = None` is contained nowhere -/
def Expr.contains (n : Nat) : Expr → Bool
  | .const _ => false
  | .reg no _ _ => no == n
  | .bin _ l r _ _ => l.contains n || r.contains n
  | .neg a => a.contains n
  | .abs a => a.contains n
  | .mem _ a => a.contains n

def Expr.containsOpt (e : Expr) : Option Nat → Bool
  | none => false
  | some n => e.contains n

/-! ## generator state -/

structure GenState where
  code : List Insn
  owners : List Nat
  stack : Int
deriving Repr

inductive AsmError where
  | asm                    -- AssembleError
  | other (ty : String)    -- any other Python exception, by type name
deriving Repr, DecidableEq

def GenM (α : Type) : Type := GenState → Except AsmError (α × GenState)

def GenM.pure {α} (a : α) : GenM α := fun g => .ok (a, g)
def GenM.bind {α β} (x : GenM α) (f : α → GenM β) : GenM β := fun g =>
  match x g with
  | .ok (a, g') => f a g'
  | .error e => .error e
instance : Monad GenM where
  pure := GenM.pure
  bind := GenM.bind

def fail {α} (e : AsmError) : GenM α := fun _ => .error e
/-- `EBPF.append` -/
def emit (i : Insn) : GenM Unit := fun g => .ok ((), { g with code := g.code ++ [i] })
def getOwners : GenM (List Nat) := fun g => .ok (g.owners, g)
/-- `owners.add(no)` -/
def addOwner (no : Nat) : GenM Unit := fun g =>
  .ok ((), { g with owners := if g.owners.contains no then g.owners else no :: g.owners })
/-- `owners.discard(i)` for every register handed out by `get_free_register(None)` in a `with` that ends -/
def release (rel : List Nat) : GenM Unit := fun g =>
  .ok ((), { g with owners := g.owners.filter fun k => !rel.contains k })

def firstFree (owners : List Nat) : Option Nat := (List.range 10).find? fun i => !owners.contains i

/-- `get_free_register(dst)`: the register and what to release when the `with` ends -/
def getFree : Option Nat → GenM (Nat × List Nat)
  | some d => pure (d, [])
  | none => fun g =>
    match firstFree g.owners with
    | some i => .ok ((i, [i]), { g with owners := i :: g.owners })
    | none => .error .asm

/-- result of a `calculate` context manager at its `yield` -/
structure CalcRes where
  reg : Nat
  long : Bool
  rel : List Nat
deriving Repr

def longBit (long : Bool) : Nat := if long then Consts.op_LONG else 0

/-- `Expression.load`: the load and, for `b`, `h` (and `i` when long), the sign extension
`regs[dst] = (regs[dst] << shift) >> shift` through the `sr`/`sw` view.  That assignment runs through
`RegisterArray.__setitem__` and `Binary.calculate` with a forced destination; its net effect (ownership of
`dst`, two instructions) is written out here, and `Ebv.C01.load_shift_is_setitem` proves that it is what
the generic path produces. -/
def load (dst src : Nat) (off : Int) (fmt : Fmt) (long : Option Bool) : GenM Unit := do
  emit ⟨Consts.op_LD + fmt.sizeOp, dst, src, off, 0⟩
  let lg := long == some true
  if fmt == .h || fmt == .b || (lg && fmt == .i) then
    let shift : Int := (if lg then 64 else 32) - fmt.size * 8
    addOwner dst                                              -- `RegisterArray.__setitem__`; `Register.calculate` then finds dst owned
    emit ⟨Consts.op_LSH + longBit lg, dst, 0, 0, shift⟩
    emit ⟨Consts.op_ARSH + longBit lg, dst, 0, 0, shift⟩

/-- the immediates `Binary.calculate` refuses with an AssembleError: a constant shift count outside `[0, width)` of the
operation as it is generated (32 or 64 bit), a constant zero divisor — the kernel would not load either -/
def badImm (op : BinOp) (v : Int) (long' : Bool) : Bool :=
  match op with
  | .lsh | .rsh | .arsh => !(decide (0 ≤ v) && decide (v < if long' then 64 else 32))
  | .div | .mod => v == 0
  | _ => false

/-- `Binary.calculate`, the right operand: an immediate for a small constant (refused if `badImm`), otherwise computed
into any register (`calcR` = `self.right.calculate(None, long)`), used, and released -/
def binRight (op : BinOp) (small : Option Int) (calcR : GenM CalcRes) (d : Nat) (long' : Bool) : GenM Unit :=
  match small with
  | some v => if badImm op v long' then fail .asm else emit ⟨op.opcode + longBit long', d, 0, 0, v⟩
  | none => do
    let rres ← calcR
    emit ⟨op.opcode + Consts.op_REG + longBit long', d, rres.reg, 0, 0⟩
    release rres.rel

/-- `Binary.calculate`, the end: the result stays in `d` if no particular register was asked for or `d` is
that register; otherwise the temporary is released and the result moved -/
def binFinish (dst : Option Nat) (d : Nat) (long' : Bool) (rel : List Nat) : GenM CalcRes :=
  if dst == none || dst == some d then
    pure ⟨d, long', rel⟩
  else do
    release rel                                               -- end of `with self.ebpf.get_free_register`
    emit ⟨Consts.op_MOV + Consts.op_REG + longBit long', dst.getD 0, d, 0, 0⟩
    pure ⟨dst.getD 0, long', []⟩

/-- `long or arg_long` in `Unary.calculate` (`long` is `None`, `False` or `True`) -/
def unaryLong (long : Option Bool) (argLong : Bool) : Bool := long == some true || argLong

/-- the sign test of `abs`: `JSGE` (64-bit comparison), with `SHORT` (JMP32) after a 32-bit computation -/
def absTest (long : Bool) : Nat := Consts.op_JSGE + (if long then 0 else Consts.op_SHORT)

/-- `Absolute.calculate_unary`: `regs = sr if long else sw`; `with regs[dst] < 0: regs[dst] = -regs[dst]` — the sign test
and the negation have the width of the computation.  `Register.calculate` inside the comparison wants `dst` owned;
`RegisterArray.__setitem__` adds it to `owners` (it is there already) -/
def absTail (reg : Nat) (long : Bool) : GenM Unit := do
  let os ← getOwners
  if !os.contains reg then fail .asm
  emit ⟨absTest long, reg, 0, 1, 0⟩
  addOwner reg
  emit ⟨Consts.op_NEG + longBit long, reg, 0, 0, 0⟩

/-- the `calculate` context managers of `Constant`, `Register`, `Binary` (also `Sum`, `AndExpression`),
`Negate`, `Absolute`, `Memory`.  Arguments as in Python: destination (`None` = any), `long`
(`None` = inherit), `force`. -/
def calculate : Expr → Option Nat → Option Bool → Bool → GenM CalcRes
  | .const v, dst, _, _ => do
    let (d, rel) ← getFree dst
    if isSmall v then
      emit ⟨Consts.op_MOV + Consts.op_LONG, d, 0, 0, v⟩
    else do
      emit ⟨Consts.op_DW, d, 0, 0, v % 4294967296⟩          -- value & 0xffffffff
      emit ⟨Consts.op_W, 0, 0, 0, v / 4294967296⟩            -- value >> 32 (floor)
    pure ⟨d, !(decide (-2147483648 ≤ v) && decide (v < 4294967296)), rel⟩
  | .reg no lg _, dst, _, force => do
    let os ← getOwners
    if !os.contains no then fail .asm
    else if force && dst != some no then
      match dst with
      | some d => do
        emit ⟨Consts.op_MOV + Consts.op_REG + longBit lg, d, no, 0, 0⟩
        pure ⟨d, lg, []⟩
      | none => fail (.other "force-without-dst")     -- unreachable from the surface language
    else pure ⟨no, lg, []⟩
  | .bin op l r _ _, dst, long, _ => do
    let dst0 := if r.containsOpt dst then none else dst
    let (d0, rel) ← getFree dst0
    let lres ← calculate l (some d0) long true
    let long' := long.getD lres.long
    release lres.rel                                          -- end of `with self.left.calculate(...)`
    binRight op r.asSmallConst (calculate r none (some long') false) lres.reg long'
    binFinish dst lres.reg long' rel
  | .neg a, dst, long, _ => do
    -- `Unary.calculate`: `with get_free_register(dst) as dst: with self.arg.calculate(dst, long, True)`: the operator
    -- works on a copy (the destination the caller offers, else a free register), never on the argument's own register;
    -- `long = long or arg_long`: 64 bits if the caller asks for them or the argument has them
    let (d, rel) ← getFree dst
    let res ← calculate a (some d) long true
    let lg := unaryLong long res.long
    emit ⟨Consts.op_NEG + longBit lg, res.reg, 0, 0, 0⟩
    pure ⟨res.reg, lg, res.rel ++ rel⟩
  | .abs a, dst, long, _ => do
    let (d, rel) ← getFree dst
    let res ← calculate a (some d) long true
    let lg := unaryLong long res.long
    absTail res.reg lg
    pure ⟨res.reg, lg, res.rel ++ rel⟩
  | .mem fmt addr, dst, long, _ =>
    match addr.asSum with
    | some (base, off) => do
      let (d, rel) ← getFree dst
      load d base off fmt long
      pure ⟨d, fmt.isLong, rel⟩
    | none => do                                              -- Expression.calculate / Memory.get_address
      let (d, rel) ← getFree dst
      let ares ← calculate addr (some d) (some true) false
      load d ares.reg 0 fmt long
      pure ⟨d, fmt.isLong, ares.rel ++ rel⟩

/-! ## Python-level values and the operator protocol -/

inductive PyVal where
  | int (v : Int)
  | ex (e : Expr)
deriving Repr, Inhabited

def typeError {α} : Except AsmError α := .error (.other "TypeError")

/-- `ensure_expression` / `Constant(ebpf, value)` -/
def ensureExpr : PyVal → Except AsmError Expr
  | .int v => .ok (.const v)
  | .ex e => .ok e

def mkBin (op : BinOp) (l r : Expr) (signed : Bool) : PyVal := .ex (.bin op l r signed .plain)

/-- `Expression._sum` / `_binary` / `__mul__` / `__floordiv__` (no fixed point): `Binary(self, value, op, self.signed or value.signed)` -/
def exprBinary (op : BinOp) (self : Expr) (value : PyVal) : Except AsmError PyVal := do
  let v ← ensureExpr value
  pure (mkBin op self v (self.signed || v.signed))

def isLongReg : Expr → Bool
  | .reg _ lg _ => lg
  | _ => false
def isSumObj : Expr → Bool
  | .bin _ _ _ _ .sum => true
  | _ => false
/-- the object's class is exactly `Binary` (a proper base class of `Sum`) -/
def isPlainBinary : Expr → Bool
  | .bin _ _ _ _ .plain => true
  | _ => false

/-- `Sum(ebpf, left, Constant(c), signed)`: the signedness is handed in by whoever builds the `Sum` (it used to be
`c < 0`, the sign of the merged constant alone, which forgot the register's own signedness: `sr2 + 1` was unsigned) -/
def mkSum (self : Expr) (c : Int) (signed : Bool) : PyVal := .ex (.bin .add self (.const c) signed .sum)

/-- `Sum.__add__(v)` (`d = v`) / `Sum.__sub__(v)` (`d = -v`) with an `int` `v`, `neg = (v < 0)`: a **new** object
`Sum(self.left, Constant(self.right.value + d), self.signed or v < 0)`; `self` and its `Constant` are left alone.
`none` for every object that is no `Sum` -/
def sumShift (d : Int) (neg : Bool) : Expr → Option PyVal
  | .bin .add l (.const c0) sg .sum => some (mkSum l (c0 + d) (sg || neg))
  | _ => none

/-- `self.__add__(value)` (also `__radd__`, which is the same function in every class) -/
def exprAdd (self : Expr) (value : PyVal) : Except AsmError PyVal :=
  match value with
  | .int c =>
    -- Register.__add__ → `Sum(self, Constant(c), self.signed or c < 0)`
    if isLongReg self then pure (mkSum self c (self.signed || decide (c < 0)))
    else match sumShift c (decide (c < 0)) self with
      | some s => pure s                                      -- Sum.__add__ → Sum
      | none => exprBinary .add self value
  | _ => exprBinary .add self value                           -- also `Sum + expression`: `super().__add__`

/-- `self.__sub__(value)` -/
def exprSub (self : Expr) (value : PyVal) : Except AsmError PyVal :=
  match value with
  | .int c =>
    -- Register.__sub__ → `Sum(self, Constant(-c), self.signed or c < 0)`: the sign of the number as written
    if isLongReg self then pure (mkSum self (-c) (self.signed || decide (c < 0)))
    else match sumShift (-c) (decide (c < 0)) self with
      | some s => pure s                                      -- Sum.__sub__ → Sum
      | none => exprBinary .sub self value
  | _ => exprBinary .sub self value                           -- also `Sum - expression`: `super().__sub__`

inductive SOp where
  | add | sub | mul | floordiv | mod | and | or | xor | lsh | rsh
deriving DecidableEq, Repr, Inhabited

/-- Python's floor shift of integers -/
def pyShr (a : Int) (n : Nat) : Int := a / (2 : Int) ^ n      -- Int `/` is floor for a positive divisor

/-- a width in which `a` fits as a signed number -/
def zBits (a : Int) : Nat := a.natAbs.log2 + 2

/-- Python's `&`, `|`, `^` on unbounded integers: two's complement in a width both operands fit in -/
def zBitop (f : (n : Nat) → BitVec n → BitVec n → BitVec n) (a b : Int) : Int :=
  let n := max (zBits a) (zBits b)
  (f n (BitVec.ofInt n a) (BitVec.ofInt n b)).toInt

def zOr (a b : Int) : Int := zBitop (fun _ x y => x ||| y) a b
def zAnd (a b : Int) : Int := zBitop (fun _ x y => x &&& y) a b
def zXor (a b : Int) : Int := zBitop (fun _ x y => x ^^^ y) a b

/-- `int (op) int`, evaluated by Python itself -/
def intOp (op : SOp) (a b : Int) : Except AsmError PyVal :=
  match op with
  | .add => pure (.int (a + b))
  | .sub => pure (.int (a - b))
  | .mul => pure (.int (a * b))
  | .floordiv => if b = 0 then .error (.other "ZeroDivisionError") else pure (.int (Int.fdiv a b))
  | .mod => if b = 0 then .error (.other "ZeroDivisionError") else pure (.int (Int.fmod a b))
  | .and => pure (.int (zAnd a b))
  | .or => pure (.int (zOr a b))
  | .xor => pure (.int (zXor a b))
  | .lsh => if b < 0 then .error (.other "ValueError") else pure (.int (a * (2 : Int) ^ b.toNat))
  | .rsh => if b < 0 then .error (.other "ValueError") else pure (.int (pyShr a b.toNat))

/-- `self (op) value` with `self` an `Expression` -/
def exprOp (op : SOp) (self : Expr) (value : PyVal) : Except AsmError PyVal :=
  match op with
  | .add => exprAdd self value
  | .sub => exprSub self value
  | .mul => exprBinary .mul self value
  | .floordiv => exprBinary .div self value
  | .mod => exprBinary .mod self value
  | .and => do                                                 -- AndExpression: signed iff both operands are
    let v ← ensureExpr value
    pure (.ex (.bin .and self v (self.signed && v.signed) .and))
  | .or => exprBinary .or self value
  | .xor => exprBinary .xor self value
  | .lsh => exprBinary .lsh self value
  | .rsh => do
    let v ← ensureExpr value
    pure (mkBin (if self.signed then .arsh else .rsh) self v self.signed)

/-- `value (op) self` with `value` an `int`: the reflected methods -/
def exprROp (op : SOp) (self : Expr) (c : Int) : Except AsmError PyVal :=
  match op with
  | .add => exprAdd self (.int c)                              -- __radd__ = __add__
  | .sub => exprOp .sub (.const c) (.ex self)                  -- Constant(value) - self
  | .mul => exprBinary .mul self (.int c)                      -- __rmul__ = __mul__
  | .floordiv => pure (mkBin .div (.const c) self (self.signed || decide (c < 0)))
  | .mod => exprOp .mod (.const c) (.ex self)
  | .and => exprOp .and self (.int c)                          -- __rand__ = __and__
  | .or => exprBinary .or self (.int c)
  | .xor => exprBinary .xor self (.int c)
  | .lsh => exprOp .lsh (.const c) (.ex self)
  | .rsh => exprOp .rsh (.const c) (.ex self)

/-- Python's `a (op) b` -/
def pyOp (op : SOp) (a b : PyVal) : Except AsmError PyVal :=
  match a, b with
  | .int x, .int y => intOp op x y
  | .int x, .ex e => exprROp op e x
  | .ex l, .ex r =>
    -- the right operand's class is a proper subclass of the left one's and overrides the reflected method:
    -- only `Binary + Sum`, which calls `Sum.__radd__` first
    if op == .add && isPlainBinary l && isSumObj r then exprAdd r (.ex l)
    else exprOp op l b
  | .ex l, .int _ => exprOp op l b

def pyNeg : PyVal → Except AsmError PyVal
  | .int v => pure (.int (-v))
  | .ex e => pure (.ex (.neg e))

def pyAbs : PyVal → Except AsmError PyVal
  | .int v => pure (.int (Int.ofNat v.natAbs))
  | .ex e => pure (.ex (.abs e))

/-! ## surface programs -/

inductive View where
  | r | sr | w | sw
deriving DecidableEq, Repr, Inhabited

def View.long : View → Bool
  | .r | .sr => true | _ => false
def View.signed : View → Bool
  | .sr | .sw => true | _ => false

inductive SExpr where
  | c (v : Int)
  | reg (view : View) (no : Nat)
  | var (name : String)
  | bin (op : SOp) (a b : SExpr)
  | neg (a : SExpr)
  | abs (a : SExpr)
  | m (fmt : Fmt) (addr : SExpr)
deriving Repr, Inhabited

inductive Dest where
  | reg (view : View) (no : Nat)
  | var (name : String)
deriving Repr, Inhabited

inductive Stmt where
  | set (d : Dest) (e : SExpr)
deriving Repr, Inhabited

inductive VarKind where
  | loc | glob
deriving DecidableEq, Repr, Inhabited

structure VarDecl where
  name : String
  fmt : Fmt
  kind : VarKind
deriving Repr, Inhabited

structure Prog where
  owned : List Nat
  vars : List VarDecl
  stmts : List Stmt
deriving Repr, Inhabited

/-- where a declared variable lives: base register and offset -/
structure VarLoc where
  name : String
  fmt : Fmt
  base : Nat
  off : Int
deriving Repr, Inhabited

/-- `LocalVar.__set_name__`: `stack -= size; stack &= -size` in declaration order -/
def layoutLocals : List VarDecl → Int → List VarLoc
  | [], _ => []
  | v :: vs, stack =>
    if v.kind == .loc then
      let s1 := stack - v.fmt.size
      let s2 := s1 - s1 % (v.fmt.size : Int)                  -- s1 & -size (size a power of two)
      ⟨v.name, v.fmt, 10, s2⟩ :: layoutLocals vs s2
    else layoutLocals vs stack

/-- `ArrayMap.collect`: stable sort by size, largest first, then consecutive positions -/
def layoutGlobals (vs : List VarDecl) : List VarLoc :=
  let gs := vs.filter (·.kind == .glob)
  let sorted := [8, 4, 2, 1].flatMap fun s => gs.filter (·.fmt.size == s)
  (sorted.foldl (fun (acc : List VarLoc × Int) v => (acc.1 ++ [⟨v.name, v.fmt, 7, acc.2⟩], acc.2 + v.fmt.size)) ([], 0)).1

def layout (vs : List VarDecl) : List VarLoc := layoutLocals vs 0 ++ layoutGlobals vs

def lookupVar (env : List VarLoc) (name : String) : Option VarLoc := env.find? (·.name == name)

/-- `MemoryDesc.__get__`: `Memory(fmt, r[base] + addr)` -/
def varExpr (l : VarLoc) : Expr := .mem l.fmt (.bin .add (.reg l.base true false) (.const l.off) (l.off < 0) .sum)

/-- `MemoryMap.__getitem__` -/
def memItem (fmt : Fmt) : PyVal → Except AsmError PyVal
  | .ex e =>
    match e with
    | .reg _ _ _ => do
      let a ← exprAdd e (.int 0)                               -- `if isinstance(addr, Register): addr = addr + 0`
      match a with
      | .ex a' => pure (.ex (.mem fmt a'))
      | _ => typeError
    | _ => pure (.ex (.mem fmt e))
  | .int _ => .error (.other "AttributeError")                 -- raised later, by `address.calculate`; see `elabStmt`

/-- walk a surface expression like `dsl.Built.expr` does, operands left to right -/
def elabE (env : List VarLoc) : SExpr → Except AsmError PyVal
  | .c v => pure (.int v)
  | .reg view no => pure (.ex (.reg no view.long view.signed))
  | .var name =>
    match lookupVar env name with
    | some l => pure (.ex (varExpr l))
    | none => .error (.other "AttributeError")
  | .bin op a b => do
    let x ← elabE env a
    let y ← elabE env b
    pyOp op x y
  | .neg a => do pyNeg (← elabE env a)
  | .abs a => do pyAbs (← elabE env a)
  | .m fmt a => do memItem fmt (← elabE env a)

/-! ## statements -/

/-- `RegisterArray.__setitem__` -/
def setReg (no : Nat) (long : Bool) (value : PyVal) : GenM Unit := do
  addOwner no
  match ensureExpr value with
  | .error e => fail e
  | .ok e => do
    let res ← calculate e (some no) (some long) true
    release res.rel

/-- `Memory._set` for a plain format, no fixed point, no IAdd -/
def setMem (fmt : Fmt) (addr : Expr) (value : PyVal) : GenM Unit := do
  match ensureExpr value with
  | .error e => fail e
  | .ok v => do
    let (d, off, arel) ← (match addr.asSum with
      | some (base, off) => (pure (base, off, []) : GenM (Nat × Int × List Nat))
      | none => do
        let ares ← calculate addr none (some true) false
        pure (ares.reg, 0, ares.rel))
    match v.asSmallConst with
    | some c =>
      emit ⟨Consts.op_ST + fmt.sizeOp, d, 0, off, c⟩
      release arel
    | none => do
      let vres ← calculate v none (some fmt.isLong) false
      emit ⟨Consts.op_STX + fmt.sizeOp, d, vres.reg, off, 0⟩
      release vres.rel
      release arel

def emitStmt (env : List VarLoc) : Stmt → GenM Unit
  | .set d e => fun g =>
    match elabE env e with
    | .error err => .error err
    | .ok v =>
      match d with
      | .reg view no => setReg no view.long v g
      | .var name =>
        match lookupVar env name with
        | some l =>
          match varExpr l with
          | .mem fmt addr => setMem fmt addr v g
          | _ => .error (.other "unreachable")
        | none => .error (.other "AttributeError")

def emitStmts (env : List VarLoc) : List Stmt → GenM Unit
  | [] => pure ()
  | s :: ss => do emitStmt env s; emitStmts env ss

def initState (p : Prog) : GenState := { code := [], owners := p.owned, stack := 0 }

/-- the code the generator emits for a program, or the error it raises -/
def emitProg (p : Prog) : Except AsmError (List Insn) :=
  match emitStmts (layout p.vars) p.stmts (initState p) with
  | .ok (_, g) => .ok g.code
  | .error e => .error e

/-! ## defect classes of the unchanged generator (decidable predicates on programs)

Each is refuted on a witness and excluded by hypothesis in `Ebv.C01`; the harness evaluates the same predicates on
the real object tree and compares (part of the correspondence). -/

/-- the width flag `calculate` yields when asked for width `L` -/
def retLong (L : Bool) : Expr → Bool
  | .const v => !(decide (-2147483648 ≤ v) && decide (v < 4294967296))
  | .reg _ lg _ => lg
  | .bin _ _ _ _ _ => L
  | .neg a => L || retLong L a
  | .abs a => L || retLong L a
  | .mem f _ => f.isLong

/-- a register: an unforced `calculate` hands out the register itself (unary operators work on a copy) -/
def regChain : Expr → Bool
  | .reg _ _ _ => true
  | _ => false

/-- where a node is forced to put its result -/
inductive DstCtx where
  | any | temp | reg (n : Nat)
deriving DecidableEq, Repr

def DstCtx.forLeft (d : DstCtx) (r : Expr) : DstCtx :=
  match d with
  | .any => .temp
  | .temp => .temp
  | .reg n => if r.contains n then .temp else .reg n

/-- the argument of a unary operator is forced into the offered destination, else into a fresh temporary -/
def DstCtx.forced : DstCtx → DstCtx
  | .any => .temp
  | d => d

/-- *narrow-reg-in-64*: a 32-bit register view inside a 64-bit computation, except an unsigned one that is moved
(32-bit move, zero-extending) into a different register.  The flags of a `.reg` leaf are those of the view as written
(`elabE`: `view.long`, `view.signed`); the harness mirror takes them from the program text as well (`dsl.reg_view`) -/
def narrowIn64 : Expr → Bool → Bool → DstCtx → Bool
  | .const _, _, _, _ => false
  | .reg no lg sg, L, forced, dst => L && !lg && (sg || !(forced && dst != .reg no))
  | .bin _ l r _ _, L, _, dst =>
    narrowIn64 l L true (dst.forLeft r) || (r.asSmallConst.isNone && narrowIn64 r L false .any)
  | .neg a, L, _, d => narrowIn64 a L true d.forced
  | .abs a, L, _, d => narrowIn64 a L true d.forced
  | .mem _ a, _, _, _ => a.asSum.isNone && narrowIn64 a true false .any

/-- the width a statement asks for and whether/where its value is forced -/
def Dest.long (env : List VarLoc) : Dest → Bool
  | .reg view _ => view.long
  | .var name => match lookupVar env name with | some l => l.fmt.isLong | none => false

def Dest.ctx : Dest → Bool × DstCtx
  | .reg _ no => (true, .reg no)
  | .var _ => (false, .any)

/-- names of the program-level classes a statement is in -/
def stmtClasses (env : List VarLoc) : Stmt → List String
  | .set d e =>
    let L := d.long env
    let (forced, dc) := d.ctx
    let t : List (String × Bool) := match elabE env e with
      | .ok (.ex x) => [("narrow-reg-in-64", narrowIn64 x L forced dc)]
      | _ => []
    (t.filter (·.2)).map (·.1)

end Ebv.Gen
