import Ebv.Model.Eeprom
/-! Histories on living `Terminal` objects (C17, round 6): the same terminal reads its EEPROM again
after the EEPROM changed — `eeprom_write_one` through the register protocol, the device behind the
address exchanged for one with another image / read size / object dictionary —, several terminals
with different images are used alternately, a read fails after `n` bus accesses and the next one
follows, and the layouts are derived again (`parse_sync_managers`, `parse_pdos`,
`Terminal.apply_eeprom` / `EBPFTerminal.apply_eeprom` as run by `initialize`, `gentle_initialize`).

The world is a list of slots; slot `k` holds the attributes of terminal object `k` (`Term`) and the
device that answers at its address now (`Dev`, object dictionary, address register 0x504).  A step
names a slot and an action; everything the real code keeps between two uses is in `Term`. -/
namespace Ebv.Eeprom
open Ebv.Bytes Ebv.Consts

/-! ### `eeprom_write_one` -/

/-- the device stores a 16-bit word at word address `start`; cells beyond the image do not exist -/
def setWord (img : List UInt8) (start val : Nat) : List UInt8 :=
  if 2 * start + 2 ≤ img.length then setRange img (2 * start) (encLE 2 val) else img

/-- bus accesses to register 0x502 in a history step -/
inductive HEv where
  | rd (e : Ev)                 -- status/data poll, read command
  | wcmd (addr val : Nat)       -- `write(0x502, "HIH", 0x201, addr, val)`
  | clr                         -- `write(0x502, "H", 0)`
  | fail                        -- the access that was not answered
deriving Repr, DecidableEq

/-- address register, rest of the busy script, log (newest first) -/
structure HBus where
  addr : Nat
  script : List Poll
  log : List HEv
deriving Repr

/-- `while busy & 0x8000: busy, … = await self.read(0x502, …)` on the history bus -/
def hpoll (d : Dev) (n : Nat) (hb : HBus) : (Nat × List UInt8) × HBus :=
  let r := pollIdle d n ⟨hb.addr, hb.script, []⟩
  (r.1, ⟨hb.addr, r.2.script, r.2.log.map .rd ++ hb.log⟩)

/-- `busy & 0xff00`: with the busy bit clear these are the error bits of the status word -/
def hasErr (w : Nat) : Bool := w &&& 0xff00 != 0

/-- `while busy & 0xff00: write 0x201; poll until not busy; write 0` — the device stores the word
when it gets the command -/
def writeLoop (d : Dev) (start val : Nat) : Nat → HBus → Dev × HBus
  | 0, hb => (d, hb)
  | f + 1, hb =>
    let d' : Dev := { d with image := setWord d.image start val }
    let r := hpoll d' 0 { hb with addr := start, log := .wcmd start val :: hb.log }
    let hb2 : HBus := { r.2 with log := .clr :: r.2.log }
    if hasErr r.1.1 then writeLoop d' start val f hb2 else (d', hb2)

/-- `eeprom_write_one(start, val)`; every round uses up a script element or sees the idle status,
so `script.length + 1` rounds suffice -/
def writeOne (d : Dev) (start val : Nat) (hb : HBus) : Dev × HBus :=
  let r0 := hpoll d 0 hb
  writeLoop d start val (r0.2.script.length + 1) r0.2

/-! ### what a `Terminal` object keeps between uses -/

structure Term where
  /-- `EBPFTerminal` (its `apply_eeprom` goes on to `parse_pdos`) or plain `Terminal` -/
  ebpf : Bool
  /-- `vendorId, productCode`; `none` = attribute never assigned -/
  vp : Option (Nat × Nat) := none
  /-- `revisionNo, serialNo` -/
  rs : Option (Nat × Nat) := none
  eeprom : Option Cats := none
  /-- the attributes `parse_sync_managers` assigns (and `apply_eeprom` overwrites the sizes of) -/
  sm : Option SM := none
  pdos : Option PdoDict := none
deriving Repr

structure Slot where
  term : Term
  dev : Dev
  od : OD
  addr : Nat
deriving Repr

inductive Res where
  | ok
  | okPair (a b : Nat)
  | err (e : Err)
  | failed          -- the read was cut
  | skipped         -- nothing to derive from (no category 41 / no eeprom attribute)
deriving Repr, DecidableEq

/-- what one step shows besides the terminal's attributes -/
structure Obs where
  res : Res
  /-- state right after `parse_sync_managers` ran in this step -/
  sm : Option (SM × Bool) := none
  /-- data written to the sync-manager registers 0x800 in this step -/
  w800 : Option (List UInt8) := none
  /-- accesses to 0x502, oldest first -/
  log : List HEv := []
  rest : Nat := 0
deriving Repr

/-! ### `read_eeprom`, complete or cut after `n` accesses -/

/-- the assignments `self.eeprom[hd] = …` of the category loop, each with the number of bus
accesses made when it happens (same recursion as `catLoop`) -/
def catTrace (d : Dev) : Nat → RState → List (Nat × Nat × List UInt8)
  | 0, _ => []
  | f + 1, st =>
    let h := getData d 4 st
    let hd := decLE (h.1.take 2)
    let ws := decLE (h.1.drop 2)
    if hd = 0xffff then []
    else
      let p := getData d (ws * 2) h.2
      (p.2.bus.log.length, hd, p.1) :: catTrace d f p.2

def isPoll : Ev → Bool
  | .poll _ => true
  | .cmd _ => false

/-- the address register after the accesses `l` (oldest first) -/
def lastCmd (a : Nat) : List Ev → Nat
  | [] => a
  | .cmd x :: l => lastCmd x l
  | .poll _ :: l => lastCmd a l

def Term.afterRead (t : Term) (r : Result) : Term :=
  { t with vp := some (r.vendorId, r.productCode), rs := some (r.revisionNo, r.serialNo), eeprom := r.eeprom }

/-- `read_eeprom()`; with `budget = some n` the bus answers only `n` accesses: the attributes
assigned up to then stay, the others keep their old values -/
def doRead (s : Slot) (script : List Poll) (budget : Option Nat) : Slot × Obs :=
  let b0 : Bus := ⟨s.addr, script, []⟩
  let r := readEeprom s.dev b0
  let n := budget.getD r.bus.log.length
  if r.bus.log.length ≤ n then
    ({ s with term := s.term.afterRead r, addr := r.bus.addr },
     { res := .ok, log := r.bus.log.reverse.map .rd, rest := r.bus.script.length })
  else
    let r1 := readOne s.dev eeprom_VENDOR_ID b0
    let r2 := readOne s.dev eeprom_REVISION r1.2
    let tr := catTrace s.dev (s.dev.image.length + 1) { bus := r2.2, pos := catStart, buf := [] }
    let pre := r.bus.log.reverse.take n
    let t : Term :=
      { s.term with
        vp := if r1.2.log.length ≤ n then some (r.vendorId, r.productCode) else s.term.vp
        rs := if r2.2.log.length ≤ n then some (r.revisionNo, r.serialNo) else s.term.rs
        eeprom := some (dictOfFrom [] ((tr.filter fun x => x.1 ≤ n).map (·.2))) }
    ({ s with term := t, addr := lastCmd s.addr pre },
     { res := .failed, log := pre.map .rd ++ [.fail], rest := script.length - (pre.filter isPoll).length })

def doWrite (s : Slot) (start val : Nat) (script : List Poll) : Slot × Obs :=
  let r := writeOne s.dev start val ⟨s.addr, script, []⟩
  ({ s with dev := r.1, addr := r.2.addr }, { res := .ok, log := r.2.log.reverse, rest := r.2.script.length })

/-! ### deriving the layouts again -/

/-- `parse_sync_managers(data)` on the terminal -/
def smInto (t : Term) (data : List UInt8) : Term × (SM × Bool) :=
  let p := parseSM data
  ({ t with sm := some p.1 }, p)

def resOfSm (ok : Bool) : Res := if ok then .ok else .err .struct

def doSmData (s : Slot) : Option (List UInt8) → Slot × Obs
  | none => (s, { res := .skipped })
  | some data =>
    let r := smInto s.term data
    ({ s with term := r.1 }, { res := resOfSm r.2.2, sm := some r.2 })

/-- `if 41 in t.eeprom: t.parse_sync_managers(t.eeprom[41])` -/
def doSm (s : Slot) : Slot × Obs :=
  doSmData s (dictGet (s.term.eeprom.getD []) catSM)

def resOfPair : Except Err (Nat × Nat) → Res
  | .ok (a, b) => .okPair a b
  | .error e => .err e

/-- `parse_pdos()`: `self.pdos = {}`, then `has_mailbox()` reads the sync-manager attributes and
the source is the object dictionary of the device now present, or `self.eeprom` -/
def pdosInto (t : Term) (od : OD) : Option SM → Term × Except Err (Nat × Nat)
  | none => ({ t with pdos := some [] }, .error .attribute)
  | some sm =>
    if !hasMailbox sm && t.eeprom.isNone then ({ t with pdos := some [] }, .error .attribute)
    else
      let p := parsePdos (hasMailbox sm) od (t.eeprom.getD [])
      ({ t with pdos := some p.1 }, p.2)

def doPdos (s : Slot) : Slot × Obs :=
  let r := pdosInto s.term s.od s.term.sm
  ({ s with term := r.1 }, { res := resOfPair r.2 })

/-- `assert not self.pdo_*_sz or self.pdo_*_off` -/
def offOk (sz : Nat) (o : Option (Nat × Nat)) : Bool :=
  sz == 0 || (match o with | some (off, _) => off != 0 | none => false)

def setSz (o : Option (Nat × Nat)) (sz : Nat) : Option (Nat × Nat) := o.map fun x => (x.1, sz)

/-- the rest of `EBPFTerminal.apply_eeprom` after `parse_pdos` returned `(ob, ib)` -/
def sizesInto (t : Term) (ob ib : Nat) : Option SM → Term × Res
  | none => (t, .err .attribute)
  | some sm =>
    let osz := (ob + 7) / 8
    let isz := (ib + 7) / 8
    let sm1 : SM := { sm with pdo_out := setSz sm.pdo_out osz }
    if !offOk osz sm.pdo_out then ({ t with sm := some sm1 }, .err .assertion)
    else
      let sm2 : SM := { sm1 with pdo_in := setSz sm.pdo_in isz }
      if !offOk isz sm.pdo_in then ({ t with sm := some sm2 }, .err .assertion)
      else ({ t with sm := some sm2 }, .okPair osz isz)

def ebpfRest (t : Term) (od : OD) : Term × Res :=
  let r := pdosInto t od t.sm
  match r.2 with
  | .error e => (r.1, .err e)
  | .ok (ob, ib) => sizesInto r.1 ob ib r.1.sm

/-- `Terminal.apply_eeprom` after `read_eeprom`: category 41 present → registers loaded, parsed -/
def applySm (t : Term) : Option (List UInt8) → Term × Option (SM × Bool)
  | none => (t, none)
  | some data =>
    let r := smInto t data
    (r.1, some r.2)

def applyRest (t : Term) (od : OD) (smData : Option (List UInt8)) : Term × Obs :=
  let a := applySm t smData
  let smOk := match a.2 with | some p => p.2 | none => true
  if !smOk then (a.1, { res := .err .struct, sm := a.2, w800 := smData })
  else if !t.ebpf then (a.1, { res := .ok, sm := a.2, w800 := smData })
  else
    let e := ebpfRest a.1 od
    (e.1, { res := e.2, sm := a.2, w800 := smData })

/-- `apply_eeprom()` of the terminal's class, as `initialize` runs it -/
def doApply (s : Slot) (script : List Poll) : Slot × Obs :=
  let r := readEeprom s.dev ⟨s.addr, script, []⟩
  let t1 := s.term.afterRead r
  let a := applyRest t1 s.od (dictGet (r.eeprom.getD []) catSM)
  ({ s with term := a.1, addr := r.bus.addr },
   { a.2 with log := r.bus.log.reverse.map .rd, rest := r.bus.script.length })

/-- `gentle_initialize` of a terminal that is not in INIT: `read_eeprom`, then the sync managers
are parsed from the registers 0x800.. (`regs`), not from the EEPROM -/
def doGentle (s : Slot) (regs : List UInt8) (script : List Poll) : Slot × Obs :=
  let r := readEeprom s.dev ⟨s.addr, script, []⟩
  let a := smInto (s.term.afterRead r) regs
  ({ s with term := a.1, addr := r.bus.addr },
   { res := resOfSm a.2.2, sm := some a.2, log := r.bus.log.reverse.map .rd, rest := r.bus.script.length })

/-! ### histories -/

inductive Act where
  | read (script : List Poll) (budget : Option Nat)
  | write (start val : Nat) (script : List Poll)
  /-- the device at the terminal's address is exchanged -/
  | swap (dev : Dev) (od : OD)
  | sm
  | pdos
  | apply (script : List Poll)
  | gentle (regs : List UInt8) (script : List Poll)
deriving Repr

def act (s : Slot) : Act → Slot × Obs
  | .read sc b => doRead s sc b
  | .write st v sc => doWrite s st v sc
  | .swap d od => ({ s with dev := d, od := od, addr := 0 }, { res := .ok })
  | .sm => doSm s
  | .pdos => doPdos s
  | .apply sc => doApply s sc
  | .gentle regs sc => doGentle s regs sc

structure Step where
  k : Nat
  act : Act
deriving Repr

def updAt (f : Slot → Slot) : List Slot → Nat → List Slot
  | [], _ => []
  | s :: w, 0 => f s :: w
  | s :: w, k + 1 => s :: updAt f w k

/-- one step changes the slot it names (a step naming no slot changes nothing) -/
def stepW (w : List Slot) (st : Step) : List Slot := updAt (fun s => (act s st.act).1) w st.k

def runW (w : List Slot) (steps : List Step) : List Slot := steps.foldl stepW w

/-- the same history with what every step shows: the terminal afterwards and the observation -/
def runObs : List Slot → List Step → List (Option (Term × Obs))
  | _, [] => []
  | w, st :: steps =>
    (w[st.k]?.map fun s => let r := act s st.act; (r.1.term, r.2)) :: runObs (stepW w st) steps

/-- a slot followed on its own -/
def runSlot (s : Slot) (acts : List Act) : Slot := acts.foldl (fun s a => (act s a).1) s

def actsFor (k : Nat) (steps : List Step) : List Act := (steps.filter fun st => st.k == k).map (·.act)

/-- the declared effect of a history on a device: only writes and exchanges count -/
def devEffect (x : Dev × OD) : Act → Dev × OD
  | .write st v _ => ({ x.1 with image := setWord x.1.image st v }, x.2)
  | .swap d od => (d, od)
  | .read _ _ => x
  | .sm => x
  | .pdos => x
  | .apply _ => x
  | .gentle _ _ => x

def devAfter (x : Dev × OD) (l : List Act) : Dev × OD := l.foldl devEffect x

end Ebv.Eeprom
