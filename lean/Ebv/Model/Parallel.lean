import Ebv.Generated.Consts
/-! Model of `ParallelEtherCat.run` (ebpfcat/ebpfcat.py) for several processes sharing one interface,
with `LockFile.__init__/remove` and `FMMULock.__init__/get_next_addr/remove` (ebpfcat/lock.py).

Every participant is a process executing the file-system / bpf / netlink operations of `run` in the
code's order; one model step = one such operation (calls without effect on shared state — `makedirs(…,
exist_ok=True)`, `connect`, `EtherXDP()`, `ebpf.close()`, `sleep` — are merged into the following one).
A schedule is the list of participant numbers that perform their next operation; a participant that is
not scheduled any more has crashed (or is simply slow).  POSIX semantics assumed: `open(…,'x')`/`O_EXCL`
atomic; `rename(dir, dir)` succeeds iff the target is absent or an *empty* directory; `rmdir` succeeds
iff the directory is empty; `lockf` record locks belong to the process; netlink `IFLA_XDP_FD` replaces
whatever program is attached and fd −1 detaches whatever is attached. -/
namespace Ebv.Parallel
open Ebv.Consts

/-- program counter = the next operation of `run` -/
inductive Pc where
  | mkdtemp | openTmp | rename
  -- joiner (`except OSError` of rename)
  | rmtreeTmp | openLock | objGet1 | objGet2 | excRemove
  -- installer (`else`)
  | createMap | removeOld | attach | objPin | excRmtree
  -- LockFile(...)  and  FMMULock(...)
  | mbxOpen | mbxWrite | mbxReopen | fmOpen | fmLock | fmRead | fmFix | fmTrunc | fmSet | fmUnlock
  | running
  -- `finally`
  | removeMember | rmdir | detach | removePin | mbxRemove | fmRLock | fmRRead | fmRClear | fmRUnlock
  | done | failed
deriving Repr, DecidableEq

/-- per-participant configuration: the values `randrange` returns (ethertype candidates, FMMU
process numbers), how often `get_fmmu_addr` is called while running, and an injected
environment fault (netlink attach raises) to reach the installer's `except` path -/
structure Cfg where
  etDraws : List Nat := []
  fmDraws : List Nat := []
  nAddr : Nat := 0
  attachFails : Bool := false
deriving Repr, DecidableEq

structure Proc where
  pc : Pc := .mkdtemp
  et : Nat := ethertype          -- `self.ethertype`
  etDraws : List Nat := []
  etFallback : Nat := etLo      -- once the scripted draws are used up: etLo, etLo+1, …
  fmDraws : List Nat := []
  nAddr : Nat := 0
  attachFails : Bool := false
  installer : Bool := false
  progs : Option Nat := none     -- the program table it uses (named by its creator)
  fmNo : Nat := 0                -- process number in the FMMU bitmap (base_addr >> 22)
  fmBuf : List Nat := []         -- what `pread` returned
  exc : Bool := false            -- an exception is propagating through `finally: lockf(LOCK_UN)`
  trace : List String := []
deriving Repr, DecidableEq

/-- shared state: files and the interface -/
structure Sys where
  lockdir : Option (List (Nat × Nat)) := none    -- member files (ethertype, creator)
  pin : Option Nat := none                       -- /sys/fs/bpf/<if>/programs → table
  attached : Option Nat := none                  -- dispatcher attached, using that table
  mbx : Bool := false                            -- /run/ebpf/<if> exists
  fm : Option (List Nat) := none                 -- /run/ebpf/<if>.fmmu: none = absent, bytes
  fmLock : Option Nat := none                    -- holder of the whole-file record lock
  procs : List Proc := []
deriving Repr, DecidableEq

/-- all participants before `run`; `fm0` = an FMMU bitmap file left by an earlier session (it is never unlinked) -/
def init (cfgs : List Cfg) (fm0 : Option (List Nat) := none) : Sys :=
  { fm := fm0, procs := cfgs.map fun c => { etDraws := c.etDraws, fmDraws := c.fmDraws, nAddr := c.nAddr, attachFails := c.attachFails } }

/-! ### helpers -/

def getP (s : Sys) (i : Nat) : Proc := s.procs.getD i {}

def setP (s : Sys) (i : Nat) (p : Proc) : Sys := { s with procs := s.procs.set i p }

/-- next value of `randrange(0x3000, 0x6000)` -/
def drawEt (p : Proc) : Nat × Proc :=
  match p.etDraws with
  | d :: r => (d, { p with etDraws := r })
  | [] => (p.etFallback, { p with etFallback := p.etFallback + 1 })

def hasName (ms : List (Nat × Nat)) (e : Nat) : Bool := ms.any fun m => m.1 == e

/-- `os.remove(lockdir/<e>.lock)` — by name -/
def rmName (ms : List (Nat × Nat)) (e : Nat) : List (Nat × Nat) := ms.filter fun m => m.1 != e

/-- bit `n` of the bitmap bytes (`addrmap[n // 8] & (1 << n % 8)`) -/
def bitSet (f : List Nat) (n : Nat) : Bool := (f.getD (n / 8) 0).testBit (n % 8)

/-- `os.pwrite(fd, bytes([v]), i)`: a write past the end pads with zero bytes -/
def pwriteByte (f : List Nat) (i v : Nat) : List Nat :=
  if i < f.length then f.set i v else f ++ List.replicate (i - f.length) 0 ++ [v]

/-- `os.pwrite(fd, bs, 0)` -/
def pwrite0 (f bs : List Nat) : List Nat := bs ++ f.drop bs.length

def fmInit : List Nat := 2 :: List.replicate (fmSize - 1) 0
def fmZero : List Nat := List.replicate fmSize 0

/-- the `while addrmap[addr // 8] & (1 << addr % 8): addr = randrange(1, 1 << 9)` loop: first scripted
draw that is free (values outside `randrange`'s range never occur and are skipped), afterwards 1, 2, 3, …
(none: the real loop never ends) -/
def pickNo (buf : List Nat) : List Nat → Option Nat
  | d :: r => if 1 ≤ d && d < fmProcs && !bitSet buf d then some d else pickNo buf r
  | [] => (List.range fmProcs).find? fun n => n ≥ 1 && !bitSet buf n

def emit (p : Proc) (t : String) : Proc := { p with trace := p.trace ++ [t] }

/-- base of the logical address window of process number `n`, and the last address
`get_fmmu_addr` handed out after `k` calls (`base_addr += 1 << 12`) -/
def winBase (n : Nat) : Nat := n * fmWindow
def lastAddr (n k : Nat) : Nat := n * fmWindow + k * fmGroup

/-- `get_next_addr` succeeds while the address stays inside the process's range -/
def maxGroups : Nat := fmWindow / fmGroup - 1
def granted (p : Proc) : Nat := min p.nAddr maxGroups

/-! ### one operation of participant `i` -/

/-- start of `run` up to the end of the joiner / installer branch -/
def stepStart (s : Sys) (i : Nat) (p : Proc) : Sys :=
  match p.pc with
  | .mkdtemp => setP s i { emit p "mkdtemp" with pc := .openTmp }
  | .openTmp => setP s i { emit p s!"open_x:{p.et}:ok" with pc := .rename }
  | .rename =>
    match s.lockdir with
    | none | some [] =>
      setP { s with lockdir := some [(p.et, i)] } i { emit p "rename:ok" with pc := .createMap, installer := true }
    | some _ => setP s i { emit p "rename:fail" with pc := .rmtreeTmp }
  | .rmtreeTmp => setP s i { emit p "rmtree_tmp" with pc := .openLock }
  | .openLock =>
    match s.lockdir with
    | none => setP s i { emit p s!"open_x:{p.et}:enoent" with pc := .failed }
    | some ms =>
      if hasName ms p.et then
        let (d, p') := drawEt p
        setP s i { emit p' s!"open_x:{p.et}:exists" with et := d }
      else
        setP { s with lockdir := some (ms ++ [(p.et, i)]) } i { emit p s!"open_x:{p.et}:ok" with pc := .objGet1 }
  | .objGet1 =>
    match s.pin with
    | some m => setP s i { emit p "obj_get:ok" with pc := .mbxOpen, progs := some m }
    | none => setP s i { emit p "obj_get:enoent" with pc := .objGet2 }
  | .objGet2 =>
    match s.pin with
    | some m => setP s i { emit p "obj_get:ok" with pc := .mbxOpen, progs := some m }
    | none => setP s i { emit p "obj_get:enoent" with pc := .excRemove }
  | .excRemove =>
    match s.lockdir with
    | some ms =>
      if hasName ms p.et then
        setP { s with lockdir := some (rmName ms p.et) } i { emit p "remove_member:ok" with pc := .failed }
      else setP s i { emit p "remove_member:enoent" with pc := .failed }
    | none => setP s i { emit p "remove_member:enoent" with pc := .failed }
  | .createMap => setP s i { emit p "create_map" with pc := .removeOld, progs := some i }
  | .removeOld =>
    match s.pin with
    | some _ => setP { s with pin := none } i { emit p "remove_pin:ok" with pc := .attach }
    | none => setP s i { emit p "remove_pin:enoent" with pc := .attach }
  | .attach =>
    if p.attachFails then setP s i { emit p "attach:fail" with pc := .excRmtree }
    else setP { s with attached := some i } i { emit p "attach" with pc := .objPin }
  | .objPin =>
    match s.pin with
    | none => setP { s with pin := some i } i { emit p "obj_pin:ok" with pc := .mbxOpen }
    | some _ => setP s i { emit p "obj_pin:exists" with pc := .excRmtree }
  | .excRmtree => setP { s with lockdir := none } i { emit p "rmtree_lock" with pc := .failed }
  | _ => s

def canLock (s : Sys) (i : Nat) : Bool :=
  match s.fmLock with
  | none => true
  | some h => h == i

/-- `data[0] & ~(1 << k)` -/
def clearBit (b k : Nat) : Nat := b ^^^ (b &&& 2 ^ k)

/-- `LockFile(...)` and `FMMULock(...)` -/
def stepFiles (s : Sys) (i : Nat) (p : Proc) : Sys :=
  match p.pc with
  | .mbxOpen =>
    if s.mbx then setP s i { emit p "mbx_open:exists" with pc := .mbxReopen }
    else setP { s with mbx := true } i { emit p "mbx_open:created" with pc := .mbxWrite }
  | .mbxWrite => setP s i { emit p "mbx_trunc" with pc := .fmOpen }   -- `os.ftruncate(fd, maximum - minimum + 1)`
  | .mbxReopen =>
    if s.mbx then setP s i { emit p "mbx_reopen:ok" with pc := .fmOpen }
    else setP s i { emit p "mbx_reopen:enoent" with pc := .failed }
  | .fmOpen =>
    -- `os.open(O_CREAT | O_RDWR)`: creates an empty file if there is none; no separate creator path
    setP { s with fm := some (s.fm.getD []) } i { emit p "fm_open" with pc := .fmLock }
  | .fmLock =>
    if canLock s i then setP { s with fmLock := some i } i { emit p "fm_lock" with pc := .fmRead } else s
  | .fmRead =>
    let buf := (s.fm.getD []).take fmSize
    setP s i { emit p s!"fm_read:{buf.length}" with pc := if buf.length = fmSize then .fmSet else .fmFix, fmBuf := buf }
  | .fmFix =>
    setP { s with fm := some (pwrite0 (s.fm.getD []) fmZero) } i { emit p "fm_fix" with pc := .fmTrunc, fmBuf := fmZero }
  | .fmTrunc => setP { s with fm := some ((s.fm.getD []).take fmSize) } i { emit p "fm_trunc" with pc := .fmSet }
  | .fmSet =>
    match pickNo p.fmBuf p.fmDraws with
    | some n =>
      let v := p.fmBuf.getD (n / 8) 0 ||| 2 ^ (n % 8)
      setP { s with fm := some (pwriteByte (s.fm.getD []) (n / 8) v) } i
        { emit p s!"fm_pwrite:{n / 8}:{v}" with pc := .fmUnlock, fmNo := n }
    | none => s
  | .fmUnlock =>
    -- the body: `nAddr` calls of `get_fmmu_addr`; a call beyond the process's range raises, and the
    -- `finally` block of `run` is entered with that exception
    if p.nAddr ≤ maxGroups then setP { s with fmLock := none } i { emit p "fm_unlock" with pc := .running }
    else setP { s with fmLock := none } i { emit p "fm_unlock" with pc := .removeMember, exc := true }
  | _ => s

/-- the process number `FMMULock.remove` computes from `base_addr` after `nAddr` calls of `get_next_addr` -/
def rmNo (p : Proc) : Nat := lastAddr p.fmNo (granted p) / fmWindow

/-- the `finally` block of `run` -/
def stepExit (s : Sys) (i : Nat) (p : Proc) : Sys :=
  match p.pc with
  | .running => setP s i { emit p "leave" with pc := .removeMember }
  | .removeMember =>
    match s.lockdir with
    | some ms =>
      if hasName ms p.et then
        setP { s with lockdir := some (rmName ms p.et) } i { emit p "remove_member:ok" with pc := .rmdir }
      else setP s i { emit p "remove_member:enoent" with pc := .failed }
    | none => setP s i { emit p "remove_member:enoent" with pc := .failed }
  | .rmdir =>
    match s.lockdir with
    | some [] => setP { s with lockdir := none } i { emit p "rmdir:ok" with pc := .detach }
    | _ => setP s i { emit p "rmdir:fail" with pc := if p.exc then .failed else .done }
  | .detach => setP { s with attached := none } i { emit p "detach" with pc := .removePin }
  | .removePin =>
    match s.pin with
    | some _ => setP { s with pin := none } i { emit p "remove_pin:ok" with pc := .mbxRemove }
    | none => setP s i { emit p "remove_pin:enoent" with pc := .failed }
  | .mbxRemove =>
    if s.mbx then setP { s with mbx := false } i { emit p "mbx_remove:ok" with pc := .fmRLock }
    else setP s i { emit p "mbx_remove:enoent" with pc := .failed }
  | .fmRLock =>
    if canLock s i then setP { s with fmLock := some i } i { emit p "fm_lock" with pc := .fmRRead } else s
  | .fmRRead =>
    let f := s.fm.getD []
    if rmNo p / 8 < f.length then
      setP s i { emit p "fm_rread:ok" with pc := .fmRClear, fmBuf := [f.getD (rmNo p / 8) 0] }
    else setP s i { emit p "fm_rread:short" with pc := .fmRUnlock, exc := true }
  | .fmRClear =>
    let v := clearBit (p.fmBuf.getD 0 0) (rmNo p % 8)
    setP { s with fm := some (pwriteByte (s.fm.getD []) (rmNo p / 8) v) } i
      { emit p s!"fm_pwrite:{rmNo p / 8}:{v}" with pc := .fmRUnlock }
  | .fmRUnlock => setP { s with fmLock := none } i { emit p "fm_unlock" with pc := if p.exc then .failed else .done }
  | _ => s

def step (s : Sys) (i : Nat) : Sys :=
  if i < s.procs.length then
    let p := getP s i
    stepExit (stepFiles (stepStart s i p) i p) i p
  else s

def run (s : Sys) (sched : List Nat) : Sys := sched.foldl step s

/-! ### the clauses of the property as state predicates -/

/-- holds a member file `<et>.lock` in the lock directory (from the successful `open(…,'x')` /
`rename` until its `os.remove`) -/
def Pc.member : Pc → Bool
  | .objGet1 | .objGet2 | .excRemove | .createMap | .removeOld | .attach | .objPin | .excRmtree
  | .mbxOpen | .mbxWrite | .mbxReopen | .fmOpen | .fmLock | .fmRead | .fmFix | .fmTrunc | .fmSet
  | .fmUnlock | .running | .removeMember => true
  | _ => false

/-- the install section: from the successful `rename` to `obj_pin` -/
def Pc.install : Pc → Bool
  | .createMap | .removeOld | .attach | .objPin => true
  | _ => false

/-- `[a, a+n)` and `[b, b+m)` are disjoint -/
def disjoint (a n b m : Nat) : Bool := a + n ≤ b || b + m ≤ a

/-- logical addresses a running participant may use: its process window start up to the end of the
last sync-group block `get_fmmu_addr` handed out -/
def winLo (p : Proc) : Nat := winBase p.fmNo
def winLen (p : Proc) : Nat := (granted p + 1) * fmGroup

/-- the values `ParallelEtherCat.get_fmmu_addr` returned to a participant that reached its body, in call order:
the k-th call gives `base_addr + k * fmGroup` (unchanged by the wrapper); each one names a block of `fmGroup`
bytes (the low bits address the EtherCAT packet) -/
def givenAddrs (p : Proc) : List Nat := (List.range (granted p)).map fun k => lastAddr p.fmNo (k + 1)

def EthertypesDistinct (s : Sys) : Prop :=
  ∀ i j, i < s.procs.length → j < s.procs.length → i ≠ j →
    (getP s i).pc.member = true → (getP s j).pc.member = true → (getP s i).et ≠ (getP s j).et

def SingleInstaller (s : Sys) : Prop :=
  ∀ i j, i < s.procs.length → j < s.procs.length → i ≠ j →
    ¬ ((getP s i).pc.install = true ∧ (getP s j).pc.install = true)

def InstalledWhileRunning (s : Sys) : Prop :=
  ∀ i, i < s.procs.length → (getP s i).pc = .running →
    ∃ m, s.attached = some m ∧ s.pin = some m ∧ (getP s i).progs = some m

def FmmuWindowsDisjoint (s : Sys) : Prop :=
  ∀ i j, i < s.procs.length → j < s.procs.length → i ≠ j →
    (getP s i).pc = .running → (getP s j).pc = .running →
    disjoint (winLo (getP s i)) (winLen (getP s i)) (winLo (getP s j)) (winLen (getP s j)) = true

/-- the blocks named by the addresses actually handed to two different running participants never overlap -/
def GivenDisjoint (s : Sys) : Prop :=
  ∀ i j, i < s.procs.length → j < s.procs.length → i ≠ j →
    (getP s i).pc = .running → (getP s j).pc = .running →
    ∀ a ∈ givenAddrs (getP s i), ∀ b ∈ givenAddrs (getP s j), disjoint a fmGroup b fmGroup = true

/-- decidable versions (driver, refutations) -/
def allPairs (n : Nat) (f : Nat → Nat → Bool) : Bool :=
  (List.range n).all fun i => (List.range n).all fun j => i == j || f i j

def ethertypesDistinctB (s : Sys) : Bool :=
  allPairs s.procs.length fun i j =>
    !((getP s i).pc.member && (getP s j).pc.member) || (getP s i).et != (getP s j).et

def singleInstallerB (s : Sys) : Bool :=
  allPairs s.procs.length fun i j => !((getP s i).pc.install && (getP s j).pc.install)

def installedB (s : Sys) : Bool :=
  (List.range s.procs.length).all fun i =>
    (getP s i).pc != .running ||
      (s.attached.isSome && s.attached == s.pin && (getP s i).progs == s.pin)

def windowsDisjointB (s : Sys) : Bool :=
  allPairs s.procs.length fun i j =>
    !((getP s i).pc == .running && (getP s j).pc == .running) ||
      disjoint (winLo (getP s i)) (winLen (getP s i)) (winLo (getP s j)) (winLen (getP s j))

/-- first prefix length of the schedule after which `bad` holds -/
def firstBad (bad : Sys → Bool) (s : Sys) : List Nat → Nat → Option Nat
  | [], k => if bad s then some k else none
  | i :: r, k => if bad s then some k else firstBad bad (step s i) r (k + 1)

/-! ### the schedules on which `installed_while_running` is provable -/

/-- the start section of `run`: everything before `LockFile(...)` -/
def Pc.startSec : Pc → Bool
  | .mkdtemp | .openTmp | .rename | .rmtreeTmp | .openLock | .objGet1 | .objGet2 | .excRemove
  | .createMap | .removeOld | .attach | .objPin | .excRmtree => true
  | _ => false

/-- the last leaver after its successful `rmdir`, before it has finished `remove(programs)` -/
def Pc.lateExit : Pc → Bool
  | .detach | .removePin => true
  | _ => false

def noneLate (s : Sys) : Bool := (List.range s.procs.length).all fun j => !(getP s j).pc.lateExit

/-- the step is outside the two race windows: no operation of a start section while a last leaver is between
`rmdir` and `remove(programs)`, and no `rename` that succeeds while an old programs file exists -/
def okStep (s : Sys) (i : Nat) : Bool :=
  (!(getP s i).pc.startSec || noneLate s) &&
  (!((getP s i).pc == .rename && (s.lockdir == none || s.lockdir == some [])) || s.pin == none)

def Quiet (s : Sys) : List Nat → Bool
  | [] => true
  | i :: r => okStep s i && Quiet (step s i) r

end Ebv.Parallel
