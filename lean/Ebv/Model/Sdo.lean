import Ebv.Model.Bytes
import Ebv.Generated.Consts
/-! Master side of CoE SDO transfers: `Terminal.sdo_read`, `sdo_write`, `mbx_send`,
`mbx_recv` (ebpfcat/ethercat.py) with `datasize` and the packing `EtherCat.roundtrip`
does for them.  The coroutines become functions of what the terminal will answer:

* `fulls` — bit 3 of register 0x805 as read by the successive `mbx_send`s,
* `mails` — the successive contents of the terminal's send mailbox, each with the number
  of polls of register 0x80D that still find it empty,

and produce the trace of bus accesses (status polls, the mailbox write with its bytes, the
write of the mailbox's last byte, the mailbox read) and the way the call ends.
Python is followed line by line (the code after the `fix:` commits 7fef356 and a0eb33f).

Domain (not checked by the code, assumed by the model): `16 ≤ outSz`, `16 ≤ inSz`,
`index < 65536`, `subindex < 256`, every mail is `inSz` bytes long as read. -/
namespace Ebv.Sdo
open Ebv.Bytes Ebv.Consts

structure Params where
  outSz : Nat            -- mbx_out_sz (master → terminal)
  inSz : Nat             -- mbx_in_sz (terminal → master)
  index : Nat
  sub : Option Nat       -- `None`: complete access
deriving Repr, DecidableEq

structure Mail where
  delay : Nat            -- reads of 0x80D answered "empty" before it shows
  raw : List UInt8       -- the bytes read at mbx_in_off
deriving Repr, DecidableEq

inductive Ev where
  | st0 (full : Bool)        -- FPRD 0x805
  | st1 (ready : Bool)       -- FPRD 0x80D
  | send (msg : List UInt8)  -- FPWR mbx_out_off: mailbox header + payload
  | kick                     -- FPWR mbx_out_off + mbx_out_sz - 1, one zero byte
  | recv                     -- FPRD mbx_in_off, mbx_in_sz bytes
deriving Repr, DecidableEq

inductive Err where
  | blocked        -- waits for mail that never comes
  | ethercat       -- EtherCatError
  | valueError     -- MBXType(x) for an x that is no mailbox type
  | structError    -- unpack of a too short response / pack of a too large length
deriving Repr, DecidableEq

inductive R (α : Type) where
  | ok (a : α)
  | err (e : Err)
deriving Repr, DecidableEq

structure St where
  cnt : Nat                -- MailboxLock.counter
  fulls : List Bool
  mails : List Mail
  tr : List Ev
deriving Repr, DecidableEq

def M (α : Type) := St → St × R α

def M.pure (a : α) : M α := fun s => (s, .ok a)
def M.bind (x : M α) (f : α → M β) : M β := fun s =>
  match x s with
  | (s', .ok a) => f a s'
  | (s', .err e) => (s', .err e)
instance : Monad M where
  pure := M.pure
  bind := M.bind

def fail (e : Err) : M α := fun s => (s, .err e)
def emit (evs : List Ev) : M Unit := fun s => ({ s with tr := s.tr ++ evs }, .ok ())

/-! ### byte access as `struct.unpack` does it -/
def u16 (bs : List UInt8) (o : Nat) : Nat := decLE (slice bs o (o + 2))
def u32 (bs : List UInt8) (o : Nat) : Nat := decLE (slice bs o (o + 4))
def byte (bs : List UInt8) (o : Nat) : Nat := (bs.getD o 0).toNat

/-! ### mbx_recv -/

/-- the poll loop `while status & 8 == 0` and the mailbox read, for a mail that is there after `d` polls -/
def polls (d : Nat) : List Ev := List.replicate d (.st1 false) ++ [.st1 true, .recv]

/-- `dlen, address, prio, type, data = read(mbx_in_off, "HHBB", data=mbx_in_sz - 6)`;
`return MBXType(type & 0xf), data[:dlen]` -/
def decodeMail (raw : List UInt8) : R (Nat × List UInt8) :=
  let dlen := u16 raw 0
  let typ := byte raw 5 &&& 0xf
  if mbxTypes.contains typ then .ok (typ, (raw.drop 6).take dlen) else .err .valueError

def mbxRecv : M (Nat × List UInt8) := fun s =>
  match s.mails with
  | [] => (s, .err .blocked)
  | m :: ms => ({ s with mails := ms, tr := s.tr ++ polls m.delay }, decodeMail m.raw)

/-- `type = None; while type is not MBXType.COE: type, data = await self.mbx_recv()` -/
def recvCoeL : List Mail → List Ev × List Mail × R (List UInt8)
  | [] => ([], [], .err .blocked)
  | m :: ms =>
    match decodeMail m.raw with
    | .err e => (polls m.delay, ms, .err e)
    | .ok (t, data) =>
      if t = mbx_COE then (polls m.delay, ms, .ok data)
      else
        let (evs, rest, r) := recvCoeL ms
        (polls m.delay ++ evs, rest, r)

def recvCoe : M (List UInt8) := fun s =>
  let (evs, rest, r) := recvCoeL s.mails
  ({ s with mails := rest, tr := s.tr ++ evs }, r)

/-! ### mbx_send -/

/-- `status, = await self.read(0x805, "B")`; `status & 8` -/
def pollOut : M Bool := fun s =>
  match s.fulls with
  | [] => ({ s with tr := s.tr ++ [.st0 false] }, .ok false)
  | f :: fs => ({ s with fulls := fs, tr := s.tr ++ [.st0 f] }, .ok f)

/-- `MailboxLock.next_counter` -/
def nextCounter : M Nat := fun s => ({ s with cnt := s.cnt % mbxMod + 1 }, .ok s.cnt)

/-- `pack("<HHBB", datasize(args, data), address, channel | priority << 6, type.value | counter << 4)`
with address = priority = channel = 0 -/
def mbxHeader (len typ cnt : Nat) : List UInt8 :=
  encLE 2 len ++ encLE 2 0 ++ [UInt8.ofNat (0 ||| 0 <<< 6), UInt8.ofNat (typ ||| cnt <<< 4)]

def discardMail : M Unit := fun s =>
  match mbxRecv s with
  | (s', .ok _) => (s', .ok ())
  | (s', .err e) => (s', .err e)

/-- `mbx_send(MBXType.COE, fmt, *values, data=…)`; `body` is what `fmt`, the values and `data` pack to,
so `datasize(args, data) = body.length` -/
def mbxSend (body : List UInt8) : M Unit := do
  let full ← pollOut
  if full then
    discardMail              -- `etype, edata = await self.mbx_recv()`: logged and dropped
  let c ← nextCounter
  if body.length ≥ 65536 then fail .structError
  else emit [.send (mbxHeader body.length mbx_COE c ++ body), .kick]

/-- `pack("<HBHB", coe, cmd, index, subindex)` -/
def sdoHdr (coe cmd idx sub : Nat) : List UInt8 :=
  encLE 2 coe ++ [UInt8.ofNat cmd] ++ encLE 2 idx ++ [UInt8.ofNat sub]

/-- `1 if subindex is None else subindex` -/
def subOr1 (p : Params) : Nat := p.sub.getD 1

/-- `mbx_send(…)` followed by `type = None; while type is not MBXType.COE: type, data = await self.mbx_recv()`:
every request of `sdo_read`/`sdo_write` is answered this way -/
def exchange (body : List UInt8) : M (List UInt8) := do
  mbxSend body
  recvCoe

/-! ### sdo_read -/

/-- after the `while`: `if retsize != size: raise`; `return b"".join(ret)` -/
def finish (size : Nat) (ret : List (List UInt8)) (retsize : Nat) : M (List UInt8) :=
  if retsize ≠ size then fail .ethercat else pure ret.flatten

/-- the upload segment request: `"HBHB4x", SDOREQ << 12, SEG_UP_REQ + toggle, index, sub or 1` -/
def segUpReq (p : Params) (toggle : Nat) : List UInt8 :=
  sdoHdr (coe_SDOREQ <<< 12) (od_SEG_UP_REQ + toggle) p.index (subOr1 p) ++ zeros 4

/-- `while retsize < size:` — one round per unit of fuel (each round consumes a mail) -/
def segLoop (p : Params) : Nat → Nat → List (List UInt8) → Nat → Nat → M (List UInt8)
  | 0, _, _, _, _ => fail .blocked
  | fuel + 1, size, ret, retsize, toggle =>
    if retsize < size then do
      let data ← exchange (segUpReq p toggle)
      if data.length < 3 then fail .structError                 -- unpack("<HB", data[:3])
      else
        let coecmd := u16 data 0
        let sdocmd := byte data 2
        if coecmd >>> 12 ≠ coe_SDORES then fail .ethercat
        else if sdocmd &&& 0xe0 ≠ 0 then fail .ethercat
        else
          -- if len(data) == 10: data = data[:10 - ((sdocmd >> 1) & 7)]
          let data := if data.length = 10 then data.take (10 - ((sdocmd >>> 1) &&& 7)) else data
          let ret := ret ++ [data.drop 3]                        -- ret.append(data[3:])
          let retsize := retsize + (data.length - 3)             -- len(data) >= 3 here
          if sdocmd &&& 1 ≠ 0 then finish size ret retsize       -- break
          else segLoop p fuel size ret retsize (toggle ^^^ 0x10)
    else finish size ret retsize

/-- `ret = [data[10:]]; retsize = len(ret[0]); toggle = 0` and into the `while`; the fuel is one more than
the mails that are left, each round consumes one -/
def segStart (p : Params) (size : Nat) (first : List UInt8) : M (List UInt8) :=
  fun s => segLoop p (s.mails.length + 1) size [first] first.length 0 s

/-- the upload request: `"HBHB4x", SDOREQ << 12, UP_REQ_CA if subindex is None else UP_REQ, index, sub or 1` -/
def upReq (p : Params) : List UInt8 :=
  sdoHdr (coe_SDOREQ <<< 12) (if p.sub.isNone then od_UP_REQ_CA else od_UP_REQ) p.index (subOr1 p) ++ zeros 4

/-- what `sdo_read` does with the first CoE mail -/
def readCont (p : Params) (data : List UInt8) : M (List UInt8) :=
  if data.length < 10 then fail .structError                    -- unpack("<HBHBI", data[:10])
  else
    let coecmd := u16 data 0
    let sdocmd := byte data 2
    let idx := u16 data 3
    let size := u32 data 6
    if coecmd >>> 12 ≠ coe_SDORES then
      if p.sub.isNone ∧ coecmd >>> 12 = coe_SDOREQ then pure []
      else fail .ethercat
    else if idx ≠ p.index then fail .ethercat
    else if sdocmd &&& 2 ≠ 0 then pure (slice data 6 (10 - ((sdocmd >>> 2) &&& 3)))
    else segStart p size (data.drop 10)

def sdoRead (p : Params) : M (List UInt8) := do
  let data ← exchange (upReq p)
  readCont p data

/-! ### sdo_write -/

/-- `0 < len(data) <= 4 and subindex is not None` -/
def expedited (p : Params) (v : List UInt8) : Bool := 0 < v.length && v.length ≤ 4 && p.sub.isSome

/-- `"HBHB4s", SDOREQ << 12, DOWN_EXP | (((4 - len(data)) << 2) & 0xc), index, subindex, data` -/
def expReq (p : Params) (v : List UInt8) : List UInt8 :=
  sdoHdr (coe_SDOREQ <<< 12) (od_DOWN_EXP ||| (((4 - v.length) <<< 2) &&& 0xc)) p.index (subOr1 p)
    ++ (v ++ zeros (4 - v.length))

/-- `"HBHBI", SDOREQ << 12, DOWN_INIT_CA if subindex is None else DOWN_INIT, index, sub, len(data), data=data[:stop]` -/
def initDownReq (p : Params) (v : List UInt8) : List UInt8 :=
  sdoHdr (coe_SDOREQ <<< 12) (if p.sub.isNone then od_DOWN_INIT_CA else od_DOWN_INIT) p.index (subOr1 p)
    ++ (encLE 4 v.length ++ v.take (min v.length (p.outSz - 16)))

/-- the command byte of a download segment: `cmd = toggle`, `|= 1` on the last one, `|= (7 - len(d)) << 1` below 7 bytes -/
def segDownCmd (toggle : Nat) (last : Bool) (n : Nat) : Nat :=
  (toggle ||| (if last then 1 else 0)) ||| (if n < 7 then (7 - n) <<< 1 else 0)

/-- `"HB", SDOREQ << 12, cmd, data=d` with `d` padded to 7 bytes -/
def segDownReq (toggle : Nat) (last : Bool) (d : List UInt8) : List UInt8 :=
  encLE 2 (coe_SDOREQ <<< 12) ++ [UInt8.ofNat (segDownCmd toggle last d.length)] ++ (d ++ zeros (7 - d.length))

/-- `while stop < len(data):` over the value itself; one round per unit of fuel (each round consumes a mail) -/
def downLoop (p : Params) (v : List UInt8) : Nat → Nat → Nat → M (List UInt8)
  | 0, _, _ => fail .blocked
  | fuel + 1, stop, toggle =>
    if stop < v.length then do
      let start := stop
      let stop := min v.length (start + p.outSz - 9)
      let rdata ← exchange (segDownReq toggle (stop = v.length) (slice v start stop))
      if rdata.length < 3 then fail .structError                 -- unpack("<HB", rdata[:3])
      else if u16 rdata 0 >>> 12 ≠ coe_SDORES ∨ byte rdata 2 ≠ (0x20 ||| toggle) then fail .ethercat
      else downLoop p v fuel stop (toggle ^^^ 0x10)
    else pure []

def downStart (p : Params) (v : List UInt8) (stop : Nat) : M (List UInt8) :=
  fun s => downLoop p v (s.mails.length + 1) stop 0 s

/-- what `sdo_write` does with the first CoE mail: `unpack("<HBHB", rdata[:6])`, the two tests, the segments -/
def writeCont (p : Params) (v : List UInt8) (rdata : List UInt8) : M (List UInt8) :=
  if rdata.length < 6 then fail .structError
  else if u16 rdata 0 >>> 12 ≠ coe_SDORES then fail .ethercat
  else if u16 rdata 3 ≠ p.index ∨ byte rdata 5 ≠ subOr1 p then fail .ethercat
  else downStart p v (if expedited p v then v.length else min v.length (p.outSz - 16))

def sdoWrite (p : Params) (v : List UInt8) : M (List UInt8) := do
  let rdata ← exchange (if expedited p v then expReq p v else initDownReq p v)
  writeCont p v rdata

/-! ### entry points -/

inductive Kind where
  | read
  | write (v : List UInt8)
deriving Repr, DecidableEq

def master (p : Params) : Kind → M (List UInt8)
  | .read => sdoRead p
  | .write v => sdoWrite p v

/-- run a call from a fresh trace: the bus accesses and how the call ended -/
def run (p : Params) (k : Kind) (cnt : Nat) (fulls : List Bool) (mails : List Mail) : List Ev × R (List UInt8) :=
  let (s, r) := master p k ⟨cnt, fulls, mails, []⟩
  (s.tr, r)

/-- the mailbox messages written, in order -/
def sent : List Ev → List (List UInt8)
  | [] => []
  | .send m :: t => m :: sent t
  | _ :: t => sent t

end Ebv.Sdo
