import Ebv.Model.Parallel
/-! Histories of `FMMULock` objects (ebpfcat/lock.py) used directly: every participant (a thread of
control in some process) executes a *script* of operations on the shared bitmap file

    new draws   -- FMMULock(filename): open, lockf, pread 64, [pwrite zeros, ftruncate], pwrite byte, unlock
    addr k      -- get_next_addr() on the k-th object this participant constructed
    rm k        -- remove() of that object: lockf, pread 1, pwrite 1, unlock (close merged)

so that one participant can allocate, release and allocate again (a restart), hold two objects at once, and
release while others allocate or release.  One model step = one system call (as in `Ebv.Parallel`, whose
bitmap primitives are reused); an event is either "participant i performs its next call" or "participant i
is killed" (the kernel releases its record lock, its bits stay set, its windows are no longer in use).
A blocked `lockf` and a `randrange` loop that finds no free number consume the turn without an operation. -/
namespace Ebv.FmmuLock
open Ebv.Consts
open Ebv.Parallel (bitSet pwriteByte pwrite0 fmZero pickNo clearBit lastAddr winBase maxGroups disjoint)

inductive Op where
  | new (draws : List Nat)
  | addr (k : Nat)
  | rm (k : Nat)
deriving Repr, DecidableEq

/-- an `FMMULock` object from the `pwrite` that sets its bit on -/
structure Obj where
  owner : Nat := 0
  no : Nat := 0          -- process number (base_addr >> 22 at construction)
  k : Nat := 0           -- successful `get_next_addr` calls: base_addr = no * fmWindow + k * fmGroup
  own : Bool := false    -- its bit has been set by the constructor and not yet cleared by `remove`
  run : Bool := false    -- in use: the constructor has returned, `remove` has not begun, the owner is alive
deriving Repr, DecidableEq

inductive Pc where
  | idle | lock | read | fix | trunc | set | unlock | rread | rclear | runlock | dead
deriving Repr, DecidableEq

structure Proc where
  pc : Pc := .idle
  script : List Op := []
  mine : List Nat := []     -- the objects whose constructor returned to this participant, in order (indices into `Sys.objs`)
  cur : Nat := 0            -- the object being constructed / removed
  draws : List Nat := []    -- what `randrange` returns inside the running constructor
  buf : List Nat := []      -- what `pread` returned
  trace : List String := []
deriving Repr, DecidableEq

structure Sys where
  fm : Option (List Nat) := none      -- the bitmap file: none = absent
  fmLock : Option Nat := none         -- holder of the whole-file record lock
  objs : List Obj := []
  procs : List Proc := []
deriving Repr, DecidableEq

def init (scripts : List (List Op)) (fm0 : Option (List Nat) := none) : Sys :=
  { fm := fm0, procs := scripts.map fun sc => { script := sc } }

def getP (s : Sys) (i : Nat) : Proc := s.procs.getD i {}
def setP (s : Sys) (i : Nat) (p : Proc) : Sys := { s with procs := s.procs.set i p }
def getO (s : Sys) (g : Nat) : Obj := s.objs.getD g {}
def setO (s : Sys) (g : Nat) (o : Obj) : Sys := { s with objs := s.objs.set g o }
def emit (p : Proc) (t : String) : Proc := { p with trace := p.trace ++ [t] }
def fmOf (s : Sys) : List Nat := s.fm.getD []

def canLock (l : Option Nat) (i : Nat) : Bool :=
  match l with
  | none => true
  | some h => h == i

/-- the k-th object of the participant, if it is in use -/
def liveObj (s : Sys) (p : Proc) (k : Nat) : Option Nat :=
  match p.mine[k]? with
  | some g => if (getO s g).run then some g else none
  | none => none

/-- the process number `FMMULock.remove` computes from `base_addr` -/
def rmNo (o : Obj) : Nat := lastAddr o.no o.k / fmWindow

/-- `get_next_addr` on object `g` -/
def doAddr (s : Sys) (i : Nat) (p : Proc) (r : List Op) : Option Nat → Sys
  | some g =>
    let o := getO s g
    if o.k < maxGroups then
      setP (setO s g { o with k := o.k + 1 }) i { emit p s!"addr:{lastAddr o.no (o.k + 1)}" with script := r }
    else setP s i { emit p "addr:err" with script := r }
  | none => setP s i { p with script := r }

/-- first call of `remove`: `lockf(LOCK_EX)`; from here on the window is no longer in use -/
def doRm (s : Sys) (i : Nat) (p : Proc) (r : List Op) : Option Nat → Sys
  | some g =>
    if canLock s.fmLock i then
      setP (setO { s with fmLock := some i } g { getO s g with run := false }) i
        { emit p "fm_lock" with pc := .rread, script := r, cur := g }
    else s
  | none => setP s i { p with script := r }

def stepIdle (s : Sys) (i : Nat) (p : Proc) : Sys :=
  match p.script with
  | [] => s
  | .new d :: r =>
    setP { s with fm := some (s.fm.getD []) } i { emit p "fm_open" with pc := .lock, script := r, draws := d }
  | .addr k :: r => doAddr s i p r (liveObj s p k)
  | .rm k :: r => doRm s i p r (liveObj s p k)

/-- the `pwrite` of the constructor that sets the chosen bit -/
def doSet (s : Sys) (i : Nat) (p : Proc) : Option Nat → Sys
  | some n =>
    let v := p.buf.getD (n / 8) 0 ||| 2 ^ (n % 8)
    setP { s with fm := some (pwriteByte (s.fm.getD []) (n / 8) v),
                  objs := s.objs ++ [{ owner := i, no := n, own := true }] } i
      { emit p s!"fm_pwrite:{n / 8}:{v}" with pc := .unlock, cur := s.objs.length }
  | none => s

def stepBusy (s : Sys) (i : Nat) (p : Proc) : Sys :=
  match p.pc with
  | .lock =>
    if canLock s.fmLock i then setP { s with fmLock := some i } i { emit p "fm_lock" with pc := .read } else s
  | .read =>
    let buf := (s.fm.getD []).take fmSize
    setP s i { emit p s!"fm_read:{buf.length}" with pc := if buf.length = fmSize then .set else .fix, buf := buf }
  | .fix =>
    setP { s with fm := some (pwrite0 (s.fm.getD []) fmZero) } i { emit p "fm_fix" with pc := .trunc, buf := fmZero }
  | .trunc => setP { s with fm := some ((s.fm.getD []).take fmSize) } i { emit p "fm_trunc" with pc := .set }
  | .set => doSet s i p (pickNo p.buf p.draws)
  | .unlock =>
    setP (setO { s with fmLock := none } p.cur { getO s p.cur with run := true }) i
      { emit p "fm_unlock" with pc := .idle, mine := p.mine ++ [p.cur] }
  | .rread =>
    let f := s.fm.getD []
    let n := rmNo (getO s p.cur)
    if n / 8 < f.length then setP s i { emit p "fm_rread:ok" with pc := .rclear, buf := [f.getD (n / 8) 0] }
    else setP s i { emit p "fm_rread:short" with pc := .runlock }
  | .rclear =>
    let n := rmNo (getO s p.cur)
    let v := clearBit (p.buf.getD 0 0) (n % 8)
    setP (setO { s with fm := some (pwriteByte (s.fm.getD []) (n / 8) v) } p.cur { getO s p.cur with own := false }) i
      { emit p s!"fm_pwrite:{n / 8}:{v}" with pc := .runlock }
  | .runlock => setP { s with fmLock := none } i { emit p "fm_unlock" with pc := .idle }
  | _ => s

def step (s : Sys) (i : Nat) : Sys :=
  if i < s.procs.length then
    let p := getP s i
    if p.pc = .idle then stepIdle s i p else stepBusy s i p
  else s

/-- the process dies where it stands: the kernel drops its record lock; nothing is written -/
def kill (s : Sys) (i : Nat) : Sys :=
  if i < s.procs.length then
    setP { s with fmLock := if s.fmLock = some i then none else s.fmLock,
                  objs := s.objs.map fun o => if o.owner = i then { o with run := false } else o } i
      { getP s i with pc := .dead }
  else s

inductive Ev where
  | step (i : Nat)
  | kill (i : Nat)
deriving Repr, DecidableEq

def apply (s : Sys) : Ev → Sys
  | .step i => step s i
  | .kill i => kill s i

def run (s : Sys) (evs : List Ev) : Sys := evs.foldl apply s

/-! ### the window clause -/

def winLo (o : Obj) : Nat := winBase o.no
def winLen (o : Obj) : Nat := (o.k + 1) * fmGroup

/-- the addresses `get_next_addr` returned for the object, in call order -/
def givenAddrs (o : Obj) : List Nat := (List.range o.k).map fun j => lastAddr o.no (j + 1)

/-- the windows of any two objects in use (of different participants, or of one) are disjoint -/
def WindowsDisjoint (s : Sys) : Prop :=
  ∀ a b, a ≠ b → (getO s a).run = true → (getO s b).run = true →
    disjoint (winLo (getO s a)) (winLen (getO s a)) (winLo (getO s b)) (winLen (getO s b)) = true

def windowsDisjointB (s : Sys) : Bool :=
  (List.range s.objs.length).all fun a => (List.range s.objs.length).all fun b =>
    a == b || !((getO s a).run && (getO s b).run) ||
      disjoint (winLo (getO s a)) (winLen (getO s a)) (winLo (getO s b)) (winLen (getO s b))

def firstBad (bad : Sys → Bool) (s : Sys) : List Ev → Nat → Option Nat
  | [], k => if bad s then some k else none
  | e :: r, k => if bad s then some k else firstBad bad (apply s e) r (k + 1)

/-! ### the variant in which `remove` does not take the lock (for the refutation only) -/

def stepNoLockRm (s : Sys) (i : Nat) : Sys :=
  if i < s.procs.length then
    let p := getP s i
    match p.pc, p.script with
    | .idle, .rm k :: r =>
      match liveObj s p k with
      | some g =>
        stepBusy (setO s g { getO s g with run := false }) i { p with pc := .rread, script := r, cur := g }
      | none => setP s i { p with script := r }
    | .runlock, _ => setP s i { p with pc := .idle }
    | _, _ => step s i
  else s

def runNoLockRm (s : Sys) (is : List Nat) : Sys := is.foldl stepNoLockRm s

end Ebv.FmmuLock
