import Ebv.Model.Bytes
import Ebv.Generated.Consts
/-! Model of `Packet` (ebpfcat/ethercat.py) and `SterilePacket` (ebpfcat/ebpfcat.py):
`append`, `assemble`, `full`, `append_writer`, `sterile`, `counters`, `on_the_fly`,
plus `parseFrame`, a parser written from the EtherCAT frame format (ETG.1000.4:
2-byte frame header = 11 bit length, 1 reserved, 4 bit type; datagram = cmd, idx,
32 bit address (ADP, ADO), 11 bit length + 3 reserved + circulating + more, irq,
data, working counter) and *not* from `assemble`.

`struct.pack` is modelled as "raises `struct.error` iff some field is outside the
range of its format, otherwise little-endian bytes"; raising is `none`. -/
namespace Ebv.Frame
open Ebv.Bytes Ebv.Consts

/-- the `*address` arguments of `Packet.append` -/
inductive Addr where
  | node (pos off : Int)      -- position / node addressing: `<h` terminal, `<H` offset
  | logical (a : Int)         -- logical addressing: one `<i`
  | other (n : Nat)           -- any other number of address arguments (pack raises)
deriving Repr, DecidableEq

structure Dgram where
  cmd : Nat                   -- `cmd.value`
  data : List UInt8
  idx : Int
  addr : Addr
  wkc : Int
deriving Repr, DecidableEq

/-- `Packet.data` (without the implicit identification datagram) and `Packet.size` -/
structure Packet where
  dgrams : List Dgram
  size : Nat
deriving Repr, DecidableEq

def Packet.empty : Packet := ⟨[], PACKET_HEADER⟩

/-- bytes one datagram adds to the frame -/
def dgSize (d : Dgram) : Nat := d.data.length + DATAGRAM_HEADER + DATAGRAM_TAIL

/-- `Packet.append`: `none` is `OverflowError`; otherwise the new packet and `(start, stop)` -/
def append (p : Packet) (d : Dgram) : Option (Packet × (Nat × Nat)) :=
  let newsize := p.size + d.data.length + DATAGRAM_HEADER + DATAGRAM_TAIL
  if newsize > MAXSIZE then none
  else if p.dgrams.length ≥ MAX_DATAGRAMS then none      -- `len(self.data) > 14`
  else some (⟨p.dgrams ++ [d], newsize⟩, (p.size + DATAGRAM_HEADER, newsize - DATAGRAM_TAIL))

/-- `Packet.full` -/
def full (p : Packet) : Bool := decide (p.size > MAXSIZE) || decide (p.dgrams.length ≥ MAX_DATAGRAMS)

/-- appending a whole sequence, every datagram accepted; the list of returned positions -/
def appendAll (p : Packet) : List Dgram → Option (Packet × List (Nat × Nat))
  | [] => some (p, [])
  | d :: ds =>
    match append p d with
    | none => none
    | some (p', pos) =>
      match appendAll p' ds with
      | none => none
      | some (q, ps) => some (q, pos :: ps)

/-! ### assemble -/

/-- `len(data) | (more << 15)` -/
def lenField (len : Nat) (more : Bool) : Nat := len ||| (if more then 0x8000 else 0)

def addrOk : Addr → Bool
  | .node p o => fitsS 2 p && fitsU 2 o
  | .logical a => fitsS 4 a
  | .other _ => false

def addrBytes : Addr → List UInt8
  | .node p o => encLE 2 (ofSigned 2 p) ++ encLE 2 o.toNat
  | .logical a => encLE 4 (ofSigned 4 a)
  | .other _ => []

/-- `pack("<BBhHHH" | "<BBiHH", cmd.value, idx, *address, len | more << 15, 0)` and `pack("<H", wkc)` succeed -/
def dgOk (more : Bool) (d : Dgram) : Bool :=
  decide (d.cmd < 256) && fitsU 1 d.idx && addrOk d.addr &&
    decide (lenField d.data.length more < 65536) && fitsU 2 d.wkc

def dgHead (more : Bool) (d : Dgram) : List UInt8 :=
  [UInt8.ofNat d.cmd, UInt8.ofNat d.idx.toNat] ++ addrBytes d.addr ++
    encLE 2 (lenField d.data.length more) ++ encLE 2 0

def dgBytes (more : Bool) (d : Dgram) : List UInt8 :=
  dgHead more d ++ d.data ++ encLE 2 d.wkc.toNat

/-- the loop `for i, (...) in enumerate(self.data, start=1)` with `n = len(self.data)` -/
def asmBody (n : Nat) : Nat → List Dgram → Option (List UInt8)
  | _, [] => some []
  | i, d :: ds =>
    if dgOk (decide (i < n)) d then
      (asmBody n (i + 1) ds).map (dgBytes (decide (i < n)) d ++ ·)
    else none

/-- `(self.size - 2) | 0x1000` -/
def hdrWord (size : Nat) : Nat := (size - 2) ||| 0x1000

def hdrOk (size : Nat) (index ethertype : Int) : Bool :=
  decide (hdrWord size < 65536) && fitsS 4 index && fitsU 2 ethertype

/-- `0x8002 if self.data else 0x0002`: length 2, `more` only when a datagram follows -/
def idLenWord (more : Bool) : Nat := if more then 0x8002 else 0x0002

/-- `pack("<HBBiHHHH", (self.size-2) | 0x1000, 0, 0, index, 0x8002 if self.data else 0x0002, 0, ethertype, 0)`;
`more` = "some datagram was appended" -/
def hdrBytes (size : Nat) (index ethertype : Int) (more : Bool) : List UInt8 :=
  encLE 2 (hdrWord size) ++ [0, 0] ++ encLE 4 (ofSigned 4 index) ++ encLE 2 (idLenWord more) ++
    encLE 2 0 ++ encLE 2 ethertype.toNat ++ encLE 2 0

/-- `b"3" * (46 - self.size)` when `self.size < 46` -/
def padding (size : Nat) : List UInt8 := List.replicate (MIN_FRAME - size) (UInt8.ofNat PAD_BYTE)

/-- `Packet.assemble`; `none` is `struct.error` -/
def assemble (p : Packet) (index ethertype : Int) : Option (List UInt8) :=
  if hdrOk p.size index ethertype then
    (asmBody p.dgrams.length 1 p.dgrams).map fun body =>
      hdrBytes p.size index ethertype (!p.dgrams.isEmpty) ++ body ++ padding p.size
  else none

/-! ### SterilePacket -/

structure Sterile where
  pkt : Packet
  onTheFly : List (Nat × Nat × Nat)      -- (start, stop, cmd.value)
  counters : List (Nat × Int)            -- dict in insertion order
deriving Repr, DecidableEq

def Sterile.empty : Sterile := ⟨Packet.empty, [], []⟩

/-- `d[k] = v` on an insertion-ordered dict -/
def dictSet (m : List (Nat × Int)) (k : Nat) (v : Int) : List (Nat × Int) :=
  if m.any (fun e => e.1 == k) then m.map (fun e => if e.1 == k then (k, v) else e) else m ++ [(k, v)]

/-- `SterilePacket.append(cmd, data, idx, *address, counter=c)`; the counter is `d.wkc`.
The positions `Packet.append` returns are dropped. -/
def Sterile.append (s : Sterile) (d : Dgram) : Option Sterile :=
  match Frame.append s.pkt d with
  | none => none
  | some (p, _) => some { s with pkt := p, counters := dictSet s.counters (p.size - 2) d.wkc }

/-- `SterilePacket.append_writer` -/
def Sterile.appendWriter (s : Sterile) (d : Dgram) : Option Sterile :=
  match s.append d with
  | none => none
  | some s' => some { s' with onTheFly := s'.onTheFly ++ [(s.pkt.size, s'.pkt.size, d.cmd)] }

/-- `ret[pos] = ECCmd.NOP.value` for every entry of `on_the_fly` -/
def sterilize (otf : List (Nat × Nat × Nat)) (bs : List UInt8) : List UInt8 :=
  otf.foldl (fun b e => b.set e.1 (UInt8.ofNat cmd_NOP)) bs

/-- `SterilePacket.sterile` -/
def Sterile.sterile (s : Sterile) (index ethertype : Int) : Option (List UInt8) :=
  (assemble s.pkt index ethertype).map (sterilize s.onTheFly)

/-- a sequence of `append` (false) / `append_writer` (true) calls, all accepted -/
def Sterile.appendAll (s : Sterile) : List (Bool × Dgram) → Option Sterile
  | [] => some s
  | (w, d) :: ops =>
    match (if w then s.appendWriter d else s.append d) with
    | none => none
    | some s' => Sterile.appendAll s' ops

/-! ### independent parser, from the frame format -/

/-- read `n` bytes -/
def take? (n : Nat) (bs : List UInt8) : Option (List UInt8 × List UInt8) :=
  if n ≤ bs.length then some (bs.take n, bs.drop n) else none

structure PDgram where
  cmd : Nat
  idx : Nat
  adp : Nat            -- address, low word (position / node address; logical address low half)
  ado : Nat            -- address, high word (offset; logical address high half)
  len : Nat            -- 11 bit
  rc : Nat             -- 3 reserved bits and the circulating bit
  more : Bool
  irq : Nat
  data : List UInt8
  wkc : Nat
deriving Repr, DecidableEq

structure PFrame where
  len : Nat            -- 11 bit length of the datagram area
  rsv : Nat            -- reserved bit
  typ : Nat            -- protocol type, 1 = EtherCAT datagrams
  dgrams : List PDgram
  pad : List UInt8     -- what follows the datagram area
deriving Repr, DecidableEq

def parseDgram (bs : List UInt8) : Option (PDgram × List UInt8) :=
  (take? 1 bs).bind fun (c, bs) =>
  (take? 1 bs).bind fun (i, bs) =>
  (take? 2 bs).bind fun (adp, bs) =>
  (take? 2 bs).bind fun (ado, bs) =>
  (take? 2 bs).bind fun (lf, bs) =>
  (take? 2 bs).bind fun (irq, bs) =>
  let l := decLE lf
  (take? (l % 2048) bs).bind fun (data, bs) =>
  (take? 2 bs).bind fun (wkc, bs) =>
  some ({ cmd := decLE c, idx := decLE i, adp := decLE adp, ado := decLE ado,
          len := l % 2048, rc := l / 2048 % 16, more := l / 32768 % 2 == 1,
          irq := decLE irq, data := data, wkc := decLE wkc }, bs)

/-- datagrams chained by the `more` flag; the area must be used up exactly by the last one -/
def parseDgrams : Nat → List UInt8 → Option (List PDgram)
  | 0, _ => none
  | fuel + 1, bs =>
    match parseDgram bs with
    | none => none
    | some (d, rest) =>
      if d.more then (parseDgrams fuel rest).map (d :: ·)
      else if rest.isEmpty then some [d] else none

def parseFrame (bs : List UInt8) : Option PFrame :=
  (take? 2 bs).bind fun (h, bs) =>
  let w := decLE h
  (take? (w % 2048) bs).bind fun (area, pad) =>
  (parseDgrams area.length area).map fun ds =>
    { len := w % 2048, rsv := w / 2048 % 2, typ := w / 4096, dgrams := ds, pad := pad }

end Ebv.Frame
