import Ebv.Model.Bytes
/-! A conformant CoE SDO server behind a mailbox, written from ETG.1000.6 §5.6.2 (SDO services:
initiate download expedited/normal, download segment, initiate upload expedited/normal, upload
segment, abort) and ETG.1000.4 (mailbox header, mailbox error replies).  It is *not* derived
from the master in /repo; the numbers below are the specification's.

One transfer at a time.  Objects are addressed by (index, subindex, complete-access flag) and
hold a byte string of at most `cap` bytes.  `step` takes what was written into the receive
mailbox (at most `outSz` bytes) and returns the mails it puts into the send mailbox
(mailbox header + payload, not padded). -/
namespace Ebv.SdoServer
open Ebv.Bytes

structure Obj where
  index : Nat
  sub : Nat
  ca : Bool
  cap : Nat
  val : List UInt8
deriving Repr, DecidableEq

inductive Xfer where
  | idle
  | down (index sub : Nat) (ca : Bool) (size : Nat) (buf : List UInt8) (toggle : Nat)
  | up (index sub : Nat) (ca : Bool) (rest : List UInt8) (toggle : Nat)
deriving Repr, DecidableEq

structure Srv where
  outSz : Nat
  inSz : Nat
  objs : List Obj
  cnt : Nat            -- counter of the next mail, 1..7
  xfer : Xfer
deriving Repr, DecidableEq

def init (outSz inSz : Nat) (objs : List Obj) : Srv := ⟨outSz, inSz, objs, 1, .idle⟩

/-! numbers of the specification -/
def mbxCoE : Nat := 3
def mbxErr : Nat := 0
def svcSdoReq : Nat := 2
def svcSdoRes : Nat := 3
def abToggle : Nat := 0x05030000     -- toggle bit not changed
def abCmd : Nat := 0x05040001        -- client/server command specifier not valid or unknown
def abNoObj : Nat := 0x06020000      -- object does not exist
def abLen : Nat := 0x06070010        -- length of service parameter does not match
def abTooHigh : Nat := 0x06070012    -- length of service parameter too high
def errUnsupported : Nat := 2
def errService : Nat := 4
def errTooShort : Nat := 6
def errInvalidSize : Nat := 8

def rd16 (bs : List UInt8) (o : Nat) : Nat := decLE ((bs.drop o).take 2)
def rd32 (bs : List UInt8) (o : Nat) : Nat := decLE ((bs.drop o).take 4)
def rd8 (bs : List UInt8) (o : Nat) : Nat := (bs.getD o 0).toNat

def find (objs : List Obj) (i s : Nat) (ca : Bool) : Option Obj :=
  objs.find? fun o => o.index == i && o.sub == s && o.ca == ca

def store (objs : List Obj) (i s : Nat) (ca : Bool) (v : List UInt8) : List Obj :=
  objs.map fun o => if o.index == i && o.sub == s && o.ca == ca then { o with val := v } else o

/-- a mail of type `typ` with the server's counter -/
def mail (s : Srv) (typ : Nat) (body : List UInt8) : Srv × List (List UInt8) :=
  ({ s with cnt := s.cnt % 7 + 1 },
   [encLE 2 body.length ++ encLE 2 0 ++ [0, UInt8.ofNat (typ ||| s.cnt <<< 4)] ++ body])

def mbxError (s : Srv) (code : Nat) : Srv × List (List UInt8) :=
  mail s mbxErr (encLE 2 1 ++ encLE 2 code)

def sdoBody (svc cmd i sub : Nat) (rest : List UInt8) : List UInt8 :=
  encLE 2 (svc <<< 12) ++ [UInt8.ofNat cmd] ++ encLE 2 i ++ [UInt8.ofNat sub] ++ rest

def abort (s : Srv) (i sub code : Nat) : Srv × List (List UInt8) :=
  mail { s with xfer := .idle } mbxCoE (sdoBody svcSdoReq 0x80 i sub (encLE 4 code))

def respond (s : Srv) (cmd i sub : Nat) (rest : List UInt8) : Srv × List (List UInt8) :=
  mail s mbxCoE (sdoBody svcSdoRes cmd i sub rest)

def caBit (ca : Bool) : Nat := if ca then 0x10 else 0

def initDownload (s : Srv) (cmd : Nat) (body : List UInt8) : Srv × List (List UInt8) :=
  let i := rd16 body 3
  let sub := rd8 body 5
  let ca := cmd &&& 0x10 != 0
  let s := { s with xfer := .idle }
  match find s.objs i sub ca with
  | none => abort s i sub abNoObj
  | some o =>
    if cmd &&& 2 != 0 then                                  -- expedited
      let n := if cmd &&& 1 != 0 then 4 - ((cmd >>> 2) &&& 3) else 4
      if n > o.cap then abort s i sub abTooHigh
      else respond { s with objs := store s.objs i sub ca ((body.drop 6).take n) } (0x60 ||| caBit ca) i sub (zeros 4)
    else if cmd &&& 1 == 0 then abort s i sub abCmd          -- normal transfer needs the size
    else
      let size := rd32 body 6
      let data := body.drop 10
      if size > o.cap then abort s i sub abTooHigh
      else if data.length > size then abort s i sub abLen
      else if data.length = size then
        respond { s with objs := store s.objs i sub ca data } (0x60 ||| caBit ca) i sub (zeros 4)
      else respond { s with xfer := .down i sub ca size data 0 } (0x60 ||| caBit ca) i sub (zeros 4)

def downloadSegment (s : Srv) (cmd dlen : Nat) (body : List UInt8) : Srv × List (List UInt8) :=
  match s.xfer with
  | .down i sub ca size buf tog =>
    let t := (cmd >>> 4) &&& 1
    if t ≠ tog then abort s i sub abToggle
    else
      let seg := if dlen = 10 then (body.drop 3).take (7 - ((cmd >>> 1) &&& 7)) else body.drop 3
      let buf := buf ++ seg
      if buf.length > size then abort s i sub abLen
      else if cmd &&& 1 != 0 then
        if buf.length ≠ size then abort s i sub abLen
        else mail { s with objs := store s.objs i sub ca buf, xfer := .idle } mbxCoE
               (encLE 2 (svcSdoRes <<< 12) ++ [UInt8.ofNat (0x20 ||| t <<< 4)] ++ zeros 7)
      else mail { s with xfer := .down i sub ca size buf (tog ^^^ 1) } mbxCoE
               (encLE 2 (svcSdoRes <<< 12) ++ [UInt8.ofNat (0x20 ||| t <<< 4)] ++ zeros 7)
  | _ => abort s 0 0 abCmd

def initUpload (s : Srv) (cmd : Nat) (body : List UInt8) : Srv × List (List UInt8) :=
  let i := rd16 body 3
  let sub := rd8 body 5
  let ca := cmd &&& 0x10 != 0
  let s := { s with xfer := .idle }
  match find s.objs i sub ca with
  | none => abort s i sub abNoObj
  | some o =>
    let v := o.val
    if 1 ≤ v.length ∧ v.length ≤ 4 then
      respond s (0x43 ||| ((4 - v.length) <<< 2) ||| caBit ca) i sub (v ++ zeros (4 - v.length))
    else
      let room := s.inSz - 16
      let s := if v.length > room then { s with xfer := .up i sub ca (v.drop room) 0 } else s
      respond s (0x41 ||| caBit ca) i sub (encLE 4 v.length ++ v.take room)

def uploadSegment (s : Srv) (cmd : Nat) : Srv × List (List UInt8) :=
  match s.xfer with
  | .up i sub ca rest tog =>
    let t := (cmd >>> 4) &&& 1
    if t ≠ tog then abort s i sub abToggle
    else
      let room := s.inSz - 9
      let seg := rest.take room
      let rest := rest.drop room
      let last := if rest.isEmpty then 1 else 0
      let n := if seg.length < 7 then 7 - seg.length else 0
      let s := if rest.isEmpty then { s with xfer := .idle } else { s with xfer := .up i sub ca rest (tog ^^^ 1) }
      mail s mbxCoE (encLE 2 (svcSdoRes <<< 12) ++ [UInt8.ofNat (t <<< 4 ||| n <<< 1 ||| last)] ++ seg ++ zeros n)
  | _ => abort s 0 0 abCmd

def step (s : Srv) (msg : List UInt8) : Srv × List (List UInt8) :=
  if msg.length < 6 then (s, [])
  else
    let dlen := rd16 msg 0
    let typ := rd8 msg 5 &&& 0xf
    if 6 + dlen > s.outSz then mbxError s errInvalidSize
    else
      -- fewer bytes written than announced: the rest of the mailbox reads as zero
      let body := (msg.drop 6).take dlen
      let body := body ++ zeros (dlen - body.length)
      if typ ≠ mbxCoE then mbxError s errUnsupported
      else if dlen < 2 then mbxError s errTooShort
      else if rd16 body 0 >>> 12 ≠ svcSdoReq then mbxError s errService
      else if dlen < 10 then mbxError s errTooShort
      else
        let cmd := rd8 body 2
        match cmd >>> 5 with
        | 1 => initDownload s cmd body
        | 0 => downloadSegment s cmd dlen body
        | 2 => initUpload s cmd body
        | 3 => uploadSegment s cmd
        | 4 => ({ s with xfer := .idle }, [])
        | _ => abort s 0 0 abCmd

/-- a stream of requests: the mails produced by each of them, and the final state -/
def serveAll (s : Srv) : List (List UInt8) → Srv × List (List (List UInt8))
  | [] => (s, [])
  | m :: ms =>
    let (s1, r) := step s m
    let (s2, rs) := serveAll s1 ms
    (s2, r :: rs)

end Ebv.SdoServer
