import Ebv.Model.Eeprom
import Ebv.Model.Sdo
/-! Where `Terminal.sdo_read/sdo_write/mbx_send/mbx_recv` (ebpfcat/ethercat.py) get their mailbox
parameters from: `Terminal.parse_sync_managers(data)` walks the sync manager table (category 41 of
the EEPROM in `apply_eeprom`, the register image 0x800.. in `gentle_initialize`) and stores offset
and size of the send mailbox (`mbx_out_*`, control nibble 6) and of the receive mailbox (`mbx_in_*`,
control nibble 2) — two independent pairs.  The walk itself is `Ebv.Eeprom.parseSM`. -/
namespace Ebv.SdoConfig
open Ebv.Sdo Ebv.Eeprom

/-- the four attributes the mailbox code reads -/
structure Mbx where
  outOff : Nat
  outSz : Nat
  inOff : Nat
  inSz : Nat
deriving Repr, DecidableEq

/-- the terminal object's mailbox attributes after `parse_sync_managers(data)`; `none`: the walk
raised, or one of the mailboxes is missing (`has_mailbox()` is false, `mbx_send` asserts) -/
def mailboxes (data : List UInt8) : Option Mbx :=
  match parseSM data with
  | (s, true) =>
    match s.mbx_out, s.mbx_in with
    | some (oo, os), some (io, is) => some ⟨oo, os, io, is⟩
    | _, _ => none
  | (_, false) => none

/-- the parameters of an SDO transfer on a terminal configured from `data` -/
def configure (data : List UInt8) (index : Nat) (sub : Option Nat) : Option Params :=
  (mailboxes data).map fun m => ⟨m.outSz, m.inSz, index, sub⟩

end Ebv.SdoConfig
