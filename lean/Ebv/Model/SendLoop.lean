import Ebv.Generated.Consts
import Ebv.Model.Bytes
/-! Event-level model of the datagram path of `EtherCat` (ebpfcat/ethercat.py):
`roundtrip` (queueing part), `sendloop`, `process_packet`, `roundtrip_packet`,
`datagram_received`, and the size/count limits of `Packet.append`.

The asyncio program is observed at the points where every task is blocked
("quiescent").  Between two such points the environment does things that are
synchronous calls into the code:

* `submit r len`   a caller reaches `await future` inside `roundtrip`: a fresh future exists and
                   `(cmd, payload, idx, pos, offset, future)` has been `put_nowait` into `send_queue`;
* `cancel r`       the caller's task is cancelled: `Task.cancel` cancels the future it waits for
                   (`Future.cancel` returns `False` and does nothing on a done future);
* `deliver f d`    the socket hands `d` to `datagram_received`, and bytes 4..8 of `d` are the index of
                   frame `f` (frames are named by the order of their transmission);
* `duplicate f d`  the same call once more (a frame that comes back twice);
* `lose f`         nothing is ever handed in for `f`;
* `quiesce`        the event loop runs until all tasks block.

What asyncio does in one `quiesce` (CPython 3.12 `asyncio`, FIFO ready queue):

* every `process_packet` task whose wait-future got a result resumes and runs its `for` loop to the
  end (or into its `except Exception` handler) without suspending;
* `sendloop`, woken by the first `put_nowait`, takes one item after the other: `Queue.get` does not
  suspend while the queue is non-empty and `ensure_future` only schedules, so the whole queue is
  packed in one uninterrupted block; `sendloop` suspends again in `get()` on the empty queue, always
  with an empty open packet (`dgrams == []`);
* the `process_packet` tasks created by that block then start, in creation order; each one calls
  `roundtrip_packet`, i.e. `transport.sendto`, registers its wait-future and suspends.

The two kinds of task touch disjoint futures (a request is either still queued or in exactly one
frame), so the order in which the ready queue happens to hold them does not matter; the model
completes arrived frames first and packs afterwards.

Packet indices (`randint`) are abstracted to the transmission number: `roundtrip_packet` redraws
until the index is not in `wait_futures`; that an index of a *retired* frame is never drawn again is
an assumption (probability about n / 10^9 per frame). -/
namespace Ebv.SendLoop
open Ebv.Consts Ebv.Bytes

abbrev Rid := Nat

/-- state of the future a `roundtrip` call waits for -/
inductive Fut where
  | pending
  | result (bs : List UInt8)   -- `set_result(data[start:stop])`
  | ecError                    -- `EtherCatError("datagram was not processed")`
  | overflow                   -- the `OverflowError` of `Packet.append`
  | structError                -- `struct.error` from `unpack_from` on a short response
  | cancelled
deriving DecidableEq, Repr

/-- `(start, stop, future)` as kept in `dgrams` -/
structure Dg where
  start : Nat
  stop : Nat
  rid : Rid
deriving DecidableEq, Repr

/-- one `process_packet` task: its transmission number and its `dgrams` -/
structure Frame where
  id : Nat
  dgs : List Dg
deriving DecidableEq, Repr

/-- request name ↦ state of its future (`none`: no such call).  A structure, not a bare function, so
that compiled code evaluates the guards of `settle`/`complete` once when the update is made. -/
structure Futs where
  get : Rid → Option Fut

def Futs.set (fs : Futs) (r : Rid) (v : Fut) : Futs := ⟨fun x => if x = r then some v else fs.get x⟩

/-- `if not future.done(): future.set_…(v)` -/
def settle (fs : Futs) (r : Rid) (v : Fut) : Futs :=
  if fs.get r = some .pending then fs.set r v else fs

structure St where
  subs : List (Rid × Nat)               -- log: accepted submissions (request, payload length), in order
  queue : List (Rid × Nat)              -- `send_queue`
  futs : Futs
  waiting : List Frame                  -- `wait_futures` entries whose future is pending
  arrived : List (Frame × List UInt8)   -- wait-future has its result, `process_packet` not yet resumed
  sent : List Frame                     -- log: `transport.sendto` calls

def init : St := ⟨[], [], ⟨fun _ => none⟩, [], [], []⟩

inductive Ev where
  | submit (r : Rid) (len : Nat)
  | cancel (r : Rid)
  | quiesce
  | deliver (f : Nat) (d : List UInt8)
  | lose (f : Nat)
  | duplicate (f : Nat) (d : List UInt8)
deriving DecidableEq, Repr

/-! ### `Packet.append` as `sendloop` uses it -/

/-- bytes one datagram adds to a packet -/
def dgLen (len : Nat) : Nat := len + DATAGRAM_HEADER + DATAGRAM_TAIL

/-- `Packet.append` does not raise `OverflowError` -/
def fits (size count len : Nat) : Bool :=
  decide (size + dgLen len ≤ MAXSIZE) && decide (count < MAX_DATAGRAMS)

/-- the datagram fits into an empty packet -/
def sendable (len : Nat) : Bool := fits PACKET_HEADER 0 len

/-- the `(start, stop)` that `Packet.append` returns, with the request -/
def mkDg (size : Nat) (r : Rid) (len : Nat) : Dg :=
  ⟨size + DATAGRAM_HEADER, size + dgLen len - DATAGRAM_TAIL, r⟩

/-- `ensure_future(self.process_packet(dgrams, packet))`, followed (later in the same quiesce, in
creation order) by the task's first step: `sendto`, `wait_futures[index] = future` -/
def flush (dgs : List Dg) (s : St) : St :=
  let fr : Frame := ⟨s.sent.length, dgs⟩
  { s with sent := s.sent ++ [fr], waiting := s.waiting ++ [fr] }

/-- the `OverflowError` handler for a datagram that does not fit an empty packet -/
def failOversize (r : Rid) (s : St) : St := { s with futs := settle s.futs r .overflow }

/-- the body of `sendloop` from one `get()` that would block to the next.  Arguments: what is still
in the queue, the open `dgrams`, `packet.size`. -/
def drain : List (Rid × Nat) → List Dg → Nat → St → St
  | [], dgs, _, s => if dgs.isEmpty then s else flush dgs s
  | (r, len) :: rest, dgs, size, s =>
    if fits size dgs.length len then
      -- appended; `continue` while the queue is not empty, else fall through to the flush
      drain rest (dgs ++ [mkDg size r len]) (size + dgLen len) s
    else if dgs.isEmpty then
      -- OverflowError on an empty packet: fail the request, keep the (empty) packet
      drain rest [] size (failOversize r s)
    else
      -- OverflowError: ship what we have (`sent = False`), retry the same datagram on a new packet
      let s' := flush dgs s
      if fits PACKET_HEADER 0 len then
        drain rest [mkDg PACKET_HEADER r len] (PACKET_HEADER + dgLen len) s'
      else
        drain rest [] PACKET_HEADER (failOversize r s')

/-! ### `process_packet` after the response has arrived -/

/-- `unpack_from("<H", data, stop)` -/
def wkcAt (d : List UInt8) (stop : Nat) : Nat := decLE (slice d stop (stop + 2))

/-- `unpack_from` raises `struct.error` -/
def short (d : List UInt8) (stop : Nat) : Bool := decide (d.length < stop + 2)

/-- one round of the `for start, stop, future in dgrams` loop body -/
def complete (d : List UInt8) (g : Dg) (fs : Futs) : Futs :=
  if fs.get g.rid = some .pending then
    if wkcAt d g.stop = 0 then fs.set g.rid .ecError
    else fs.set g.rid (.result (slice d g.start g.stop))
  else fs

/-- the `for` loop; the flag says whether it was left by an exception -/
def procLoop (d : List UInt8) : List Dg → Futs → Futs × Bool
  | [], fs => (fs, false)
  | g :: rest, fs => if short d g.stop then (fs, true) else procLoop d rest (complete d g fs)

/-- `except Exception as e: for _, _, future in dgrams: if not future.done(): future.set_exception(e)` -/
def failAll (v : Fut) : List Dg → Futs → Futs
  | [], fs => fs
  | g :: rest, fs => failAll v rest (settle fs g.rid v)

def process (dgs : List Dg) (d : List UInt8) (fs : Futs) : Futs :=
  match procLoop d dgs fs with
  | (fs', true) => failAll .structError dgs fs'
  | (fs', false) => fs'

def processAll : List (Frame × List UInt8) → Futs → Futs
  | [], fs => fs
  | (fr, d) :: rest, fs => processAll rest (process fr.dgs d fs)

/-! ### events -/

def quiesce (s : St) : St :=
  let fs := processAll s.arrived s.futs
  drain s.queue [] PACKET_HEADER { s with futs := fs, arrived := [], queue := [] }

/-- `datagram_received`: `unpack_from("<I", data, PACKET_INDEX)` needs 4 bytes at offset 4 (otherwise
it raises into the transport and nothing changes); a frame that is not waiting is logged and dropped -/
def deliver (f : Nat) (d : List UInt8) (s : St) : St :=
  if d.length < PACKET_INDEX + 4 then s
  else
    match s.waiting.find? (fun fr => fr.id == f) with
    | none => s
    | some fr =>
      { s with waiting := s.waiting.filter (fun x => x.id != f), arrived := s.arrived ++ [(fr, d)] }

def step (s : St) : Ev → St
  | .submit r len =>
    if (s.futs.get r).isNone then
      { s with subs := s.subs ++ [(r, len)], queue := s.queue ++ [(r, len)], futs := s.futs.set r .pending }
    else s      -- the harness names every call differently; a reused name is not a new call
  | .cancel r => { s with futs := settle s.futs r .cancelled }
  | .quiesce => quiesce s
  | .deliver f d => deliver f d s
  | .duplicate f d => deliver f d s
  | .lose _ => s

def run (s : St) (evs : List Ev) : St := evs.foldl step s

/-- request names in the order they went onto the wire -/
def sentRids (s : St) : List Rid := s.sent.flatMap fun fr => fr.dgs.map (·.rid)

end Ebv.SendLoop
