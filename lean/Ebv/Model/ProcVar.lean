import Ebv.Model.Bytes
import Ebv.Generated.Consts
/-! Process variables of a terminal as a device sees them (ebpfcat/ebpfcat.py `ProcessDesc`, `PacketDesc`,
`StructDesc`, `PacketVar`, `TerminalVar`) on both paths:

* **offset resolution**: `ProcessDesc` looks `(index + coe offset, subindex)` up in `terminal.pdos`, `PacketDesc`
  adds the Struct's position offset of its sync manager; `PacketVar._start` adds `pdo_assign[terminal][sm]`;
  `PacketVar.fmt_addr` adds `Packet.ETHERNET_HEADER` because the program sees the Ethernet frame while Python's
  `current_data` is the EtherCAT frame.
* **Python path** (`PacketVar.get/set` with `current_data` a bytearray): `struct.Struct('<'+fmt)` pack/unpack, or
  for a bit number `data[start] |= 1 << n`, `data[start] &= ~(1 << n)`, `bool(data[start] & (1 << n))`.
* **program path**: what the code emitted by `Memory.calculate` / `Memory._set` (ebpfcat/ebpf.py) for the format
  `fmt` resp. `(n, 1)` at `r9 + start + 14` computes, transcribed from the emitted instructions' widths:
  `LDX` of the format's width (zero extending), sign extension by `LSH`/`ARSH` in a 32- or 64-bit register for
  `b h` (and `i` when a 64-bit value is wanted), `STX`/`ST` of the low bytes; bit read = `LDX B`, 64-bit `AND`
  with the mask, `RSH`; bit write = `LDX B`, 32-bit `OR 1<<n` resp. `AND ~(1<<n)`, `STX B`, the branch selected at
  generation time for a constant and by `JSET` / `JNE 0` on the run-time value otherwise.
Core Lean only. -/
namespace Ebv.ProcVar
open Ebv.Bytes

/-! ### formats and sizes -/

/-- the `struct` letters a process variable can have -/
inductive Fmt | B | H | I | Q | b | h | i | q
deriving DecidableEq, Repr

def Fmt.all : List Fmt := [.B, .H, .I, .Q, .b, .h, .i, .q]

/-- the letter, as the character code in `"BHIQbhiq"` -/
def Fmt.char : Fmt → Nat
  | .B => 66 | .H => 72 | .I => 73 | .Q => 81 | .b => 98 | .h => 104 | .i => 105 | .q => 113

/-- `struct.calcsize('<'+fmt)`, which is also the width of the load/store opcode `fmt_to_opcode` selects -/
def Fmt.width : Fmt → Nat
  | .B | .b => 1 | .H | .h => 2 | .I | .i => 4 | .Q | .q => 8

def Fmt.signed : Fmt → Bool
  | .b | .h | .i | .q => true
  | _ => false

/-- `PacketVar.size`: a struct letter, or an integer = the number of a bit within one byte -/
inductive Size | fmt (f : Fmt) | bit (n : Nat)
deriving DecidableEq, Repr

/-! ### offset resolution -/

inductive Sm | out | inp
deriving DecidableEq, Repr

/-- one entry of `terminal.pdos`: `pdos[index, sub] = (sm, offset, size)` -/
structure Pdo where
  index : Nat
  sub : Nat
  sm : Sm
  offset : Nat
  size : Size
deriving Repr

/-- `position_offset` of a Struct channel (`StructDesc(struct, sm3, sm2, coe)`); all zero for the terminal itself -/
structure StructOff where
  smIn : Nat
  smOut : Nat
  coe : Nat
deriving Repr

def StructOff.terminal : StructOff := ⟨0, 0, 0⟩

/-- `StructDesc.__init__` defaults: `sm2 = sm3`, `coe = sm3` when not given -/
def StructOff.ofArgs (sm3 : Nat) (sm2 coe : Option Nat) : StructOff := ⟨sm3, sm2.getD sm3, coe.getD sm3⟩

def StructOff.pos (o : StructOff) : Sm → Nat
  | .inp => o.smIn | .out => o.smOut

inductive Desc
  | process (index sub : Nat) (size : Option Size)
  | packet (sm : Sm) (position : Nat) (size : Size)
deriving Repr

/-- the `PacketVar` a descriptor yields -/
structure Var where
  sm : Sm
  position : Nat
  size : Size
deriving Repr, DecidableEq

/-- `ProcessDesc.__get__` / `PacketDesc.__get__`; `none` = `KeyError` -/
def resolve (pdos : List Pdo) (off : StructOff) : Desc → Option Var
  | .process index sub size =>
    (pdos.find? fun p => p.index == index + off.coe && p.sub == sub).map fun p =>
      ⟨p.sm, p.offset, size.getD p.size⟩
  | .packet sm position size => some ⟨sm, position + off.pos sm, size⟩

/-- `sync_group.pdo_assign[terminal]` (a sync manager may be absent) -/
structure Assign where
  inp : Option Nat
  out : Option Nat
deriving DecidableEq, Repr

def Assign.base (a : Assign) : Sm → Option Nat
  | .inp => a.inp | .out => a.out

/-- `PacketVar._start`: index into the EtherCAT frame (`current_data`) -/
def start (a : Assign) (v : Var) : Option Nat := (a.base v.sm).map (· + v.position)

/-- `PacketVar.fmt_addr`: offset from `r9`, the start of the Ethernet frame -/
def progAddr (a : Assign) (v : Var) : Option Nat := (start a v).map (· + Ebv.Consts.ETHERNET_HEADER)

/-! ### Python path -/

/-- what `struct.pack('<'+fmt, v)` accepts -/
def fits (f : Fmt) (v : Int) : Bool := if f.signed then fitsS f.width v else fitsU f.width v

/-- `struct.Struct('<'+fmt).unpack_from(data, start)[0]` -/
def pyGet (f : Fmt) (data : List UInt8) (s : Nat) : Int :=
  let x := decLE (slice data s (s + f.width))
  if f.signed then toSigned f.width x else x

/-- `data[start:start+size] = struct.Struct('<'+fmt).pack(v)`; `none` = `struct.error` -/
def pySet (f : Fmt) (data : List UInt8) (s : Nat) (v : Int) : Option (List UInt8) :=
  if fits f v then some (setRange data s (encLE f.width (ofSigned f.width v))) else none

/-- `1 << n` as a byte (bit numbers 0..7) -/
def mask (n : Nat) : UInt8 := 1 <<< UInt8.ofNat n

/-- `bool(data[start] & mask)` -/
def pyGetBit (data : List UInt8) (s n : Nat) : Bool := data.getD s 0 &&& mask n != 0

def pySetByte (x : UInt8) (n : Nat) (b : Bool) : UInt8 := if b then x ||| mask n else x &&& ~~~ mask n

/-- `data[start] |= mask` resp. `data[start] &= ~mask` -/
def pySetBit (data : List UInt8) (s n : Nat) (b : Bool) : List UInt8 :=
  data.set s (pySetByte (data.getD s 0) n b)

/-! ### program path (registers are naturals below 2^64) -/

/-- `LDX` of `n` bytes at `r9 + addr`: little endian, zero extended -/
def ldx (frame : List UInt8) (addr n : Nat) : Nat := decLE (slice frame addr (addr + n))

/-- `STX` of the low `n` bytes of a register -/
def stx (frame : List UInt8) (addr n r : Nat) : List UInt8 := setRange frame addr (encLE n r)

/-- `r = (r << (w - bits)) s>> (w - bits)` in a `w`-bit register: the low `bits` bits sign-extended to `w` bits -/
def sext (w bits x : Nat) : Nat :=
  let y := x % 2 ^ bits
  if y < 2 ^ (bits - 1) then y else y + 2 ^ w - 2 ^ bits

/-- the register width the value is computed in: 64 when a 64-bit value is wanted or the format is 8 bytes wide -/
def regWidth (f : Fmt) (long : Bool) : Nat := if long || f.width == 8 then 64 else 32

/-- `Expression.load`: the register after the load (and the sign-extension shifts, emitted for `b`, `h` and, when
`long`, for `i`) -/
def progLoad (f : Fmt) (long : Bool) (frame : List UInt8) (addr : Nat) : Nat :=
  let x := ldx frame addr f.width
  if f.signed && (f.width < 4 || (long && f.width == 4)) then sext (if long then 64 else 32) (8 * f.width) x else x

/-- the register a constant source gives: `ST imm` (sign-extended 32-bit immediate) or `LD_IMM64` + `STX` both
store the low bytes of the 64-bit two's complement image -/
def constReg (k : Int) : Nat := ofSigned 8 k

/-- `Memory.calculate` for the bit field `(n, 1)`: `LDX B`, `r &= ((1<<1)-1) << n`, `r >>= n` -/
def progGetBit (frame : List UInt8) (addr n : Nat) : Nat := (ldx frame addr 1 &&& ((2 ^ 1 - 1) <<< n)) >>> n

/-- run-time truth of a bit source: `Memory.__ne__` → `JSET byte, mask` -/
def progTestBit (frame : List UInt8) (addr n : Nat) : Bool := ldx frame addr 1 &&& (1 <<< n) != 0

/-- run-time truth of a byte-format source: `value != 0` (`JNE`/`JNE32` against 0 on the loaded value) -/
def progTest (f : Fmt) (frame : List UInt8) (addr : Nat) : Bool := progLoad f false frame addr != 0

/-- `self | (1 << n)`: `LDX B`, 32-bit `OR imm`, `STX B` -/
def progBitOn (frame : List UInt8) (addr n : Nat) : List UInt8 :=
  stx frame addr 1 ((ldx frame addr 1 ||| (1 <<< n)) % 2 ^ 32)

/-- `self & ~(1 << n)`: `LDX B`, 32-bit `AND imm` with the 32-bit two's complement image of `~(1 << n)`, `STX B` -/
def progBitOff (frame : List UInt8) (addr n : Nat) : List UInt8 :=
  stx frame addr 1 (ldx frame addr 1 &&& (2 ^ 32 - 1 - 2 ^ n))

/-- `_set` for `bits == 1` with a constant: the branch is chosen while generating -/
def progSetBitConst (frame : List UInt8) (addr n : Nat) (b : Bool) : List UInt8 :=
  if b then progBitOn frame addr n else progBitOff frame addr n

/-- `_set` for `bits == 1` with a run-time Boolean: both branches are emitted into a temporary, the test selects -/
def progSetBitRt (frame : List UInt8) (addr n : Nat) (cond : Bool) : List UInt8 :=
  match cond with
  | true => progBitOn frame addr n
  | false => progBitOff frame addr n

/-! ### statements of a device, executed on both paths (the driver's entry points) -/

inductive Src | var (i : Nat) | dv (j : Nat) | const (k : Int)
deriving Repr

inductive Op
  | set (dst : Nat) (src : Src)      -- `self.tv_dst = src`
  | get (dv : Nat) (src : Nat)       -- `self.dv = self.tv_src`
deriving Repr

/-- a variable linked to a device's `TerminalVar`: the `PacketVar`, its terminal's `pdo_assign` in the current sync
group, the identity of the `PacketVar` object (one object may be linked more than once) and the device -/
structure Linked where
  var : Var
  assign : Assign
  obj : Nat
  dev : Nat
deriving Repr

structure PyState where
  data : List UInt8
  dvs : List Int          -- slow groups keep DeviceVars as plain Python attributes
deriving DecidableEq, Repr

/-- the accessor `PacketVar.get` builds, at start `s` -/
def pyReadAt (sz : Size) (data : List UInt8) (s : Nat) : Int :=
  match sz with
  | .fmt f => pyGet f data s
  | .bit n => if pyGetBit data s n then 1 else 0

/-- the accessor `PacketVar.set` builds, at start `s` -/
def pyStoreAt (sz : Size) (st : PyState) (s : Nat) (v : Int) : Option PyState :=
  match sz with
  | .fmt f => (pySet f st.data s v).map fun data => { st with data := data }
  | .bit n => some { st with data := pySetBit st.data s n (v != 0) }

/-- `PacketVar.get` with `start = self._start(device)` of the current sync group -/
def pyRead (vars : List Linked) (st : PyState) (i : Nat) : Option Int := do
  let l ← vars[i]?
  let s ← start l.assign l.var
  pure (pyReadAt l.var.size st.data s)

/-- the value of the right-hand side as Python sees it -/
def pyValue (vars : List Linked) (st : PyState) : Src → Option Int
  | .var i => pyRead vars st i
  | .dv j => st.dvs[j]?
  | .const k => some k

/-- `TerminalVar.__set__` → `PacketVar.set` -/
def pyStore (vars : List Linked) (st : PyState) (d : Nat) (v : Int) : Option PyState := do
  let l ← vars[d]?
  let s ← start l.assign l.var
  pyStoreAt l.var.size st s v

def pyStep (vars : List Linked) (st : PyState) : Op → Option PyState
  | .get j i => (pyRead vars st i).map fun v => { st with dvs := st.dvs.set j v }
  | .set d src => (pyValue vars st src).bind (pyStore vars st d)

def pyRun (vars : List Linked) (st : PyState) : List Op → Option PyState
  | [] => some st
  | o :: os => (pyStep vars st o).bind fun st' => pyRun vars st' os

/-- fast groups keep DeviceVars in the array map, each with its own format -/
structure ProgState where
  frame : List UInt8
  dvs : List (Fmt × List UInt8)
deriving DecidableEq, Repr

/-- the register holding the source value, computed at width `long` -/
def progReg (vars : List Linked) (st : ProgState) (long : Bool) : Src → Option Nat
  | .var i => do
    let l ← vars[i]?
    let a ← progAddr l.assign l.var
    match l.var.size with
    | .fmt f => pure (progLoad f long st.frame a)
    | .bit n => pure (progGetBit st.frame a n)
  | .dv j => do
    let (f, mem) ← st.dvs[j]?
    pure (progLoad f long mem 0)
  | .const k => some (constReg k)

/-- the run-time test of a source used as a Boolean -/
def progCond (vars : List Linked) (st : ProgState) : Src → Option Bool
  | .var i => do
    let l ← vars[i]?
    let a ← progAddr l.assign l.var
    match l.var.size with
    | .fmt f => pure (progTest f st.frame a)
    | .bit n => pure (progTestBit st.frame a n)
  | .dv j => do
    let (f, mem) ← st.dvs[j]?
    pure (progTest f mem 0)
  | .const k => some (k != 0)

/-- `TerminalVar.__set__` → `MemoryDesc.__set__` → `Memory._set` -/
def progStore (vars : List Linked) (st : ProgState) (d : Nat) (src : Src) : Option ProgState := do
  let l ← vars[d]?
  let a ← progAddr l.assign l.var
  match l.var.size with
  | .fmt f => (progReg vars st (f.width == 8) src).map fun r => { st with frame := stx st.frame a f.width r }
  | .bit n =>
    match src with
    | .const k => some { st with frame := progSetBitConst st.frame a n (k != 0) }
    | src => (progCond vars st src).map fun c => { st with frame := progSetBitRt st.frame a n c }

def progStep (vars : List Linked) (st : ProgState) : Op → Option ProgState
  | .get j i => do
    let (f, mem) ← st.dvs[j]?
    let r ← progReg vars st (f.width == 8) (.var i)
    pure { st with dvs := st.dvs.set j (f, stx mem 0 f.width r) }
  | .set d src => progStore vars st d src

def progRun (vars : List Linked) (st : ProgState) : List Op → Option ProgState
  | [] => some st
  | o :: os => (progStep vars st o).bind fun st' => progRun vars st' os

/-! ### the Python path as the code really runs it: accessors cached on the `PacketVar` object

`PacketVar.get` / `PacketVar.set` compute `start = self._start(device)` once, build a closure over `start`,
`device` and the group's `pdo_assign`, and store it on the object (`self.get = get`, `self.set = set`).  A closure
is the device it was built for and the `pdo_assign` it was built under; the start it holds is `_start` under that
`pdo_assign` (the object's terminal, sync manager and position never change).

* repaired code (`_rebound`): a closure called for another device, or after the group's `pdo_assign` changed, removes
  itself and the accessor is rebuilt (`bindNew`).  `pdo_assign is not assign` is modelled by inequality of the
  terminal's assignment; an equal assignment gives the same start anyway.
* code before the repair (`bindOld`, kept for the refutation theorems): the closure was never rebuilt — it kept the
  start of the first sync group and `assert instance is device` failed for a second device. -/

inductive PyErr | structError | assertion | badIndex
deriving DecidableEq, Repr

/-- per `PacketVar` object: the (device, pdo_assign of its terminal) its cached `get` resp. `set` closure was built for -/
structure PvCache where
  getter : Option (Nat × Assign)
  setter : Option (Nat × Assign)
deriving DecidableEq, Repr

def PvCache.empty : PvCache := ⟨none, none⟩

/-- one call through `self.get` / `self.set` by device `dev` in a group assigning `a`: the start used, the closure afterwards -/
abbrev Binder := Option (Nat × Assign) → Nat → Assign → Var → Except PyErr (Nat × Option (Nat × Assign))

def rebind (dev : Nat) (a : Assign) (v : Var) : Except PyErr (Nat × Option (Nat × Assign)) :=
  match start a v with
  | some s => .ok (s, some (dev, a))
  | none => .error .badIndex

def bindNew : Binder := fun c dev a v =>
  match c with
  | none => rebind dev a v
  | some (d, a') =>
    if d == dev && a' == a then
      match start a' v with
      | some s => .ok (s, c)
      | none => .error .badIndex
    else rebind dev a v

def bindOld : Binder := fun c dev a v =>
  match c with
  | none => rebind dev a v
  | some (d, a') =>
    if d == dev then
      match start a' v with
      | some s => .ok (s, c)
      | none => .error .badIndex
    else .error .assertion

structure CState where
  st : PyState
  caches : List PvCache
deriving DecidableEq, Repr

def linkedAt (vars : List Linked) (i : Nat) : Except PyErr Linked :=
  match vars[i]? with
  | some l => .ok l
  | none => .error .badIndex

def getterStart (b : Binder) (vars : List Linked) (caches : List PvCache) (i : Nat) : Except PyErr (Linked × Nat × List PvCache) := do
  let l ← linkedAt vars i
  let c := caches.getD l.obj PvCache.empty
  let (s, g) ← b c.getter l.dev l.assign l.var
  pure (l, s, caches.set l.obj { c with getter := g })

def setterStart (b : Binder) (vars : List Linked) (caches : List PvCache) (i : Nat) : Except PyErr (Linked × Nat × List PvCache) := do
  let l ← linkedAt vars i
  let c := caches.getD l.obj PvCache.empty
  let (s, g) ← b c.setter l.dev l.assign l.var
  pure (l, s, caches.set l.obj { c with setter := g })

def pyValueC (b : Binder) (vars : List Linked) (cs : CState) : Src → Except PyErr (Int × List PvCache)
  | .var i => do
    let (l, s, caches) ← getterStart b vars cs.caches i
    pure (pyReadAt l.var.size cs.st.data s, caches)
  | .dv j =>
    match cs.st.dvs[j]? with
    | some v => .ok (v, cs.caches)
    | none => .error .badIndex
  | .const k => .ok (k, cs.caches)

/-- one statement; an error carries the accessor bindings made before it was raised (they stay on the objects) -/
def pyStepW (b : Binder) (vars : List Linked) (cs : CState) : Op → Except (PyErr × List PvCache) CState
  | .get j i =>
    match pyValueC b vars cs (.var i) with
    | .error e => .error (e, cs.caches)
    | .ok (v, caches) => .ok ⟨{ cs.st with dvs := cs.st.dvs.set j v }, caches⟩
  | .set d src =>
    match pyValueC b vars cs src with                -- the right-hand side is evaluated first
    | .error e => .error (e, cs.caches)
    | .ok (v, caches) =>
      match setterStart b vars caches d with
      | .error e => .error (e, caches)
      | .ok (l, s, caches) =>
        match pyStoreAt l.var.size cs.st s v with     -- `self.set = set` precedes `set(device, value)`
        | some st => .ok ⟨st, caches⟩
        | none => .error (.structError, caches)

def pyRunW (b : Binder) (vars : List Linked) (cs : CState) : List Op → Except (PyErr × List PvCache) CState
  | [] => .ok cs
  | o :: os =>
    match pyStepW b vars cs o with
    | .ok cs' => pyRunW b vars cs' os
    | .error e => .error e

/-- the Python path of the working tree -/
def pyStepC := pyStepW bindNew
def pyRunC := pyRunW bindNew
/-- the Python path before the repair -/
def pyRunCOld := pyRunW bindOld

/-! ### earlier starts: what stays on the `PacketVar` objects

A sync group may be started again (`SyncGroup.start` allocates anew), and devices may have run in other groups before.
All that an earlier cycle leaves behind for the present one are the accessors cached on the objects. -/

/-- the accessors on the objects after one cycle of `ops` under the layout `vars` (also when the cycle ended with an
exception: the bindings made before it stay) -/
def cachesAfter (vars : List Linked) (cs : CState) (ops : List Op) : List PvCache :=
  match pyRunC vars cs ops with
  | .ok cs' => cs'.caches
  | .error (_, caches) => caches

/-- Python `get` of the variables `is` in turn through the cached accessors (as `fast_update` of a fast group's devices
reads them); stops at the first exception.  Values read so far (newest first), accessors afterwards. -/
def readEach (vars : List Linked) (data : List UInt8) : List Nat → List PvCache → List Int → Option (List Int) × List PvCache
  | [], caches, acc => (some acc.reverse, caches)
  | i :: is, caches, acc =>
    match getterStart bindNew vars caches i with
    | .ok (l, s, caches') => readEach vars data is caches' (pyReadAt l.var.size data s :: acc)
    | .error _ => (none, caches)

/-- one earlier start: the layout of that time (same objects, other assignments), the process image and DeviceVars it
began with, the statements that ran (`reads = true`: instead, Python read every variable once) -/
structure Earlier where
  vars : List Linked
  st : PyState
  ops : List Op
  reads : Bool := false
  /-- nothing ran: a program was generated under that layout (`FastSyncGroup.program` through `load()`; an earlier fast
  group of the devices, or an earlier `FastSyncGroup` object over the same devices).  Generation asks `fmt_addr` of every
  accessed variable while `current_data is None`, so no accessor is bound, and `fmt_addr` keeps nothing. -/
  generated : Bool := false

def Earlier.leaves (e : Earlier) (caches : List PvCache) : List PvCache :=
  if e.generated then caches else
  if e.reads then (readEach e.vars e.st.data (List.range e.vars.length) caches []).2
  else cachesAfter e.vars ⟨e.st, caches⟩ e.ops

/-- the accessors after a whole history of earlier starts -/
def historyCaches (caches : List PvCache) : List Earlier → List PvCache
  | [] => caches
  | e :: es => historyCaches (e.leaves caches) es

/-- what an answer of `fmt_addr` kept on the `PacketVar` object per device would make of the present layout: a variable
whose object was compiled for the same device in an earlier generation keeps the assignment of that time.  The working
tree keeps nothing (`progRun` takes the present `vars`); this is the counter-model of `generation_witness`. -/
def memoVars (earlier vars : List Linked) : List Linked :=
  vars.map fun l =>
    match earlier.find? (fun e => e.obj == l.obj && e.dev == l.dev) with
    | some e => { l with assign := e.assign }
    | none => l

end Ebv.ProcVar
