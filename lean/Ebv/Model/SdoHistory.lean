import Ebv.Model.SdoSystem
import Ebv.Model.SdoConfig
/-! Histories: `Terminal` objects (ebpfcat/ethercat.py) that stay alive and are used again.

A world is a list of terminals.  Each is one `Terminal` object together with the hardware behind it: the
mailbox attributes the object got from its last `parse_sync_managers` (`initialize`/`apply_eeprom` and
`gentle_initialize` end there), the `MailboxLock` counter, and on the hardware side the object dictionary,
the counter of the terminal's next mail and the transfer its SDO server believes to be under way.

A history is a list of operations, each on one terminal:
* `config t sm` — `parse_sync_managers(sm)` on the same object; the table describes the hardware, which has the
  mailboxes of the table from then on and no transfer under way;
* `set t …` — the terminal itself changes one of its objects;
* `xfer t …` — `sdo_read` / `sdo_write` under a schedule (`SdoSystem`), run to its end, or cancelled at the
  await of one of its bus accesses (`Cut`).

Nothing else is kept between operations: there is no field a transfer could leave a chunk size, a toggle or a
buffer in, and no field shared between terminals.  That this is what the code does is what the history cases of
the check compare (harness/vh/props/c16.py, mode `hist`). -/
namespace Ebv.SdoHistory
open Ebv.Bytes Ebv.Sdo Ebv.SdoServer Ebv.SdoSystem Ebv.SdoConfig Ebv.Consts

structure Term where
  mbx : Option Mbx       -- mbx_out_off/sz, mbx_in_off/sz; `none`: a mailbox is missing
  cnt : Nat              -- MailboxLock.counter
  objs : List Obj        -- the terminal's object dictionary
  scnt : Nat             -- counter of the terminal's next mail
  xfer : Xfer            -- the transfer the terminal's SDO server believes to be under way
deriving Repr, DecidableEq

/-- where a call is cancelled: at the await of a bus access (the access itself takes place) — for `j ≥ 1` the
`e`-th one counted from the read of the `j`-th mail (`e = 0`: that read), for `j = 0` the `e`-th one of the call -/
structure Cut where
  j : Nat
  e : Nat
deriving Repr, DecidableEq

inductive Op where
  | config (t : Nat) (sm : List UInt8)
  | set (t : Nat) (index sub : Nat) (ca : Bool) (v : List UInt8)
  | xfer (t : Nat) (index : Nat) (sub : Option Nat) (kind : Kind) (sched : List Slot) (cut : Option Cut)
deriving Repr, DecidableEq

def Op.term : Op → Nat
  | .config t _ => t
  | .set t _ _ _ _ => t
  | .xfer t _ _ _ _ _ => t

inductive Out where
  | cfg (m : Option Mbx)
  | set
  /-- bus accesses, how the call ended (`none`: cancelled), the object the call was about afterwards -/
  | xfer (trace : List Ev) (outcome : Option (R (List UInt8))) (obj : Option (List UInt8))
  | nothing          -- no such terminal, or a transfer on a terminal without mailboxes
deriving Repr, DecidableEq

def isRecv : Ev → Bool
  | .recv => true
  | _ => false

def isKick : Ev → Bool
  | .kick => true
  | _ => false

/-- position of the `j`-th mailbox read (`j ≥ 1`) -/
def recvIdx : List Ev → Nat → Option Nat
  | [], _ => none
  | e :: t, j =>
    if isRecv e then (if j ≤ 1 then some 0 else (recvIdx t (j - 1)).map (· + 1))
    else (recvIdx t j).map (· + 1)

/-- the bus access whose await is cancelled, if the call gets that far -/
def cutPos (tr : List Ev) (c : Cut) : Option Nat :=
  (if c.j = 0 then some c.e else (recvIdx tr c.j).map (· + c.e)).bind fun i => if i < tr.length then some i else none

def kicks (tr : List Ev) : Nat := (tr.filter isKick).length

/-- `MailboxLock.next_counter`, `n` times -/
def advance (cnt : Nat) : Nat → Nat
  | 0 => cnt
  | n + 1 => advance (cnt % mbxMod + 1) n

/-- the call of an `xfer` operation on a terminal with mailboxes `m` -/
def setupOf (tm : Term) (m : Mbx) (index : Nat) (sub : Option Nat) (kind : Kind) (sched : List Slot) : Setup :=
  ⟨⟨m.outSz, m.inSz, index, sub⟩, kind, tm.cnt, sched, tm.objs, tm.scnt, tm.xfer⟩

structure XferRes where
  trace : List Ev
  outcome : Option (R (List UInt8))
  term : Term
deriving Repr, DecidableEq

/-- what is left of a run when it is cancelled at access `i`: the accesses up to it; the terminal has got the
messages handed over by then -/
def cutRun (tm : Term) (c : Setup) (tr : List Ev) (reqs : List (List UInt8)) (i : Nat) : XferRes :=
  let tr' := tr.take (i + 1)
  let srv := (serveAll c.srv (reqs.take (kicks tr'))).1
  ⟨tr', none, { tm with cnt := advance tm.cnt (sent tr').length, objs := srv.objs, scnt := srv.cnt, xfer := srv.xfer }⟩

/-- the run to its end -/
def fullRun (tm : Term) (c : Setup) (st : St × R (List UInt8)) (reqs : List (List UInt8)) : XferRes :=
  let srv := (serveAll c.srv reqs).1
  ⟨st.1.tr, some st.2, { tm with cnt := st.1.cnt, objs := srv.objs, scnt := srv.cnt, xfer := srv.xfer }⟩

def pickRun (tm : Term) (c : Setup) (st : St × R (List UInt8)) (reqs : List (List UInt8)) : Option Nat → XferRes
  | none => fullRun tm c st reqs
  | some i => cutRun tm c st.1.tr reqs i

def xferStep (tm : Term) (m : Mbx) (index : Nat) (sub : Option Nat) (kind : Kind) (sched : List Slot)
    (cut : Option Cut) : XferRes :=
  let c := setupOf tm m index sub kind sched
  let st := master c.p c.kind ⟨c.cnt, c.fulls, finalMails c, []⟩
  pickRun tm c st (requests c (finalMails c)) (cut.bind (cutPos st.1.tr))

def objOf (objs : List Obj) (index : Nat) (sub : Option Nat) : Option (List UInt8) :=
  (find objs index (sub.getD 1) sub.isNone).map (·.val)

def xferOut (index : Nat) (sub : Option Nat) (r : XferRes) : Term × Out :=
  (r.term, .xfer r.trace r.outcome (objOf r.term.objs index sub))

def xferOn (tm : Term) (index : Nat) (sub : Option Nat) (kind : Kind) (sched : List Slot) (cut : Option Cut) :
    Option Mbx → Term × Out
  | none => (tm, .nothing)
  | some m => xferOut index sub (xferStep tm m index sub kind sched cut)

/-- what an operation does to its terminal -/
def termStep (tm : Term) : Op → Term × Out
  | .config _ sm => ({ tm with mbx := mailboxes sm, xfer := .idle }, .cfg (mailboxes sm))
  | .set _ i s ca v => ({ tm with objs := store tm.objs i s ca v }, .set)
  | .xfer _ i sub kind sched cut => xferOn tm i sub kind sched cut tm.mbx

def onTerm (w : List Term) (t : Nat) (f : Term → Term × Out) : Option Term → List Term × Out
  | none => (w, .nothing)
  | some tm => (w.set t (f tm).1, (f tm).2)

def stepOp (w : List Term) (op : Op) : List Term × Out :=
  onTerm w op.term (fun tm => termStep tm op) w[op.term]?

def runOps (w : List Term) : List Op → List Term × List Out
  | [] => (w, [])
  | op :: ops =>
    let r := stepOp w op
    let rs := runOps r.1 ops
    (rs.1, r.2 :: rs.2)

def Op.table : Op → Option (List UInt8)
  | .config _ sm => some sm
  | _ => none

def orLater (later earlier : Option (List UInt8)) : Option (List UInt8) :=
  match later with
  | some x => some x
  | none => earlier

/-- the table of the last `config` operation for terminal `t` -/
def lastConfig (t : Nat) : List Op → Option (List UInt8)
  | [] => none
  | op :: ops => orLater (lastConfig t ops) (if op.term = t then op.table else none)

/-- the mailboxes a terminal object has when `cfg` is the table of its last configuration (`old`: before any) -/
def presentMbx (old : Option Mbx) : Option (List UInt8) → Option Mbx
  | some sm => mailboxes sm
  | none => old

end Ebv.SdoHistory
