import Ebv.Model.PktVar
/-! Statements whose value is itself a variable, and sequences of statements in one program: `dst = src`,
`rk = src; dst = rk`, `dst += src`, `dst -= src` between packet variables, packet array elements and local
(stack) variables of any two struct formats, transcribed from what `ebpf.Memory._set` emits: the value is
calculated as for a read of the source (`readReg`, 64 bit iff the DESTINATION is 8 bytes wide), switched to the
destination's byte order and stored with the destination's width (`writeBytes`).  A program is a list of
statements executed on the packet and the local variables; registers are recorded for the correspondence. -/
namespace Ebv.PktVar
open Ebv.Bytes

/-- the bytes stored by `dst = src` (`bs` = the source's bytes) -/
def copyBytes (sf df : Fmt) (bs : List UInt8) : List UInt8 :=
  writeBytes df (readReg sf (df.n = 8) bs)

/-- the bytes stored by `rk = src; dst = rk` (`long`) / `wk = src; dst = wk` -/
def viaBytes (sf df : Fmt) (long : Bool) (bs : List UInt8) : List UInt8 :=
  writeBytes df (readReg sf long bs)

/-- the bytes stored by `dst += src` / `dst -= src`: both operands are calculated in the destination's register
width, added/subtracted (or the amount is negated and XADDed), switched and stored -/
def iaddVarBytes (df sf : Fmt) (neg : Bool) (dbs sbs : List UInt8) : List UInt8 :=
  let a : Int := readReg df (df.n = 8) dbs
  let b : Int := readReg sf (df.n = 8) sbs
  writeBytes df (((if neg then a - b else a + b) % (M64 : Int)).toNat)

/-- where a variable lives: `pkt p` = packet bytes from offset `p`; `loc i` = the `i`-th local variable's stack slot -/
inductive Ref where
  | pkt (off : Nat)
  | loc (i : Nat)
deriving Repr, DecidableEq

structure Mem where
  pkt : List UInt8
  loc : List (List UInt8)
deriving Repr, DecidableEq

def Mem.get (m : Mem) (r : Ref) (n : Nat) : List UInt8 :=
  match r with
  | .pkt p => slice m.pkt p (p + n)
  | .loc i => m.loc.getD i []

def Mem.set (m : Mem) (r : Ref) (bs : List UInt8) : Mem :=
  match r with
  | .pkt p => { m with pkt := setRange m.pkt p bs }
  | .loc i => { m with loc := m.loc.set i bs }

inductive Stmt where
  | copy (df : Fmt) (d : Ref) (sf : Fmt) (s : Ref)
  | via (df : Fmt) (d : Ref) (sf : Fmt) (s : Ref) (long : Bool) (k : Nat)
  | iadd (df : Fmt) (d : Ref) (sf : Fmt) (s : Ref) (neg : Bool)
  | const (df : Fmt) (d : Ref) (v : Nat)
  | iaddc (df : Fmt) (d : Ref) (a : Int)
  | read (k : Nat) (sf : Fmt) (s : Ref) (long : Bool)
deriving Repr

/-- the memory after one statement -/
def execMem (st : Stmt) (m : Mem) : Mem :=
  match st with
  | .copy df d sf s => m.set d (copyBytes sf df (m.get s sf.n))
  | .via df d sf s long _ => m.set d (viaBytes sf df long (m.get s sf.n))
  | .iadd df d sf s neg => m.set d (iaddVarBytes df sf neg (m.get d df.n) (m.get s sf.n))
  | .const df d v => m.set d (writeBytes df v)
  | .iaddc df d a => m.set d (iaddBytes df (m.get d df.n) a)
  | .read _ _ _ _ => m

abbrev Regs := List (Nat × Nat)

def setReg (rs : Regs) (k v : Nat) : Regs := (k, v) :: rs.filter (fun e => e.1 != k)

/-- the registers after one statement (executed on memory `m`) -/
def execRegs (st : Stmt) (m : Mem) (rs : Regs) : Regs :=
  match st with
  | .via _ _ sf s long k => setReg rs k (readReg sf long (m.get s sf.n))
  | .read k sf s long => setReg rs k (readReg sf long (m.get s sf.n))
  | _ => rs

def execAll (sts : List Stmt) (m : Mem) : Mem := sts.foldl (fun m st => execMem st m) m

def execAllRegs : List Stmt → Mem → Regs → Regs
  | [], _, rs => rs
  | st :: sts, m, rs => execAllRegs sts (execMem st m) (execRegs st m rs)

/-! `struct` semantics of the same statements: read = `unpack` with the source's format, store = `pack` with the
destination's format of the value reduced to its range -/
def specMem (st : Stmt) (m : Mem) : Mem :=
  match st with
  | .copy df d sf s => m.set d (packZ df (unpackZ sf (m.get s sf.n)))
  | .via df d sf s _ _ => m.set d (packZ df (unpackZ sf (m.get s sf.n)))
  | .iadd df d sf s neg =>
    let a := unpackZ df (m.get d df.n)
    let b := unpackZ sf (m.get s sf.n)
    m.set d (packZ df (if neg then a - b else a + b))
  | .const df d v => m.set d (packZ df (v : Int))
  | .iaddc df d a => m.set d (packZ df (unpackZ df (m.get d df.n) + a))
  | .read _ _ _ _ => m

def specAll (sts : List Stmt) (m : Mem) : Mem := sts.foldl (fun m st => specMem st m) m

/-- the variable `r` of `n` bytes lies inside the memory: inside the packet, or an existing slot of that size -/
def Mem.has (m : Mem) (r : Ref) (n : Nat) : Prop :=
  match r with
  | .pkt p => p + n ≤ m.pkt.length
  | .loc i => (m.loc.map List.length)[i]? = some n

instance (m : Mem) (r : Ref) (n : Nat) : Decidable (m.has r n) := by
  cases r <;> simp only [Mem.has] <;> infer_instance

/-- a statement is well formed on `m`: real formats, variables inside the memory; through a 32-bit register only
destinations of at most 4 bytes (the 32-bit view defines only the low 32 bits) -/
def Stmt.wf (st : Stmt) (m : Mem) : Prop :=
  match st with
  | .copy df d sf s => df.ok = true ∧ sf.ok = true ∧ m.has d df.n ∧ m.has s sf.n
  | .via df d sf s long _ => df.ok = true ∧ sf.ok = true ∧ m.has d df.n ∧ m.has s sf.n ∧ (long = true ∨ df.n ≤ 4)
  | .iadd df d sf s _ => df.ok = true ∧ sf.ok = true ∧ m.has d df.n ∧ m.has s sf.n
  | .const df d _ => df.ok = true ∧ m.has d df.n
  | .iaddc df d _ => df.ok = true ∧ m.has d df.n
  | .read _ sf s _ => sf.ok = true ∧ m.has s sf.n

/-- the destination of a statement and its size -/
def Stmt.dst : Stmt → Option (Ref × Nat)
  | .copy df d _ _ => some (d, df.n)
  | .via df d _ _ _ _ => some (d, df.n)
  | .iadd df d _ _ _ => some (d, df.n)
  | .const df d _ => some (d, df.n)
  | .iaddc df d _ => some (d, df.n)
  | .read _ _ _ _ => none

/-- every statement of the program is well formed on the memory the program starts on (only the sizes matter, and
no statement changes them: `C07Seq.wf_exec`) -/
def wfAll (sts : List Stmt) (m : Mem) : Prop := ∀ st, st ∈ sts → st.wf m

end Ebv.PktVar
