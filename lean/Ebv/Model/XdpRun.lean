import Ebv.Model.Ebpf
import Ebv.Model.Dispatch
/-! Running an XDP program *over* its helper calls and pseudo map loads, on top of `Ebpf.step`.

`Ebpf.run` stops at a CALL and rejects `LD_IMM64` with `src = BPF_PSEUDO_MAP_FD`; `runXdp` supplies both from
an explicit environment `Env` (what the kernel does for the program): a pseudo map load yields the opaque
handle of that fd; `map_lookup_elem` (1) returns what the environment's `lookup` says for (handle in r1, 32-bit
key read at r2); `get_prandom_u32` (7) returns `rnd`; `tail_call` (12) ends the run with `tailcall` when a
program is registered for (handle in r2, index in r3) and falls through otherwise.  Every returning helper sets
r0 and leaves arbitrary values (`clob`, a function of the helper and the whole state at the call) in r1–r5.

`Layout` is the memory picture an XDP invocation of the dispatcher starts from, on the flat byte memory of
`Ebpf.State`: stack below r10, `xdp_md` context at r1 holding the 32-bit `data`/`data_end`, the packet bytes, the
value region of the `variables` array map with the counters and the drop counter. -/
namespace Ebv.XdpRun
open Ebv.Ebpf

structure Env where
  handle : Int → W
  lookup : W → Nat → W
  rnd : W
  tail : W → W → Bool
  clob : Int → State → Nat → W

inductive XOut where
  | exit (r0 : W) (s : State)
  | tailcall (s : State)      -- state at the successful tail call (pc already behind the CALL)
  | bad
  | fuel

/-- return from a helper: r0 := result, r1..r5 := whatever the helper left there -/
def afterCall (e : Env) (id : Int) (s : State) (r0 : W) : State :=
  { s with regs := fun k => if k = 0 then r0 else if k ≤ 5 then e.clob id s k else s.regs k }

inductive HRes where
  | ret (s : State)
  | tail (s : State)
  | unknown

def helper (e : Env) (id : Int) (s : State) : HRes :=
  if id = 1 then .ret (afterCall e id s (e.lookup (s.regs 1) (loadN s.mem (s.regs 2) 4)))
  else if id = 7 then .ret (afterCall e id s e.rnd)
  else if id = 12 then
    if e.tail (s.regs 2) (s.regs 3) = true then .tail s else .ret (afterCall e id s (e.clob id s 0))
  else .unknown

/-- `LD_IMM64 dst, BPF_PSEUDO_MAP_FD, fd` at this slot pair: (dst, fd) -/
def pseudoOf : Option Insn → Option Insn → Option (Nat × Int)
  | some i, some j =>
    if i.op = 0x18 ∧ i.src = 1 ∧ j.op = 0 ∧ j.dst = 0 ∧ j.src = 0 ∧ j.off = 0 ∧ j.imm = 0 then some (i.dst, i.imm)
    else none
  | _, _ => none

def pseudo (prog : List Insn) (pc : Nat) : Option (Nat × Int) := pseudoOf (fetch prog pc) (fetch prog (pc + 1))

def afterHelper (k : State → XOut) : HRes → XOut
  | .ret s => k s
  | .tail s => .tailcall s
  | .unknown => .bad

def afterStep (e : Env) (k : State → XOut) (s : State) : Res → XOut
  | .next s' => k s'
  | .exit r => .exit r s
  | .call id s' => afterHelper k (helper e id s')
  | .bad => .bad

def runXdp (e : Env) (prog : List Insn) : Nat → State → XOut
  | 0, _ => .fuel
  | fuel + 1, s =>
    match pseudo prog s.pc with
    | some (d, fd) => runXdp e prog fuel { (s.setReg d (e.handle fd)) with pc := s.pc + 2 }
    | none => afterStep e (runXdp e prog fuel) s (step prog s)

/-! ### the memory picture -/

/-- the numbers of the program's maps: fd of `variables`, fd of the program array, offsets inside the value -/
structure Geo where
  varFd : Int
  progFd : Int
  varSize : Nat
  offCounters : Nat
  offDrop : Nat
  nProgs : Nat

/-- base addresses (as naturals; every region lies below 2^64 without wrapping) -/
structure Addrs where
  stk : Nat      -- r10: the 512 bytes below are the stack
  ctx : Nat      -- r1: struct xdp_md
  dat : Nat      -- ctx.data; ctx.data_end = dat + packet length
  mp : Nat       -- value of `variables[0]`

def addr (n : Nat) : W := BitVec.ofNat 64 n
def byte (b : UInt8) : BitVec 8 := BitVec.ofNat 8 b.toNat

def disjointIv (a la b lb : Nat) : Prop := a + la ≤ b ∨ b + lb ≤ a

/-- where the regions lie: below 2^64, pairwise disjoint -/
structure Regions (g : Geo) (a : Addrs) (len : Nat) : Prop where
  stk_lo : 512 ≤ a.stk
  stk_hi : a.stk ≤ 2 ^ 64
  ctx_hi : a.ctx + 8 ≤ 2 ^ 64
  pkt_hi : a.dat + len ≤ 2 ^ 64
  map_lo : 0 < a.mp
  map_hi : a.mp + g.varSize ≤ 2 ^ 64
  stk_ctx : disjointIv (a.stk - 512) 512 a.ctx 8
  stk_pkt : disjointIv (a.stk - 512) 512 a.dat len
  stk_map : disjointIv (a.stk - 512) 512 a.mp g.varSize
  ctx_pkt : disjointIv a.ctx 8 a.dat len
  ctx_map : disjointIv a.ctx 8 a.mp g.varSize
  pkt_map : disjointIv a.dat len a.mp g.varSize

/-- memory `M` shows packet `p` (of length `len`), counters `cs` and drop counter `dc`, and agrees with `M0`
everywhere outside the stack, the packet and the map value -/
structure MemRel (g : Geo) (a : Addrs) (M0 M : W → BitVec 8) (p : List UInt8) (cs : List Nat) (dc : Nat)
    (len : Nat) : Prop where
  plen : p.length = len
  clen : cs.length = g.nProgs
  pkt : ∀ i (h : i < p.length), M (addr (a.dat + i)) = byte p[i]
  counters : ∀ k (h : k < cs.length), loadN M (addr (a.mp + g.offCounters + 4 * k)) 4 = cs[k]
  drop : loadN M (addr (a.mp + g.offDrop)) 4 = dc
  frame : ∀ x : Nat, x < 2 ^ 64 → ¬ (a.stk - 512 ≤ x ∧ x < a.stk) → ¬ (a.dat ≤ x ∧ x < a.dat + len) →
    ¬ (a.mp ≤ x ∧ x < a.mp + g.varSize) → M (addr x) = M0 (addr x)

/-- what an XDP invocation of the dispatcher starts from -/
structure Layout (g : Geo) (a : Addrs) (e : Env) (s : State) (p : List UInt8) (cs : List Nat) (dc : Nat)
    (reg : Nat → Bool) : Prop where
  pc : s.pc = 0
  r10 : s.regs 10 = addr a.stk
  r1 : s.regs 1 = addr a.ctx
  regions : Regions g a p.length
  data : loadN s.mem (addr a.ctx) 4 = a.dat
  data_end : loadN s.mem (addr (a.ctx + 4)) 4 = a.dat + p.length
  pkt : ∀ i (h : i < p.length), s.mem (addr (a.dat + i)) = byte p[i]
  cs_len : cs.length = g.nProgs
  counters : ∀ k (h : k < cs.length), loadN s.mem (addr (a.mp + g.offCounters + 4 * k)) 4 = cs[k]
  drop : loadN s.mem (addr (a.mp + g.offDrop)) 4 = dc
  lookup : e.lookup (e.handle g.varFd) 0 = addr a.mp
  tail : ∀ i : W, e.tail (e.handle g.progFd) i = reg i.toNat

/-- XDP action codes; the tail call is not a return value -/
def actionCode : Dispatch.Action → Option W
  | .pass => some 2
  | .tx => some 3
  | .drop => some 1
  | .run => none

/-- the run ended the way `out` prescribes: action, packet bytes, counters, drop counter, nothing else written;
a tail call is made with (ctx, program array, `grp`) -/
def Post (g : Geo) (a : Addrs) (e : Env) (M0 : W → BitVec 8) (len grp : Nat) (out : Dispatch.Out) : XOut → Prop
  | .exit r s' => actionCode out.action = some r ∧
      MemRel g a M0 s'.mem out.packet out.counters out.dropcounter len
  | .tailcall s' => out.action = .run ∧
      MemRel g a M0 s'.mem out.packet out.counters out.dropcounter len ∧
      s'.regs 1 = addr a.ctx ∧ s'.regs 2 = e.handle g.progFd ∧ s'.regs 3 = addr grp
  | .bad => False
  | .fuel => False

end Ebv.XdpRun
