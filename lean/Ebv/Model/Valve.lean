import Ebv.Generated.Consts
/-! Model of the `Valve` device (ebpfcat/devices.py) in a slow sync group.

    def update(self):
        inPosition = self.openSwitch != self.closedSwitch
        isCorrect = ((self.closedSwitch or not self.openSwitch)
                     if (self.coil == self.safeState)
                     else (self.openSwitch or not self.closedSwitch))
        if inPosition and isCorrect:
            self.lastGood = monotonic()
            self.coil = self.target
        elif monotonic() - self.lastGood < self.movingTime:
            self.coil = self.target
        else:
            self.error = True
            self.coil = self.target = self.safeState

    def reset(self):
        self.error = False
        self.lastGood = monotonic()

Values are Python values seen as integers (`False`/`True` are 0/1, which is how `==`,
`!=`, `or`, `not` and `if` treat them):
* `openSwitch`, `closedSwitch`: whatever the linked process variable reads — a bool for a bit
  variable, an unsigned integer for a byte/word variable; modelled as `Nat`;
* `coil`: linked to a bit variable (a digital output): reading gives a bool, assigning `v`
  sets the bit iff `v` is truthy;
* `target`, `error`: `DeviceVar`s, in a slow group plain instance attributes (`target` reads
  0 until first assigned; anything may be assigned to it);
* the clock: `monotonic()` in ticks of a fixed unit (`Int`); it only moves by `advance d`
  with `d : Nat`, so its readings are non-decreasing by construction; `movingTime` in ticks.
Each `update`/`reset` reads the clock exactly once. -/
namespace Ebv.Valve

structure Cfg where
  safeState : Bool
  movingTime : Int
deriving Repr, DecidableEq

structure St where
  now : Int            -- what `monotonic()` returns
  openSw : Nat         -- value read from `openSwitch`
  closedSw : Nat       -- value read from `closedSwitch`
  coil : Bool          -- the output bit
  target : Nat
  error : Bool
  lastGood : Int
deriving Repr, DecidableEq

/-- Python truth value of an integer/bool -/
def truthy (v : Nat) : Bool := v != 0

/-- a Python bool as integer -/
def ofBool (b : Bool) : Nat := if b then 1 else 0

/-- truth value of `a or not b` -/
def orNot (a b : Nat) : Bool := if truthy a then true else !truthy b

/-- `inPosition and isCorrect` (truth value) -/
def good (cfg : Cfg) (s : St) : Bool :=
  let inPosition : Bool := s.openSw != s.closedSw
  let isCorrect : Bool :=
    if ofBool s.coil == ofBool cfg.safeState then orNot s.closedSw s.openSw
    else orNot s.openSw s.closedSw
  inPosition && isCorrect

def update (cfg : Cfg) (s : St) : St :=
  if good cfg s then { s with lastGood := s.now, coil := truthy s.target }
  else if s.now - s.lastGood < cfg.movingTime then { s with coil := truthy s.target }
  else { s with error := true, coil := truthy (ofBool cfg.safeState), target := ofBool cfg.safeState }

def reset (s : St) : St := { s with error := false, lastGood := s.now }

inductive Ev where
  | reset
  | update
  | setTarget (v : Nat)             -- the user assigns `valve.target = v`
  | switches (openSw closedSw : Nat) -- new process data arrives
  | advance (d : Nat)               -- time passes
deriving Repr, DecidableEq

def step (cfg : Cfg) (s : St) : Ev → St
  | .reset => reset s
  | .update => update cfg s
  | .setTarget v => { s with target := v }
  | .switches o c => { s with openSw := o, closedSw := c }
  | .advance d => { s with now := s.now + d }

def run (cfg : Cfg) : St → List Ev → St
  | s, [] => s
  | s, e :: es => run cfg (step cfg s e) es

/-- the state after each event -/
def trace (cfg : Cfg) : St → List Ev → List St
  | _, [] => []
  | s, e :: es => step cfg s e :: trace cfg (step cfg s e) es

/-! ### several valves in ONE slow sync group

`SyncGroup(ec, [valve0, valve1, …])`: every valve is its own `Valve` object with its own configuration
(`safeState`, `movingTime`), its own linked process variables (coil bit, switch bits) and its own `target`,
`error` (`DeviceVar`s, in a slow group plain attributes of the device object) and `lastGood`.  The only thing
they share is the clock.  One cycle of the group (`SyncGroup.update_devices`) calls every device's `update()`
in order. -/

structure Member where
  cfg : Cfg
  st : St
deriving Repr, DecidableEq

inductive GEv where
  | reset (i : Nat)                     -- `valves[i].reset()`
  | update (i : Nat)                    -- `valves[i].update()`
  | cycle                               -- `SyncGroup.update_devices`: `update()` of every device
  | setTarget (i v : Nat)               -- `valves[i].target = v`
  | switches (i openSw closedSw : Nat)  -- process data of valve `i`'s switches
  | advance (d : Nat)                   -- time passes (for all)
deriving Repr, DecidableEq

def Member.on (e : Ev) (u : Member) : Member := { u with st := step u.cfg u.st e }

def modifyAt (f : Member → Member) : List Member → Nat → List Member
  | [], _ => []
  | u :: r, 0 => f u :: r
  | u :: r, i + 1 => u :: modifyAt f r i

def gstep (g : List Member) : GEv → List Member
  | .reset i => modifyAt (Member.on .reset) g i
  | .update i => modifyAt (Member.on .update) g i
  | .cycle => g.map (Member.on .update)
  | .setTarget i v => modifyAt (Member.on (.setTarget v)) g i
  | .switches i o c => modifyAt (Member.on (.switches o c)) g i
  | .advance d => g.map (Member.on (.advance d))

def grun : List Member → List GEv → List Member
  | g, [] => g
  | g, e :: es => grun (gstep g e) es

/-- the group after each event -/
def gtrace : List Member → List GEv → List (List Member)
  | _, [] => []
  | g, e :: es => gstep g e :: gtrace (gstep g e) es

/-- what valve `i` sees of a group event: the events addressed to it, the cycles, the clock -/
def proj (i : Nat) : GEv → List Ev
  | .reset j => if j = i then [.reset] else []
  | .update j => if j = i then [.update] else []
  | .cycle => [.update]
  | .setTarget j v => if j = i then [.setTarget v] else []
  | .switches j o c => if j = i then [.switches o c] else []
  | .advance d => [.advance d]

def projAll (i : Nat) : List GEv → List Ev
  | [] => []
  | e :: es => proj i e ++ projAll i es

end Ebv.Valve
