import Ebv.Generated.Consts
/-! # A computable model of the binary64 arithmetic that `Constant.__init__` / `ArrayGlobalVarDesc.__set__` use

`round(float(v) * FIXED_BASE)` (ebpfcat/ebpf.py, ebpfcat/arraymap.py) for a decimal literal `v = n / 10^5`:

* `float("…")` and `int / int` are correctly rounded in CPython: the binary64 number nearest to the rational,
  ties to even (`flPos`, `roundToDouble`);
* `x * 100000.0` is the binary64 number nearest to the exact product;
* `round(x)` on a float is round-half-to-even of its exact value (`pyRound`).

**What is modelled**: IEEE-754 binary64 round-to-nearest-even with an *unbounded exponent*; this is the IEEE result
whenever the result is a normal number (`normalRange`).  Inputs in scope: decimals `n / 10^5`, `|n| < 2^51`
(then every intermediate is normal).  NaN, infinities, subnormals, arbitrary float inputs: not modelled.
The model is validated against CPython's `float` by a sweep (harness/vh/props/c02.py), not proved against hardware. -/
namespace Ebv.F64

/-- round-half-to-even of `a / b` (`b > 0`) -/
def rne (a b : Nat) : Nat :=
  let q := a / b
  let r := a % b
  if 2 * r < b then q else if b < 2 * r then q + 1 else if q % 2 = 0 then q else q + 1

/-- the binary64 number nearest to `a / b` (`a, b > 0`) as mantissa and exponent, value `m · 2^e` with
`2^52 ≤ m ≤ 2^53`: the exponent is found from the bit lengths with one correction step -/
def flPos (a b : Nat) : Nat × Int :=
  let la := a.log2
  let lb := b.log2
  if la ≤ 52 + lb then
    let s0 := 52 + lb - la
    let s := if a * 2 ^ s0 < 2 ^ 52 * b then s0 + 1 else s0
    (rne (a * 2 ^ s) b, -(s : Int))
  else
    let s0 := la - lb - 52
    let s := if a < 2 ^ 52 * (b * 2 ^ s0) then s0 - 1 else s0
    (rne a (b * 2 ^ s), (s : Int))

/-- `m · 2^e` as a fraction -/
def dyFrac (m : Nat) (e : Int) : Nat × Nat :=
  if e < 0 then (m, 2 ^ (-e).toNat) else (m * 2 ^ e.toNat, 1)

def dyVal (m : Nat) (e : Int) : Rat := ((dyFrac m e).1 : Rat) / ((dyFrac m e).2 : Rat)

def sgn (z : Int) : Int := if z < 0 then -1 else 1

/-- **IEEE binary64 round-to-nearest-even** of a rational (unbounded exponent) -/
def roundToDouble (q : Rat) : Rat :=
  if q.num = 0 then 0 else
    let me := flPos q.num.natAbs q.den
    (sgn q.num : Rat) * dyVal me.1 me.2

/-- Python's `round(x)` of a float with exact value `q`: nearest integer, ties to even -/
def pyRound (q : Rat) : Int := sgn q.num * (rne q.num.natAbs q.den : Int)

def absQ (q : Rat) : Rat := if q < 0 then -q else q

/-- the rational is in the range where binary64 numbers are normal (and finite) -/
def normalRange (q : Rat) : Bool :=
  decide (1 / (2 : Rat) ^ 1022 ≤ absQ q) && decide (absQ q < (2 : Rat) ^ 1023 * 2)

def B : Nat := Consts.FIXED_BASE

/-- `round(float("n/10^5") * 100000)` for `n > 0`, computed on fractions (no normalisation in between): the double
nearest to `N / 10^5`, its exact product with `10^5`, the double nearest to that, `round` -/
def decConstAbs (N : Nat) : Nat :=
  if N = 0 then 0 else
    let x := flPos N B                                   -- float("N/10^5") = m1 · 2^e1
    let y := dyFrac (x.1 * B) x.2                        -- the exact product with 100000.0
    let z := flPos y.1 y.2                               -- the float product
    let f := dyFrac z.1 z.2
    rne f.1 f.2                                          -- round()

/-- **the integer `Constant.__init__` stores for the decimal literal `n / 10^5`** (and
`ArrayGlobalVarDesc.__set__` writes into an `x` map variable) -/
def decConst (n : Int) : Int := sgn n * (decConstAbs n.natAbs : Int)

/-- the same through `Rat` (normalised fractions between the steps) — compared with `decConst` and with CPython by
the sweep -/
def decConstQ (n : Int) : Int :=
  pyRound (roundToDouble (roundToDouble (mkRat n B) * (B : Rat)))

/-- `unpack("q") / FIXED_BASE`: what Python reads back from an `x` map variable holding `v` -/
def pyGet (v : Int) : Rat := roundToDouble (mkRat v B)

/-- `int(float("n/10^5"))` (`Expression.__rfloordiv__` of a non-fixed expression truncates the float operand) -/
def decTrunc (n : Int) : Int :=
  let x := roundToDouble (mkRat n B)
  sgn x.num * ((x.num.natAbs / x.den : Nat) : Int)

end Ebv.F64
