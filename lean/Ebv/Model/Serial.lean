import Ebv.Generated.Consts
/-! Model of `Serial.update` (ebpfcat/serial.py), the master side of the EL6002 serial
handshake, composed with a model of one EL6002 channel (ebpfcat/terminals.py:
`EL6002.Channel`) whose timing is chosen by oracle lists.

One cycle = the terminal processes the outputs the master wrote in the previous cycle and
presents its inputs, the application may write bytes into the transmit pipe, then
`update()` runs once.  The application pipes are byte streams (`List UInt8`); a
non-blocking `os.read(fd, n)` takes the first `min n len` bytes (nothing when the pipe is
empty: `BlockingIOError`, or `b''` at end of file, both of which `update` ignores).

Numbers from /repo: `serial_pstr_size` (the `23p` fields), `serial_read_max`
(`os.read(self.out_read, 22)`), `serial_init_byte` (`b'A'`). -/
namespace Ebv.Serial
open Ebv.Consts

abbrev Bytes := List UInt8

/-- size of the `23p` field: one length byte + data -/
def strSize : Nat := serial_pstr_size
/-- bytes a `23p` field can hold -/
def cap : Nat := strSize - 1
/-- `os.read(self.out_read, 22)` -/
def readMax : Nat := serial_read_max
/-- `os.write(self.in_write, b'A')` -/
def initByte : UInt8 := UInt8.ofNat serial_init_byte

/-- `struct.pack('23p', c)`: length byte, data truncated to 22 bytes, zero padding -/
def pack (c : Bytes) : Bytes :=
  UInt8.ofNat (c.take cap).length :: (c.take cap ++ List.replicate (cap - (c.take cap).length) 0)

/-- `struct.unpack('23p', raw)[0]`: a length byte above 22 counts as 22 -/
def unpack : Bytes → Bytes
  | [] => []
  | n :: rest => rest.take (min n.toNat cap)

/-- process data the terminal presents (SyncManager.IN) -/
structure Inp where
  ta : Bool        -- transmit_accept
  rr : Bool        -- receive_request
  ia : Bool        -- init_accept
  inStr : Bytes    -- in_string, the raw 23 bytes
deriving Repr, DecidableEq

/-- process data the master writes (SyncManager.OUT) -/
structure Out where
  tr : Bool        -- transmit_request
  ra : Bool        -- receive_accept
  ir : Bool        -- init_request
  outStr : Bytes   -- out_string, the raw 23 bytes
deriving Repr, DecidableEq

/-- the output image of a freshly assembled packet -/
def Out.zero : Out := ⟨false, false, false, List.replicate strSize 0⟩

/-- attributes of the `Serial` object and the unread content of its transmit pipe -/
structure Master where
  connected : Bool := false
  ltr : Bool := false          -- last_transmit_request
  lra : Bool := false          -- last_receive_accept
  lta : Bool := false          -- last_transmit_accept (set when connecting)
  lrr : Bool := false          -- last_receive_request (set when connecting)
  cur : Option Bytes := none   -- current_transmit
  outPipe : Bytes := []        -- written by the application, not yet read (out_read)
deriving Repr, DecidableEq

/-- `if self.last_receive_request != self.receive_request: os.write(in_write, in_string);
toggle last_receive_accept; receive_accept = it` then `last_receive_request = receive_request`.
Third component: the bytes written to the application pipe. -/
def recv (m : Master) (i : Inp) (o : Out) : Master × Out × Bytes :=
  if m.lrr != i.rr then
    ({ m with lra := !m.lra, lrr := i.rr }, { o with ra := !m.lra }, unpack i.inStr)
  else
    ({ m with lrr := i.rr }, o, [])

/-- `if self.last_transmit_accept != self.transmit_accept: current_transmit = None; last_… = …` -/
def accept (m : Master) (i : Inp) : Master :=
  if m.lta != i.ta then { m with cur := none, lta := i.ta } else m

/-- `if self.current_transmit is None: data = os.read(out_read, 22); if data: current_transmit =
data; toggle last_transmit_request`.  Second component: the chunk read from the pipe. -/
def readPipe (m : Master) : Master × Option Bytes :=
  match m.cur with
  | some _ => (m, none)
  | none =>
    if m.outPipe.take readMax = [] then (m, none)
    else ({ m with cur := some (m.outPipe.take readMax), ltr := !m.ltr,
                   outPipe := m.outPipe.drop readMax }, some (m.outPipe.take readMax))

/-- `if self.current_transmit is not None: out_string = current_transmit` and
`transmit_request = last_transmit_request` -/
def present (m : Master) (o : Out) : Out :=
  match m.cur with
  | some c => { o with outStr := pack c, tr := m.ltr }
  | none => { o with tr := m.ltr }

/-- `Serial.update`: new attributes, new output image, bytes written to the application pipe,
chunk read from the application pipe -/
def update (m : Master) (i : Inp) (o : Out) : Master × Out × Bytes × Option Bytes :=
  let o := { o with ir := false }                        -- self.init_request = False
  if !m.connected then
    if i.ia then
      ({ m with connected := true, lta := i.ta, lrr := i.rr }, o, [initByte], none)
    else
      (m, { o with ir := true }, [], none)
  else
    let r := recv m i o
    let m := accept r.1 i
    let p := readPipe m
    (p.1, present p.1 r.2.1, r.2.2, p.2)

/-! ### the EL6002 channel -/

inductive Phase where
  | idle      -- waits for init_request
  | acking    -- init_accept set, waits for init_request to be cleared
  | ready     -- data exchange
deriving Repr, DecidableEq

/-- transmit direction (master → line) -/
structure TermTx where
  ta : Bool                 -- transmit_accept
  seenTR : Bool             -- the value of transmit_request already dealt with
  wait : Option Nat         -- a request was noticed; accept after this many further cycles
  delays : List Nat         -- oracle: accept delay for each further request
deriving Repr, DecidableEq

/-- receive direction (line → master) -/
structure TermRx where
  rr : Bool                 -- receive_request
  inStr : Bytes             -- in_string (raw)
  seenRA : Bool             -- the value of receive_accept already dealt with
  outstanding : Bool        -- a chunk was announced and is not yet acknowledged
  plan : List (Nat × Bytes) -- oracle: (idle cycles before announcing, chunk) for each further chunk
deriving Repr, DecidableEq

structure Term where
  phase : Phase
  initWait : Nat            -- oracle: cycles the init request is left unanswered
  tx : TermTx
  rx : TermRx
deriving Repr, DecidableEq

/-- a toggle of transmit_request is noticed; the oracle fixes how long the accept takes -/
def txNotice (t : TermTx) (tr : Bool) : TermTx :=
  match t.wait with
  | some _ => t
  | none =>
    if tr != t.seenTR then
      match t.delays with
      | [] => { t with wait := some 0 }
      | d :: ds => { t with wait := some d, delays := ds }
    else t

/-- second component: the chunk taken out of out_string and accepted in this cycle -/
def txStep (t : TermTx) (tr : Bool) (outStr : Bytes) : TermTx × Option Bytes :=
  match (txNotice t tr).wait with
  | none => (txNotice t tr, none)
  | some 0 => ({ txNotice t tr with ta := !t.ta, seenTR := tr, wait := none }, some (unpack outStr))
  | some (w + 1) => ({ txNotice t tr with wait := some w }, none)

/-- the acknowledge of the announced chunk is noticed -/
def rxAck (t : TermRx) (ra : Bool) : TermRx :=
  if t.outstanding && (ra != t.seenRA) then { t with seenRA := ra, outstanding := false } else t

/-- second component: the chunk announced in this cycle (what in_string can hold of it) -/
def rxStep (t : TermRx) (ra : Bool) : TermRx × Option Bytes :=
  if (rxAck t ra).outstanding then (rxAck t ra, none)
  else
    match (rxAck t ra).plan with
    | [] => (rxAck t ra, none)
    | (0, c) :: rest =>
      ({ rxAck t ra with inStr := pack c, rr := !t.rr, outstanding := true, plan := rest }, some (c.take cap))
    | (d + 1, c) :: rest => ({ rxAck t ra with plan := (d, c) :: rest }, none)

/-- one cycle of the terminal on the outputs it receives: new state, accepted chunk, announced chunk -/
def Term.step (t : Term) (o : Out) : Term × Option Bytes × Option Bytes :=
  match t.phase with
  | .idle =>
    if o.ir then
      if t.initWait = 0 then ({ t with phase := .acking }, none, none)
      else ({ t with initWait := t.initWait - 1 }, none, none)
    else (t, none, none)
  | .acking =>
    if o.ir then (t, none, none)
    else ({ t with phase := .ready,
                   tx := { t.tx with seenTR := o.tr, wait := none },
                   rx := { t.rx with seenRA := o.ra, outstanding := false } }, none, none)
  | .ready =>
    ({ t with tx := (txStep t.tx o.tr o.outStr).1, rx := (rxStep t.rx o.ra).1 },
     (txStep t.tx o.tr o.outStr).2, (rxStep t.rx o.ra).2)

def Term.inp (t : Term) : Inp := ⟨t.tx.ta, t.rx.rr, t.phase == .acking, t.rx.inStr⟩

/-! ### the composed system -/

structure Sys where
  m : Master
  t : Term
  o : Out
deriving Repr, DecidableEq

/-- what can be seen of one cycle -/
structure Obs where
  inp : Inp                  -- what the terminal presented
  out : Out                  -- the output image after `update`
  delivered : Bytes          -- bytes `update` wrote to the application pipe
  readChunk : Option Bytes   -- chunk `update` read from the application pipe
  accepted : Option Bytes    -- chunk the terminal accepted (from out_string)
  announced : Option Bytes   -- chunk the terminal announced (in in_string)
  pending : Option Bytes     -- current_transmit after `update`
  unread : Nat               -- bytes left in the transmit pipe after `update`
deriving Repr, DecidableEq

/-- terminal step, application write `w`, then `update` -/
def cycle (s : Sys) (w : Bytes) : Sys × Obs :=
  let ts := s.t.step s.o
  let u := update { s.m with outPipe := s.m.outPipe ++ w } ts.1.inp s.o
  (⟨u.1, ts.1, u.2.1⟩,
   ⟨ts.1.inp, u.2.1, u.2.2.1, u.2.2.2, ts.2.1, ts.2.2, u.1.cur, u.1.outPipe.length⟩)

def final (s : Sys) : List Bytes → Sys
  | [] => s
  | w :: ws => final (cycle s w).1 ws

def trace (s : Sys) : List Bytes → List Obs
  | [] => []
  | w :: ws => (cycle s w).2 :: trace (cycle s w).1 ws

/-- fresh `Serial` object, zeroed outputs, a channel with arbitrary status bits / in_string and
arbitrary oracles -/
def init (ta0 rr0 : Bool) (in0 : Bytes) (initWait : Nat) (txDelays : List Nat)
    (rxPlan : List (Nat × Bytes)) : Sys :=
  ⟨{}, ⟨.idle, initWait, ⟨ta0, false, none, txDelays⟩, ⟨rr0, in0, false, false, rxPlan⟩⟩, Out.zero⟩

/-- drain phase of a run: from now on the terminal answers without delay (a noticed request is accepted in
the next cycle, every further chunk of the receive plan is announced as soon as the previous one is
acknowledged, a still unanswered init request is answered at once) -/
def Term.drain (t : Term) : Term :=
  { t with
    initWait := 0
    tx := { t.tx with wait := t.tx.wait.map fun _ => 0, delays := [] }
    rx := { t.rx with plan := t.rx.plan.map fun p => (0, p.2) } }

def Sys.drain (s : Sys) : Sys := { s with t := s.t.drain }

/-- `n` further cycles without application writes -/
def idle (n : Nat) : List Bytes := List.replicate n []

/-! ### projections of a trace -/

def reads (tr : List Obs) : List Bytes := tr.filterMap (·.readChunk)
def accs (tr : List Obs) : List Bytes := tr.filterMap (·.accepted)
def anns (tr : List Obs) : List Bytes := tr.filterMap (·.announced)

/-- for each element: does it differ from its predecessor (`prev` before the first) -/
def toggleMarks : Bool → List Bool → List Bool
  | _, [] => []
  | prev, b :: bs => (b != prev) :: toggleMarks b bs

def toggles (prev : Bool) (bs : List Bool) : Nat := (toggleMarks prev bs).count true

end Ebv.Serial
