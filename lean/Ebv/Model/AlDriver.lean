import Ebv.Generated.Consts
/-! Model of `Terminal.to_operational` / `Terminal.get_state`
(ebpfcat/ethercat.py).  The coroutine becomes a function that consumes the
list of AL-status answers the terminal will give and produces the trace of
register accesses plus the way the call ends.  States are the raw numbers of
`MachineState`; their declaration order is the regenerated `Consts.msOrder`. -/
namespace Ebv.AlDriver
open Ebv.Consts

/-- one answer to a read of register 0x130: low nibble, error bit, status code -/
structure Resp where
  state : Nat
  err : Bool
  status : Nat
deriving Repr, DecidableEq

inductive Ev where
  | write (v : Nat)          -- FPWR 0x120
  | read (r : Resp)          -- FPRD 0x130, answered with r
  | readBlocked              -- FPRD 0x130 issued, no answer left in the script
deriving Repr, DecidableEq

inductive Outcome where
  | returned     -- `return ret`
  | fellOff      -- the `for` loop ran out: returns None
  | raised       -- EtherCatError
  | blocked      -- still waiting for an answer
  | valueError   -- `MachineState(x)` on a value that is no state
deriving Repr, DecidableEq

def valid (s : Nat) : Bool := msOrder.contains s

inductive PollEnd where
  | reached (rest : List Resp)
  | stop (o : Outcome)

/-- `while current is not state: state, error, status = await get_state(); if error: raise` -/
def poll (cur : Nat) : List Resp → List Ev × PollEnd
  | [] => ([.readBlocked], .stop .blocked)
  | r :: rs =>
    if !valid r.state then ([.read r], .stop .valueError)
    else if r.err then ([.read r], .stop .raised)
    else if r.state = cur then ([.read r], .reached rs)
    else
      let (evs, e) := poll cur rs
      (.read r :: evs, e)

/-- the `for current in order[index+1:]` loop -/
def walk (target : Nat) : List Nat → Nat → List Resp → List Ev × Outcome
  | [], _, _ => ([], .fellOff)
  | cur :: todo, state, rs =>
    if state ≥ target then ([], .returned)
    else
      match poll cur rs with
      | (evs, .reached rs') =>
        let (evs', o) := walk target todo cur rs'
        (.write cur :: evs ++ evs', o)
      | (evs, .stop o) => (.write cur :: evs, o)

/-- `order[order.index(state) + 1:]` -/
def after (state : Nat) : List Nat := (msOrder.dropWhile (· != state)).drop 1

def ackValue : Nat := 0x11

def toOperational (target : Nat) : List Resp → List Ev × Outcome
  | [] => ([.readBlocked], .blocked)
  | r :: rs =>
    if !valid r.state then ([.read r], .valueError)
    else if r.err then
      let (evs, o) := walk target (after ms_INIT) ms_INIT rs
      (.read r :: .write ackValue :: evs, o)
    else
      let (evs, o) := walk target (after r.state) r.state rs
      (.read r :: evs, o)

def writes : List Ev → List Nat
  | [] => []
  | .write v :: t => v :: writes t
  | _ :: t => writes t

def reads : List Ev → List Resp
  | [] => []
  | .read r :: t => r :: reads t
  | _ :: t => reads t

end Ebv.AlDriver
