import Ebv.Generated.Consts
/-! Model of `Terminal.to_operational` / `Terminal.get_state`
(ebpfcat/ethercat.py).  The coroutine becomes a function that consumes the
list of AL-status answers the terminal will give and produces the trace of
register accesses plus the way the call ends.  States are the raw numbers of
`MachineState`; their declaration order is the regenerated `Consts.msOrder`. -/
namespace Ebv.AlDriver
open Ebv.Consts

/-- one answer to a read of register 0x130: low nibble, error bit, status code -/
structure Resp where
  state : Nat
  err : Bool
  status : Nat
deriving Repr, DecidableEq

inductive Ev where
  | write (v : Nat)          -- FPWR 0x120
  | read (r : Resp)          -- FPRD 0x130, answered with r
  | readBlocked              -- FPRD 0x130 issued, no answer left in the script
deriving Repr, DecidableEq

inductive Outcome where
  | returned     -- `return ret`
  | fellOff      -- the `for` loop ran out: returns None
  | raised       -- EtherCatError
  | blocked      -- still waiting for an answer
  | valueError   -- `MachineState(x)` on a value that is no state
deriving Repr, DecidableEq

def valid (s : Nat) : Bool := msOrder.contains s

inductive PollEnd where
  | reached (rest : List Resp)
  | stop (o : Outcome)

/-- `while current is not state: state, error, status = await get_state(); if error: raise` -/
def poll (cur : Nat) : List Resp → List Ev × PollEnd
  | [] => ([.readBlocked], .stop .blocked)
  | r :: rs =>
    if !valid r.state then ([.read r], .stop .valueError)
    else if r.err then ([.read r], .stop .raised)
    else if r.state = cur then ([.read r], .reached rs)
    else
      let (evs, e) := poll cur rs
      (.read r :: evs, e)

/-- the `for current in order[index+1:]` loop -/
def walk (target : Nat) : List Nat → Nat → List Resp → List Ev × Outcome
  | [], _, _ => ([], .fellOff)
  | cur :: todo, state, rs =>
    if state ≥ target then ([], .returned)
    else
      match poll cur rs with
      | (evs, .reached rs') =>
        let (evs', o) := walk target todo cur rs'
        (.write cur :: evs ++ evs', o)
      | (evs, .stop o) => (.write cur :: evs, o)

/-- `order[order.index(state) + 1:]` -/
def after (state : Nat) : List Nat := (msOrder.dropWhile (· != state)).drop 1

def ackValue : Nat := 0x11

def toOperational (target : Nat) : List Resp → List Ev × Outcome
  | [] => ([.readBlocked], .blocked)
  | r :: rs =>
    if !valid r.state then ([.read r], .valueError)
    else if r.err then
      let (evs, o) := walk target (after ms_INIT) ms_INIT rs
      (.read r :: .write ackValue :: evs, o)
    else
      let (evs, o) := walk target (after r.state) r.state rs
      (.read r :: evs, o)

def writes : List Ev → List Nat
  | [] => []
  | .write v :: t => v :: writes t
  | _ :: t => writes t

def reads : List Ev → List Resp
  | [] => []
  | .read r :: t => r :: reads t
  | _ :: t => reads t

/-! ### small-step form and several terminals on one bus

The coroutine `to_operational` only ever waits for the answer to an AL status read.  `DS` is its
state at such a point, `resume` runs it up to the next read.  A bus carries the datagrams of many
callers (several terminals brought up with `gather`, address probes that nobody answers, ...) in
shared frames; `sysRun` interleaves the drivers of several terminals under an arbitrary schedule. -/

inductive DS where
  | start                                     -- first `get_state` issued
  | polling (cur : Nat) (todo : List Nat)     -- `cur` requested, polling; `todo` = rest of the `for` loop
  | fin (o : Outcome)                         -- the call is over
deriving Repr, DecidableEq

/-- top of the `for` loop body with `state` known and `todo` still to iterate over -/
def enter (target : Nat) : List Nat → Nat → List Ev × DS
  | [], _ => ([], .fin .fellOff)
  | cur :: todo, state =>
    if state ≥ target then ([], .fin .returned) else ([.write cur], .polling cur todo)

/-- resume the coroutine with the answer to its pending AL status read -/
def resume (target : Nat) : DS → Resp → List Ev × DS
  | .start, r =>
    if !valid r.state then ([.read r], .fin .valueError)
    else if r.err then
      let p := enter target (after ms_INIT) ms_INIT
      (.read r :: .write ackValue :: p.1, p.2)
    else
      let p := enter target (after r.state) r.state
      (.read r :: p.1, p.2)
  | .polling cur todo, r =>
    if !valid r.state then ([.read r], .fin .valueError)
    else if r.err then ([.read r], .fin .raised)
    else if r.state = cur then
      let p := enter target todo cur
      (.read r :: p.1, p.2)
    else ([.read r], .polling cur todo)
  | .fin o, _ => ([], .fin o)

/-- run the coroutine from state `d` on a script of answers -/
def runD (target : Nat) : DS → List Resp → List Ev × Outcome
  | .fin o, _ => ([], o)
  | .start, [] => ([.readBlocked], .blocked)
  | .polling _ _, [] => ([.readBlocked], .blocked)
  | .start, r :: rs =>
    let p := resume target .start r
    let q := runD target p.2 rs
    (p.1 ++ q.1, q.2)
  | .polling c t, r :: rs =>
    let p := resume target (.polling c t) r
    let q := runD target p.2 rs
    (p.1 ++ q.1, q.2)

/-- one terminal on the bus together with the master's driver for it -/
structure Dev where
  target : Nat
  ds : DS
  rs : List Resp           -- the answers the terminal will still give
deriving Repr, DecidableEq

/-- a datagram of this terminal's driver is processed: the driver gets its next answer -/
def devStep (d : Dev) : List Ev × Dev :=
  match d.ds, d.rs with
  | .fin _, _ => ([], d)
  | _, [] => ([], d)
  | ds, r :: rs =>
    let p := resume d.target ds r
    (p.1, { d with ds := p.2, rs := rs })

def devRun : Nat → Dev → List Ev × Dev
  | 0, d => ([], d)
  | k + 1, d =>
    let p := devStep d
    let q := devRun k p.2
    (p.1 ++ q.1, q.2)

/-- participant `i` advances; an index outside the list is traffic that concerns no terminal
under consideration (other stations, datagrams nobody answers) -/
def sysStep (sys : List Dev) (i : Nat) : List (Nat × Ev) × List Dev :=
  match sys[i]? with
  | none => ([], sys)
  | some d =>
    let p := devStep d
    (p.1.map (fun e => (i, e)), sys.set i p.2)

def sysRun : List Dev → List Nat → List (Nat × Ev) × List Dev
  | sys, [] => ([], sys)
  | sys, i :: sched =>
    let p := sysStep sys i
    let q := sysRun p.2 sched
    (p.1 ++ q.1, q.2)

/-- what terminal `i` saw -/
def proj (i : Nat) (evs : List (Nat × Ev)) : List Ev := (evs.filter (fun e => e.1 == i)).map (·.2)

def DS.outcome : DS → Outcome
  | .fin o => o
  | _ => .blocked

/-- the read that is still waiting for an answer -/
def DS.pending : DS → List Ev
  | .fin _ => []
  | _ => [.readBlocked]

/-! ### histories: the same `Terminal` objects used again and again

Several terminals, each with the script of AL status answers it will still give; a history is a
list of uses (`to_operational`, `set_state`, `get_state`) of the terminals' `Terminal` objects, one
after the other.  The `Terminal` object keeps nothing between uses: a use consumes answers from
its own terminal's script and leaves the rest for the next use of that terminal. -/

inductive Op where
  | toOp (target : Nat)     -- `await t.to_operational(target)`
  | setState (v : Nat)      -- `await t.set_state(v)`: one FPWR 0x120
  | getState                -- `await t.get_state()`: one FPRD 0x130
deriving Repr, DecidableEq

/-- one use of a fresh-or-not `Terminal` object, on the answers its terminal gives from now on -/
def runOp : Op → List Resp → List Ev × Outcome
  | .toOp target, rs => toOperational target rs
  | .setState v, _ => ([.write v], .fellOff)
  | .getState, [] => ([.readBlocked], .blocked)
  | .getState, r :: _ => ([.read r], if valid r.state then .returned else .valueError)

/-- how many answers a use has taken from the script -/
def consumed (evs : List Ev) : Nat := (reads evs).length

/-- the uses of one terminal, one after the other, on its script -/
def hist1 : List Resp → List Op → List (List Ev × Outcome)
  | _, [] => []
  | rs, op :: ops =>
    let p := runOp op rs
    p :: hist1 (rs.drop (consumed p.1)) ops

/-- the script left after the uses -/
def rest1 : List Resp → List Op → List Resp
  | rs, [] => rs
  | rs, op :: ops => rest1 (rs.drop (consumed (runOp op rs).1)) ops

structure HOp where
  term : Nat
  op : Op
deriving Repr, DecidableEq

def scriptOf (scripts : List (List Resp)) (t : Nat) : List Resp := (scripts[t]?).getD []

/-- uses of several terminals in any order; the result of each is tagged with its terminal -/
def histRun : List (List Resp) → List HOp → List (Nat × (List Ev × Outcome))
  | _, [] => []
  | scripts, h :: hs =>
    let rs := scriptOf scripts h.term
    let p := runOp h.op rs
    (h.term, p) :: histRun (scripts.set h.term (rs.drop (consumed p.1))) hs

/-- the results of the uses of terminal `t` -/
def projH (t : Nat) (res : List (Nat × (List Ev × Outcome))) : List (List Ev × Outcome) :=
  (res.filter (fun e => e.1 == t)).map (·.2)

/-- the uses of terminal `t` in a history -/
def opsOf (t : Nat) (ops : List HOp) : List Op := (ops.filter (fun h => h.term == t)).map (·.op)

end Ebv.AlDriver
