import Ebv.Model.Sdo
import Ebv.Model.SdoServer
/-! The composed system: the master of `Ebv.Sdo` talking to the server of `Ebv.SdoServer`
through the two mailboxes, under a schedule that delays responses and puts unrelated mail
into the terminal's send mailbox.

The master is a function of the mails it will receive, the server a function of the requests
it gets.  Both are causal (the k-th request depends on the first k−1 responses only and vice
versa), so the run of the composed system is the limit of the iteration
`mails ↦ mailsOf (serve (sent (master mails)))` started from what is pending before anything
was sent; every round adds at least the answers to one more request.  `system n` is the result after
`n` rounds.  The check compares `system` with the real interleaving of the real master and
the Python server on every composed case. -/
namespace Ebv.SdoSystem
open Ebv.Bytes Ebv.Sdo Ebv.SdoServer

/-- what happens around the k-th `mbx_send` of the call -/
structure Slot where
  full : Bool               -- bit 3 of 0x805 as read by this `mbx_send`
  pre : List (List UInt8)   -- unrelated mail that arrived before this request was written
  delay : Nat               -- polls of 0x80D that find the answer(s) to this request not yet there
deriving Repr, DecidableEq

/-- the mailbox read returns exactly `inSz` bytes -/
def padTo (n : Nat) (bs : List UInt8) : List UInt8 := (bs ++ zeros n).take n

def toMail (inSz delay : Nat) (m : List UInt8) : Mail := ⟨delay, padTo inSz m⟩

/-- the send mailbox's successive contents, given the answers to the requests served so far -/
def mkMails (inSz : Nat) : List Slot → List (List (List UInt8)) → List Mail
  | [], rss => rss.flatten.map (toMail inSz 0)
  | sl :: _, [] => sl.pre.map (toMail inSz 0)
  | sl :: sls, rs :: rss => sl.pre.map (toMail inSz 0) ++ rs.map (toMail inSz sl.delay) ++ mkMails inSz sls rss

structure Setup where
  p : Params
  kind : Kind
  cnt : Nat
  sched : List Slot
  objs : List Obj
deriving Repr, DecidableEq

def Setup.fulls (c : Setup) : List Bool := c.sched.map (·.full)
def Setup.srv (c : Setup) : Srv := init c.p.outSz c.p.inSz c.objs

/-- what reaches the server: the part of each written message that lies inside the receive mailbox -/
def requests (c : Setup) (mails : List Mail) : List (List UInt8) :=
  (sent (run c.p c.kind c.cnt c.fulls mails).1).map (·.take c.p.outSz)

def round (c : Setup) (mails : List Mail) : List Mail :=
  mkMails c.p.inSz c.sched (serveAll c.srv (requests c mails)).2

def iter (f : α → α) : Nat → α → α
  | 0, x => x
  | n + 1, x => iter f n (f x)

/-- the mails of the run after `n` rounds -/
def mailsAfter (c : Setup) (n : Nat) : List Mail := iter (round c) n (mkMails c.p.inSz c.sched [])

structure Result where
  trace : List Ev
  outcome : R (List UInt8)
  objs : List Obj
  responses : List (List (List UInt8))
deriving Repr, DecidableEq

/-- what the two sides have done when these are the mails of the run -/
def resultOf (c : Setup) (mails : List Mail) : Result :=
  let (tr, o) := run c.p c.kind c.cnt c.fulls mails
  let (s, rss) := serveAll c.srv (requests c mails)
  ⟨tr, o, s.objs, rss⟩

def system (c : Setup) (n : Nat) : Result := resultOf c (mailsAfter c n)

/-- the object the call is about -/
def target (c : Setup) (objs : List Obj) : Option (List UInt8) :=
  (find objs c.p.index (subOr1 c.p) c.p.sub.isNone).map (·.val)

end Ebv.SdoSystem
