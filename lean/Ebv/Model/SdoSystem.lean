import Ebv.Model.Sdo
import Ebv.Model.SdoServer
/-! The composed system: the master of `Ebv.Sdo` talking to the server of `Ebv.SdoServer`
through the two mailboxes, under a schedule that delays responses and puts unrelated mail
into the terminal's send mailbox.

The master is a function of the mails it will receive, the server a function of the requests
it gets.  Both are causal (the k-th request depends on the first k−1 responses only and vice
versa), so the run of the composed system is the limit of the iteration
`mails ↦ mailsOf (serve (sent (master mails)))` started from what is pending before anything
was sent; every round adds at least the answers to one more request.  `system n` is the result after
`n` rounds.  The check compares `system` with the real interleaving of the real master and
the Python server on every composed case. -/
namespace Ebv.SdoSystem
open Ebv.Bytes Ebv.Sdo Ebv.SdoServer

/-- what happens around the k-th `mbx_send` of the call -/
structure Slot where
  full : Bool               -- bit 3 of 0x805 as read by this `mbx_send`
  pre : List (List UInt8)   -- unrelated mail that arrived before this request was written
  delay : Nat               -- polls of 0x80D that find the answer(s) to this request not yet there
deriving Repr, DecidableEq

/-- the mailbox read returns exactly `inSz` bytes -/
def padTo (n : Nat) (bs : List UInt8) : List UInt8 := (bs ++ zeros n).take n

def toMail (inSz delay : Nat) (m : List UInt8) : Mail := ⟨delay, padTo inSz m⟩

/-- the send mailbox's successive contents, given the answers to the requests served so far -/
def mkMails (inSz : Nat) : List Slot → List (List (List UInt8)) → List Mail
  | [], rss => rss.flatten.map (toMail inSz 0)
  | sl :: _, [] => sl.pre.map (toMail inSz 0)
  | sl :: sls, rs :: rss => sl.pre.map (toMail inSz 0) ++ rs.map (toMail inSz sl.delay) ++ mkMails inSz sls rss

/-- one call.  `scnt` and `xfer` are the state the terminal's mailbox service is in when the call starts: the counter
of its next mail and the transfer it believes to be under way (a terminal that was used before need not be idle, nor
is its counter 1: `SdoHistory`) -/
structure Setup where
  p : Params
  kind : Kind
  cnt : Nat
  sched : List Slot
  objs : List Obj
  scnt : Nat
  xfer : Xfer
deriving Repr, DecidableEq

def Setup.fulls (c : Setup) : List Bool := c.sched.map (·.full)
def Setup.srv (c : Setup) : Srv := ⟨c.p.outSz, c.p.inSz, c.objs, c.scnt, c.xfer⟩

/-- what reaches the server: the part of each written message that lies inside the receive mailbox -/
def requests (c : Setup) (mails : List Mail) : List (List UInt8) :=
  (sent (run c.p c.kind c.cnt c.fulls mails).1).map (·.take c.p.outSz)

def round (c : Setup) (mails : List Mail) : List Mail :=
  mkMails c.p.inSz c.sched (serveAll c.srv (requests c mails)).2

def iter (f : α → α) : Nat → α → α
  | 0, x => x
  | n + 1, x => iter f n (f x)

/-- the mails of the run after `n` rounds -/
def mailsAfter (c : Setup) (n : Nat) : List Mail := iter (round c) n (mkMails c.p.inSz c.sched [])

structure Result where
  trace : List Ev
  outcome : R (List UInt8)
  objs : List Obj
  responses : List (List (List UInt8))
deriving Repr, DecidableEq

/-- what the two sides have done when these are the mails of the run -/
def resultOf (c : Setup) (mails : List Mail) : Result :=
  let (tr, o) := run c.p c.kind c.cnt c.fulls mails
  let (s, rss) := serveAll c.srv (requests c mails)
  ⟨tr, o, s.objs, rss⟩

def system (c : Setup) (n : Nat) : Result := resultOf c (mailsAfter c n)

/-- rounds until a round changes nothing any more (at most `fuel` of them) -/
def settle (c : Setup) : Nat → List Mail → List Mail
  | 0, mails => mails
  | fuel + 1, mails =>
    let next := round c mails
    if next = mails then mails else settle c fuel next

/-- a bound on the number of exchanges of a call: every exchange after the first moves at least one byte of the
value written, or of the largest object the terminal holds -/
def maxLen : List Obj → Nat
  | [] => 0
  | o :: os => max o.val.length (maxLen os)

def kindLen : Kind → Nat
  | .read => 0
  | .write v => v.length

def rounds (c : Setup) : Nat := 2 + kindLen c.kind + maxLen c.objs

/-- the mails of the settled run -/
def finalMails (c : Setup) : List Mail := settle c (rounds c) (mailsAfter c 0)

/-- the settled run -/
def final (c : Setup) : Result := resultOf c (finalMails c)

/-- the object the call is about -/
def target (c : Setup) (objs : List Obj) : Option (List UInt8) :=
  (find objs c.p.index (subOr1 c.p) c.p.sub.isNone).map (·.val)

end Ebv.SdoSystem
