/-! eBPF instruction-set semantics for the subset the ebpfcat generator emits.
Instructions are the five fields of `ebpf.Instruction` (opcode value, dst, src, off,
imm — `imm` any integer, used modulo 2^32 like `EBPF.assemble` packs it).  Registers
are 64-bit vectors, memory is a flat byte map (regions/bounds are the verifier's
business, C05).  Written from the kernel's instruction-set documentation; validated
against harness/vh/interp.py and the kernel by C01's ISA validation run. -/
namespace Ebv.Ebpf

structure Insn where
  op : Nat
  dst : Nat
  src : Nat
  off : Int
  imm : Int
deriving Repr, DecidableEq

abbrev W := BitVec 64

structure State where
  regs : Nat → W
  mem : W → BitVec 8
  pc : Nat

def State.setReg (s : State) (r : Nat) (v : W) : State :=
  { s with regs := fun k => if k = r then v else s.regs k }

/-- little-endian load of `n` bytes, zero-extended -/
def loadN (mem : W → BitVec 8) (a : W) : Nat → Nat
  | 0 => 0
  | n + 1 => (mem a).toNat + 256 * loadN mem (a + 1) n

def storeN (mem : W → BitVec 8) (a : W) : Nat → Nat → (W → BitVec 8)
  | 0, _ => mem
  | n + 1, v => storeN (fun x => if x = a then BitVec.ofNat 8 v else mem x) (a + 1) n (v / 256)

def imm32 (i : Int) : BitVec 32 := BitVec.ofInt 32 i
/-- the immediate as the 64-bit ALU/JMP classes see it: sign-extended 32 bits -/
def simm (i : Int) : W := (imm32 i).signExtend 64

def sizeOf (op : Nat) : Nat :=
  match (op / 8) % 4 with
  | 0 => 4 | 1 => 2 | 2 => 1 | _ => 8

/-- ALU operation on width `w` (32 or 64); `none` = not in the modelled subset -/
def alu (w : Nat) (code : Nat) (a b : BitVec w) : Option (BitVec w) :=
  match code with
  | 0 => some (a + b)
  | 1 => some (a - b)
  | 2 => some (a * b)
  | 3 => some (if b = 0 then 0 else a / b)
  | 4 => some (a ||| b)
  | 5 => some (a &&& b)
  | 6 => some (a <<< (b.toNat % w))
  | 7 => some (a >>> (b.toNat % w))
  | 9 => some (if b = 0 then a else a % b)
  | 10 => some (a ^^^ b)
  | 11 => some b
  | 12 => some (a.sshiftRight (b.toNat % w))
  | _ => none

def byteSwap (n : Nat) (v : Nat) : Nat :=
  (List.range n).foldl (fun acc i => acc * 256 + (v / 256 ^ i) % 256) 0

/-- condition of a conditional jump on width `w` -/
def cond (w : Nat) (code : Nat) (a b : BitVec w) : Option Bool :=
  match code with
  | 1 => some (a == b)
  | 2 => some (b.toNat < a.toNat)
  | 3 => some (b.toNat ≤ a.toNat)
  | 4 => some (a &&& b != 0)
  | 5 => some (a != b)
  | 6 => some (b.toInt < a.toInt)
  | 7 => some (b.toInt ≤ a.toInt)
  | 10 => some (a.toNat < b.toNat)
  | 11 => some (a.toNat ≤ b.toNat)
  | 12 => some (a.toInt < b.toInt)
  | 13 => some (a.toInt ≤ b.toInt)
  | _ => none

inductive Res where
  | next (s : State)
  | exit (r0 : W)
  | call (id : Int) (s : State)     -- helper call: semantics supplied by the caller
  | bad                              -- outside the modelled subset / malformed

def fetch (prog : List Insn) (pc : Nat) : Option Insn := prog[pc]?

def step (prog : List Insn) (s : State) : Res :=
  match fetch prog s.pc with
  | none => .bad
  | some i =>
    let cls := i.op % 8
    let code := i.op / 16
    let useReg := (i.op / 8) % 2 = 1
    if cls = 7 ∨ cls = 4 then
      if code = 13 then                          -- END: to LE (truncate) / to BE (swap), host little-endian
        let bits := i.imm.toNat
        if bits = 16 ∨ bits = 32 ∨ bits = 64 then
          let v := (s.regs i.dst).toNat % 2 ^ bits
          let v := if useReg then byteSwap (bits / 8) v else v
          .next { (s.setReg i.dst (BitVec.ofNat 64 v)) with pc := s.pc + 1 }
        else .bad
      else if code = 8 then                      -- NEG
        let v := if cls = 7 then -(s.regs i.dst) else (-(s.regs i.dst).truncate 32 : BitVec 32).zeroExtend 64
        .next { (s.setReg i.dst v) with pc := s.pc + 1 }
      else
        let b : W := if useReg then s.regs i.src else simm i.imm
        let a := s.regs i.dst
        let r : Option W :=
          if cls = 7 then alu 64 code a b
          else (alu 32 code (a.truncate 32) (b.truncate 32)).map (·.zeroExtend 64)
        match r with
        | some v => .next { (s.setReg i.dst v) with pc := s.pc + 1 }
        | none => .bad
    else if cls = 5 ∨ cls = 6 then
      if cls = 5 ∧ code = 8 then .call i.imm { s with pc := s.pc + 1 }
      else if cls = 5 ∧ code = 9 then .exit (s.regs 0)
      else if code = 0 then
        let t := (s.pc : Int) + 1 + i.off
        if t < 0 then .bad else .next { s with pc := t.toNat }
      else
        let b : W := if useReg then s.regs i.src else simm i.imm
        let a := s.regs i.dst
        let c := if cls = 5 then cond 64 code a b else cond 32 code (a.truncate 32) (b.truncate 32)
        match c with
        | some true =>
          let t := (s.pc : Int) + 1 + i.off
          if t < 0 then .bad else .next { s with pc := t.toNat }
        | some false => .next { s with pc := s.pc + 1 }
        | none => .bad
    else if cls = 0 then                         -- LD_IMM64 (two slots); pseudo map fd: value chosen by the caller's convention
      if i.op = 0x18 then
        match fetch prog (s.pc + 1) with
        | some j =>
          if j.op = 0 ∧ j.dst = 0 ∧ j.src = 0 ∧ j.off = 0 ∧ i.src = 0 then
            let v : W := (imm32 i.imm).zeroExtend 64 ||| ((imm32 j.imm).zeroExtend 64 <<< 32)
            .next { (s.setReg i.dst v) with pc := s.pc + 2 }
          else .bad
        | none => .bad
      else .bad
    else
      let n := sizeOf i.op
      let mode := i.op / 32
      if cls = 1 ∧ mode = 3 then                 -- LDX
        let a := s.regs i.src + BitVec.ofInt 64 i.off
        .next { (s.setReg i.dst (BitVec.ofNat 64 (loadN s.mem a n))) with pc := s.pc + 1 }
      else if cls = 2 ∧ mode = 3 then            -- ST imm
        let a := s.regs i.dst + BitVec.ofInt 64 i.off
        .next { s with mem := storeN s.mem a n (simm i.imm).toNat, pc := s.pc + 1 }
      else if cls = 3 ∧ mode = 3 then            -- STX
        let a := s.regs i.dst + BitVec.ofInt 64 i.off
        .next { s with mem := storeN s.mem a n (s.regs i.src).toNat, pc := s.pc + 1 }
      else if cls = 3 ∧ mode = 6 ∧ (n = 4 ∨ n = 8) ∧ i.imm = 0 then   -- XADD: one atomic step
        let a := s.regs i.dst + BitVec.ofInt 64 i.off
        .next { s with mem := storeN s.mem a n (loadN s.mem a n + (s.regs i.src).toNat), pc := s.pc + 1 }
      else .bad

inductive Outcome where
  | exit (r0 : W) (s : State)
  | fell (s : State)            -- pc = length of the code: fell out of the segment (used for straight-line segments)
  | call (id : Int) (s : State)
  | bad
  | fuel

/-- run until exit, a helper call, leaving the code at its end, or out of fuel -/
def run (prog : List Insn) : Nat → State → Outcome
  | 0, _ => .fuel
  | fuel + 1, s =>
    if s.pc = prog.length then .fell s
    else match step prog s with
      | .next s' => run prog fuel s'
      | .exit r => .exit r s
      | .call id s' => .call id s'
      | .bad => .bad

end Ebv.Ebpf
