import Ebv.Model.Bytes
import Ebv.Generated.Consts
/-! Model of the EEPROM (SII) access and layout decoding of `Terminal`
(ebpfcat/ethercat.py): `_eeprom_read_one`, `read_eeprom` (with the `get_data`
carry-over buffer), `parse_sync_managers`, `parse_pdos` (EEPROM and SDO
sources, inner `parse`), and the way `EBPFTerminal.apply_eeprom`
(ebpfcat/ebpfcat.py) combines them.

The environment is an EEPROM-interface *device model*: an image addressed in
16-bit words, the control/status register 0x502 whose busy bit 0x8000 follows
a script (one element per read of the register; an exhausted script means
"idle"), bit 0x40 telling whether the data register holds 8 or only 4 valid
bytes, and the address register 0x504 set by the read command 0x100.

Malformed input: bytes beyond the end of the image read 0xff (erased cells),
so an image without end marker is read up to its end and the padding is the
marker; `read_eeprom` therefore terminates on every image (`catLoop` takes
fuel `image.length + 1`, and Props/C17 proves the fuel is never exhausted). -/
namespace Ebv.Eeprom
open Ebv.Bytes Ebv.Consts

/-! ### Python dict as association list (insertion order, later assignment overwrites in place) -/

def dictSet {κ ν : Type} [DecidableEq κ] : List (κ × ν) → κ → ν → List (κ × ν)
  | [], k, v => [(k, v)]
  | (k', v') :: t, k, v => if k' = k then (k, v) :: t else (k', v') :: dictSet t k v

def dictGet {κ ν : Type} [DecidableEq κ] : List (κ × ν) → κ → Option ν
  | [], _ => none
  | (k', v') :: t, k => if k' = k then some v' else dictGet t k

/-- `d = {}; for k, v in kvs: d[k] = v`, starting from `m` -/
def dictOfFrom {κ ν : Type} [DecidableEq κ] (m : List (κ × ν)) (kvs : List (κ × ν)) : List (κ × ν) :=
  kvs.foldl (fun acc kv => dictSet acc kv.1 kv.2) m

/-! ### the device -/

/-- byte `i` of the image; beyond the end (and erased cells) read 0xff -/
def byteAt (img : List UInt8) (i : Nat) : UInt8 := img.getD i 0xff

/-- the `n` image bytes from byte offset `off` -/
def window (img : List UInt8) : Nat → Nat → List UInt8
  | _, 0 => []
  | off, n + 1 => byteAt img off :: window img (off + 1) n

/-- `n` bytes from the front of `bs`, 0xff where `bs` has ended -/
def padTake : List UInt8 → Nat → List UInt8
  | _, 0 => []
  | [], n + 1 => 0xff :: padTake [] n
  | b :: bs, n + 1 => b :: padTake bs n

/-- `window` walks to the offset once instead of once per byte; only the compiled code (the
model driver) uses this equation, proofs use the definition above -/
theorem window_eq_padTake (img : List UInt8) (off n : Nat) : window img off n = padTake (img.drop off) n := by
  induction n generalizing off with
  | zero => cases h : img.drop off <;> simp [window, padTake]
  | succ n ih =>
    rw [window, ih (off + 1)]
    by_cases hlt : off < img.length
    · rw [List.drop_eq_getElem_cons hlt]
      simp [padTake, byteAt, List.getD_eq_getElem?_getD, List.getElem?_eq_getElem hlt]
    · have h1 : img.drop off = [] := List.drop_eq_nil_of_le (by omega)
      have h2 : img.drop (off + 1) = [] := List.drop_eq_nil_of_le (by omega)
      simp [h1, h2, padTake, byteAt, List.getD_eq_getElem?_getD, List.getElem?_eq_none (Nat.le_of_not_lt hlt)]

def windowFast (img : List UInt8) (off n : Nat) : List UInt8 := padTake (img.drop off) n

@[csimp] theorem window_csimp : @window = @windowFast := by
  funext img off n; exact window_eq_padTake img off n

structure Dev where
  image : List UInt8
  /-- the interface delivers 8 bytes per read command (status bit 0x40), else 4 -/
  mode8 : Bool
deriving Repr

/-- what the device shows at one read of register 0x502: busy or not, the other
status bits, and the contents of those data-register bytes that hold no EEPROM data -/
structure Poll where
  busy : Bool
  extra : Nat
  junk : List UInt8
deriving Repr

def Poll.idle : Poll := ⟨false, 0, []⟩

def junk8 (p : Poll) : List UInt8 := (p.junk ++ zeros 8).take 8

/-- the status word: script bits with 0x8000 and 0x40 replaced by busy and read-size flag -/
def status (d : Dev) (p : Poll) : Nat :=
  ((p.extra &&& 0x7fbf) ||| (if p.busy then 0x8000 else 0)) ||| (if d.mode8 then 0x40 else 0)

/-- data register 0x508..0x50f while the address register holds `addr` -/
def dataReg (d : Dev) (addr : Nat) (p : Poll) : List UInt8 :=
  if p.busy then junk8 p
  else if d.mode8 then window d.image (2 * addr) 8
  else window d.image (2 * addr) 4 ++ (junk8 p).drop 4

/-- bus accesses the driver makes: a read of 0x502 covering `n` data bytes, the read command -/
inductive Ev where
  | poll (n : Nat)
  | cmd (addr : Nat)
deriving Repr, DecidableEq

/-- device + link state seen by the driver; `log` is newest first -/
structure Bus where
  addr : Nat
  script : List Poll
  log : List Ev
deriving Repr

def Bus.init (script : List Poll) : Bus := ⟨0, script, []⟩

/-- `await self.write(0x502, "HI", 0x100, a)` -/
def cmdRead (b : Bus) (a : Nat) : Bus := { b with addr := a, log := .cmd a :: b.log }

/-! ### `_eeprom_read_one` -/

def isBusy (w : Nat) : Bool := w &&& 0x8000 != 0
def is8 (w : Nat) : Bool := w &&& 0x40 != 0

/-- `while busy & 0x8000: busy, data = await self.read(0x502, fmt)`: returns the last answer -/
def pollGo (d : Dev) (n addr : Nat) : List Poll → List Ev → (Nat × List UInt8) × List Poll × List Ev
  | [], log => ((status d .idle, dataReg d addr .idle), [], .poll n :: log)
  | p :: ps, log =>
    if isBusy (status d p) then pollGo d n addr ps (.poll n :: log)
    else ((status d p, dataReg d addr p), ps, .poll n :: log)

def pollIdle (d : Dev) (n : Nat) (b : Bus) : (Nat × List UInt8) × Bus :=
  let r := pollGo d n b.addr b.script b.log
  (r.1, { b with script := r.2.1, log := r.2.2 })

/-- 8 bytes from word address `start` -/
def readOne (d : Dev) (start : Nat) (b : Bus) : List UInt8 × Bus :=
  let b1 := (pollIdle d 0 b).2                 -- while (await self.read(0x502, "H"))[0] & 0x8000
  let r := pollIdle d 8 (cmdRead b1 start)     -- write 0x100,start; poll "H4x8s"
  if is8 r.1.1 then (r.1.2, r.2)
  else
    let r2 := pollIdle d 4 (cmdRead r.2 (start + 2))   -- write 0x100,start+2; poll "H4x4s"
    (r.1.2.take 4 ++ r2.1.2.take 4, r2.2)

/-! ### `read_eeprom` -/

/-- `pos`, `data` of `read_eeprom` plus the bus -/
structure RState where
  bus : Bus
  pos : Nat
  buf : List UInt8
deriving Repr

/-- `while len(data) < size: data += await self._eeprom_read_one(pos); pos += 4` (fuel ≥ size/8 suffices) -/
def fill (d : Dev) (size : Nat) : Nat → RState → RState
  | 0, st => st
  | f + 1, st =>
    if st.buf.length < size then
      let r := readOne d st.pos st.bus
      fill d size f { bus := r.2, pos := st.pos + 4, buf := st.buf ++ r.1 }
    else st

/-- `get_data(size)` -/
def getData (d : Dev) (size : Nat) (st : RState) : List UInt8 × RState :=
  let st' := fill d size size st
  (st'.buf.take size, { st' with buf := st'.buf.drop size })

abbrev Cats := List (Nat × List UInt8)

/-- the `while True` loop over categories; `none` = fuel exhausted (never happens, see Props/C17) -/
def catLoop (d : Dev) : Nat → RState → Cats → Option Cats × RState
  | 0, st, _ => (none, st)
  | f + 1, st, acc =>
    let h := getData d 4 st
    let hd := decLE (h.1.take 2)
    let ws := decLE (h.1.drop 2)
    if hd = 0xffff then (some acc, h.2)
    else
      let p := getData d (ws * 2) h.2
      catLoop d f p.2 (dictSet acc hd p.1)

structure Result where
  vendorId : Nat
  productCode : Nat
  revisionNo : Nat
  serialNo : Nat
  eeprom : Option Cats
  bus : Bus
deriving Repr

def catStart : Nat := 0x40

def readEeprom (d : Dev) (b : Bus) : Result :=
  let r1 := readOne d eeprom_VENDOR_ID b
  let r2 := readOne d eeprom_REVISION r1.2
  let c := catLoop d (d.image.length + 1) { bus := r2.2, pos := catStart, buf := [] } []
  { vendorId := decLE (r1.1.take 4), productCode := decLE (r1.1.drop 4),
    revisionNo := decLE (r2.1.take 4), serialNo := decLE (r2.1.drop 4),
    eeprom := c.1, bus := c.2.bus }

/-! ### `parse_sync_managers` -/

structure SM where
  mbx_out : Option (Nat × Nat) := none     -- (offset, size)
  mbx_in : Option (Nat × Nat) := none
  pdo_out : Option (Nat × Nat) := none
  pdo_in : Option (Nat × Nat) := none
  pdo_in_addr : Nat := 0x818
  pdo_out_addr : Nat := 0x810
deriving Repr, DecidableEq

def smBase : Nat := 0x800

/-- one record: `offset, size, mode = unpack_from("<HHB", data, i); mode &= 0xf` -/
def smAssign (s : SM) (i offset size mode : Nat) : SM :=
  if mode % 16 = 0 then { s with pdo_in := some (offset, size), pdo_in_addr := smBase + i }
  else if mode % 16 = 2 then { s with mbx_in := some (offset, size) }
  else if mode % 16 = 4 then { s with pdo_out := some (offset, size), pdo_out_addr := smBase + i }
  else if mode % 16 = 6 then { s with mbx_out := some (offset, size) }
  else s

def smStep (s : SM) (i : Nat) (chunk : List UInt8) : SM :=
  smAssign s i (decLE (chunk.take 2)) (decLE ((chunk.drop 2).take 2)) (chunk.getD 4 0).toNat

/-- `for i in range(0, len(data), 8)`; `false` = `struct.error` (fewer than 5 bytes left at `i`) -/
def smGo : Nat → Nat → List UInt8 → SM → SM × Bool
  | 0, _, _, s => (s, true)
  | n + 1, i, rest, s =>
    if rest.length < 5 then (s, false)
    else smGo n (i + 8) (rest.drop 8) (smStep s i rest)

def parseSM (data : List UInt8) : SM × Bool := smGo ((data.length + 7) / 8) 0 data {}

def hasMailbox (s : SM) : Bool := s.mbx_out.isSome && s.mbx_in.isSome

/-! ### `parse_pdos` -/

structure Entry where
  idx : Nat
  subidx : Nat
  bits : Nat
deriving Repr, DecidableEq

/-- third component of a `pdos` value: bit number, or struct format letter -/
inductive Loc where
  | bit (n : Nat)
  | fmt (c : Char)
deriving Repr, DecidableEq

inductive Err where
  | runtime      -- RuntimeError("PDOs must be byte-aligned")
  | key          -- KeyError: byte-aligned size not in {8,16,32,64}
  | struct       -- struct.error
  | ethercat     -- SDO read failed
  | attribute    -- AttributeError (has_mailbox before parse_sync_managers)
  | assertion    -- AssertionError
deriving Repr, DecidableEq

abbrev PdoDict := List ((Nat × Nat) × (Nat × Nat × Loc))

/-- `{8: "B", 16: "H", 32: "I", 64: "Q"}[bits]` -/
def fmtOf (bits : Nat) : Option Char :=
  if bits = 8 then some 'B' else if bits = 16 then some 'H'
  else if bits = 32 then some 'I' else if bits = 64 then some 'Q' else none

/-- body of the inner `parse`: dict, bit position reached, error raised -/
def parseGo (sm : Nat) : List Entry → Nat → PdoDict → PdoDict × Nat × Option Err
  | [], bp, m => (m, bp, none)
  | e :: es, bp, m =>
    if e.idx = 0 then parseGo sm es (bp + e.bits) m
    else if e.bits < 8 then
      parseGo sm es (bp + e.bits) (dictSet m (e.idx, e.subidx) (sm, bp / 8, .bit (bp % 8)))
    else if e.bits % 8 != 0 || bp % 8 != 0 then (m, bp, some .runtime)
    else match fmtOf e.bits with
      | none => (m, bp, some .key)
      | some c => parseGo sm es (bp + e.bits) (dictSet m (e.idx, e.subidx) (sm, bp / 8, .fmt c))

/-- a source: the entries it yields, and the error it raises after the last of them -/
abbrev Source := List Entry × Option Err

/-- `await parse(func, sm)`: the generator is consumed lazily, so an error of `parse` on an
entry comes before an error the source raises later -/
def parse (sm : Nat) (src : Source) (m : PdoDict) : PdoDict × Except Err Nat :=
  match parseGo sm src.1 0 m with
  | (m', _, some e) => (m', .error e)
  | (m', bp, none) =>
    match src.2 with
    | some e => (m', .error e)
    | none => (m', .ok bp)

/-- `er` entries of 8 bytes: `idx, subidx, k1, k2, bits = unpack_from("<HBBBB2x", s, i)` -/
def takeEntries : Nat → List UInt8 → List Entry × List UInt8 × Bool
  | 0, s => ([], s, true)
  | n + 1, s =>
    if s.length < 8 then ([], s, false)
    else
      let r := takeEntries n (s.drop 8)
      (⟨decLE (s.take 2), (s.getD 2 0).toNat, (s.getD 5 0).toNat⟩ :: r.1, r.2.1, r.2.2)

/-- `parse_eeprom(s)` over a TxPDO/RxPDO category; fuel `s.length` suffices -/
def pdoCatGo : Nat → List UInt8 → List Entry × Bool
  | 0, _ => ([], true)
  | f + 1, s =>
    if s.length = 0 then ([], true)
    else if s.length < 8 then ([], false)
    else
      let r := takeEntries (s.getD 2 0).toNat (s.drop 8)
      if r.2.2 then
        let r' := pdoCatGo f r.2.1
        (r.1 ++ r'.1, r'.2)
      else (r.1, false)

def pdoCat (s : List UInt8) : Source :=
  let r := pdoCatGo s.length s
  (r.1, if r.2 then none else some .struct)

/-- object dictionary as seen through `sdo_read`: (index, subindex) ↦ raw bytes -/
abbrev OD := List ((Nat × Nat) × List UInt8)

def sdoGet (od : OD) (i s : Nat) : Except Err (List UInt8) :=
  match dictGet od (i, s) with
  | some b => .ok b
  | none => .error .ethercat

/-- `sdo_read_format("B", i, s)` -/
def readB (od : OD) (i s : Nat) : Except Err Nat :=
  match sdoGet od i s with
  | .error e => .error e
  | .ok [x] => .ok x.toNat
  | .ok _ => .error .struct

/-- `sdo_read_format("<H", i, s)` -/
def readH (od : OD) (i s : Nat) : Except Err Nat :=
  match sdoGet od i s with
  | .error e => .error e
  | .ok [x, y] => .ok (decLE [x, y])
  | .ok _ => .error .struct

/-- `bits, subidx, idx = sdo_read_format("<BBH", i, s)` as an entry -/
def readBBH (od : OD) (i s : Nat) : Except Err Entry :=
  match sdoGet od i s with
  | .error e => .error e
  | .ok [a, b, x, y] => .ok ⟨decLE [x, y], b.toNat, a.toNat⟩
  | .ok _ => .error .struct

/-- `for j in range(j, j + n)` over the entries of one PDO -/
def pdoEntries (od : OD) (pdo : Nat) : Nat → Nat → Source
  | 0, _ => ([], none)
  | n + 1, j =>
    match readBBH od pdo j with
    | .error e => ([], some e)
    | .ok en =>
      let r := pdoEntries od pdo n (j + 1)
      (en :: r.1, r.2)

/-- `for i in range(i, i + n)` over the assignment object -/
def assignEntries (od : OD) (index : Nat) : Nat → Nat → Source
  | 0, _ => ([], none)
  | n + 1, i =>
    match readH od index i with
    | .error e => ([], some e)
    | .ok pdo =>
      if pdo = 0 then assignEntries od index n (i + 1)
      else
        match readB od pdo 0 with
        | .error e => ([], some e)
        | .ok count =>
          let r := pdoEntries od pdo count 1
          match r.2 with
          | some e => (r.1, some e)
          | none =>
            let r' := assignEntries od index n (i + 1)
            (r.1 ++ r'.1, r'.2)

/-- `parse_sdo(index)` -/
def sdoEntries (od : OD) (index : Nat) : Source :=
  match readB od index 0 with
  | .error e => ([], some e)
  | .ok n => assignEntries od index n 1

def catTxPdo : Nat := 50
def catRxPdo : Nat := 51
def catSM : Nat := 41
def idxRxAssign : Nat := 0x1c12
def idxTxAssign : Nat := 0x1c13

/-- `parse_pdos()`: the dict and the returned `(outbits, inbits)` or the exception -/
def parsePdos (hasMbx : Bool) (od : OD) (eeprom : Cats) : PdoDict × Except Err (Nat × Nat) :=
  let srcOut : Option Source :=
    if hasMbx then some (sdoEntries od idxRxAssign) else (dictGet eeprom catRxPdo).map pdoCat
  let srcIn : Option Source :=
    if hasMbx then some (sdoEntries od idxTxAssign) else (dictGet eeprom catTxPdo).map pdoCat
  let o : PdoDict × Except Err Nat :=
    match srcOut with
    | none => ([], .ok 0)
    | some s => parse sm_OUT s []
  match o.2 with
  | .error e => (o.1, .error e)
  | .ok ob =>
    let i : PdoDict × Except Err Nat :=
      match srcIn with
      | none => (o.1, .ok 0)
      | some s => parse sm_IN s o.1
    match i.2 with
    | .error e => (i.1, .error e)
    | .ok ib => (i.1, .ok (ob, ib))

/-! ### `EBPFTerminal.apply_eeprom` (the part that uses the decoded data) -/

structure Applied where
  res : Result
  /-- `none`: category 41 absent, `parse_sync_managers` never ran -/
  sm : Option (SM × Bool)
  /-- what was written to the sync-manager registers at 0x800 -/
  smWritten : Option (List UInt8)
  pdos : PdoDict
  /-- `(pdo_out_sz, pdo_in_sz)` after `(bits + 7) // 8`, or the exception -/
  sizes : Except Err (Nat × Nat)
deriving Repr

def applyEeprom (d : Dev) (b : Bus) (od : OD) : Applied :=
  let res := readEeprom d b
  match res.eeprom with
  | none => { res, sm := none, smWritten := none, pdos := [], sizes := .error .runtime }
  | some cats =>
    match dictGet cats catSM with
    | none =>   -- `has_mailbox()` reads attributes that were never set
      { res, sm := none, smWritten := none, pdos := [], sizes := .error .attribute }
    | some smData =>
      let s := parseSM smData
      if !s.2 then { res, sm := some s, smWritten := some smData, pdos := [], sizes := .error .struct }
      else
        let p := parsePdos (hasMailbox s.1) od cats
        match p.2 with
        | .error e => { res, sm := some s, smWritten := some smData, pdos := p.1, sizes := .error e }
        | .ok (ob, ib) =>
          let osz := (ob + 7) / 8
          let isz := (ib + 7) / 8
          -- assert not self.pdo_out_sz or self.pdo_out_off   (offset None or 0 fails)
          let offOk (sz : Nat) (o : Option (Nat × Nat)) : Bool :=
            sz == 0 || (match o with | some (off, _) => off != 0 | none => false)
          if !offOk osz s.1.pdo_out then
            { res, sm := some s, smWritten := some smData, pdos := p.1, sizes := .error .assertion }
          else if !offOk isz s.1.pdo_in then
            { res, sm := some s, smWritten := some smData, pdos := p.1, sizes := .error .assertion }
          else { res, sm := some s, smWritten := some smData, pdos := p.1, sizes := .ok (osz, isz) }

end Ebv.Eeprom
