import Ebv.Model.Gen
/-! # `GenCond` — comparisons and `with` / `Else` blocks of the ebpfcat generator (ebpfcat/ebpf.py)

On top of `Ebv.Gen` (expressions, C01).  Same two layers:

* **surface layer** (`SCond`, `elabC`): what `comparison(...)`, `AndExpression.__ne__`, `Expression.__eq__`
  (`~(self != value)`), `Comparison.__and__/__or__/__invert__` and `Expression.__enter__` (`self != 0`) build,
  including Python's rich-comparison protocol (reflected operator for `int < expr`; the right operand first
  when its class is a proper subclass of the left one's: `Binary < Sum`, `Binary != AndExpression`);
* **emission layer** (`compare`, `target`, `emitS`): `SimpleComparison.compare/target`, `AndComparison`,
  `AndOrComparison`, `InvertComparison`, `Comparison.__enter__/__exit__/Else`, `Elser`,
  `AndComparison.Else/__exit__` (the splice).  The `None` placeholder the Python code appends and overwrites later
  is the instruction `hole`; patching is `List.set` of an indexed slot (`Pend` records what `target` writes).

Also `jif`: `c = self.jumpIf(cond); A; c.target(); [c.Else(); B; c.__exit__()]` — the only way to reach the
`off+1` branch of `AndComparison.Else`. -/
namespace Ebv.Gen
open Ebv.Ebpf

/-! ## comparison objects -/

/-- the five `comparison(...)` methods of `Expression` -/
inductive CmpOp where
  | gt | ge | lt | le | ne
deriving DecidableEq, Repr, Inhabited

/-- `comparison(uposop, unegop, sposop, snegop)`: the opcode for (signed pair?, negative sense?) -/
def CmpOp.jop : CmpOp → Bool → Bool → Nat
  | .gt, false, false => Consts.op_JGT | .gt, false, true => Consts.op_JLE
  | .gt, true, false => Consts.op_JSGT | .gt, true, true => Consts.op_JSLE
  | .ge, false, false => Consts.op_JGE | .ge, false, true => Consts.op_JLT
  | .ge, true, false => Consts.op_JSGE | .ge, true, true => Consts.op_JSLT
  | .lt, false, false => Consts.op_JLT | .lt, false, true => Consts.op_JGE
  | .lt, true, false => Consts.op_JSLT | .lt, true, true => Consts.op_JSGE
  | .le, false, false => Consts.op_JLE | .le, false, true => Consts.op_JGT
  | .le, true, false => Consts.op_JSLE | .le, true, true => Consts.op_JSGT
  | .ne, _, false => Consts.op_JNE | .ne, _, true => Consts.op_JEQ

/-- `Comparison` object trees -/
inductive CObj where
  | simple (op : CmpOp) (sg : Bool) (l r : Expr)     -- SimpleComparison(l, r, signed or unsigned opcode pair)
  | bits (l r : Expr)                                -- AndComparison(l, r): JSET
  | andor (isAnd : Bool) (a b : CObj)                -- AndOrComparison
  | inv (a : CObj)                                   -- InvertComparison
deriving Repr, Inhabited, DecidableEq

/-- what `target` will write: the attributes a comparison object keeps after `compare` -/
inductive Pend where
  | jump (origin : Nat) (ins : Insn) (own : List Nat)    -- slot `origin` gets `ins` with the offset filled in
  | andor (both : Bool) (l r : Pend) (own : List Nat)    -- both = (is_and == negative): `target` patches l and r
  | inv (v : Pend) (own : List Nat)
deriving Repr

instance : Inhabited Pend := ⟨.jump 0 ⟨0, 0, 0, 0, 0⟩ []⟩

/-- the `owners` attribute of the comparison object -/
def Pend.own : Pend → List Nat
  | .jump _ _ o => o
  | .andor _ _ _ o => o
  | .inv _ o => o

/-- the placeholder `None` in `opcodes` -/
def hole : Insn := ⟨0, 0, 0, 0, 0⟩

def curLen : GenM Nat := fun g => .ok (g.code.length, g)
def setSlot (i : Nat) (x : Insn) : GenM Unit := fun g => .ok ((), { g with code := g.code.set i x })
/-- `ebpf.owners & own` -/
def inter (a b : List Nat) : List Nat := a.filter fun k => b.contains k

/-- `SimpleComparison.target` for one pending jump: fills slot `origin`; unless retargeting,
`ebpf.owners, self.owners = ebpf.owners & self.owners, ebpf.owners` -/
def targetJump (origin : Nat) (ins : Insn) (own : List Nat) (rt : Bool) : GenM Pend := fun g =>
  let code := g.code.set origin { ins with off := (g.code.length : Int) - origin - 1 }
  if rt then .ok (.jump origin ins own, { g with code := code })
  else .ok (.jump origin ins g.owners, { g with code := code, owners := inter g.owners own })

/-- `target(retarget)` of `SimpleComparison`, `AndOrComparison`, `InvertComparison` -/
def target : Pend → Bool → GenM Pend
  | .jump origin ins own, rt => targetJump origin ins own rt
  | .andor both l r own, rt => do
    let l' ← (if both then target l rt else pure l)
    let r' ← target r rt
    pure (.andor both l' r' own)
  | .inv v own, rt => do
    let v' ← target v rt
    pure (.inv v' own)

/-- `self.ebpf.r[dst] <<= 32; self.ebpf.sr[dst] >>= 32` (through `RegisterArray.__setitem__`) -/
def widen (dst : Nat) : GenM Unit := do
  setReg dst true (.ex (.bin .lsh (.reg dst true false) (.const 32) false .plain))
  setReg dst true (.ex (.bin .arsh (.reg dst true true) (.const 32) true .plain))

def widenIf (b : Bool) (dst : Nat) : GenM Unit := if b then widen dst else pure ()

/-- right operand of `SimpleComparison.compare`: (src, r_long, registers to release, immediate) -/
def cmpRight (r : Expr) (want : Option Bool) : GenM (Nat × Bool × List Nat × Int) :=
  match r.asSmallConst with
  | some v => pure (0, false, [], v)
  | none => do
    let rr ← calculate r none want false
    pure (rr.reg, rr.long, rr.rel, 0)

/-- `SimpleComparison.compare` up to the placeholder: returns `origin` and the instruction `target` builds
(offset still 0): `opcode (+ SHORT) (+ REG)`, `dst`, `src`, immediate -/
def cmpCore (jop : Nat) (l r : Expr) : GenM (Nat × Insn) := do
  let lres ← calculate l none none false
  let rr ← cmpRight r (if (l.signed || r.signed) && lres.long then some true else none)
  let sg := l.signed || r.signed
  widenIf (sg && !lres.long && rr.2.1) lres.reg
  let origin ← curLen
  emit hole
  release rr.2.2.1
  release lres.rel
  pure (origin, ⟨jop + (if sg && !lres.long && !rr.2.1 then Consts.op_SHORT else 0)
    + (if r.asSmallConst.isSome then 0 else Consts.op_REG), lres.reg, rr.1, 0, rr.2.2.2⟩)

/-- `AndComparison.compare` after `super().compare(False)`: for the negative sense a second placeholder, the
JSET is targeted just behind it, and the object turns into an unconditional `JMP` -/
def bitsNeg (neg : Bool) (origin : Nat) (ins : Insn) (own : List Nat) : GenM Pend :=
  if neg then do
    let origin2 ← curLen
    emit hole
    let p ← targetJump origin ins own false
    pure (.jump origin2 ⟨Consts.op_JMP, 0, 0, 0, 0⟩ p.own)
  else pure (.jump origin ins own)

/-- `compare(negative)` -/
def compare : CObj → Bool → GenM Pend
  | .simple op sg l r, neg => do
    let oi ← cmpCore (op.jop sg neg) l r
    let o ← getOwners
    pure (.jump oi.1 oi.2 o)
  | .bits l r, neg => do
    let oi ← cmpCore Consts.op_JSET l r
    let o ← getOwners
    bitsNeg neg oi.1 oi.2 o
  | .andor isAnd a b, neg => do
    let pa ← compare a isAnd
    let pb ← compare b neg
    let pa' ← (if isAnd != neg then target pa false else pure pa)
    let o ← getOwners
    pure (.andor (isAnd == neg) pa' pb o)
  | .inv a, neg => do
    let pa ← compare a (!neg)
    pure (.inv pa pa.own)

/-! ## the operator protocol for comparisons -/

inductive SCmp where
  | lt | le | gt | ge | eq | ne
deriving DecidableEq, Repr, Inhabited

/-- the reflected operator (`int < expr` calls `expr.__gt__(int)`) -/
def SCmp.swap : SCmp → SCmp
  | .lt => .gt | .le => .ge | .gt => .lt | .ge => .le | .eq => .eq | .ne => .ne

def isAndObj : Expr → Option (Expr × Expr)
  | .bin _ l r _ .and => some (l, r)
  | _ => none

def isIntZero : PyVal → Bool
  | .int v => v == 0
  | _ => false

/-- the closure `comparison(...)` returns -/
def exprCmp (op : CmpOp) (self : Expr) (value : PyVal) : Except AsmError CObj := do
  let v ← ensureExpr value
  pure (.simple op (self.signed || v.signed) self v)

/-- `self.__ne__(value)`: `AndExpression.__ne__` turns `(a & b) != 0` into an `AndComparison` -/
def exprNe (self : Expr) (value : PyVal) : Except AsmError CObj :=
  match isAndObj self with
  | some (l, r) => if isIntZero value then pure (.bits l r) else exprCmp .ne self value
  | none => exprCmp .ne self value

/-- rich comparison of two Python values: a proper subclass on the right (`Sum`, `AndExpression` against a plain
`Binary`) is asked first, with the swapped operator -/
def rightFirst (l r : Expr) : Bool := isPlainBinary l && (isSumObj r || (isAndObj r).isSome)

def pyNe (x y : PyVal) : Except AsmError CObj :=
  match x, y with
  | .ex l, .ex r => if rightFirst l r then exprNe r x else exprNe l y
  | .ex l, .int _ => exprNe l y
  | .int _, .ex r => exprNe r x
  | _, _ => typeError

/-- `self.__op__(value)` for an `Expression` -/
def exprCmpS (op : SCmp) (self : Expr) (value : PyVal) : Except AsmError CObj :=
  match op with
  | .lt => exprCmp .lt self value
  | .le => exprCmp .le self value
  | .gt => exprCmp .gt self value
  | .ge => exprCmp .ge self value
  | .ne => exprNe self value
  | .eq => do let c ← pyNe (.ex self) value; pure (.inv c)     -- `~(self != value)`

def pyCmp (op : SCmp) (x y : PyVal) : Except AsmError CObj :=
  match x, y with
  | .ex l, .ex r => if rightFirst l r then exprCmpS op.swap r x else exprCmpS op l y
  | .ex l, .int _ => exprCmpS op l y
  | .int _, .ex r => exprCmpS op.swap r x
  | _, _ => typeError                                          -- `int < int` is a `bool`

inductive SCond where
  | cmp (op : SCmp) (a b : SExpr)
  | truth (e : SExpr)                                          -- `with expr:` (`Expression.__enter__`: `self != 0`)
  | not (c : SCond)
  | and (a b : SCond)
  | or (a b : SCond)
deriving Repr, Inhabited

def elabC (env : List VarLoc) : SCond → Except AsmError CObj
  | .cmp op a b => do
    let x ← elabE env a
    let y ← elabE env b
    pyCmp op x y
  | .truth e => do
    match ← elabE env e with
    | .ex l => exprNe l (.int 0)
    | _ => typeError
  | .not c => do pure (.inv (← elabC env c))
  | .and a b => do
    let x ← elabC env a
    let y ← elabC env b
    pure (.andor true x y)
  | .or a b => do
    let x ← elabC env a
    let y ← elabC env b
    pure (.andor false x y)

/-! ## statements -/

inductive SStmt where
  | skip
  | set (d : Dest) (e : SExpr)
  | seq (a b : SStmt)
  | ifThen (c : SCond) (body : SStmt)                  -- `with c: body`
  | ifElse (c : SCond) (body els : SStmt)              -- `with c as Else: body` / `with Else: els`
  | jif (c : SCond) (a : SStmt)                        -- `t = jumpIf(c); a; t.target()`
  | jifElse (c : SCond) (a b : SStmt)                  -- `t = jumpIf(c); a; t.target(); t.Else(); b; t.__exit__()`
deriving Repr, Inhabited

/-- what `Else()` leaves in the comparison object: `else_origin`, and `invert` of an `AndComparison` -/
structure ElseSt where
  pend : Pend
  elseOrigin : Nat
  invert : Option Nat
deriving Repr

/-- `AndComparison.Else`: no retargeting; an unconditional `JMP` at `origin` is remembered for the splice,
a conditional jump gets `off + 1` -/
def elseBits (p : Pend) : GenM ElseSt :=
  match p with
  | .jump origin _ _ => fun g =>
    let cur := g.code.getD origin hole
    if cur.op == Consts.op_JMP then
      .ok (⟨p, g.code.length, some origin⟩, { g with code := g.code ++ [hole] })
    else
      .ok (⟨p, g.code.length, none⟩, { g with code := g.code.set origin { cur with off := cur.off + 1 } ++ [hole] })
  | _ => fail (.other "unreachable")

/-- `Comparison.Else`: placeholder for the jump over the else block, then `target(True)` -/
def elseGeneric (p : Pend) : GenM ElseSt := do
  let eo ← curLen
  emit hole
  let p' ← target p true
  pure ⟨p', eo, none⟩

/-- `Elser.__enter__` -/
def elseEnter (c : CObj) (p : Pend) : GenM ElseSt :=
  match c with
  | .bits _ _ => elseBits p
  | _ => elseGeneric p

/-- the list surgery of `AndComparison.__exit__`: the else block moves in front of the `JMP` at `inv`, the
jump over the else block disappears, the JSET in front of it jumps over the moved block and the `JMP` -/
def spliceCode (code : List Insn) (inv eo : Nat) : List Insn :=
  let c1 := (code.take inv ++ code.drop (eo + 1) ++ code.drop inv).take (code.length - 1)
  let j := c1.getD (inv - 1) hole
  c1.set (inv - 1) { j with off := (c1.length : Int) - eo + 1 }

def spliceIf (inv : Option Nat) (eo : Nat) : GenM Unit :=
  match inv with
  | some i => fun g => .ok ((), { g with code := spliceCode g.code i eo })
  | none => pure ()

/-- `Comparison.__exit__` with `else_origin` set (plus `AndComparison.__exit__`) -/
def elseExit (e : ElseSt) : GenM Unit := do
  let n ← curLen
  setSlot e.elseOrigin ⟨Consts.op_JMP, 0, 0, (n : Int) - e.elseOrigin - 1, 0⟩
  let o ← getOwners
  fun g => .ok ((), { g with owners := inter o e.pend.own })
  spliceIf e.invert e.elseOrigin

/-- `with c: body` — `__enter__` = `compare(True)`, `__exit__` = `target()` -/
def withThen (c : CObj) (body : GenM Unit) : GenM Unit := do
  let p ← compare c true
  body
  let _ ← target p false
  pure ()

def withElse (c : CObj) (body els : GenM Unit) : GenM Unit := do
  let p ← compare c true
  body
  let p1 ← target p false
  let e ← elseEnter c p1
  els
  elseExit e

/-- `jumpIf(c)` = `compare(False)` -/
def jifThen (c : CObj) (a : GenM Unit) : GenM Unit := do
  let p ← compare c false
  a
  let _ ← target p false
  pure ()

def jifElseK (c : CObj) (a b : GenM Unit) : GenM Unit := do
  let p ← compare c false
  a
  let p1 ← target p false
  let e ← elseEnter c p1
  b
  elseExit e

/-- the condition is built when Python reaches the `with` statement -/
def withCond (env : List VarLoc) (c : SCond) (k : CObj → GenM Unit) : GenM Unit := fun g =>
  match elabC env c with
  | .error e => .error e
  | .ok co => k co g

def emitS (env : List VarLoc) : SStmt → GenM Unit
  | .skip => pure ()
  | .set d e => emitStmt env (.set d e)
  | .seq a b => do emitS env a; emitS env b
  | .ifThen c body => withCond env c fun co => withThen co (emitS env body)
  | .ifElse c body els => withCond env c fun co => withElse co (emitS env body) (emitS env els)
  | .jif c a => withCond env c fun co => jifThen co (emitS env a)
  | .jifElse c a b => withCond env c fun co => jifElseK co (emitS env a) (emitS env b)

structure CProg where
  owned : List Nat
  vars : List VarDecl
  body : SStmt
deriving Repr, Inhabited

def emitCProg (p : CProg) : Except AsmError (List Insn) :=
  match emitS (layout p.vars) p.body { code := [], owners := p.owned, stack := 0 } with
  | .ok (_, g) => .ok g.code
  | .error e => .error e

end Ebv.Gen
