/-! Concurrency model for in-place additions (`Memory.__iadd__/__isub__` → `IAdd` → the
XADD branch of `Memory._set`, ebpfcat/ebpf.py).  The code emitted for `v += a` on a
4/8-byte variable is `pre ++ [XADD]`: `pre` computes the amount into a private register
without touching the variable, the last instruction adds it to the shared cell in one
atomic step.  Threads are interleaved at instruction granularity by an explicit schedule.
`racy*` models the load/add/store sequence emitted for formats that have no XADD. -/
namespace Ebv.Xadd

structure Thread where
  pre : Nat          -- private instructions still to run before the XADD
  amount : Nat       -- what the XADD will add (already reduced modulo 2^width)
  done : Bool
deriving Repr, DecidableEq

/-- one instruction of thread `t` on the shared cell (`m` = 2^width) -/
def stepThread (m : Nat) (cell : Nat) (t : Thread) : Nat × Thread :=
  if t.done then (cell, t)
  else if t.pre = 0 then ((cell + t.amount) % m, { t with done := true })
  else (cell, { t with pre := t.pre - 1 })

def runSched (m : Nat) : List Nat → Nat → List Thread → Nat × List Thread
  | [], cell, ts => (cell, ts)
  | i :: sched, cell, ts =>
    match ts[i]? with
    | none => runSched m sched cell ts
    | some t =>
      let (cell', t') := stepThread m cell t
      runSched m sched cell' (ts.set i t')

def pending (ts : List Thread) : Nat := (ts.map fun t => if t.done then 0 else t.amount).sum

/-! the non-atomic sequence (load, add, store) for comparison -/
structure RacyThread where
  pc : Nat           -- 0: load, 1: add, 2: store, 3: done
  amount : Nat
  tmp : Nat
deriving Repr, DecidableEq

def stepRacy (m : Nat) (cell : Nat) (t : RacyThread) : Nat × RacyThread :=
  match t.pc with
  | 0 => (cell, { t with pc := 1, tmp := cell })
  | 1 => (cell, { t with pc := 2, tmp := (t.tmp + t.amount) % m })
  | 2 => (t.tmp, { t with pc := 3 })
  | _ => (cell, t)

def runRacy (m : Nat) : List Nat → Nat → List RacyThread → Nat × List RacyThread
  | [], cell, ts => (cell, ts)
  | i :: sched, cell, ts =>
    match ts[i]? with
    | none => runRacy m sched cell ts
    | some t =>
      let (cell', t') := stepRacy m cell t
      runRacy m sched cell' (ts.set i t')

end Ebv.Xadd
