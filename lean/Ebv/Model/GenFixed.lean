import Ebv.Model.Gen
import Ebv.Model.Float64
/-! # `GenFixed` — the fixed-point layer of the ebpfcat expression generator (ebpfcat/ebpf.py)

A surface program with `fixed` typing (`harness/vh/dsl_fixed.py`) is walked like the harness walks it with the real
classes.  Every Python-level value is an `int`, a `float` written as a decimal literal `n / 10^5`, or an `Expression`
object (a `Gen.Expr` tree plus its `fixed` attribute — the attribute is only ever read at the root of an operand).
The operator overloads insert the `FIXED_BASE` factors (`fSum`, `fMul`, `fTruediv`, `fFloordiv`,
`rFloordiv`, `cmpScale`), fold them into `Constant` objects (`Constant.__imul__`, `imul`), stores scale in
`RegisterArray.__setitem__` / `Memory._set` (`storeVal`).  The result is a plain `Gen.Expr`; emission is `Gen`'s.
An `x` variable is a 64-bit signed memory operand (`Gen.Fmt.q`: same load, store, width and sign flags) that is
typed fixed; the `x` register view is `Register(no, long=True, signed=True, fixed=True)`.

Not modelled (the model answers `other:unmodelled`, the generators avoid it): arithmetic between two Python
numbers one of which is a float (done by CPython in binary64 before ebpfcat sees anything). -/
namespace Ebv.GenFixed
open Ebv.Ebpf Ebv.Gen

def FB : Int := (Consts.FIXED_BASE : Int)

inductive FOp where
  | add | sub | mul | truediv | floordiv | mod
deriving DecidableEq, Repr, Inhabited

inductive FVal where
  | int (v : Int)
  | dec (n : Int)                      -- the Python float written as the decimal literal n / 10^5
  | ex (e : Expr) (fixed : Bool)
deriving Repr, Inhabited

/-- an `Expression` object: tree and `fixed` attribute -/
structure FE where
  e : Expr
  fixed : Bool
deriving Repr, Inhabited

/-- `ensure_expression` / `Constant.__init__` (`index(value)`, else `round(float(value) * FIXED_BASE)`) -/
def ensureF : FVal → Except AsmError FE
  | .int v => .ok ⟨.const v, false⟩
  | .dec n => .ok ⟨.const (F64.decConst n), true⟩
  | .ex e f => .ok ⟨e, f⟩

def asConst : Expr → Option Int
  | .const v => some v
  | _ => Option.none

/-- `x *= k`: `Constant.__imul__` folds, every other class goes through `__mul__` with an `int` -/
def imul (x : Expr) (k : Int) : Expr :=
  match asConst x with
  | some v => .const (v * k)
  | Option.none => .bin .mul x (.const k) x.signed .plain

/-- `Expression._sum` (`+`, `-`, `%`): scale the integer side -/
def fSum (op : BinOp) (self value : FE) : FE :=
  let sg := self.e.signed || value.e.signed
  if self.fixed != value.fixed then
    if self.fixed then ⟨.bin op self.e (imul value.e FB) sg .plain, true⟩
    else ⟨.bin op (imul self.e FB) value.e sg .plain, true⟩
  else ⟨.bin op self.e value.e sg .plain, self.fixed || value.fixed⟩

/-- `Expression.__mul__`: fixed × fixed is divided by `FIXED_BASE` (`ret /= …` is `__truediv__` with an `int`) -/
def fMul (self value : FE) : FE :=
  let sg := self.e.signed || value.e.signed
  let ret : Expr := .bin .mul self.e value.e sg .plain
  if self.fixed && value.fixed then ⟨.bin .div ret (.const FB) sg .plain, true⟩
  else ⟨ret, self.fixed || value.fixed⟩

/-- `Expression.__truediv__` -/
def fTruediv (self value : FE) : FE :=
  let sg := self.e.signed || value.e.signed
  let my := if !self.fixed && value.fixed then imul self.e (FB * FB)
            else if self.fixed == value.fixed then imul self.e FB else self.e
  ⟨.bin .div my value.e sg .plain, true⟩

/-- `Expression.__floordiv__` -/
def fFloordiv (self value : FE) : FE :=
  let sg := self.e.signed || value.e.signed
  if !self.fixed && value.fixed then ⟨.bin .div (imul self.e FB) value.e sg .plain, false⟩
  else if self.fixed && !value.fixed then ⟨.bin .div self.e (imul value.e FB) sg .plain, false⟩
  else ⟨.bin .div self.e value.e sg .plain, false⟩

/-- `Expression.__rfloordiv__(self, value)` with `value` a Python number: a fixed `self` converts the number like
any constant; otherwise the number is truncated with `int()` -/
def rFloordiv (self : FE) : FVal → Except AsmError FE
  | .int c =>
    if self.fixed then pure ⟨.bin .div (.const (c * FB)) self.e (self.e.signed || decide (c < 0)) .plain, false⟩
    else pure ⟨.bin .div (.const c) self.e (self.e.signed || decide (c < 0)) .plain, false⟩
  | .dec n =>
    if self.fixed then
      pure ⟨.bin .div (.const (F64.decConst n)) self.e (self.e.signed || decide (F64.decConst n < 0)) .plain, false⟩
    else
      pure ⟨.bin .div (.const (F64.decTrunc n)) self.e (self.e.signed || decide (F64.decTrunc n < 0)) .plain, false⟩
  | _ => typeError

/-- `self (op) value`, `self` an `Expression`, in a node that involves fixed point (or `/`) -/
def fDirect (op : FOp) (self : FE) (value : FVal) : Except AsmError FE := do
  let v ← ensureF value
  match op with
  | .add => pure (fSum .add self v)
  | .sub => pure (fSum .sub self v)               -- also for a `Sum`: `Sum.__sub__` → `super().__sub__` for a non-`int`
  | .mul => pure (fMul self v)
  | .truediv => pure (fTruediv self v)
  | .floordiv => pure (fFloordiv self v)
  | .mod => pure (fSum .mod self v)

/-- `value (op) self`, `value` a Python number: the reflected methods -/
def fReflected (op : FOp) (self : FE) (value : FVal) : Except AsmError FE :=
  match op with
  | .add => do pure (fSum .add self (← ensureF value))             -- __radd__ = __add__
  | .sub => do pure (fSum .sub (← ensureF value) self)             -- Constant(value) - self
  | .mul => do pure (fMul self (← ensureF value))                  -- __rmul__ = __mul__
  | .truediv => do pure (fTruediv (← ensureF value) self)
  | .floordiv => rFloordiv self value
  | .mod => do pure (fSum .mod (← ensureF value) self)

def FOp.toS : FOp → Option SOp
  | .add => some .add | .sub => some .sub | .mul => some .mul
  | .floordiv => some .floordiv | .mod => some .mod | .truediv => Option.none

/-- the value as `Gen` sees it, if it has nothing to do with fixed point -/
def toPy : FVal → Option PyVal
  | .int v => some (.int v)
  | .ex e false => some (.ex e)
  | _ => Option.none

def ofPy : PyVal → FVal
  | .int v => .int v
  | .ex e => .ex e false

def unmodelled {α} : Except AsmError α := .error (.other "unmodelled")

def wrapFE (x : Except AsmError FE) : Except AsmError FVal := do let r ← x; pure (.ex r.e r.fixed)

/-- a node that involves fixed point or `/`: operands are not both plain Python numbers -/
def fNode (op : FOp) (a b : FVal) : Except AsmError FVal :=
  match a, b with
  | .ex l fl, .ex r fr =>
    -- `Binary + Sum` calls `Sum.__radd__` first (subclass with its own reflected method)
    if op == .add && isPlainBinary l && isSumObj r then wrapFE (fDirect .add ⟨r, fr⟩ a)
    else wrapFE (fDirect op ⟨l, fl⟩ b)
  | .ex l fl, _ => wrapFE (fDirect op ⟨l, fl⟩ b)
  | _, .ex r fr => wrapFE (fReflected op ⟨r, fr⟩ a)
  | _, _ => unmodelled                                            -- float arithmetic of CPython

/-- Python's `a (op) b` -/
def fOp (op : FOp) (a b : FVal) : Except AsmError FVal :=
  match op.toS, toPy a, toPy b with
  | some sop, some x, some y => do let r ← pyOp sop x y; pure (ofPy r)      -- no fixed point involved: `Gen`
  | _, _, _ => fNode op a b

/-- `comparison`: which side is multiplied by `FIXED_BASE` (the rest of comparisons is C03) -/
def cmpScale (self value : FE) : Expr × Expr :=
  if self.fixed != value.fixed then
    if self.fixed then (self.e, imul value.e FB) else (imul self.e FB, value.e)
  else (self.e, value.e)

/-! ## surface programs -/

inductive FExpr where
  | int (v : Int)
  | dec (n : Int)
  | reg (view : View) (no : Nat)
  | xreg (no : Nat)
  | var (name : String)
  | bin (op : FOp) (a b : FExpr)
deriving Repr, Inhabited, DecidableEq

inductive FDest where
  | reg (view : View) (no : Nat)
  | xreg (no : Nat)
  | var (name : String)
deriving Repr, Inhabited, DecidableEq

inductive FStmt where
  | set (d : FDest) (e : FExpr)
deriving Repr, Inhabited, DecidableEq

/-- a declared variable; `fmt = none` is the fixed-point format `x` -/
structure FVarDecl where
  name : String
  fmt : Option Fmt
  kind : VarKind
deriving Repr, Inhabited

/-- `fmtsize("x") = 8`, signed, 64-bit: laid out, loaded and stored like `q` -/
def FVarDecl.toGen (v : FVarDecl) : VarDecl := ⟨v.name, v.fmt.getD .q, v.kind⟩

structure FProg where
  owned : List Nat
  vars : List FVarDecl
  stmts : List FStmt
deriving Repr, Inhabited

/-- layout (through `Gen.layout`) and the names of the `x` variables -/
structure FEnv where
  locs : List VarLoc
  fx : List String
deriving Repr, Inhabited

def FProg.env (p : FProg) : FEnv :=
  ⟨layout (p.vars.map FVarDecl.toGen), (p.vars.filter (·.fmt.isNone)).map (·.name)⟩

/-- walk a surface expression like `dsl_fixed.FBuilt.expr`, operands left to right -/
def elabF (env : FEnv) : FExpr → Except AsmError FVal
  | .int v => pure (.int v)
  | .dec n => pure (.dec n)
  | .reg view no => pure (.ex (.reg no view.long view.signed) false)
  | .xreg no => pure (.ex (.reg no true true) true)
  | .var name =>
    match lookupVar env.locs name with
    | some l => pure (.ex (varExpr l) (env.fx.contains name))
    | Option.none => .error (.other "AttributeError")
  | .bin op a b => do
    let x ← elabF env a
    let y ← elabF env b
    fOp op x y

/-- `RegisterArray.__setitem__` / `Memory._set`: `value *= FIXED_BASE` into a fixed destination, `value /= FIXED_BASE`
(`__truediv__` with an `int`: no scaling, a `DIV` node) out of one -/
def storeVal (destFixed : Bool) (v : FE) : Expr :=
  if destFixed && !v.fixed then imul v.e FB
  else if !destFixed && v.fixed then .bin .div v.e (.const FB) v.e.signed .plain
  else v.e

/-- a statement after the operator overloads and the store scaling: what `Gen` has to emit -/
inductive CSt where
  | reg (no : Nat) (long : Bool) (e : Expr)
  | mem (fmt : Fmt) (base : Nat) (off : Int) (e : Expr)
deriving Repr, DecidableEq

def sumAddr (base : Nat) (off : Int) : Expr := .bin .add (.reg base true false) (.const off) (off < 0) .sum

def CSt.emit : CSt → GenM Unit
  | .reg no long e => setReg no long (.ex e)
  | .mem fmt base off e => setMem fmt (sumAddr base off) (.ex e)

def compileF (env : FEnv) : FStmt → Except AsmError CSt
  | .set d s => do
    let v ← elabF env s
    let fe ← ensureF v
    match d with
    | .reg view no => pure (.reg no view.long (storeVal false fe))
    | .xreg no => pure (.reg no true (storeVal true fe))
    | .var name =>
      match lookupVar env.locs name with
      | some l => pure (.mem l.fmt l.base l.off (storeVal (env.fx.contains name) fe))
      | Option.none => .error (.other "AttributeError")

def emitFStmt (env : FEnv) (st : FStmt) : GenM Unit :=
  match compileF env st with
  | .ok c => c.emit
  | .error e => fail e

def emitFStmts (env : FEnv) : List FStmt → GenM Unit
  | [] => pure ()
  | s :: ss => do emitFStmt env s; emitFStmts env ss

/-- the code the real generator emits for a fixed-point program, or the error it raises -/
def emitFProg (p : FProg) : Except AsmError (List Insn) :=
  match emitFStmts p.env p.stmts { code := [], owners := p.owned, stack := 0 } with
  | .ok (_, g) => .ok g.code
  | .error e => .error e

/-! ## classes -/

/-- the program-level classes of `Gen` (C01) a compiled statement is in -/
def CSt.classes : CSt → List String
  | .reg no long e =>
    ([("narrow-reg-in-64", narrowIn64 e long true (.reg no))].filter (·.2)).map (·.1)
  | .mem fmt _ _ e =>
    ([("narrow-reg-in-64", narrowIn64 e fmt.isLong false .any)].filter (·.2)).map (·.1)

/-- *fixed-to-short*: a fixed value stored into a 32-bit (or narrower) destination is divided by `FIXED_BASE` in 32
bits (inside the property's fit precondition only if the scaled value fits 32 bits) -/
def fixedToShort (env : FEnv) : FStmt → Bool
  | .set d s =>
    let long := match d with
      | .reg view _ => view.long
      | .xreg _ => true
      | .var name => match lookupVar env.locs name with | some l => l.fmt.isLong | Option.none => true
    let fixedDest := match d with
      | .reg _ _ => false
      | .xreg _ => true
      | .var name => env.fx.contains name
    !long && !fixedDest && (match (do ensureF (← elabF env s)) with | .ok fe => fe.fixed | .error _ => false)

end Ebv.GenFixed
