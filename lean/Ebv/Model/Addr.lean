import Ebv.Generated.Consts
/-! Model of the address assignment of the master (ebpfcat/ethercat.py):
`EtherCat.find_free_address`, `EtherCat.assigned_address`, the `get_serial(i)` tasks of
`EtherCat.scan_serial_numbers` and the head of `Terminal.initialize(relative=-pos)`.

* The bus is the list of the terminals' station-address registers (register 0x10), one per
  position; `0` means "no address configured" (this is what `assigned_address` tests).
* Every task is a coroutine that waits on exactly one bus request at a time.  A request has two
  phases: *sent* (`…S`, the bus has not seen it yet) and *processed* (`…D`, the bus has acted on
  it, the answer has not reached the task yet).  A schedule is a list of numbers; entry `s` picks
  the `s % n`-th of the `n` pending requests (arrival order): a sent request is processed by the
  bus *now* (a probe FPRD at address `a` is answered iff some terminal currently has `a`), a
  processed one is delivered and the task runs, without interruption, up to its next `await`.
* `random.randint(*self.terminal_addr_range)` is `draw cfg r` for the next raw PRNG output `r`
  (inclusive on both ends); the range is the one configured for this master (`cfg.lo`, `cfg.hi`); `used_addresses` is kept as the code keeps it: the membership test and
  the insert happen in `beginFind`, before the probe is sent.
* `returned`, `answered`, `cleared`, `written`, `log` only record what happened (ghost state).
-/
namespace Ebv.Addr
open Ebv.Consts

/-- `random.randint(lo, hi)` as a function of the raw PRNG output -/
def randint (lo hi r : Nat) : Nat := lo + r % (hi - lo + 1)

inductive Kind where
  | serial    -- `get_serial(-pos)` inside scan_serial_numbers
  | init      -- `Terminal.initialize(relative=-pos)` (absolute=None)
deriving DecidableEq, Repr

/-- where a task is waiting -/
inductive Pc where
  | rdS                         -- APRD pos 0x10 sent                      (assigned_address)
  | rdD (v : Nat)               -- … processed, register value `v` on its way back
  | prS (a : Nat)               -- FPRD a 0x10 sent                        (find_free_address)
  | prD (a : Nat) (ans : Bool)  -- … processed; `ans` = some terminal answered (wkc ≠ 0)
  | wrS (a : Nat)               -- APWR pos 0x10 := a sent                 (assigned_address / initialize)
  | wrD (a : Nat)               -- … processed: the register has been written
  | tlS (k a : Nat)             -- an EEPROM request sent, `k` more follow; `a` = the task's address
  | tlD (k a : Nat)
  | done
deriving DecidableEq, Repr

structure Task where
  kind : Kind
  pos : Nat
deriving Repr

inductive Ev where
  | rd (pos v : Nat)            -- bus processed APRD: register value v
  | probe (a : Nat) (ans : Bool)
  | wr (pos a : Nat)
  | ee (pos : Nat)              -- bus processed one EEPROM-interface request
  | ret (a : Nat)               -- find_free_address returned a
deriving DecidableEq, Repr

structure Cfg where
  bus : List Nat                -- configured station addresses before the run (0 = none)
  serials : List Nat            -- EEPROM serial number per position
  draws : List Nat              -- raw PRNG outputs, in the order randint is called
  tasks : List Task             -- task id = index; started in this order
  /-- `terminal_addr_range` as configured for this master (class attribute of the master's class or of a subclass,
  or set on the instance); not configured: the library's default, regenerated from /repo -/
  lo : Nat := addrLo
  hi : Nat := addrHi

/-- `randint(*self.terminal_addr_range)` -/
def draw (cfg : Cfg) (r : Nat) : Nat := randint cfg.lo cfg.hi r

structure St where
  bus : List Nat
  used : List Nat               -- `EtherCat.used_addresses`
  draws : List Nat
  pc : Nat → Pc
  queue : List Nat              -- task ids with a pending request, in arrival order
  starved : Bool                -- the PRNG script ran out: the run is stopped
  returned : List Nat           -- addresses returned by find_free_address, in order
  answered : List Nat           -- addresses at which a probe was answered
  cleared : List Nat            -- addresses at which a probe went unanswered
  written : List Nat            -- addresses the master wrote into a station-address register
  map : List (Int × Nat)        -- `addr_by_serial`
  log : List Ev

def upd (f : Nat → Pc) (i : Nat) (p : Pc) : Nat → Pc := fun j => if j = i then p else f j

def taskOf (cfg : Cfg) (tid : Nat) : Task := cfg.tasks.getD tid ⟨.init, 0⟩

/-- the part of `find_free_address`'s loop without an `await`: draw until the number is not in
`used_addresses`; `none` when the PRNG script is exhausted -/
def drawFresh (cfg : Cfg) (used : List Nat) : List Nat → Option (Nat × List Nat)
  | [] => none
  | r :: rs => if draw cfg r ∈ used then drawFresh cfg used rs else some (draw cfg r, rs)

/-- `i = randint(..)` … `self.used_addresses.add(i)`; `await self.roundtrip(FPRD, i, 0x10, …)` is sent -/
def beginFind (cfg : Cfg) (st : St) (tid : Nat) : St :=
  match drawFresh cfg st.used st.draws with
  | none => { st with starved := true, draws := [] }
  | some (a, rest) => { st with used := a :: st.used, draws := rest, pc := upd st.pc tid (.prS a) }

/-- number of bus requests of `eeprom_read` on an idle EEPROM interface, minus one -/
def tailLen : Nat := 2

/-- `addr_by_serial` update at the end of `get_serial` -/
def mapSet (m : List (Int × Nat)) (k : Int) (v : Nat) : List (Int × Nat) :=
  if m.any (fun e => e.1 == k) then m.map (fun e => if e.1 == k then (k, v) else e) else m ++ [(k, v)]

def finish (cfg : Cfg) (m : List (Int × Nat)) (pos a : Nat) : List (Int × Nat) :=
  let serial := cfg.serials.getD pos 0
  if serial > 0 then
    match m.find? (fun e => e.1 == (serial : Int)) with
    | some (_, old) => if old != a then m else mapSet m serial a
    | none => mapSet m serial a
  else mapSet m (-(pos : Int)) a

/-- the bus acts on the request task `tid` has sent -/
def process (cfg : Cfg) (st : St) (tid : Nat) : St :=
  let t := taskOf cfg tid
  match st.pc tid with
  | .rdS =>
    let v := st.bus.getD t.pos 0
    { st with pc := upd st.pc tid (.rdD v), log := st.log ++ [.rd t.pos v] }
  | .prS a =>
    let ans := decide (a ∈ st.bus)
    { st with pc := upd st.pc tid (.prD a ans),
              answered := if ans then a :: st.answered else st.answered,
              cleared := if ans then st.cleared else a :: st.cleared,
              log := st.log ++ [.probe a ans] }
  | .wrS a =>
    { st with bus := st.bus.set t.pos a, written := a :: st.written,
              pc := upd st.pc tid (.wrD a), log := st.log ++ [.wr t.pos a] }
  | .tlS k a => { st with pc := upd st.pc tid (.tlD k a), log := st.log ++ [.ee t.pos] }
  | _ => st

/-- the answer reaches task `tid`, which runs up to its next `await` -/
def deliver (cfg : Cfg) (st : St) (tid : Nat) : St :=
  let t := taskOf cfg tid
  match st.pc tid with
  | .rdD v => if v = 0 then beginFind cfg st tid else { st with pc := upd st.pc tid (.tlS tailLen v) }
  | .prD _ true => beginFind cfg st tid
  | .prD a false =>
    { st with returned := st.returned ++ [a], pc := upd st.pc tid (.wrS a), log := st.log ++ [.ret a] }
  | .wrD a =>
    match t.kind with
    | .serial => { st with pc := upd st.pc tid (.tlS tailLen a) }
    | .init => { st with pc := upd st.pc tid .done }
  | .tlD (k + 1) a => { st with pc := upd st.pc tid (.tlS k a) }
  | .tlD 0 a => { st with pc := upd st.pc tid .done, map := finish cfg st.map t.pos a }
  | _ => st

def isSent : Pc → Bool
  | .rdS | .prS _ | .wrS _ | .tlS _ _ => true
  | _ => false

/-- one scheduling decision -/
def step (cfg : Cfg) (s : Nat) (st : St) : St :=
  if st.starved then st else
  match st.queue with
  | [] => st
  | q :: qs =>
    let k := s % (q :: qs).length
    let tid := (q :: qs).getD k q
    if isSent (st.pc tid) then process cfg st tid
    else
      let st' := deliver cfg st tid
      let rest := (q :: qs).eraseIdx k
      { st' with queue := if st'.starved || st'.pc tid == .done then rest else rest ++ [tid] }

/-- a task is created and runs up to its first `await` -/
def startTask (cfg : Cfg) (st : St) (tid : Nat) : St :=
  if st.starved then st else
  match (taskOf cfg tid).kind with
  | .serial => { st with pc := upd st.pc tid .rdS, queue := st.queue ++ [tid] }
  | .init =>
    let st' := beginFind cfg st tid
    if st'.starved then st' else { st' with queue := st'.queue ++ [tid] }

def base (cfg : Cfg) : St :=
  { bus := cfg.bus, used := [], draws := cfg.draws, pc := fun _ => .done, queue := [], starved := false,
    returned := [], answered := [], cleared := [], written := [], map := [], log := [] }

def initSt (cfg : Cfg) : St := (List.range cfg.tasks.length).foldl (startTask cfg) (base cfg)

def run (cfg : Cfg) (sched : List Nat) : St := sched.foldl (fun st s => step cfg s st) (initSt cfg)

/-- all tasks have finished -/
def finished (st : St) : Bool := !st.starved && st.queue.isEmpty

end Ebv.Addr
