import Ebv.Generated.Consts
/-! Model of `Terminal.map_fmmu` (ebpfcat/ethercat.py), the async context manager that
claims one FMMU of a terminal for a logical address.

    start = 1 if write else len(self.fmmu_used)
    start = min(start, len(self.fmmu_used) - 1)
    index = start - self.fmmu_used[start::-1].index(None)
    self.fmmu_used[index] = logical
    try:
        await self.write(0x600 + 0x10 * index, "IHBBHBBB3x", logical, size, 0, 7, offset, 0, 2 if write else 1, 1)
        yield index
        await self.write(0x60c + 0x10 * index, "B", 0)
    finally:
        self.fmmu_used[index] = None

The slot table is `fmmu_used` (`None` = free).  The three Python list primitives the
slot formula uses are modelled for *every* integer argument (negative indices, slice
clamping, IndexError, ValueError), so the theorems of `Ebv.Props.C20` really depend on
the formula: with the formula used before commit 72130e4 they are false
(`Ebv.C20.old_formula_shares`).  The register block addresses are the regenerated
`Consts.fmmu_reg_*`. -/
namespace Ebv.Fmmu
open Ebv.Consts

abbrev Table := List (Option Nat)

/-! ### Python list primitives -/

/-- position addressed by `l[i]` for a list of length `len`; `none` = IndexError -/
def pyNorm (len : Nat) (i : Int) : Option Nat :=
  if 0 ≤ i then (if i < len then some i.toNat else none)
  else if 0 ≤ i + len then some (i + len).toNat else none

/-- `l[i] = v`; `none` = IndexError -/
def pySetItem {α} (l : List α) (i : Int) (v : α) : Option (List α) :=
  (pyNorm l.length i).map fun k => l.set k v

/-- `l[start::-1]` (CPython `PySlice_AdjustIndices` for step −1 and stop `None`) -/
def pySliceRev {α} (l : List α) (start : Int) : List α :=
  let n : Int := l.length
  let s := if start < 0 then start + n else start
  let s := if s < 0 then -1 else if s ≥ n then n - 1 else s
  (l.take (s + 1).toNat).reverse

/-- `l.index(None)`; `none` = ValueError -/
def pyIndexNone : Table → Option Nat
  | [] => none
  | none :: _ => some 0
  | some _ :: t => (pyIndexNone t).map (· + 1)

/-! ### the slot choice -/

inductive Err where
  | valueError     -- `.index(None)`: no free slot in the searched range
  | indexError     -- `fmmu_used[index] = logical` out of range
deriving Repr, DecidableEq

/-- `start`: 1 for outputs, `len` for inputs, then `min(start, len - 1)` -/
def startOf (n : Nat) (write : Bool) : Int := min (if write then 1 else (n : Int)) ((n : Int) - 1)

/-- `start - <result of .index(None)>`, or the ValueError of `.index` -/
def slotResult (start : Int) : Option Nat → Except Err Int
  | none => .error .valueError
  | some k => .ok (start - k)

/-- the value of `index` (a Python int) or the exception of the `.index` call -/
def slotChoice (t : Table) (write : Bool) : Except Err Int :=
  slotResult (startOf t.length write) (pyIndexNone (pySliceRev t (startOf t.length write)))

def storeResult (index : Int) : Option Table → Except Err (Int × Table)
  | none => .error .indexError
  | some t' => .ok (index, t')

/-- `self.fmmu_used[index] = logical` -/
def enterAt (t : Table) (logical : Nat) : Except Err Int → Except Err (Int × Table)
  | .error e => .error e
  | .ok index => storeResult index (pySetItem t index (some logical))

/-- everything before the `try`: the chosen index and the new slot table -/
def enter (t : Table) (write : Bool) (logical : Nat) : Except Err (Int × Table) :=
  enterAt t logical (slotChoice t write)

/-- the `finally` clause: `self.fmmu_used[index] = None` (an IndexError here would need a
table that changed its length; it is kept as "unchanged") -/
def exit (t : Table) (index : Int) : Table := (pySetItem t index none).getD t

/-! ### the context manager as a state machine over operation lists -/

/-- process-data window of the terminal: `pdo_out_off, pdo_out_sz, pdo_in_off, pdo_in_sz` -/
structure Cfg where
  outOff : Nat
  outSz : Nat
  inOff : Nat
  inSz : Nat
deriving Repr, DecidableEq

/-- one `self.write(addr, fmt, *fields)` -/
structure Wr where
  addr : Int
  fields : List Nat
deriving Repr, DecidableEq

/-- a mapping whose `with` body is running -/
structure Live where
  index : Int
  logical : Nat
  write : Bool
deriving Repr, DecidableEq

structure St where
  table : Table
  live : List Live       -- in order of entry
deriving Repr, DecidableEq

inductive ExitMode where
  | normal     -- body finished: `__aexit__(None, None, None)`
  | exc        -- body raised: `__aexit__(type, exc, tb)`, the exception is thrown into the generator
  | busFail    -- body finished, the de-activating register write raises
deriving Repr, DecidableEq

inductive Op where
  /-- `await terminal.map_fmmu(logical, write).__aenter__()`; `busFail`: the register write raises -/
  | enter (write : Bool) (logical : Nat) (busFail : Bool)
  /-- leave the `k`-th live mapping (any order); no such mapping: nothing happens -/
  | exit (k : Nat) (mode : ExitMode)
deriving Repr, DecidableEq

inductive Outcome where
  | entered (index : Int)
  | failed (e : Err)     -- `__aenter__` raised before touching anything
  | busError             -- the register write raised (and propagates)
  | exited               -- `__aexit__` returned False
  | noop
deriving Repr, DecidableEq

def activateWr (cfg : Cfg) (index : Int) (logical : Nat) (write : Bool) : Wr :=
  { addr := fmmu_reg_base + fmmu_reg_stride * index,
    fields := [logical, if write then cfg.outSz else cfg.inSz, 0, 7,
               if write then cfg.outOff else cfg.inOff, 0, if write then 2 else 1, 1] }

def deactivateWr (index : Int) : Wr :=
  { addr := (fmmu_reg_base + fmmu_reg_activate : Nat) + fmmu_reg_stride * index, fields := [0] }

/-- the part of `__aenter__` after the slot was recorded: the register write, and `finally` if it raises -/
def enterResult (cfg : Cfg) (s : St) (write : Bool) (logical : Nat) (busFail : Bool) :
    Except Err (Int × Table) → St × Outcome × List Wr
  | .error e => (s, .failed e, [])
  | .ok (index, t') =>
    if busFail then ({ s with table := exit t' index }, .busError, [activateWr cfg index logical write])
    else ({ table := t', live := s.live ++ [⟨index, logical, write⟩] }, .entered index,
          [activateWr cfg index logical write])

/-- `__aenter__` -/
def stepEnter (cfg : Cfg) (s : St) (write : Bool) (logical : Nat) (busFail : Bool) : St × Outcome × List Wr :=
  enterResult cfg s write logical busFail (enter s.table write logical)

/-- the writes of `__aexit__` in the three modes -/
def exitWrites (index : Int) : ExitMode → Outcome × List Wr
  | .normal => (.exited, [deactivateWr index])
  | .exc => (.exited, [])
  | .busFail => (.busError, [deactivateWr index])

def exitResult (s : St) (k : Nat) (mode : ExitMode) : Option Live → St × Outcome × List Wr
  | none => (s, .noop, [])
  | some m => ({ table := exit s.table m.index, live := s.live.eraseIdx k }, exitWrites m.index mode)

/-- `__aexit__` of the `k`-th live mapping -/
def stepExit (s : St) (k : Nat) (mode : ExitMode) : St × Outcome × List Wr :=
  exitResult s k mode s.live[k]?

def step (cfg : Cfg) (s : St) : Op → St × Outcome × List Wr
  | .enter write logical busFail => stepEnter cfg s write logical busFail
  | .exit k mode => stepExit s k mode

def init (n : Nat) : St := { table := List.replicate n none, live := [] }

/-- state after a list of operations -/
def run (cfg : Cfg) : St → List Op → St
  | s, [] => s
  | s, op :: ops => run cfg (step cfg s op).1 ops

/-- per operation: outcome, register writes, slot table afterwards -/
def trace (cfg : Cfg) : St → List Op → List (Outcome × List Wr × Table)
  | _, [] => []
  | s, op :: ops =>
    let r := step cfg s op
    (r.2.1, r.2.2, r.1.table) :: trace cfg r.1 ops

/-! ### initialisation, and several terminals on one bus

`Terminal.initialize` reads the number of FMMUs the hardware reports (register 4), creates the slot table with exactly
that many free slots and switches every FMMU off:

    fmmu_no, = await self.read(4, "B")
    self.fmmu_used = [None] * fmmu_no
    for i in range(fmmu_no):
        await self.write(0x60c + 0x10 * i, "B", 0)

Every `Terminal` object has a slot table of its own. -/

/-- the register writes of `initialize` in the FMMU block -/
def initWrites (n : Nat) : List Wr := (List.range n).map fun (i : Nat) => deactivateWr (i : Int)

/-- one terminal of the bus: its process-data window and its FMMU state -/
structure Term where
  cfg : Cfg
  st : St
deriving Repr, DecidableEq

abbrev Bus := List Term

/-- all terminals initialised: terminal `i` reports `(ts[i]).1` FMMUs -/
def busInit (ts : List (Nat × Cfg)) : Bus := ts.map fun t => ⟨t.2, init t.1⟩

/-- an operation on terminal `i` (no such terminal: nothing happens) -/
def busStepAt (b : Bus) (i : Nat) (op : Op) : Option Term → Bus × Outcome × List Wr
  | none => (b, .noop, [])
  | some t => (b.set i { t with st := (step t.cfg t.st op).1 }, (step t.cfg t.st op).2)

def busStep (b : Bus) (o : Nat × Op) : Bus × Outcome × List Wr := busStepAt b o.1 o.2 b[o.1]?

def busRun : Bus → List (Nat × Op) → Bus
  | b, [] => b
  | b, o :: os => busRun (busStep b o).1 os

/-- per operation: the terminal, outcome, register writes (all on that terminal), its slot table afterwards -/
def busTrace : Bus → List (Nat × Op) → List (Nat × Outcome × List Wr × Table)
  | _, [] => []
  | b, o :: os =>
    let r := busStep b o
    (o.1, r.2.1, r.2.2, ((r.1[o.1]?).map (·.st.table)).getD []) :: busTrace r.1 os

/-- the operations of a bus history that address terminal `i` -/
def opsOf (i : Nat) (os : List (Nat × Op)) : List Op := (os.filter (·.1 == i)).map (·.2)

end Ebv.Fmmu
