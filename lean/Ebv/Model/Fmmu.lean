import Ebv.Generated.Consts
/-! Model of `Terminal.map_fmmu` (ebpfcat/ethercat.py), the async context manager that
claims one FMMU of a terminal for a logical address.

    start = 1 if write else len(self.fmmu_used)
    start = min(start, len(self.fmmu_used) - 1)
    index = start - self.fmmu_used[start::-1].index(None)
    self.fmmu_used[index] = logical
    try:
        await self.write(0x600 + 0x10 * index, "IHBBHBBB3x", logical, size, 0, 7, offset, 0, 2 if write else 1, 1)
        yield index
        await self.write(0x60c + 0x10 * index, "B", 0)
    finally:
        self.fmmu_used[index] = None

The slot table is `fmmu_used` (`None` = free).  The three Python list primitives the
slot formula uses are modelled for *every* integer argument (negative indices, slice
clamping, IndexError, ValueError), so the theorems of `Ebv.Props.C20` really depend on
the formula: with the formula used before commit 72130e4 they are false
(`Ebv.C20.old_formula_shares`).  The register block addresses are the regenerated
`Consts.fmmu_reg_*`. -/
namespace Ebv.Fmmu
open Ebv.Consts

abbrev Table := List (Option Nat)

/-! ### Python list primitives -/

/-- position addressed by `l[i]` for a list of length `len`; `none` = IndexError -/
def pyNorm (len : Nat) (i : Int) : Option Nat :=
  if 0 ≤ i then (if i < len then some i.toNat else none)
  else if 0 ≤ i + len then some (i + len).toNat else none

/-- `l[i] = v`; `none` = IndexError -/
def pySetItem {α} (l : List α) (i : Int) (v : α) : Option (List α) :=
  (pyNorm l.length i).map fun k => l.set k v

/-- `l[start::-1]` (CPython `PySlice_AdjustIndices` for step −1 and stop `None`) -/
def pySliceRev {α} (l : List α) (start : Int) : List α :=
  let n : Int := l.length
  let s := if start < 0 then start + n else start
  let s := if s < 0 then -1 else if s ≥ n then n - 1 else s
  (l.take (s + 1).toNat).reverse

/-- `l.index(None)`; `none` = ValueError -/
def pyIndexNone : Table → Option Nat
  | [] => none
  | none :: _ => some 0
  | some _ :: t => (pyIndexNone t).map (· + 1)

/-! ### the slot choice -/

inductive Err where
  | valueError     -- `.index(None)`: no free slot in the searched range
  | indexError     -- `fmmu_used[index] = logical` out of range
deriving Repr, DecidableEq

/-- `start`: 1 for outputs, `len` for inputs, then `min(start, len - 1)` -/
def startOf (n : Nat) (write : Bool) : Int := min (if write then 1 else (n : Int)) ((n : Int) - 1)

/-- `start - <result of .index(None)>`, or the ValueError of `.index` -/
def slotResult (start : Int) : Option Nat → Except Err Int
  | none => .error .valueError
  | some k => .ok (start - k)

/-- the value of `index` (a Python int) or the exception of the `.index` call -/
def slotChoice (t : Table) (write : Bool) : Except Err Int :=
  slotResult (startOf t.length write) (pyIndexNone (pySliceRev t (startOf t.length write)))

def storeResult (index : Int) : Option Table → Except Err (Int × Table)
  | none => .error .indexError
  | some t' => .ok (index, t')

/-- `self.fmmu_used[index] = logical` -/
def enterAt (t : Table) (logical : Nat) : Except Err Int → Except Err (Int × Table)
  | .error e => .error e
  | .ok index => storeResult index (pySetItem t index (some logical))

/-- everything before the `try`: the chosen index and the new slot table -/
def enter (t : Table) (write : Bool) (logical : Nat) : Except Err (Int × Table) :=
  enterAt t logical (slotChoice t write)

/-- the `finally` clause: `self.fmmu_used[index] = None` (an IndexError here would need a
table that changed its length; it is kept as "unchanged") -/
def exit (t : Table) (index : Int) : Table := (pySetItem t index none).getD t

/-! ### the context manager as a state machine over operation lists -/

/-- process-data window of the terminal: `pdo_out_off, pdo_out_sz, pdo_in_off, pdo_in_sz` -/
structure Cfg where
  outOff : Nat
  outSz : Nat
  inOff : Nat
  inSz : Nat
deriving Repr, DecidableEq

/-- one `self.write(addr, fmt, *fields)` -/
structure Wr where
  addr : Int
  fields : List Nat
deriving Repr, DecidableEq

/-- a mapping whose `with` body is running -/
structure Live where
  index : Int
  logical : Nat
  write : Bool
deriving Repr, DecidableEq

structure St where
  table : Table
  live : List Live       -- in order of entry
deriving Repr, DecidableEq

inductive ExitMode where
  | normal     -- body finished: `__aexit__(None, None, None)`
  | exc        -- body raised: `__aexit__(type, exc, tb)`, the exception is thrown into the generator
  | busFail    -- body finished, the de-activating register write raises
deriving Repr, DecidableEq

inductive Op where
  /-- `await terminal.map_fmmu(logical, write).__aenter__()`; `busFail`: the register write raises -/
  | enter (write : Bool) (logical : Nat) (busFail : Bool)
  /-- leave the `k`-th live mapping (any order); no such mapping: nothing happens -/
  | exit (k : Nat) (mode : ExitMode)
deriving Repr, DecidableEq

inductive Outcome where
  | entered (index : Int)
  | failed (e : Err)     -- `__aenter__` raised before touching anything
  | busError             -- the register write raised (and propagates)
  | exited               -- `__aexit__` returned False
  | noop
deriving Repr, DecidableEq

def activateWr (cfg : Cfg) (index : Int) (logical : Nat) (write : Bool) : Wr :=
  { addr := fmmu_reg_base + fmmu_reg_stride * index,
    fields := [logical, if write then cfg.outSz else cfg.inSz, 0, 7,
               if write then cfg.outOff else cfg.inOff, 0, if write then 2 else 1, 1] }

def deactivateWr (index : Int) : Wr :=
  { addr := (fmmu_reg_base + fmmu_reg_activate : Nat) + fmmu_reg_stride * index, fields := [0] }

/-- the part of `__aenter__` after the slot was recorded: the register write, and `finally` if it raises -/
def enterResult (cfg : Cfg) (s : St) (write : Bool) (logical : Nat) (busFail : Bool) :
    Except Err (Int × Table) → St × Outcome × List Wr
  | .error e => (s, .failed e, [])
  | .ok (index, t') =>
    if busFail then ({ s with table := exit t' index }, .busError, [activateWr cfg index logical write])
    else ({ table := t', live := s.live ++ [⟨index, logical, write⟩] }, .entered index,
          [activateWr cfg index logical write])

/-- `__aenter__` -/
def stepEnter (cfg : Cfg) (s : St) (write : Bool) (logical : Nat) (busFail : Bool) : St × Outcome × List Wr :=
  enterResult cfg s write logical busFail (enter s.table write logical)

/-- the writes of `__aexit__` in the three modes -/
def exitWrites (index : Int) : ExitMode → Outcome × List Wr
  | .normal => (.exited, [deactivateWr index])
  | .exc => (.exited, [])
  | .busFail => (.busError, [deactivateWr index])

def exitResult (s : St) (k : Nat) (mode : ExitMode) : Option Live → St × Outcome × List Wr
  | none => (s, .noop, [])
  | some m => ({ table := exit s.table m.index, live := s.live.eraseIdx k }, exitWrites m.index mode)

/-- `__aexit__` of the `k`-th live mapping -/
def stepExit (s : St) (k : Nat) (mode : ExitMode) : St × Outcome × List Wr :=
  exitResult s k mode s.live[k]?

def step (cfg : Cfg) (s : St) : Op → St × Outcome × List Wr
  | .enter write logical busFail => stepEnter cfg s write logical busFail
  | .exit k mode => stepExit s k mode

def init (n : Nat) : St := { table := List.replicate n none, live := [] }

/-- state after a list of operations -/
def run (cfg : Cfg) : St → List Op → St
  | s, [] => s
  | s, op :: ops => run cfg (step cfg s op).1 ops

/-- per operation: outcome, register writes, slot table afterwards -/
def trace (cfg : Cfg) : St → List Op → List (Outcome × List Wr × Table)
  | _, [] => []
  | s, op :: ops =>
    let r := step cfg s op
    (r.2.1, r.2.2, r.1.table) :: trace cfg r.1 ops

/-! ### initialisation, and several terminals on one bus

`Terminal.initialize` reads the number of FMMUs the hardware reports (register 4), creates the slot table with exactly
that many free slots and switches every FMMU off:

    fmmu_no, = await self.read(4, "B")
    self.fmmu_used = [None] * fmmu_no
    for i in range(fmmu_no):
        await self.write(0x60c + 0x10 * i, "B", 0)

Every `Terminal` object has a slot table of its own. -/

/-- the register writes of `initialize` in the FMMU block -/
def initWrites (n : Nat) : List Wr := (List.range n).map fun (i : Nat) => deactivateWr (i : Int)

/-- one terminal of the bus: its process-data window and its FMMU state -/
structure Term where
  cfg : Cfg
  st : St
deriving Repr, DecidableEq

abbrev Bus := List Term

/-- all terminals initialised: terminal `i` reports `(ts[i]).1` FMMUs -/
def busInit (ts : List (Nat × Cfg)) : Bus := ts.map fun t => ⟨t.2, init t.1⟩

/-- an operation on terminal `i` (no such terminal: nothing happens) -/
def busStepAt (b : Bus) (i : Nat) (op : Op) : Option Term → Bus × Outcome × List Wr
  | none => (b, .noop, [])
  | some t => (b.set i { t with st := (step t.cfg t.st op).1 }, (step t.cfg t.st op).2)

def busStep (b : Bus) (o : Nat × Op) : Bus × Outcome × List Wr := busStepAt b o.1 o.2 b[o.1]?

def busRun : Bus → List (Nat × Op) → Bus
  | b, [] => b
  | b, o :: os => busRun (busStep b o).1 os

/-- per operation: the terminal, outcome, register writes (all on that terminal), its slot table afterwards -/
def busTrace : Bus → List (Nat × Op) → List (Nat × Outcome × List Wr × Table)
  | _, [] => []
  | b, o :: os =>
    let r := busStep b o
    (o.1, r.2.1, r.2.2, ((r.1[o.1]?).map (·.st.table)).getD []) :: busTrace r.1 os

/-- the operations of a bus history that address terminal `i` -/
def opsOf (i : Nat) (os : List (Nat × Op)) : List Op := (os.filter (·.1 == i)).map (·.2)

/-! ### mappings started concurrently: `map_fmmu` cut at every await

`map_fmmu` is a coroutine.  Between two awaits it runs without interruption; at `await self.write(...)` other tasks run —
in particular other mappings of the same terminal (two sync groups that share a terminal and are started together).
The pieces of one mapping:

* `begin`: everything up to the first await — the slot is chosen **and recorded**, then the activation write is issued
  (or `.index(None)` raises and nothing happened);
* `ack` while entering: the write came back (`__aenter__` returns the index) or the await raised — the write failed or
  the task was cancelled while it waited (`finally` frees the slot);
* `leave`: the body ended — normally (the de-activation write is issued) or by an exception (`finally` at once);
* `ack` while closing: the de-activation write came back or raised; `finally` frees the slot.

A mapping holds its FMMU from `begin` until `finally` ran: `St.live` lists exactly these mappings (entering, in the body,
closing), `phase` their serial number and where they stand.  `step` is the special case in which every `begin` is
followed at once by its `ack` (`cstep_seq_enter`, `cstep_seq_exit` in `Ebv.Props.C20`). -/

inductive Phase | entering | body | closing
deriving Repr, DecidableEq

structure CSt where
  st : St                          -- slot table; the mappings that hold an FMMU, in order of `begin`
  phase : List (Nat × Phase)       -- aligned with `st.live`: serial number of the mapping, where it stands
  next : Nat                       -- serial number of the next mapping
deriving Repr, DecidableEq

inductive Ev where
  | begin (write : Bool) (logical : Nat)
  | ack (id : Nat) (ok : Bool)
  | leave (id : Nat) (exc : Bool)
deriving Repr, DecidableEq

inductive COut where
  | waiting                -- suspended in a register write
  | done (o : Outcome)     -- `__aenter__` / `__aexit__` returned or raised
deriving Repr, DecidableEq

def cinit (n : Nat) : CSt := { st := init n, phase := [], next := 0 }

/-- position of mapping `id` among the holders -/
def posOf (c : CSt) (id : Nat) : Nat := c.phase.findIdx (·.1 == id)

/-- `finally` of the holder at position `k` -/
def release (cfg : Cfg) (c : CSt) (k : Nat) : CSt :=
  { c with st := (step cfg c.st (.exit k .exc)).1, phase := c.phase.eraseIdx k }

def beginResult (c : CSt) (r : St × Outcome × List Wr) : CSt × COut × List Wr :=
  match r.2.1 with
  | .entered _ => ({ st := r.1, phase := c.phase ++ [(c.next, .entering)], next := c.next + 1 }, .waiting, r.2.2)
  | o => ({ c with next := c.next + 1 }, .done o, [])

def ackResult (cfg : Cfg) (c : CSt) (k : Nat) (ok : Bool) : Option ((Nat × Phase) × Live) → CSt × COut × List Wr
  | some ((id, .entering), m) =>
    if ok then ({ c with phase := c.phase.set k (id, .body) }, .done (.entered m.index), [])
    else (release cfg c k, .done .busError, [])
  | some ((_, .closing), _) => (release cfg c k, .done (if ok then .exited else .busError), [])
  | _ => (c, .done .noop, [])

def leaveResult (cfg : Cfg) (c : CSt) (k : Nat) (exc : Bool) : Option ((Nat × Phase) × Live) → CSt × COut × List Wr
  | some ((id, .body), m) =>
    if exc then (release cfg c k, .done .exited, [])
    else ({ c with phase := c.phase.set k (id, .closing) }, .waiting, [deactivateWr m.index])
  | _ => (c, .done .noop, [])

def holder (c : CSt) (k : Nat) : Option ((Nat × Phase) × Live) :=
  match c.phase[k]?, c.st.live[k]? with
  | some p, some m => some (p, m)
  | _, _ => none

def cstep (cfg : Cfg) (c : CSt) : Ev → CSt × COut × List Wr
  | .begin w l => beginResult c (step cfg c.st (.enter w l false))
  | .ack id ok => ackResult cfg c (posOf c id) ok (holder c (posOf c id))
  | .leave id exc => leaveResult cfg c (posOf c id) exc (holder c (posOf c id))

def crun (cfg : Cfg) : CSt → List Ev → CSt
  | c, [] => c
  | c, e :: es => crun cfg (cstep cfg c e).1 es

def ctrace (cfg : Cfg) : CSt → List Ev → List (COut × List Wr × Table)
  | _, [] => []
  | c, e :: es =>
    let r := cstep cfg c e
    (r.2.1, r.2.2, r.1.st.table) :: ctrace cfg r.1 es

/-- the mappings whose body is running -/
def CSt.inBody (c : CSt) : List Live :=
  ((c.phase.zip c.st.live).filter (·.1.2 == .body)).map (·.2)

end Ebv.Fmmu
