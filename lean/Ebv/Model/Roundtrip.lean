import Ebv.Model.Bytes
import Ebv.Generated.Consts
/-! Model of the payload encoding and response decoding of `EtherCat.roundtrip`
(ebpfcat/ethercat.py) over its `*args` list of format strings and values and its
`data=` argument.  Format strings are lists of items `count code` over the codes
`b B h H i I q Q x s` (little endian, no alignment: every format is prefixed by `<`).

`struct.pack`/`struct.unpack` are modelled as: `pack` raises `struct.error` (here `none`)
iff the number or type of the values does not match the format or an integer is outside the
range of its code; `unpack` raises iff the buffer length differs from `calcsize`. -/
namespace Ebv.Roundtrip
open Ebv.Bytes

inductive Code where
  | b | B | h | H | i | I | q | Q | x | s
deriving Repr, DecidableEq

/-- `3H`, `2x`, `4s`; a bare code has count 1 -/
structure Item where
  count : Nat
  code : Code
deriving Repr, DecidableEq

abbrev Fmt := List Item

inductive Val where
  | int (v : Int)
  | bytes (bs : List UInt8)
deriving Repr, DecidableEq

/-- one positional argument of `roundtrip` after `cmd, pos, offset` -/
inductive Arg where
  | fmt (f : Fmt)          -- a `str`
  | val (v : Val)          -- anything else
deriving Repr, DecidableEq

/-- the `data=` keyword -/
inductive RawData where
  | none
  | bytes (bs : List UInt8)
  | count (n : Int)
deriving Repr, DecidableEq

def Code.size : Code → Nat
  | .b | .B | .x | .s => 1
  | .h | .H => 2
  | .i | .I => 4
  | .q | .Q => 8

def Code.signed : Code → Bool
  | .b | .h | .i | .q => true
  | _ => false

/-- `calcsize` of one item: `count` pad bytes, a `count`-byte string, or `count` integers -/
def itemSize (it : Item) : Nat := it.count * it.code.size

def calcsize (f : Fmt) : Nat := (f.map itemSize).sum

def fitsInt (c : Code) (v : Int) : Bool := if c.signed then fitsS c.size v else fitsU c.size v
def encInt (c : Code) (v : Int) : List UInt8 :=
  encLE c.size (if c.signed then ofSigned c.size v else v.toNat)
def decInt (c : Code) (bs : List UInt8) : Int :=
  if c.signed then toSigned c.size (decLE bs) else (decLE bs : Int)

/-- `n` integers of code `c` from the front of the value list -/
def packInts (c : Code) : Nat → List Val → Option (List UInt8 × List Val)
  | 0, vs => some ([], vs)
  | n + 1, .int v :: vs =>
    if fitsInt c v then (packInts c n vs).map fun r => (encInt c v ++ r.1, r.2) else none
  | _ + 1, _ => none

/-- `bytes` value for `Ns`: truncated or zero-padded to N -/
def fitStr (n : Nat) (bs : List UInt8) : List UInt8 := bs.take n ++ zeros (n - bs.length)

def packItem (it : Item) (vs : List Val) : Option (List UInt8 × List Val) :=
  match it.code with
  | .x => some (zeros it.count, vs)
  | .s =>
    match vs with
    | .bytes bs :: r => some (fitStr it.count bs, r)
    | _ => none
  | c => packInts c it.count vs

/-- `struct.pack("<" + f, *vs)`; every value must be used -/
def packAll : Fmt → List Val → Option (List UInt8)
  | [], [] => some []
  | [], _ :: _ => none
  | it :: f, vs =>
    match packItem it vs with
    | none => none
    | some (b, r) => (packAll f r).map (b ++ ·)

def decInts (c : Code) : Nat → List UInt8 → List Val
  | 0, _ => []
  | n + 1, bs => .int (decInt c (bs.take c.size)) :: decInts c n (bs.drop c.size)

def decItem (it : Item) (bs : List UInt8) : List Val :=
  match it.code with
  | .x => []
  | .s => [.bytes (bs.take it.count)]
  | c => decInts c it.count bs

/-- the fields of a buffer, item by item at consecutive offsets -/
def decodeAll : Fmt → List UInt8 → List Val
  | [], _ => []
  | it :: f, bs => decItem it (bs.take (itemSize it)) ++ decodeAll f (bs.drop (itemSize it))

/-- `struct.unpack("<" + f, bs)` -/
def unpackAll (f : Fmt) (bs : List UInt8) : Option (List Val) :=
  if bs.length = calcsize f then some (decodeAll f bs) else none

/-! ### roundtrip -/

def fmtsOf : List Arg → Fmt
  | [] => []
  | .fmt f :: as => f ++ fmtsOf as
  | .val _ :: as => fmtsOf as

def valsOf : List Arg → List Val
  | [] => []
  | .fmt _ :: as => valsOf as
  | .val v :: as => v :: valsOf as

/-- `args and isinstance(args[-1], str)`: the trailing read-only format -/
def trailing (args : List Arg) : Option Fmt :=
  match args.getLast? with
  | some (.fmt f) => some f
  | _ => none

def rawBytes : RawData → List UInt8
  | .none => []
  | .bytes bs => bs
  | .count n => zeros n.toNat          -- `b"\0" * n` (empty for n ≤ 0)

/-- the format the response is unpacked with: `fmt` after `fmt += args[-1]` -/
def fullFmt (args : List Arg) : Fmt := fmtsOf args.dropLast ++ (trailing args).getD []

/-- the payload put into the send queue; `none` = `struct.error` from `pack` -/
def encode (args : List Arg) (data : RawData) : Option (List UInt8) :=
  (packAll (fmtsOf args.dropLast) (valsOf args)).map fun out =>
    out ++ zeros (calcsize ((trailing args).getD [])) ++ rawBytes data

inductive Result where
  | tuple (vs : List Val)                               -- `unpack(fmt, ret)`
  | tupleRaw (vs : List Val) (tail : List UInt8)        -- `unpack(fmt, ret[:split]) + (ret[split:],)`
  | raw (bs : List UInt8)                               -- `ret`
deriving Repr, DecidableEq

/-- Python's slice index: `ret[:k]`/`ret[k:]` for any integer `k` on a buffer of `len` bytes -/
def pyIndex (len : Nat) (k : Int) : Nat :=
  if 0 ≤ k then min k.toNat len else len - (-k).toNat

/-- `len(data)` or the integer itself -/
def rawLen : RawData → Int
  | .none => 0
  | .bytes bs => bs.length
  | .count n => n

/-- what `roundtrip` returns for the response `ret`; `none` = `struct.error` from `unpack` -/
def decode (args : List Arg) (data : RawData) (ret : List UInt8) : Option Result :=
  match data with
  | .none => (unpackAll (fullFmt args) ret).map .tuple
  | _ =>
    if args.isEmpty then some (.raw ret)
    else
      let k := pyIndex ret.length ((ret.length : Int) - rawLen data)     -- `split = len(ret) - data`
      (unpackAll (fullFmt args) (ret.take k)).map fun vs => .tupleRaw vs (ret.drop k)

/-! ### the wire: the queued datagram travels through `sendloop` and `Packet.append`

`roundtrip` only puts the payload into the send queue; whether it reaches the bus is decided by
`Packet.append` (size check against `Packet.MAXSIZE`) inside `sendloop`: a datagram that does not
even fit into an empty packet gets `OverflowError`, every other one is shipped in this or the
next packet and its own bytes of the response come back (C12). -/

open Ebv.Consts in
/-- `Packet.append` on a packet of current size `size` for `len` data bytes: the new size, or
`none` for `OverflowError` (`newsize > MAXSIZE`) -/
def appendSize (size len : Nat) : Option Nat :=
  let newsize := size + len + DATAGRAM_HEADER + DATAGRAM_TAIL
  if newsize > MAXSIZE then none else some newsize

/-- does a datagram with `len` data bytes fit into an empty packet (`Packet()` starts at `PACKET_HEADER`)? -/
def sendable (len : Nat) : Bool := (appendSize Ebv.Consts.PACKET_HEADER len).isSome

/-- the largest payload one frame can carry -/
def maxPayload : Nat :=
  Ebv.Consts.MAXSIZE - (Ebv.Consts.PACKET_HEADER + Ebv.Consts.DATAGRAM_HEADER + Ebv.Consts.DATAGRAM_TAIL)

inductive Wire where
  | structError                                        -- `pack` refused the values, nothing queued
  | overflow                                           -- queued, but no frame can carry it: OverflowError
  | sent (out : List UInt8) (res : Option Result)      -- on the wire once; result (`none` = struct.error from unpack)
deriving Repr, DecidableEq

/-- one `roundtrip` call through queue, send loop and bus; `bus` maps the datagram's data on the
wire to the data of the response (working counter non-zero) -/
def wire (args : List Arg) (data : RawData) (bus : List UInt8 → List UInt8) : Wire :=
  match encode args data with
  | none => .structError
  | some out => if sendable out.length then .sent out (decode args data (bus out)) else .overflow

/-- several callers at once (`gather`): every request is decided by its own arguments and its own
response bytes only (that the send loop keeps them apart is C12) -/
def wireAll (reqs : List (List Arg × RawData × (List UInt8 → List UInt8))) : List Wire :=
  reqs.map fun r => wire r.1 r.2.1 r.2.2

end Ebv.Roundtrip
