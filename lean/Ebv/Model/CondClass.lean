import Ebv.Model.GenCond
/-! Defect classes of the unchanged comparison code, as decidable predicates on comparison object trees
(shape level).  The harness evaluates the same predicates on the real objects (harness/vh/props/c03.py,
compared in the correspondence) and refines them with the inputs; `Ebv.C03` refutes each on a witness and
excludes it from `C03_partial`. -/
namespace Ebv.Gen

/-- the width flag `calculate e _ None _` yields -/
def widthOf : Expr → Bool
  | .const v => !(decide (-2147483648 ≤ v) && decide (v < 4294967296))
  | .reg _ lg _ => lg
  | .bin _ l _ _ _ => widthOf l
  | .neg a => widthOf a
  | .abs a => widthOf a
  | .mem f _ => f.isLong

/-- what `SimpleComparison.compare` decides from the two operands -/
structure AtomInfo where
  lLong : Bool
  rImm : Bool
  want : Option Bool        -- width asked of the right operand
  rWidth : Bool             -- width the right operand is computed in
  rLong : Bool              -- `r_long`
  sg : Bool
  short : Bool              -- JMP32
  widen : Bool              -- `<<= 32; s>>= 32` on the left operand
deriving Repr

/-- `sg` = `l.signed || r.signed` of the objects as built; by `Gen.elabC_cmp_sg` / `elab_psigned` (Lemmas/TypingCond.lean)
that is the property-level signedness of the comparison as written (`SExpr.psigned`), which is what the harness hands to
its mirror `dsl_cond.atom_info` (`atom_psigned`: from the program text, never from the real objects' attributes) -/
def atomInfo (l r : Expr) : AtomInfo :=
  let lLong := widthOf l
  let rImm := r.asSmallConst.isSome
  let want : Option Bool := if (l.signed || r.signed) && lLong then some true else none
  let rWidth := want.getD (widthOf r)
  let rLong := !rImm && (match want with | some b => retLong b r | none => widthOf r)
  let sg := l.signed || r.signed
  ⟨lLong, rImm, want, rWidth, rLong, sg, sg && !lLong && !rLong, sg && !lLong && rLong⟩

def isShortReg : Expr → Bool
  | .reg _ lg _ => !lg
  | _ => false

/-- *narrow-reg-in-64* at the comparison: a `w`/`sw` register view is compared with all 64 bits of the register
(64-bit jump, operand not widened), or sits inside a 64-bit operand computation (C01's predicate) -/
def cmpNarrow (l r : Expr) : Bool :=
  let a := atomInfo l r
  (!a.short && ((isShortReg l && !a.widen) || (!a.rImm && isShortReg r))) ||
    narrowIn64 l a.lLong false .any || (!a.rImm && narrowIn64 r a.rWidth false .any)

/-- *widen-in-place*: the widening shift pair is applied to the left operand's own register -/
def widenInPlace (l r : Expr) : Bool := (atomInfo l r).widen && regChain l

/-- the operand mentions a value of at most 4 bytes (the property's width rule: such a leaf makes W = 32) -/
def narrowLeaf : Expr → Bool
  | .const _ => false
  | .reg _ lg _ => !lg
  | .bin _ l r _ _ => narrowLeaf l || narrowLeaf r
  | .neg a => narrowLeaf a
  | .abs a => narrowLeaf a
  | .mem f _ => !f.isLong

def isConstE : Expr → Bool
  | .const _ => true
  | _ => false

/-- *const-left-32*: a compound operand is computed in 32 bits (width `None` takes the width of the leftmost
operand, here a constant) although every variable and register in it is 64 bits wide -/
def constLeft32 (e : Expr) (w : Bool) : Bool := !w && !narrowLeaf e && !isConstE e

def atomClasses (l r : Expr) : List String :=
  let a := atomInfo l r
  ([("narrow-reg-in-64", cmpNarrow l r),
    ("widen-in-place", widenInPlace l r),
    ("const-left-32", constLeft32 l a.lLong || (!a.rImm && constLeft32 r a.rWidth))].filter (·.2)).map (·.1)

def CObj.classes : CObj → List String
  | .simple _ _ l r => atomClasses l r
  | .bits l r => atomClasses l r
  | .andor _ a b => a.classes ++ b.classes
  | .inv a => a.classes

def condClasses (env : List VarLoc) (c : SCond) : List String :=
  match elabC env c with | .ok o => o.classes | .error _ => []

/-- class names of a statement program (assignments: C01's classes) -/
def stmtClassesS (env : List VarLoc) : SStmt → List String
  | .skip => []
  | .set d e => stmtClasses env (.set d e)
  | .seq a b => stmtClassesS env a ++ stmtClassesS env b
  | .ifThen c a => condClasses env c ++ stmtClassesS env a
  | .ifElse c a b => condClasses env c ++ stmtClassesS env a ++ stmtClassesS env b
  | .jif c a => condClasses env c ++ stmtClassesS env a
  | .jifElse c a b => condClasses env c ++ stmtClassesS env a ++ stmtClassesS env b

def progClasses (env : List VarLoc) (_owned : List Nat) (s : SStmt) : List String :=
  (stmtClassesS env s).eraseDups

end Ebv.Gen
